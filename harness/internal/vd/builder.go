package vd

import (
	"fmt"
	"math/rand"
	"strings"

	seccomp "github.com/elastic/go-seccomp-bpf"
	"golang.org/x/net/bpf"
)

// BCall is one call of the public builder API.
type BCall struct {
	Kind   string // set | jif | jt | ret | ldhi | ldlo
	Test   bpf.JumpTest
	K      uint32
	TL, FL int // harness label ids (index into the labels allocated with NewLabel); -1 = unallocated raw label value in Raw
	RawTL  int // when TL < 0: the literal Label value to use
	RawFL  int
	Arg    uint32
}

type BProg struct {
	Endian  string
	NLabels int
	Calls   []BCall
	Tags    map[string]bool
}

var allTests = []bpf.JumpTest{bpf.JumpEqual, bpf.JumpNotEqual, bpf.JumpGreaterThan, bpf.JumpLessThan,
	bpf.JumpGreaterOrEqual, bpf.JumpLessOrEqual, bpf.JumpBitsSet, bpf.JumpBitsNotSet}

// Run drives the real builder and returns the protocol request (with the Label values the
// library handed out) and the library's reply.
func (bp *BProg) Run() (req, reply string, insts []bpf.Instruction) {
	var b strings.Builder
	fmt.Fprintf(&b, "B %s %d", bp.Endian, len(bp.Calls)+bp.NLabels)
	for i := 0; i < bp.NLabels; i++ {
		b.WriteString(" new")
	}
	defer func() {
		if r := recover(); r != nil {
			reply = "PANIC " + Hex(fmt.Sprint(r))
			insts = nil
		}
		req = b.String()
	}()
	prev := seccomp.VerifSetNativeEndian(order(bp.Endian))
	defer seccomp.VerifSetNativeEndian(prev)
	p := seccomp.NewProgram()
	labels := make([]seccomp.Label, bp.NLabels)
	for i := range labels {
		labels[i] = p.NewLabel()
	}
	lab := func(id, raw int) seccomp.Label {
		if id >= 0 {
			return labels[id]
		}
		return seccomp.Label(raw)
	}
	// render the whole request first (so that a panic in the middle still has it)
	for _, c := range bp.Calls {
		switch c.Kind {
		case "set":
			fmt.Fprintf(&b, " set:%d", lab(c.TL, c.RawTL))
		case "jif":
			fmt.Fprintf(&b, " jif:%s:%d:%d:%d", condNames[c.Test], c.K, lab(c.TL, c.RawTL), lab(c.FL, c.RawFL))
		case "jt":
			fmt.Fprintf(&b, " jt:%s:%d:%d", condNames[c.Test], c.K, lab(c.TL, c.RawTL))
		case "ret":
			fmt.Fprintf(&b, " ret:%d", c.K)
		case "ldhi":
			fmt.Fprintf(&b, " ldhi:%d", c.Arg)
		case "ldlo":
			fmt.Fprintf(&b, " ldlo:%d", c.Arg)
		}
	}
	for _, c := range bp.Calls {
		switch c.Kind {
		case "set":
			p.SetLabel(lab(c.TL, c.RawTL))
		case "jif":
			p.JmpIf(c.Test, c.K, lab(c.TL, c.RawTL), lab(c.FL, c.RawFL))
		case "jt":
			p.JmpIfTrue(c.Test, c.K, lab(c.TL, c.RawTL))
		case "ret":
			p.Ret(seccomp.Action(c.K))
		case "ldhi":
			p.LdHi(c.Arg)
		case "ldlo":
			p.LdLo(c.Arg)
		}
	}
	out, err := p.Assemble()
	if err != nil {
		if out != nil {
			return "", "ERR-WITH-PROGRAM " + Hex(err.Error()), nil
		}
		return "", ClassifyError(err), nil
	}
	return "", RenderProg(out), out
}

var distances = []int{0, 1, 1, 2, 3, 10, 100, 253, 254, 255, 256, 257, 258, 300, 509, 510, 511, 512, 513, 700, 1024}

// GenBuilder generates a builder program.  mode "wf" = forward jumps only, each label
// placed once, ends in a return; "any" additionally applies one malformation.
func GenBuilder(r *rand.Rand, mode string) *BProg {
	bp := &BProg{Endian: "le", Tags: map[string]bool{}}
	if r.Intn(2) == 0 {
		bp.Endian = "be"
	}
	// number of instructions: small, medium or long
	var n int
	switch r.Intn(6) {
	case 0:
		n = 2 + r.Intn(6)
	case 1, 2:
		n = 10 + r.Intn(60)
	case 3, 4:
		n = 260 + r.Intn(400)
	default:
		n = 700 + r.Intn(900)
	}
	type ins struct {
		kind   string
		test   bpf.JumpTest
		k      uint32
		tl, fl int // target positions (instruction index), -1 = next (JmpIfTrue)
		arg    uint32
	}
	prog := make([]ins, n)
	jumpDensity := []int{2, 4, 8, 30}[r.Intn(4)]
	retDensity := []int{6, 20, 60}[r.Intn(3)]
	for i := 0; i < n-1; i++ {
		switch {
		case r.Intn(jumpDensity) == 0 && i+1 < n:
			target := func() int {
				d := distances[r.Intn(len(distances))]
				if r.Intn(4) == 0 {
					d = r.Intn(n)
				}
				t := i + 1 + d
				if t > n-1 {
					t = n - 1 - r.Intn(min(3, n-1-i))
				}
				if t <= i {
					t = i + 1
				}
				return t
			}
			in := ins{kind: "jif", test: allTests[r.Intn(8)], k: r.Uint32() >> uint(r.Intn(32)), tl: target(), fl: target()}
			if r.Intn(2) == 0 {
				in.kind = "jt"
				in.fl = -1
			}
			if in.kind == "jif" && in.tl == i+1 && in.fl == i+1 {
				in.fl = min(i+2, n-1) // avoid the useless jump in well-formed programs
				if in.fl == i+1 {
					in.kind = "ldhi"
				}
			}
			if in.kind == "jt" && in.tl == i+1 {
				in.tl = min(i+2, n-1)
				if in.tl == i+1 {
					in.kind = "ldlo"
				}
			}
			prog[i] = in
		case r.Intn(retDensity) == 0:
			prog[i] = ins{kind: "ret", k: []uint32{0, 0x7fff0000, 0x00050000, 0x80000000, r.Uint32()}[r.Intn(5)]}
		case r.Intn(2) == 0:
			prog[i] = ins{kind: "ldhi", arg: uint32(r.Intn(6))}
		default:
			prog[i] = ins{kind: "ldlo", arg: uint32(r.Intn(6))}
		}
	}
	prog[n-1] = ins{kind: "ret", k: r.Uint32()}
	if r.Intn(50) == 0 {
		prog[r.Intn(n)].arg = []uint32{6, 0x1FFFFFFE, 0xFFFFFFFF, 0x20000000}[r.Intn(4)]
	}
	// A far label that marks a return, and the *same* return value once more at a boundary distance from the jump
	// (what "reuse a return that is already in reach" would look for), the instruction behind the jump returning
	// something else.
	if n >= 300 && r.Intn(5) == 0 {
		i := r.Intn(n - 290)
		room := n - 2 - (i + 1) // largest usable distance
		if room >= 259 {
			d := 258 + r.Intn(min(room-258, 500)+1)
			sk := []int{253, 254, 255, 256, 257}[r.Intn(5)]
			val := []uint32{0x00030000, 0x00050001, 0x7ffc0000, 0x80000000}[r.Intn(4)]
			in := ins{kind: "jt", test: allTests[r.Intn(8)], k: r.Uint32() >> uint(r.Intn(32)), tl: i + 1 + d, fl: -1}
			if r.Intn(2) == 0 {
				in.kind, in.fl = "jif", i+1+[]int{1, 2, 3, 300}[r.Intn(4)]
				if in.fl > n-1 {
					in.fl = n - 1
				}
			}
			prog[i] = in
			prog[i+1+d] = ins{kind: "ret", k: val}
			prog[i+1+sk] = ins{kind: "ret", k: val}
			if r.Intn(2) == 0 {
				prog[i+1] = ins{kind: "ret", k: 0x7fff0000}
			}
			bp.Tags["same-return-at-boundary-distance-before-a-far-return-label"] = true
		}
	}
	// labels: one per distinct (target position), shared between jumps with probability 1/2
	labelAt := map[int][]int{} // position -> label ids placed there
	newLabel := func(pos int) int {
		if ids := labelAt[pos]; len(ids) > 0 && r.Intn(2) == 0 {
			bp.Tags["shared-label"] = true
			return ids[r.Intn(len(ids))]
		}
		id := bp.NLabels
		bp.NLabels++
		labelAt[pos] = append(labelAt[pos], id)
		return id
	}
	type jl struct{ tl, fl int }
	jls := make([]jl, n)
	for i, in := range prog {
		if in.kind == "jif" || in.kind == "jt" {
			jls[i].tl = newLabel(in.tl)
			if in.kind == "jif" {
				jls[i].fl = newLabel(in.fl)
			}
			d1 := in.tl - i - 1
			d2 := in.fl - i - 1
			if d1 > 255 {
				bp.Tags["far-true"] = true
			}
			if in.kind == "jif" && d2 > 255 {
				bp.Tags["far-false"] = true
			}
			if in.kind == "jif" && d1 > 255 && d2 > 255 {
				bp.Tags["both-far"] = true
			}
			if d1 == 255 || d2 == 255 {
				bp.Tags["dist-255"] = true
			}
			if d1 == 256 || d2 == 256 {
				bp.Tags["dist-256"] = true
			}
			if d1 > 1 || d2 > 1 {
				bp.Tags["nontrivial-jump"] = true
			}
			if d1 > 255 || d2 > 255 {
				switch prog[in.tl].kind {
				case "ret":
					bp.Tags["far-target-ret"] = true
				case "jif", "jt":
					bp.Tags["far-target-jump"] = true
				default:
					bp.Tags["far-target-load"] = true
				}
			}
		}
	}
	for i, in := range prog {
		for _, id := range labelAt[i] {
			bp.Calls = append(bp.Calls, BCall{Kind: "set", TL: id})
		}
		switch in.kind {
		case "jif":
			bp.Calls = append(bp.Calls, BCall{Kind: "jif", Test: in.test, K: in.k, TL: jls[i].tl, FL: jls[i].fl})
		case "jt":
			bp.Calls = append(bp.Calls, BCall{Kind: "jt", Test: in.test, K: in.k, TL: jls[i].tl})
		case "ret":
			bp.Calls = append(bp.Calls, BCall{Kind: "ret", K: in.k})
		default:
			bp.Calls = append(bp.Calls, BCall{Kind: in.kind, Arg: in.arg})
		}
	}
	if n > 255 {
		bp.Tags["long"] = true
	}
	if mode == "wf" {
		bp.Tags["wf"] = true
		return bp
	}
	// one malformation
	sets := []int{}
	jumps := []int{}
	for i, c := range bp.Calls {
		if c.Kind == "set" {
			sets = append(sets, i)
		}
		if c.Kind == "jif" || c.Kind == "jt" {
			jumps = append(jumps, i)
		}
	}
	m := []string{"drop-set", "move-set-front", "dup-set-later", "dup-set-earlier", "label-at-end", "no-final-ret",
		"useless", "raw-label", "set-unused"}[r.Intn(9)]
	bp.Tags["malformed:"+m] = true
	switch m {
	case "drop-set":
		if len(sets) > 0 {
			i := sets[r.Intn(len(sets))]
			bp.Calls = append(append([]BCall{}, bp.Calls[:i]...), bp.Calls[i+1:]...)
		}
	case "move-set-front":
		if len(sets) > 0 {
			i := sets[r.Intn(len(sets))]
			c := bp.Calls[i]
			rest := append(append([]BCall{}, bp.Calls[:i]...), bp.Calls[i+1:]...)
			pos := r.Intn(i + 1)
			bp.Calls = append(append(append([]BCall{}, rest[:pos]...), c), rest[pos:]...)
		}
	case "dup-set-later", "dup-set-earlier":
		if len(sets) > 0 {
			i := sets[r.Intn(len(sets))]
			c := bp.Calls[i]
			pos := r.Intn(len(bp.Calls) + 1)
			if m == "dup-set-later" {
				pos = i + r.Intn(len(bp.Calls)-i+1)
			} else {
				pos = r.Intn(i + 1)
			}
			bp.Calls = append(append(append([]BCall{}, bp.Calls[:pos]...), c), bp.Calls[pos:]...)
		}
	case "label-at-end":
		if len(jumps) > 0 {
			j := jumps[r.Intn(len(jumps))]
			id := bp.NLabels
			bp.NLabels++
			bp.Calls[j].TL = id
			bp.Calls = append(bp.Calls, BCall{Kind: "set", TL: id})
		}
	case "no-final-ret":
		bp.Calls = bp.Calls[:len(bp.Calls)-1]
		bp.Calls = append(bp.Calls, BCall{Kind: "ldlo", Arg: 0})
	case "useless":
		// both branches onto the next instruction
		pos := r.Intn(len(bp.Calls))
		id := bp.NLabels
		bp.NLabels++
		ins := []BCall{{Kind: "jif", Test: bpf.JumpEqual, K: 7, TL: id, FL: id}, {Kind: "set", TL: id}}
		bp.Calls = append(append(append([]BCall{}, bp.Calls[:pos]...), ins...), bp.Calls[pos:]...)
	case "raw-label":
		if len(jumps) > 0 {
			j := jumps[r.Intn(len(jumps))]
			bp.Calls[j].TL = -1
			bp.Calls[j].RawTL = []int{0, 1, -5, 1 << 40, 2, 3}[r.Intn(6)]
		}
	case "set-unused":
		pos := r.Intn(len(bp.Calls) + 1)
		c := BCall{Kind: "set", TL: -1, RawTL: []int{0, -1, 99999}[r.Intn(3)]}
		bp.Calls = append(append(append([]BCall{}, bp.Calls[:pos]...), c), bp.Calls[pos:]...)
	}
	return bp
}

func min(a, b int) int {
	if a < b {
		return a
	}
	return b
}
