package vd

import (
	"math/rand"
	"sort"
)

var tableNamesCache = map[string][]string{}

// TableNames returns the names of an architecture's table, sorted (deterministic).
func TableNames(archName string) []string {
	if n, ok := tableNamesCache[archName]; ok {
		return n
	}
	info := ArchInfo(archName)
	names := make([]string, 0, len(info.SyscallNames))
	for n := range info.SyscallNames {
		names = append(names, n)
	}
	sort.Strings(names)
	tableNamesCache[archName] = names
	return names
}

var NamedActions = []uint32{0x00000000, 0x80000000, 0x00030000, 0x00050000, 0x7ff00000, 0x7ffc0000, 0x7fff0000}
var Ops = []string{"Equal", "NotEqual", "GreaterThan", "LessThan", "GreaterOrEqual", "LessOrEqual", "BitsSet", "BitsNotSet"}
var TableArches = []string{"x86_64", "i386", "arm", "aarch64"}

func boolU(b bool) uint64 {
	if b {
		return 1
	}
	return 0
}

func pick(r *rand.Rand, xs []string) string { return xs[r.Intn(len(xs))] }

// Operand draws a 64-bit operand from classes that matter for the hi/lo split.
func Operand(r *rand.Rand) uint64 {
	if r.Intn(8) == 0 {
		// one half at an extreme, the other arbitrary or near an extreme: negative numbers seen as
		// unsigned (AT_FDCWD = -100), multiples of 2^32, values just below them
		hi := []uint32{0, 1, 0x7FFFFFFF, 0x80000000, 0xFFFFFFFE, 0xFFFFFFFF, r.Uint32()}[r.Intn(7)]
		lo := []uint32{0, 1, 0x7FFFFFFF, 0x80000000, 0xFFFFFFFE, 0xFFFFFFFF, 0xFFFFFF9C, r.Uint32()}[r.Intn(8)]
		return uint64(hi)<<32 | uint64(lo)
	}
	switch r.Intn(12) {
	case 0:
		return 0
	case 1:
		return 1
	case 2:
		return 0xFFFFFFFF
	case 3:
		return 0x100000000
	case 4:
		return 0x100000001
	case 5:
		return uint64(r.Uint32()) << 32 // hi only
	case 6:
		return uint64(r.Uint32()) // lo only
	case 7:
		return 0xFFFFFFFFFFFFFFFF
	case 8:
		return 0x8000000000000000
	case 9:
		return uint64(r.Intn(512)) // looks like a syscall number
	default:
		return r.Uint64()
	}
}

func anyAction(r *rand.Rand) uint32 {
	switch r.Intn(10) {
	case 0:
		return r.Uint32()
	case 1:
		return 0x7fc00000 // user_notif: a constant of the package that has no name
	case 2:
		return 0x00050000 | uint32(r.Intn(4096)) // errno with data
	default:
		return NamedActions[r.Intn(len(NamedActions))]
	}
}

func genConds(r *rand.Rand, max int) []Cond {
	n := 1 + r.Intn(max)
	if max > 8 && r.Intn(4) == 0 {
		// very long single lists: beyond one and beyond two bridge distances
		n = []int{63, 64, 65, 66, 100, 128, 129, 130, 200, 300}[r.Intn(10)]
	}
	cs := make([]Cond, n)
	for i := range cs {
		cs[i] = Cond{Arg: uint32(r.Intn(6)), Op: Ops[r.Intn(len(Ops))], Val: Operand(r)}
	}
	if n > 8 && r.Intn(4) != 0 {
		// keep most long lists jointly satisfiable (an event that passes every condition exercises
		// every jump of the list): one fixed value per argument, and each condition is one that this
		// value passes — with operands that are still interesting
		var want [6]uint64
		for a := range want {
			want[a] = Operand(r)
		}
		for i := range cs {
			v := want[cs[i].Arg]
			switch r.Intn(8) {
			case 0:
				cs[i].Op, cs[i].Val = "Equal", v
			case 1:
				cs[i].Op, cs[i].Val = "GreaterOrEqual", v-uint64(r.Intn(3))*boolU(v > 2)
			case 2:
				cs[i].Op, cs[i].Val = "LessOrEqual", v+uint64(r.Intn(3))*boolU(v < ^uint64(0)-2)
			case 3:
				cs[i].Op, cs[i].Val = "NotEqual", v^(1<<uint(r.Intn(64)))
			case 4:
				cs[i].Op, cs[i].Val = "BitsSet", v&Operand(r)
				if cs[i].Val == 0 { // BitsSet 0 never matches
					cs[i].Op, cs[i].Val = "BitsNotSet", 0
				}
			case 5:
				cs[i].Op, cs[i].Val = "BitsNotSet", ^v&Operand(r)
			case 6:
				if v > 0 {
					cs[i].Op, cs[i].Val = "GreaterThan", v-1
				} else {
					cs[i].Op, cs[i].Val = "GreaterOrEqual", 0
				}
			default:
				if v < ^uint64(0) {
					cs[i].Op, cs[i].Val = "LessThan", v+1
				} else {
					cs[i].Op, cs[i].Val = "LessOrEqual", v
				}
			}
		}
	}
	// repeated arguments are interesting (several conditions on one argument)
	if n > 1 && r.Intn(3) == 0 {
		cs[n-1].Arg = cs[0].Arg
	}
	return cs
}

// distinctNames draws k distinct names of the table.
func distinctNames(r *rand.Rand, table []string, k int) []string {
	if k > len(table) {
		k = len(table)
	}
	idx := r.Perm(len(table))[:k]
	out := make([]string, k)
	for i, j := range idx {
		out[i] = table[j]
	}
	return out
}

var byNumberCache = map[string][]string{}

// runNames returns k names of the table whose syscall numbers are neighbours in the table's
// number order (a consecutive run wherever the table has no hole), with stride 1 or 2,
// ascending, descending or shuffled.
func runNames(r *rand.Rand, archName string, k int) []string {
	names, ok := byNumberCache[archName]
	if !ok {
		info := ArchInfo(archName)
		names = append([]string{}, TableNames(archName)...)
		sort.SliceStable(names, func(i, j int) bool { return info.SyscallNames[names[i]] < info.SyscallNames[names[j]] })
		byNumberCache[archName] = names
	}
	stride := 1
	if r.Intn(5) == 0 {
		stride = 2
	}
	if k*stride > len(names) {
		stride = 1
	}
	if k > len(names) {
		k = len(names)
	}
	start := 0
	if r.Intn(5) != 0 { // most runs do not start at the lowest number
		start = r.Intn(len(names) - k*stride + 1)
	}
	out := make([]string, 0, k)
	for i := 0; i < k; i++ {
		out = append(out, names[start+i*stride])
	}
	switch r.Intn(3) {
	case 1:
		for i, j := 0, len(out)-1; i < j; i, j = i+1, j-1 {
			out[i], out[j] = out[j], out[i]
		}
	case 2:
		r.Shuffle(len(out), func(i, j int) { out[i], out[j] = out[j], out[i] })
	}
	return out
}

func dedup(xs []string) []string {
	seen := map[string]bool{}
	out := xs[:0:0]
	for _, x := range xs {
		if !seen[x] {
			seen[x] = true
			out = append(out, x)
		}
	}
	return out
}

var groupSizes = []int{0, 1, 1, 2, 2, 3, 5, 10, 10, 40, 120, 254, 255, 256, 257, 258}

// GenValid generates a policy that is free of the defects of C07.
// profile: "names" (no conditions), "single" (one single-condition entry per policy, C02),
// "conds" (conditional mixes, C03), "long" (forces programs beyond 255 instructions), "mix".
func GenValid(r *rand.Rand, profile string) *Policy {
	p := &Policy{Arch: pick(r, TableArches), Endian: "le"}
	if r.Intn(2) == 0 {
		p.Endian = "be"
	}
	if r.Intn(12) == 0 {
		// the x32 table: same audit architecture as x86_64 (so the x32 guard applies), numbers with the x32 bit
		p.Arch = "x32"
	}
	table := TableNames(p.Arch)
	p.Default = NamedActions[r.Intn(len(NamedActions))]
	if profile == "single" {
		c := Cond{Arg: uint32(r.Intn(6)), Op: Ops[r.Intn(len(Ops))], Val: Operand(r)}
		g := Group{Action: anyAction(r), WithConds: []NameConds{{Name: pick(r, table), Conds: []Cond{c}}}}
		p.Groups = []Group{g}
		return p
	}
	ng := 1 + r.Intn(4)
	if r.Intn(8) == 0 {
		ng = 5 + r.Intn(3)
	}
	// many groups (what a fixed-size table, an 8-bit group index or a per-group jump budget would stumble over)
	manyGroups := r.Intn(16) == 0
	if manyGroups {
		ng = []int{8, 9, 15, 16, 17, 31, 32, 33, 64, 65, 100, 127, 128, 129, 255, 256, 257, 300}[r.Intn(18)]
	}
	for gi := 0; gi < ng; gi++ {
		g := Group{Action: anyAction(r)}
		size := groupSizes[r.Intn(len(groupSizes))]
		if manyGroups {
			size = r.Intn(4)
		}
		switch profile {
		case "conds":
			size = r.Intn(6)
		case "long":
			if gi == 0 {
				size = 200 + r.Intn(120)
			}
		case "names":
			if r.Intn(40) == 0 {
				size = len(table)
			}
		}
		used := distinctNames(r, table, size+6)
		if size >= 2 && size < len(used) && r.Intn(4) == 0 {
			// names whose numbers form a run (what a range-check optimisation would look for)
			used = append(runNames(r, p.Arch, size), used[size:]...)
			used = dedup(used)
		}
		nUn := size
		if nUn > len(used) {
			nUn = len(used)
		}
		g.Names = used[:nUn]
		rest := used[nUn:]
		if profile != "names" && len(rest) > 0 {
			nc := r.Intn(4)
			if profile == "conds" {
				nc = 1 + r.Intn(4)
			}
			if profile == "long" && r.Intn(2) == 0 {
				nc = 1 + r.Intn(3)
			}
			for k := 0; k < nc; k++ {
				name := rest[r.Intn(len(rest))]
				maxc := 4
				if profile == "long" && r.Intn(3) == 0 {
					maxc = 90
				} else if r.Intn(10) == 0 {
					maxc = 8
				}
				g.WithConds = append(g.WithConds, NameConds{Name: name, Conds: genConds(r, maxc)})
			}
		}
		if r.Intn(6) == 0 {
			// nil versus empty slices
			if len(g.Names) == 0 {
				g.Names = []string{}
			}
		}
		p.Groups = append(p.Groups, g)
	}
	// an entry with many short alternatives (8 … 70 lists for one syscall, appended or spread over the group)
	if profile != "names" && profile != "single" && r.Intn(12) == 0 {
		gi := r.Intn(len(p.Groups))
		g := &p.Groups[gi]
		if len(g.WithConds) > 0 {
			name := g.WithConds[r.Intn(len(g.WithConds))].Name
			k := []int{8, 20, 63, 64, 65, 70}[r.Intn(6)]
			spread := r.Intn(2) == 0
			for i := 0; i < k; i++ {
				nc := NameConds{Name: name, Conds: []Cond{{Arg: uint32(r.Intn(6)), Op: Ops[r.Intn(len(Ops))], Val: Operand(r)}}}
				if spread && len(g.WithConds) > 0 {
					at := r.Intn(len(g.WithConds) + 1)
					g.WithConds = append(g.WithConds[:at], append([]NameConds{nc}, g.WithConds[at:]...)...)
				} else {
					g.WithConds = append(g.WithConds, nc)
				}
			}
		}
	}
	// related condition lists for the same syscall in one group (merged into one entry, OR of lists):
	// exact duplicates, a changed operand, a repeated argument in front (the per-argument last
	// conditions stay the same), a permutation, a dropped condition
	if profile != "names" && profile != "single" {
		for gi := range p.Groups {
			g := &p.Groups[gi]
			if len(g.WithConds) == 0 || r.Intn(3) != 0 {
				continue
			}
			src := g.WithConds[r.Intn(len(g.WithConds))]
			if len(src.Conds) == 0 {
				continue
			}
			cs := append([]Cond{}, src.Conds...)
			atFront := false
			switch r.Intn(9) {
			case 0: // exact duplicate
			case 1:
				cs[len(cs)-1].Val = Operand(r)
			case 2:
				k := cs[r.Intn(len(cs))]
				front := Cond{Arg: k.Arg, Op: Ops[r.Intn(len(Ops))], Val: Operand(r)}
				cs = append([]Cond{front}, cs...)
			case 3:
				r.Shuffle(len(cs), func(i, j int) { cs[i], cs[j] = cs[j], cs[i] })
			case 4:
				cs = cs[1:]
				if len(cs) == 0 {
					cs = []Cond{{Arg: src.Conds[0].Arg, Op: "NotEqual", Val: src.Conds[0].Val}}
				}
			case 5:
				cs[0].Op = Ops[r.Intn(len(Ops))]
			case 6: // a strict prefix of the earlier list (the more general alternative comes later)
				if len(cs) > 1 {
					cs = cs[:1+r.Intn(len(cs)-1)]
				}
			case 7: // an extension of the earlier list
				cs = append(cs, Cond{Arg: uint32(r.Intn(6)), Op: Ops[r.Intn(len(Ops))], Val: Operand(r)})
			case 8: // a strict prefix that comes first
				if len(cs) > 1 {
					cs = cs[:1+r.Intn(len(cs)-1)]
				}
				atFront = true
			}
			if atFront {
				g.WithConds = append([]NameConds{{Name: src.Name, Conds: cs}}, g.WithConds...)
				continue
			}
			g.WithConds = append(append([]NameConds{}, g.WithConds...), NameConds{Name: src.Name, Conds: cs})
		}
	}
	// the same syscall in several groups, conditional in one and not in another
	if len(p.Groups) > 1 && r.Intn(3) == 0 {
		a, b := r.Intn(len(p.Groups)), r.Intn(len(p.Groups))
		if a != b && len(p.Groups[a].Names) > 0 {
			n := p.Groups[a].Names[0]
			gb := &p.Groups[b]
			dup := false
			for _, x := range gb.Names {
				dup = dup || x == n
			}
			for _, x := range gb.WithConds {
				dup = dup || x.Name == n
			}
			if !dup {
				if r.Intn(2) == 0 && profile != "names" {
					gb.WithConds = append(gb.WithConds, NameConds{Name: n, Conds: genConds(r, 3)})
				} else {
					gb.Names = append(append([]string{}, gb.Names...), n)
				}
			}
		}
	}
	return p
}

var weirdNames = []string{"", "%s", "%d%n", "read\x00", "READ", " read", "read ", "no_such_call", "\xff\xfe", "réad",
	"a\nb", "found duplicate syscall read", "ｒｅａｄ", "open\t"}
var weirdOps = []string{"", "equal", "EQUAL", "Equal ", "Eq", "==", "BitsSet\x00", "NotEqual\n", "%s", "GreaterThen", "LessOrEqual1"}

// Defects that C07 lists, injected into an otherwise valid policy.
var Defects = []string{"default", "nogroups", "unknown-name", "unknown-condname", "dup-name", "mixed", "argument", "operation",
	"dup-condname-ok", "empty-conds-ok", "alias-dup"}

// foreignName returns a name that is a syscall in some other table of the library but not in this one
// ("socketcall" or "_llseek" for x86_64, "open" for aarch64): unknown for the policy's architecture all the same.
func foreignName(r *rand.Rand, archName string) string {
	own := ArchInfo(archName).SyscallNames
	for t := 0; t < 40; t++ {
		other := TableArches[r.Intn(len(TableArches))]
		if other == archName {
			continue
		}
		names := TableNames(other)
		n := names[r.Intn(len(names))]
		if _, found := own[n]; !found {
			return n
		}
	}
	return "no_such_call"
}

// Inject applies one defect at a random position; it returns false if the policy has no place for it.
func Inject(r *rand.Rand, p *Policy, defect string) bool {
	table := TableNames(p.Arch)
	nonEmpty := func(needNames, needConds bool) []int {
		var idx []int
		for i, g := range p.Groups {
			if (!needNames || len(g.Names) > 0) && (!needConds || len(g.WithConds) > 0) {
				idx = append(idx, i)
			}
		}
		return idx
	}
	switch defect {
	case "default":
		for {
			v := r.Uint32()
			switch r.Intn(4) {
			case 0:
				v = 0x7fc00000 // user_notif: defined, but not a named action
			case 1:
				v = 0x00050001
			case 2:
				v = 0x7fff0001
			}
			named := false
			for _, a := range NamedActions {
				named = named || a == v
			}
			if !named {
				p.Default = v
				return true
			}
		}
	case "nogroups":
		if r.Intn(2) == 0 {
			p.Groups = nil
		} else {
			p.Groups = []Group{}
		}
		return true
	case "unknown-name":
		gi := r.Intn(len(p.Groups))
		g := &p.Groups[gi]
		pos := r.Intn(len(g.Names) + 1)
		name := weirdNames[r.Intn(len(weirdNames))]
		if r.Intn(2) == 0 {
			name = foreignName(r, p.Arch)
		}
		if _, found := ArchInfo(p.Arch).SyscallNames[name]; found {
			return false
		}
		names := append([]string{}, g.Names[:pos]...)
		names = append(names, name)
		g.Names = append(names, g.Names[pos:]...)
		return true
	case "unknown-condname":
		gi := r.Intn(len(p.Groups))
		g := &p.Groups[gi]
		name := weirdNames[r.Intn(len(weirdNames))]
		if r.Intn(2) == 0 {
			name = foreignName(r, p.Arch)
		}
		if _, found := ArchInfo(p.Arch).SyscallNames[name]; found {
			return false
		}
		pos := r.Intn(len(g.WithConds) + 1)
		wc := append([]NameConds{}, g.WithConds[:pos]...)
		wc = append(wc, NameConds{Name: name, Conds: genConds(r, 2)})
		g.WithConds = append(wc, g.WithConds[pos:]...)
		return true
	case "dup-name":
		idx := nonEmpty(true, false)
		if len(idx) == 0 {
			return false
		}
		g := &p.Groups[idx[r.Intn(len(idx))]]
		if len(g.Names) <= 32 && r.Intn(3) == 0 {
			// a long list (beyond what a quadratic search would be kept for)
			have := map[string]bool{}
			for _, n := range g.Names {
				have[n] = true
			}
			for _, nc := range g.WithConds {
				have[nc.Name] = true
			}
			grown := append([]string{}, g.Names...)
			want := 33 + r.Intn(40)
			for _, n := range distinctNames(r, table, want+len(have)) {
				if len(grown) >= want {
					break
				}
				if !have[n] {
					grown = append(grown, n)
				}
			}
			g.Names = grown
		}
		n := g.Names[r.Intn(len(g.Names))]
		if k := r.Intn(3); k > 0 {
			// the name with the highest (lowest) number of the list
			nums := ArchInfo(p.Arch).SyscallNames
			for _, x := range g.Names {
				if k == 1 && nums[x] > nums[n] || k == 2 && nums[x] < nums[n] {
					n = x
				}
			}
		}
		pos := []int{0, len(g.Names), r.Intn(len(g.Names) + 1)}[r.Intn(3)]
		names := append([]string{}, g.Names[:pos]...)
		names = append(names, n)
		g.Names = append(names, g.Names[pos:]...)
		return true
	case "mixed":
		idx := nonEmpty(true, false)
		if len(idx) == 0 {
			return false
		}
		g := &p.Groups[idx[r.Intn(len(idx))]]
		n := g.Names[r.Intn(len(g.Names))]
		pos := r.Intn(len(g.WithConds) + 1)
		wc := append([]NameConds{}, g.WithConds[:pos]...)
		wc = append(wc, NameConds{Name: n, Conds: genConds(r, 2)})
		g.WithConds = append(wc, g.WithConds[pos:]...)
		return true
	case "argument", "operation":
		idx := nonEmpty(false, true)
		if len(idx) == 0 {
			return false
		}
		g := &p.Groups[idx[r.Intn(len(idx))]]
		nc := &g.WithConds[r.Intn(len(g.WithConds))]
		if len(nc.Conds) == 0 {
			return false
		}
		conds := append([]Cond{}, nc.Conds...)
		c := &conds[r.Intn(len(conds))]
		if defect == "argument" {
			c.Arg = []uint32{6, 7, 64, 1 << 31, 0xFFFFFFFF, 0x1FFFFFFE, 0x20000000, 0x20000005}[r.Intn(8)]
			if r.Intn(3) == 0 {
				// the bad index inside a condition that holds for every value (one an optimiser might drop),
				// in a list that has other conditions too
				k := []Cond{{Op: "GreaterOrEqual", Val: 0}, {Op: "BitsNotSet", Val: 0}, {Op: "LessOrEqual", Val: ^uint64(0)}, {Op: "NotEqual", Val: 0}}[r.Intn(4)]
				c.Op, c.Val = k.Op, k.Val
				if len(conds) == 1 {
					conds = append(conds, Cond{Arg: uint32(r.Intn(6)), Op: "Equal", Val: Operand(r)})
					if r.Intn(2) == 0 {
						conds[0], conds[1] = conds[1], conds[0]
					}
				}
			}
		} else {
			c.Op = weirdOps[r.Intn(len(weirdOps))]
		}
		nc.Conds = conds
		if r.Intn(4) == 0 {
			// a long list: the defect comes after six or more valid conditions ("one condition per argument" is not
			// a rule of the API)
			var head []Cond
			for k := 6 + r.Intn(3); len(head) < k; {
				head = append(head, Cond{Arg: uint32(r.Intn(6)), Op: Ops[r.Intn(len(Ops))], Val: Operand(r)})
			}
			nc.Conds = append(head, conds...)
			return true
		}
		if r.Intn(3) == 0 {
			// the defect sits in the tail of a list whose valid head is also the list of an earlier entry of the
			// group (conds[:k] for one syscall, conds for another: both slices start at the same element)
			pos := 0
			for i := range conds {
				if &conds[i] == c {
					pos = i
				}
			}
			if pos == 0 {
				conds = append([]Cond{{Arg: uint32(r.Intn(6)), Op: Ops[r.Intn(len(Ops))], Val: Operand(r)}}, conds...)
				nc.Conds = conds
				pos = 1
			}
			table := TableNames(p.Arch)
			used := map[string]bool{}
			for _, n := range g.Names {
				used[n] = true
			}
			for _, e := range g.WithConds {
				used[e.Name] = true
			}
			for try := 0; try < 20; try++ {
				n := table[r.Intn(len(table))]
				if !used[n] {
					head := NameConds{Name: n, Conds: append([]Cond{}, conds[:1+r.Intn(pos)]...)}
					g.WithConds = append([]NameConds{head}, g.WithConds...)
					p.Shared = true
					break
				}
			}
		}
		return true
	case "dup-condname-ok":
		// not a defect: the same name with conditions twice is merged (OR)
		idx := nonEmpty(false, true)
		if len(idx) == 0 {
			return false
		}
		g := &p.Groups[idx[r.Intn(len(idx))]]
		n := g.WithConds[r.Intn(len(g.WithConds))].Name
		g.WithConds = append(append([]NameConds{}, g.WithConds...), NameConds{Name: n, Conds: genConds(r, 3)})
		return true
	case "empty-conds-ok":
		// accepted by the compiler: an entry with an empty condition list (never matches)
		gi := r.Intn(len(p.Groups))
		g := &p.Groups[gi]
		n := table[r.Intn(len(table))]
		for _, x := range g.Names {
			if x == n {
				return false
			}
		}
		var cs []Cond
		if r.Intn(2) == 0 {
			cs = []Cond{}
		}
		g.WithConds = append(append([]NameConds{}, g.WithConds...), NameConds{Name: n, Conds: cs})
		return true
	case "alias-dup":
		// two different names with the same number do not exist in a table; nothing to inject
		return false
	}
	return false
}

// GenBoundary generates a valid policy whose architecture jump sits at the boundary between the
// 8-bit form and the `jeq; ja` form (jumpN in 250..260), with and without conditional entries.
func GenBoundary(r *rand.Rand) *Policy {
	for tries := 0; tries < 20; tries++ {
		base := "names"
		if r.Intn(2) == 0 {
			base = "conds"
		}
		p := GenValid(r, base)
		// keep the groups small, then pad with one group of plain names
		for gi := range p.Groups {
			if len(p.Groups[gi].Names) > 20 {
				p.Groups[gi].Names = p.Groups[gi].Names[:r.Intn(20)]
			}
		}
		reply, insts := p.Compile()
		if insts == nil {
			_ = reply
			continue
		}
		jumpN := len(insts) - 3 // short form: ld arch, jne, ld nr, then jumpN instructions
		if _, ok := insts[1].(interface{}); ok && len(insts) > 258 {
			jumpN = len(insts) - 4
		}
		target := 250 + r.Intn(11)
		need := target - jumpN - 2 // a new group costs its names + ja + ret
		if need < 1 {
			continue
		}
		used := map[string]bool{}
		for _, g := range p.Groups {
			for _, n := range g.Names {
				used[n] = true
			}
			for _, nc := range g.WithConds {
				used[nc.Name] = true
			}
		}
		var pad []string
		for _, n := range TableNames(p.Arch) {
			if !used[n] && len(pad) < need {
				pad = append(pad, n)
			}
		}
		if len(pad) < need {
			continue
		}
		g := Group{Action: anyAction(r), Names: pad}
		pos := r.Intn(len(p.Groups) + 1)
		groups := append([]Group{}, p.Groups[:pos]...)
		groups = append(groups, g)
		p.Groups = append(groups, p.Groups[pos:]...)
		return p
	}
	return GenValid(r, "names")
}

// GenLimit builds a valid policy whose program has about `target` instructions, for the
// kernel's 4096-instruction limit.  The size is steered from one small calibration compile
// (far below any limit) plus the fixed cost of a plain group (names + ja + ret), never from
// a compile of the large policy itself, so that a compiler which wrongly refuses programs
// near the limit cannot steer the generator away from them.
func GenLimit(r *rand.Rand, target int) *Policy {
	for tries := 0; tries < 20; tries++ {
		p := GenValid(r, []string{"names", "conds"}[r.Intn(2)])
		for gi := range p.Groups {
			if len(p.Groups[gi].Names) > 20 {
				p.Groups[gi].Names = p.Groups[gi].Names[:r.Intn(20)]
			}
		}
		table := TableNames(p.Arch)
		if len(table) < 210 {
			continue
		}
		// calibration: base + one plain group of 200 names forces the long prologue form
		cal := *p
		cal.Groups = append(append([]Group{}, p.Groups...), Group{Action: anyAction(r), Names: distinctNames(r, table, 200)})
		_, insts := cal.Compile()
		if insts == nil || len(insts) < 300 || len(insts) > 2000 {
			continue
		}
		p.Groups = cal.Groups
		need := target - len(insts)
		for need > 0 {
			m := 200
			if need < 202+3 { // last group takes the rest; a group costs m+2 and needs m ≥ 1
				m = need - 2
			}
			if m < 1 {
				break
			}
			p.Groups = append(p.Groups, Group{Action: anyAction(r), Names: distinctNames(r, table, m)})
			need -= m + 2
		}
		if need == 0 {
			return p
		}
	}
	return GenValid(r, "names")
}
