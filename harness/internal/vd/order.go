package vd

import "encoding/binary"

// Order returns the byte order named by "le" / "be" (used by streams that set the hook themselves).
func Order(e string) binary.ByteOrder { return order(e) }
