// Package vd holds the shared parts of the differential harness: the model process,
// the policy representation with its line encoding, and the real-code runners.
package vd

import (
	"bufio"
	"fmt"
	"io"
	"os/exec"
	"strings"
)

// Model is a running instance of the Lean model driver (line protocol).
type Model struct {
	cmd *exec.Cmd
	in  io.WriteCloser
	out *bufio.Reader
	N   int
}

func StartModel(path string) (*Model, error) {
	cmd := exec.Command(path)
	in, err := cmd.StdinPipe()
	if err != nil {
		return nil, err
	}
	out, err := cmd.StdoutPipe()
	if err != nil {
		return nil, err
	}
	if err := cmd.Start(); err != nil {
		return nil, err
	}
	return &Model{cmd: cmd, in: in, out: bufio.NewReaderSize(out, 1<<20)}, nil
}

// Ask sends one request line and returns the reply line.
func (m *Model) Ask(req string) (string, error) {
	if strings.ContainsAny(req, "\n\r") {
		return "", fmt.Errorf("request contains a line break")
	}
	if _, err := io.WriteString(m.in, req+"\n"); err != nil {
		return "", err
	}
	line, err := m.out.ReadString('\n')
	if err != nil {
		return "", fmt.Errorf("model died: %v", err)
	}
	m.N++
	return strings.TrimRight(line, "\n"), nil
}

func (m *Model) Close() {
	m.in.Close()
	m.cmd.Wait()
}
