package vd

import (
	"encoding/binary"
	"fmt"
	"strconv"
	"strings"

	"golang.org/x/net/bpf"
)

// SearchVM is the failing-input search for a program that uses instructions outside the
// model's four kinds (load word, conditional jump on a constant, jump, return constant), so
// that the model's own interpreter cannot run it.  The event partition and the specification's
// decision for each event come from the model (request XE); the implementation's program is
// evaluated with the reference interpreter of classic BPF in golang.org/x/net/bpf.  It is a
// search, never a proof: its only product is a concrete event for the replay file.
func SearchVM(m *Model, p *Policy, insts []bpf.Instruction) string {
	vm, err := bpf.NewVM(insts)
	if err != nil {
		return "NO-VM " + Hex(err.Error())
	}
	var consts []string
	for _, i := range insts {
		if j, ok := i.(bpf.JumpIf); ok && len(consts) < 16 {
			consts = append(consts, strconv.FormatUint(uint64(j.Val), 10))
		}
	}
	req := fmt.Sprintf("XE %s %s %d %d %d %s", p.Arch, p.Body(), len(insts), 20000, len(consts), strings.Join(consts, " "))
	reply, err := m.Ask(strings.TrimSpace(req))
	if err != nil || !strings.HasPrefix(reply, "EV ") {
		return "NO-EVENTS " + reply
	}
	f := strings.Fields(reply)
	n, _ := strconv.Atoi(f[1])
	f = f[2:]
	for k := 0; k < n && len(f) >= 9; k, f = k+1, f[9:] {
		var v [9]uint64
		for i := range v {
			v[i], _ = strconv.ParseUint(f[i], 10, 64)
		}
		got, err := vm.Run(packet(p.Endian, uint32(v[0]), uint32(v[1]), v[2:8]))
		if err != nil || uint64(uint32(got)) != v[8] {
			g := fmt.Sprintf("ret:%d", uint32(got))
			if err != nil {
				g = "error:" + Hex(err.Error())
			}
			return fmt.Sprintf("CEX %s expected ret:%d got %s (implementation's program run by the x/net/bpf interpreter: it uses instructions outside the model's four kinds)",
				strings.Join(f[:8], " "), v[8], g)
		}
	}
	return fmt.Sprintf("AGREE %d", n)
}

// packet lays seccomp_data out so that the interpreter's (big-endian, network order) word load
// at offset off yields the 32-bit word the kernel would load there on a machine of the given
// byte order: nr, arch, instruction pointer 0, then low/high halves of the six arguments.
func packet(endian string, nr, arch uint32, args []uint64) []byte {
	b := make([]byte, 64)
	binary.BigEndian.PutUint32(b[0:], nr)
	binary.BigEndian.PutUint32(b[4:], arch)
	for i, a := range args {
		lo, hi := uint32(a), uint32(a>>32)
		off := 16 + 8*i
		if endian == "be" {
			lo, hi = hi, lo
		}
		binary.BigEndian.PutUint32(b[off:], lo)
		binary.BigEndian.PutUint32(b[off+4:], hi)
	}
	return b
}
