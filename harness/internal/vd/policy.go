package vd

import (
	"os"
	"encoding/binary"
	"encoding/hex"
	"fmt"
	"io"
	"strings"
	"unsafe"

	seccomp "github.com/elastic/go-seccomp-bpf"
	"github.com/elastic/go-seccomp-bpf/arch"
	"golang.org/x/net/bpf"
)

// Cond, NameConds, Group, Policy mirror the exported policy types with raw values.
type Cond struct {
	Arg uint32
	Op  string
	Val uint64
}

type NameConds struct {
	Name  string
	Conds []Cond
}

type Group struct {
	Action    uint32
	Names     []string
	WithConds []NameConds
}

type Policy struct {
	Arch    string // Info.Name of the target table
	Endian  string // "le" | "be"
	Default uint32
	Groups  []Group
	// WarmArch, when set, makes Compile assemble the same library value for that architecture
	// first (result discarded): the verdict and the program must not depend on such a history.
	WarmArch string
	// WarmEdit makes Compile first assemble a *variant* of the policy (one group with its last name
	// dropped and another action), discard the result, then edit that same library value in place
	// (inside the group: names and action) to this policy and assemble again.
	WarmEdit bool
	// Shared makes ToGo lay the name lists, the conditional entries and the condition lists of all
	// groups out as adjacent windows of one backing array each (spare capacity behind every window
	// but the last): what a caller gets who slices one table into groups. Same policy, same request.
	Shared bool
	// NativeOrder makes Compile leave the library's own byte order in place (no VerifSetNativeEndian call):
	// what production code gets. Endian must then be HostEndian().
	NativeOrder bool
}

// HostEndian is the byte order of the machine this process runs on ("le" | "be").
func HostEndian() string {
	var x uint16 = 1
	if *(*byte)(unsafe.Pointer(&x)) == 1 {
		return "le"
	}
	return "be"
}

func Hex(s string) string {
	if s == "" {
		return "-"
	}
	return hex.EncodeToString([]byte(s))
}

func Unhex(s string) string {
	if s == "-" {
		return ""
	}
	b, err := hex.DecodeString(s)
	if err != nil {
		panic(err)
	}
	return string(b)
}

// Body renders "default ngroups group*" (shared by the P, X and S requests).
func (p *Policy) Body() string {
	var b strings.Builder
	fmt.Fprintf(&b, "%d %d", p.Default, len(p.Groups))
	for _, g := range p.Groups {
		fmt.Fprintf(&b, " %d %d", g.Action, len(g.Names))
		for _, n := range g.Names {
			b.WriteByte(' ')
			b.WriteString(Hex(n))
		}
		fmt.Fprintf(&b, " %d", len(g.WithConds))
		for _, nc := range g.WithConds {
			fmt.Fprintf(&b, " %s %d", Hex(nc.Name), len(nc.Conds))
			for _, c := range nc.Conds {
				fmt.Fprintf(&b, " %d %s %d", c.Arg, Hex(c.Op), c.Val)
			}
		}
	}
	return b.String()
}

func (p *Policy) Request() string {
	return fmt.Sprintf("P %s %s %s", p.Arch, p.Endian, p.Body())
}

// WireRequest is Request with the verb PS when the value is to be laid out in shared arrays (what the
// harness' own children and replays parse; the model only ever sees Request).
func (p *Policy) WireRequest() string {
	if p.Shared {
		return "PS" + strings.TrimPrefix(p.Request(), "P")
	}
	return p.Request()
}

// ToGo builds the library's policy value.
func (p *Policy) ToGo() seccomp.Policy {
	out := seccomp.Policy{DefaultAction: seccomp.Action(p.Default)}
	if p.Shared {
		return p.toGoShared()
	}
	for _, g := range p.Groups {
		sg := seccomp.SyscallGroup{Action: seccomp.Action(g.Action)}
		if g.Names != nil {
			sg.Names = append([]string{}, g.Names...)
		}
		for _, nc := range g.WithConds {
			n := seccomp.NameWithConditions{Name: nc.Name}
			for _, c := range nc.Conds {
				n.Conditions = append(n.Conditions, seccomp.Condition{
					Argument: c.Arg, Operation: seccomp.Operation(c.Op), Value: c.Val})
			}
			sg.NamesWithCondtions = append(sg.NamesWithCondtions, n)
		}
		out.Syscalls = append(out.Syscalls, sg)
	}
	return out
}

// toGoShared: the same value as ToGo, with every slice a window of a shared array.
func (p *Policy) toGoShared() seccomp.Policy {
	out := seccomp.Policy{DefaultAction: seccomp.Action(p.Default)}
	var names []string
	var entries []seccomp.NameWithConditions
	var conds []seccomp.Condition
	for _, g := range p.Groups {
		names = append(names, g.Names...)
		for _, nc := range g.WithConds {
			entries = append(entries, seccomp.NameWithConditions{Name: nc.Name})
			for _, c := range nc.Conds {
				conds = append(conds, seccomp.Condition{Argument: c.Arg, Operation: seccomp.Operation(c.Op), Value: c.Val})
			}
		}
	}
	ni, ei, ci := 0, 0, 0
	for _, g := range p.Groups {
		sg := seccomp.SyscallGroup{Action: seccomp.Action(g.Action)}
		if g.Names != nil {
			sg.Names = names[ni : ni+len(g.Names)]
			ni += len(g.Names)
		}
		if len(g.WithConds) > 0 {
			sg.NamesWithCondtions = entries[ei : ei+len(g.WithConds)]
			ei += len(g.WithConds)
			for k, nc := range g.WithConds {
				if len(nc.Conds) > 0 {
					sg.NamesWithCondtions[k].Conditions = conds[ci : ci+len(nc.Conds)]
					ci += len(nc.Conds)
					// an entry that repeats an earlier list of its group refers to the very same slice
					// (a caller who builds the list once and uses it twice)
					for j := 0; j < k; j++ {
						if sameConds(g.WithConds[j].Conds, nc.Conds) {
							sg.NamesWithCondtions[k].Conditions = sg.NamesWithCondtions[j].Conditions
							break
						}
						// a caller who cuts a shorter list out of a longer one: conds[:n] for one entry, conds for the
						// other — both slices start at the same element
						a, b := g.WithConds[j].Conds, nc.Conds
						if len(a) > 0 && len(a) < len(b) && sameConds(a, b[:len(a)]) {
							sg.NamesWithCondtions[j].Conditions = sg.NamesWithCondtions[k].Conditions[:len(a)]
							break
						}
						if len(b) < len(a) && sameConds(b, a[:len(b)]) {
							sg.NamesWithCondtions[k].Conditions = sg.NamesWithCondtions[j].Conditions[:len(b)]
							break
						}
					}
				}
			}
		}
		out.Syscalls = append(out.Syscalls, sg)
	}
	return out
}

func sameConds(a, b []Cond) bool {
	if len(a) != len(b) {
		return false
	}
	for i := range a {
		if a[i] != b[i] {
			return false
		}
	}
	return true
}

var archByName = map[string]*arch.Info{
	"x86_64": arch.X86_64, "i386": arch.I386, "arm": arch.ARM, "aarch64": arch.AARCH64, "x32": arch.X32,
	"ppc": arch.PPC, "mips": arch.MIPS, "s390x": arch.S390X,
}

func ArchInfo(name string) *arch.Info { return archByName[name] }

func order(e string) binary.ByteOrder {
	if e == "be" {
		return binary.BigEndian
	}
	return binary.LittleEndian
}

var condNames = map[bpf.JumpTest]string{
	bpf.JumpEqual: "eq", bpf.JumpNotEqual: "ne", bpf.JumpGreaterThan: "gt", bpf.JumpLessThan: "lt",
	bpf.JumpGreaterOrEqual: "ge", bpf.JumpLessOrEqual: "le", bpf.JumpBitsSet: "set", bpf.JumpBitsNotSet: "nset",
}

// RenderInstr renders one instruction in the protocol's syntax.
func RenderInstr(i bpf.Instruction) string {
	switch x := i.(type) {
	case bpf.LoadAbsolute:
		if x.Size != 4 {
			return fmt.Sprintf("other:%#v", x)
		}
		return fmt.Sprintf("ld:%d", x.Off)
	case bpf.JumpIf:
		n, ok := condNames[x.Cond]
		if !ok {
			return fmt.Sprintf("other:%#v", x)
		}
		return fmt.Sprintf("jif:%s:%d:%d:%d", n, x.Val, x.SkipTrue, x.SkipFalse)
	case bpf.Jump:
		return fmt.Sprintf("ja:%d", x.Skip)
	case bpf.RetConstant:
		return fmt.Sprintf("ret:%d", x.Val)
	default:
		return strings.ReplaceAll(fmt.Sprintf("other:%#v", i), " ", "_")
	}
}

func RenderProg(insts []bpf.Instruction) string {
	var b strings.Builder
	fmt.Fprintf(&b, "OK %d", len(insts))
	for _, i := range insts {
		b.WriteByte(' ')
		b.WriteString(RenderInstr(i))
	}
	return b.String()
}

// Compile runs the real Policy.Assemble for the policy's architecture and byte order.
// The reply is "OK n instr*", "ERR <class> [<hex message>]" or "PANIC <hex message>".
// NoteRequest records the request that is about to be run on the implementation (file named by VERIF_LAST):
// a crash of the whole process — a panic in a goroutine the implementation started cannot be recovered by
// the caller — is then attributed to an input.
func NoteRequest(line string) {
	if f := os.Getenv("VERIF_LAST"); f != "" {
		os.WriteFile(f, []byte(line+"\n"), 0o644)
	}
}

func (p *Policy) Compile() (reply string, insts []bpf.Instruction) {
	NoteRequest(p.Request())
	defer func() {
		if r := recover(); r != nil {
			reply = "PANIC " + Hex(fmt.Sprint(r))
			insts = nil
		}
	}()
	gp := p.ToGo()
	if p.WarmEdit && len(p.Groups) > 0 {
		gi := len(p.Groups) / 2
		realNames, realAction := gp.Syscalls[gi].Names, gp.Syscalls[gi].Action
		if len(realNames) > 1 {
			gp.Syscalls[gi].Names = realNames[:len(realNames)-1]
		}
		gp.Syscalls[gi].Action = realAction ^ 0x00030000
		func() {
			defer func() { _ = recover() }()
			CompileGo(&gp, p.Arch, p.Endian)
			gp.Dump(io.Discard)
		}()
		gp.Syscalls[gi].Names, gp.Syscalls[gi].Action = realNames, realAction
	}
	if p.WarmArch != "" {
		// history: the same library value has been assembled for another architecture before
		func() {
			defer func() { _ = recover() }()
			CompileGo(&gp, p.WarmArch, p.Endian)
		}()
	}
	if p.NativeOrder {
		return CompileGo(&gp, p.Arch, "native")
	}
	return CompileGo(&gp, p.Arch, p.Endian)
}

// CompileGo assembles an existing library value (used by the purity checks as well).
func CompileGo(gp *seccomp.Policy, archName, endian string) (string, []bpf.Instruction) {
	info := ArchInfo(archName)
	if info == nil {
		return "ERR harness-unknown-arch", nil
	}
	seccomp.VerifSetArch(gp, info)
	if endian != "native" { // "native": the library's own order, untouched
		prev := seccomp.VerifSetNativeEndian(order(endian))
		defer seccomp.VerifSetNativeEndian(prev)
	}
	insts, err := gp.Assemble()
	if err != nil {
		if insts != nil {
			return "ERR-WITH-PROGRAM " + Hex(err.Error()), nil
		}
		return ClassifyError(err), nil
	}
	return RenderProg(insts), insts
}

func ClassifyError(err error) string {
	msg := err.Error()
	switch {
	case strings.HasPrefix(msg, "invalid default_action value"):
		return "ERR default"
	case msg == "syscalls must not be empty":
		return "ERR empty"
	case strings.HasPrefix(msg, "unsupported arch"):
		return "ERR arch"
	case msg == "useless jump found":
		return "ERR useless"
	case msg == "backward jumps are not supported":
		return "ERR backward"
	}
	return "ERR message " + Hex(msg)
}

// ExpectedMessage renders the model's problem list as the text the Go code builds.
// ok is false when the text contains a '%' (the Go code passes it through fmt.Errorf as a
// format string, which mangles it; then only the class is compared).
func ExpectedMessage(modelReply, archName string) (msg string, exact bool) {
	f := strings.Fields(modelReply)
	if len(f) < 2 || f[0] != "ERR" || f[1] != "problems" {
		return "", false
	}
	var lines []string
	for i := 2; i+1 < len(f); i += 2 {
		kind, payload := f[i], f[i+1]
		switch kind {
		case "duplicate":
			lines = append(lines, "found duplicate syscall "+Unhex(payload))
		case "unknown":
			lines = append(lines, "found unknown syscalls for arch "+archName+": "+Unhex(payload))
		case "mixed":
			lines = append(lines, "found conditional and unconditional check: "+Unhex(payload))
		case "argument":
			lines = append(lines, "argument must be between 0 and 5 (inclusive), but is "+payload)
		case "operation":
			lines = append(lines, "invalid operation: "+Unhex(payload))
		}
	}
	msg = strings.Join(lines, "\n")
	return msg, !strings.Contains(msg, "%")
}

// ComparePolicy decides whether the Go reply and the model reply agree.
func ComparePolicy(goReply, modelReply, archName string) bool {
	if goReply == modelReply {
		return true
	}
	if strings.HasPrefix(goReply, "ERR message ") && strings.HasPrefix(modelReply, "ERR problems") {
		want, exact := ExpectedMessage(modelReply, archName)
		if !exact {
			return true // class only: both are "problems" errors
		}
		return goReply == "ERR message "+Hex(want)
	}
	return false
}
