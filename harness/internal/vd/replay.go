package vd

import (
	"fmt"
	"strconv"
	"strings"

	seccomp "github.com/elastic/go-seccomp-bpf"
	"golang.org/x/net/bpf"
)

type toks struct {
	f []string
	i int
}

func (t *toks) next() string {
	if t.i >= len(t.f) {
		panic("short request")
	}
	s := t.f[t.i]
	t.i++
	return s
}

func (t *toks) u64() uint64 {
	v, err := strconv.ParseUint(t.next(), 10, 64)
	if err != nil {
		panic(err)
	}
	return v
}

// ParsePolicyRequest parses "P arch endian default ngroups …" (or the same after "X"/"S").
func ParsePolicyRequest(line string) (p *Policy, rest []string, err error) {
	defer func() {
		if r := recover(); r != nil {
			err = fmt.Errorf("bad request: %v", r)
		}
	}()
	t := &toks{f: strings.Fields(line)}
	verb := t.next()
	p = &Policy{Arch: t.next(), Endian: t.next(), Shared: verb == "PS"}
	p.Default = uint32(t.u64())
	ng := int(t.u64())
	for g := 0; g < ng; g++ {
		grp := Group{Action: uint32(t.u64())}
		nn := int(t.u64())
		for i := 0; i < nn; i++ {
			grp.Names = append(grp.Names, Unhex(t.next()))
		}
		nw := int(t.u64())
		for i := 0; i < nw; i++ {
			nc := NameConds{Name: Unhex(t.next())}
			k := int(t.u64())
			for j := 0; j < k; j++ {
				c := Cond{Arg: uint32(t.u64())}
				c.Op = Unhex(t.next())
				c.Val = t.u64()
				nc.Conds = append(nc.Conds, c)
			}
			grp.WithConds = append(grp.WithConds, nc)
		}
		p.Groups = append(p.Groups, grp)
	}
	return p, t.f[t.i:], nil
}

var condByName = func() map[string]bpf.JumpTest {
	m := map[string]bpf.JumpTest{}
	for k, v := range condNames {
		m[v] = k
	}
	return m
}()

// ReplayBuilder runs the real builder on a "B …" request line.
func ReplayBuilder(line string) (reply string, insts []bpf.Instruction) {
	defer func() {
		if r := recover(); r != nil {
			reply = "PANIC " + Hex(fmt.Sprint(r))
			insts = nil
		}
	}()
	f := strings.Fields(line)
	if len(f) < 3 || f[0] != "B" {
		return "BAD-REQUEST", nil
	}
	prev := seccomp.VerifSetNativeEndian(order(f[1]))
	defer seccomp.VerifSetNativeEndian(prev)
	p := seccomp.NewProgram()
	atoi := func(s string) int {
		v, err := strconv.ParseInt(s, 10, 64)
		if err != nil {
			panic(err)
		}
		return int(v)
	}
	for _, c := range f[3:] {
		parts := strings.Split(c, ":")
		switch parts[0] {
		case "new":
			p.NewLabel()
		case "set":
			p.SetLabel(seccomp.Label(atoi(parts[1])))
		case "jif":
			p.JmpIf(condByName[parts[1]], uint32(atoi(parts[2])), seccomp.Label(atoi(parts[3])), seccomp.Label(atoi(parts[4])))
		case "jt":
			p.JmpIfTrue(condByName[parts[1]], uint32(atoi(parts[2])), seccomp.Label(atoi(parts[3])))
		case "ret":
			p.Ret(seccomp.Action(uint32(atoi(parts[1]))))
		case "ldhi":
			p.LdHi(uint32(atoi(parts[1])))
		case "ldlo":
			p.LdLo(uint32(atoi(parts[1])))
		default:
			panic("bad call " + c)
		}
	}
	out, err := p.Assemble()
	if err != nil {
		if out != nil {
			return "ERR-WITH-PROGRAM " + Hex(err.Error()), nil
		}
		return ClassifyError(err), nil
	}
	return RenderProg(out), out
}
