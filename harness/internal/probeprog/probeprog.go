//go:build verif

// Package probeprog compiles a fixed set of policies for every syscall table of the library (through
// the verif hook VerifSetArch) and renders the programs: the probe prints these lines on its build
// target, the consts stream computes them in its own process and compares — a policy must compile
// to the same program wherever it is compiled for a given table (C19).
package probeprog

import (
	"fmt"
	"strings"

	seccomp "github.com/elastic/go-seccomp-bpf"
	"github.com/elastic/go-seccomp-bpf/arch"
)

var tables = []*arch.Info{arch.X86_64, arch.I386, arch.ARM, arch.AARCH64, arch.X32}

func policies() []seccomp.Policy {
	return []seccomp.Policy{
		{DefaultAction: seccomp.ActionAllow, Syscalls: []seccomp.SyscallGroup{{Action: seccomp.ActionErrno, Names: []string{"execve", "ptrace"}}}},
		{DefaultAction: seccomp.ActionErrno, Syscalls: []seccomp.SyscallGroup{
			{Action: seccomp.ActionAllow, Names: []string{"write"}, NamesWithCondtions: []seccomp.NameWithConditions{
				{Name: "read", Conditions: seccomp.ArgumentConditions{{Argument: 0, Operation: seccomp.Equal, Value: 1 << 40}, {Argument: 5, Operation: seccomp.BitsSet, Value: 3}}}}},
			{Action: seccomp.ActionTrace, Names: []string{"close"}}}},
		{DefaultAction: seccomp.ActionKillProcess, Syscalls: []seccomp.SyscallGroup{{Action: seccomp.ActionLog, NamesWithCondtions: []seccomp.NameWithConditions{
			{Name: "ioctl", Conditions: seccomp.ArgumentConditions{{Argument: 1, Operation: seccomp.GreaterOrEqual, Value: 0xffffffff00000001}}},
			{Name: "ioctl", Conditions: seccomp.ArgumentConditions{{Argument: 2, Operation: seccomp.LessThan, Value: 7}}}}}}},
		// what must be refused, and with the same words, on every target (the verdict is arithmetic on 32-bit
		// indices and lookups in maps: nothing in it may depend on the width of int)
		argIdx(5), argIdx(6), argIdx(7), argIdx(1 << 29), argIdx(1<<29 | 1), argIdx(1<<30 | 5), argIdx(1 << 31), argIdx(1<<31 | 2), argIdx(0xFFFFFFFE), argIdx(0xFFFFFFFF),
		{DefaultAction: seccomp.Action(0x12345678), Syscalls: []seccomp.SyscallGroup{{Action: seccomp.ActionAllow, Names: []string{"read"}}}},
		{DefaultAction: seccomp.ActionAllow, Syscalls: []seccomp.SyscallGroup{{Action: seccomp.ActionErrno, Names: []string{"read", "no_such_call"}}}},
		{DefaultAction: seccomp.ActionAllow, Syscalls: []seccomp.SyscallGroup{{Action: seccomp.ActionErrno, Names: []string{"read", "write", "read"}}}},
		{DefaultAction: seccomp.ActionAllow, Syscalls: []seccomp.SyscallGroup{{Action: seccomp.ActionErrno, Names: []string{"read"}, NamesWithCondtions: []seccomp.NameWithConditions{
			{Name: "read", Conditions: seccomp.ArgumentConditions{{Argument: 0, Operation: seccomp.Equal, Value: 1}}}}}}},
		{DefaultAction: seccomp.ActionAllow, Syscalls: []seccomp.SyscallGroup{{Action: seccomp.ActionErrno, NamesWithCondtions: []seccomp.NameWithConditions{
			{Name: "read", Conditions: seccomp.ArgumentConditions{{Argument: 0, Operation: seccomp.Operation("Equals"), Value: 1}}}}}}},
		{DefaultAction: seccomp.ActionAllow},
	}
}

func argIdx(i uint32) seccomp.Policy {
	return seccomp.Policy{DefaultAction: seccomp.ActionAllow, Syscalls: []seccomp.SyscallGroup{{Action: seccomp.ActionErrno, NamesWithCondtions: []seccomp.NameWithConditions{
		{Name: "write", Conditions: seccomp.ArgumentConditions{{Argument: 1, Operation: seccomp.LessThan, Value: 9}, {Argument: i, Operation: seccomp.NotEqual, Value: 1 << 33}}}}}}}
}

// Lines returns one line per table and policy: "program <table> <index> <rendered program or error>".
func Lines() []string {
	var out []string
	for _, t := range tables {
		for i, p := range policies() {
			seccomp.VerifSetArch(&p, t)
			insts, err := p.Assemble()
			var b strings.Builder
			if err != nil {
				fmt.Fprintf(&b, "error:%q", err.Error())
			} else {
				fmt.Fprintf(&b, "n=%d", len(insts))
				for _, in := range insts {
					fmt.Fprintf(&b, "|%v", in)
				}
			}
			out = append(out, fmt.Sprintf("program %s %d %s", t.Name, i, strings.ReplaceAll(b.String(), "\n", " ")))
		}
	}
	return out
}
