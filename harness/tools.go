//go:build tools

package harness

import (
	_ "github.com/elastic/go-ucfg/yaml"
	_ "golang.org/x/tools/go/packages"
	_ "gopkg.in/yaml.v2"
)
