module verif/harness

go 1.22.0

toolchain go1.23.5

require (
	github.com/elastic/go-seccomp-bpf v0.0.0
	github.com/elastic/go-ucfg v0.8.8
	golang.org/x/net v0.34.0
	golang.org/x/sys v0.29.0
	golang.org/x/tools v0.29.0
	gopkg.in/yaml.v2 v2.4.0
)

require (
	golang.org/x/mod v0.22.0 // indirect
	golang.org/x/sync v0.10.0 // indirect
)

replace github.com/elastic/go-seccomp-bpf => /repo
