// vprobe runs load histories of the real LoadFilter against the running kernel in throw-away
// child processes and compares what it observes (return values, per-thread Seccomp_filters /
// NoNewPrivs from /proc, the program and flag word captured immediately before the seccomp call,
// the thread ids around the schedule point) with the prediction of the generated loader
// skeleton run on the abstract kernel (`H` request of the model driver).
package main

import (
	"bytes"
	"encoding/json"
	"errors"
	"flag"
	"fmt"
	"io"
	"math/rand"
	"os"
	"os/exec"
	"path/filepath"
	"reflect"
	"runtime"
	"sort"
	"strconv"
	"strings"
	"sync/atomic"
	"syscall"
	"time"
	"unsafe"

	seccomp "github.com/elastic/go-seccomp-bpf"
	"golang.org/x/net/bpf"

	"verif/harness/internal/vd"
)

type Op struct {
	Op     string `json:"op"` // load | loadfree | supported
	Thread int    `json:"thread"`
	NNP    bool   `json:"nnp"`
	Flags  uint32 `json:"flags"`
	Warm   bool   `json:"warm,omitempty"` // the loaded Policy value was assembled before, with other names, and edited in place
	Policy string `json:"policy"`         // valid | oversize | invalid
}

type History struct {
	Privileged bool   `json:"privileged"`
	Threads    int    `json:"threads"`
	Extra      int    `json:"extra"`                // additional OS threads in various states (C10)
	NoSeccomp  bool   `json:"no_seccomp,omitempty"` // fault: seccomp(2) answers ENOSYS (an outer filter denies it)
	Refusal    string `json:"refusal,omitempty"`    // with no_seccomp: the errno of the refusal, "" (ENOSYS) | "EPERM" | "EACCES" (a container profile rather than an old kernel)
	NoNNP      bool   `json:"no_nnp,omitempty"`     // fault: prctl(PR_SET_NO_NEW_PRIVS) answers EINVAL (an outer filter denies it); privileged children only
	FlagGuard  bool   `json:"flag_guard,omitempty"` // an outer filter (privileged children) answers EXDEV to seccomp(SET_MODE_FILTER) with a flag word that no load of this history asks for
	Procs      int    `json:"procs,omitempty"`      // GOMAXPROCS of the child (default 4); 1 = a single P while other OS threads exist
	Ops        []Op   `json:"ops"`
}

type TState struct {
	Filters int `json:"filters"`
	NNP     int `json:"nnp"`
	Mode    int `json:"mode"`
}

type Obs struct {
	Result     string   `json:"result"`
	Threads    []TState `json:"threads"`
	OthersMin  int      `json:"others_min"`
	OthersMax  int      `json:"others_max"`
	NTasks     int      `json:"ntasks"`
	Free       *TState  `json:"free,omitempty"`
	HookTids   []int    `json:"hook_tids,omitempty"`
	EntryTid   int      `json:"entry_tid,omitempty"`
	CaptureOK  string   `json:"capture,omitempty"`
	FlagsSeen  int64    `json:"flags_seen"`
	AfterProbe string   `json:"after_probe,omitempty"`
}

// the errno of a refused seccomp(2) (History.Refusal) and its code in the model's request (bits 3–5 of the first token)
var refusalErrno = map[string]uint32{"EPERM": 1, "EACCES": 13, "ENOMEM": 12, "EAGAIN": 11, "ESRCH": 3, "EBUSY": 16, "EINTR": 4}
var refusalCode = map[string]int{"": 0, "EPERM": 1, "EACCES": 2, "ENOMEM": 3, "EAGAIN": 4, "ESRCH": 5, "EBUSY": 6, "EINTR": 7}

func policyFor(kind string) seccomp.Policy {
	switch kind {
	case "invalid":
		return seccomp.Policy{DefaultAction: seccomp.ActionAllow, Syscalls: []seccomp.SyscallGroup{{Action: seccomp.ActionErrno, Names: []string{"no_such_syscall"}}}}
	case "wrap16":
		// exactly 65536 instructions: uint16(len) is 0.  Single-name groups cost three instructions each; the
		// remainder is made up with extra names in the first group.
		names := vd.TableNames("x86_64")
		p := seccomp.Policy{DefaultAction: seccomp.ActionAllow}
		for g := 0; g < 21843; g++ {
			p.Syscalls = append(p.Syscalls, seccomp.SyscallGroup{Action: seccomp.ActionErrno, Names: []string{names[g%len(names)]}})
		}
		for tries := 0; tries < 8; tries++ {
			insts, err := p.Assemble()
			if err != nil {
				break
			}
			d := 65536 - len(insts)
			switch {
			case d == 0:
				return p
			case d > 0 && d < 300:
				have := map[string]bool{}
				for _, n := range p.Syscalls[0].Names {
					have[n] = true
				}
				for _, n := range names {
					if d > 0 && !have[n] {
						p.Syscalls[0].Names = append(p.Syscalls[0].Names, n)
						d--
					}
				}
			case d > 0:
				for k := 0; k < d/3; k++ {
					p.Syscalls = append(p.Syscalls, seccomp.SyscallGroup{Action: seccomp.ActionErrno, Names: []string{names[k%len(names)]}})
				}
			default:
				p.Syscalls = p.Syscalls[:len(p.Syscalls)-(-d+2)/3]
			}
		}
		return p
	case "oversize":
		var ncs []seccomp.NameWithConditions
		names := []string{"kexec_load", "kexec_file_load", "swapon", "swapoff", "acct", "settimeofday", "reboot", "init_module", "delete_module", "pivot_root",
			"quotactl", "vhangup", "uselib", "ustat", "sysfs", "personality", "iopl", "ioperm", "syslog", "lookup_dcookie", "nfsservctl", "add_key", "request_key", "keyctl"}
		for _, n := range names {
			var cs seccomp.ArgumentConditions
			for i := 0; i < 50; i++ {
				cs = append(cs, seccomp.Condition{Argument: uint32(i % 6), Operation: seccomp.GreaterThan, Value: uint64(i)<<33 | 7})
			}
			ncs = append(ncs, seccomp.NameWithConditions{Name: n, Conditions: cs})
		}
		return seccomp.Policy{DefaultAction: seccomp.ActionAllow, Syscalls: []seccomp.SyscallGroup{{Action: seccomp.ActionErrno, NamesWithCondtions: ncs}}}
	}
	act := seccomp.ActionErrno
	if kind == "valid:allow" {
		// a policy that can only answer allow is still a filter the kernel must be given
		return seccomp.Policy{DefaultAction: seccomp.ActionAllow, Syscalls: []seccomp.SyscallGroup{{Action: seccomp.ActionAllow, Names: []string{"kexec_load", "swapon"}}}}
	}
	if strings.HasPrefix(kind, "valid:") {
		// the same policy with a data-carrying action (errno value / trace data): such actions have
		// no name in the text forms, so policies that differ only there are easy to conflate
		n, _ := strconv.Atoi(strings.TrimPrefix(kind, "valid:"))
		if n >= 0x10000 {
			act = seccomp.ActionTrace | seccomp.Action(n&0xffff)
		} else {
			act = seccomp.ActionErrno | seccomp.Action(n)
		}
	}
	return seccomp.Policy{DefaultAction: seccomp.ActionAllow, Syscalls: []seccomp.SyscallGroup{{Action: act, Names: []string{"kexec_load", "swapon"}}}}
}

func policyLen(kind string) int {
	p := policyFor(kind)
	insts, err := p.Assemble()
	if err != nil {
		return -1
	}
	return len(insts)
}

func classify(err error) string {
	if err == nil {
		return "nil"
	}
	var e syscall.Errno
	if errors.As(err, &e) {
		return fmt.Sprintf("errno:%d", int(e))
	}
	return "other"
}

func readStatus(tid int) (TState, bool) {
	data, err := os.ReadFile(fmt.Sprintf("/proc/self/task/%d/status", tid))
	if err != nil {
		return TState{}, false
	}
	st := TState{Filters: -1, NNP: -1, Mode: -1}
	for _, line := range strings.Split(string(data), "\n") {
		f := strings.Fields(line)
		if len(f) < 2 {
			continue
		}
		v, _ := strconv.Atoi(f[1])
		switch f[0] {
		case "Seccomp:":
			st.Mode = v
		case "Seccomp_filters:":
			st.Filters = v
		case "NoNewPrivs:":
			st.NNP = v
		}
	}
	return st, true
}

/* ------------------------------------------------------------------ child */

type worker struct {
	tid int
	cmd chan func()
}

func child(h History) {
	runtime.GOMAXPROCS(4)
	if h.Procs > 0 {
		runtime.GOMAXPROCS(h.Procs)
	}
	if !h.Privileged {
		if err := syscall.Setresgid(65534, 65534, 65534); err != nil {
			fmt.Println(`{"fatal":"setresgid"}`)
			return
		}
		if err := syscall.Setgroups([]int{}); err != nil {
			_ = err
		}
		if err := syscall.Setresuid(65534, 65534, 65534); err != nil {
			fmt.Println(`{"fatal":"setresuid"}`)
			return
		}
	}
	if h.NoSeccomp {
		// fault injection: an outer filter (all threads) answers seccomp(2) with ENOSYS, as an old
		// kernel or a container profile would; prctl keeps working
		runtime.LockOSThread()
		if !h.Privileged {
			// (a privileged process installs the outer filter without the bit, so that the bit stays observable)
			syscall.RawSyscall6(syscall.SYS_PRCTL, 38, 1, 0, 0, 0, 0)
		}
		errno := uint32(38)
		if e, ok := refusalErrno[h.Refusal]; ok {
			errno = e
		}
		outer := []syscall.SockFilter{{Code: 0x20, K: 0}, {Code: 0x15, Jt: 0, Jf: 1, K: 317}, {Code: 0x06, K: 0x00050000 | errno}, {Code: 0x06, K: 0x7fff0000}}
		prog := syscall.SockFprog{Len: uint16(len(outer)), Filter: &outer[0]}
		if _, _, e := syscall.RawSyscall(317, 1, 1, uintptr(unsafe.Pointer(&prog))); e != 0 {
			fmt.Println(`{"fatal":"outer filter"}`)
			return
		}
		runtime.UnlockOSThread()
	}
	if h.NoNNP {
		// fault injection: an outer filter (installed with CAP_SYS_ADMIN, so without the bit, and on all
		// threads) answers prctl(PR_SET_NO_NEW_PRIVS, …) with EINVAL, as a kernel before 3.5 would
		runtime.LockOSThread()
		outer := []syscall.SockFilter{{Code: 0x20, K: 0}, {Code: 0x15, Jt: 0, Jf: 3, K: syscall.SYS_PRCTL}, {Code: 0x20, K: 16},
			{Code: 0x15, Jt: 0, Jf: 1, K: 38}, {Code: 0x06, K: 0x00050000 | 22}, {Code: 0x06, K: 0x7fff0000}}
		prog := syscall.SockFprog{Len: uint16(len(outer)), Filter: &outer[0]}
		if _, _, e := syscall.RawSyscall(317, 1, 1, uintptr(unsafe.Pointer(&prog))); e != 0 {
			fmt.Println(`{"fatal":"outer filter (nnp)"}`)
			return
		}
		runtime.UnlockOSThread()
	}
	if h.FlagGuard {
		// observer of the flag word that really reaches the kernel: installed with CAP_SYS_ADMIN (so without the
		// bit) before any other thread exists; transparent as long as the loader hands over Filter.Flag unmodified
		runtime.LockOSThread()
		var words []uint32
		for _, op := range h.Ops {
			dup := false
			for _, w := range words {
				dup = dup || w == op.Flags
			}
			if !dup && op.Op != "supported" && op.Op != "setnnp" {
				words = append(words, op.Flags)
			}
		}
		n := len(words)
		outer := []syscall.SockFilter{{Code: 0x20, K: 0}, {Code: 0x15, Jt: 0, Jf: uint8(4 + n), K: 317},
			{Code: 0x20, K: 16}, {Code: 0x15, Jt: 0, Jf: uint8(2 + n), K: 1}, {Code: 0x20, K: 24}}
		for i, w := range words {
			outer = append(outer, syscall.SockFilter{Code: 0x15, Jt: uint8(n - i), Jf: 0, K: w})
		}
		outer = append(outer, syscall.SockFilter{Code: 0x06, K: 0x00050000 | 18}, syscall.SockFilter{Code: 0x06, K: 0x7fff0000})
		prog := syscall.SockFprog{Len: uint16(len(outer)), Filter: &outer[0]}
		if _, _, e := syscall.RawSyscall(317, 1, 1, uintptr(unsafe.Pointer(&prog))); e != 0 {
			fmt.Println(`{"fatal":"outer filter (flag guard)"}`)
			return
		}
		runtime.UnlockOSThread()
	}
	workers := make([]*worker, h.Threads)
	ready := make(chan bool)
	for i := range workers {
		w := &worker{cmd: make(chan func())}
		workers[i] = w
		go func() {
			runtime.LockOSThread()
			w.tid = syscall.Gettid()
			ready <- true
			for f := range w.cmd {
				f()
			}
		}()
		<-ready
	}
	// additional OS threads in various states: spinning, sleeping, blocked in a syscall, spawning threads
	var stop int32
	for i := 0; i < h.Extra; i++ {
		kind := i % 4
		go func() {
			runtime.LockOSThread()
			ready <- true
			switch kind {
			case 0:
				for atomic.LoadInt32(&stop) == 0 {
				}
			case 1:
				for atomic.LoadInt32(&stop) == 0 {
					time.Sleep(time.Millisecond)
				}
			case 2:
				var fds [2]int
				syscall.Pipe(fds[:])
				buf := make([]byte, 1)
				syscall.Read(fds[0], buf) // blocks for ever
			case 3:
				for atomic.LoadInt32(&stop) == 0 {
					done := make(chan bool)
					go func() { runtime.LockOSThread(); done <- true }() // the locked goroutine exits: its thread is destroyed, a new one is created next time
					<-done
					time.Sleep(200 * time.Microsecond)
				}
			}
		}()
		<-ready
	}
	controlled := map[int]bool{}
	for _, w := range workers {
		controlled[w.tid] = true
	}
	enc := json.NewEncoder(os.Stdout)
	var hookTids []int
	var captured []syscall.SockFilter
	var flagsSeen int64 = -1
	migrate := false
	seccomp.VerifPreInstall = func(program []syscall.SockFilter, flags seccomp.FilterFlag) {
		captured = append([]syscall.SockFilter{}, program...)
		flagsSeen = int64(flags)
		t0 := syscall.Gettid()
		hookTids = []int{t0}
		if migrate {
			// Plain attempts first (sleep + yield while other Ps are busy).  Then a hand-off: a goroutine wires itself
			// to the thread it first runs on — with a single P that is the thread this goroutine just left — and
			// blocks there in a read(2) until released, so the P moves on to another thread and takes an unpinned
			// goroutine with it (works with GOMAXPROCS=1 too; a goroutine that pinned itself stays where it is).
			var pfd [2]int
			handOff := false
			for i := 0; i < 25 && syscall.Gettid() == t0; i++ {
				if i == 3 && syscall.Pipe(pfd[:]) == nil {
					handOff = true
					rd := pfd[0]
					go func() {
						runtime.LockOSThread()
						var b [1]byte
						syscall.Read(rd, b[:])
						syscall.Close(rd)
						runtime.UnlockOSThread()
					}()
				}
				time.Sleep(100 * time.Microsecond)
				runtime.Gosched()
			}
			if handOff {
				syscall.Write(pfd[1], []byte{0})
				syscall.Close(pfd[1])
			}
		}
		hookTids = append(hookTids, syscall.Gettid())
	}
	for _, op := range h.Ops {
		obs := Obs{FlagsSeen: -1}
		hookTids, captured, flagsSeen = nil, nil, -1
		switch op.Op {
		case "load", "loadfree":
			pol := policyFor(op.Policy)
			if op.Warm && len(pol.Syscalls) == 1 && len(pol.Syscalls[0].Names) == 2 {
				// the value that is loaded has a history: built with other names, assembled and dumped,
				// then edited in place (same shape) to the policy of this operation
				n0, n1 := pol.Syscalls[0].Names[0], pol.Syscalls[0].Names[1]
				pol.Syscalls[0].Names[0], pol.Syscalls[0].Names[1] = "acct", "swapoff"
				pol.Assemble()
				pol.Dump(io.Discard)
				pol.Syscalls[0].Names[0], pol.Syscalls[0].Names[1] = n0, n1
			}
			filter := seccomp.Filter{NoNewPrivs: op.NNP, Flag: seccomp.FilterFlag(op.Flags), Policy: pol}
			done := make(chan bool)
			run := func() {
				obs.EntryTid = syscall.Gettid()
				obs.Result = classify(seccomp.LoadFilter(filter))
				done <- true
			}
			if op.Op == "load" {
				migrate = false
				workers[op.Thread].cmd <- run
				<-done
			} else {
				migrate = true
				// keep the other Ps busy so that the goroutine is likely to be rescheduled elsewhere
				var busy int32 = 1
				for i := 0; i < 3 && runtime.GOMAXPROCS(0) > 1; i++ {
					go func() {
						for atomic.LoadInt32(&busy) == 1 {
						}
					}()
				}
				go run()
				<-done
				atomic.StoreInt32(&busy, 0)
			}
			obs.HookTids = hookTids
			obs.FlagsSeen = flagsSeen
			if captured != nil {
				// the array handed to the kernel must be the compiled program, instruction for instruction
				fresh := policyFor(op.Policy)
				insts, err := fresh.Assemble()
				if err != nil {
					obs.CaptureOK = "assemble-error-but-kernel-reached"
				} else if raw, err := bpf.Assemble(insts); err != nil {
					obs.CaptureOK = "encode-error-but-kernel-reached"
				} else {
					want := make([]syscall.SockFilter, len(raw))
					for i, r := range raw {
						want[i] = syscall.SockFilter{Code: r.Op, Jt: r.Jt, Jf: r.Jf, K: r.K}
					}
					if reflect.DeepEqual(want, captured) {
						obs.CaptureOK = fmt.Sprintf("equal:%d", len(captured))
					} else {
						obs.CaptureOK = fmt.Sprintf("DIFFERENT:%d:%d", len(want), len(captured))
					}
				}
			}
			if op.Op == "loadfree" && len(hookTids) == 2 {
				if st, ok := readStatus(hookTids[1]); ok {
					obs.Free = &st
				}
			}
		case "supported":
			done := make(chan bool)
			workers[op.Thread].cmd <- func() {
				obs.Result = fmt.Sprint(seccomp.Supported())
				done <- true
			}
			<-done
		case "setnnp":
			done := make(chan bool)
			workers[op.Thread].cmd <- func() {
				obs.Result = classify(seccomp.SetNoNewPrivs())
				done <- true
			}
			<-done
		case "loadunpin":
			// The goroutine starts on the worker's thread but is not pinned to it while it loads; the hook between
			// the no_new_privs step and seccomp(2) tries to get it rescheduled elsewhere.  (Last operation of a
			// history only: afterwards the worker may sit on another thread.)
			pol := policyFor(op.Policy)
			filter := seccomp.Filter{NoNewPrivs: op.NNP, Flag: seccomp.FilterFlag(op.Flags), Policy: pol}
			done := make(chan bool)
			migrate = true
			var busy int32 = 1
			for i := 0; i < 3 && runtime.GOMAXPROCS(0) > 1; i++ {
				go func() {
					for atomic.LoadInt32(&busy) == 1 {
					}
				}()
			}
			workers[op.Thread].cmd <- func() {
				obs.EntryTid = syscall.Gettid()
				runtime.UnlockOSThread()
				obs.Result = classify(seccomp.LoadFilter(filter))
				runtime.LockOSThread()
				done <- true
			}
			<-done
			atomic.StoreInt32(&busy, 0)
			obs.HookTids = hookTids
			obs.FlagsSeen = flagsSeen
		}
		for _, w := range workers {
			st, _ := readStatus(w.tid)
			obs.Threads = append(obs.Threads, st)
		}
		obs.OthersMin, obs.OthersMax = 1<<30, -1
		entries, _ := os.ReadDir("/proc/self/task")
		for _, e := range entries {
			tid, _ := strconv.Atoi(e.Name())
			if controlled[tid] || (op.Op == "loadfree" && len(hookTids) == 2 && tid == hookTids[1]) {
				continue
			}
			if st, ok := readStatus(tid); ok {
				obs.NTasks++
				if st.Filters < obs.OthersMin {
					obs.OthersMin = st.Filters
				}
				if st.Filters > obs.OthersMax {
					obs.OthersMax = st.Filters
				}
			}
		}
		// a thread created after the load must carry the filters too (C10)
		if op.Op != "supported" && obs.Result == "nil" && op.Flags&1 != 0 {
			res := make(chan int)
			go func() {
				runtime.LockOSThread()
				st, _ := readStatus(syscall.Gettid())
				res <- st.Filters
			}()
			obs.AfterProbe = fmt.Sprintf("new-thread-filters:%d", <-res)
		}
		enc.Encode(obs)
	}
	atomic.StoreInt32(&stop, 1)
	os.Stdout.Sync()
	os.Exit(0)
}

/* ------------------------------------------------------------------ parent */

type Mismatch struct {
	Case         string `json:"case"`
	Request      string `json:"request"`
	Go           string `json:"go"`
	Model        string `json:"model"`
	Note         string `json:"note,omitempty"`
	FailingInput string `json:"failing_input,omitempty"`
	Key          string `json:"key,omitempty"`
}

type Summary struct {
	Stream       string                 `json:"stream"`
	Profile      string                 `json:"profile"`
	Seed         int64                  `json:"seed"`
	Evaluations  int                    `json:"evaluations"`
	Distinct     int                    `json:"distinct_nontrivial"`
	Rule         string                 `json:"rule"`
	Distribution map[string]int         `json:"distribution"`
	Samples      []string               `json:"samples"`
	Mismatches   []Mismatch             `json:"mismatches"`
	WallS        float64                `json:"wall_s"`
	Error        string                 `json:"error,omitempty"`
	Extra        map[string]interface{} `json:"extra,omitempty"`
}

var (
	childJSON = flag.String("child", "", "run as child with this history (JSON)")
	n         = flag.Int("n", 40, "number of histories")
	seed      = flag.Int64("seed", 1, "PRNG seed")
	modelPath = flag.String("model", "/verif/lean/.lake/build/bin/model", "model driver")
	outPath   = flag.String("out", "", "summary JSON")
	profile   = flag.String("profile", "load", "load (C09) | tsync (C10) | nnp (C11)")
	replay    = flag.String("replay", "", "replay the histories of this file (one JSON per line)")
	childDec  = flag.String("childdecide", "", "run as decision-probing child with this case (JSON)")
	targetMk  = flag.String("target", "", "run as sandbox target: marker file to create")
	targetEv  = flag.String("events", "[]", "target mode: probe events (JSON)")
	childVer  = flag.String("childverify", "", "run as verifier-probing child; the raw program (JSON) is read from stdin")
	childParF = flag.String("childpar", "", "run as child of the concurrent-loads profile with this case (JSON)")
)

var lens = map[string]int{}

func request(h History) string {
	var b strings.Builder
	priv := 0
	if h.Privileged {
		priv = 1
	}
	if h.NoSeccomp {
		priv += 2
		priv += 8 * refusalCode[h.Refusal]
	}
	if h.NoNNP {
		priv += 4
	}
	fmt.Fprintf(&b, "H %d %d %d", priv, h.Threads, len(h.Ops))
	pol := func(kind string) string {
		switch kind {
		case "invalid":
			return "A"
		}
		if strings.HasPrefix(kind, "valid:") {
			kind = "valid"
		}
		return fmt.Sprintf("P %d 1", lens[kind])
	}
	b2i := func(x bool) int {
		if x {
			return 1
		}
		return 0
	}
	for _, op := range h.Ops {
		switch op.Op {
		case "load":
			fmt.Fprintf(&b, " load %d %d %d %s", op.Thread, b2i(op.NNP), op.Flags, pol(op.Policy))
		case "loadfree":
			fmt.Fprintf(&b, " loadfree %d %d %s", b2i(op.NNP), op.Flags, pol(op.Policy))
		case "supported":
			fmt.Fprintf(&b, " supported %d", op.Thread)
		case "setnnp":
			fmt.Fprintf(&b, " setnnp %d", op.Thread)
		case "loadunpin":
			fmt.Fprintf(&b, " loadunpin %d %d %d %s", op.Thread, b2i(op.NNP), op.Flags, pol(op.Policy))
		}
	}
	return b.String()
}

func genHistory(r *rand.Rand, profile string) History {
	h := History{Privileged: r.Intn(2) == 0, Threads: 1 + r.Intn(3)}
	flagsPool := []uint32{0, 1, 2, 3}
	nops := 1 + r.Intn(4)
	switch profile {
	case "tsync":
		h.Extra = []int{0, 1, 3, 8, 16, 40, 63}[r.Intn(7)]
		nops = 1 + r.Intn(2)
		if r.Intn(4) == 0 {
			// a single P: no other thread runs Go code during the load, but the threads exist all the same
			h.Procs = 1
			if h.Extra > 8 {
				h.Extra = 8
			}
		}
	case "nnp":
		h.Privileged = r.Intn(4) == 0
		if r.Intn(3) == 0 {
			// a single P: "nothing can steal the goroutine" is false — a blocked thread hands its P over
			h.Procs = 1
		}
	case "load":
		if r.Intn(5) == 0 {
			h.Procs = 1
		}
	}
	if profile == "load" && r.Intn(5) == 0 || profile == "tsync" && r.Intn(8) == 0 {
		h.NoSeccomp = true
		h.Refusal = []string{"", "", "EPERM", "EACCES", "ENOMEM", "ENOMEM", "EAGAIN", "ESRCH", "EBUSY", "EINTR", "EINTR"}[r.Intn(11)]
	} else if (profile == "load" || profile == "nnp") && r.Intn(8) == 0 {
		// only a privileged process can install the outer filter without setting the bit itself
		h.NoNNP, h.Privileged = true, true
	}
	if (profile == "load" || profile == "tsync") && h.Privileged && !h.NoSeccomp && !h.NoNNP && r.Intn(3) == 0 {
		h.FlagGuard = true
	}
	listener := false
	for i := 0; i < nops; i++ {
		op := Op{Op: "load", Thread: r.Intn(h.Threads), NNP: r.Intn(2) == 0, Flags: flagsPool[r.Intn(4)], Policy: "valid"}
		op.Warm = r.Intn(4) == 0
		if r.Intn(2) == 0 {
			op.Policy = []string{"valid:1", "valid:2", "valid:13", "valid:38", "valid:65537", "valid:65538", "valid:allow", "valid:allow"}[r.Intn(8)]
		}
		switch profile {
		case "load":
			switch r.Intn(10) {
			case 0:
				op.Policy = "invalid"
			case 1:
				op.Policy = []string{"oversize", "oversize", "wrap16"}[r.Intn(3)]
			case 2:
				// flag words the kernel refuses: an unknown bit alone and next to each known one
				op.Flags = []uint32{1 << 10, 0x80000000, 1<<6 | 1, 1<<10 | 2, 1<<10 | 3, 1<<31 | 2, 1<<7 | 2 | 1}[r.Intn(7)]
			case 3:
				op = Op{Op: "supported", Thread: r.Intn(h.Threads)}
			}
			if !listener && r.Intn(8) == 0 && op.Op == "load" && op.Flags < 4 {
				// SECCOMP_FILTER_FLAG_NEW_LISTENER (at most once per process: a chain holds one listener): alone or
				// with LOG the kernel attaches and returns a descriptor (positive, errno 0); with TSYNC it refuses
				listener = true
				op.Flags = []uint32{8, 8, 10, 9, 11}[r.Intn(5)]
			}
		case "tsync":
			op.NNP = true
			if i == nops-1 {
				op.Flags = []uint32{1, 3}[r.Intn(2)]
			}
		}
		h.Ops = append(h.Ops, op)
	}
	if h.NoSeccomp && profile == "load" {
		// where seccomp(2) is refused the probe matters most: Supported() on a thread whose state is observable
		// (a privileged process installs the outer filter without no_new_privs)
		h.Privileged = r.Intn(4) != 0
		h.Ops = append(h.Ops, Op{Op: "supported", Thread: r.Intn(h.Threads)})
		if r.Intn(2) == 0 {
			// … also before any load has touched the thread
			h.Ops = append([]Op{{Op: "supported", Thread: r.Intn(h.Threads)}}, h.Ops...)
		}
	}
	if profile == "nnp" && !h.NoNNP && h.Threads >= 2 && r.Intn(4) == 0 {
		// The bit is already on one thread only (the exported SetNoNewPrivs(), or an earlier load on that thread);
		// then a goroutine that merely happens to run on that thread loads with NoNewPrivs: it must still pin itself
		// before relying on the bit, or a migration takes it to a thread without it.
		t := r.Intn(h.Threads)
		first := Op{Op: "setnnp", Thread: t}
		if r.Intn(2) == 0 {
			first = Op{Op: "load", Thread: t, NNP: true, Flags: []uint32{0, 2}[r.Intn(2)], Policy: "valid"}
		}
		h.Ops = []Op{first, {Op: "loadunpin", Thread: t, NNP: true, Flags: []uint32{0, 2}[r.Intn(2)], Policy: "valid:13"}}
		return h
	}
	if profile == "nnp" && r.Intn(2) == 0 {
		// An unpinned goroutine in a fresh process (every thread is in the same state, so it does not
		// matter on which one it starts): the harness tries to move it between prctl and seccomp.
		// Without NoNewPrivs an unprivileged load fails on every thread, so the prediction is
		// deterministic in both cases.
		h.Ops = []Op{{Op: "loadfree", NNP: h.Privileged && r.Intn(2) == 0 || !h.Privileged && r.Intn(4) != 0, Flags: flagsPool[r.Intn(4)], Policy: "valid"}}
		if r.Intn(3) == 0 {
			h.Ops = append(h.Ops, Op{Op: "supported", Thread: 0})
		}
	}
	return h
}

// observedLine renders what the child saw in the format of the model's reply (controlled threads,
// then the representative of the other threads, then the unpinned goroutine's thread).
func compare(h History, obs []Obs, model string) (ok bool, note string, failing string) {
	parts := strings.Split(model, " | ")
	if len(parts) != len(h.Ops) || len(obs) != len(h.Ops) {
		return false, fmt.Sprintf("history has %d ops, child reported %d, model %d", len(h.Ops), len(obs), len(parts)), ""
	}
	for i, op := range h.Ops {
		f := strings.Fields(parts[i])
		if len(f) != 1+2*(h.Threads+2) {
			return false, "malformed model reply", ""
		}
		o := obs[i]
		where := fmt.Sprintf("op %d (%+v)", i, op)
		if f[0] != o.Result {
			fail := ""
			// which clause of which property does the real code break?
			if o.Result == "nil" && f[0] != "nil" {
				fail = where + ": LoadFilter returned nil although the abstract kernel declines the attach (" + f[0] + ")"
			}
			if h.FlagGuard && o.Result == "errno:18" {
				fail = where + ": the flag word that reached the kernel is not Filter.Flag (an outer filter of this history answers EXDEV to seccomp(SET_MODE_FILTER) with any flag word that none of its loads asks for)"
			} else if o.Result != "nil" && f[0] == "nil" {
				fail = where + ": LoadFilter failed with " + o.Result + " although the load must succeed"
				if len(o.HookTids) == 2 && o.HookTids[0] != o.HookTids[1] {
					fail += fmt.Sprintf("; the goroutine moved from thread %d to thread %d between prctl and seccomp", o.HookTids[0], o.HookTids[1])
				}
			}
			return false, where + ": result " + o.Result + ", model " + f[0], fail
		}
		base := 0
		if h.NoSeccomp || h.NoNNP || h.FlagGuard {
			base = 1 // the outer filter
		}
		for t := 0; t < h.Threads; t++ {
			mf, _ := strconv.Atoi(f[1+2*t])
			mn, _ := strconv.Atoi(f[2+2*t])
			o.Threads[t].Filters -= base
			if h.NoSeccomp && !h.Privileged {
				mn = o.Threads[t].NNP // the outer filter needed the bit on every thread
			}
			if o.Threads[t].Filters != mf || o.Threads[t].NNP != mn {
				fail := ""
				if o.Result == "nil" && o.Threads[t].Filters < mf {
					fail = fmt.Sprintf("%s: nil result but thread %d has %d filters (expected %d)", where, t, o.Threads[t].Filters, mf)
				}
				if op.Op == "load" && t == op.Thread && op.NNP && o.Threads[t].NNP == 0 && mn == 1 {
					fail = fmt.Sprintf("%s: NoNewPrivs was requested but the bit is not set on the installing thread %d (result %s)", where, t, o.Result)
				}
				if op.Op == "load" && !op.NNP && o.Threads[t].NNP == 1 && mn == 0 {
					fail = fmt.Sprintf("%s: NoNewPrivs was not requested but thread %d has the bit now", where, t)
				}
				if op.Op == "supported" {
					fail = fmt.Sprintf("%s: Supported() changed thread %d (filters %d, nnp %d; before the probe %d, %d)", where, t, o.Threads[t].Filters, o.Threads[t].NNP, mf, mn)
				}
				if op.Op != "supported" && o.Result != "nil" && (o.Threads[t].Filters > mf || o.Threads[t].NNP > mn) {
					fail = fmt.Sprintf("%s: failed load changed thread %d (filters %d, nnp %d; expected %d, %d)", where, t, o.Threads[t].Filters, o.Threads[t].NNP, mf, mn)
				}
				return false, fmt.Sprintf("%s: thread %d has filters=%d nnp=%d, model %d %d", where, t, o.Threads[t].Filters, o.Threads[t].NNP, mf, mn), fail
			}
		}
		// other runtime threads: new threads inherit from their creator, so only a lower bound is exact
		of, _ := strconv.Atoi(f[1+2*h.Threads])
		of += base
		if o.NTasks > 0 && o.OthersMin < of {
			return false, fmt.Sprintf("%s: some other thread has %d filters, model says every other thread has %d", where, o.OthersMin, of),
				fmt.Sprintf("%s: thread-sync load returned %s but a thread of the process carries only %d filters", where, o.Result, o.OthersMin)
		}
		if op.Op != "supported" && o.FlagsSeen >= 0 && uint32(o.FlagsSeen) != op.Flags {
			return false, fmt.Sprintf("%s: flag word handed to the kernel is %d", where, o.FlagsSeen),
				fmt.Sprintf("%s: Filter.Flag=%d but the kernel was given %d", where, op.Flags, o.FlagsSeen)
		}
		if strings.HasPrefix(o.CaptureOK, "DIFFERENT") || strings.Contains(o.CaptureOK, "error-but") {
			return false, where + ": program handed to the kernel: " + o.CaptureOK, where + ": the array handed to the kernel is not the compiled program (" + o.CaptureOK + ")"
		}
		if op.Op == "loadunpin" && len(o.HookTids) == 2 && o.HookTids[0] != o.HookTids[1] && op.NNP {
			return false, where + ": goroutine migrated between the no_new_privs step and seccomp", fmt.Sprintf("%s: NoNewPrivs was requested, the goroutine was on thread %d before and on thread %d at seccomp(2) (result %s)", where, o.HookTids[0], o.HookTids[1], o.Result)
		}
		if op.Op == "loadfree" {
			if len(o.HookTids) == 2 && o.HookTids[0] != o.HookTids[1] && op.NNP {
				return false, where + ": goroutine migrated between prctl and seccomp", fmt.Sprintf("%s: prctl ran on thread %d, seccomp on thread %d", where, o.HookTids[0], o.HookTids[1])
			}
			if o.Free != nil {
				mf, _ := strconv.Atoi(f[1+2*(h.Threads+1)])
				mn, _ := strconv.Atoi(f[2+2*(h.Threads+1)])
				if o.Free.Filters < mf || o.Free.NNP != mn && mf > 0 {
					return false, fmt.Sprintf("%s: installing thread has filters=%d nnp=%d, model %d %d", where, o.Free.Filters, o.Free.NNP, mf, mn), ""
				}
			}
		}
		if strings.HasPrefix(o.AfterProbe, "new-thread-filters:") {
			nf, _ := strconv.Atoi(strings.TrimPrefix(o.AfterProbe, "new-thread-filters:"))
			if nf < of {
				return false, where + ": " + o.AfterProbe, fmt.Sprintf("%s: a thread created after the thread-sync load carries %d filters, expected at least %d", where, nf, of)
			}
		}
	}
	return true, "", ""
}

func runChild(h History) ([]Obs, string) {
	data, _ := json.Marshal(h)
	self, _ := os.Executable()
	cmd := exec.Command(self, "-child", string(data))
	var out, errb bytes.Buffer
	cmd.Stdout, cmd.Stderr = &out, &errb
	if err := cmd.Start(); err != nil {
		return nil, err.Error()
	}
	done := make(chan error, 1)
	go func() { done <- cmd.Wait() }()
	select {
	case <-done:
	case <-time.After(30 * time.Second):
		cmd.Process.Kill()
		<-done
		return nil, "child timed out"
	}
	var obs []Obs
	dec := json.NewDecoder(&out)
	for dec.More() {
		var o Obs
		if err := dec.Decode(&o); err != nil {
			return obs, "bad child output: " + out.String() + errb.String()
		}
		obs = append(obs, o)
	}
	return obs, ""
}

func main() {
	flag.Parse()
	if *childJSON != "" {
		var h History
		if err := json.Unmarshal([]byte(*childJSON), &h); err != nil {
			fmt.Println(`{"fatal":"bad history"}`)
			os.Exit(2)
		}
		child(h)
		return
	}
	if *targetMk != "" {
		targetMain(*targetMk, *targetEv)
		return
	}
	if *childVer != "" {
		var raw []rawI
		if err := json.NewDecoder(os.Stdin).Decode(&raw); err != nil {
			fmt.Println("bad program")
			os.Exit(2)
		}
		childVerify(raw)
		return
	}
	if *childParF != "" {
		var c ParCase
		if err := json.Unmarshal([]byte(*childParF), &c); err != nil {
			fmt.Println("bad case")
			os.Exit(2)
		}
		childPar(c)
		return
	}
	if *childDec != "" {
		var c DecideCase
		if err := json.Unmarshal([]byte(*childDec), &c); err != nil {
			fmt.Println("bad case")
			os.Exit(2)
		}
		childDecide(c)
		return
	}
	start := time.Now()
	sum := &Summary{Stream: "kernel", Profile: *profile, Seed: *seed, Distribution: map[string]int{}, Samples: []string{}, Mismatches: []Mismatch{},
		Rule: "seeded histories of LoadFilter/Supported calls (pinned threads, privileged/unprivileged, flags {0,tsync,log,tsync|log,unknown bits, new_listener alone/with log/with tsync}; faults: seccomp(2) refused with ENOSYS/EPERM/EACCES/ENOMEM/EAGAIN/ESRCH/EBUSY/EINTR (load profile: each errno with and without NoNewPrivs, systematically), prctl refused; GOMAXPROCS 1 or 4, valid/invalid/oversize policies and one of exactly 65536 instructions, unpinned loads with forced migration attempts (sleep and yield, then a hand-off: a goroutine pins itself to the thread and blocks there), up to 63 extra threads in different states), each run in a fresh child process on the host kernel; a history is non-trivial if it contains at least one load that reaches the kernel; distinct by history JSON"}
	for _, k := range []string{"valid", "oversize", "wrap16"} {
		lens[k] = policyLen(k)
	}
	model, err := vd.StartModel(*modelPath)
	if err != nil {
		sum.Error = err.Error()
		finish(sum, start)
		os.Exit(2)
	}
	defer model.Close()
	if *profile == "sandbox" {
		sandboxStream(sum, model, *n, *seed)
		finish(sum, start)
		return
	}
	if *profile == "verifier" {
		verifierStream(sum, model, *n, *seed)
		finish(sum, start)
		return
	}
	if *profile == "par" {
		parStream(sum, *n, *seed)
		finish(sum, start)
		return
	}
	if *profile == "decide" {
		decideStream(sum, model, *n, *seed)
		finish(sum, start)
		return
	}
	var histories []History
	if *replay != "" {
		data, _ := os.ReadFile(*replay)
		for _, line := range strings.Split(string(data), "\n") {
			line = strings.TrimSpace(line)
			line = strings.TrimPrefix(line, "request: ")
			line = strings.TrimPrefix(line, "history: ")
			if !strings.HasPrefix(line, "{") {
				continue
			}
			var h History
			if json.Unmarshal([]byte(line), &h) == nil {
				histories = append(histories, h)
			}
		}
	} else {
		// corpus first
		if dir := os.Getenv("VERIF_DIR"); dir != "" {
			files, _ := filepath.Glob(filepath.Join(dir, "corpus", "kernel", "*.json"))
			sort.Strings(files)
			for _, f := range files {
				data, _ := os.ReadFile(f)
				for _, line := range strings.Split(string(data), "\n") {
					var h History
					if strings.HasPrefix(strings.TrimSpace(line), "{") && json.Unmarshal([]byte(line), &h) == nil {
						histories = append(histories, h)
					}
				}
			}
		}
		if *profile == "load" {
			// systematic part: seccomp(2) refused with each errno, with and without NoNewPrivs, privileged and not
			// (an error path that treats one errno, or one combination, differently shows up here)
			for _, ref := range []string{"", "EPERM", "EACCES", "ENOMEM", "EAGAIN", "ESRCH", "EBUSY", "EINTR"} {
				for _, nnp := range []bool{true, false} {
					histories = append(histories, History{Privileged: true, Threads: 1, NoSeccomp: true, Refusal: ref,
						Ops: []Op{{Op: "load", Thread: 0, NNP: nnp, Flags: 0, Policy: "valid"}}})
				}
			}
		}
		rng := rand.New(rand.NewSource(*seed))
		for i := 0; i < *n; i++ {
			histories = append(histories, genHistory(rng, *profile))
		}
	}
	seen := map[string]bool{}
	for i, h := range histories {
		hj, _ := json.Marshal(h)
		req := request(h)
		obs, cerr := runChild(h)
		sum.Evaluations++
		nontrivial := false
		for _, op := range h.Ops {
			sum.Distribution["op:"+op.Op]++
			if op.Op != "supported" && op.Policy != "invalid" {
				nontrivial = true
			}
			if op.Op != "supported" {
				sum.Distribution[fmt.Sprintf("flags:%d", op.Flags)]++
				sum.Distribution["policy:"+op.Policy]++
			}
		}
		sum.Distribution[fmt.Sprintf("threads:%d+%d", h.Threads, h.Extra)]++
		if h.Procs > 0 {
			sum.Distribution[fmt.Sprintf("gomaxprocs:%d", h.Procs)]++
		}
		if h.FlagGuard {
			sum.Distribution["observer:flag-word-guard"]++
		}
		if h.NoSeccomp && h.Refusal != "" {
			sum.Distribution["fault:seccomp-"+h.Refusal]++
		} else if h.NoSeccomp {
			sum.Distribution["fault:seccomp-ENOSYS"]++
		}
		if h.NoNNP {
			sum.Distribution["fault:prctl-EINVAL"]++
		}
		if h.Privileged {
			sum.Distribution["privileged"]++
		} else {
			sum.Distribution["unprivileged"]++
		}
		for _, o := range obs {
			sum.Distribution["result:"+o.Result]++
			if len(o.HookTids) == 2 && o.HookTids[0] != o.HookTids[1] {
				sum.Distribution["migrated-at-schedule-point"]++
			}
		}
		if nontrivial && !seen[string(hj)] {
			seen[string(hj)] = true
			sum.Distinct++
		}
		if cerr != "" {
			sum.Mismatches = append(sum.Mismatches, Mismatch{Case: fmt.Sprint(i), Request: "history: " + string(hj), Note: cerr})
			continue
		}
		reply, err := model.Ask(req)
		if err != nil {
			sum.Error = err.Error()
			break
		}
		oj, _ := json.Marshal(obs)
		if len(sum.Samples) < 3 {
			sum.Samples = append(sum.Samples, string(hj)+"  =>  "+string(oj)+"  model: "+reply)
		}
		ok, note, failing := compare(h, obs, reply)
		if !ok {
			sum.Mismatches = append(sum.Mismatches, Mismatch{Case: fmt.Sprint(i), Request: "history: " + string(hj), Go: string(oj), Model: reply, Note: note, FailingInput: failing})
			if len(sum.Mismatches) >= 5 {
				break
			}
		}
	}
	finish(sum, start)
}

func finish(sum *Summary, start time.Time) {
	sum.WallS = time.Since(start).Seconds()
	data, _ := json.MarshalIndent(sum, "", " ")
	if *outPath == "" {
		fmt.Println(string(data))
	} else {
		os.WriteFile(*outPath, data, 0o644)
	}
}
