package main

import (
	"bytes"
	"encoding/json"
	"fmt"
	"math/rand"
	"os"
	"os/exec"
	"strings"
	"syscall"
	"time"
	"unsafe"

	"golang.org/x/net/bpf"

	"verif/harness/internal/vd"
)

// C05/C08: the model's port of the kernel's checker (kernelAccepts) against the running kernel.

type rawI struct {
	Op     uint16 `json:"op"`
	Jt, Jf uint8
	K      uint32 `json:"k"`
}

func childVerify(raw []rawI) {
	if _, _, e := syscall.RawSyscall6(syscall.SYS_PRCTL, 38, 1, 0, 0, 0, 0); e != 0 {
		fmt.Println("prctl-failed")
		os.Exit(2)
	}
	sf := make([]syscall.SockFilter, len(raw))
	for i, r := range raw {
		sf[i] = syscall.SockFilter{Code: r.Op, Jt: r.Jt, Jf: r.Jf, K: r.K}
	}
	prog := syscall.SockFprog{Len: uint16(len(sf))}
	if len(sf) > 0 {
		prog.Filter = &sf[0]
	}
	_, _, e := syscall.RawSyscall(317, 1, 0, uintptr(unsafe.Pointer(&prog)))
	if e != 0 {
		fmt.Printf("reject:%d\n", int(e))
	} else {
		fmt.Println("accept")
	}
	os.Exit(0)
}

func verifierStream(sum *Summary, model *vd.Model, n int, seed int64) {
	sum.Rule = "compiled programs (all returns replaced by ALLOW so that the child survives) and systematically broken variants (jump past the end, conditional target out of bounds, unaligned / out-of-range load, missing final return, 4096 vs 4097 instructions, empty program, opcodes outside the compiler's set that the kernel rejects) offered to seccomp(2) in a fresh child each; acceptance compared with kernelAccepts; non-trivial = a broken variant; distinct by raw program"
	rng := rand.New(rand.NewSource(seed))
	self, _ := os.Executable()
	seen := map[string]bool{}
	for i := 0; i < n; i++ {
		p := vd.GenValid(rng, []string{"conds", "mix", "names"}[rng.Intn(3)])
		_, insts := p.Compile()
		if insts == nil || len(insts) > 3000 {
			continue
		}
		rawb, err := bpf.Assemble(insts)
		if err != nil {
			continue
		}
		raw := make([]rawI, len(rawb))
		for j, r := range rawb {
			raw[j] = rawI{r.Op, r.Jt, r.Jf, r.K}
			if r.Op == 0x06 {
				raw[j].K = 0x7fff0000
			}
		}
		variant := "valid"
		if i%3 != 0 {
			variant = []string{"ja-past-end", "jt-out", "jf-out", "unaligned-load", "load-64", "no-final-ret", "len-4096", "len-4097", "empty",
				"op-ldh", "op-ldind", "op-msh", "div0", "op-unknown", "load-60", "ja-to-last"}[rng.Intn(16)]
			pos := rng.Intn(len(raw))
			switch variant {
			case "ja-past-end":
				raw[pos] = rawI{0x05, 0, 0, uint32(len(raw) - pos - 1)}
			case "ja-to-last":
				if pos < len(raw)-1 {
					raw[pos] = rawI{0x05, 0, 0, uint32(len(raw) - pos - 2)}
				}
			case "jt-out":
				if len(raw)-pos-1 <= 255 {
					raw[pos] = rawI{0x15, uint8(len(raw) - pos - 1), 0, 7}
				} else {
					variant = "valid"
				}
			case "jf-out":
				if len(raw)-pos-1 <= 255 {
					raw[pos] = rawI{0x25, 0, uint8(len(raw) - pos - 1), 7}
				} else {
					variant = "valid"
				}
			case "unaligned-load":
				raw[pos] = rawI{0x20, 0, 0, uint32(1 + rng.Intn(3) + 4*rng.Intn(15))}
			case "load-64":
				raw[pos] = rawI{0x20, 0, 0, uint32(64 + 4*rng.Intn(4))}
			case "load-60":
				raw[pos] = rawI{0x20, 0, 0, 60}
			case "no-final-ret":
				raw[len(raw)-1] = rawI{0x20, 0, 0, 0}
			case "len-4096", "len-4097":
				want := 4096
				if variant == "len-4097" {
					want = 4097
				}
				pad := make([]rawI, 0, want)
				for len(pad)+len(raw) < want {
					pad = append(pad, rawI{0x20, 0, 0, 0})
				}
				raw = append(pad, raw...)
			case "empty":
				raw = nil
			case "op-ldh":
				raw[pos] = rawI{0x28, 0, 0, 0}
			case "op-ldind":
				raw[pos] = rawI{0x40, 0, 0, 0}
			case "op-msh":
				raw[pos] = rawI{0xb1, 0, 0, 0}
			case "div0":
				raw[pos] = rawI{0x34, 0, 0, 0}
			case "op-unknown":
				raw[pos] = rawI{0xffff, 0, 0, 0}
			}
		}
		var b strings.Builder
		fmt.Fprintf(&b, "K %d", len(raw))
		for _, r := range raw {
			fmt.Fprintf(&b, " %d:%d:%d:%d", r.Op, r.Jt, r.Jf, r.K)
		}
		reply, err := model.Ask(b.String())
		if err != nil {
			sum.Error = err.Error()
			return
		}
		data, _ := json.Marshal(raw)
		cmd := exec.Command(self, "-childverify", "-")
		cmd.Stdin = bytes.NewReader(data)
		var out bytes.Buffer
		cmd.Stdout = &out
		done := make(chan error, 1)
		if err := cmd.Start(); err != nil {
			sum.Error = err.Error()
			return
		}
		go func() { done <- cmd.Wait() }()
		select {
		case <-done:
		case <-time.After(20 * time.Second):
			cmd.Process.Kill()
			<-done
		}
		got := strings.TrimSpace(out.String())
		obs := "REJECT"
		if got == "accept" {
			obs = "ACCEPT"
		}
		sum.Evaluations++
		sum.Distribution["variant:"+variant]++
		sum.Distribution["kernel:"+strings.Split(got, ":")[0]]++
		if variant != "valid" && !seen[b.String()] {
			seen[b.String()] = true
			sum.Distinct++
		}
		if len(sum.Samples) < 3 && variant != "valid" && len(raw) < 40 {
			sum.Samples = append(sum.Samples, fmt.Sprintf("%s (%s)  =>  kernel %s, model %s", b.String(), variant, got, reply))
		}
		if obs != reply {
			req := b.String()
			if len(req) > 4000 {
				req = req[:4000] + "…"
			}
			sum.Mismatches = append(sum.Mismatches, Mismatch{Case: fmt.Sprintf("%d:%s", i, variant), Request: req, Go: got, Model: reply,
				Note: "the running kernel and the model's kernelAccepts disagree (variant " + variant + ")"})
			if len(sum.Mismatches) >= 5 {
				return
			}
		}
	}
}
