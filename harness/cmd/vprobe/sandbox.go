package main

import (
	"bytes"
	"encoding/json"
	"fmt"
	"math/rand"
	"os"
	"os/exec"
	"path/filepath"
	"strings"
	"syscall"
	"time"

	"verif/harness/internal/vd"
)

// C15: the built sandbox command, run on generated policy files with a probe program as target.

var actionName = map[uint32]string{0x00000000: "kill_thread", 0x80000000: "kill_process", 0x00030000: "trap", 0x00050000: "errno",
	0x7ff00000: "trace", 0x7ffc0000: "log", 0x7fff0000: "allow"}

// yamlCase is the letter case in which renderYAML writes action and operation names (they are
// documented as case-insensitive): 0 as the constants are spelled, 1 lower, 2 upper, 3 alternating.
var yamlCase int

func spell(s string) string {
	switch yamlCase {
	case 1:
		return strings.ToLower(s)
	case 2:
		return strings.ToUpper(s)
	case 3:
		b := []byte(s)
		for i := range b {
			if i%2 == 0 {
				b[i] = strings.ToUpper(string(b[i]))[0]
			} else {
				b[i] = strings.ToLower(string(b[i]))[0]
			}
		}
		return string(b)
	}
	return s
}

func renderYAML(p *vd.Policy) string {
	var b strings.Builder
	fmt.Fprintf(&b, "seccomp:\n  default_action: %s\n  syscalls:\n", spell(actionName[p.Default]))
	for _, g := range p.Groups {
		fmt.Fprintf(&b, "  - action: %s\n", spell(actionName[g.Action]))
		if len(g.Names) > 0 {
			b.WriteString("    names:\n")
			for _, n := range g.Names {
				fmt.Fprintf(&b, "    - %s\n", n)
			}
		}
		if len(g.WithConds) > 0 {
			b.WriteString("    names_with_args:\n")
			for _, nc := range g.WithConds {
				fmt.Fprintf(&b, "    - name: %s\n      arguments:\n", nc.Name)
				for _, c := range nc.Conds {
					fmt.Fprintf(&b, "      - argument: %d\n        operation: %s\n        value: %d\n", c.Arg, spell(c.Op), c.Val)
				}
			}
		}
	}
	return b.String()
}

// target mode: record that the target ran, then probe.
func targetMain(marker string, eventsJSON string) {
	os.WriteFile(marker, []byte("ran\n"), 0o644)
	var events []Event
	json.Unmarshal([]byte(eventsJSON), &events)
	for i, ev := range events {
		_, _, e := syscall.RawSyscall6(uintptr(ev.Nr), uintptr(ev.Args[0]), uintptr(ev.Args[1]), uintptr(ev.Args[2]), uintptr(ev.Args[3]), uintptr(ev.Args[4]), uintptr(ev.Args[5]))
		res := "ok"
		if e == syscall.EPERM {
			res = "eperm"
		} else if e != 0 {
			res = fmt.Sprintf("errno:%d", int(e))
		}
		fmt.Printf("%d %s\n", i, res)
	}
	os.Exit(0)
}

func buildSandbox(work string) (string, error) {
	repo := os.Getenv("VERIF_REPO")
	if repo == "" {
		repo = "/repo"
	}
	out := filepath.Join(work, "sandbox-bin")
	cmd := exec.Command("go", "build", "-o", out, "./cmd/sandbox")
	cmd.Dir = repo
	cmd.Env = append(os.Environ(), "GOFLAGS=-mod=readonly", "GOPROXY=off", "GOSUMDB=off", "GOTOOLCHAIN=local", "CGO_ENABLED=0")
	if b, err := cmd.CombinedOutput(); err != nil {
		return "", fmt.Errorf("go build ./cmd/sandbox: %v: %s", err, b)
	}
	return out, nil
}

func sandboxStream(sum *Summary, model *vd.Model, n int, seed int64) {
	sum.Rule = "the sandbox binary built from /repo/cmd/sandbox, run on generated policy files: missing, a directory, malformed YAML, wrong types, unknown action, unknown syscall, unknown operation, empty syscalls list, the same name twice in a group, a name with and without conditions in one group, a policy the kernel refuses (> 4096 instructions), no command, and valid policies (one in five larger than 64 KiB; a third named by a relative path with a valid namesake next to the executable) over the probe syscalls (conditions on all six registers, errno/allow/log actions, with -no-new-privs true/false); the target is a separate program image that records that it ran and issues the probe syscalls; compared with SandboxSpec (exit status, target started or not) and with Spec.decision per probe; distinct by (policy file, events); non-trivial = an invalid file, or a valid one with at least one non-allow decision"
	dir := os.Getenv("VERIF_DIR")
	if dir == "" {
		dir = "/verif"
	}
	work := filepath.Join(dir, "work", fmt.Sprintf("sandbox-%d", os.Getpid()))
	os.MkdirAll(work, 0o755)
	defer os.RemoveAll(work)
	bin, err := buildSandbox(work)
	if err != nil {
		sum.Error = err.Error()
		return
	}
	self, _ := os.Executable()
	rng := rand.New(rand.NewSource(seed))
	kinds := []string{"valid", "valid", "valid", "valid", "valid", "valid", "valid", "valid", "valid", "valid", "missing", "directory", "malformed", "wrong-type", "unknown-action", "unknown-syscall", "unknown-operation",
		"empty-syscalls", "oversize", "no-command", "no-seccomp-key", "bad-argument-index", "no-arguments-key", "empty-arguments", "tsync-refused", "kernel-refuses", "duplicate-name", "with-and-without-conditions", "group-without-action"}
	strace, _ := exec.LookPath("strace")
	for i := 0; i < n; i++ {
		kind := kinds[rng.Intn(len(kinds))]
		c := genDecide(rng)
		// no killing actions here (C08 covers them); a killed target is indistinguishable from a failed one
		for gi := range c.Policy.Groups {
			if c.Policy.Groups[gi].Action == actKillP || c.Policy.Groups[gi].Action&0xffff != 0 {
				// (data-carrying actions have no name in a policy file)
				c.Policy.Groups[gi].Action = actErrno
			}
		}
		if c.Policy.Default == actKillP {
			c.Policy.Default = actErrno
		}
		policiesDir := filepath.Join(work, "policies")
		os.MkdirAll(policiesDir, 0o755)
		policyFile := filepath.Join(policiesDir, fmt.Sprintf("p%d.yml", i))
		marker := filepath.Join(work, fmt.Sprintf("ran%d", i))
		os.Remove(marker)
		if kind == "valid" {
			// (the malformed kinds below edit the canonical text)
			yamlCase = []int{0, 0, 1, 2, 3}[rng.Intn(5)]
		}
		yml := renderYAML(&c.Policy)
		yamlCase = 0
		expectStart := false
		switch kind {
		case "valid":
			expectStart = true
		case "missing":
			policyFile = filepath.Join(policiesDir, "does-not-exist.yml")
			yml = ""
		case "directory":
			policyFile = work
			yml = ""
		case "malformed":
			yml = yml[:len(yml)/2] + "\n  : : [\n"
		case "wrong-type":
			yml = strings.Replace(yml, "  syscalls:\n", "  syscalls: 17\n  ignored:\n", 1)
		case "unknown-action":
			yml = strings.Replace(yml, "default_action: "+actionName[c.Policy.Default], "default_action: permit", 1)
		case "unknown-syscall":
			// an invented name, or a name that is a syscall on another architecture only
			bad := []string{"no_such_syscall", "socketcall", "_llseek", "mmap2", "ugetrlimit", "fstatat64"}[rng.Intn(6)]
			if rng.Intn(2) == 0 {
				yml = strings.Replace(yml, "  - action: ", "  - action: errno\n    names:\n    - "+bad+"\n  - action: ", 1)
			} else {
				yml += "  - action: errno\n    names_with_args:\n    - name: " + bad + "\n      arguments:\n      - argument: 0\n        operation: Equal\n        value: 1\n"
			}
			kind = "unknown-syscall:" + bad
		case "unknown-operation":
			yml += "  - action: errno\n    names_with_args:\n    - name: getegid\n      arguments:\n      - argument: 0\n        operation: Equals\n        value: 1\n"
		case "group-without-action":
			yml += "  - names:\n    - getegid\n    - getuid\n"
		case "duplicate-name":
			yml += "  - action: errno\n    names:\n    - getegid\n    - getuid\n    - getegid\n"
		case "with-and-without-conditions":
			if rng.Intn(2) == 0 {
				yml += "  - action: errno\n    names:\n    - getegid\n    names_with_args:\n    - name: getegid\n      arguments:\n      - argument: 0\n        operation: Equal\n        value: 1\n"
			} else {
				yml += "  - action: errno\n    names:\n    - getuid\n    - getegid\n    - getgid\n    names_with_args:\n    - name: getppid\n      arguments:\n      - argument: 1\n        operation: NotEqual\n        value: 7\n    - name: getegid\n      arguments:\n      - argument: 0\n        operation: Equal\n        value: 1\n"
			}
		case "bad-argument-index":
			yml += "  - action: errno\n    names_with_args:\n    - name: getegid\n      arguments:\n      - argument: 6\n        operation: Equal\n        value: 1\n"
		case "no-arguments-key":
			yml += "  - action: errno\n    names_with_args:\n    - name: getegid\n"
		case "empty-arguments":
			yml += "  - action: errno\n    names_with_args:\n    - name: getegid\n      arguments: []\n"
		case "empty-syscalls":
			yml = "seccomp:\n  default_action: allow\n  syscalls: []\n"
		case "no-seccomp-key":
			yml = "something_else:\n  default_action: allow\n"
		case "oversize":
			var b strings.Builder
			b.WriteString("seccomp:\n  default_action: allow\n  syscalls:\n  - action: errno\n    names_with_args:\n")
			for _, nme := range []string{"kexec_load", "swapon", "swapoff", "acct", "reboot", "init_module", "delete_module", "pivot_root", "quotactl", "vhangup", "uselib", "ustat",
				"sysfs", "personality", "iopl", "ioperm", "syslog", "lookup_dcookie", "add_key", "request_key", "keyctl", "kexec_file_load", "settimeofday", "nfsservctl"} {
				fmt.Fprintf(&b, "    - name: %s\n      arguments:\n", nme)
				for k := 0; k < 50; k++ {
					fmt.Fprintf(&b, "      - argument: %d\n        operation: GreaterThan\n        value: %d\n", k%6, uint64(k)<<33|7)
				}
			}
			yml = b.String()
		}
		if kind == "valid" && len(c.Policy.Groups) >= 2 && rng.Intn(5) == 0 {
			// a large policy file: 70 KB of comment lines in front of the last group (a reader with a size cap
			// would lose the rules behind them)
			if at := strings.LastIndex(yml, "  - action: "); at > 0 {
				yml = yml[:at] + strings.Repeat("  # "+strings.Repeat("-", 95)+"\n", 700) + yml[at:]
				sum.Distribution["file:valid-larger-than-64KiB"]++
			}
		}
		if yml != "" {
			os.WriteFile(policyFile, []byte(yml), 0o644)
		}
		evj, _ := json.Marshal(c.Events)
		policyArg := policyFile
		relative := filepath.Dir(policyFile) == policiesDir && rng.Intn(3) == 0
		if relative {
			// the policy is named by a relative path (the sandbox is started in the policies directory), and a valid
			// allow-everything policy file of the same base name lies next to the sandbox executable
			policyArg = filepath.Base(policyFile)
			os.WriteFile(filepath.Join(filepath.Dir(bin), policyArg), []byte("seccomp:\n  default_action: allow\n  syscalls:\n  - action: allow\n    names:\n    - getpid\n"), 0o644)
			sum.Distribution["policy-path:relative-with-a-valid-namesake-next-to-the-executable"]++
		}
		args := []string{"-policy", policyArg}
		nnp := rng.Intn(3) != 0
		if !nnp {
			args = append(args, "-no-new-privs=false")
		}
		if kind != "no-command" {
			args = append(args, self, "-target", marker, "-events", string(evj))
		}
		cmd := exec.Command(bin, args...)
		if kind == "tsync-refused" {
			// the one refusal that carries no errno: the kernel answers a thread-sync load with the id of a thread it
			// cannot synchronise and installs nothing.  In a fresh process no thread diverges, so the answer is
			// injected (strace makes seccomp(2) return 77 without executing it); the file itself is valid.
			if strace == "" {
				sum.Distribution["file:tsync-refused(strace not available)"]++
				continue
			}
			cmd = exec.Command(strace, append([]string{"-f", "-qq", "-o", "/dev/null", "-e", "trace=seccomp", "-e", "inject=seccomp:retval=77", bin}, args...)...)
		}
		if kind == "kernel-refuses" {
			// the kernel (or an outer filter, as in a container) declines seccomp(2) with an errno — ENOSYS on a
			// kernel without seccomp filters; injected by strace, the file itself is valid
			if strace == "" {
				sum.Distribution["file:kernel-refuses(strace not available)"]++
				continue
			}
			errno := []string{"ENOSYS", "ENOSYS", "EPERM", "EACCES", "EINVAL", "ENOMEM", "EFAULT", "ESRCH"}[rng.Intn(8)]
			kind = "kernel-refuses:" + errno
			cmd = exec.Command(strace, append([]string{"-f", "-qq", "-o", "/dev/null", "-e", "trace=seccomp", "-e", "inject=seccomp:error=" + errno, bin}, args...)...)
		}
		if relative {
			cmd.Dir = policiesDir
		}
		var out, errb bytes.Buffer
		cmd.Stdout, cmd.Stderr = &out, &errb
		done := make(chan error, 1)
		if err := cmd.Start(); err != nil {
			sum.Error = err.Error()
			return
		}
		go func() { done <- cmd.Wait() }()
		var werr error
		select {
		case werr = <-done:
		case <-time.After(30 * time.Second):
			cmd.Process.Kill()
			werr = <-done
		}
		exit := 0
		if werr != nil {
			exit = 1
			if ee, ok := werr.(*exec.ExitError); ok {
				exit = ee.ExitCode()
			}
		}
		_, statErr := os.Stat(marker)
		started := statErr == nil
		sum.Evaluations++
		sum.Distribution["file:"+kind]++
		sum.Distribution[fmt.Sprintf("exit:%d", exit)]++
		caseJSON, _ := json.Marshal(map[string]interface{}{"kind": kind, "nnp": nnp, "policy_yaml": yml, "events": c.Events})
		fail := func(note, failing string) bool {
			sum.Mismatches = append(sum.Mismatches, Mismatch{Case: fmt.Sprintf("%d:%s", i, kind), Request: "sandbox: " + string(caseJSON), Go: fmt.Sprintf("exit=%d started=%v stdout=%q stderr=%q", exit, started, out.String(), errb.String()),
				Model: fmt.Sprintf("expect started=%v", expectStart), Note: note, FailingInput: failing})
			return len(sum.Mismatches) >= 5
		}
		nontrivial := kind != "valid"
		if !expectStart {
			if started {
				if fail("target ran although the policy was not loaded", fmt.Sprintf("policy file kind %q: the sandbox started the target (exit %d)", kind, exit)) {
					return
				}
			} else if exit == 0 {
				if fail("exit status 0 although nothing was run", fmt.Sprintf("policy file kind %q: exit status 0", kind)) {
					return
				}
			}
		} else {
			if !started || exit != 0 {
				failing := ""
				if started {
					done := 0
					if t := strings.TrimSpace(out.String()); t != "" {
						done = len(strings.Split(t, "\n"))
					}
					if done < len(c.Events) {
						ev := c.Events[done]
						req := fmt.Sprintf("S x86_64 %s %d 3221225534 %d %d %d %d %d %d", c.Policy.Body(), ev.Nr, ev.Args[0], ev.Args[1], ev.Args[2], ev.Args[3], ev.Args[4], ev.Args[5])
						if reply, err := model.Ask(req); err == nil {
							var dec uint32
							fmt.Sscanf(reply, "DEC %d", &dec)
							if outcome(dec) != "died:sigsys" {
								failing = fmt.Sprintf("target under the sandbox: it was terminated (exit %d) while issuing probe nr=%d args=%v, for which the policy file says %q (no action of this policy file kills)", exit, ev.Nr, ev.Args, outcome(dec))
							}
						}
					}
				}
				if fail("valid policy: the target did not run to completion", failing) {
					return
				}
			} else {
				lines := strings.Split(strings.TrimSpace(out.String()), "\n")
				for j, ev := range c.Events {
					req := fmt.Sprintf("S x86_64 %s %d 3221225534 %d %d %d %d %d %d", c.Policy.Body(), ev.Nr, ev.Args[0], ev.Args[1], ev.Args[2], ev.Args[3], ev.Args[4], ev.Args[5])
					reply, err := model.Ask(req)
					if err != nil {
						sum.Error = err.Error()
						return
					}
					var dec uint32
					fmt.Sscanf(reply, "DEC %d", &dec)
					want := fmt.Sprintf("%d %s", j, outcome(dec))
					if outcome(dec) != "ok" {
						nontrivial = true
					}
					got := ""
					if j < len(lines) {
						got = lines[j]
					}
					if got != want {
						if fail(fmt.Sprintf("event %d: target observed %q, policy says %q", j, got, want),
							fmt.Sprintf("target under the sandbox: probe nr=%d args=%v answered %q, the policy file says %q", ev.Nr, ev.Args, got, want)) {
							return
						}
						break
					}
				}
			}
		}
		if nontrivial {
			sum.Distinct++
		}
		if len(sum.Samples) < 3 {
			sum.Samples = append(sum.Samples, fmt.Sprintf("kind=%s nnp=%v  =>  exit=%d started=%v", kind, nnp, exit, started))
		}
	}
}
