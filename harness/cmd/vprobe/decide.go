package main

import (
	"bufio"
	"bytes"
	"encoding/json"
	"fmt"
	"io"
	"math/rand"
	"os"
	"os/exec"
	"runtime"
	"strconv"
	"strings"
	"syscall"
	"time"

	seccomp "github.com/elastic/go-seccomp-bpf"

	"verif/harness/internal/vd"
)

// C08: the kernel's decisions for a loaded policy equal the specification's.

type Event struct {
	Nr   uint64    `json:"nr"`
	Args [6]uint64 `json:"args"`
}

type DecideCase struct {
	Policy vd.Policy `json:"policy"`
	NNP    bool      `json:"nnp"`
	Flags  uint32    `json:"flags"`
	Events []Event   `json:"events"`
	Start  int       `json:"start"`
	// Warm: the library value that is loaded has a history — it was built with other operands, assembled
	// and dumped once, and then edited in place (same shape) to the policy of this case.
	Warm bool `json:"warm,omitempty"`
	// Second: a further policy loaded on top of the first one in the same child (same flags); the kernel
	// then runs both filters and keeps the most restrictive answer (Model/Chain.lean).
	Second *vd.Policy `json:"second,omitempty"`
}

// probe syscalls ignore their registers.  The Go runtime itself uses getpid, gettid and sched_yield,
// so those never get a killing action.
var probes = []string{"getpid", "getppid", "getuid", "geteuid", "getgid", "getegid", "gettid", "getpgrp", "sched_yield"}
var killable = map[string]bool{"getppid": true, "getuid": true, "geteuid": true, "getgid": true, "getegid": true, "getpgrp": true}

const (
	actAllow = 0x7fff0000
	actErrno = 0x00050000
	actKillP = 0x80000000
	actLog   = 0x7ffc0000
	actTrace = 0x7ff00000 // no tracer attached: the kernel fails the call with ENOSYS
)

func probeNr(name string) uint64 { return uint64(vd.ArchInfo("x86_64").SyscallNames[name]) }

func genDecide(r *rand.Rand) DecideCase {
	c := genDecideOne(r)
	if r.Intn(3) == 0 {
		c2 := genDecideOne(r)
		c.Second = &c2.Policy
		c.Events = append(c.Events, c2.Events...)
	}
	return c
}

func genDecideOne(r *rand.Rand) DecideCase {
	c := DecideCase{NNP: true, Flags: []uint32{0, 1, 2, 3}[r.Intn(4)], Warm: r.Intn(4) == 0}
	if r.Intn(4) == 0 {
		c.NNP = false // the harness runs as root
	}
	p := vd.Policy{Arch: "x86_64", Endian: "le", Default: actAllow}
	isProbe := map[string]bool{}
	for _, n := range probes {
		isProbe[n] = true
	}
	longForm := r.Intn(3) == 0
	if longForm {
		// default errno (or kill_process); the first group allows every syscall of the table except the probes,
		// so the process keeps working and the program is long (> 255 instructions, bridged jumps)
		p.Default = []uint32{actErrno, actErrno, actKillP}[r.Intn(3)]
		var rest []string
		for _, n := range vd.TableNames("x86_64") {
			if !isProbe[n] {
				rest = append(rest, n)
			}
		}
		r.Shuffle(len(rest), func(i, j int) { rest[i], rest[j] = rest[j], rest[i] })
		p.Groups = append(p.Groups, vd.Group{Action: actAllow, Names: rest})
		if p.Default == actKillP {
			// runtime-used probes must stay harmless
			p.Groups = append(p.Groups, vd.Group{Action: []uint32{actErrno, actAllow}[r.Intn(2)], Names: []string{"getpid", "gettid", "sched_yield"}})
			isProbe["getpid"], isProbe["gettid"], isProbe["sched_yield"] = false, false, false
		}
	}
	ng := 1 + r.Intn(3)
	used := map[string]bool{}
	var operands []uint64
	for g := 0; g < ng; g++ {
		grp := vd.Group{Action: []uint32{actErrno, actErrno, actAllow, actKillP, actLog, actErrno | 2, actErrno | 13, actErrno | 38, actErrno | 4094, actTrace}[r.Intn(10)]}
		cnt := 1 + r.Intn(3)
		for k := 0; k < cnt; k++ {
			n := probes[r.Intn(len(probes))]
			if !isProbe[n] || used[fmt.Sprint(g, n)] || (grp.Action == actKillP && !killable[n]) {
				continue
			}
			used[fmt.Sprint(g, n)] = true
			if r.Intn(3) == 0 {
				dup := false
				for _, nc := range grp.WithConds {
					dup = dup || nc.Name == n
				}
				if !dup {
					grp.Names = append(grp.Names, n)
				}
				continue
			}
			already := false
			for _, x := range grp.Names {
				already = already || x == n
			}
			if already {
				continue
			}
			nlists := 1 + r.Intn(2)
			for l := 0; l < nlists; l++ {
				nconds := 1 + r.Intn(3)
				if r.Intn(8) == 0 {
					nconds = 40 + r.Intn(40) // long condition lists: bridges inside an entry
				}
				var cs []vd.Cond
				if r.Intn(7) == 0 {
					// "this syscall, whatever its arguments": every condition holds for every value
					for i := 0; i < nconds && i < 3; i++ {
						a := uint32(r.Intn(6))
						cs = append(cs, []vd.Cond{{Arg: a, Op: "GreaterOrEqual", Val: 0}, {Arg: a, Op: "LessOrEqual", Val: ^uint64(0)}, {Arg: a, Op: "BitsNotSet", Val: 0}}[r.Intn(3)])
					}
					grp.WithConds = append(grp.WithConds, vd.NameConds{Name: n, Conds: cs})
					continue
				}
				for i := 0; i < nconds; i++ {
					cnd := vd.Cond{Arg: uint32(r.Intn(6)), Op: vd.Ops[r.Intn(len(vd.Ops))], Val: vd.Operand(r)}
					if nconds > 10 {
						// keep long lists satisfiable: x >= 0, x <= max, bits-not-set 0
						cnd = []vd.Cond{{Arg: cnd.Arg, Op: "GreaterOrEqual", Val: 0}, {Arg: cnd.Arg, Op: "LessOrEqual", Val: ^uint64(0)}, {Arg: cnd.Arg, Op: "BitsNotSet", Val: 0}}[r.Intn(3)]
						if i == nconds-1 {
							cnd = vd.Cond{Arg: uint32(r.Intn(6)), Op: "Equal", Val: vd.Operand(r)}
						}
					}
					operands = append(operands, cnd.Val)
					cs = append(cs, cnd)
				}
				grp.WithConds = append(grp.WithConds, vd.NameConds{Name: n, Conds: cs})
			}
		}
		// entries for the same syscall need not be neighbours: X, Y, X
		if len(grp.WithConds) > 1 && r.Intn(2) == 0 {
			r.Shuffle(len(grp.WithConds), func(i, j int) { grp.WithConds[i], grp.WithConds[j] = grp.WithConds[j], grp.WithConds[i] })
		}
		if len(grp.WithConds) > 1 && r.Intn(3) == 0 {
			// one more alternative for the first entry's syscall, behind everything else
			first := grp.WithConds[0]
			cnd := vd.Cond{Arg: uint32(r.Intn(6)), Op: []string{"Equal", "BitsSet", "GreaterThan"}[r.Intn(3)], Val: vd.Operand(r)}
			operands = append(operands, cnd.Val)
			grp.WithConds = append(grp.WithConds, vd.NameConds{Name: first.Name, Conds: []vd.Cond{cnd}})
		}
		if len(grp.WithConds) > 0 && r.Intn(4) == 0 {
			// one more alternative for a syscall of the group: a proper prefix of one of its lists (the weaker rule
			// comes later), or an extension of it
			src := grp.WithConds[r.Intn(len(grp.WithConds))]
			if len(src.Conds) >= 2 && len(src.Conds) <= 6 && r.Intn(2) == 0 {
				grp.WithConds = append(grp.WithConds, vd.NameConds{Name: src.Name, Conds: append([]vd.Cond{}, src.Conds[:1+r.Intn(len(src.Conds)-1)]...)})
			} else if len(src.Conds) >= 1 && len(src.Conds) <= 6 {
				ext := vd.Cond{Arg: uint32(r.Intn(6)), Op: vd.Ops[r.Intn(len(vd.Ops))], Val: vd.Operand(r)}
				operands = append(operands, ext.Val)
				grp.WithConds = append(grp.WithConds, vd.NameConds{Name: src.Name, Conds: append(append([]vd.Cond{}, src.Conds...), ext)})
			}
		}
		if len(grp.Names)+len(grp.WithConds) > 0 {
			p.Groups = append(p.Groups, grp)
		}
	}
	if len(p.Groups) == 0 {
		p.Groups = []vd.Group{{Action: actErrno, Names: []string{"getppid"}}}
	}
	c.Policy = p
	// events: every probe with argument vectors around the operands
	argval := func() uint64 {
		if len(operands) > 0 && r.Intn(3) != 0 {
			v := operands[r.Intn(len(operands))]
			switch r.Intn(6) {
			case 0:
				return v + 1
			case 1:
				return v - 1
			case 2:
				return v&0xFFFFFFFF | uint64(r.Uint32())<<32
			case 3:
				return v&^0xFFFFFFFF | uint64(r.Uint32())
			}
			return v
		}
		return vd.Operand(r)
	}
	// one event per condition list that tries to satisfy exactly that list (short lists only)
	for _, g := range p.Groups {
		for _, nc := range g.WithConds {
			if len(nc.Conds) > 6 || len(c.Events) >= 12 || !isProbe[nc.Name] {
				continue
			}
			ev := Event{Nr: probeNr(nc.Name)}
			for _, cnd := range nc.Conds {
				v := cnd.Val
				switch cnd.Op {
				case "NotEqual", "GreaterThan":
					v++
				case "LessThan":
					v--
				case "BitsNotSet":
					v = ^v
				}
				ev.Args[cnd.Arg] = v
			}
			c.Events = append(c.Events, ev)
		}
	}
	// numbers no table holds: the x32 range and beyond (the compiled filter answers ENOSYS itself on x86_64;
	// so does the kernel for whatever the filter lets through, so these probes are harmless)
	if p.Default != actAllow || r.Intn(3) == 0 {
		for _, nr := range append([]uint64{0x40000000}, []uint64{0x80000027, 0xBFFFFFFF, 0x40000027, 0x7FFFFFFF, 0xC0000000, 0xFFFFFFFF}[r.Intn(3):3+r.Intn(4)]...) {
			ev := Event{Nr: nr}
			for a := range ev.Args {
				ev.Args[a] = argval()
			}
			c.Events = append(c.Events, ev)
		}
	}
	nev := 10 + r.Intn(10)
	for i := 0; i < nev; i++ {
		ev := Event{Nr: probeNr(probes[r.Intn(len(probes))])}
		for a := range ev.Args {
			ev.Args[a] = argval()
		}
		c.Events = append(c.Events, ev)
	}
	return c
}

func childDecide(c DecideCase) {
	runtime.LockOSThread()
	var lim syscall.Rlimit
	syscall.Setrlimit(syscall.RLIMIT_CORE, &lim)
	out := bufio.NewWriter(os.Stdout)
	gp := c.Policy.ToGo()
	if c.Warm {
		for gi := range gp.Syscalls {
			for ni := range gp.Syscalls[gi].NamesWithCondtions {
				for ci := range gp.Syscalls[gi].NamesWithCondtions[ni].Conditions {
					gp.Syscalls[gi].NamesWithCondtions[ni].Conditions[ci].Value ^= 1
				}
			}
		}
		gp.Assemble()
		gp.Dump(io.Discard)
		for gi := range gp.Syscalls {
			for ni := range gp.Syscalls[gi].NamesWithCondtions {
				for ci := range gp.Syscalls[gi].NamesWithCondtions[ni].Conditions {
					gp.Syscalls[gi].NamesWithCondtions[ni].Conditions[ci].Value ^= 1
				}
			}
		}
	}
	filter := seccomp.Filter{NoNewPrivs: c.NNP, Flag: seccomp.FilterFlag(c.Flags), Policy: gp}
	if err := seccomp.LoadFilter(filter); err != nil {
		fmt.Fprintf(out, "load-error %v\n", err)
		out.Flush()
		os.Exit(3)
	}
	if c.Second != nil {
		filter2 := seccomp.Filter{NoNewPrivs: c.NNP, Flag: seccomp.FilterFlag(c.Flags), Policy: c.Second.ToGo()}
		if err := seccomp.LoadFilter(filter2); err != nil {
			fmt.Fprintf(out, "load-error (second policy) %v\n", err)
			out.Flush()
			os.Exit(3)
		}
	}
	fmt.Fprintln(out, "loaded")
	out.Flush()
	for i := c.Start; i < len(c.Events); i++ {
		ev := c.Events[i]
		fmt.Fprintf(out, "%d begin\n", i)
		out.Flush()
		_, _, e := syscall.RawSyscall6(uintptr(ev.Nr), uintptr(ev.Args[0]), uintptr(ev.Args[1]), uintptr(ev.Args[2]), uintptr(ev.Args[3]), uintptr(ev.Args[4]), uintptr(ev.Args[5]))
		res := "ok"
		if e == syscall.EPERM {
			res = "eperm"
		} else if e != 0 {
			res = fmt.Sprintf("errno:%d", int(e))
		}
		fmt.Fprintf(out, "%d %s\n", i, res)
		out.Flush()
	}
	os.Exit(0)
}

// observeDecisions runs the case in as many children as needed (a kill ends one child).
func observeDecisions(c DecideCase) ([]string, string) {
	results := make([]string, len(c.Events))
	start := 0
	self, _ := os.Executable()
	for start < len(c.Events) {
		c.Start = start
		data, _ := json.Marshal(c)
		cmd := exec.Command(self, "-childdecide", string(data))
		var out, errb bytes.Buffer
		cmd.Stdout, cmd.Stderr = &out, &errb
		if err := cmd.Start(); err != nil {
			return nil, err.Error()
		}
		done := make(chan error, 1)
		go func() { done <- cmd.Wait() }()
		var werr error
		select {
		case werr = <-done:
		case <-time.After(20 * time.Second):
			cmd.Process.Kill()
			<-done
			return nil, "child timed out: " + out.String()
		}
		lines := strings.Split(strings.TrimSpace(out.String()), "\n")
		if len(lines) == 0 || lines[0] != "loaded" {
			return nil, "child could not load the filter: " + out.String() + errb.String()
		}
		last := -1
		began := -1
		for _, l := range lines[1:] {
			f := strings.Fields(l)
			if len(f) != 2 {
				continue
			}
			i, _ := strconv.Atoi(f[0])
			if f[1] == "begin" {
				began = i
				continue
			}
			results[i] = f[1]
			last = i
		}
		if werr == nil {
			break
		}
		// died: by SIGSYS while probing event `began`?
		sig := ""
		if ee, ok := werr.(*exec.ExitError); ok {
			if ws, ok := ee.Sys().(syscall.WaitStatus); ok && ws.Signaled() {
				sig = ws.Signal().String()
				if ws.Signal() == syscall.SIGSYS {
					sig = "sigsys"
				}
			}
		}
		if began > last && began >= start {
			results[began] = "died:" + sig
			start = began + 1
			continue
		}
		return results, "child died outside a probe: " + werr.Error() + " " + errb.String()
	}
	return results, ""
}

func outcome(dec uint32) string {
	switch dec & 0xffff0000 {
	case actAllow, actLog:
		return "ok"
	case actErrno:
		if dec&0xffff == 1 {
			return "eperm"
		}
		return fmt.Sprintf("errno:%d", dec&0xffff)
	case actKillP:
		return "died:sigsys"
	case actTrace:
		return "errno:38"
	}
	return fmt.Sprintf("action:%#x", dec)
}

func decideStream(sum *Summary, model *vd.Model, n int, seed int64) {
	sum.Rule = "seeded policies over the probe syscalls (getpid, getppid, getuid, geteuid, getgid, getegid, gettid, getpgrp, sched_yield: they ignore their registers) with conditions on all six arguments, several groups, actions allow/errno/kill_process/log/trace (no tracer: ENOSYS), entries whose conditions all hold for every value, prefix and extension alternatives of one syscall, optionally default errno/kill_process behind an allow-group of the whole remaining table (programs > 255 instructions); loaded through the real LoadFilter in a child (with/without thread-sync, log flag, no_new_privs); each probe event = raw syscall with arbitrary 64-bit registers; observed ok / EPERM / death by SIGSYS compared with Spec.decision — in one case out of three a second policy is loaded on top of the first and the answers are compared with Chain.chain of the two decisions; distinct by (policy, event); non-trivial = the specification's answer is not the default allow"
	rng := rand.New(rand.NewSource(seed))
	seen := map[string]bool{}
	for i := 0; i < n; i++ {
		c := genDecide(rng)
		// Where the model's search finds an event that the compiled program decides differently from
		// the policy, let the kernel decide that very event too (only if it is one of the harmless
		// probe syscalls on the native architecture).
		if goReply, _ := c.Policy.Compile(); strings.HasPrefix(goReply, "OK ") {
			if o, err := model.Ask("X x86_64 le " + c.Policy.Body() + " " + strings.TrimPrefix(goReply, "OK ")); err == nil && strings.HasPrefix(o, "CEX ") {
				var ev Event
				var archWord uint64
				if k, _ := fmt.Sscanf(o, "CEX %d %d %d %d %d %d %d %d", &ev.Nr, &archWord, &ev.Args[0], &ev.Args[1], &ev.Args[2], &ev.Args[3], &ev.Args[4], &ev.Args[5]); k == 8 && archWord == 3221225534 {
					for _, pn := range probes {
						if probeNr(pn) == ev.Nr {
							c.Events = append([]Event{ev}, c.Events...)
							sum.Distribution["event-suggested-by-the-model's-search"]++
							break
						}
					}
				}
			}
		}
		cj, _ := json.Marshal(c)
		obs, cerr := observeDecisions(c)
		if cerr != "" {
			sum.Evaluations++
			m := Mismatch{Case: fmt.Sprint(i), Request: "decide: " + string(cj), Note: cerr}
			// the child could not work under its own filter: look for the event the compiled program
			// decides wrongly (the implementation's program against the specification, in the model)
			if goReply, _ := c.Policy.Compile(); strings.HasPrefix(goReply, "OK ") {
				if o, err := model.Ask("X x86_64 le " + c.Policy.Body() + " " + strings.TrimPrefix(goReply, "OK ")); err == nil && strings.HasPrefix(o, "CEX ") {
					m.FailingInput = "the compiled program decides an event differently from the policy (event: nr arch a0..a5): " + o
				}
			}
			sum.Mismatches = append(sum.Mismatches, m)
			if len(sum.Mismatches) >= 5 {
				return
			}
			continue
		}
		sum.Distribution[fmt.Sprintf("flags:%d", c.Flags)]++
		sum.Distribution[fmt.Sprintf("groups:%d", len(c.Policy.Groups))]++
		if goReply, _ := c.Policy.Compile(); strings.HasPrefix(goReply, "OK ") {
			var plen int
			fmt.Sscanf(goReply, "OK %d", &plen)
			if plen > 255 {
				sum.Distribution["program>255"]++
			} else {
				sum.Distribution["program<=255"]++
			}
		}
		for j, ev := range c.Events {
			sum.Evaluations++
			req := fmt.Sprintf("S x86_64 %s %d 3221225534 %d %d %d %d %d %d", c.Policy.Body(), ev.Nr, ev.Args[0], ev.Args[1], ev.Args[2], ev.Args[3], ev.Args[4], ev.Args[5])
			reply, err := model.Ask(req)
			if err != nil {
				sum.Error = err.Error()
				return
			}
			var dec uint32
			fmt.Sscanf(reply, "DEC %d", &dec)
			if c.Second != nil {
				// two filters on the thread: the kernel keeps the most restrictive answer (newest first)
				req2 := fmt.Sprintf("S x86_64 %s %d 3221225534 %d %d %d %d %d %d", c.Second.Body(), ev.Nr, ev.Args[0], ev.Args[1], ev.Args[2], ev.Args[3], ev.Args[4], ev.Args[5])
				reply2, err := model.Ask(req2)
				if err != nil {
					sum.Error = err.Error()
					return
				}
				var dec2 uint32
				fmt.Sscanf(reply2, "DEC %d", &dec2)
				reply3, err := model.Ask(fmt.Sprintf("CH 2 %d %d", dec2, dec))
				if err != nil || !strings.HasPrefix(reply3, "CHAIN ") {
					sum.Error = "model: chain request failed: " + reply3
					return
				}
				req, reply = req+" ; "+req2, reply+" ; "+reply2+" ; "+reply3
				fmt.Sscanf(reply3, "CHAIN %d", &dec)
				sum.Distribution["two-filters-on-the-thread"]++
			}
			want := outcome(dec)
			sum.Distribution["expect:"+want]++
			key := fmt.Sprintf("%x/%d", cj[:0], j) + req
			if want != "ok" && !seen[key] {
				seen[key] = true
				sum.Distinct++
			}
			if len(sum.Samples) < 3 && want != "ok" {
				sum.Samples = append(sum.Samples, fmt.Sprintf("%s  =>  kernel: %s, specification: %s", req, obs[j], want))
			}
			if obs[j] != want {
				sum.Mismatches = append(sum.Mismatches, Mismatch{Case: fmt.Sprintf("%d/%d", i, j), Request: "decide: " + string(cj), Go: obs[j], Model: reply,
					Note:         fmt.Sprintf("event %d: kernel %s, specification %s", j, obs[j], want),
					FailingInput: fmt.Sprintf("event nr=%d args=%v under the loaded policy: the kernel answered %s, the policy says %s", ev.Nr, ev.Args, obs[j], want)})
				if len(sum.Mismatches) >= 5 {
					return
				}
				break
			}
		}
	}
}
