package main

import (
	"bytes"
	"encoding/json"
	"fmt"
	"math/rand"
	"os"
	"os/exec"
	"runtime"
	"strings"
	"sync"
	"syscall"
	"time"

	seccomp "github.com/elastic/go-seccomp-bpf"
)

// Concurrent loads (C09, C08): k pinned threads load k *different* policies at the same moment, without
// thread-sync — thread i's policy answers getppid with errno 100+i.  A nil result must mean that the
// thread enforces its own policy: afterwards getppid on thread i must answer 100+i.  This is the property
// clause itself, evaluated directly on the running kernel; it needs no model.

type ParCase struct {
	Threads int  `json:"threads"`
	Rounds  int  `json:"rounds"`
	Warm    bool `json:"warm"` // one larger load first (on a thread of its own)
	Names   int  `json:"names"`
}

func parPolicy(errno int, names int) seccomp.Policy {
	pad := []string{"kexec_load", "swapon", "swapoff", "acct", "reboot", "init_module", "delete_module", "pivot_root", "quotactl", "vhangup", "uselib", "ustat", "sysfs", "personality"}
	if names > len(pad) {
		names = len(pad)
	}
	return seccomp.Policy{DefaultAction: seccomp.ActionAllow, Syscalls: []seccomp.SyscallGroup{
		{Action: seccomp.ActionErrno | seccomp.Action(errno), Names: []string{"getppid"}},
		{Action: seccomp.ActionErrno, Names: pad[:names]}}}
}

func childPar(c ParCase) {
	runtime.GOMAXPROCS(c.Threads + 2)
	if c.Warm {
		done := make(chan bool)
		go func() {
			runtime.LockOSThread()
			p := parPolicy(99, 14)
			p.Syscalls[1].Names = append(p.Syscalls[1].Names, "iopl", "ioperm", "syslog", "lookup_dcookie", "add_key", "request_key", "keyctl", "nfsservctl")
			seccomp.LoadFilter(seccomp.Filter{NoNewPrivs: true, Policy: p})
			done <- true
			select {} // keep the thread
		}()
		<-done
	}
	type res struct {
		Round, Thread int
		Result        string
		Errno         int
	}
	var out []res
	var mu sync.Mutex
	start := make([]chan int, c.Threads)
	var wg sync.WaitGroup
	for i := 0; i < c.Threads; i++ {
		start[i] = make(chan int)
		go func(i int) {
			runtime.LockOSThread()
			for round := range start[i] {
				want := 100 + i + 16*round
				err := seccomp.LoadFilter(seccomp.Filter{NoNewPrivs: true, Policy: parPolicy(want, c.Names+i%3)})
				_, _, e := syscall.RawSyscall(syscall.SYS_GETPPID, 0, 0, 0)
				mu.Lock()
				out = append(out, res{round, i, classify(err), int(e)})
				mu.Unlock()
				wg.Done()
			}
		}(i)
	}
	for round := 0; round < c.Rounds; round++ {
		wg.Add(c.Threads)
		for i := 0; i < c.Threads; i++ {
			start[i] <- round
		}
		wg.Wait()
	}
	data, _ := json.Marshal(out)
	fmt.Println(string(data))
}

func parStream(sum *Summary, n int, seed int64) {
	sum.Rule = "k pinned threads (2..8) of a fresh child process load k different policies at the same moment (no thread-sync, optionally after one larger load), for 1..3 rounds; " +
		"a nil result on thread i must be followed by getppid answering that load's own errno on thread i (the newest filter of a thread decides); evaluated directly on the kernel; " +
		"a case = one child process; non-trivial: every case; distinct by case parameters × index"
	rng := rand.New(rand.NewSource(seed))
	self, _ := os.Executable()
	for i := 0; i < n; i++ {
		c := ParCase{Threads: 2 + rng.Intn(7), Rounds: 1 + rng.Intn(3), Warm: rng.Intn(3) != 0, Names: rng.Intn(6)}
		cj, _ := json.Marshal(c)
		cmd := exec.Command(self, "-childpar", string(cj))
		var so, se bytes.Buffer
		cmd.Stdout, cmd.Stderr = &so, &se
		if err := cmd.Start(); err != nil {
			sum.Error = err.Error()
			return
		}
		done := make(chan error, 1)
		go func() { done <- cmd.Wait() }()
		select {
		case <-done:
		case <-time.After(30 * time.Second):
			cmd.Process.Kill()
			<-done
		}
		sum.Evaluations++
		sum.Distinct++
		sum.Distribution[fmt.Sprintf("threads:%d", c.Threads)]++
		var results []struct {
			Round, Thread int
			Result        string
			Errno         int
		}
		line := strings.TrimSpace(so.String())
		if err := json.Unmarshal([]byte(line), &results); err != nil {
			sum.Mismatches = append(sum.Mismatches, Mismatch{Case: fmt.Sprint(i), Request: "par: " + string(cj), Go: line + se.String(), Note: "the child reported nothing"})
			if len(sum.Mismatches) >= 3 {
				return
			}
			continue
		}
		for _, r := range results {
			want := 100 + r.Thread + 16*r.Round
			sum.Distribution["result:"+r.Result]++
			if r.Result == "nil" && r.Errno != want {
				sum.Mismatches = append(sum.Mismatches, Mismatch{Case: fmt.Sprint(i), Request: "par: " + string(cj), Go: line, Model: fmt.Sprintf("thread %d round %d: errno %d", r.Thread, r.Round, want),
					Note:         "a concurrent load returned nil but the thread does not enforce the policy of that load",
					FailingInput: fmt.Sprintf("%d threads load different policies at the same moment (case %s): LoadFilter on thread %d (round %d) returned nil, but getppid on that thread answers errno %d instead of its own policy's %d", c.Threads, cj, r.Thread, r.Round, r.Errno, want)})
				break
			}
		}
		if len(sum.Samples) < 2 {
			sum.Samples = append(sum.Samples, "par: "+string(cj)+"  =>  "+line)
		}
		if len(sum.Mismatches) >= 3 {
			return
		}
	}
}
