package main

import (
	"crypto/sha256"
	"encoding/hex"
	"encoding/json"
	"fmt"
	"math/rand"
	"os"
	"path/filepath"
	"strings"
)

// C17: run histories of the built profiler over a private cache directory.

type Run struct {
	Variant int    `json:"variant"` // content of the binary: 0, 1, …
	Sched   string `json:"sched"`   // ok | missing | fail:<j> | kill:<j>
}

type History struct {
	Runs []Run `json:"runs"`
}

const cacheChunks = 6 // must equal Driver.Cache.nchunks

type cacheRig struct {
	e        *env
	home     string
	ctl      string
	target   string
	base     []byte         // the ELF all variants are made of
	hashes   map[int]string // variant → sha256 hex
	listings map[int]string // variant → listing
	cold     map[int]string // variant → stdout of a cold-cache run
	coldN    map[int]int    // variant → number of names in it
	dumpFile string
}

func (c *cacheRig) content(v int) []byte {
	if v == 0 {
		return c.base
	}
	return append(append([]byte{}, c.base...), []byte(fmt.Sprintf("\nvariant %d\n", v))...)
}

func countNames(yaml string) int {
	n := 0
	for _, l := range strings.Split(yaml, "\n") {
		if strings.HasPrefix(l, "    - ") {
			n++
		}
	}
	return n
}

func newCacheRig(e *env, rng *rand.Rand) (*cacheRig, error) {
	c := &cacheRig{e: e, hashes: map[int]string{}, listings: map[int]string{}, cold: map[int]string{}, coldN: map[int]int{}}
	c.home = filepath.Join(e.dir, "home")
	c.ctl = filepath.Join(e.dir, "ctl")
	c.target = filepath.Join(e.dir, "target")
	var err error
	c.base, err = os.ReadFile(e.profiler) // any static Go ELF will do: the profiler itself
	if err != nil {
		return nil, err
	}
	sum := sha256.Sum256([]byte(c.target))
	c.dumpFile = filepath.Join(c.home, ".seccomp-profiler", "target-"+hex.EncodeToString(sum[:])[:10])
	info := infoFor("amd64")
	nums := knownNumbers(info)
	for v := 0; v < 3; v++ {
		h := sha256.Sum256(c.content(v))
		c.hashes[v] = hex.EncodeToString(h[:])
		// 48 functions with distinct syscalls, spread evenly; a variant uses its own selection
		var sites []site
		perm := rng.Perm(len(nums))
		for i := 0; i < 48; i++ {
			sites = append(sites, randSite(rng, nums[perm[i]]))
		}
		c.listings[v] = listing("amd64", sites, 40) // ≈ 48 × 44 lines × 45 bytes ≈ 95 KB: every chunk overflows bufio's 4 KB
	}
	// cold-cache reference outputs
	for v := 0; v < 3; v++ {
		c.reset()
		r := c.run(Run{Variant: v, Sched: "ok"})
		if r.Status != "ok" || countNames(r.Stdout) == 0 {
			return nil, fmt.Errorf("cold-cache reference run failed (status %s): %s", r.Status, r.Stderr)
		}
		c.cold[v] = r.Stdout
		c.coldN[v] = countNames(r.Stdout)
	}
	return c, nil
}

// reset empties the cache directory.
func (c *cacheRig) reset() {
	os.RemoveAll(c.home)
	os.MkdirAll(c.home, 0o755)
	chownR(c.home)
}

func parseSched(s string) (kind string, j int) {
	parts := strings.SplitN(s, ":", 2)
	kind = parts[0]
	if len(parts) == 2 {
		fmt.Sscanf(parts[1], "%d", &j)
	}
	return
}

func (c *cacheRig) run(r Run) procResult {
	os.WriteFile(c.target, c.content(r.Variant), 0o755)
	os.RemoveAll(c.ctl)
	os.MkdirAll(c.ctl, 0o777)
	os.WriteFile(filepath.Join(c.ctl, "listing"), []byte(c.listings[r.Variant]), 0o644)
	kind, j := parseSched(r.Sched)
	p := plan{Chunks: cacheChunks, FailAfter: -1}
	path, killAt := c.e.fakePath, -1
	switch kind {
	case "missing":
		path = c.e.noPath
	case "fail":
		p.FailAfter = j
	case "kill":
		p.Sync, p.PassUntil, killAt = true, j, j
	}
	data, _ := json.Marshal(p)
	os.WriteFile(filepath.Join(c.ctl, "plan.json"), data, 0o644)
	chownR(c.ctl)
	return c.e.runProfiler(c.home, path, c.ctl, []string{"-format", "config", c.target}, killAt)
}

// cacheState classifies the final cache path.
func (c *cacheRig) cacheState() string {
	data, err := os.ReadFile(c.dumpFile)
	if err != nil {
		return "absent"
	}
	for v, h := range c.hashes {
		if string(data) == h+"\n"+c.listings[v] {
			return fmt.Sprintf("complete:%d", v)
		}
	}
	return "other"
}

func logState(stderr string) string {
	switch {
	case strings.Contains(stderr, "Using cached objdump."):
		return "hit"
	case strings.Contains(stderr, "objdump written to"):
		return "written"
	}
	return "none"
}

func genHistory(r *rand.Rand) History {
	faulty := func() string {
		switch r.Intn(7) {
		case 0:
			return "missing"
		case 1, 2:
			return fmt.Sprintf("fail:%d", r.Intn(cacheChunks+1))
		case 3:
			return "ok"
		}
		return fmt.Sprintf("kill:%d", r.Intn(cacheChunks+1))
	}
	var h History
	v := r.Intn(2)
	nf := 1 + r.Intn(2)
	for i := 0; i < nf; i++ {
		h.Runs = append(h.Runs, Run{Variant: v, Sched: faulty()})
		if r.Intn(5) == 0 {
			v = (v + 1) % 3 // the binary is rebuilt between two runs
		}
	}
	h.Runs = append(h.Runs, Run{Variant: v, Sched: "ok"})
	if r.Intn(3) == 0 {
		h.Runs = append(h.Runs, Run{Variant: v, Sched: "ok"})
	}
	return h
}

func runCache(e *env, replayCases []string) error {
	e.sum.Rule = "histories of the built seccomp-profiler over one private cache directory: faulty runs (disassembler missing, exiting non-zero after j of 6 chunks, profiler SIGKILLed at chunk boundary j, binary rebuilt in between) followed by normal runs; every run's exit status, final cache path (absent / complete for variant v / other) and log line (hit / written) are compared with CacheSpec.doObjdump, and every normal run's stdout with the cold-cache output; systematic part: every boundary j for kill and fail; a history is non-trivial if it contains a faulty run; distinct by history"
	rng := rand.New(rand.NewSource(*seed))
	c, err := newCacheRig(e, rng)
	if err != nil {
		return err
	}
	e.sum.Extra = map[string]interface{}{"chunks": cacheChunks, "listing_bytes": len(c.listings[0]), "cold_names": c.coldN,
		"crash_points_on_the_real_binary": "sampled: the profiler is killed while the disassembler has printed j of 6 chunks (j = 0..6); crash points inside Flush/Close/Rename are covered by the theorem only"}
	var hs []History
	if len(replayCases) > 0 {
		for _, s := range replayCases {
			var h History
			if json.Unmarshal([]byte(s), &h) == nil && len(h.Runs) > 0 {
				hs = append(hs, h)
			}
		}
	} else {
		// systematic part
		for j := 0; j <= cacheChunks; j++ {
			hs = append(hs, History{Runs: []Run{{0, fmt.Sprintf("kill:%d", j)}, {0, "ok"}}})
			hs = append(hs, History{Runs: []Run{{0, fmt.Sprintf("fail:%d", j)}, {0, "ok"}}})
		}
		hs = append(hs, History{Runs: []Run{{0, "missing"}, {0, "ok"}}})
		hs = append(hs, History{Runs: []Run{{0, "ok"}, {0, "ok"}}})
		hs = append(hs, History{Runs: []Run{{0, "ok"}, {1, "kill:3"}, {1, "ok"}, {0, "ok"}}})
		hs = append(hs, History{Runs: []Run{{0, "ok"}, {0, "kill:2"}, {0, "ok"}}})
		for i := 0; i < *n; i++ {
			hs = append(hs, genHistory(rng))
		}
	}
	for i, h := range hs {
		hj, _ := json.Marshal(h)
		req := fmt.Sprintf("K %d", len(h.Runs))
		nontrivial := false
		for _, r := range h.Runs {
			req += fmt.Sprintf(" %d %s", r.Variant, r.Sched)
			kind, _ := parseSched(r.Sched)
			e.tag("sched:" + kind)
			if r.Sched != "ok" {
				nontrivial = true
			}
		}
		e.count(string(hj), nontrivial)
		reply, err := e.model.Ask(req)
		if err != nil {
			return err
		}
		want := strings.Split(reply, " | ")
		if len(want) != len(h.Runs) {
			e.mismatch(Mismatch{Case: fmt.Sprint(i), Request: "vprof:cache: " + string(hj), Model: reply, Note: "malformed model reply"})
			continue
		}
		c.reset()
		var got []string
		bad := false
		for k, r := range h.Runs {
			res := c.run(r)
			obs := fmt.Sprintf("%s %s %s", res.Status, c.cacheState(), logState(res.Stderr))
			got = append(got, obs)
			e.tag("run:" + obs)
			prefix, _ := json.Marshal(History{Runs: h.Runs[:k+1]})
			// the property itself: a normal run yields the cold-cache profile, or fails
			if r.Sched == "ok" && res.Status == "ok" && res.Stdout != c.cold[r.Variant] {
				bad = true
				e.mismatch(Mismatch{Case: fmt.Sprint(i), Request: "vprof:cache: " + string(hj), Go: strings.Join(got, " | "), Model: reply,
					Note:         fmt.Sprintf("run %d: profile with %d syscalls, the cold-cache profile has %d; cache file: %s", k, countNames(res.Stdout), c.coldN[r.Variant], c.cacheState()),
					FailingInput: fmt.Sprintf("fault schedule %s (run %d is a normal run and exits 0 with a profile of %d syscalls instead of %d)", prefix, k, countNames(res.Stdout), c.coldN[r.Variant]),
					Key:          "cache:" + schedKey(h.Runs[:k+1])})
				break
			}
			if obs != want[k] {
				bad = true
				m := Mismatch{Case: fmt.Sprint(i), Request: "vprof:cache: " + string(hj), Go: strings.Join(got, " | "), Model: reply,
					Note: fmt.Sprintf("run %d (%s): observed `%s`, specification `%s`; stderr: %s", k, r.Sched, obs, want[k], lastLines(res.Stderr, 3))}
				// a cache path that is neither absent nor complete is itself the defect the property excludes
				if strings.HasSuffix(strings.Fields(obs)[1], "other") {
					m.FailingInput = fmt.Sprintf("fault schedule %s leaves an incomplete file at the cache path %s", prefix, c.dumpFile)
					m.Key = "cache:" + schedKey(h.Runs[:k+1])
				}
				e.mismatch(m)
				break
			}
		}
		if !bad {
			e.sample(string(hj) + "  =>  " + strings.Join(got, " | "))
		}
		if len(e.sum.Mismatches) >= 5 {
			break
		}
	}
	return nil
}

func schedKey(rs []Run) string {
	var p []string
	for _, r := range rs {
		p = append(p, fmt.Sprintf("%d/%s", r.Variant, r.Sched))
	}
	return strings.Join(p, ",")
}

func lastLines(s string, k int) string {
	l := strings.Split(strings.TrimSpace(s), "\n")
	if len(l) > k {
		l = l[len(l)-k:]
	}
	return strings.Join(l, " ⏎ ")
}
