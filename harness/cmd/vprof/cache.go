package main

import (
	"crypto/sha256"
	"encoding/hex"
	"encoding/json"
	"fmt"
	"math/rand"
	"os"
	"path/filepath"
	"strings"
	"time"
)

// C17: run histories of the built profiler over a private cache directory.

type Run struct {
	Variant int    `json:"variant"` // content of the binary: 0, 1, …
	Sched   string `json:"sched"`   // ok | missing | fail:<j> | kill:<j> | fsize:<q> (write fails after q/12 of the bytes; q = 12: only the last byte is refused)
	// Hash, when set, makes this a *direct* run: doObjdump(target, Hash) is called in a build of the
	// profiler that has one extra file (go build -overlay) — the way to hand the function hashes that
	// SHA-256 will not produce on demand (common prefixes, the empty string of the swallowed error).
	Hash *string `json:"hash,omitempty"`
	// LongName runs the profiler on a copy of the binary whose base name has 242 bytes: the name of the
	// cache file still fits into NAME_MAX, the name of a temporary file next to it does not.  Such runs are
	// checked against the property only (a normal run yields the cold-cache profile or fails).
	LongName bool `json:"long_name,omitempty"`
}

type History struct {
	Runs    []Run `json:"runs"`
	Symlink bool  `json:"symlink,omitempty"` // the cache path is a symbolic link to a file elsewhere before the first run
}

const cacheChunks = 6 // must equal Driver.Cache.nchunks

// the variant whose whole cache file is smaller than bufio's buffer (measured here: with a longer
// listing only the first 4096 bytes go through the buffer, then (*bufio.Writer).ReadFrom hands the
// pipe to (*os.File).ReadFrom and the final Flush has nothing left to write)
const smallVariant = 2

type cacheRig struct {
	e        *env
	home     string
	ctl      string
	target   string
	base     []byte         // the ELF all variants are made of
	hashes   map[int]string // variant → sha256 hex
	listings map[int]string // variant → listing
	cold     map[int]string // variant → stdout of a cold-cache run
	coldN    map[int]int    // variant → number of names in it
	dumpFile string
	direct   string // the profiler built with the direct-call file
}

// variants 3 and 4: the same image padded to 33 MiB, differing in the very last byte only (same size, same first
// 32 MiB: what hashing a bounded prefix of a large binary would not tell apart)
const bigVariantA, bigVariantB, nVariants = 3, 4, 5

func (c *cacheRig) content(v int) []byte {
	if v == 0 {
		return c.base
	}
	if v >= bigVariantA {
		out := make([]byte, 33<<20)
		copy(out, c.base)
		out[len(out)-1] = byte(v)
		return out
	}
	return append(append([]byte{}, c.base...), []byte(fmt.Sprintf("\nvariant %d\n", v))...)
}

func countNames(yaml string) int {
	n := 0
	for _, l := range strings.Split(yaml, "\n") {
		if strings.HasPrefix(l, "    - ") {
			n++
		}
	}
	return n
}

func newCacheRig(e *env, rng *rand.Rand) (*cacheRig, error) {
	c := &cacheRig{e: e, hashes: map[int]string{}, listings: map[int]string{}, cold: map[int]string{}, coldN: map[int]int{}}
	c.home = filepath.Join(e.dir, "home")
	c.ctl = filepath.Join(e.dir, "ctl")
	c.target = filepath.Join(e.dir, "target")
	var err error
	c.base, err = os.ReadFile(e.profiler) // any static Go ELF will do: the profiler itself
	if err != nil {
		return nil, err
	}
	sum := sha256.Sum256([]byte(c.target))
	c.dumpFile = filepath.Join(c.home, ".seccomp-profiler", "target-"+hex.EncodeToString(sum[:])[:10])
	info := infoFor("amd64")
	nums := knownNumbers(info)
	for v := 0; v < nVariants; v++ {
		h := sha256.Sum256(c.content(v))
		c.hashes[v] = hex.EncodeToString(h[:])
		// 48 functions with distinct syscalls, spread evenly; a variant uses its own selection
		var sites []site
		perm := rng.Perm(len(nums))
		nsites, pad := 48, 40 // ≈ 48 × 44 lines × 45 bytes ≈ 85 KB: after the first 4 KB the copy loop writes straight to the file
		if v == smallVariant {
			// header + listing fit into the 4 KB bufio.Writer: nothing reaches the file before Flush
			nsites, pad = 12, 1
		}
		for i := 0; i < nsites; i++ {
			sites = append(sites, randSite(rng, nums[perm[i]]))
		}
		text := listing("amd64", sites, pad)
		c.listings[v] = text
	}
	if c.direct, err = buildDirect(e); err != nil {
		return nil, err
	}
	// cold-cache reference outputs
	for v := 0; v < nVariants; v++ {
		c.reset()
		r := c.run(Run{Variant: v, Sched: "ok"})
		if r.Status != "ok" || countNames(r.Stdout) == 0 {
			return nil, fmt.Errorf("cold-cache reference run failed (status %s): %s", r.Status, r.Stderr)
		}
		c.cold[v] = r.Stdout
		c.coldN[v] = countNames(r.Stdout)
	}
	return c, nil
}

// reset empties the cache directory.
func (c *cacheRig) reset() {
	os.RemoveAll(c.home)
	os.MkdirAll(c.home, 0o755)
	chownR(c.home)
}

func parseSched(s string) (kind string, j int) {
	parts := strings.SplitN(s, ":", 2)
	kind = parts[0]
	if len(parts) == 2 {
		fmt.Sscanf(parts[1], "%d", &j)
	}
	return
}

func (c *cacheRig) run(r Run) procResult {
	target := c.target
	if r.LongName {
		target = filepath.Join(filepath.Dir(c.target), strings.Repeat("n", 238)+"-tgt")
	}
	os.WriteFile(target, c.content(r.Variant), 0o755)
	// every build carries the same timestamp (reproducible builds, cp -p); variants 1 and 2 also have the same size
	fixed := time.Unix(1600000000, 0)
	os.Chtimes(target, fixed, fixed)
	os.RemoveAll(c.ctl)
	os.MkdirAll(c.ctl, 0o777)
	os.WriteFile(filepath.Join(c.ctl, "listing"), []byte(c.listings[r.Variant]), 0o644)
	kind, j := parseSched(r.Sched)
	if kind == "overlap" {
		return c.runOverlap(r, target)
	}
	p := plan{Chunks: cacheChunks, FailAfter: -1}
	path, killAt := c.e.fakePath, -1
	switch kind {
	case "missing":
		path = c.e.noPath
		p.FailAfter = 3 // for a fallback toolchain (GOROOT) that a changed profiler might start: it fails partway
	case "noexec":
		// the tool is found but cannot be started (for the specification: cmd.Run fails without output, as "missing")
		path = []string{c.e.noExec, c.e.noInterp}[j%2]
	case "fail":
		p.FailAfter = j
	case "sigfail":
		p.FailAfter, p.Signal = j, true
	case "kill":
		p.Sync, p.PassUntil, killAt = true, j, j
	}
	var fsize int64 = -1
	if kind == "fsizeq" {
		// the same fault with a disassembler that does not notice errors of its own writes
		kind, p.Quiet = "fsize", true
	}
	if kind == "fsize" {
		total := int64(65 + len(c.listings[r.Variant]))
		fsize = total * int64(j) / 12
		if j >= 12 {
			fsize = total - 1 // only the last byte is refused
		}
	}
	data, _ := json.Marshal(p)
	os.WriteFile(filepath.Join(c.ctl, "plan.json"), data, 0o644)
	chownR(c.ctl)
	if r.Hash != nil {
		return c.e.runBinary(c.direct, []string{"VPROF_DIRECT=1", "VPROF_BINARY=" + c.target, "VPROF_HASH=" + *r.Hash}, c.home, path, c.ctl, nil, killAt, fsize)
	}
	return c.e.runBinary(c.e.profiler, nil, c.home, path, c.ctl, []string{"-format", "config", target}, killAt, fsize)
}

// cacheState classifies the final cache path.
func (c *cacheRig) cacheState() string {
	data, err := os.ReadFile(c.dumpFile)
	if err != nil {
		return "absent"
	}
	if fi, lerr := os.Lstat(c.dumpFile); lerr == nil && fi.Mode()&os.ModeSymlink != 0 && len(data) == 0 {
		// the link the history planted still points at its empty file: no cache content yet
		return "absent"
	}
	for v, h := range c.hashes {
		if string(data) == h+"\n"+c.listings[v] {
			return fmt.Sprintf("complete:%d", v)
		}
	}
	return "other"
}

func logState(stderr string) string {
	switch {
	case strings.Contains(stderr, "Using cached objdump."):
		return "hit"
	case strings.Contains(stderr, "objdump written to"):
		return "written"
	}
	return "none"
}

func genHistory(r *rand.Rand) History {
	faulty := func() string {
		switch r.Intn(9) {
		case 7, 8:
			if r.Intn(2) == 0 {
				return fmt.Sprintf("fsizeq:%d", r.Intn(13))
			}
			return fmt.Sprintf("fsize:%d", r.Intn(13))
		case 0:
			if r.Intn(2) == 0 {
				return fmt.Sprintf("noexec:%d", r.Intn(2))
			}
			return "missing"
		case 1, 2:
			if r.Intn(3) == 0 {
				return fmt.Sprintf("sigfail:%d", r.Intn(cacheChunks+1))
			}
			return fmt.Sprintf("fail:%d", r.Intn(cacheChunks+1))
		case 3:
			return "ok"
		}
		return fmt.Sprintf("kill:%d", r.Intn(cacheChunks+1))
	}
	var h History
	v := r.Intn(3)
	nf := 1 + r.Intn(2)
	for i := 0; i < nf; i++ {
		h.Runs = append(h.Runs, Run{Variant: v, Sched: faulty()})
		if r.Intn(5) == 0 {
			v = (v + 1) % 3 // the binary is rebuilt between two runs
		}
	}
	h.Runs = append(h.Runs, Run{Variant: v, Sched: "ok"})
	if r.Intn(3) == 0 {
		h.Runs = append(h.Runs, Run{Variant: v, Sched: "ok"})
	}
	return h
}

func runCache(e *env, replayCases []string) error {
	e.sum.Rule = "histories of the built seccomp-profiler over one private cache directory: faulty runs (disassembler missing, exiting non-zero after j of 6 chunks, dying from SIGKILL after j chunks, profiler SIGKILLed at chunk boundary j, write(2) to the temporary file failing with EFBIG after q/12 of the bytes — for the small variant, whose whole cache file fits into bufio's 4 KB buffer, that write is the final Flush —, binary rebuilt in between (same path, same size, same modification time, other content), the cache path being a symbolic link to a file elsewhere, other disassemblers (objdump, llvm-objdump, …) as decoys on the PATH without go and a GOROOT whose go fails after three chunks; plus direct calls of doObjdump with hashes sharing 32/63/0 leading characters and with the empty hash) followed by normal runs; every run's exit status, final cache path (absent / complete for variant v / other) and log line (hit / written) are compared with CacheSpec.doObjdump, and every normal run's stdout with the cold-cache output; systematic part: every boundary j for kill and fail; a history is non-trivial if it contains a faulty run; distinct by history"
	rng := rand.New(rand.NewSource(*seed))
	c, err := newCacheRig(e, rng)
	if err != nil {
		return err
	}
	e.sum.Extra = map[string]interface{}{"chunks": cacheChunks, "listing_bytes": len(c.listings[0]), "cold_names": c.coldN,
		"crash_points_on_the_real_binary": "sampled: the profiler is SIGKILLed while the disassembler has printed j of 6 chunks (j = 0..6); I/O faults are sampled as EFBIG at 13 file sizes (RLIMIT_FSIZE); crash points between Flush, Close and Rename are covered by the theorem only",
		"small_variant_bytes":             65 + len(c.listings[smallVariant])}
	var hs []History
	if len(replayCases) > 0 {
		for _, s := range replayCases {
			var h History
			if json.Unmarshal([]byte(s), &h) == nil && len(h.Runs) > 0 {
				hs = append(hs, h)
			}
		}
	} else {
		// systematic part
		// the binary is rebuilt at the same path between two complete runs (the variants differ in bytes appended
		// to the same ELF image: same sections, same Go build id, another file hash)
		hs = append(hs, History{Runs: []Run{{Variant: 1, Sched: "ok"}, {Variant: 2, Sched: "ok"}, {Variant: 1, Sched: "ok"}}})
		hs = append(hs, History{Runs: []Run{{Variant: 0, Sched: "ok"}, {Variant: 1, Sched: "ok"}}})
		hs = append(hs, History{Runs: []Run{{Variant: bigVariantA, Sched: "ok"}, {Variant: bigVariantB, Sched: "ok"}, {Variant: bigVariantA, Sched: "ok"}}})
		for j := 0; j <= cacheChunks; j++ {
			hs = append(hs, History{Runs: []Run{{Variant: 0, Sched: fmt.Sprintf("kill:%d", j)}, {Variant: 0, Sched: "ok"}}})
			hs = append(hs, History{Runs: []Run{{Variant: 0, Sched: fmt.Sprintf("fail:%d", j)}, {Variant: 0, Sched: "ok"}}})
			hs = append(hs, History{Runs: []Run{{Variant: 0, Sched: fmt.Sprintf("sigfail:%d", j)}, {Variant: 0, Sched: "ok"}}})
		}
		for _, q := range []int{0, 1, 4, 8, 11, 12} {
			hs = append(hs, History{Runs: []Run{{Variant: 0, Sched: fmt.Sprintf("fsize:%d", q)}, {Variant: 0, Sched: "ok"}}})
			hs = append(hs, History{Runs: []Run{{Variant: 0, Sched: fmt.Sprintf("fsizeq:%d", q)}, {Variant: 0, Sched: "ok"}}})
			hs = append(hs, History{Runs: []Run{{Variant: smallVariant, Sched: fmt.Sprintf("fsize:%d", q)}, {Variant: smallVariant, Sched: "ok"}}})
		}
		for _, j := range []int{0, 3, 6} {
			hs = append(hs, History{Runs: []Run{{Variant: smallVariant, Sched: fmt.Sprintf("kill:%d", j)}, {Variant: smallVariant, Sched: "ok"}}})
			hs = append(hs, History{Runs: []Run{{Variant: smallVariant, Sched: fmt.Sprintf("fail:%d", j)}, {Variant: smallVariant, Sched: "ok"}}})
		}
		for _, j := range []int{1, 3, 5} {
			hs = append(hs, History{Runs: []Run{{Variant: 0, Sched: fmt.Sprintf("kill:%d", j), LongName: true}, {Variant: 0, Sched: "ok", LongName: true}}})
		}
		hs = append(hs, History{Runs: []Run{{Variant: 0, Sched: "fail:2", LongName: true}, {Variant: 0, Sched: "ok", LongName: true}}})
		for _, jk := range [][2]int{{1, 3}, {2, 5}, {4, 2}, {5, 6}} {
			hs = append(hs, History{Runs: []Run{{Variant: 0, Sched: fmt.Sprintf("overlap:%d:%d", jk[0], jk[1])}, {Variant: 0, Sched: "ok"}}})
		}
		for _, j := range []int{2, 4} {
			hs = append(hs, History{Symlink: true, Runs: []Run{{Variant: 0, Sched: fmt.Sprintf("kill:%d", j)}, {Variant: 0, Sched: "ok"}}})
		}
		hs = append(hs, History{Symlink: true, Runs: []Run{{Variant: 0, Sched: "fail:3"}, {Variant: 0, Sched: "ok"}}})
		hs = append(hs, History{Runs: []Run{{Variant: 0, Sched: "missing"}, {Variant: 0, Sched: "ok"}}})
		hs = append(hs, History{Runs: []Run{{Variant: 0, Sched: "noexec:0"}, {Variant: 0, Sched: "ok"}}})
		hs = append(hs, History{Runs: []Run{{Variant: 0, Sched: "noexec:1"}, {Variant: 0, Sched: "ok"}}})
		hs = append(hs, History{Runs: []Run{{Variant: 0, Sched: "ok"}, {Variant: 0, Sched: "ok"}}})

		hs = append(hs, History{Runs: []Run{{Variant: 0, Sched: "ok"}, {Variant: 1, Sched: "kill:3"}, {Variant: 1, Sched: "ok"}, {Variant: 0, Sched: "ok"}}})
		hs = append(hs, History{Runs: []Run{{Variant: 0, Sched: "ok"}, {Variant: 0, Sched: "kill:2"}, {Variant: 0, Sched: "ok"}}})
		hs = append(hs, directHistories()...)
		for i := 0; i < *n; i++ {
			hs = append(hs, genHistory(rng))
		}
	}
	for i, h := range hs {
		hj, _ := json.Marshal(h)
		req := fmt.Sprintf("CACHE %d", len(h.Runs))
		nontrivial := false
		for _, r := range h.Runs {
			// for the specification a tool that dies from a signal is a tool that failed after the same prefix
			sched := strings.Replace(strings.Replace(r.Sched, "sigfail:", "fail:", 1), "fsizeq:", "fsize:", 1)
			if strings.HasPrefix(sched, "noexec:") {
				sched = "missing" // a tool that cannot be started is a tool that is not there
			}
			req += fmt.Sprintf(" %d %s", r.Variant, sched)
			kind, _ := parseSched(r.Sched)
			e.tag("sched:" + kind)
			if r.Sched != "ok" {
				nontrivial = true
			}
		}
		direct := false
		for _, r := range h.Runs {
			if r.Hash != nil {
				direct, nontrivial = true, true
				e.tag("direct-call")
			}
			if r.LongName {
				direct = true
				e.tag("binary-name-of-242-bytes")
			}
			if strings.HasPrefix(r.Sched, "overlap:") {
				direct = true
				e.tag("two-overlapping-runs-the-later-one-killed")
			}
		}
		e.count(string(hj), nontrivial)
		reply := "(direct call of doObjdump with a given hash, or a binary whose temporary file name exceeds NAME_MAX: property only)"
		want := make([]string, len(h.Runs))
		if !direct {
			var err error
			reply, err = e.model.Ask(req)
			if err != nil {
				return err
			}
			want = strings.Split(reply, " | ")
		}
		if len(want) != len(h.Runs) {
			e.mismatch(Mismatch{Case: fmt.Sprint(i), Request: "vprof:cache: " + string(hj), Model: reply, Note: "malformed model reply"})
			continue
		}
		c.reset()
		if h.Symlink {
			// the cache entry is a symbolic link to a file kept elsewhere (a user who moved large dumps to another
			// disk); for the specification nothing changes: a rename replaces the link
			dir := filepath.Dir(c.dumpFile)
			os.MkdirAll(dir, 0o755)
			elsewhere := filepath.Join(c.home, "elsewhere-dump")
			os.WriteFile(elsewhere, nil, 0o644)
			os.Symlink(elsewhere, c.dumpFile)
			chownR(c.home)
			e.tag("cache-path-is-a-symlink")
		}
		var got []string
		bad := false
		var diff *Mismatch // first difference from the specification (the history is still run to its end)
		for k, r := range h.Runs {
			res := c.run(r)
			obs := fmt.Sprintf("%s %s %s", res.Status, c.cacheState(), logState(res.Stderr))
			got = append(got, obs)
			e.tag("run:" + obs)
			prefix, _ := json.Marshal(History{Runs: h.Runs[:k+1]})
			if r.Hash != nil {
				// doObjdump(target, hash) itself: an error, or a file that is complete for that hash
				if content, ok := directFile(res); res.Status == "ok" && (!ok || content != *r.Hash+"\n"+c.listings[r.Variant]) {
					bad = true
					what := "a file that does not start with the hash it was asked for"
					if strings.HasPrefix(content, *r.Hash+"\n") {
						what = "a file with the right hash line but another listing"
					}
					e.mismatch(Mismatch{Case: fmt.Sprint(i), Request: "vprof:cache: " + string(hj), Go: strings.Join(got, " | "), Model: reply,
						Note:         fmt.Sprintf("run %d: doObjdump(%q, %q) returned %s (%d bytes; complete would be %d bytes); log: %s", k, c.target, *r.Hash, what, len(content), len(*r.Hash)+1+len(c.listings[r.Variant]), logState(res.Stderr)),
						FailingInput: fmt.Sprintf("history %s: run %d calls doObjdump(binary, hash=%q) over the cache the earlier runs left; it returns nil and %s", prefix, k, *r.Hash, what),
						Key:          "cache:direct:" + schedKey(h.Runs[:k+1])})
					diff = nil
					break
				}
				continue
			}
			// the property itself: a normal run yields the cold-cache profile, or fails
			if r.Sched == "ok" && res.Status == "ok" && res.Stdout != c.cold[r.Variant] {
				bad = true
				e.mismatch(Mismatch{Case: fmt.Sprint(i), Request: "vprof:cache: " + string(hj), Go: strings.Join(got, " | "), Model: reply,
					Note:         fmt.Sprintf("run %d: profile with %d syscalls, the cold-cache profile has %d; cache file: %s; log: %s", k, countNames(res.Stdout), c.coldN[r.Variant], c.cacheState(), logState(res.Stderr)),
					FailingInput: fmt.Sprintf("fault schedule %s: run %d is a normal run over the cache the earlier runs left behind; it exits 0 with a profile of %d syscalls, the cold-cache profile has %d", prefix, k, countNames(res.Stdout), c.coldN[r.Variant]),
					Key:          "cache:" + schedKey(h.Runs[:k+1])})
				diff = nil
				break
			}
			if !direct && obs != want[k] && diff == nil {
				diff = &Mismatch{Case: fmt.Sprint(i), Request: "vprof:cache: " + string(hj), Model: reply,
					Note: fmt.Sprintf("run %d (%s): observed `%s`, specification `%s`; stderr: %s", k, r.Sched, obs, want[k], lastLines(res.Stderr, 3))}
			}
		}
		if diff != nil {
			bad = true
			diff.Go = strings.Join(got, " | ")
			e.mismatch(*diff)
		}
		if !bad {
			e.sample(string(hj) + "  =>  " + strings.Join(got, " | "))
		}
		// differences from the specification that are not failures of the property (another header format, say) do
		// not end the search: go on until some history shows the property itself failing
		withInput := 0
		for _, m := range e.sum.Mismatches {
			if m.FailingInput != "" {
				withInput++
			}
		}
		if withInput >= 3 || len(e.sum.Mismatches) >= 90 {
			break
		}
	}
	return nil
}

func schedKey(rs []Run) string {
	var p []string
	for _, r := range rs {
		p = append(p, fmt.Sprintf("%d/%s", r.Variant, r.Sched))
	}
	return strings.Join(p, ",")
}

func lastLines(s string, k int) string {
	l := strings.Split(strings.TrimSpace(s), "\n")
	if len(l) > k {
		l = l[len(l)-k:]
	}
	return strings.Join(l, " ⏎ ")
}

// runOverlap: two runs on the same binary overlap — run A is held while its disassembler has printed j
// chunks, run B starts, gets as far as k chunks and is killed, then A is released and finishes.  The result
// is A's.  (Schedule "overlap:j:k"; checked against the property only: the next normal run must yield the
// cold-cache profile or fail.)
func (c *cacheRig) runOverlap(r Run, target string) procResult {
	var j, k int
	fmt.Sscanf(strings.TrimPrefix(r.Sched, "overlap:"), "%d:%d", &j, &k)
	ctlA, ctlB := c.ctl, c.ctl+"-b"
	for _, d := range []struct {
		dir  string
		plan plan
	}{{ctlA, plan{Chunks: cacheChunks, FailAfter: -1, Sync: true, PassUntil: j}}, {ctlB, plan{Chunks: cacheChunks, FailAfter: -1, Sync: true, PassUntil: k}}} {
		os.RemoveAll(d.dir)
		os.MkdirAll(d.dir, 0o777)
		os.WriteFile(filepath.Join(d.dir, "listing"), []byte(c.listings[r.Variant]), 0o644)
		data, _ := json.Marshal(d.plan)
		os.WriteFile(filepath.Join(d.dir, "plan.json"), data, 0o644)
		chownR(d.dir)
	}
	args := []string{"-format", "config", target}
	resA := make(chan procResult, 1)
	go func() { resA <- c.e.runBinary(c.e.profiler, nil, c.home, c.e.fakePath, ctlA, args, -1, -1) }()
	release := func() {
		for i := j; i <= cacheChunks; i++ {
			os.WriteFile(filepath.Join(ctlA, fmt.Sprintf("go.%d", i)), nil, 0o666)
		}
	}
	for t := 0; t < 40000; t++ {
		if _, err := os.Stat(filepath.Join(ctlA, fmt.Sprintf("at.%d", j))); err == nil {
			break
		}
		select {
		case res := <-resA: // A ended before reaching the boundary (a cache hit, an early error)
			return res
		default:
		}
		time.Sleep(500 * time.Microsecond)
	}
	c.e.runBinary(c.e.profiler, nil, c.home, c.e.fakePath, ctlB, args, k, -1)
	release()
	res := <-resA
	os.RemoveAll(ctlB)
	return res
}
