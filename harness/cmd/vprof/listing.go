package main

import (
	"fmt"
	"math/rand"
	"sort"
	"strings"

	"github.com/elastic/go-seccomp-bpf/arch"
)

// A site is one place of the synthetic binary where a syscall is made.
type site struct {
	Num  int    `json:"num"`
	Form string `json:"form"` // call | call6 | unix | raw | raw2 (i386: SYSENTER)
	Fmt  string `json:"fmt"`  // hex | dec
}

func numText(s site) string {
	if s.Fmt == "dec" {
		return fmt.Sprintf("%d", s.Num)
	}
	return fmt.Sprintf("%#x", s.Num)
}

// listing renders `go tool objdump` output for functions f0, f1, …, one site each, with `pad`
// filler instructions per function (listing shapes of DESIGN Appendix A / disasm.go).
func listing(goarch string, sites []site, pad int) string {
	var b strings.Builder
	addr := 0x401000
	line := func(fn int, ln int, text string) {
		fmt.Fprintf(&b, "  f%d.go:%d\t%#x\t%s\t%s\n", fn, ln, addr, "90", text)
		addr += 4
	}
	for i, s := range sites {
		fmt.Fprintf(&b, "TEXT main.f%d(SB) /src/f%d.go\n", i, i)
		for k := 0; k < pad/2; k++ {
			line(i, 1+k, "NOPL 0(AX)(AX*1)")
		}
		mov := "MOVQ"
		if goarch == "386" {
			mov = "MOVL"
		}
		switch s.Form {
		case "call":
			line(i, 100, fmt.Sprintf("%s $%s, 0(SP)", mov, numText(s)))
			line(i, 101, "MOVQ AX, 0x8(SP)")
			line(i, 102, "CALL syscall.Syscall(SB)")
		case "call6":
			line(i, 100, fmt.Sprintf("%s $%s, 0(SP)", mov, numText(s)))
			line(i, 102, "CALL syscall.Syscall6(SB)")
		case "unix":
			line(i, 100, fmt.Sprintf("%s $%s, 0(SP)", mov, numText(s)))
			line(i, 102, "CALL golang.org/x/sys/unix.RawSyscall(SB)")
		case "raw2":
			line(i, 100, fmt.Sprintf("MOVL $%s, AX", numText(s)))
			if goarch == "386" {
				line(i, 101, "SYSENTER")
			} else {
				line(i, 101, "SYSCALL")
			}
		default:
			line(i, 100, fmt.Sprintf("MOVL $%s, AX", numText(s)))
			if goarch == "386" {
				line(i, 101, "INT $0x80")
			} else {
				line(i, 101, "SYSCALL")
			}
		}
		for k := 0; k < pad-pad/2; k++ {
			line(i, 200+k, "NOPL 0(AX)(AX*1)")
		}
		line(i, 300, "RET")
	}
	return b.String()
}

func infoFor(goarch string) *arch.Info {
	if goarch == "386" {
		return arch.I386
	}
	return arch.X86_64
}

// knownNumbers returns the numbers of the architecture's table in increasing order.
func knownNumbers(info *arch.Info) []int {
	var out []int
	for n := range info.SyscallNumbers {
		out = append(out, n)
	}
	sort.Ints(out)
	return out
}

func tableNames(info *arch.Info) []string {
	var out []string
	for s := range info.SyscallNames {
		out = append(out, s)
	}
	sort.Strings(out)
	return out
}

var forms = []string{"call", "call6", "unix", "raw", "raw2"}

func randSite(r *rand.Rand, num int) site {
	s := site{Num: num, Form: forms[r.Intn(len(forms))], Fmt: "hex"}
	if r.Intn(3) == 0 {
		s.Fmt = "dec"
	}
	return s
}
