// vprof drives the built seccomp-profiler binary (C17, C18).
//
// It builds /repo/cmd/seccomp-profiler (VERIF_REPO aware) into the clone's work/ directory and runs
// it in throw-away environments: a private HOME (the child runs under a uid that has no passwd
// entry, so os/user falls back to $HOME), and a private PATH whose `go` is this very executable
// (reached through a symlink named `go`), which emulates `go tool objdump <binary>`: it prints a
// synthetic listing in chunks, can fail with exit status 1 after k chunks, and signals the harness
// at every chunk boundary so that the profiler can be SIGKILLed exactly there.
//
//	-profile cache     run histories (C17): faulty / interrupted runs followed by normal runs; the
//	                   normal run's stdout must equal a cold-cache run's, or the run must fail; the
//	                   observable state after every run is compared with the hand-written protocol
//	                   specification CacheSpec.doObjdump (`K` request of the model driver)
//	-profile profile   set pipeline (C18) on synthetic cached disassemblies, all flag spellings,
//	                   both formats; names compared with Profile.profileNames (`F` request), YAML
//	                   loaded back like cmd/sandbox parsePolicy and compiled, Go code parsed
//	-profile overlap   the same with overlapping blacklist / allow list
package main

import (
	"encoding/json"
	"flag"
	"fmt"
	"os"
	"os/exec"
	"path/filepath"
	"strings"
	"syscall"
	"time"

	"golang.org/x/sys/unix"

	"verif/harness/internal/vd"
)

type Mismatch struct {
	Case         string `json:"case"`
	Request      string `json:"request"`
	Go           string `json:"go"`
	Model        string `json:"model"`
	Note         string `json:"note,omitempty"`
	FailingInput string `json:"failing_input,omitempty"`
	Key          string `json:"key,omitempty"`
}

type Summary struct {
	Stream       string                 `json:"stream"`
	Profile      string                 `json:"profile"`
	Seed         int64                  `json:"seed"`
	Evaluations  int                    `json:"evaluations"`
	Distinct     int                    `json:"distinct_nontrivial"`
	Rule         string                 `json:"rule"`
	Distribution map[string]int         `json:"distribution"`
	Samples      []string               `json:"samples"`
	Mismatches   []Mismatch             `json:"mismatches"`
	WallS        float64                `json:"wall_s"`
	Error        string                 `json:"error,omitempty"`
	Extra        map[string]interface{} `json:"extra,omitempty"`
}

var (
	n         = flag.Int("n", 40, "number of generated cases")
	seed      = flag.Int64("seed", 1, "PRNG seed")
	modelPath = flag.String("model", "", "model driver (default $VERIF_DIR/lean/.lake/build/bin/model)")
	outPath   = flag.String("out", "", "summary JSON")
	profile   = flag.String("profile", "cache", "cache (C17) | profile (C18) | overlap (C18, overlapping flag sets)")
	replay    = flag.String("replay", "", "replay the cases of this file (lines `request: vprof:<profile>: {json}`)")
	keep      = flag.Bool("keep", false, "keep the run directory")
	verbose   = flag.Bool("v", false, "print the stderr of every profiler process")
)

// the uid/gid the profiler runs under: no passwd entry, so user.Current() uses $HOME
const runUID = 54321

type env struct {
	verifDir string
	repo     string
	dir      string // run directory under work/
	profiler string // the built binary
	fakePath string // PATH directory with the fake go
	noPath   string // PATH directory without any go
	noExec   string // PATH directory whose go cannot be started: an executable text file without #! (ENOEXEC)
	noInterp string // PATH directory whose go names an interpreter that does not exist (ENOENT at exec, found by LookPath)
	model    *vd.Model
	sum      *Summary
	seen     map[string]bool
}

func (e *env) tag(t string) { e.sum.Distribution[t]++ }

func (e *env) sample(s string) {
	if len(e.sum.Samples) < 4 {
		if len(s) > 700 {
			s = s[:700] + "…"
		}
		e.sum.Samples = append(e.sum.Samples, s)
	}
}

func (e *env) mismatch(m Mismatch) bool {
	e.sum.Mismatches = append(e.sum.Mismatches, m)
	return len(e.sum.Mismatches) >= 5
}

func (e *env) count(key string, nontrivial bool) {
	e.sum.Evaluations++
	if nontrivial && !e.seen[key] {
		e.seen[key] = true
		e.sum.Distinct++
	}
}

func goEnv() []string {
	return append(os.Environ(), "GOFLAGS=-mod=readonly", "GOPROXY=off", "GOSUMDB=off", "GOTOOLCHAIN=local", "CGO_ENABLED=0")
}

func chownR(path string) {
	filepath.Walk(path, func(p string, _ os.FileInfo, err error) error {
		if err == nil {
			os.Lchown(p, runUID, runUID)
		}
		return nil
	})
}

// setup creates the run directory, builds the profiler and the fake tool directory.
func setup(sum *Summary) (*env, error) {
	e := &env{sum: sum, seen: map[string]bool{}}
	if os.Geteuid() != 0 {
		return nil, fmt.Errorf("vprof must run as root: the profiler is started under uid %d, which has no passwd entry, so that os/user falls back to $HOME", runUID)
	}
	e.verifDir = os.Getenv("VERIF_DIR")
	if e.verifDir == "" {
		e.verifDir = "/verif"
	}
	e.repo = os.Getenv("VERIF_REPO")
	if e.repo == "" {
		e.repo = "/repo"
	}
	e.dir = filepath.Join(e.verifDir, "work", fmt.Sprintf("vprof-%s-%d-%d", *profile, *seed, os.Getpid()))
	// the profiler runs under an unprivileged uid: every directory above the run directory must be
	// searchable by others, otherwise use a scratch directory under the system's temp dir
	for d := filepath.Dir(e.dir); d != "/" && d != "."; d = filepath.Dir(d) {
		if st, err := os.Stat(d); err == nil && st.Mode().Perm()&0o001 == 0 {
			if tmp, terr := os.MkdirTemp("", "vprof-"); terr == nil {
				os.Chmod(tmp, 0o755)
				e.dir = tmp
			}
			break
		}
	}
	os.RemoveAll(e.dir)
	if err := os.MkdirAll(e.dir, 0o755); err != nil {
		return nil, err
	}
	e.profiler = filepath.Join(e.dir, "seccomp-profiler")
	cmd := exec.Command("go", "build", "-o", e.profiler, "./cmd/seccomp-profiler")
	cmd.Dir = e.repo
	cmd.Env = goEnv()
	if out, err := runTimeout(cmd, 300*time.Second); err != nil {
		return e, fmt.Errorf("cannot build %s/cmd/seccomp-profiler: %v\n%s", e.repo, err, out)
	}
	self, err := os.Executable()
	if err != nil {
		return e, err
	}
	e.fakePath = filepath.Join(e.dir, "path")
	e.noPath = filepath.Join(e.dir, "nopath")
	os.MkdirAll(e.fakePath, 0o755)
	os.MkdirAll(e.noPath, 0o755)
	e.noExec = filepath.Join(e.dir, "noexec")
	e.noInterp = filepath.Join(e.dir, "nointerp")
	os.MkdirAll(e.noExec, 0o755)
	os.MkdirAll(e.noInterp, 0o755)
	// decoys: other disassemblers and binary tools that a "no Go toolchain here" fallback might reach for. They
	// print a plausible foreign listing (AT&T syntax, no TEXT markers) and exit 0; the profiler never runs them.
	for _, tool := range []string{"objdump", "gobjdump", "llvm-objdump", "x86_64-linux-gnu-objdump", "readelf", "nm", "strings", "gdb", "r2"} {
		os.WriteFile(filepath.Join(e.noPath, tool), []byte("#!/bin/sh\necho\necho 'target:     file format elf64-x86-64'\necho\necho 'Disassembly of section .text:'\necho\necho '0000000000401000 <runtime.text>:'\necho '  401000:\tmov    $0x3c,%eax'\necho '  401005:\tsyscall'\necho '  401007:\tret'\nexit 0\n"), 0o755)
	}
	os.WriteFile(filepath.Join(e.noExec, "go"), []byte("this is not a program\n"), 0o755)
	os.WriteFile(filepath.Join(e.noInterp, "go"), []byte("#!/nonexistent/interpreter-of-vprof\nexit 0\n"), 0o755)
	// a copy, not a symlink: os.Executable would resolve the link and argv[0] is all we look at
	data, err := os.ReadFile(self)
	if err != nil {
		return e, err
	}
	if err := os.WriteFile(filepath.Join(e.fakePath, "go"), data, 0o755); err != nil {
		return e, err
	}
	os.MkdirAll(filepath.Join(e.dir, "goroot", "bin"), 0o755)
	os.WriteFile(filepath.Join(e.dir, "goroot", "bin", "go"), data, 0o755)
	mp := *modelPath
	if mp == "" {
		mp = filepath.Join(e.verifDir, "lean", ".lake", "build", "bin", "model")
	}
	e.model, err = vd.StartModel(mp)
	if err != nil {
		return e, err
	}
	return e, nil
}

func (e *env) cleanup() {
	if e.model != nil {
		e.model.Close()
	}
	if !*keep && e.dir != "" {
		os.RemoveAll(e.dir)
	}
}

func runTimeout(cmd *exec.Cmd, d time.Duration) (string, error) {
	var out strings.Builder
	cmd.Stdout, cmd.Stderr = &out, &out
	if err := cmd.Start(); err != nil {
		return "", err
	}
	done := make(chan error, 1)
	go func() { done <- cmd.Wait() }()
	select {
	case err := <-done:
		return out.String(), err
	case <-time.After(d):
		cmd.Process.Kill()
		<-done
		return out.String(), fmt.Errorf("timeout after %v", d)
	}
}

// result of one profiler process
type procResult struct {
	Status string // ok | err | dead | timeout
	Stdout string
	Stderr string
}

// runProfiler starts the profiler with a private HOME and PATH.  If killAt >= 0 the process group
// is killed as soon as the fake tool reports chunk boundary killAt.
func (e *env) runProfiler(home, path, ctl string, args []string, killAt int) procResult {
	return e.runBinary(e.profiler, nil, home, path, ctl, args, killAt, -1)
}

// runBinary: as runProfiler for any binary; fsize >= 0 limits the size of the files the process may
// write (soft RLIMIT_FSIZE, inherited from the harness, which lowers its own soft limit around the
// fork): the write(2) that crosses the limit fails with EFBIG (the Go runtime ignores SIGXFSZ).
// stdout and stderr of the child are pipes, so only the cache files are affected.
func (e *env) runBinary(binary string, extraEnv []string, home, path, ctl string, args []string, killAt int, fsize int64) procResult {
	cmd := exec.Command(binary, args...)
	cmd.Dir = e.dir
	cmd.Env = append([]string{"HOME=" + home, "USER=vprof", "PATH=" + path, "VPROF_CTL=" + ctl, "TMPDIR=" + e.dir, "GOROOT=" + filepath.Join(e.dir, "goroot")}, extraEnv...)
	cmd.SysProcAttr = &syscall.SysProcAttr{Setpgid: true, Credential: &syscall.Credential{Uid: runUID, Gid: runUID}}
	var so, se strings.Builder
	cmd.Stdout, cmd.Stderr = &so, &se
	var old unix.Rlimit
	if fsize >= 0 {
		if err := unix.Getrlimit(unix.RLIMIT_FSIZE, &old); err != nil {
			return procResult{Status: "err", Stderr: "getrlimit: " + err.Error()}
		}
		if err := unix.Setrlimit(unix.RLIMIT_FSIZE, &unix.Rlimit{Cur: uint64(fsize), Max: old.Max}); err != nil {
			return procResult{Status: "err", Stderr: "setrlimit: " + err.Error()}
		}
	}
	err := cmd.Start()
	if fsize >= 0 {
		unix.Setrlimit(unix.RLIMIT_FSIZE, &old)
	}
	if err != nil {
		return procResult{Status: "err", Stderr: "start: " + err.Error()}
	}
	done := make(chan error, 1)
	go func() { done <- cmd.Wait() }()
	killed := false
	deadline := time.After(40 * time.Second)
	var tick <-chan time.Time
	if killAt >= 0 {
		t := time.NewTicker(300 * time.Microsecond)
		defer t.Stop()
		tick = t.C
	}
	for {
		select {
		case err := <-done:
			// whatever is left of the process group (the fake tool after a kill)
			syscall.Kill(-cmd.Process.Pid, syscall.SIGKILL)
			if *verbose {
				fmt.Fprintf(os.Stderr, "--- %s %v (killAt %d, fsize %d)\n%s", filepath.Base(binary), args, killAt, fsize, se.String())
			}
			st := "ok"
			if killed {
				st = "dead"
			} else if err != nil {
				st = "err"
			}
			return procResult{Status: st, Stdout: so.String(), Stderr: se.String()}
		case <-tick:
			if killAt >= 0 && !killed {
				if _, err := os.Stat(filepath.Join(ctl, fmt.Sprintf("at.%d", killAt))); err == nil {
					// give the profiler's copy loop a moment to move what was printed so far
					time.Sleep(4 * time.Millisecond)
					syscall.Kill(cmd.Process.Pid, syscall.SIGKILL)
					killed = true
				}
			}
		case <-deadline:
			syscall.Kill(-cmd.Process.Pid, syscall.SIGKILL)
			<-done
			return procResult{Status: "timeout", Stdout: so.String(), Stderr: se.String()}
		}
	}
}

/* ------------------------------------------------------------------ the fake `go` */

type plan struct {
	Chunks    int  `json:"chunks"`
	FailAfter int  `json:"fail_after"` // exit 1 after this many chunks (-1: never)
	Signal    bool `json:"signal"`     // instead of exiting with status 1, die from SIGKILL (OOM killer, kill -9)
	Sync      bool `json:"sync"`       // report every chunk boundary and wait for permission
	PassUntil int  `json:"pass_until"` // boundaries below this one are passed without waiting
	Quiet     bool `json:"quiet"`      // ignore errors of write(2) on stdout and exit 0 all the same (as `go tool objdump` does)
}

func fakeGo() {
	ctl := os.Getenv("VPROF_CTL")
	if len(os.Args) != 4 || os.Args[1] != "tool" || os.Args[2] != "objdump" || ctl == "" {
		fmt.Fprintln(os.Stderr, "fake go: unexpected invocation", os.Args)
		os.Exit(64)
	}
	var p plan
	data, err := os.ReadFile(filepath.Join(ctl, "plan.json"))
	if err != nil || json.Unmarshal(data, &p) != nil || p.Chunks <= 0 {
		fmt.Fprintln(os.Stderr, "fake go: no plan")
		os.Exit(65)
	}
	listing, err := os.ReadFile(filepath.Join(ctl, "listing"))
	if err != nil {
		os.Exit(66)
	}
	boundary := func(i int) {
		if !p.Sync {
			return
		}
		os.WriteFile(filepath.Join(ctl, fmt.Sprintf("at.%d", i)), nil, 0o666)
		if i < p.PassUntil {
			return
		}
		for t := 0; t < 150000; t++ {
			if _, err := os.Stat(filepath.Join(ctl, fmt.Sprintf("go.%d", i))); err == nil {
				return
			}
			time.Sleep(200 * time.Microsecond)
		}
		os.Exit(67)
	}
	for i := 0; i < p.Chunks; i++ {
		boundary(i)
		if p.FailAfter == i {
			if p.Signal {
				syscall.Kill(os.Getpid(), syscall.SIGKILL)
				time.Sleep(time.Second)
			}
			os.Exit(1)
		}
		lo, hi := i*len(listing)/p.Chunks, (i+1)*len(listing)/p.Chunks
		if _, err := os.Stdout.Write(listing[lo:hi]); err != nil && !p.Quiet {
			os.Exit(68)
		}
	}
	boundary(p.Chunks)
	if p.FailAfter == p.Chunks {
		if p.Signal {
			syscall.Kill(os.Getpid(), syscall.SIGKILL)
			time.Sleep(time.Second)
		}
		os.Exit(1)
	}
	os.Exit(0)
}

/* ------------------------------------------------------------------ main */

func finish(sum *Summary, start time.Time) {
	sum.WallS = time.Since(start).Seconds()
	data, _ := json.MarshalIndent(sum, "", " ")
	if *outPath == "" {
		fmt.Println(string(data))
	} else {
		os.WriteFile(*outPath, data, 0o644)
	}
}

func main() {
	if filepath.Base(os.Args[0]) == "go" {
		fakeGo()
		return
	}
	flag.Parse()
	start := time.Now()
	sum := &Summary{Stream: "profiler", Profile: *profile, Seed: *seed, Distribution: map[string]int{}, Samples: []string{}, Mismatches: []Mismatch{}}
	e, err := setup(sum)
	if e != nil {
		defer e.cleanup()
	}
	if err != nil {
		sum.Error = err.Error()
		finish(sum, start)
		if e != nil {
			e.cleanup()
		}
		os.Exit(2)
	}
	var replayCases []string
	if *replay != "" {
		data, _ := os.ReadFile(*replay)
		for _, line := range strings.Split(string(data), "\n") {
			line = strings.TrimSpace(strings.TrimPrefix(strings.TrimSpace(line), "request:"))
			if i := strings.Index(line, "{"); strings.HasPrefix(line, "vprof:") && i > 0 {
				replayCases = append(replayCases, line[i:])
			}
		}
	}
	switch *profile {
	case "cache":
		err = runCache(e, replayCases)
	case "profile", "overlap":
		err = runProfile(e, *profile == "overlap", replayCases)
	default:
		err = fmt.Errorf("unknown profile %q", *profile)
	}
	if err != nil {
		sum.Error = err.Error()
	}
	finish(sum, start)
}
