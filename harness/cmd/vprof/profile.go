package main

import (
	"crypto/sha256"
	"encoding/hex"
	"encoding/json"
	"fmt"
	"go/ast"
	"go/parser"
	"go/token"
	"math/rand"
	"os"
	"os/exec"
	"path/filepath"
	"sort"
	"strconv"
	"strings"
	"time"
	"unicode"

	"github.com/elastic/go-ucfg/yaml"

	seccomp "github.com/elastic/go-seccomp-bpf"
	"github.com/elastic/go-seccomp-bpf/cmd/seccomp-profiler/disasm"

	"verif/harness/internal/vd"
)

// C18: the set pipeline and the emitters of the built profiler on synthetic cached disassemblies.

type PCase struct {
	Arch   string   `json:"arch"` // amd64 | 386
	Sites  []site   `json:"sites"`
	B      []string `json:"b"`     // raw values of the occurrences of -b
	Allow  []string `json:"allow"` // raw values of the occurrences of -allow
	Format string   `json:"format"`
	Out    string   `json:"out"`           // stdout | file | template
	Pre    string   `json:"pre,omitempty"` // what the output file holds before the run: "" (absent) | longer | shorter
	Pkg    string   `json:"pkg,omitempty"`
	Debug  bool     `json:"debug,omitempty"`
}

type profRig struct {
	e       *env
	home    string
	targets map[string]string // goarch → path of an ELF of that architecture
	hashes  map[string]string
}

func newProfRig(e *env) (*profRig, error) {
	p := &profRig{e: e, home: filepath.Join(e.dir, "home"), targets: map[string]string{}, hashes: map[string]string{}}
	os.MkdirAll(filepath.Join(p.home, ".seccomp-profiler"), 0o755)
	for _, ga := range []string{"amd64", "386"} {
		path := filepath.Join(e.dir, "target-"+ga)
		if ga == "amd64" {
			data, err := os.ReadFile(e.profiler)
			if err != nil {
				return nil, err
			}
			os.WriteFile(path, data, 0o755)
		} else {
			cmd := exec.Command("go", "build", "-o", path, "./cmd/seccomp-profiler")
			cmd.Dir = e.repo
			cmd.Env = append(goEnv(), "GOARCH="+ga)
			if out, err := runTimeout(cmd, 300*time.Second); err != nil {
				return nil, fmt.Errorf("cannot build a %s target: %v\n%s", ga, err, out)
			}
		}
		data, err := os.ReadFile(path)
		if err != nil {
			return nil, err
		}
		h := sha256.Sum256(data)
		p.targets[ga] = path
		p.hashes[ga] = hex.EncodeToString(h[:])
	}
	return p, nil
}

func (p *profRig) cacheFile(ga string) string {
	sum := sha256.Sum256([]byte(p.targets[ga]))
	return filepath.Join(p.home, ".seccomp-profiler", filepath.Base(p.targets[ga])+"-"+hex.EncodeToString(sum[:])[:10])
}

func isSep(r rune) bool { return unicode.IsSpace(r) || r == ',' || r == ';' }

func parseFlagGo(values []string) []string {
	var out []string
	for _, v := range values {
		out = append(out, strings.FieldsFunc(v, isSep)...)
	}
	return out
}

var separators = []string{" ", ",", ";", "\t", ", ", " ; ", ",,", " ", "\n", " ;", " \t "}

// spell distributes names over flag occurrences with random separators.
func spell(r *rand.Rand, names []string, e *env) []string {
	if len(names) == 0 {
		if r.Intn(4) == 0 {
			e.tag("spelling:empty-value")
			return []string{[]string{"", ",", " ; "}[r.Intn(3)]}
		}
		return nil
	}
	var occ []string
	cur := ""
	for i, n := range names {
		if i > 0 && r.Intn(3) == 0 {
			occ = append(occ, cur)
			cur = ""
			e.tag("spelling:repeated-flag")
		}
		if cur != "" {
			sep := separators[r.Intn(len(separators))]
			cur += sep
			e.tag(fmt.Sprintf("spelling:sep:%q", sep))
		}
		cur += n
	}
	occ = append(occ, cur)
	if r.Intn(5) == 0 {
		k := r.Intn(len(occ))
		occ[k] = separators[r.Intn(len(separators))] + occ[k] + separators[r.Intn(len(separators))]
		e.tag("spelling:leading-trailing-separator")
	}
	return occ
}

var otherArchNames = []string{"fstatat", "_llseek", "socketcall", "arch_prctl", "mmap2", "renameat", "no_such_syscall", "bogus", "READ", "read.", "Öffnen", "write\u200b"}

func genPCase(r *rand.Rand, e *env, overlap bool) PCase {
	c := PCase{Arch: "amd64", Format: "config", Out: "stdout"}
	if r.Intn(3) == 0 {
		c.Arch = "386"
	}
	info := infoFor(c.Arch)
	nums := knownNumbers(info)
	names := tableNames(info)
	nsites := []int{0, 1, 2, 5, 12, 40}[r.Intn(6)]
	var many []int
	if r.Intn(10) == 0 {
		// a long final list: 254 … 300 different syscalls, or the whole table
		nsites = []int{254, 255, 256, 257, 300, len(nums)}[r.Intn(6)]
		if nsites > len(nums) {
			nsites = len(nums)
		}
		many = r.Perm(len(nums))[:nsites]
		e.tag("found:more-than-250-different-syscalls")
	}
	var foundNames []string
	for i := 0; i < nsites; i++ {
		num := nums[r.Intn(len(nums))]
		if many != nil {
			num = nums[many[i]]
		}
		switch r.Intn(12) {
		case 0:
			num = 100000 + r.Intn(50) // unknown to the table: the parser drops it with a warning
		case 1, 2:
			if len(c.Sites) > 0 {
				num = c.Sites[r.Intn(len(c.Sites))].Num // a second site of the same syscall
			}
		}
		c.Sites = append(c.Sites, randSite(r, num))
		if n, ok := info.SyscallNumbers[num]; ok {
			foundNames = append(foundNames, n)
		}
	}
	pick := func(pool []string, k int) []string {
		var out []string
		for i := 0; i < k && len(pool) > 0; i++ {
			out = append(out, pool[r.Intn(len(pool))])
		}
		return out
	}
	// blacklist: found names, table names that were not found, unknown names
	var bl []string
	if r.Intn(4) != 0 {
		bl = append(bl, pick(foundNames, r.Intn(4))...)
		bl = append(bl, pick(names, r.Intn(2))...)
		bl = append(bl, pick(otherArchNames, r.Intn(2))...)
	}
	// allow list: table names (found or not), names of other architectures, unknown names
	var al []string
	if r.Intn(4) != 0 {
		al = append(al, pick(names, r.Intn(4))...)
		al = append(al, pick(foundNames, r.Intn(2))...)
		al = append(al, pick(otherArchNames, r.Intn(3))...)
	}
	inBl := map[string]bool{}
	for _, s := range bl {
		inBl[s] = true
	}
	if overlap {
		// force a common name that matters: a found name or a table name
		pool := foundNames
		if len(pool) == 0 || r.Intn(2) == 0 {
			pool = names
		}
		s := pool[r.Intn(len(pool))]
		bl = append(bl, s)
		al = append(al, s)
	} else {
		var al2 []string
		for _, s := range al {
			if !inBl[s] {
				al2 = append(al2, s)
			}
		}
		al = al2
	}
	r.Shuffle(len(bl), func(i, j int) { bl[i], bl[j] = bl[j], bl[i] })
	r.Shuffle(len(al), func(i, j int) { al[i], al[j] = al[j], al[i] })
	c.B = spell(r, bl, e)
	c.Allow = spell(r, al, e)
	if r.Intn(2) == 0 {
		c.Format = "code"
		if r.Intn(2) == 0 {
			c.Pkg = []string{"profile", "main", "x1"}[r.Intn(3)]
		}
	} else if r.Intn(4) == 0 {
		c.Debug = true
	}
	c.Out = []string{"stdout", "stdout", "file", "template"}[r.Intn(4)]
	if c.Out != "stdout" {
		// regenerating a profile: the file already exists, with a longer or a shorter earlier profile
		c.Pre = []string{"", "longer", "longer", "shorter"}[r.Intn(4)]
	}
	return c
}

// namesOfCode extracts package name, build constraint line and the Names list of the emitted Go file.
func namesOfCode(src string) (pkg string, constraint string, names []string, err error) {
	fset := token.NewFileSet()
	f, err := parser.ParseFile(fset, "profile.go", src, parser.ParseComments)
	if err != nil {
		return "", "", nil, err
	}
	pkg = f.Name.Name
	for _, cg := range f.Comments {
		for _, c := range cg.List {
			if strings.HasPrefix(c.Text, "// +build") {
				constraint = c.Text
			}
		}
	}
	found := false
	ast.Inspect(f, func(n ast.Node) bool {
		kv, ok := n.(*ast.KeyValueExpr)
		if !ok {
			return true
		}
		if id, ok := kv.Key.(*ast.Ident); ok && id.Name == "Names" {
			if cl, ok := kv.Value.(*ast.CompositeLit); ok {
				found = true
				for _, el := range cl.Elts {
					if bl, ok := el.(*ast.BasicLit); ok && bl.Kind == token.STRING {
						s, _ := strconv.Unquote(bl.Value)
						names = append(names, s)
					} else {
						err = fmt.Errorf("Names element is not a string literal")
					}
				}
			}
		}
		return true
	})
	if !found && err == nil {
		err = fmt.Errorf("no Names field in the emitted code")
	}
	return
}

func archName(ga string) string {
	if ga == "386" {
		return "i386"
	}
	return "x86_64"
}

func sameList(a, b []string) bool {
	if len(a) != len(b) {
		return false
	}
	for i := range a {
		if a[i] != b[i] {
			return false
		}
	}
	return true
}

func (p *profRig) commandLine(c PCase, outFile string) []string {
	var args []string
	args = append(args, "-format", c.Format)
	for _, b := range c.B {
		args = append(args, "-b", b)
	}
	for _, a := range c.Allow {
		args = append(args, "-allow", a)
	}
	if c.Pkg != "" {
		args = append(args, "-pkg", c.Pkg)
	}
	if c.Debug {
		args = append(args, "-d")
	}
	if outFile != "" {
		args = append(args, "-out", outFile)
	}
	return append(args, p.targets[c.Arch])
}

// propertyCheck evaluates the clauses of the property on the emitted list, without the model.
func propertyCheck(c PCase, found []disasm.Syscall, emitted []string) string {
	info := infoFor(c.Arch)
	bl, al := parseFlagGo(c.B), parseFlagGo(c.Allow)
	inB, want := map[string]bool{}, map[string]bool{}
	for _, s := range bl {
		inB[s] = true
	}
	for _, s := range found {
		if !inB[s.Name] {
			want[s.Name] = true
		}
	}
	for _, s := range al {
		if _, ok := info.SyscallNames[s]; ok {
			want[s] = true
		}
	}
	got := map[string]bool{}
	for i, s := range emitted {
		if i > 0 && !(emitted[i-1] < s) {
			return fmt.Sprintf("the list is not strictly increasing at position %d (%q, %q)", i, emitted[i-1], s)
		}
		if _, ok := info.SyscallNames[s]; !ok {
			return fmt.Sprintf("%q is not a syscall of %s", s, info.Name)
		}
		got[s] = true
	}
	var missing, extra []string
	for s := range want {
		if !got[s] {
			missing = append(missing, s)
		}
	}
	for s := range got {
		if !want[s] {
			extra = append(extra, s)
		}
	}
	sort.Strings(missing)
	sort.Strings(extra)
	if len(missing)+len(extra) > 0 {
		return fmt.Sprintf("emitted ≠ (found − blacklist) + (allow ∩ table): missing %q, extra %q", missing, extra)
	}
	return ""
}

func runProfile(e *env, overlap bool, replayCases []string) error {
	e.sum.Rule = "the built seccomp-profiler on synthetic cached disassemblies (amd64 and 386 targets; sites in all call/raw forms, repeated and unknown numbers), blacklist / allow list drawn from found names, other table names, names of other architectures and unknown names, spelled with every separator and as repeated flags, both output formats, -out to stdout / file / templated file name, -pkg, -d; emitted names compared with Profile.profileNames, with the clauses of the property evaluated directly, YAML loaded back through go-ucfg as cmd/sandbox does and compiled (real compiler and model), Go code parsed with go/parser; non-trivial: at least one site or one allow-list name; distinct by case"
	if overlap {
		e.sum.Rule += "; this stream forces a name that is both blacklisted and allowed (the allow list wins: `always include them in the profile`)"
	}
	rng := rand.New(rand.NewSource(*seed))
	p, err := newProfRig(e)
	if err != nil {
		return err
	}
	var cases []PCase
	if len(replayCases) > 0 {
		for _, s := range replayCases {
			var c PCase
			if json.Unmarshal([]byte(s), &c) == nil {
				cases = append(cases, c)
			}
		}
	} else {
		if !overlap {
			// the spellings of the property text, literally
			base := []site{{Num: 0, Form: "call", Fmt: "hex"}, {Num: 1, Form: "raw", Fmt: "dec"}, {Num: 2, Form: "call6", Fmt: "hex"}, {Num: 3, Form: "unix", Fmt: "hex"}, {Num: 1, Form: "call", Fmt: "hex"}}
			for _, b := range [][]string{{"read write"}, {"read,write"}, {"read;write"}, {"read", "write"}, nil} {
				for _, f := range []string{"config", "code"} {
					cases = append(cases, PCase{Arch: "amd64", Sites: base, B: b, Allow: []string{"getpid", "bogus kill"}, Format: f, Out: "stdout"})
				}
			}
			cases = append(cases, PCase{Arch: "amd64", Format: "config", Out: "stdout"}) // the empty profile
			cases = append(cases, PCase{Arch: "386", Format: "code", Out: "file", Pkg: "p"})
			cases = append(cases, PCase{Arch: "amd64", Sites: base, Format: "config", Out: "file", Pre: "longer"})
			cases = append(cases, PCase{Arch: "amd64", Sites: base, Format: "code", Out: "template", Pre: "longer"})
		}
		for i := 0; i < *n; i++ {
			cases = append(cases, genPCase(rng, e, overlap))
		}
	}
	for i, c := range cases {
		cj, _ := json.Marshal(c)
		reqTag := "vprof:" + *profile + ": " + string(cj)
		info := infoFor(c.Arch)
		// the synthetic cache entry
		text := listing(c.Arch, c.Sites, 2)
		cf := p.cacheFile(c.Arch)
		os.MkdirAll(filepath.Dir(cf), 0o755)
		if err := os.WriteFile(cf, []byte(p.hashes[c.Arch]+"\n"+text), 0o644); err != nil {
			return err
		}
		chownR(p.home)
		// the parser reports unknown numbers on os.Stderr: not interesting here
		saved := os.Stderr
		if devnull, derr := os.OpenFile(os.DevNull, os.O_WRONLY, 0); derr == nil {
			os.Stderr = devnull
		}
		found, err := disasm.ExtractSyscalls(info, cf)
		if os.Stderr != saved {
			os.Stderr.Close()
			os.Stderr = saved
		}
		if err != nil {
			return fmt.Errorf("ExtractSyscalls on the synthetic listing: %v", err)
		}
		e.tag("arch:" + c.Arch)
		e.tag("format:" + c.Format)
		e.tag("out:" + c.Out)
		e.tag(fmt.Sprintf("sites:%d", len(c.Sites)))
		e.tag(fmt.Sprintf("b-occurrences:%d", len(c.B)))
		e.tag(fmt.Sprintf("allow-occurrences:%d", len(c.Allow)))
		e.count(string(cj), len(found) > 0 || len(c.Allow) > 0)
		// what the model says
		var req strings.Builder
		fmt.Fprintf(&req, "F %s %d", archName(c.Arch), len(found))
		for _, s := range found {
			fmt.Fprintf(&req, " %d %s", s.Num, vd.Hex(s.Name))
		}
		fmt.Fprintf(&req, " %d", len(c.B))
		for _, v := range c.B {
			req.WriteString(" " + vd.Hex(v))
		}
		fmt.Fprintf(&req, " %d", len(c.Allow))
		for _, v := range c.Allow {
			req.WriteString(" " + vd.Hex(v))
		}
		reply, err := e.model.Ask(req.String())
		if err != nil {
			return err
		}
		rf := strings.Fields(reply)
		if len(rf) < 2 || rf[0] != "OK" {
			e.tag("model:" + rf[0])
			if rf[0] == "SKIP" {
				continue
			}
			e.mismatch(Mismatch{Case: fmt.Sprint(i), Request: reqTag, Model: reply, Note: "model request: " + req.String()})
			continue
		}
		var expected []string
		for _, h := range rf[2:] {
			expected = append(expected, vd.Unhex(h))
		}
		// the real binary
		outFile, outArg := "", ""
		switch c.Out {
		case "file":
			outFile = filepath.Join(e.dir, "out", fmt.Sprintf("profile_%d.out", i))
			outArg = outFile
		case "template":
			outFile = filepath.Join(e.dir, "out", fmt.Sprintf("p%d_linux_%s.out", i, c.Arch))
			outArg = filepath.Join(e.dir, "out", fmt.Sprintf("p%d_{{.GOOS}}_{{.GOARCH}}.out", i))
		}
		if outFile != "" {
			os.MkdirAll(filepath.Dir(outFile), 0o777)
			os.Chmod(filepath.Dir(outFile), 0o777)
			os.Remove(outFile)
			switch c.Pre {
			case "longer":
				var b strings.Builder
				b.WriteString("seccomp:\n  default_action: errno\n  syscalls:\n  - names:\n")
				for _, n := range vd.TableNames("x86_64") {
					b.WriteString("    - " + n + "\n")
				}
				b.WriteString("    action: allow\n")
				os.WriteFile(outFile, []byte(b.String()), 0o666)
				os.Chmod(outFile, 0o666)
				e.tag("out-file:holds-a-longer-earlier-profile")
			case "shorter":
				os.WriteFile(outFile, []byte("seccomp:\n  default_action: allow\n"), 0o666)
				os.Chmod(outFile, 0o666)
				e.tag("out-file:holds-a-shorter-earlier-profile")
			}
		}
		args := p.commandLine(c, outArg)
		res := e.runProfiler(p.home, e.noPath, e.dir, args, -1)
		cmdline := "seccomp-profiler " + strings.Join(quoteAll(args), " ")
		if res.Status != "ok" || !strings.Contains(res.Stderr, "Using cached objdump.") {
			e.mismatch(Mismatch{Case: fmt.Sprint(i), Request: reqTag, Go: res.Status, Model: reply,
				Note: "the profiler did not complete on the synthetic cache entry: " + lastLines(res.Stderr, 3) + "  [" + cmdline + "]"})
			continue
		}
		output := res.Stdout
		if outFile != "" {
			data, err := os.ReadFile(outFile)
			if err != nil {
				e.mismatch(Mismatch{Case: fmt.Sprint(i), Request: reqTag, Go: "no output file", Model: reply, Note: err.Error() + "  [" + cmdline + "]"})
				continue
			}
			output = string(data)
			if res.Stdout != "" {
				e.mismatch(Mismatch{Case: fmt.Sprint(i), Request: reqTag, Go: res.Stdout, Note: "-out given but something was printed on stdout"})
				continue
			}
		}
		var emitted []string
		switch c.Format {
		case "code":
			pkg, constraint, names, err := namesOfCode(output)
			if err != nil {
				e.mismatch(Mismatch{Case: fmt.Sprint(i), Request: reqTag, Go: output, Model: reply, Note: "emitted Go code does not parse: " + err.Error(),
					FailingInput: cmdline + "  (emits Go code that does not parse: " + err.Error() + ")", Key: "profile:code-parse"})
				continue
			}
			emitted = names
			wantPkg := c.Pkg
			if wantPkg == "" {
				wantPkg = "main"
			}
			if pkg != wantPkg || constraint != "// +build linux,"+c.Arch {
				e.mismatch(Mismatch{Case: fmt.Sprint(i), Request: reqTag, Go: pkg + " / " + constraint, Model: wantPkg + " / // +build linux," + c.Arch, Note: "package clause or build constraint of the emitted code"})
				continue
			}
		case "config":
			// read it back the way cmd/sandbox parsePolicy does
			yf := filepath.Join(e.dir, "loaded.yml")
			os.WriteFile(yf, []byte(output), 0o644)
			conf, err := yaml.NewConfigWithFile(yf)
			var config struct{ Seccomp seccomp.Policy }
			if err == nil {
				err = conf.Unpack(&config)
			}
			if err != nil {
				e.mismatch(Mismatch{Case: fmt.Sprint(i), Request: reqTag, Go: output, Model: reply, Note: "the emitted YAML does not load: " + err.Error(),
					FailingInput: cmdline + "  (emits a profile that the configuration loader rejects: " + err.Error() + ")", Key: "profile:yaml-load"})
				continue
			}
			pol := config.Seccomp
			if pol.DefaultAction != seccomp.ActionErrno || len(pol.Syscalls) != 1 || pol.Syscalls[0].Action != seccomp.ActionAllow || len(pol.Syscalls[0].NamesWithCondtions) != 0 {
				e.mismatch(Mismatch{Case: fmt.Sprint(i), Request: reqTag, Go: fmt.Sprintf("%+v", pol), Model: reply, Note: "loaded policy is not {errno; one allow group of names}",
					FailingInput: cmdline + "  (the loaded profile is not `default errno, one allow group`)", Key: "profile:shape"})
				continue
			}
			emitted = pol.Syscalls[0].Names
			// compile: loaded policy vs the expected policy (real compiler), and vs the model
			exp := vd.Policy{Arch: archName(c.Arch), Endian: "le", Default: uint32(seccomp.ActionErrno),
				Groups: []vd.Group{{Action: uint32(seccomp.ActionAllow), Names: expected}}}
			gotReply, _ := vd.CompileGo(&pol, archName(c.Arch), "le")
			wantReply, _ := exp.Compile()
			modelReply, err := e.model.Ask(exp.Request())
			if err != nil {
				return err
			}
			if gotReply != wantReply || !vd.ComparePolicy(gotReply, modelReply, info.Name) || !strings.HasPrefix(gotReply, "OK ") {
				m := Mismatch{Case: fmt.Sprint(i), Request: reqTag, Go: gotReply, Model: modelReply,
					Note: "filter compiled from the loaded YAML vs filter of the expected allow-list (real compiler: " + wantReply + ")"}
				m.FailingInput = cmdline + "  (the emitted YAML compiles to a different filter than the allow-list of the expected names " + fmt.Sprint(expected) + ")"
				m.Key = "profile:compile"
				e.mismatch(m)
				continue
			}
			e.tag("compiled-and-compared")
		}
		if why := propertyCheck(c, found, emitted); why != "" {
			e.mismatch(Mismatch{Case: fmt.Sprint(i), Request: reqTag, Go: fmt.Sprint(emitted), Model: fmt.Sprint(expected), Note: why,
				FailingInput: fmt.Sprintf("%s  with %d sites found %v: emitted %q — %s", cmdline, len(found), foundSummary(found), emitted, why),
				Key:          "profile:" + keyOf(why)})
			if len(e.sum.Mismatches) >= 5 {
				break
			}
			continue
		}
		if !sameList(emitted, expected) {
			e.mismatch(Mismatch{Case: fmt.Sprint(i), Request: reqTag, Go: fmt.Sprint(emitted), Model: fmt.Sprint(expected),
				Note: "emitted names differ from Profile.profileNames  [" + cmdline + "]"})
			if len(e.sum.Mismatches) >= 5 {
				break
			}
			continue
		}
		e.tag(fmt.Sprintf("names:%s", bucket(len(emitted))))
		e.sample(cmdline + "  =>  " + fmt.Sprint(emitted))
	}
	return nil
}

func bucket(n int) string {
	switch {
	case n == 0:
		return "0"
	case n <= 3:
		return "1-3"
	case n <= 10:
		return "4-10"
	}
	return ">10"
}

func keyOf(why string) string {
	if i := strings.IndexAny(why, ":("); i > 0 {
		why = why[:i]
	}
	return strings.ReplaceAll(strings.TrimSpace(why), " ", "-")
}

func foundSummary(found []disasm.Syscall) []string {
	var out []string
	for _, s := range found {
		out = append(out, fmt.Sprintf("%d=%s", s.Num, s.Name))
	}
	return out
}

func quoteAll(a []string) []string {
	out := make([]string, len(a))
	for i, s := range a {
		if s == "" || strings.IndexFunc(s, func(r rune) bool {
			return !(unicode.IsLetter(r) || unicode.IsDigit(r) || strings.ContainsRune("-_./{}", r))
		}) >= 0 {
			out[i] = strconv.Quote(s)
		} else {
			out[i] = s
		}
	}
	return out
}
