package main

import (
	"encoding/json"
	"fmt"
	"os"
	"os/exec"
	"path/filepath"
	"strings"
	"time"
)

// The direct build: the profiler plus one file that calls doObjdump(binary, hash) with values
// from the environment.  The file is added with `go build -overlay`; nothing is written into the
// repository.
const directSource = `package main

import (
	"fmt"
	"os"
)

func init() {
	if os.Getenv("VPROF_DIRECT") == "" {
		return
	}
	path, err := doObjdump(os.Getenv("VPROF_BINARY"), os.Getenv("VPROF_HASH"))
	if err != nil {
		fmt.Fprintln(os.Stderr, "doObjdump:", err)
		os.Exit(1)
	}
	fmt.Println(path)
	os.Exit(0)
}
`

func buildDirect(e *env) (string, error) {
	src := filepath.Join(e.dir, "zz_vprof_direct.go")
	if err := os.WriteFile(src, []byte(directSource), 0o644); err != nil {
		return "", err
	}
	pkgDir, err := filepath.Abs(filepath.Join(e.repo, "cmd", "seccomp-profiler"))
	if err != nil {
		return "", err
	}
	if real, err := filepath.EvalSymlinks(pkgDir); err == nil {
		pkgDir = real
	}
	ov, _ := json.Marshal(map[string]map[string]string{"Replace": {filepath.Join(pkgDir, "zz_vprof_direct.go"): src}})
	ovFile := filepath.Join(e.dir, "overlay.json")
	os.WriteFile(ovFile, ov, 0o644)
	out := filepath.Join(e.dir, "seccomp-profiler-direct")
	cmd := exec.Command("go", "build", "-overlay", ovFile, "-o", out, "./cmd/seccomp-profiler")
	cmd.Dir = e.repo
	cmd.Env = goEnv()
	if o, err := runTimeout(cmd, 300*time.Second); err != nil {
		return "", fmt.Errorf("cannot build the profiler with the direct-call file (doObjdump(binary, hash string) (string, error) expected): %v\n%s", err, o)
	}
	return out, nil
}

// directFile returns the content of the file a direct run printed the path of.
func directFile(res procResult) (string, bool) {
	path := strings.TrimSpace(res.Stdout)
	if path == "" {
		return "", false
	}
	data, err := os.ReadFile(path)
	if err != nil {
		return "", false
	}
	return string(data), true
}

func strp(s string) *string { return &s }

// directHistories: hashes that share a prefix, and the empty hash of the swallowed read error.
func directHistories() []History {
	a := strings.Repeat("0123456789abcdef", 4)
	b32 := a[:32] + strings.Repeat("f", 32) // same first 32 characters
	b63 := a[:63] + "0"                     // differs in the last character only
	b1 := "f" + a[1:]                       // differs in the first character only
	var hs []History
	for _, b := range []string{b32, b63, b1} {
		hs = append(hs, History{Runs: []Run{{Variant: 0, Sched: "ok", Hash: strp(a)}, {Variant: 1, Sched: "ok", Hash: strp(b)}}})
	}
	hs = append(hs, History{Runs: []Run{{Variant: 0, Sched: "ok", Hash: strp(a)}, {Variant: 0, Sched: "ok", Hash: strp(a)}}})
	hs = append(hs, History{Runs: []Run{{Variant: 0, Sched: "ok", Hash: strp("")}, {Variant: 1, Sched: "ok", Hash: strp("")}, {Variant: 1, Sched: "ok"}}})
	hs = append(hs, History{Runs: []Run{{Variant: 0, Sched: "kill:3", Hash: strp(a)}, {Variant: 0, Sched: "ok", Hash: strp(a)}}})
	return hs
}

var _ = fmt.Sprint
