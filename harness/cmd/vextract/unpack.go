package main

import (
	"fmt"
	"go/ast"
	"go/constant"
	"go/token"
	"go/types"
	"strings"

	"golang.org/x/tools/go/packages"
)

// The Unpack renderings: `(*Action).Unpack` and `(*Operation).Unpack` of filter.go as Lean definitions
// over the primitives of lean/Seccomp/Model/Text.lean (`forRange`, `UCtl`, `URes`, `lower`, `runes`).
// `C14.action_unpack_tie` / `operation_unpack_tie` prove them equal to the hand-written references
// for every input string and — for the map — every iteration order.
//
// Statement subset: `x = e`, `x := e` for strings; one `for k, v := range <package-level table>`
// whose body consists of `if c { … } [else { … }]`, `continue`, `*recv = <loop variable>`,
// `return nil`, `return fmt.Errorf(…)` / `errors.New(…)`; the same statements after the loop.
// String expressions: the parameter, string locals, loop variables of string kind, conversions
// between string kinds, strings.ToLower, literals; conditions: ==, != on strings, !, &&, ||.
// Anything else yields the outcome `opaque "<source text>"`, which no theorem can equate with the
// reference.

type upTr struct {
	p        *packages.Package
	b        strings.Builder
	notes    []string
	fn       string
	names    map[types.Object]string
	used     map[string]int
	recv     types.Object
	loopVars map[types.Object]bool
	inLoop   bool
}

func (t *upTr) line(indent int, format string, args ...interface{}) {
	t.b.WriteString(strings.Repeat("  ", indent))
	fmt.Fprintf(&t.b, format, args...)
	t.b.WriteString("\n")
}

func (t *upTr) fresh(id *ast.Ident) string {
	base := "v_" + leanTargetIdent(id.Name)
	n := base
	if k := t.used[base]; k > 0 {
		n = fmt.Sprintf("%s_%d", base, k)
	}
	t.used[base]++
	if obj := t.p.TypesInfo.ObjectOf(id); obj != nil {
		t.names[obj] = n
	}
	return n
}

func (t *upTr) name(id *ast.Ident) (string, bool) {
	obj := t.p.TypesInfo.ObjectOf(id)
	n, ok := t.names[obj]
	return n, ok
}

func isStringKind(tp types.Type) bool {
	if tp == nil {
		return false
	}
	b, ok := tp.Underlying().(*types.Basic)
	return ok && b.Info()&types.IsString != 0
}

// runes renders a string-valued expression as a rune list.
func (t *upTr) runes(e ast.Expr) (string, error) {
	e = ast.Unparen(e)
	if tv, ok := t.p.TypesInfo.Types[e]; ok && tv.Value != nil && tv.Value.Kind() == constant.String {
		return fmt.Sprintf("(Text.runes %s)", leanString(constant.StringVal(tv.Value))), nil
	}
	switch x := e.(type) {
	case *ast.Ident:
		if !isStringKind(t.p.TypesInfo.TypeOf(x)) {
			break
		}
		n, ok := t.name(x)
		if !ok {
			break
		}
		if t.loopVars[t.p.TypesInfo.ObjectOf(x)] {
			return fmt.Sprintf("(Text.runes %s)", n), nil
		}
		return n, nil
	case *ast.CallExpr:
		if len(x.Args) == 1 {
			// conversion between string kinds: string(name), Operation(s)
			if tv, ok := t.p.TypesInfo.Types[x.Fun]; ok && tv.IsType() && isStringKind(tv.Type) && isStringKind(t.p.TypesInfo.TypeOf(x.Args[0])) {
				return t.runes(x.Args[0])
			}
			if calleeFullName(t.p, x) == "strings.ToLower" {
				a, err := t.runes(x.Args[0])
				if err != nil {
					return "", err
				}
				return fmt.Sprintf("(Text.lower %s)", a), nil
			}
		}
	}
	return "", giUnsupported{exprText(e)}
}

func (t *upTr) cond(e ast.Expr) (string, error) {
	switch x := ast.Unparen(e).(type) {
	case *ast.UnaryExpr:
		if x.Op == token.NOT {
			c, err := t.cond(x.X)
			if err != nil {
				return "", err
			}
			return fmt.Sprintf("(!%s)", c), nil
		}
	case *ast.BinaryExpr:
		switch x.Op {
		case token.LAND, token.LOR:
			a, err := t.cond(x.X)
			if err != nil {
				return "", err
			}
			b, err := t.cond(x.Y)
			if err != nil {
				return "", err
			}
			op := "&&"
			if x.Op == token.LOR {
				op = "||"
			}
			return fmt.Sprintf("(%s %s %s)", a, op, b), nil
		case token.EQL, token.NEQ:
			a, err := t.runes(x.X)
			if err != nil {
				return "", err
			}
			b, err := t.runes(x.Y)
			if err != nil {
				return "", err
			}
			if x.Op == token.NEQ {
				return fmt.Sprintf("(!decide (%s = %s))", a, b), nil
			}
			return fmt.Sprintf("(decide (%s = %s))", a, b), nil
		}
	}
	return "", giUnsupported{exprText(e)}
}

func (t *upTr) opaque(indent int, n ast.Node, why string) {
	txt := srcText(t.p, n)
	t.notes = append(t.notes, t.fn+": "+why+": "+txt)
	if t.inLoop {
		t.line(indent, "Text.UCtl.opaque %s", leanString(txt))
	} else {
		t.line(indent, "Text.URes.opaque %s", leanString(txt))
	}
}

func (t *upTr) isErrReturn(x *ast.ReturnStmt) (isNil, isErr bool) {
	if len(x.Results) != 1 {
		return false, false
	}
	r := ast.Unparen(x.Results[0])
	if exprText(r) == "nil" {
		return true, false
	}
	if c, ok := r.(*ast.CallExpr); ok {
		if fn := calleeFullName(t.p, c); fn == "fmt.Errorf" || fn == "errors.New" {
			return false, true
		}
	}
	return false, false
}

// stmts renders a statement list; in a loop body the result is a `UCtl`, outside a `URes`.
func (t *upTr) stmts(list []ast.Stmt, indent int) {
	if len(list) == 0 {
		if t.inLoop {
			t.line(indent, "Text.UCtl.next st")
		} else {
			t.line(indent, "Text.URes.opaque \"end of function\"")
			t.notes = append(t.notes, t.fn+": a path ends without return")
		}
		return
	}
	st, rest := list[0], list[1:]
	if sw, isSwitch := st.(*ast.SwitchStmt); isSwitch {
		if is, ok := desugarSwitch(sw); ok {
			st = is
			if blk, isBlk := is.(*ast.BlockStmt); isBlk && len(blk.List) == 0 {
				t.stmts(rest, indent)
				return
			}
		}
	}
	switch x := st.(type) {
	case *ast.ReturnStmt:
		isNil, isErr := t.isErrReturn(x)
		if !isNil && !isErr {
			t.opaque(indent, x, "return outside the subset")
			return
		}
		if t.inLoop {
			t.line(indent, "Text.UCtl.ret st %v  -- %s", isErr, srcText(t.p, x))
		} else {
			t.line(indent, "Text.URes.done st %v  -- %s", isErr, srcText(t.p, x))
		}
	case *ast.BranchStmt:
		if x.Tok == token.CONTINUE && x.Label == nil && t.inLoop {
			t.line(indent, "Text.UCtl.next st  -- continue")
			return
		}
		t.opaque(indent, x, "branch statement outside the subset")
	case *ast.AssignStmt:
		if len(x.Lhs) == 1 && len(x.Rhs) == 1 && (x.Tok == token.ASSIGN || x.Tok == token.DEFINE) {
			// *recv = <loop variable>
			if star, ok := ast.Unparen(x.Lhs[0]).(*ast.StarExpr); ok && x.Tok == token.ASSIGN {
				if id, ok := ast.Unparen(star.X).(*ast.Ident); ok && t.p.TypesInfo.ObjectOf(id) == t.recv {
					rhs := ast.Unparen(x.Rhs[0])
					if c, ok := rhs.(*ast.CallExpr); ok && len(c.Args) == 1 {
						if tv, ok := t.p.TypesInfo.Types[c.Fun]; ok && tv.IsType() {
							rhs = ast.Unparen(c.Args[0]) // a conversion to the receiver's type
						}
					}
					if v, ok := rhs.(*ast.Ident); ok && t.loopVars[t.p.TypesInfo.ObjectOf(v)] {
						n, _ := t.name(v)
						t.line(indent, "let st := some %s  -- %s", n, srcText(t.p, x))
						t.stmts(rest, indent)
						return
					}
				}
				t.opaque(indent, x, "store outside the subset")
				return
			}
			if id, ok := x.Lhs[0].(*ast.Ident); ok && isStringKind(t.p.TypesInfo.TypeOf(id)) && !t.loopVars[t.p.TypesInfo.ObjectOf(id)] {
				if v, err := t.runes(x.Rhs[0]); err == nil {
					t.line(indent, "let %s := %s  -- %s", t.fresh(id), v, srcText(t.p, x))
					t.stmts(rest, indent)
					return
				}
			}
		}
		t.opaque(indent, x, "assignment outside the subset")
	case *ast.IfStmt:
		if x.Init != nil {
			t.opaque(indent, x, "if-init outside the subset")
			return
		}
		c, err := t.cond(x.Cond)
		if err != nil {
			t.opaque(indent, x, err.Error())
			return
		}
		thenList := append(append([]ast.Stmt{}, x.Body.List...), rest...)
		if endsFlow(x.Body.List) {
			thenList = x.Body.List
		}
		var elseList []ast.Stmt
		switch e := x.Else.(type) {
		case nil:
			elseList = rest
		case *ast.BlockStmt:
			elseList = append(append([]ast.Stmt{}, e.List...), rest...)
			if endsFlow(e.List) {
				elseList = e.List
			}
		case *ast.IfStmt:
			elseList = append([]ast.Stmt{e}, rest...)
		}
		saved := t.snapshot()
		t.line(indent, "if %s then  -- if %s", c, exprText(x.Cond))
		t.stmts(thenList, indent+1)
		t.restore(saved)
		t.line(indent, "else")
		t.stmts(elseList, indent+1)
		t.restore(saved)
	case *ast.RangeStmt:
		if t.inLoop {
			t.opaque(indent, x, "nested loop")
			return
		}
		tbl, ok := ast.Unparen(x.X).(*ast.Ident)
		var tv *types.Var
		if ok {
			tv, _ = t.p.TypesInfo.ObjectOf(tbl).(*types.Var)
		}
		if tv == nil || tv.Parent() != t.p.Types.Scope() || x.Tok != token.DEFINE {
			t.opaque(indent, x, "range outside the subset")
			return
		}
		kind := typeKind(tv.Type())
		entries := ""
		switch {
		case kind == "map" && tbl.Name == "actionNames":
			entries = "order"
		case kind == "slice" && tbl.Name == "Operations":
			if x.Key != nil && exprText(x.Key) != "_" {
				t.opaque(indent, x, "index variable of a slice range")
				return
			}
			entries = "(ops.map (fun v => ((), v)))"
		default:
			t.opaque(indent, x, "range over another table")
			return
		}
		kn, vn := "_", "_"
		t.loopVars = map[types.Object]bool{}
		if id, ok := x.Key.(*ast.Ident); ok && id.Name != "_" {
			kn = t.fresh(id)
			t.loopVars[t.p.TypesInfo.ObjectOf(id)] = true
		}
		if id, ok := x.Value.(*ast.Ident); ok && id.Name != "_" {
			vn = t.fresh(id)
			t.loopVars[t.p.TypesInfo.ObjectOf(id)] = true
		}
		t.line(indent, "Text.forRange (fun %s %s st =>  -- %s", kn, vn, "for "+exprText(x.Key)+", "+exprTextOr(x.Value, "_")+" := range "+tbl.Name)
		t.inLoop = true
		saved := t.snapshot()
		t.stmts(x.Body.List, indent+2)
		t.restore(saved)
		t.inLoop = false
		t.loopVars = map[types.Object]bool{}
		t.line(indent+1, ") (fun st =>")
		t.stmts(rest, indent+2)
		t.line(indent+1, ") %s st", entries)
	default:
		t.opaque(indent, st, "statement outside the subset")
	}
}

func exprTextOr(e ast.Expr, dflt string) string {
	if e == nil {
		return dflt
	}
	return exprText(e)
}

// endsFlow: the list ends in return or continue on every path.
func endsFlow(list []ast.Stmt) bool {
	if len(list) == 0 {
		return false
	}
	switch x := list[len(list)-1].(type) {
	case *ast.ReturnStmt:
		return true
	case *ast.BranchStmt:
		return x.Tok == token.CONTINUE
	case *ast.IfStmt:
		eb, ok := x.Else.(*ast.BlockStmt)
		return ok && endsFlow(x.Body.List) && endsFlow(eb.List)
	}
	return false
}

func (t *upTr) snapshot() map[types.Object]string {
	m := map[types.Object]string{}
	for k, v := range t.names {
		m[k] = v
	}
	return m
}

func (t *upTr) restore(m map[types.Object]string) {
	t.names = map[types.Object]string{}
	for k, v := range m {
		t.names[k] = v
	}
}

func genUnpack(host *target, facts map[string]interface{}) error {
	var b strings.Builder
	b.WriteString("import Seccomp.Model.Text\n")
	b.WriteString("/-! GENERATED by vextract from /repo/filter.go — do not edit.  Regenerated on every check run;\n    `C14.action_unpack_tie` / `C14.operation_unpack_tie` prove these renderings equal to the hand-written\n    references `Text.unpackWith … true false` / `Text.unpackOpWith … true true`. -/\n\nnamespace Gen\n\n")
	p := host.pkgs[""]
	if p == nil {
		p = host.pkgs["."]
	}
	var notes []string
	rendered := map[string]string{}
	for _, spec := range []struct{ fn, def, sig, alpha string }{
		{"Action.Unpack", "actionUnpackSkel", "(order : List (Nat × String)) (s : List Nat) : Text.URes Nat", "Nat"},
		{"Operation.Unpack", "operationUnpackSkel", "(ops : List String) (s : List Nat) : Text.URes String", "String"},
	} {
		stub := func(why string) {
			notes = append(notes, spec.fn+": "+why)
			fmt.Fprintf(&b, "/-- `%s`: %s -/\ndef %s %s := Text.URes.opaque %s\n\n", spec.fn, why, spec.def, spec.sig, leanString(why))
		}
		if p == nil {
			stub("root package not loaded")
			continue
		}
		fd := funcDecl(p, spec.fn)
		if fd == nil || fd.Body == nil {
			stub("function not found")
			continue
		}
		okSig := fd.Recv != nil && len(fd.Recv.List) == 1 && len(fd.Recv.List[0].Names) == 1 &&
			fd.Type.Params != nil && len(fd.Type.Params.List) == 1 && len(fd.Type.Params.List[0].Names) == 1 && exprText(fd.Type.Params.List[0].Type) == "string" &&
			fd.Type.Results != nil && len(fd.Type.Results.List) == 1 && exprText(fd.Type.Results.List[0].Type) == "error"
		if okSig {
			_, okSig = fd.Recv.List[0].Type.(*ast.StarExpr)
		}
		if !okSig {
			stub("signature outside the subset")
			continue
		}
		t := &upTr{p: p, fn: spec.fn, names: map[types.Object]string{}, used: map[string]int{}, loopVars: map[types.Object]bool{}}
		t.recv = p.TypesInfo.ObjectOf(fd.Recv.List[0].Names[0])
		param := fd.Type.Params.List[0].Names[0]
		fmt.Fprintf(&t.b, "/-- `(*%s` (filter.go); `s` is the rune sequence of the argument -/\ndef %s %s :=\n  let st : Option %s := none\n  let %s := s\n",
			strings.Replace(spec.fn, ".", ").", 1), spec.def, spec.sig, spec.alpha, t.fresh(param))
		t.stmts(fd.Body.List, 1)
		notes = append(notes, t.notes...)
		rendered[spec.fn] = t.b.String()
		b.WriteString(t.b.String())
		b.WriteString("\n")
	}
	b.WriteString("/-- statements the translator could not render (empty = both functions are inside the subset) -/\n")
	fmt.Fprintf(&b, "def unpackNotes : List String := [%s]\n\nend Gen\n", joinLeanStrings(notes))
	writeIfChanged("Unpack.lean", b.String())
	facts["unpackSkeletons"] = rendered
	facts["unpackNotes"] = notes
	return nil
}
