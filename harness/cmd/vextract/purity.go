package main

// genPurity emits Gen/Purity.lean (C13): a syntactic effect summary of every function of the
// module that is reachable, in the static call graph, from the compiler and the text conversions.
//
// Call graph: an edge f → g for every identifier inside f's body (function literals included)
// that go/types resolves (`Uses`) to a function or method g declared in the module.  Calls
// through interfaces or function values are not followed (the roots contain none that reach
// module code; fmt's use of String methods is outside the graph and named in the trusted base).

import (
	"fmt"
	"go/ast"
	"go/token"
	"go/types"
	"sort"
	"strings"

	"golang.org/x/tools/go/packages"
)

type pFunc struct {
	key    string
	suffix string // package path below the module ("" = root)
	pkg    *packages.Package
	decl   *ast.FuncDecl
	full   string // types.Func.FullName
}

type pSite struct {
	Func string `json:"func"`
	Pos  string `json:"pos"`
	Text string `json:"text"`
}

type pStore struct {
	Func     string `json:"func"`
	Pos      string `json:"pos"`
	RootKind string `json:"root_kind"` // recv-ptr | recv-val | param | pkgvar | local | complex
	Root     string `json:"root"`
	Deref    bool   `json:"deref"`    // the path from the root passes a pointer, slice or map
	ObjType  string `json:"obj_type"` // static type of the object that is written (struct / slice / map / pointee)
	Text     string `json:"text"`
	Path     string `json:"path"` // the assigned expression with its root replaced by the root's kind: "recv-ptr.arch", "*recv-ptr", "local[·]"
}

type pCall struct {
	Func    string `json:"func"`
	Pos     string `json:"pos"`
	Callee  string `json:"callee"`
	DstType string `json:"dst_type"` // type of the first argument (the destination of append/copy/sort…)
	DstRoot string `json:"dst_root"` // root identifier of the first argument
	// DstFresh: the first argument is a plain local slice variable that is declared without a value (nil), with
	// make(…) or with a composite literal, and whose every later assignment is `x = append(x, …)` or again such a
	// fresh value: its backing array is allocated inside this function
	DstFresh bool   `json:"dst_fresh"`
	Text     string `json:"text"`
}

type pRead struct {
	Func string `json:"func"`
	Var  string `json:"var"`
}

var purityRoots = []string{
	"Policy.Assemble", "Policy.Validate",
	"Action.String", "Action.MarshalText", "Action.Unpack",
	"FilterFlag.String", "FilterFlag.MarshalText", "Operation.Unpack",
	"arch.GetInfo",
}

func qualifierFor(root *types.Package) types.Qualifier {
	return func(p *types.Package) string {
		if p == root {
			return ""
		}
		return p.Name()
	}
}

func funcKey(suffix string, fd *ast.FuncDecl, p *packages.Package) string {
	n := fd.Name.Name
	if fd.Recv != nil && len(fd.Recv.List) == 1 {
		t := fd.Recv.List[0].Type
		if st, ok := t.(*ast.StarExpr); ok {
			t = st.X
		}
		if id, ok := t.(*ast.Ident); ok {
			n = id.Name + "." + n
		}
	}
	if n == "init" || n == "main" {
		n = n + "@" + posOf(p, fd)
	}
	if suffix != "" {
		return suffix + "." + n
	}
	return n
}

// hasRefs reports whether a value of the type can share memory with another value.
func hasRefs(t types.Type, depth int) bool {
	if t == nil || depth > 8 {
		return true
	}
	switch u := t.Underlying().(type) {
	case *types.Basic:
		return u.Kind() == types.UnsafePointer
	case *types.Pointer, *types.Slice, *types.Map, *types.Chan, *types.Signature, *types.Interface:
		return true
	case *types.Array:
		return hasRefs(u.Elem(), depth+1)
	case *types.Struct:
		for i := 0; i < u.NumFields(); i++ {
			if hasRefs(u.Field(i).Type(), depth+1) {
				return true
			}
		}
		return false
	case *types.Tuple:
		for i := 0; i < u.Len(); i++ {
			if hasRefs(u.At(i).Type(), depth+1) {
				return true
			}
		}
		return false
	}
	return true
}

var pureBuiltins = map[string]bool{"len": true, "cap": true, "make": true, "new": true, "panic": true, "print": true, "println": true,
	"min": true, "max": true, "real": true, "imag": true, "complex": true, "recover": true}

type purityWalker struct {
	f       *pFunc
	qual    types.Qualifier
	recv    map[types.Object]string // object → recv-ptr | recv-val
	params  map[types.Object]bool
	byFull  map[string]*pFunc
	edges   map[string]bool
	mapRng  []pSite
	gos     []pSite
	stores  []pStore
	calls   []pCall
	reads   map[string]bool
	modPref string
}

func (w *purityWalker) typeStr(t types.Type) string {
	if t == nil {
		return "?"
	}
	return types.TypeString(t, w.qual)
}

// lhs classifies one assigned expression.
func (w *purityWalker) lhs(e ast.Expr, stmt ast.Node) {
	info := w.f.pkg.TypesInfo
	if id, ok := e.(*ast.Ident); ok && id.Name == "_" {
		return
	}
	// deref and object type: walk from the outside in
	deref := false
	objType := ""
	cur := e
	first := true
	for {
		switch x := cur.(type) {
		case *ast.ParenExpr:
			cur = x.X
			continue
		case *ast.SelectorExpr:
			t := info.TypeOf(x.X)
			if t != nil {
				if pt, ok := t.Underlying().(*types.Pointer); ok {
					deref = true
					t = pt.Elem()
				}
			}
			if first {
				objType = w.typeStr(t)
			}
			cur = x.X
		case *ast.IndexExpr:
			t := info.TypeOf(x.X)
			if t != nil {
				switch u := t.Underlying().(type) {
				case *types.Slice, *types.Map:
					deref = true
				case *types.Pointer:
					deref = true
					t = u.Elem()
				}
			}
			if first {
				objType = w.typeStr(t)
			}
			cur = x.X
		case *ast.StarExpr:
			deref = true
			if first {
				objType = w.typeStr(info.TypeOf(x))
			}
			cur = x.X
		default:
			goto done
		}
		first = false
	}
done:
	root := rootIdent(e)
	st := pStore{Func: w.f.key, Pos: posOf(w.f.pkg, stmt), Deref: deref, ObjType: objType, Text: srcText(w.f.pkg, stmt), Path: w.canon(e)}
	if root == nil {
		st.RootKind, st.Root = "complex", "?"
		w.stores = append(w.stores, st)
		return
	}
	obj := info.Uses[root]
	if obj == nil {
		obj = info.Defs[root]
	}
	st.Root = root.Name
	_, plain := e.(*ast.Ident)
	v, isVar := obj.(*types.Var)
	switch {
	case isVar && v.Pkg() != nil && v.Parent() == v.Pkg().Scope():
		st.RootKind = "pkgvar"
		st.Root = w.varName(v)
		if plain {
			st.ObjType = w.typeStr(v.Type())
		}
	case obj != nil && w.recv[obj] != "":
		st.RootKind = w.recv[obj]
		if plain {
			st.ObjType = w.typeStr(obj.Type())
		}
	case obj != nil && w.params[obj]:
		st.RootKind = "param"
		if plain || (!deref && !hasRefs(obj.Type(), 0)) {
			return // re-binding a parameter variable / writing a field of a by-value copy without references
		}
	default:
		st.RootKind = "local"
		if !deref {
			return // a local variable or a field of a local struct value
		}
	}
	w.stores = append(w.stores, st)
}

// canon renders an addressable expression independently of how its variables are called: the root
// identifier becomes its kind (receiver, parameter, local, or the qualified name of a package-level
// variable), selectors keep their field names, index expressions lose their index.
func (w *purityWalker) canon(e ast.Expr) string {
	info := w.f.pkg.TypesInfo
	switch x := e.(type) {
	case *ast.ParenExpr:
		return w.canon(x.X)
	case *ast.StarExpr:
		return "*" + w.canon(x.X)
	case *ast.SelectorExpr:
		return w.canon(x.X) + "." + x.Sel.Name
	case *ast.IndexExpr:
		return w.canon(x.X) + "[·]"
	case *ast.Ident:
		obj := info.Uses[x]
		if obj == nil {
			obj = info.Defs[x]
		}
		v, isVar := obj.(*types.Var)
		switch {
		case isVar && v.Pkg() != nil && v.Parent() == v.Pkg().Scope():
			return w.varName(v)
		case obj != nil && w.recv[obj] != "":
			return w.recv[obj]
		case obj != nil && w.params[obj]:
			return "param"
		case isVar:
			return "local"
		}
		return x.Name
	}
	return "?"
}

func (w *purityWalker) varName(v *types.Var) string {
	path := v.Pkg().Path()
	if path == w.modPref {
		return v.Name()
	}
	if strings.HasPrefix(path, w.modPref+"/") {
		return strings.TrimPrefix(path, w.modPref+"/") + "." + v.Name()
	}
	return path + "." + v.Name()
}

func (w *purityWalker) walk() {
	info := w.f.pkg.TypesInfo
	fd := w.f.decl
	w.recv = map[types.Object]string{}
	w.params = map[types.Object]bool{}
	if fd.Recv != nil {
		for _, fl := range fd.Recv.List {
			kind := "recv-val"
			if _, ok := fl.Type.(*ast.StarExpr); ok {
				kind = "recv-ptr"
			}
			for _, n := range fl.Names {
				if o := info.Defs[n]; o != nil {
					w.recv[o] = kind
				}
			}
		}
	}
	addParams := func(ft *ast.FuncType) {
		if ft.Params == nil {
			return
		}
		for _, fl := range ft.Params.List {
			for _, n := range fl.Names {
				if o := info.Defs[n]; o != nil {
					w.params[o] = true
				}
			}
		}
	}
	addParams(fd.Type)
	ast.Inspect(fd.Body, func(n ast.Node) bool {
		if fl, ok := n.(*ast.FuncLit); ok {
			addParams(fl.Type)
		}
		return true
	})
	ast.Inspect(fd.Body, func(n ast.Node) bool {
		switch x := n.(type) {
		case *ast.Ident:
			switch o := info.Uses[x].(type) {
			case *types.Func:
				if g, ok := w.byFull[o.FullName()]; ok {
					w.edges[g.key] = true
				}
			case *types.Var:
				if !o.IsField() && o.Pkg() != nil && o.Parent() == o.Pkg().Scope() {
					w.reads[w.varName(o)] = true
				}
			}
		case *ast.RangeStmt:
			if typeKind(info.TypeOf(x.X)) == "map" {
				w.mapRng = append(w.mapRng, pSite{w.f.key, posOf(w.f.pkg, x), w.canon(x.X)})
			}
			if x.Tok == token.ASSIGN {
				for _, e := range []ast.Expr{x.Key, x.Value} {
					if e != nil {
						w.lhs(e, x)
					}
				}
			}
		case *ast.GoStmt:
			w.gos = append(w.gos, pSite{w.f.key, posOf(w.f.pkg, x), srcText(w.f.pkg, x)})
		case *ast.AssignStmt:
			if x.Tok != token.DEFINE {
				for _, l := range x.Lhs {
					w.lhs(l, x)
				}
			}
		case *ast.IncDecStmt:
			w.lhs(x.X, x)
		case *ast.CallExpr:
			w.call(x)
		}
		return true
	})
}

// call records calls that leave the module (or are builtins) and receive an argument that can
// share memory with the caller's data; in-module callees are analysed themselves.
func (w *purityWalker) call(c *ast.CallExpr) {
	info := w.f.pkg.TypesInfo
	if tv, ok := info.Types[c.Fun]; ok && tv.IsType() {
		return // conversion
	}
	name := calleeName(w.f.pkg, c)
	if name == "" {
		name = "dynamic:" + exprText(c.Fun)
	}
	if pureBuiltins[name] {
		return
	}
	if strings.HasPrefix(name, w.modPref+".") || strings.HasPrefix(name, w.modPref+"/") || strings.Contains(name, w.modPref+".") ||
		strings.Contains(name, w.modPref+"/") {
		if !strings.HasPrefix(name, "dynamic:") {
			return // analysed as a node of the call graph
		}
	}
	// calls of local function values (closures defined in the same body) are part of the body
	if id, ok := c.Fun.(*ast.Ident); ok {
		if v, ok := info.Uses[id].(*types.Var); ok && v.Parent() != v.Pkg().Scope() {
			return
		}
	}
	shared := false
	for _, a := range c.Args {
		if tv, ok := info.Types[a]; ok && tv.Value != nil {
			continue // constant
		}
		if hasRefs(info.TypeOf(a), 0) {
			shared = true
		}
	}
	if !shared {
		return
	}
	dst, dstRoot, fresh := "?", "?", false
	if len(c.Args) > 0 {
		dst = w.typeStr(info.TypeOf(c.Args[0]))
		if root := rootIdent(c.Args[0]); root != nil {
			dstRoot = root.Name
		}
		if id, ok := c.Args[0].(*ast.Ident); ok {
			fresh = w.freshLocal(id)
		}
	}
	w.calls = append(w.calls, pCall{w.f.key, posOf(w.f.pkg, c), name, dst, dstRoot, fresh, srcText(w.f.pkg, c)})
}

func (w *purityWalker) freshExpr(e ast.Expr) bool {
	switch x := e.(type) {
	case *ast.CompositeLit:
		return true
	case *ast.Ident:
		return x.Name == "nil" && w.f.pkg.TypesInfo.Uses[x] == types.Universe.Lookup("nil")
	case *ast.CallExpr:
		return calleeName(w.f.pkg, x) == "make"
	}
	return false
}

// freshLocal: see pCall.DstFresh.
func (w *purityWalker) freshLocal(id *ast.Ident) bool {
	info := w.f.pkg.TypesInfo
	obj, ok := info.Uses[id].(*types.Var)
	if !ok || w.recv[obj] != "" || w.params[obj] || obj.IsField() || (obj.Pkg() != nil && obj.Parent() == obj.Pkg().Scope()) {
		return false
	}
	declared, fresh := false, true
	ast.Inspect(w.f.decl.Body, func(n ast.Node) bool {
		switch x := n.(type) {
		case *ast.ValueSpec:
			for i, name := range x.Names {
				if info.Defs[name] == obj {
					declared = true
					if len(x.Values) > i && !w.freshExpr(x.Values[i]) {
						fresh = false
					}
					if len(x.Values) > 0 && len(x.Values) != len(x.Names) {
						fresh = false
					}
				}
			}
		case *ast.AssignStmt:
			for i, l := range x.Lhs {
				lid, ok := l.(*ast.Ident)
				if !ok {
					continue
				}
				isDef := info.Defs[lid] == obj
				if !isDef && info.Uses[lid] != obj {
					continue
				}
				if len(x.Rhs) != len(x.Lhs) {
					fresh = false
					continue
				}
				rhs := x.Rhs[i]
				if isDef {
					declared = true
				}
				if w.freshExpr(rhs) {
					continue
				}
				if call, ok := rhs.(*ast.CallExpr); ok && !isDef && calleeName(w.f.pkg, call) == "append" && len(call.Args) > 0 {
					if aid, ok := call.Args[0].(*ast.Ident); ok && info.Uses[aid] == obj {
						continue
					}
				}
				fresh = false
			}
		case *ast.RangeStmt:
			for _, e := range []ast.Expr{x.Key, x.Value} {
				if rid, ok := e.(*ast.Ident); ok && (info.Defs[rid] == obj || info.Uses[rid] == obj) {
					fresh = false
				}
			}
		}
		return true
	})
	return declared && fresh
}

func genPurity(t *target, facts map[string]interface{}) error {
	root := t.pkgs[""]
	qual := qualifierFor(root.Types)
	var funcs []*pFunc
	byKey := map[string]*pFunc{}
	byFull := map[string]*pFunc{}
	var suffixes []string
	for s := range t.pkgs {
		suffixes = append(suffixes, s)
	}
	sort.Strings(suffixes)
	for _, s := range suffixes {
		p := t.pkgs[s]
		for _, file := range p.Syntax {
			for _, d := range file.Decls {
				fd, ok := d.(*ast.FuncDecl)
				if !ok || fd.Body == nil {
					continue
				}
				obj, ok := p.TypesInfo.Defs[fd.Name].(*types.Func)
				if !ok {
					continue
				}
				f := &pFunc{key: funcKey(s, fd, p), suffix: s, pkg: p, decl: fd, full: obj.FullName()}
				funcs = append(funcs, f)
				byKey[f.key] = f
				if fd.Name.Name != "init" && fd.Name.Name != "_" {
					byFull[f.full] = f
				}
			}
		}
	}
	walkers := map[string]*purityWalker{}
	for _, f := range funcs {
		w := &purityWalker{f: f, qual: qual, byFull: byFull, edges: map[string]bool{}, reads: map[string]bool{}, modPref: modPath}
		w.walk()
		walkers[f.key] = w
	}
	for _, r := range purityRoots {
		if byKey[r] == nil {
			return fmt.Errorf("purity: root %s not found", r)
		}
	}
	reachFrom := func(roots ...string) []string {
		seen := map[string]bool{}
		todo := append([]string{}, roots...)
		for len(todo) > 0 {
			k := todo[len(todo)-1]
			todo = todo[:len(todo)-1]
			if seen[k] {
				continue
			}
			seen[k] = true
			var next []string
			for e := range walkers[k].edges {
				next = append(next, e)
			}
			sort.Strings(next)
			todo = append(todo, next...)
		}
		var out []string
		for k := range seen {
			out = append(out, k)
		}
		sort.Strings(out)
		return out
	}
	reachAll := reachFrom(purityRoots...)
	inAll := map[string]bool{}
	for _, k := range reachAll {
		inAll[k] = true
	}

	var b strings.Builder
	b.WriteString("/-! GENERATED by vextract from /repo (production view, linux/amd64) — do not edit.  Regenerated on every check run.\n" +
		"    Syntactic effect summary of the functions reachable in the static call graph from the compiler and\n" +
		"    the text conversions (C13). -/\n\nnamespace Gen.Purity\n\n")
	b.WriteString("structure Site where\n  fn : String\n  pos : String\n  text : String\nderiving Repr, DecidableEq\n\n")
	b.WriteString("structure Store where\n  fn : String\n  pos : String\n  rootKind : String\n  root : String\n  deref : Bool\n  objType : String\n  text : String\n  path : String\nderiving Repr, DecidableEq\n\n")
	b.WriteString("structure ExtCall where\n  fn : String\n  pos : String\n  callee : String\n  dstType : String\n  dstRoot : String\n  dstFresh : Bool\n  text : String\nderiving Repr, DecidableEq\n\n")

	fmt.Fprintf(&b, "def roots : List String := %s\n\n", leanStrList(purityRoots))
	b.WriteString("/-- for every root: the functions of the module reachable from it (sorted) -/\ndef reach : List (String × List String) := [\n")
	reachFacts := map[string][]string{}
	for i, r := range purityRoots {
		rs := reachFrom(r)
		reachFacts[r] = rs
		sep := ","
		if i == len(purityRoots)-1 {
			sep = ""
		}
		fmt.Fprintf(&b, "  (%s, %s)%s\n", leanString(r), leanStrList(rs), sep)
	}
	b.WriteString("]\n\n")
	b.WriteString("/-- call graph edges among the reachable functions -/\ndef edges : List (String × List String) := [\n")
	for i, k := range reachAll {
		var es []string
		for e := range walkers[k].edges {
			es = append(es, e)
		}
		sort.Strings(es)
		sep := ","
		if i == len(reachAll)-1 {
			sep = ""
		}
		fmt.Fprintf(&b, "  (%s, %s)%s\n", leanString(k), leanStrList(es), sep)
	}
	b.WriteString("]\n\n")

	var mapRanges, gos []pSite
	var stores []pStore
	var calls []pCall
	var reads []pRead
	for _, k := range reachAll {
		w := walkers[k]
		mapRanges = append(mapRanges, w.mapRng...)
		gos = append(gos, w.gos...)
		stores = append(stores, w.stores...)
		calls = append(calls, w.calls...)
		var rs []string
		for r := range w.reads {
			rs = append(rs, r)
		}
		sort.Strings(rs)
		for _, r := range rs {
			reads = append(reads, pRead{k, r})
		}
	}
	writeSites := func(name, doc string, xs []pSite) {
		fmt.Fprintf(&b, "/-- %s -/\ndef %s : List Site := [\n", doc, name)
		for i, x := range xs {
			sep := ","
			if i == len(xs)-1 {
				sep = ""
			}
			fmt.Fprintf(&b, "  ⟨%s, %s, %s⟩%s\n", leanString(x.Func), leanString(x.Pos), leanString(x.Text), sep)
		}
		b.WriteString("]\n\n")
	}
	writeSites("mapRanges", "`range` statements whose expression has a map type (go/types), in reachable functions", mapRanges)
	writeSites("goStmts", "`go` statements in reachable functions", gos)
	writeStores := func(name, doc string, xs []pStore) {
		fmt.Fprintf(&b, "/-- %s -/\ndef %s : List Store := [\n", doc, name)
		for i, x := range xs {
			sep := ","
			if i == len(xs)-1 {
				sep = ""
			}
			fmt.Fprintf(&b, "  ⟨%s, %s, %s, %s, %s, %s, %s, %s⟩%s\n", leanString(x.Func), leanString(x.Pos), leanString(x.RootKind), leanString(x.Root),
				leanBool(x.Deref), leanString(x.ObjType), leanString(x.Text), leanString(x.Path), sep)
		}
		b.WriteString("]\n\n")
	}
	writeStores("stores", "assignments and increment/decrement statements in reachable functions whose target is not a plain local variable or a field of a local struct value: "+
		"rooted in a receiver, a parameter, a package-level variable, or reached through a pointer, slice or map", stores)
	fmt.Fprintf(&b, "/-- calls that leave the module (or builtins other than len/cap/make/new/…) with an argument that can share memory -/\ndef extCalls : List ExtCall := [\n")
	for i, x := range calls {
		sep := ","
		if i == len(calls)-1 {
			sep = ""
		}
		fmt.Fprintf(&b, "  ⟨%s, %s, %s, %s, %s, %s, %s⟩%s\n", leanString(x.Func), leanString(x.Pos), leanString(x.Callee), leanString(x.DstType),
			leanString(x.DstRoot), leanBool(x.DstFresh), leanString(x.Text), sep)
	}
	b.WriteString("]\n\n")
	b.WriteString("/-- reads of package-level variables (function, variable) in reachable functions -/\ndef pkgVarReads : List (String × String) := [\n")
	for i, x := range reads {
		sep := ","
		if i == len(reads)-1 {
			sep = ""
		}
		fmt.Fprintf(&b, "  (%s, %s)%s\n", leanString(x.Func), leanString(x.Var), sep)
	}
	b.WriteString("]\n\n")

	// writes of package-level variables anywhere in the module (production view), init functions included
	var pkgWrites []pStore
	for _, f := range funcs {
		for _, s := range walkers[f.key].stores {
			if s.RootKind == "pkgvar" {
				pkgWrites = append(pkgWrites, s)
			}
		}
	}
	writeStores("pkgVarWrites", "every store rooted in a package-level variable, in any function of the module (all packages, `init` included)", pkgWrites)
	b.WriteString("end Gen.Purity\n")
	writeIfChanged("Purity.lean", b.String())

	facts["purity"] = map[string]interface{}{
		"roots": purityRoots, "reach": reachFacts, "mapRanges": mapRanges, "goStmts": gos, "stores": stores,
		"extCalls": calls, "pkgVarReads": reads, "pkgVarWrites": pkgWrites,
	}
	return nil
}
