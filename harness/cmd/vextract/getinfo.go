package main

import (
	"fmt"
	"go/ast"
	"go/constant"
	"go/token"
	"go/types"
	"strings"

	"golang.org/x/tools/go/packages"
)

// The GetInfo rendering: the body of arch.GetInfo as a pure Lean definition over the primitives of
// lean/Seccomp/Model/Arch.lean (lookupArch, lower, lenNames, the short-circuit operators on
// `Option Bool`, `ite3`).  `C12.getinfo_tie` proves it equal to the hand-written `Arch.getInfo` for
// every GOARCH and every name, so the tie does not depend on how the source spells the guard.
//
// Statement subset: `x = e`, `x := e`, `v, ok := arches[e]` (also as the init statement of an `if`),
// `if c { … } [else { … }]` (a branch that falls through gets the rest of the function inlined),
// `return v, nil`, `return nil, fmt.Errorf("unsupported arch: %v", e)`.
// Expressions: string variables and literals, runtime.GOARCH, strings.ToLower(e); conditions:
// ==, != on strings, boolean variables, !, &&, ||, v == nil, v != nil, and comparisons of
// len(v.SyscallNames) / len(v.SyscallNumbers) with integer constants.
// Anything else makes the function's outcome `Arch.Res.opaque "<source text>"`, which no theorem
// can equate with the reference.

type giTr struct {
	p     *packages.Package
	b     strings.Builder
	notes []string
	names map[types.Object]string
	used  map[string]int
	// unexported helper functions of the package called from GetInfo, rendered as local functions
	// (`let h := fun … => …` in front of the body, so that unfolding GetInfo's rendering unfolds them too)
	helpers map[*types.Func]string
	prelude []string
	busy    map[*types.Func]bool
}

type giUnsupported struct{ text string }

func (u giUnsupported) Error() string { return "outside the subset: " + u.text }

func (t *giTr) line(indent int, format string, args ...interface{}) {
	t.b.WriteString(strings.Repeat("  ", indent))
	fmt.Fprintf(&t.b, format, args...)
	t.b.WriteString("\n")
}

func (t *giTr) ident(id *ast.Ident, define bool) string {
	obj := t.p.TypesInfo.ObjectOf(id)
	if obj == nil {
		return leanIdent(id.Name)
	}
	if n, ok := t.names[obj]; ok {
		return n
	}
	base := "v_" + leanTargetIdent(id.Name)
	n := base
	if k := t.used[base]; k > 0 {
		n = fmt.Sprintf("%s_%d", base, k)
	}
	t.used[base]++
	t.names[obj] = n
	return n
}

func (t *giTr) typeOf(e ast.Expr) string {
	if tv := t.p.TypesInfo.TypeOf(e); tv != nil {
		return tv.String()
	}
	return ""
}

func isInfoPtr(s string) bool { return strings.HasSuffix(s, "/arch.Info") && strings.HasPrefix(s, "*") }

// str renders a string-valued expression.
func (t *giTr) str(e ast.Expr) (string, error) {
	if tv, ok := t.p.TypesInfo.Types[e]; ok && tv.Value != nil && tv.Value.Kind() == constant.String {
		if sel, isSel := ast.Unparen(e).(*ast.SelectorExpr); isSel && exprText(sel) == "runtime.GOARCH" {
			return "goarch", nil
		}
		return leanString(constant.StringVal(tv.Value)), nil
	}
	switch x := ast.Unparen(e).(type) {
	case *ast.Ident:
		if t.typeOf(x) == "string" {
			return t.ident(x, false), nil
		}
	case *ast.SelectorExpr:
		if exprText(x) == "runtime.GOARCH" {
			return "goarch", nil
		}
	case *ast.CallExpr:
		if fn := calleeFullName(t.p, x); fn == "strings.ToLower" && len(x.Args) == 1 {
			a, err := t.str(x.Args[0])
			if err != nil {
				return "", err
			}
			return fmt.Sprintf("(Arch.lower %s)", a), nil
		}
		if h, kind := t.helper(x); h != "" && kind == "str" {
			a, err := t.str(x.Args[0])
			if err != nil {
				return "", err
			}
			return fmt.Sprintf("(%s %s)", h, a), nil
		}
	}
	return "", giUnsupported{exprText(e)}
}

// helper recognises a call of an unexported function of the package with one parameter and one
// result — (string) string, (string) bool or (*Info) bool — renders the function once as a local
// Lean function and returns its name and kind ("str": String → String, "boolS": String → Option
// Bool, "boolI": Option ArchRow → Option Bool).
func (t *giTr) helper(c *ast.CallExpr) (name, kind string) {
	id, ok := c.Fun.(*ast.Ident)
	if !ok || len(c.Args) != 1 {
		return "", ""
	}
	fn, ok := t.p.TypesInfo.Uses[id].(*types.Func)
	if !ok || fn.Pkg() != t.p.Types || fn.Exported() {
		return "", ""
	}
	sig := fn.Type().(*types.Signature)
	if sig.Recv() != nil || sig.Params().Len() != 1 || sig.Results().Len() != 1 || sig.Variadic() {
		return "", ""
	}
	pt, rt := sig.Params().At(0).Type().String(), sig.Results().At(0).Type().String()
	switch {
	case pt == "string" && rt == "string":
		kind = "str"
	case pt == "string" && rt == "bool":
		kind = "boolS"
	case isInfoPtr(pt) && rt == "bool":
		kind = "boolI"
	default:
		return "", ""
	}
	if n, done := t.helpers[fn]; done {
		return n, kind
	}
	if t.busy[fn] {
		return "", "" // recursion
	}
	fd := funcDecl(t.p, fn.Name())
	if fd == nil || fd.Body == nil || len(fd.Type.Params.List) != 1 || len(fd.Type.Params.List[0].Names) != 1 {
		return "", ""
	}
	t.busy[fn] = true
	defer delete(t.busy, fn)
	// render the body with its own view of the variables
	saved := t.snapshot()
	savedB := t.b
	t.b = strings.Builder{}
	param := fd.Type.Params.List[0].Names[0]
	pn := t.rebind(param)
	ptLean := map[string]string{"str": "String", "boolS": "String", "boolI": "Option Gen.ArchRow"}[kind]
	nNotes := len(t.notes)
	t.helperBody(fd.Body.List, 3, kind)
	body := t.b.String()
	t.b = savedB
	t.restore(saved)
	if len(t.notes) > nNotes {
		return "", "" // the helper is outside the subset: the call stays unsupported (notes explain why)
	}
	hn := "h_" + leanTargetIdent(fn.Name())
	t.prelude = append(t.prelude, fmt.Sprintf("  let %s := fun (%s : %s) =>  -- func %s\n%s", hn, pn, ptLean, fn.Name(), body))
	t.helpers[fn] = hn
	return hn, kind
}

// helperBody renders the statements of a helper as one expression: a String for kind "str", an
// `Option Bool` for the boolean kinds.  Subset: `if c { … } [else { … }]` with returns on every path,
// switch (desugared), string assignments, `return e`.
func (t *giTr) helperBody(list []ast.Stmt, indent int, kind string) {
	if len(list) == 0 {
		t.notes = append(t.notes, "GetInfo helper: a path ends without return")
		t.line(indent, "default")
		return
	}
	st, rest := list[0], list[1:]
	if sw, isSwitch := st.(*ast.SwitchStmt); isSwitch {
		if is, ok := desugarSwitch(sw); ok {
			st = is
		}
	}
	switch x := st.(type) {
	case *ast.ReturnStmt:
		if len(x.Results) == 1 {
			if kind == "str" {
				if v, err := t.str(x.Results[0]); err == nil {
					t.line(indent, "%s", v)
					return
				}
			} else if c, err := t.cond(x.Results[0]); err == nil {
				t.line(indent, "%s", c)
				return
			}
		}
		t.notes = append(t.notes, "GetInfo helper: return outside the subset: "+srcText(t.p, x))
		t.line(indent, "default")
	case *ast.BlockStmt:
		t.helperBody(append(append([]ast.Stmt{}, x.List...), rest...), indent, kind)
	case *ast.AssignStmt:
		if len(x.Lhs) == 1 && len(x.Rhs) == 1 {
			if id, ok := x.Lhs[0].(*ast.Ident); ok && t.typeOf(id) == "string" {
				if v, err := t.str(x.Rhs[0]); err == nil {
					t.line(indent, "let %s := %s", t.rebind(id), v)
					t.helperBody(rest, indent, kind)
					return
				}
			}
		}
		t.notes = append(t.notes, "GetInfo helper: assignment outside the subset: "+srcText(t.p, x))
		t.line(indent, "default")
	case *ast.IfStmt:
		if x.Init != nil {
			t.notes = append(t.notes, "GetInfo helper: if-init outside the subset")
			t.line(indent, "default")
			return
		}
		c, err := t.cond(x.Cond)
		if err != nil {
			t.notes = append(t.notes, "GetInfo helper: "+err.Error())
			t.line(indent, "default")
			return
		}
		thenList := append([]ast.Stmt{}, x.Body.List...)
		if !terminates(thenList) {
			thenList = append(thenList, rest...)
		}
		var elseList []ast.Stmt
		switch e := x.Else.(type) {
		case nil:
			elseList = rest
		case *ast.BlockStmt:
			elseList = append([]ast.Stmt{}, e.List...)
			if !terminates(elseList) {
				elseList = append(elseList, rest...)
			}
		case *ast.IfStmt:
			elseList = []ast.Stmt{e}
		}
		saved := t.snapshot()
		if kind == "str" {
			// conditions inside a string helper are comparisons of strings: they cannot panic
			t.line(indent, "(match %s with", c)
			t.line(indent, "| some true =>")
			t.helperBody(thenList, indent+2, kind)
			t.restore(saved)
			t.line(indent, "| _ =>")
			t.helperBody(elseList, indent+2, kind)
			t.restore(saved)
			t.line(indent, ")")
		} else {
			t.line(indent, "(match %s with", c)
			t.line(indent, "| none => none")
			t.line(indent, "| some true =>")
			t.helperBody(thenList, indent+2, kind)
			t.restore(saved)
			t.line(indent, "| some false =>")
			t.helperBody(elseList, indent+2, kind)
			t.restore(saved)
			t.line(indent, ")")
		}
	default:
		t.notes = append(t.notes, "GetInfo helper: statement outside the subset: "+srcText(t.p, st))
		t.line(indent, "default")
	}
}

func calleeFullName(p *packages.Package, c *ast.CallExpr) string {
	switch f := c.Fun.(type) {
	case *ast.SelectorExpr:
		if fn, ok := p.TypesInfo.Uses[f.Sel].(*types.Func); ok {
			return fn.FullName()
		}
	case *ast.Ident:
		if fn, ok := p.TypesInfo.Uses[f].(*types.Func); ok {
			return fn.FullName()
		}
		return f.Name
	}
	return ""
}

// nat renders an integer-valued expression as `Option Nat`.
func (t *giTr) nat(e ast.Expr) (string, error) {
	if tv, ok := t.p.TypesInfo.Types[e]; ok && tv.Value != nil && tv.Value.Kind() == constant.Int {
		if v, exact := constant.Uint64Val(tv.Value); exact {
			return fmt.Sprintf("(some %d)", v), nil
		}
	}
	if c, ok := ast.Unparen(e).(*ast.CallExpr); ok && exprText(c.Fun) == "len" && len(c.Args) == 1 {
		if sel, ok := ast.Unparen(c.Args[0]).(*ast.SelectorExpr); ok {
			if id, ok := sel.X.(*ast.Ident); ok && isInfoPtr(t.typeOf(id)) {
				switch sel.Sel.Name {
				case "SyscallNames":
					return fmt.Sprintf("(Arch.lenNames %s)", t.ident(id, false)), nil
				case "SyscallNumbers":
					return fmt.Sprintf("(Arch.lenNumbers %s)", t.ident(id, false)), nil
				}
			}
		}
	}
	return "", giUnsupported{exprText(e)}
}

// cond renders a condition as `Option Bool` (none = the evaluation panics).
func (t *giTr) cond(e ast.Expr) (string, error) {
	if tv, ok := t.p.TypesInfo.Types[e]; ok && tv.Value != nil && tv.Value.Kind() == constant.Bool {
		return fmt.Sprintf("(some %v)", constant.BoolVal(tv.Value)), nil
	}
	switch x := ast.Unparen(e).(type) {
	case *ast.CallExpr:
		if h, kind := t.helper(x); h != "" {
			switch kind {
			case "boolS":
				if a, err := t.str(x.Args[0]); err == nil {
					return fmt.Sprintf("(%s %s)", h, a), nil
				}
			case "boolI":
				if id, ok := ast.Unparen(x.Args[0]).(*ast.Ident); ok && isInfoPtr(t.typeOf(id)) {
					return fmt.Sprintf("(%s %s)", h, t.ident(id, false)), nil
				}
			}
		}
	case *ast.Ident:
		if t.typeOf(x) == "bool" {
			if x.Name == "true" || x.Name == "false" {
				return fmt.Sprintf("(some %s)", x.Name), nil
			}
			return fmt.Sprintf("(some %s)", t.ident(x, false)), nil
		}
	case *ast.UnaryExpr:
		if x.Op == token.NOT {
			c, err := t.cond(x.X)
			if err != nil {
				return "", err
			}
			return fmt.Sprintf("(Arch.notS %s)", c), nil
		}
	case *ast.BinaryExpr:
		switch x.Op {
		case token.LAND, token.LOR:
			a, err := t.cond(x.X)
			if err != nil {
				return "", err
			}
			b, err := t.cond(x.Y)
			if err != nil {
				return "", err
			}
			op := "Arch.andS"
			if x.Op == token.LOR {
				op = "Arch.orS"
			}
			return fmt.Sprintf("(%s %s %s)", op, a, b), nil
		case token.EQL, token.NEQ, token.LSS, token.GTR, token.LEQ, token.GEQ:
			lt, rt := t.typeOf(x.X), t.typeOf(x.Y)
			neg := x.Op == token.NEQ
			wrap := func(s string) string {
				if neg {
					return fmt.Sprintf("(Arch.notS %s)", s)
				}
				return s
			}
			// pointer against nil
			if x.Op == token.EQL || x.Op == token.NEQ {
				if id, ok := ast.Unparen(x.X).(*ast.Ident); ok && isInfoPtr(lt) && exprText(x.Y) == "nil" {
					return wrap(fmt.Sprintf("(some (%s).isNone)", t.ident(id, false))), nil
				}
				if id, ok := ast.Unparen(x.Y).(*ast.Ident); ok && isInfoPtr(rt) && exprText(x.X) == "nil" {
					return wrap(fmt.Sprintf("(some (%s).isNone)", t.ident(id, false))), nil
				}
				if (lt == "string" || lt == "untyped string") && (rt == "string" || rt == "untyped string") {
					a, err := t.str(x.X)
					if err != nil {
						return "", err
					}
					b, err := t.str(x.Y)
					if err != nil {
						return "", err
					}
					return wrap(fmt.Sprintf("(some (decide (%s = %s)))", a, b)), nil
				}
			}
			a, err := t.nat(x.X)
			if err != nil {
				return "", err
			}
			b, err := t.nat(x.Y)
			if err != nil {
				return "", err
			}
			op := map[token.Token]string{token.EQL: "=", token.NEQ: "≠", token.LSS: "<", token.GTR: ">", token.LEQ: "≤", token.GEQ: "≥"}[x.Op]
			return fmt.Sprintf("(Arch.cmpS (fun a b => decide (a %s b)) %s %s)", op, a, b), nil
		}
	}
	return "", giUnsupported{exprText(e)}
}

func (t *giTr) opaque(indent int, n ast.Node, why string) {
	txt := srcText(t.p, n)
	t.notes = append(t.notes, "GetInfo: "+why+": "+txt)
	t.line(indent, "Arch.Res.opaque %s", leanString(txt))
}

// mapLookup recognises `v, ok := arches[e]`.
func (t *giTr) mapLookup(a *ast.AssignStmt, indent int) bool {
	if len(a.Lhs) != 2 || len(a.Rhs) != 1 {
		return false
	}
	ix, ok := a.Rhs[0].(*ast.IndexExpr)
	if !ok {
		return false
	}
	m, ok := ix.X.(*ast.Ident)
	if !ok || m.Name != "arches" {
		return false
	}
	if _, isPkgVar := t.p.TypesInfo.ObjectOf(m).(*types.Var); !isPkgVar || t.p.TypesInfo.ObjectOf(m).Parent() != t.p.Types.Scope() {
		return false
	}
	key, err := t.str(ix.Index)
	if err != nil {
		return false
	}
	v, okv := a.Lhs[0].(*ast.Ident)
	f, okf := a.Lhs[1].(*ast.Ident)
	if !okv || !okf {
		return false
	}
	vn, fn := "_", "_"
	if v.Name != "_" {
		vn = t.bind(v, a.Tok == token.DEFINE)
	}
	if f.Name != "_" {
		fn = t.bind(f, a.Tok == token.DEFINE)
	}
	t.line(indent, "let (%s, %s) := Arch.lookupArch %s  -- %s", vn, fn, key, srcText(t.p, a))
	return true
}

// bind returns the Lean name for an assigned variable (a redefinition shadows by `let`).
func (t *giTr) bind(id *ast.Ident, define bool) string {
	return t.ident(id, define)
}

func terminates(list []ast.Stmt) bool {
	if len(list) == 0 {
		return false
	}
	switch x := list[len(list)-1].(type) {
	case *ast.ReturnStmt:
		return true
	case *ast.IfStmt:
		if x.Else == nil {
			return false
		}
		eb, ok := x.Else.(*ast.BlockStmt)
		if !ok {
			if ei, ok := x.Else.(*ast.IfStmt); ok {
				return terminates(x.Body.List) && terminates([]ast.Stmt{ei})
			}
			return false
		}
		return terminates(x.Body.List) && terminates(eb.List)
	}
	return false
}

func (t *giTr) stmts(list []ast.Stmt, indent int) {
	if len(list) == 0 {
		// falling off the end of a function with results does not compile
		t.line(indent, "Arch.Res.opaque \"end of function\"")
		t.notes = append(t.notes, "GetInfo: a path ends without return")
		return
	}
	st, rest := list[0], list[1:]
	if sw, isSwitch := st.(*ast.SwitchStmt); isSwitch {
		if is, ok := desugarSwitch(sw); ok {
			st = is
			if blk, isBlk := is.(*ast.BlockStmt); isBlk && len(blk.List) == 0 {
				t.stmts(rest, indent)
				return
			}
		}
	}
	switch x := st.(type) {
	case *ast.ReturnStmt:
		if len(x.Results) != 2 {
			t.opaque(indent, x, "return outside the subset")
			return
		}
		r0, r1 := ast.Unparen(x.Results[0]), ast.Unparen(x.Results[1])
		if exprText(r1) == "nil" {
			if id, ok := r0.(*ast.Ident); ok && isInfoPtr(t.typeOf(id)) {
				t.line(indent, "Arch.Res.ok %s  -- %s", t.ident(id, false), srcText(t.p, x))
				return
			}
			if exprText(r0) == "nil" {
				t.line(indent, "Arch.Res.ok none  -- %s", srcText(t.p, x))
				return
			}
		}
		if exprText(r0) == "nil" {
			if c, ok := r1.(*ast.CallExpr); ok && calleeFullName(t.p, c) == "fmt.Errorf" && len(c.Args) == 2 {
				if tv, ok := t.p.TypesInfo.Types[c.Args[0]]; ok && tv.Value != nil && constant.StringVal(tv.Value) == "unsupported arch: %v" {
					if a, err := t.str(c.Args[1]); err == nil {
						t.line(indent, "Arch.Res.err (Arch.Err.unsupported %s)  -- %s", a, srcText(t.p, x))
						return
					}
				}
			}
		}
		t.opaque(indent, x, "return outside the subset")
	case *ast.AssignStmt:
		if t.mapLookup(x, indent) {
			t.stmts(rest, indent)
			return
		}
		if len(x.Lhs) == 1 && len(x.Rhs) == 1 && (x.Tok == token.ASSIGN || x.Tok == token.DEFINE) {
			if id, ok := x.Lhs[0].(*ast.Ident); ok {
				// v := arches[key]  (nil when the key is absent)
				if ix, isIx := x.Rhs[0].(*ast.IndexExpr); isIx && isInfoPtr(t.typeOf(id)) {
					if m, isID := ix.X.(*ast.Ident); isID && m.Name == "arches" && t.p.TypesInfo.ObjectOf(m) != nil && t.p.TypesInfo.ObjectOf(m).Parent() == t.p.Types.Scope() {
						if key, err := t.str(ix.Index); err == nil {
							t.line(indent, "let (%s, _) := Arch.lookupArch %s  -- %s", t.rebind(id), key, srcText(t.p, x))
							t.stmts(rest, indent)
							return
						}
					}
				}
				switch {
				case t.typeOf(id) == "string":
					if v, err := t.str(x.Rhs[0]); err == nil {
						t.line(indent, "let %s := %s  -- %s", t.rebind(id), v, srcText(t.p, x))
						t.stmts(rest, indent)
						return
					}
				case t.typeOf(id) == "bool":
					if c, err := t.cond(x.Rhs[0]); err == nil {
						// a boolean variable holds a value: a panicking evaluation ends the function
						t.line(indent, "match %s with  -- %s", c, srcText(t.p, x))
						t.line(indent, "| none => Arch.Res.panic")
						t.line(indent, "| some %s =>", t.rebind(id))
						t.stmts(rest, indent+1)
						return
					}
				}
			}
		}
		t.opaque(indent, x, "assignment outside the subset")
	case *ast.IfStmt:
		if x.Init != nil {
			inner := *x
			inner.Init = nil
			if a, ok := x.Init.(*ast.AssignStmt); ok && t.mapLookup(a, indent) {
				t.stmts(append([]ast.Stmt{&inner}, rest...), indent)
				return
			}
			if a, ok := x.Init.(*ast.AssignStmt); ok {
				t.stmts(append([]ast.Stmt{a, &inner}, rest...), indent)
				return
			}
			t.opaque(indent, x, "if-init outside the subset")
			return
		}
		c, err := t.cond(x.Cond)
		if err != nil {
			t.opaque(indent, x, err.Error())
			return
		}
		thenList := append([]ast.Stmt{}, x.Body.List...)
		if !terminates(thenList) {
			thenList = append(thenList, rest...)
		}
		var elseList []ast.Stmt
		switch e := x.Else.(type) {
		case nil:
			elseList = rest
		case *ast.BlockStmt:
			elseList = append([]ast.Stmt{}, e.List...)
			if !terminates(elseList) {
				elseList = append(elseList, rest...)
			}
		case *ast.IfStmt:
			elseList = []ast.Stmt{e}
			if !terminates(elseList) {
				elseList = append(elseList, rest...)
			}
		}
		// the branches are rendered with their own view of the variables: names assigned in one
		// branch are rebound by `let` inside it
		saved := t.snapshot()
		t.line(indent, "Arch.ite3 %s  -- if %s", c, exprText(x.Cond))
		t.line(indent+1, "(")
		t.stmts(thenList, indent+2)
		t.line(indent+1, ")")
		t.restore(saved)
		t.line(indent+1, "(")
		t.stmts(elseList, indent+2)
		t.line(indent+1, ")")
		t.restore(saved)
	case *ast.DeclStmt:
		// `var key string`
		if gd, ok := x.Decl.(*ast.GenDecl); ok && gd.Tok == token.VAR {
			good := true
			for _, sp := range gd.Specs {
				vs, ok := sp.(*ast.ValueSpec)
				if !ok || len(vs.Values) > 0 && len(vs.Values) != len(vs.Names) {
					good = false
					break
				}
				for i, n := range vs.Names {
					if t.typeOf(n) != "string" {
						good = false
						break
					}
					v := "\"\""
					if len(vs.Values) > 0 {
						var err error
						if v, err = t.str(vs.Values[i]); err != nil {
							good = false
							break
						}
					}
					t.line(indent, "let %s := %s  -- %s", t.rebind(n), v, srcText(t.p, x))
				}
			}
			if good {
				t.stmts(rest, indent)
				return
			}
		}
		t.opaque(indent, x, "declaration outside the subset")
	default:
		t.opaque(indent, st, "statement outside the subset")
	}
}

// rebind gives an assigned variable a fresh Lean name (assignment = shadowing `let`).
func (t *giTr) rebind(id *ast.Ident) string {
	obj := t.p.TypesInfo.ObjectOf(id)
	base := "v_" + leanTargetIdent(id.Name)
	n := base
	if k := t.used[base]; k > 0 {
		n = fmt.Sprintf("%s_%d", base, k)
	}
	t.used[base]++
	if obj != nil {
		t.names[obj] = n
	}
	return n
}

func (t *giTr) snapshot() map[types.Object]string {
	m := map[types.Object]string{}
	for k, v := range t.names {
		m[k] = v
	}
	return m
}

func (t *giTr) restore(m map[types.Object]string) {
	t.names = map[types.Object]string{}
	for k, v := range m {
		t.names[k] = v
	}
}

func genGetInfo(host *target, facts map[string]interface{}) error {
	var b strings.Builder
	b.WriteString("import Seccomp.Model.Arch\n")
	b.WriteString("/-! GENERATED by vextract from /repo/arch/info.go — do not edit.  Regenerated on every check run;\n    `C12.getinfo_tie` proves this rendering equal to the hand-written reference `Arch.getInfo`. -/\n\nnamespace Gen\n\n")
	p := host.pkgs["arch"]
	var notes []string
	stub := func(why string) {
		notes = append(notes, "GetInfo: "+why)
		fmt.Fprintf(&b, "/-- `GetInfo`: %s -/\ndef getInfoSkel (goarch : String) (name : String) : Arch.Res := Arch.Res.opaque %s\n\n", why, leanString(why))
	}
	var fd *ast.FuncDecl
	if p != nil {
		fd = funcDecl(p, "GetInfo")
	}
	switch {
	case p == nil:
		stub("package arch not loaded")
	case fd == nil || fd.Body == nil:
		stub("function not found")
	case fd.Type.Params == nil || len(fd.Type.Params.List) != 1 || len(fd.Type.Params.List[0].Names) != 1 || exprText(fd.Type.Params.List[0].Type) != "string" ||
		fd.Type.Results == nil || len(fd.Type.Results.List) != 2 || exprText(fd.Type.Results.List[0].Type) != "*Info" || exprText(fd.Type.Results.List[1].Type) != "error":
		stub("signature outside the subset")
	default:
		t := &giTr{p: p, names: map[types.Object]string{}, used: map[string]int{}, helpers: map[*types.Func]string{}, busy: map[*types.Func]bool{}}
		param := fd.Type.Params.List[0].Names[0]
		pn := t.rebind(param)
		t.stmts(fd.Body.List, 1)
		notes = append(notes, t.notes...)
		body := t.b.String()
		t.b = strings.Builder{}
		fmt.Fprintf(&t.b, "/-- `GetInfo` (arch/info.go); `goarch` stands for runtime.GOARCH -/\ndef getInfoSkel (goarch : String) (name : String) : Arch.Res :=\n")
		for _, h := range t.prelude {
			t.b.WriteString(h)
		}
		fmt.Fprintf(&t.b, "  let %s := name\n", pn)
		t.b.WriteString(body)
		b.WriteString(t.b.String())
		b.WriteString("\n")
		facts["getInfoSkeleton"] = t.b.String()
	}
	b.WriteString("/-- statements the translator could not render (empty = the function is inside the subset) -/\n")
	fmt.Fprintf(&b, "def getInfoNotes : List String := [%s]\n\nend Gen\n", joinLeanStrings(notes))
	writeIfChanged("GetInfo.lean", b.String())
	facts["getInfoNotes"] = notes
	return nil
}
