package main

// genNames emits Gen/Names.lean (C13, C14): the name tables of filter.go, the shape of
// the loops that print and parse them, the struct tags of the configuration types, the
// Action/FilterFlag constants, and the lower-case mapping of the Go toolchain that built
// this translator (the same toolchain builds the code under test in the same run).

import (
	"fmt"
	"go/ast"
	"go/types"
	"reflect"
	"runtime"
	"strconv"
	"strings"
	"unicode"

	"golang.org/x/tools/go/packages"
)

type nameEntry struct {
	Key  uint64 `json:"key"`
	Expr string `json:"expr"` // source text of the key
	Name string `json:"name"`
}

type rangeSite struct {
	Func string `json:"func"`
	Pos  string `json:"pos"`
	Kind string `json:"kind"` // map | slice | array | string | chan | int | func | other
	Expr string `json:"expr"` // source text of the range expression
}

type fieldTags struct {
	Name     string  `json:"name"`
	Exported bool    `json:"exported"`
	Type     string  `json:"type"`
	Config   *string `json:"config"`
	JSON     *string `json:"json"`
	YAML     *string `json:"yaml"`
	Validate *string `json:"validate"`
	Default  *string `json:"default"`
}

type structTags struct {
	Struct string      `json:"struct"`
	Fields []fieldTags `json:"fields"`
}

type unpackShape struct {
	Func           string   `json:"func"`
	RangeKind      string   `json:"range_kind"`       // kind of the (single) range loop
	RangeExpr      string   `json:"range_expr"`       // what it ranges over
	LowersInput    bool     `json:"lowers_input"`     // strings.ToLower applied to the string parameter
	LowersName     bool     `json:"lowers_name"`      // strings.ToLower applied to the table entry
	Comparisons    []string `json:"comparisons"`      // the == comparisons inside the loop
	TailIsError    bool     `json:"tail_is_error"`    // the statement after the loop is `return <error constructor>(…)`
	Tail           string   `json:"tail"`             // source text of the last statement
	StoresInLoop   []string `json:"stores_in_loop"`   // stores through the receiver inside the loop
	StoresOutside  []string `json:"stores_outside"`   // stores through the receiver outside the loop
	ToLowerCallees []string `json:"to_lower_callees"` // fully qualified callee of each lower-casing call
}

type namedConst struct {
	Name string `json:"name"`
	Val  uint64 `json:"val"`
}

type lowerRange struct {
	Lo  uint32 `json:"lo"`
	Hi  uint32 `json:"hi"`
	Add uint32 `json:"add"`
	Sub uint32 `json:"sub"`
	UL  bool   `json:"ul"`
}

func typeKind(t types.Type) string {
	if t == nil {
		return "other"
	}
	switch u := t.Underlying().(type) {
	case *types.Map:
		return "map"
	case *types.Slice:
		return "slice"
	case *types.Array:
		return "array"
	case *types.Pointer:
		if _, ok := u.Elem().Underlying().(*types.Array); ok {
			return "array"
		}
		return "other"
	case *types.Chan:
		return "chan"
	case *types.Signature:
		return "func"
	case *types.Basic:
		if u.Info()&types.IsString != 0 {
			return "string"
		}
		if u.Info()&types.IsInteger != 0 {
			return "int"
		}
	}
	return "other"
}

func posOf(p *packages.Package, n ast.Node) string {
	pos := p.Fset.Position(n.Pos())
	name := pos.Filename
	if i := strings.LastIndex(name, "/"); i >= 0 {
		name = name[i+1:]
	}
	return fmt.Sprintf("%s:%d", name, pos.Line)
}

// mapLiteral evaluates a `map[K]string{const: "name", …}` package variable in literal order.
func mapLiteral(p *packages.Package, name string) ([]nameEntry, error) {
	cl, ok := pkgVarInit(p, name).(*ast.CompositeLit)
	if !ok {
		return nil, fmt.Errorf("%s: composite literal not found", name)
	}
	if typeKind(p.TypesInfo.TypeOf(cl)) != "map" {
		return nil, fmt.Errorf("%s: is not a map literal", name)
	}
	var out []nameEntry
	for _, el := range cl.Elts {
		kv, ok := el.(*ast.KeyValueExpr)
		if !ok {
			return nil, fmt.Errorf("%s: element is not key: value", name)
		}
		k, ok1 := constUint(p, kv.Key)
		v, ok2 := constString(p, kv.Value)
		if !ok1 || !ok2 {
			return nil, fmt.Errorf("%s: non-constant entry %s", name, exprText(el))
		}
		out = append(out, nameEntry{k, exprText(kv.Key), v})
	}
	return out, nil
}

func rangeSites(p *packages.Package, fn string) []rangeSite {
	fd := funcDecl(p, fn)
	var out []rangeSite
	if fd == nil || fd.Body == nil {
		return out
	}
	ast.Inspect(fd.Body, func(n ast.Node) bool {
		if rs, ok := n.(*ast.RangeStmt); ok {
			out = append(out, rangeSite{fn, posOf(p, rs), typeKind(p.TypesInfo.TypeOf(rs.X)), exprText(rs.X)})
		}
		return true
	})
	return out
}

// calleeName returns the qualified name of a statically resolved callee ("strings.ToLower").
func calleeName(p *packages.Package, call *ast.CallExpr) string {
	var id *ast.Ident
	switch f := call.Fun.(type) {
	case *ast.Ident:
		id = f
	case *ast.SelectorExpr:
		id = f.Sel
	default:
		return ""
	}
	obj := p.TypesInfo.Uses[id]
	if obj == nil {
		return ""
	}
	switch o := obj.(type) {
	case *types.Func:
		if o.Pkg() != nil {
			if sig, ok := o.Type().(*types.Signature); ok && sig.Recv() != nil {
				return "(" + types.TypeString(sig.Recv().Type(), nil) + ")." + o.Name()
			}
			return o.Pkg().Path() + "." + o.Name()
		}
		return o.Name()
	case *types.Builtin:
		return o.Name()
	}
	return ""
}

func usesObject(p *packages.Package, e ast.Expr, objs map[types.Object]bool) bool {
	found := false
	ast.Inspect(e, func(n ast.Node) bool {
		if id, ok := n.(*ast.Ident); ok {
			if o := p.TypesInfo.Uses[id]; o != nil && objs[o] {
				found = true
			}
		}
		return true
	})
	return found
}

func isErrorCtor(name string) bool {
	return name == "fmt.Errorf" || name == "errors.New"
}

func unpackShapeOf(p *packages.Package, fn string) (unpackShape, error) {
	sh := unpackShape{Func: fn, Comparisons: []string{}, StoresInLoop: []string{}, StoresOutside: []string{}, ToLowerCallees: []string{}}
	fd := funcDecl(p, fn)
	if fd == nil || fd.Body == nil {
		return sh, fmt.Errorf("%s not found", fn)
	}
	params := map[types.Object]bool{}
	for _, f := range fd.Type.Params.List {
		for _, n := range f.Names {
			if o := p.TypesInfo.Defs[n]; o != nil {
				params[o] = true
			}
		}
	}
	recv := map[types.Object]bool{}
	if fd.Recv != nil {
		for _, f := range fd.Recv.List {
			for _, n := range f.Names {
				if o := p.TypesInfo.Defs[n]; o != nil {
					recv[o] = true
				}
			}
		}
	}
	var loops []*ast.RangeStmt
	ast.Inspect(fd.Body, func(n ast.Node) bool {
		if rs, ok := n.(*ast.RangeStmt); ok {
			loops = append(loops, rs)
		}
		return true
	})
	loopVars := map[types.Object]bool{}
	if len(loops) == 1 {
		rs := loops[0]
		sh.RangeKind = typeKind(p.TypesInfo.TypeOf(rs.X))
		sh.RangeExpr = exprText(rs.X)
		for _, e := range []ast.Expr{rs.Key, rs.Value} {
			if id, ok := e.(*ast.Ident); ok && id.Name != "_" {
				if o := p.TypesInfo.Defs[id]; o != nil {
					loopVars[o] = true
				}
			}
		}
	} else {
		sh.RangeKind = fmt.Sprintf("%d-loops", len(loops))
	}
	inLoop := func(n ast.Node) bool {
		for _, l := range loops {
			if n.Pos() >= l.Pos() && n.End() <= l.End() {
				return true
			}
		}
		return false
	}
	ast.Inspect(fd.Body, func(n ast.Node) bool {
		switch x := n.(type) {
		case *ast.CallExpr:
			name := calleeName(p, x)
			if name == "strings.ToLower" || name == "strings.ToLowerSpecial" || name == "strings.ToUpper" || name == "strings.EqualFold" ||
				name == "bytes.ToLower" {
				sh.ToLowerCallees = append(sh.ToLowerCallees, name)
			}
			if name == "strings.ToLower" && len(x.Args) == 1 {
				if usesObject(p, x.Args[0], params) {
					sh.LowersInput = true
				}
				if usesObject(p, x.Args[0], loopVars) {
					sh.LowersName = true
				}
			}
		case *ast.BinaryExpr:
			if x.Op.String() == "==" && inLoop(x) {
				sh.Comparisons = append(sh.Comparisons, exprText(x))
			}
		case *ast.AssignStmt:
			for _, l := range x.Lhs {
				if root := rootIdent(l); root != nil && recv[p.TypesInfo.Uses[root]] {
					if _, plain := l.(*ast.Ident); plain {
						continue // re-binding the receiver variable itself
					}
					txt := exprText(l) + " " + x.Tok.String() + " " + joinExprs(x.Rhs)
					if inLoop(x) {
						sh.StoresInLoop = append(sh.StoresInLoop, txt)
					} else {
						sh.StoresOutside = append(sh.StoresOutside, txt)
					}
				}
			}
		}
		return true
	})
	if k := len(fd.Body.List); k > 0 {
		last := fd.Body.List[k-1]
		sh.Tail = srcText(p, last)
		if rs, ok := last.(*ast.ReturnStmt); ok && len(rs.Results) == 1 {
			if call, ok := rs.Results[0].(*ast.CallExpr); ok && isErrorCtor(calleeName(p, call)) {
				sh.TailIsError = true
			}
		}
	}
	return sh, nil
}

func joinExprs(es []ast.Expr) string {
	var s []string
	for _, e := range es {
		s = append(s, exprText(e))
	}
	return strings.Join(s, ", ")
}

// rootIdent strips selectors, indexing, slicing, dereferences and parentheses.
func rootIdent(e ast.Expr) *ast.Ident {
	for {
		switch x := e.(type) {
		case *ast.Ident:
			return x
		case *ast.SelectorExpr:
			e = x.X
		case *ast.IndexExpr:
			e = x.X
		case *ast.SliceExpr:
			e = x.X
		case *ast.StarExpr:
			e = x.X
		case *ast.ParenExpr:
			e = x.X
		case *ast.TypeAssertExpr:
			e = x.X
		default:
			return nil
		}
	}
}

func optTag(tag reflect.StructTag, key string) *string {
	if v, ok := tag.Lookup(key); ok {
		return &v
	}
	return nil
}

func structTagsOf(p *packages.Package, name string) (structTags, error) {
	st := structTags{Struct: name}
	for _, f := range p.Syntax {
		for _, d := range f.Decls {
			gd, ok := d.(*ast.GenDecl)
			if !ok {
				continue
			}
			for _, s := range gd.Specs {
				ts, ok := s.(*ast.TypeSpec)
				if !ok || ts.Name.Name != name {
					continue
				}
				str, ok := ts.Type.(*ast.StructType)
				if !ok {
					return st, fmt.Errorf("%s is not a struct", name)
				}
				for _, fl := range str.Fields.List {
					tag := reflect.StructTag("")
					if fl.Tag != nil {
						t, err := strconv.Unquote(fl.Tag.Value)
						if err != nil {
							return st, fmt.Errorf("%s: bad tag %s", name, fl.Tag.Value)
						}
						tag = reflect.StructTag(t)
					}
					names := fl.Names
					if len(names) == 0 { // embedded field
						names = []*ast.Ident{{Name: exprText(fl.Type)}}
					}
					for _, n := range names {
						st.Fields = append(st.Fields, fieldTags{
							Name: n.Name, Exported: ast.IsExported(n.Name), Type: exprText(fl.Type),
							Config: optTag(tag, "config"), JSON: optTag(tag, "json"), YAML: optTag(tag, "yaml"),
							Validate: optTag(tag, "validate"), Default: optTag(tag, "default"),
						})
					}
				}
				return st, nil
			}
		}
	}
	return st, fmt.Errorf("struct %s not found", name)
}

// constsOfType lists the package-level constants of the named type in source order.
func constsOfType(p *packages.Package, typeName string) []namedConst {
	var out []namedConst
	for _, f := range p.Syntax {
		for _, d := range f.Decls {
			gd, ok := d.(*ast.GenDecl)
			if !ok {
				continue
			}
			for _, s := range gd.Specs {
				vs, ok := s.(*ast.ValueSpec)
				if !ok {
					continue
				}
				for _, n := range vs.Names {
					c, ok := p.TypesInfo.Defs[n].(*types.Const)
					if !ok {
						continue
					}
					named, ok := c.Type().(*types.Named)
					if !ok || named.Obj().Name() != typeName || named.Obj().Pkg() != p.Types {
						continue
					}
					if v, ok := constOf(c); ok {
						out = append(out, namedConst{n.Name, v})
					}
				}
			}
		}
	}
	return out
}

// lowerRanges renders unicode.CaseRanges as far as unicode.ToLower uses it: the ranges whose
// lower-case delta is not zero.  `ul` marks the alternating Upper/Lower sequences.
func lowerRanges() []lowerRange {
	var out []lowerRange
	for _, cr := range unicode.CaseRanges {
		d := cr.Delta[unicode.LowerCase]
		switch {
		case d == 0:
		case d > unicode.MaxRune:
			out = append(out, lowerRange{Lo: cr.Lo, Hi: cr.Hi, UL: true})
		case d > 0:
			out = append(out, lowerRange{Lo: cr.Lo, Hi: cr.Hi, Add: uint32(d)})
		default:
			out = append(out, lowerRange{Lo: cr.Lo, Hi: cr.Hi, Sub: uint32(-d)})
		}
	}
	return out
}

func leanOpt(s *string) string {
	if s == nil {
		return "none"
	}
	return "(some " + leanString(*s) + ")"
}

func leanBool(b bool) string {
	if b {
		return "true"
	}
	return "false"
}

func leanStrList(xs []string) string {
	q := make([]string, len(xs))
	for i, x := range xs {
		q[i] = leanString(x)
	}
	return "[" + strings.Join(q, ", ") + "]"
}

func genNames(t *target, facts map[string]interface{}) error {
	p := t.pkgs[""]
	var b strings.Builder
	b.WriteString("/-! GENERATED by vextract from /repo/filter.go, /repo/constants.go (production view, linux/amd64) and the\n" +
		"    unicode tables of the Go toolchain (" + runtime.Version() + ") — do not edit.  Regenerated on every check run. -/\n\nnamespace Gen\n\n")

	// 1. the two name maps, literal order
	actions, err := mapLiteral(p, "actionNames")
	if err != nil {
		return err
	}
	flags, err := mapLiteral(p, "filterFlagNames")
	if err != nil {
		return err
	}
	writeNames := func(name, doc string, es []nameEntry) {
		fmt.Fprintf(&b, "/-- %s -/\ndef %s : List (Nat × String) := [\n", doc, name)
		for i, e := range es {
			sep := ","
			if i == len(es)-1 {
				sep = ""
			}
			fmt.Fprintf(&b, "  (0x%x, %s)%s  -- %s\n", e.Key, leanString(e.Name), sep, e.Expr)
		}
		b.WriteString("]\n\n")
	}
	writeNames("actionNames", "`actionNames` (filter.go): evaluated keys and names in literal order", actions)
	writeNames("filterFlagNames", "`filterFlagNames` (filter.go)", flags)

	// 2. FilterFlag.String: what its loops range over
	fsRanges := rangeSites(p, "FilterFlag.String")
	overMap := false
	var flagOrder []uint64
	flagOrderKnown := false
	if fd := funcDecl(p, "FilterFlag.String"); fd != nil {
		ast.Inspect(fd.Body, func(n ast.Node) bool {
			rs, ok := n.(*ast.RangeStmt)
			if !ok {
				return true
			}
			kind := typeKind(p.TypesInfo.TypeOf(rs.X))
			if kind == "map" {
				overMap = true
			}
			if cl, ok := rs.X.(*ast.CompositeLit); ok && (kind == "slice" || kind == "array") && !flagOrderKnown {
				all := true
				var vals []uint64
				for _, el := range cl.Elts {
					v, ok := constUint(p, el)
					if !ok {
						all = false
						break
					}
					vals = append(vals, v)
				}
				if all {
					flagOrder, flagOrderKnown = vals, true
				}
			}
			return true
		})
	} else {
		return fmt.Errorf("FilterFlag.String not found")
	}
	b.WriteString("/-- the `range` statements of `FilterFlag.String`: (position, kind of the ranged expression, source text) -/\n")
	b.WriteString("def flagStringRanges : List (String × String × String) := [")
	for i, r := range fsRanges {
		if i > 0 {
			b.WriteString(", ")
		}
		fmt.Fprintf(&b, "(%s, %s, %s)", leanString(r.Pos), leanString(r.Kind), leanString(r.Expr))
	}
	b.WriteString("]\n\n")
	fmt.Fprintf(&b, "/-- does `FilterFlag.String` iterate over a map (go/types: the type of a `range` expression is a map)? -/\ndef flagStringRangesOverMap : Bool := %s\n\n", leanBool(overMap))
	fmt.Fprintf(&b, "/-- is the flag loop a `range` over a slice/array literal of constants? -/\ndef flagOrderKnown : Bool := %s\n\n", leanBool(flagOrderKnown))
	b.WriteString("/-- the evaluated elements of that literal, in order -/\ndef flagOrder : List Nat := [")
	for i, v := range flagOrder {
		if i > 0 {
			b.WriteString(", ")
		}
		fmt.Fprintf(&b, "0x%x", v)
	}
	b.WriteString("]\n\n")

	// 3. Operations
	var ops []string
	if cl, ok := pkgVarInit(p, "Operations").(*ast.CompositeLit); ok {
		for _, el := range cl.Elts {
			s, ok := constString(p, el)
			if !ok {
				return fmt.Errorf("Operations: non-constant element %s", exprText(el))
			}
			ops = append(ops, s)
		}
	} else {
		return fmt.Errorf("Operations literal not found")
	}
	fmt.Fprintf(&b, "/-- `Operations` (filter.go), literal order -/\ndef operations : List String := %s\n\n", leanStrList(ops))
	opConsts := []namedConst{}
	_ = opConsts
	var opConstNames, opConstVals []string
	for _, f := range p.Syntax {
		for _, d := range f.Decls {
			gd, ok := d.(*ast.GenDecl)
			if !ok {
				continue
			}
			for _, s := range gd.Specs {
				vs, ok := s.(*ast.ValueSpec)
				if !ok {
					continue
				}
				for _, n := range vs.Names {
					c, ok := p.TypesInfo.Defs[n].(*types.Const)
					if !ok {
						continue
					}
					if named, ok := c.Type().(*types.Named); ok && named.Obj().Name() == "Operation" && named.Obj().Pkg() == p.Types {
						opConstNames = append(opConstNames, n.Name)
						opConstVals = append(opConstVals, strings.Trim(c.Val().ExactString(), "\""))
					}
				}
			}
		}
	}
	b.WriteString("/-- the constants of type `Operation`: (Go identifier, value) -/\ndef operationConsts : List (String × String) := [")
	for i := range opConstNames {
		if i > 0 {
			b.WriteString(", ")
		}
		fmt.Fprintf(&b, "(%s, %s)", leanString(opConstNames[i]), leanString(opConstVals[i]))
	}
	b.WriteString("]\n\n")

	// 4. the parsers
	var shapes []unpackShape
	for _, fn := range []string{"Action.Unpack", "Operation.Unpack"} {
		sh, err := unpackShapeOf(p, fn)
		if err != nil {
			return err
		}
		shapes = append(shapes, sh)
		prefix := "actionUnpack"
		if fn == "Operation.Unpack" {
			prefix = "operationUnpack"
		}
		fmt.Fprintf(&b, "/-- `%s`: the loop ranges over a %s (`%s`) -/\ndef %sRangeKind : String := %s\n", fn, sh.RangeKind, sh.RangeExpr, prefix, leanString(sh.RangeKind))
		fmt.Fprintf(&b, "def %sRangeExpr : String := %s\n", prefix, leanString(sh.RangeExpr))
		b.WriteString("\n")
	}

	// 5. struct tags
	b.WriteString("structure FieldTags where\n  name : String\n  exported : Bool\n  goType : String\n  config : Option String\n  json : Option String\n  yaml : Option String\n  validate : Option String\n  dflt : Option String\nderiving Repr, DecidableEq\n\n")
	var allTags []structTags
	b.WriteString("/-- struct tags of the configuration types (filter.go), fields in declaration order -/\ndef structTags : List (String × List FieldTags) := [\n")
	structs := []string{"Filter", "Policy", "SyscallGroup", "NameWithConditions", "Condition"}
	for i, sn := range structs {
		st, err := structTagsOf(p, sn)
		if err != nil {
			return err
		}
		allTags = append(allTags, st)
		fmt.Fprintf(&b, "  (%s, [\n", leanString(sn))
		for j, f := range st.Fields {
			sep := ","
			if j == len(st.Fields)-1 {
				sep = ""
			}
			fmt.Fprintf(&b, "    { name := %s, exported := %s, goType := %s, config := %s, json := %s, yaml := %s, validate := %s, dflt := %s }%s\n",
				leanString(f.Name), leanBool(f.Exported), leanString(f.Type), leanOpt(f.Config), leanOpt(f.JSON), leanOpt(f.YAML),
				leanOpt(f.Validate), leanOpt(f.Default), sep)
		}
		sep := ","
		if i == len(structs)-1 {
			sep = ""
		}
		fmt.Fprintf(&b, "  ])%s\n", sep)
	}
	b.WriteString("]\n\n")

	// 6. constants
	actionConsts := constsOfType(p, "Action")
	flagConsts := constsOfType(p, "FilterFlag")
	writeConsts := func(name, doc string, cs []namedConst) {
		fmt.Fprintf(&b, "/-- %s -/\ndef %s : List (String × Nat) := [", doc, name)
		for i, c := range cs {
			if i > 0 {
				b.WriteString(", ")
			}
			fmt.Fprintf(&b, "(%s, 0x%x)", leanString(c.Name), c.Val)
		}
		b.WriteString("]\n\n")
	}
	writeConsts("actionConsts", "package-level constants of type `Action` (evaluated by go/types)", actionConsts)
	writeConsts("filterFlagConsts", "package-level constants of type `FilterFlag`", flagConsts)

	// 7. unicode.ToLower of the toolchain
	lr := lowerRanges()
	b.WriteString("/-- a range of `unicode.CaseRanges` with a non-zero lower-case delta: `ul` = alternating Upper/Lower\n    sequence, otherwise the lower-case form of `r` is `r + add - sub` -/\n")
	b.WriteString("structure LowerRange where\n  lo : Nat\n  hi : Nat\n  add : Nat\n  sub : Nat\n  ul : Bool\nderiving Repr, DecidableEq\n\n")
	fmt.Fprintf(&b, "/-- `unicode.CaseRanges` (%s) restricted to ranges that change under `unicode.ToLower`, table order -/\ndef lowerRanges : List LowerRange := [\n", runtime.Version())
	for i, r := range lr {
		sep := ","
		if i == len(lr)-1 {
			sep = ""
		}
		fmt.Fprintf(&b, "  ⟨0x%x, 0x%x, %d, %d, %s⟩%s\n", r.Lo, r.Hi, r.Add, r.Sub, leanBool(r.UL), sep)
	}
	b.WriteString("]\n\nend Gen\n")

	writeIfChanged("Names.lean", b.String())
	facts["actionNames"] = actions
	facts["filterFlagNames"] = flags
	facts["flagStringRanges"] = fsRanges
	facts["flagStringRangesOverMap"] = overMap
	facts["flagOrder"] = flagOrder
	facts["operations"] = ops
	facts["unpackShapes"] = shapes
	facts["structTags"] = allTags
	facts["actionConsts"] = actionConsts
	facts["filterFlagConsts"] = flagConsts
	facts["lowerRanges"] = len(lr)
	facts["goVersion"] = runtime.Version()
	return nil
}
