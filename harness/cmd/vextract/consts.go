package main

// Gen/Consts.lean (property C19): what the module says under every build target.
//
// For each GOOS/GOARCH of the target list the module is loaded and type-checked with
// go/packages under that build context (nothing is executed, nothing is cross-compiled).
// Emitted per target: which packages type-check (errors listed), the values (go/types
// constant evaluation) of every constant of internal/unix and of the root package's
// constants.go plus the offsets/sizes of filter.go and assembler.go, which of
// seccomp_linux.go / seccomp_unsupported.go the build context selects, and for the three
// entry points Supported / SetNoNewPrivs / LoadFilter the defining file, whether the body
// contains a call expression, the literal returned by a single `return <lit>` body and (for
// the stub file) the rendered body.
//
// Independent oracle `Gen.uapi`: a tiny C program that includes the installed kernel UAPI
// headers (linux/seccomp.h, linux/prctl.h, errno.h, asm/unistd.h) is compiled with gcc and
// prints the values; they never pass through Go source.

import (
	"bytes"
	"fmt"
	"go/ast"
	"go/constant"
	"go/printer"
	"go/token"
	"go/types"
	"math/big"
	"os"
	"os/exec"
	"path/filepath"
	"sort"
	"strconv"
	"strings"
	"sync"

	"golang.org/x/tools/go/packages"
)

var quickTargets = []string{
	"linux/amd64", "linux/386", "linux/arm", "linux/arm64", "linux/mips", "linux/mips64le",
	"linux/ppc64le", "linux/s390x", "linux/riscv64",
	"darwin/arm64", "windows/amd64", "freebsd/amd64", "js/wasm", "plan9/amd64",
}

type constFact struct {
	Name string `json:"name"`
	// Val is the exact decimal rendering of the constant; IsNat says that it is a non-negative integer.
	Val   string `json:"val"`
	IsNat bool   `json:"is_nat"`
	Type  string `json:"type"`
	File  string `json:"file"`
}

type pkgFact struct {
	Path   string   `json:"path"` // import path below the module ("" = root package, shown as ".")
	Main   bool     `json:"main"` // package main (a command, needs linking) as opposed to a library package
	OK     bool     `json:"ok"`
	Errors []string `json:"errors"`
}

type funcFact struct {
	Name    string `json:"name"`
	File    string `json:"file"`     // base name of the defining file ("" = not declared under this target)
	HasCall bool   `json:"has_call"` // the body contains a call expression (conversions included), go or defer statement
	Ret     string `json:"ret"`      // value of X when the body is exactly `return X` and X is a constant or nil, else ""
	Body    string `json:"body"`     // rendered body, only for functions of seccomp_unsupported.go
}

type targetFact struct {
	GOOS      string      `json:"goos"`
	GOARCH    string      `json:"goarch"`
	LoadError string      `json:"load_error,omitempty"`
	Builds    bool        `json:"builds"`     // every package of the module type-checks
	LibBuilds bool        `json:"lib_builds"` // every library (non-main) package of the module type-checks
	Pkgs      []pkgFact   `json:"pkgs"`
	Files     []string    `json:"files"` // Go files of the root package selected by the build context
	Unix      []constFact `json:"unix"`  // every constant of internal/unix (sorted by name)
	Root      []constFact `json:"root"`  // constants of constants.go + offsets/sizes of filter.go, assembler.go
	Arch      []constFact `json:"arch"`  // x32SyscallMask of package arch
	Funcs     []funcFact  `json:"funcs"`
	StubOther []string    `json:"stub_other_decls"` // declarations of seccomp_unsupported.go other than the three stubs
	StubImps  []string    `json:"stub_imports"`
	GoarchRow goarchFact  `json:"goarch_row"`
	pkgsByKey map[string]*packages.Package
}

type goarchFact struct {
	GOARCH   string `json:"goarch"`
	HasKey   bool   `json:"has_key"`   // arch.arches has a key equal to this GOARCH
	Var      string `json:"var"`       // the Info variable it maps to
	HasTable bool   `json:"has_table"` // that row has a non-empty SyscallNames table
}

var stubNames = []string{"Supported", "SetNoNewPrivs", "LoadFilter"}

// extraRootConsts are the constants outside constants.go that enter a compiled program.
var extraRootConsts = []string{"syscallNumOffset", "archOffset", "argumentOffset", "sizeOfUint32", "sizeOfUint64"}

func targetList() ([]string, error) {
	if strings.Contains(*targets, "/") {
		// explicit list "goos/goarch,goos/goarch" (replays); the host row is always present
		l := []string{"linux/amd64"}
		for _, s := range strings.Split(*targets, ",") {
			if s = strings.TrimSpace(s); s != "" && s != "linux/amd64" && strings.Count(s, "/") == 1 {
				l = append(l, s)
			}
		}
		return l, nil
	}
	if *targets != "all" {
		return append([]string{}, quickTargets...), nil
	}
	cmd := exec.Command("go", "tool", "dist", "list")
	cmd.Env = append(os.Environ(), "GOTOOLCHAIN=local")
	out, err := cmd.Output()
	if err != nil {
		return nil, fmt.Errorf("go tool dist list: %v", err)
	}
	var l []string
	for _, s := range strings.Fields(string(out)) {
		if strings.Count(s, "/") == 1 {
			l = append(l, s)
		}
	}
	if len(l) < 40 {
		return nil, fmt.Errorf("go tool dist list returned only %d targets", len(l))
	}
	return l, nil
}

func genConsts(host *target, facts map[string]interface{}) error {
	list, err := targetList()
	if err != nil {
		return err
	}
	sort.Strings(list)
	res := make([]*targetFact, len(list))
	jobs := make(chan int)
	var wg sync.WaitGroup
	workers := 8
	for w := 0; w < workers; w++ {
		wg.Add(1)
		go func() {
			defer wg.Done()
			for i := range jobs {
				goos, goarch, _ := strings.Cut(list[i], "/")
				tf := &targetFact{GOOS: goos, GOARCH: goarch}
				var t *target
				var err error
				if goos == host.goos && goarch == host.goarch {
					t = host
				} else {
					t, err = loadTarget(goos, goarch)
				}
				if err != nil {
					tf.LoadError = err.Error()
				} else {
					factsOfTarget(t, tf)
				}
				res[i] = tf
			}
		}()
	}
	for i := range list {
		jobs <- i
	}
	close(jobs)
	wg.Wait()

	// per GOARCH: key of arch.arches and table, from the facts generated by genTables
	aliases, rows, sizes := hostArchFacts(host)
	for _, tf := range res {
		g := goarchFact{GOARCH: tf.GOARCH}
		if v, ok := aliases[tf.GOARCH]; ok {
			g.HasKey, g.Var = true, v
			if r, ok := rows[v]; ok && r.Names != "" && sizes[r.Names] > 0 {
				g.HasTable = true
			}
		}
		tf.GoarchRow = g
	}

	uapiAll, err := uapiAllOracle()
	if err != nil {
		return err
	}
	uapi, uapiSrc, err := uapiOracle()
	if err != nil {
		return err
	}

	var b strings.Builder
	b.WriteString("/-! GENERATED by vextract (consts.go) from /repo under every build target — do not edit.\n")
	b.WriteString("    Regenerated on every check run.  `uapi` comes from the installed kernel headers through gcc. -/\n\nnamespace Gen\n\n")
	b.WriteString("structure PkgFact where\n  path : String\n  main : Bool\n  ok : Bool\n  errors : List String\nderiving Repr, DecidableEq\n\n")
	b.WriteString("structure FuncFact where\n  name : String\n  file : String\n  hasCall : Bool\n  ret : String\n  body : String\nderiving Repr, DecidableEq\n\n")
	b.WriteString("structure Target where\n  goos : String\n  goarch : String\n  loaded : Bool\n  builds : Bool\n  libBuilds : Bool\n  pkgs : List PkgFact\n  files : List String\n" +
		"  unix : List (String × Nat)\n  root : List (String × Nat)\n  arch : List (String × Nat)\n  nonNat : List (String × String)\n" +
		"  funcs : List FuncFact\n  stubOtherDecls : List String\n  stubImports : List String\n" +
		"  archKey : Bool\n  archVar : String\n  archTable : Bool\nderiving Repr, DecidableEq\n\n")

	var names []string
	for _, tf := range res {
		id := "t_" + leanTargetIdent(tf.GOOS) + "_" + leanTargetIdent(tf.GOARCH)
		names = append(names, id)
		fmt.Fprintf(&b, "def %s : Target := {\n", id)
		fmt.Fprintf(&b, "  goos := %s, goarch := %s, loaded := %v, builds := %v, libBuilds := %v,\n", leanString(tf.GOOS), leanString(tf.GOARCH), tf.LoadError == "", tf.Builds, tf.LibBuilds)
		b.WriteString("  pkgs := [")
		for i, p := range tf.Pkgs {
			if i > 0 {
				b.WriteString(",")
			}
			fmt.Fprintf(&b, "\n    { path := %s, main := %v, ok := %v, errors := [%s] }", leanString(p.Path), p.Main, p.OK, joinLeanStrings(p.Errors))
		}
		b.WriteString("],\n")
		fmt.Fprintf(&b, "  files := [%s],\n", joinLeanStrings(tf.Files))
		var nonNat []constFact
		for _, grp := range []struct {
			field string
			l     []constFact
		}{{"unix", tf.Unix}, {"root", tf.Root}, {"arch", tf.Arch}} {
			fmt.Fprintf(&b, "  %s := [", grp.field)
			first := true
			for _, c := range grp.l {
				if !c.IsNat {
					c.Name = grp.field + "." + c.Name
					nonNat = append(nonNat, c)
					continue
				}
				if !first {
					b.WriteString(", ")
				}
				first = false
				fmt.Fprintf(&b, "(%s, %s)", leanString(c.Name), leanNat(c.Val))
			}
			b.WriteString("],\n")
		}
		b.WriteString("  nonNat := [")
		for i, c := range nonNat {
			if i > 0 {
				b.WriteString(", ")
			}
			fmt.Fprintf(&b, "(%s, %s)", leanString(c.Name), leanString(c.Val))
		}
		b.WriteString("],\n  funcs := [")
		for i, f := range tf.Funcs {
			if i > 0 {
				b.WriteString(",")
			}
			fmt.Fprintf(&b, "\n    { name := %s, file := %s, hasCall := %v, ret := %s, body := %s }",
				leanString(f.Name), leanString(f.File), f.HasCall, leanString(f.Ret), leanString(f.Body))
		}
		b.WriteString("],\n")
		fmt.Fprintf(&b, "  stubOtherDecls := [%s], stubImports := [%s],\n", joinLeanStrings(tf.StubOther), joinLeanStrings(tf.StubImps))
		fmt.Fprintf(&b, "  archKey := %v, archVar := %s, archTable := %v }\n\n", tf.GoarchRow.HasKey, leanString(tf.GoarchRow.Var), tf.GoarchRow.HasTable)
	}
	fmt.Fprintf(&b, "/-- the target list (`-targets %s`), sorted -/\ndef targets : List Target := [%s]\n\n", *targets, strings.Join(names, ", "))
	fmt.Fprintf(&b, "def targetListKind : String := %s\n\n", leanString(*targets))

	b.WriteString("/-- number of entries of each syscall table variable of package arch (linux/amd64 view; the package has no build constraints) -/\n")
	b.WriteString("def tableSizes : List (String × Nat) := [")
	tn := make([]string, 0, len(sizes))
	for k := range sizes {
		tn = append(tn, k)
	}
	sort.Strings(tn)
	for i, k := range tn {
		if i > 0 {
			b.WriteString(", ")
		}
		fmt.Fprintf(&b, "(%s, %d)", leanString(k), sizes[k])
	}
	b.WriteString("]\n\n")

	b.WriteString("/-- every object-like macro SECCOMP_* / PR_* of the installed linux/seccomp.h and linux/prctl.h that is an integer expression -/\ndef uapiAll : List (String × Nat) := [\n")
	for i, kv := range uapiAll {
		sep := ","
		if i == len(uapiAll)-1 {
			sep = ""
		}
		fmt.Fprintf(&b, "  (%s, %s)%s\n", leanString(kv.Name), fmt.Sprintf("%d", kv.Val), sep)
	}
	b.WriteString("]\n\n")
	b.WriteString("/-- values of the installed Linux UAPI headers, printed by a C program compiled with gcc\n    (linux/seccomp.h, linux/prctl.h, errno.h, asm/unistd.h, offsetof/sizeof over struct seccomp_data) -/\n")
	b.WriteString("def uapi : List (String × Nat) := [\n")
	for i, kv := range uapi {
		sep := ","
		if i == len(uapi)-1 {
			sep = ""
		}
		fmt.Fprintf(&b, "  (%s, %s)%s\n", leanString(kv.Name), leanNat(strconv.FormatUint(kv.Val, 10)), sep)
	}
	b.WriteString("]\n\nend Gen\n")
	writeIfChanged("Consts.lean", b.String())

	facts["targets"] = res
	facts["targetListKind"] = *targets
	facts["uapi"] = uapi
	facts["uapiAll"] = uapiAll
	facts["uapiSource"] = uapiSrc
	facts["tableSizes"] = sizes
	return nil
}

// leanNat renders a decimal natural number as a Lean literal (hexadecimal above 255, as the sources write them).
func leanNat(dec string) string {
	n, ok := new(big.Int).SetString(dec, 10)
	if !ok || n.Sign() < 0 {
		return dec
	}
	if n.Cmp(big.NewInt(255)) <= 0 {
		return dec
	}
	return "0x" + n.Text(16)
}

func leanTargetIdent(s string) string {
	var b strings.Builder
	for _, r := range s {
		if r >= 'a' && r <= 'z' || r >= 'A' && r <= 'Z' || r >= '0' && r <= '9' {
			b.WriteRune(r)
		} else {
			b.WriteByte('_')
		}
	}
	return b.String()
}

// hostArchFacts reads arch.arches, the Info rows and the table sizes from the host view.
func hostArchFacts(host *target) (map[string]string, map[string]archRow, map[string]int) {
	aliases := map[string]string{}
	rows := map[string]archRow{}
	sizes := map[string]int{}
	p := host.pkgs["arch"]
	if p == nil {
		return aliases, rows, sizes
	}
	if cl, ok := pkgVarInit(p, "arches").(*ast.CompositeLit); ok {
		for _, el := range cl.Elts {
			if kv, ok := el.(*ast.KeyValueExpr); ok {
				if k, ok := constString(p, kv.Key); ok {
					aliases[k] = exprText(kv.Value)
				}
			}
		}
	}
	for _, f := range p.Syntax {
		for _, d := range f.Decls {
			gd, ok := d.(*ast.GenDecl)
			if !ok {
				continue
			}
			for _, s := range gd.Specs {
				vs, ok := s.(*ast.ValueSpec)
				if !ok || len(vs.Names) != 1 || len(vs.Values) != 1 {
					continue
				}
				name := vs.Names[0].Name
				if cl, ok := vs.Values[0].(*ast.CompositeLit); ok && exprText(cl.Type) == "map[int]string" {
					sizes[name] = len(cl.Elts)
					continue
				}
				ue, ok := vs.Values[0].(*ast.UnaryExpr)
				if !ok {
					continue
				}
				cl, ok := ue.X.(*ast.CompositeLit)
				if !ok || exprText(cl.Type) != "Info" {
					continue
				}
				row := archRow{Var: name}
				for _, el := range cl.Elts {
					kv, ok := el.(*ast.KeyValueExpr)
					if !ok {
						continue
					}
					switch exprText(kv.Key) {
					case "SyscallNumbers":
						row.Table = exprText(kv.Value)
					case "SyscallNames":
						txt := exprText(kv.Value)
						if strings.HasPrefix(txt, "invert(") && strings.HasSuffix(txt, ")") {
							row.Names = txt[len("invert(") : len(txt)-1]
						} else {
							row.Names = "?" + txt
						}
					}
				}
				rows[name] = row
			}
		}
	}
	return aliases, rows, sizes
}

func relPath(s string) string {
	root, err := filepath.Abs(*repoDir)
	if err != nil {
		root = *repoDir
	}
	if real, err := filepath.EvalSymlinks(root); err == nil {
		s = strings.ReplaceAll(s, real+"/", "")
	}
	return strings.ReplaceAll(s, root+"/", "")
}

func factsOfTarget(t *target, tf *targetFact) {
	// 1. packages of the module and their errors (errors of dependencies make the importer ill-typed)
	var keys []string
	for k := range t.pkgs {
		keys = append(keys, k)
	}
	sort.Strings(keys)
	tf.Builds, tf.LibBuilds = true, true
	for _, k := range keys {
		p := t.pkgs[k]
		pf := pkgFact{Path: k, Main: p.Name == "main", Errors: []string{}}
		if k == "" {
			pf.Path = "."
		}
		seen := map[string]bool{}
		add := func(s string) {
			s = relPath(s)
			if len(s) > 300 {
				s = s[:300] + "…"
			}
			if !seen[s] && len(pf.Errors) < 8 {
				seen[s] = true
				pf.Errors = append(pf.Errors, s)
			}
		}
		for _, e := range p.Errors {
			add(e.Error())
		}
		if p.IllTyped && len(p.Errors) == 0 {
			// the error is in a dependency
			packages.Visit([]*packages.Package{p}, nil, func(q *packages.Package) {
				for _, e := range q.Errors {
					add(q.PkgPath + ": " + e.Error())
				}
			})
			if len(pf.Errors) == 0 {
				add("ill-typed (no error reported)")
			}
		}
		sort.Strings(pf.Errors)
		pf.OK = len(p.Errors) == 0 && !p.IllTyped
		if !pf.OK {
			tf.Builds = false
			if !pf.Main {
				tf.LibBuilds = false
			}
		}
		tf.Pkgs = append(tf.Pkgs, pf)
	}

	// 2. file set of the root package
	root := t.pkgs[""]
	tf.Files = []string{}
	for _, f := range root.GoFiles {
		tf.Files = append(tf.Files, filepath.Base(f))
	}
	sort.Strings(tf.Files)

	// 3. constants
	tf.Unix = []constFact{}
	if up := t.pkgs["internal/unix"]; up != nil && up.Types != nil {
		tf.Unix = scopeConsts(up, func(file string) bool { return true }, nil)
	}
	tf.Root = scopeConsts(root, func(file string) bool { return file == "constants.go" }, extraRootConsts)
	tf.Arch = []constFact{}
	if ap := t.pkgs["arch"]; ap != nil && ap.Types != nil {
		tf.Arch = scopeConsts(ap, func(file string) bool { return false }, []string{"x32SyscallMask"})
	}

	// 4. the three entry points and the stub file
	tf.StubOther, tf.StubImps = []string{}, []string{}
	for _, name := range stubNames {
		ff := funcFact{Name: name}
		for _, f := range root.Syntax {
			file := filepath.Base(root.Fset.Position(f.Pos()).Filename)
			for _, d := range f.Decls {
				fd, ok := d.(*ast.FuncDecl)
				if !ok || fd.Recv != nil || fd.Name.Name != name {
					continue
				}
				ff.File = file
				if fd.Body != nil {
					ff.HasCall = hasCall(fd.Body)
					ff.Ret = soleReturn(root, fd.Body)
					if file == "seccomp_unsupported.go" {
						ff.Body = render(root.Fset, fd.Body)
					}
				} else {
					ff.HasCall = true // body elsewhere (assembly / linkname): not inert by inspection
					ff.Body = "<no body>"
				}
			}
		}
		tf.Funcs = append(tf.Funcs, ff)
	}
	for _, f := range root.Syntax {
		if filepath.Base(root.Fset.Position(f.Pos()).Filename) != "seccomp_unsupported.go" {
			continue
		}
		for _, im := range f.Imports {
			tf.StubImps = append(tf.StubImps, strings.Trim(im.Path.Value, `"`))
		}
		for _, d := range f.Decls {
			switch x := d.(type) {
			case *ast.FuncDecl:
				isStub := false
				for _, n := range stubNames {
					if x.Recv == nil && x.Name.Name == n {
						isStub = true
					}
				}
				if !isStub {
					tf.StubOther = append(tf.StubOther, "func "+x.Name.Name)
				}
			case *ast.GenDecl:
				if x.Tok == token.IMPORT {
					continue
				}
				for _, s := range x.Specs {
					switch y := s.(type) {
					case *ast.ValueSpec:
						for _, n := range y.Names {
							tf.StubOther = append(tf.StubOther, x.Tok.String()+" "+n.Name)
						}
					case *ast.TypeSpec:
						tf.StubOther = append(tf.StubOther, "type "+y.Name.Name)
					}
				}
			}
		}
	}
}

// scopeConsts lists the package-level constants declared in the files selected by inFile,
// plus the named extras wherever they are declared; sorted by name.
func scopeConsts(p *packages.Package, inFile func(string) bool, extras []string) []constFact {
	out := []constFact{}
	if p.Types == nil {
		return out
	}
	extra := map[string]bool{}
	for _, e := range extras {
		extra[e] = true
	}
	scope := p.Types.Scope()
	for _, name := range scope.Names() { // sorted
		c, ok := scope.Lookup(name).(*types.Const)
		if !ok {
			continue
		}
		file := filepath.Base(p.Fset.Position(c.Pos()).Filename)
		if !inFile(file) && !extra[name] {
			continue
		}
		cf := constFact{Name: name, Type: types.TypeString(c.Type(), func(q *types.Package) string { return q.Name() }), File: file}
		v := c.Val()
		switch v.Kind() {
		case constant.Int:
			cf.Val = v.ExactString()
			cf.IsNat = constant.Sign(v) >= 0
		case constant.String:
			cf.Val = strconv.Quote(constant.StringVal(v))
		default:
			cf.Val = v.ExactString()
		}
		out = append(out, cf)
	}
	return out
}

// hasCall reports a call expression (function or method call, conversion, builtin) or a
// go/defer statement anywhere in the body, function literals included.
func hasCall(body *ast.BlockStmt) bool {
	found := false
	ast.Inspect(body, func(n ast.Node) bool {
		switch n.(type) {
		case *ast.CallExpr, *ast.GoStmt, *ast.DeferStmt:
			found = true
		}
		return !found
	})
	return found
}

// soleReturn describes the result of a body that is exactly `{ return X }`: the value the type
// checker computes for X when X is a constant expression ("false", "true", "1", …), "nil" for the
// predeclared nil, else "".
func soleReturn(p *packages.Package, body *ast.BlockStmt) string {
	if len(body.List) != 1 {
		return ""
	}
	rs, ok := body.List[0].(*ast.ReturnStmt)
	if !ok || len(rs.Results) != 1 {
		return ""
	}
	tv, ok := p.TypesInfo.Types[rs.Results[0]]
	if !ok {
		return ""
	}
	if tv.IsNil() {
		return "nil"
	}
	if tv.Value != nil {
		return tv.Value.ExactString()
	}
	return ""
}

func render(fset *token.FileSet, n ast.Node) string {
	var buf bytes.Buffer
	cfg := printer.Config{Mode: printer.RawFormat}
	if err := cfg.Fprint(&buf, fset, n); err != nil {
		return "<unprintable>"
	}
	var parts []string
	for _, l := range strings.Split(buf.String(), "\n") {
		if l = strings.Join(strings.Fields(l), " "); l != "" {
			parts = append(parts, l)
		}
	}
	out := strings.Join(parts, "; ")
	out = strings.ReplaceAll(out, "{;", "{")
	return strings.ReplaceAll(out, "; }", " }")
}

/* ---------------------------------------------------------------- UAPI oracle */

type uapiVal struct {
	Name string `json:"name"`
	Val  uint64 `json:"val"`
}

var uapiNames = []string{
	"SECCOMP_RET_KILL_THREAD", "SECCOMP_RET_KILL_PROCESS", "SECCOMP_RET_TRAP", "SECCOMP_RET_ERRNO",
	"SECCOMP_RET_TRACE", "SECCOMP_RET_LOG", "SECCOMP_RET_ALLOW", "SECCOMP_RET_USER_NOTIF",
	"SECCOMP_FILTER_FLAG_TSYNC", "SECCOMP_FILTER_FLAG_LOG",
	"SECCOMP_SET_MODE_STRICT", "SECCOMP_SET_MODE_FILTER",
	"PR_SET_NO_NEW_PRIVS", "EPERM", "ENOSYS", "__X32_SYSCALL_BIT",
}

const uapiProgram = `#include <stdio.h>
#include <stddef.h>
#include <errno.h>
#include <linux/seccomp.h>
#include <linux/prctl.h>
#include <asm/unistd.h>
#define P(x) printf("%s %llu\n", #x, (unsigned long long)(x))
int main(void) {
@LINES@
  printf("offsetof_nr %llu\n", (unsigned long long)offsetof(struct seccomp_data, nr));
  printf("offsetof_arch %llu\n", (unsigned long long)offsetof(struct seccomp_data, arch));
  printf("offsetof_args %llu\n", (unsigned long long)offsetof(struct seccomp_data, args));
  printf("sizeof_arg %llu\n", (unsigned long long)sizeof(((struct seccomp_data *)0)->args[0]));
  printf("sizeof_nr %llu\n", (unsigned long long)sizeof(((struct seccomp_data *)0)->nr));
  return 0;
}
`

// uapiAllOracle evaluates EVERY object-like macro named SECCOMP_* or PR_* of the installed
// linux/seccomp.h and linux/prctl.h (names found with `gcc -dM -E`, values printed by a C
// program): the constants of internal/unix are compared with the macro of the same name whatever
// constants the package declares, so that a constant added later is checked too.
func uapiAllOracle() ([]uapiVal, error) {
	dir, err := os.MkdirTemp("", "vextract-uapiall")
	if err != nil {
		return nil, err
	}
	defer os.RemoveAll(dir)
	inc := "#include <linux/seccomp.h>\n#include <linux/prctl.h>\n#include <sys/ioctl.h>\n"
	hfile := filepath.Join(dir, "names.c")
	if err := os.WriteFile(hfile, []byte(inc), 0o644); err != nil {
		return nil, err
	}
	out, err := exec.Command("gcc", "-dM", "-E", hfile).Output()
	if err != nil {
		return nil, fmt.Errorf("uapi oracle: gcc -dM -E: %v", err)
	}
	var names []string
	for _, l := range strings.Split(string(out), "\n") {
		f := strings.Fields(l)
		if len(f) < 3 || f[0] != "#define" || strings.Contains(f[1], "(") {
			continue
		}
		if strings.HasPrefix(f[1], "SECCOMP_") || strings.HasPrefix(f[1], "PR_") {
			names = append(names, f[1])
		}
	}
	sort.Strings(names)
	for attempt := 0; attempt < 6; attempt++ {
		var src strings.Builder
		src.WriteString("#include <stdio.h>\n" + inc + "#define P(x) printf(\"%s %llu\\n\", #x, (unsigned long long)(x))\nint main(void) {\n")
		first := strings.Count(src.String(), "\n") + 1
		for _, n := range names {
			fmt.Fprintf(&src, "  P(%s);\n", n)
		}
		src.WriteString("  return 0;\n}\n")
		cfile := filepath.Join(dir, "all.c")
		if err := os.WriteFile(cfile, []byte(src.String()), 0o644); err != nil {
			return nil, err
		}
		bin := filepath.Join(dir, "all")
		msg, err := exec.Command("gcc", "-O0", "-w", "-o", bin, cfile).CombinedOutput()
		if err != nil {
			// drop the names whose lines do not compile (macros that are not integer expressions)
			bad := map[int]bool{}
			for _, l := range strings.Split(string(msg), "\n") {
				var ln, col int
				if i := strings.Index(l, "all.c:"); i >= 0 {
					if n, _ := fmt.Sscanf(l[i:], "all.c:%d:%d", &ln, &col); n >= 1 {
						bad[ln-first] = true
					}
				}
			}
			if len(bad) == 0 {
				return nil, fmt.Errorf("uapi oracle (all): gcc: %v: %s", err, msg)
			}
			var keep []string
			for i, n := range names {
				if !bad[i] {
					keep = append(keep, n)
				}
			}
			names = keep
			continue
		}
		res, err := exec.Command(bin).Output()
		if err != nil {
			return nil, fmt.Errorf("uapi oracle (all): run: %v", err)
		}
		var vals []uapiVal
		for _, l := range strings.Split(strings.TrimSpace(string(res)), "\n") {
			f := strings.Fields(l)
			if len(f) != 2 {
				continue
			}
			if v, err := strconv.ParseUint(f[1], 10, 64); err == nil {
				vals = append(vals, uapiVal{f[0], v})
			}
		}
		return vals, nil
	}
	return nil, fmt.Errorf("uapi oracle (all): the program does not compile")
}

// uapiOracle compiles and runs the C program against the installed kernel headers.
func uapiOracle() ([]uapiVal, string, error) {
	var lines strings.Builder
	for _, n := range uapiNames {
		fmt.Fprintf(&lines, "  P(%s);\n", n)
	}
	src := strings.Replace(uapiProgram, "@LINES@", lines.String(), 1)
	dir, err := os.MkdirTemp("", "vextract-uapi")
	if err != nil {
		return nil, "", err
	}
	defer os.RemoveAll(dir)
	cfile := filepath.Join(dir, "uapi.c")
	if err := os.WriteFile(cfile, []byte(src), 0o644); err != nil {
		return nil, "", err
	}
	bin := filepath.Join(dir, "uapi")
	if out, err := exec.Command("gcc", "-O0", "-o", bin, cfile).CombinedOutput(); err != nil {
		return nil, "", fmt.Errorf("uapi oracle: gcc: %v: %s", err, out)
	}
	out, err := exec.Command(bin).Output()
	if err != nil {
		return nil, "", fmt.Errorf("uapi oracle: run: %v", err)
	}
	var vals []uapiVal
	for _, l := range strings.Split(strings.TrimSpace(string(out)), "\n") {
		f := strings.Fields(l)
		if len(f) != 2 {
			return nil, "", fmt.Errorf("uapi oracle: bad line %q", l)
		}
		v, err := strconv.ParseUint(f[1], 10, 64)
		if err != nil {
			return nil, "", fmt.Errorf("uapi oracle: bad line %q", l)
		}
		vals = append(vals, uapiVal{f[0], v})
	}
	return vals, "gcc + /usr/include/{linux/seccomp.h,linux/prctl.h,errno.h,asm/unistd.h}", nil
}
