package main

import (
	"go/ast"
	"go/constant"
	"go/parser"
	"go/token"
	"go/types"
	"os"
	"strconv"
)

func constOf(obj types.Object) (uint64, bool) {
	c, ok := obj.(*types.Const)
	if !ok {
		return 0, false
	}
	v := c.Val()
	if v.Kind() != constant.Int {
		return 0, false
	}
	if u, exact := constant.Uint64Val(v); exact {
		return u, true
	}
	if i, exact := constant.Int64Val(v); exact {
		return uint64(i), true
	}
	return 0, false
}

// parseIgnored parses a file that is excluded from the build (`//go:build ignore`).
func parseIgnored(path string) (*ast.File, error) {
	return parser.ParseFile(token.NewFileSet(), path, nil, 0)
}

// abiSkipLiteral finds `if fields[1] == "<lit>" { return nil, nil }` inside function fn.
func abiSkipLiteral(f *ast.File, fn string) string {
	lit := ""
	for _, d := range f.Decls {
		fd, ok := d.(*ast.FuncDecl)
		if !ok || fd.Name.Name != fn {
			continue
		}
		ast.Inspect(fd.Body, func(n ast.Node) bool {
			is, ok := n.(*ast.IfStmt)
			if !ok {
				return true
			}
			be, ok := is.Cond.(*ast.BinaryExpr)
			if !ok || be.Op != token.EQL {
				return true
			}
			if types.ExprString(be.X) != "fields[1]" {
				return true
			}
			if bl, ok := be.Y.(*ast.BasicLit); ok && bl.Kind == token.STRING {
				if s, err := strconv.Unquote(bl.Value); err == nil {
					lit = s
				}
			}
			return true
		})
	}
	return lit
}

func readFile(path string) ([]byte, error) { return os.ReadFile(path) }
