package main

import (
	"go/ast"
	"go/constant"
	"go/parser"
	"go/token"
	"go/types"
	"os"
	"strconv"
)

func constOf(obj types.Object) (uint64, bool) {
	c, ok := obj.(*types.Const)
	if !ok {
		return 0, false
	}
	v := c.Val()
	if v.Kind() != constant.Int {
		return 0, false
	}
	if u, exact := constant.Uint64Val(v); exact {
		return u, true
	}
	if i, exact := constant.Int64Val(v); exact {
		return uint64(i), true
	}
	return 0, false
}

// parseIgnored parses a file that is excluded from the build (`//go:build ignore`).
func parseIgnored(path string) (*ast.File, error) {
	return parser.ParseFile(token.NewFileSet(), path, nil, 0)
}

// abiSkipLiteral finds `if fields[1] == "<lit>" { return nil, nil }` inside function fn.
func abiSkipLiteral(f *ast.File, fn string) string {
	lit := ""
	for _, d := range f.Decls {
		fd, ok := d.(*ast.FuncDecl)
		if !ok || fd.Name.Name != fn {
			continue
		}
		ast.Inspect(fd.Body, func(n ast.Node) bool {
			is, ok := n.(*ast.IfStmt)
			if !ok {
				return true
			}
			be, ok := is.Cond.(*ast.BinaryExpr)
			if !ok || be.Op != token.EQL {
				return true
			}
			if types.ExprString(be.X) != "fields[1]" {
				return true
			}
			if bl, ok := be.Y.(*ast.BasicLit); ok && bl.Kind == token.STRING {
				if s, err := strconv.Unquote(bl.Value); err == nil {
					lit = s
				}
			}
			return true
		})
	}
	return lit
}

func readFile(path string) ([]byte, error) { return os.ReadFile(path) }

// desugarSwitch rewrites a `switch` without init, fallthrough, break or type switch into the
// equivalent chain of `if` statements: `switch tag { case a, b: A; default: D }` becomes
// `if tag == a || tag == b { A } else { D }`; a tagless switch uses the case expressions themselves.
// ok is false when the statement has a form that is not handled (it is then left to the caller,
// which treats it as outside its subset).
func desugarSwitch(sw *ast.SwitchStmt) (ast.Stmt, bool) {
	if sw.Init != nil {
		return nil, false
	}
	if sw.Tag != nil {
		switch ast.Unparen(sw.Tag).(type) {
		case *ast.Ident, *ast.SelectorExpr, *ast.BasicLit:
		default:
			return nil, false // the tag would be evaluated once; only side-effect free tags are duplicated
		}
	}
	bad := false
	ast.Inspect(sw.Body, func(n ast.Node) bool {
		switch x := n.(type) {
		case *ast.BranchStmt:
			if x.Tok == token.BREAK || x.Tok == token.FALLTHROUGH {
				bad = true
			}
		case *ast.ForStmt, *ast.RangeStmt, *ast.FuncLit, *ast.SelectStmt:
			// a break inside a nested loop belongs to that loop, but keep the analysis simple
			bad = bad || false
		}
		return true
	})
	if bad {
		return nil, false
	}
	var clauses []*ast.CaseClause
	var dflt *ast.CaseClause
	for _, st := range sw.Body.List {
		cc, ok := st.(*ast.CaseClause)
		if !ok {
			return nil, false
		}
		if cc.List == nil {
			dflt = cc
			continue
		}
		clauses = append(clauses, cc)
	}
	var tail ast.Stmt
	if dflt != nil {
		tail = &ast.BlockStmt{List: dflt.Body}
	}
	for i := len(clauses) - 1; i >= 0; i-- {
		cc := clauses[i]
		var cond ast.Expr
		for _, e := range cc.List {
			var c ast.Expr = e
			if sw.Tag != nil {
				c = &ast.BinaryExpr{X: sw.Tag, Op: token.EQL, Y: e}
			}
			if cond == nil {
				cond = c
			} else {
				cond = &ast.BinaryExpr{X: cond, Op: token.LOR, Y: c}
			}
		}
		is := &ast.IfStmt{If: cc.Pos(), Cond: cond, Body: &ast.BlockStmt{List: cc.Body}}
		if tail != nil {
			switch tl := tail.(type) {
			case *ast.BlockStmt:
				is.Else = tl
			case *ast.IfStmt:
				is.Else = tl
			}
		}
		tail = is
	}
	if tail == nil {
		return &ast.BlockStmt{}, true
	}
	return tail, true
}
