package main

// oracle.go — independent sources for property C12 (syscall numbers per ABI, AUDIT_ARCH_*).
//
// Everything here is read from files that exist offline on the verification host and is
// regenerated on every run (deterministic: no timestamps, sorted output).  A missing source
// never fails the translator: it yields an empty entry list with `available = false` and a
// note in the JSON mirror.
//
// Sources and how they are evaluated
//
//   kernel UAPI headers (linux-libc-dev)
//     asm/unistd_64.h   → table syscallsX86_64
//     asm/unistd_32.h   → table syscalls386
//     asm/unistd_x32.h  → table syscallsX32.  The header spells every number as
//                         `(__X32_SYSCALL_BIT + n)`; we compile with
//                         -D__X32_SYSCALL_BIT=0x40000000 (its value in asm/unistd.h), require the
//                         bit in every value and store n = value &^ 0x40000000, because the
//                         repository keeps the bit separately (Info.SeccompMask).
//     asm-generic/unistd.h → table syscallsAARCH64.  arm64 has no table file of its own in
//                         kernel 6.1: arch/arm64/include/uapi/asm/unistd.h defines
//                         __ARCH_WANT_RENAMEAT, __ARCH_WANT_NEW_STAT, __ARCH_WANT_SET_GET_RLIMIT,
//                         __ARCH_WANT_TIME32_SYSCALLS, __ARCH_WANT_SYS_CLONE3,
//                         __ARCH_WANT_MEMFD_SECRET and includes the generic header.  We define
//                         exactly these six macros and evaluate with the host compiler, whose
//                         __BITS_PER_LONG is 64 like arm64's (so __NR_fcntl = __NR3264_fcntl,
//                         __NR_newfstatat = __NR3264_fstatat, …; __SYSCALL_COMPAT undefined;
//                         __ARCH_WANT_SYNC_FILE_RANGE2 undefined, __ARCH_NOMMU undefined).
//     Evaluation: `gcc -E -dM` lists the macro names `__NR_<name>`; a generated C program that
//     includes the header prints `(unsigned long long)(__NR_<name>)` for each — so the values are
//     computed by the C compiler, not by this program.  Normalisation: strip `__NR_`; drop the
//     single pseudo entry `__NR_syscalls` (the table size).  `__NR3264_*` helper macros are not
//     names of the ABI and are not listed.
//
//   linux/audit.h (+ linux/elf-em.h): every macro `AUDIT_ARCH_<X>` whose expansion contains no
//     unexpanded identifier (some EM_* are not in elf-em.h), printed by a compiled C program.
//
//   Go standard library  $GOROOT/src/syscall/zsysnum_linux_{386,amd64,arm,arm64}.go and
//   golang.org/x/sys/unix/zsysnum_linux_{386,amd64,arm,arm64}.go of the module versions found in
//   the module cache (v0.19.0, v0.29.0, v0.48.0):  constants `SYS_<NAME> = <integer literal>`.
//     Normalisation: strip `SYS_`, ASCII lower-case (SYS_PREAD64 → pread64, SYS__SYSCTL →
//     _sysctl).  Nothing else is renamed.  Go-only pseudo constants (SYS_SYSCALL_BASE,
//     SYS_OABI_SYSCALL_BASE, SYS_SYSCALL_MASK, SYS_ARM_SYNC_FILE_RANGE …) stay in the list under
//     their lower-cased spelling; they take part in the comparison only if the repository's
//     table contains that very spelling, because the property compares a source only "wherever
//     it lists the syscall".  Constants whose value is not an integer literal are skipped (none
//     today).
//   386 ↔ syscalls386, amd64 ↔ syscallsX86_64, arm ↔ syscallsARM, arm64 ↔ syscallsAARCH64.
//   Go has no x32 port, so x32 has the kernel header as its only oracle; the kernel's arm
//   header is not installed on this host, so arm has the Go sources only.
//
// Name codes: a name is represented in Lean by a natural number (kernel evaluation on Nat
// literals is fast, on strings slow): code(b0 b1 … bn-1) = ((1·256 + bn-1)·256 + …)·256 + b0,
// i.e. `Arch.encBytes` (little endian base 256 with a leading 1, injective).

import (
	"fmt"
	"go/ast"
	"go/parser"
	"go/token"
	"math/big"
	"os"
	"os/exec"
	"path/filepath"
	"regexp"
	"sort"
	"strconv"
	"strings"
	"time"
)

type oracleEntry struct {
	Name string `json:"name"`
	Num  uint64 `json:"num"`
}

type oracleSource struct {
	ID        string        `json:"id"`    // stable identifier, e.g. "uapi:asm/unistd_64.h"
	Kind      string        `json:"kind"`  // kernel-uapi | go-syscall | x-sys
	Table     string        `json:"table"` // repository table describing the same ABI
	Path      string        `json:"path"`
	Available bool          `json:"available"`
	Note      string        `json:"note,omitempty"`
	Entries   []oracleEntry `json:"entries"` // sorted by name
	Shared    int           `json:"shared"`  // names that also occur in the repository's table
}

type auditEntry struct {
	Name string `json:"name"`
	Val  uint64 `json:"val"`
}

// nameCode is Arch.encBytes of the UTF-8 bytes of s.
func nameCode(s string) *big.Int {
	n := big.NewInt(1)
	b := []byte(s)
	for i := len(b) - 1; i >= 0; i-- {
		n.Mul(n, big.NewInt(256))
		n.Add(n, big.NewInt(int64(b[i])))
	}
	return n
}

const x32Bit = 0x40000000

var arm64Wants = []string{"__ARCH_WANT_RENAMEAT", "__ARCH_WANT_NEW_STAT", "__ARCH_WANT_SET_GET_RLIMIT",
	"__ARCH_WANT_TIME32_SYSCALLS", "__ARCH_WANT_SYS_CLONE3", "__ARCH_WANT_MEMFD_SECRET"}

func runTimeout(dir string, d time.Duration, name string, args ...string) (string, error) {
	cmd := exec.Command(name, args...)
	cmd.Dir = dir
	cmd.Env = append(os.Environ(), "LC_ALL=C")
	done := make(chan struct{})
	var out []byte
	var err error
	go func() { out, err = cmd.Output(); close(done) }()
	select {
	case <-done:
		return string(out), err
	case <-time.After(d):
		if cmd.Process != nil {
			cmd.Process.Kill()
		}
		<-done
		return "", fmt.Errorf("%s: timeout", name)
	}
}

// cEval lets the C compiler evaluate the macros of `header` whose names match re (first
// group = reported name).  defs are -D options.  Returns name → value.
func cEval(tmp, tag, header string, defs []string, re *regexp.Regexp, skip func(expansion string) bool) (map[string]uint64, string, error) {
	if _, err := os.Stat(header); err != nil {
		return nil, "", fmt.Errorf("missing %s", header)
	}
	gcc, err := exec.LookPath("gcc")
	if err != nil {
		return nil, "", fmt.Errorf("no C compiler (gcc) on this host")
	}
	args := []string{"-E", "-dM", "-x", "c"}
	args = append(args, defs...)
	args = append(args, "-include", header, "/dev/null")
	macros, err := runTimeout(tmp, 60*time.Second, gcc, args...)
	if err != nil {
		return nil, "", fmt.Errorf("gcc -E -dM %s: %v", header, err)
	}
	type mac struct{ macro, name string }
	var list []mac
	skipped := []string{}
	defRe := regexp.MustCompile(`^#define\s+([A-Za-z_][A-Za-z0-9_]*)\s*(.*)$`)
	all := map[string]string{}
	for _, line := range strings.Split(macros, "\n") {
		m := defRe.FindStringSubmatch(line)
		if m != nil {
			all[m[1]] = m[2]
		}
	}
	for macro := range all {
		m := re.FindStringSubmatch(macro)
		if m == nil {
			continue
		}
		if skip != nil && skip(expandAll(all, all[macro], 0)) {
			skipped = append(skipped, macro)
			continue
		}
		list = append(list, mac{macro, m[1]})
	}
	sort.Slice(list, func(i, j int) bool { return list[i].macro < list[j].macro })
	sort.Strings(skipped)
	var src strings.Builder
	src.WriteString("#include <stdio.h>\n#include \"" + header + "\"\nint main(void){\n")
	for _, m := range list {
		fmt.Fprintf(&src, " printf(\"%%s %%llu\\n\", \"%s\", (unsigned long long)(%s));\n", m.name, m.macro)
	}
	src.WriteString(" return 0;\n}\n")
	cfile := filepath.Join(tmp, tag+".c")
	bin := filepath.Join(tmp, tag+".bin")
	if err := os.WriteFile(cfile, []byte(src.String()), 0o644); err != nil {
		return nil, "", err
	}
	cargs := append([]string{"-O0", "-w"}, defs...)
	cargs = append(cargs, "-o", bin, cfile)
	if _, err := runTimeout(tmp, 120*time.Second, gcc, cargs...); err != nil {
		return nil, "", fmt.Errorf("gcc %s: %v", tag, err)
	}
	out, err := runTimeout(tmp, 30*time.Second, bin)
	if err != nil {
		return nil, "", fmt.Errorf("run %s: %v", tag, err)
	}
	res := map[string]uint64{}
	for _, line := range strings.Split(out, "\n") {
		f := strings.Fields(line)
		if len(f) != 2 {
			continue
		}
		v, err := strconv.ParseUint(f[1], 10, 64)
		if err != nil {
			return nil, "", fmt.Errorf("%s: bad output line %q", tag, line)
		}
		res[f[0]] = v
	}
	note := ""
	if len(skipped) > 0 {
		note = "not evaluated (expansion contains an undefined identifier): " + strings.Join(skipped, " ")
	}
	return res, note, nil
}

var identRe = regexp.MustCompile(`[A-Za-z_][A-Za-z0-9_]*`)

// expandAll textually expands object-like macros (only used to decide whether an expansion
// still contains an identifier the headers do not define; values come from the compiler).
func expandAll(all map[string]string, s string, depth int) string {
	if depth > 20 {
		return s
	}
	return identRe.ReplaceAllStringFunc(s, func(id string) string {
		if v, ok := all[id]; ok {
			return expandAll(all, v, depth+1)
		}
		return id
	})
}

func hasIdent(s string) bool {
	// hex literals like 0x40000000 contain letters: strip numeric tokens first
	s = regexp.MustCompile(`\b0[xX][0-9a-fA-F]+[uUlL]*\b|\b[0-9]+[uUlL]*\b`).ReplaceAllString(s, " ")
	return identRe.MatchString(s)
}

func sortedEntries(m map[string]uint64) []oracleEntry {
	out := make([]oracleEntry, 0, len(m))
	for k, v := range m {
		out = append(out, oracleEntry{k, v})
	}
	sort.Slice(out, func(i, j int) bool { return out[i].Name < out[j].Name })
	return out
}

// goSysnum reads `SYS_X = <int literal>` constants of a zsysnum file.
func goSysnum(path string) (map[string]uint64, string, error) {
	if _, err := os.Stat(path); err != nil {
		return nil, "", fmt.Errorf("missing %s", path)
	}
	f, err := parser.ParseFile(token.NewFileSet(), path, nil, 0)
	if err != nil {
		return nil, "", err
	}
	res := map[string]uint64{}
	var skipped []string
	for _, d := range f.Decls {
		gd, ok := d.(*ast.GenDecl)
		if !ok || gd.Tok != token.CONST {
			continue
		}
		for _, s := range gd.Specs {
			vs := s.(*ast.ValueSpec)
			for i, n := range vs.Names {
				if !strings.HasPrefix(n.Name, "SYS_") {
					continue
				}
				if i >= len(vs.Values) {
					skipped = append(skipped, n.Name)
					continue
				}
				bl, ok := vs.Values[i].(*ast.BasicLit)
				if !ok || bl.Kind != token.INT {
					skipped = append(skipped, n.Name)
					continue
				}
				v, err := strconv.ParseUint(bl.Value, 0, 64)
				if err != nil {
					skipped = append(skipped, n.Name)
					continue
				}
				res[strings.ToLower(strings.TrimPrefix(n.Name, "SYS_"))] = v
			}
		}
	}
	note := ""
	if len(skipped) > 0 {
		sort.Strings(skipped)
		note = "skipped (not an integer literal): " + strings.Join(skipped, " ")
	}
	return res, note, nil
}

// genTableCodes emits Gen/TableCodes.lean: the five tables with Nat-coded names, in source order.
func genTableCodes(t *target, facts map[string]interface{}) error {
	tables, _ := facts["tables"].(map[string][]tableEntry)
	names, _ := facts["tableNames"].([]string)
	var b strings.Builder
	b.WriteString("/-! GENERATED by vextract (oracle.go) from /repo/arch/zsyscalls.go — do not edit.\n" +
		"The syscall tables of `Gen.Tables` with every name replaced by its code `Arch.encBytes` of the\n" +
		"name's UTF-8 bytes: entries are `(name code, number)` in source order.  `Proofs/C12.lean` checks\n" +
		"(kernel evaluation) that each list equals the string table mapped through `Arch.enc`. -/\n\nnamespace Gen\n\n")
	for _, name := range names {
		fmt.Fprintf(&b, "def %s_codes : List (Nat × Nat) := [\n", name)
		es := tables[name]
		for i, e := range es {
			sep := ","
			if i == len(es)-1 {
				sep = ""
			}
			fmt.Fprintf(&b, "  (%s, %d)%s  -- %s\n", nameCode(e.Name).String(), e.Num, sep, strings.ReplaceAll(e.Name, "\n", " "))
		}
		b.WriteString("]\n\n")
		// the same entries sorted by name code (ties by number): lets the kernel check uniqueness and the
		// oracle comparison linearly; Proofs/Lemmas/TableFacts.lean proves `msort … = this list`
		sorted := append([]tableEntry(nil), es...)
		codes := map[string]*big.Int{}
		for _, e := range sorted {
			codes[e.Name] = nameCode(e.Name)
		}
		sort.SliceStable(sorted, func(i, j int) bool {
			c := codes[sorted[i].Name].Cmp(codes[sorted[j].Name])
			if c != 0 {
				return c < 0
			}
			return false // stable: equal codes keep source order, as the structural merge sort does
		})
		fmt.Fprintf(&b, "def %s_sorted : List (Nat × Nat) := [\n", name)
		for i, e := range sorted {
			sep := ","
			if i == len(sorted)-1 {
				sep = ""
			}
			fmt.Fprintf(&b, "  (%s, %d)%s  -- %s\n", codes[e.Name].String(), e.Num, sep, strings.ReplaceAll(e.Name, "\n", " "))
		}
		b.WriteString("]\n\n")
	}
	b.WriteString("def tableCodes : List (String × List (Nat × Nat)) := [")
	for i, name := range names {
		if i > 0 {
			b.WriteString(", ")
		}
		fmt.Fprintf(&b, "(%s, %s_codes)", leanString(name), name)
	}
	b.WriteString("]\n\nend Gen\n")
	writeIfChanged("TableCodes.lean", b.String())
	return nil
}

// genOracle emits Gen/Oracle.lean and the "oracle" part of the JSON mirror.
func genOracle(t *target, facts map[string]interface{}) error {
	tables, _ := facts["tables"].(map[string][]tableEntry)
	tmp, err := os.MkdirTemp("", "vextract-oracle-")
	if err != nil {
		return err
	}
	defer os.RemoveAll(tmp)

	var sources []oracleSource
	add := func(s oracleSource, m map[string]uint64, note string, err error) {
		if err != nil {
			s.Available = false
			s.Note = "source not available: " + err.Error()
			s.Entries = []oracleEntry{}
		} else {
			s.Available = true
			if note != "" {
				if s.Note != "" {
					s.Note += "; "
				}
				s.Note += note
			}
			s.Entries = sortedEntries(m)
		}
		in := map[string]bool{}
		for _, e := range tables[s.Table] {
			in[e.Name] = true
		}
		for _, e := range s.Entries {
			if in[e.Name] {
				s.Shared++
			}
		}
		sources = append(sources, s)
	}

	// --- libseccomp's own syscall tables (an independent transcription of the kernel's tables for every
	// architecture, including the ARM private range 0x0f0000+ that neither the installed x86 headers nor the
	// Go tables list): every number is asked for its name
	{
		const prog = `#include <stdio.h>
#include <stdlib.h>
#include <seccomp.h>
static void dump(const char *tag, unsigned int arch, unsigned int bit) {
  for (unsigned int base = 0; base <= 0x0f0000; base += 0x0f0000)
    for (unsigned int n = 0; n < (base ? 16 : 1200); n++) {
      char *name = seccomp_syscall_resolve_num_arch(arch, (int)(bit | (base + n)));
      if (name) { printf("%s %s %u\n", tag, name, base + n); free(name); }
    }
}
int main(void) {
  dump("syscallsX86_64", SCMP_ARCH_X86_64, 0); dump("syscalls386", SCMP_ARCH_X86, 0);
  dump("syscallsX32", SCMP_ARCH_X32, 0x40000000); dump("syscallsARM", SCMP_ARCH_ARM, 0);
  dump("syscallsAARCH64", SCMP_ARCH_AARCH64, 0);
  return 0;
}
`
		per := map[string]map[string]uint64{}
		var lerr error
		cfile := filepath.Join(tmp, "libseccomp.c")
		bin := filepath.Join(tmp, "libseccomp-dump")
		if err := os.WriteFile(cfile, []byte(prog), 0o644); err != nil {
			lerr = err
		} else if out, err := exec.Command("gcc", "-O0", "-o", bin, cfile, "-lseccomp").CombinedOutput(); err != nil {
			lerr = fmt.Errorf("gcc -lseccomp: %v: %s", err, strings.TrimSpace(string(out)))
		} else if out, err := runTimeout(tmp, 60*time.Second, bin); err != nil {
			lerr = err
		} else {
			for _, l := range strings.Split(strings.TrimSpace(out), "\n") {
				f := strings.Fields(l)
				if len(f) != 3 {
					continue
				}
				v, err := strconv.ParseUint(f[2], 10, 64)
				if err != nil {
					continue
				}
				if per[f[0]] == nil {
					per[f[0]] = map[string]uint64{}
				}
				if _, dup := per[f[0]][f[1]]; !dup { // the lowest number that bears the name
					per[f[0]][f[1]] = v
				}
			}
		}
		for _, tbl := range []string{"syscallsX86_64", "syscalls386", "syscallsX32", "syscallsARM", "syscallsAARCH64"} {
			m := per[tbl]
			err := lerr
			if err == nil && len(m) < 200 {
				err = fmt.Errorf("libseccomp resolved only %d numbers for %s", len(m), tbl)
			}
			add(oracleSource{ID: "libseccomp:" + tbl, Kind: "libseccomp", Table: tbl, Path: "/usr/lib/x86_64-linux-gnu/libseccomp.so (seccomp_syscall_resolve_num_arch)",
				Note: "numbers 0..1199 and 0x0f0000..0x0f000f asked for their names; x32 numbers without __X32_SYSCALL_BIT"}, m, "", err)
		}
	}

	// --- kernel UAPI headers
	nrRe := regexp.MustCompile(`^__NR_([a-z0-9_]+)$`)
	dropSentinel := func(m map[string]uint64) {
		delete(m, "syscalls")
	}
	const x86inc = "/usr/include/x86_64-linux-gnu/asm/"
	{
		m, note, err := cEval(tmp, "unistd_64", x86inc+"unistd_64.h", nil, nrRe, nil)
		dropSentinel(m)
		add(oracleSource{ID: "uapi:asm/unistd_64.h", Kind: "kernel-uapi", Table: "syscallsX86_64", Path: x86inc + "unistd_64.h"}, m, note, err)
	}
	{
		m, note, err := cEval(tmp, "unistd_32", x86inc+"unistd_32.h", nil, nrRe, nil)
		dropSentinel(m)
		add(oracleSource{ID: "uapi:asm/unistd_32.h", Kind: "kernel-uapi", Table: "syscalls386", Path: x86inc + "unistd_32.h"}, m, note, err)
	}
	{
		m, note, err := cEval(tmp, "unistd_x32", x86inc+"unistd_x32.h", []string{fmt.Sprintf("-D__X32_SYSCALL_BIT=0x%x", x32Bit)}, nrRe, nil)
		dropSentinel(m)
		if err == nil {
			for k, v := range m {
				if v&x32Bit == 0 {
					err = fmt.Errorf("unistd_x32.h: __NR_%s = %d lacks __X32_SYSCALL_BIT", k, v)
					break
				}
				m[k] = v &^ x32Bit
			}
		}
		add(oracleSource{ID: "uapi:asm/unistd_x32.h", Kind: "kernel-uapi", Table: "syscallsX32", Path: x86inc + "unistd_x32.h",
			Note: "numbers stored without __X32_SYSCALL_BIT (0x40000000)"}, m, note, err)
	}
	{
		var defs []string
		for _, w := range arm64Wants {
			defs = append(defs, "-D"+w)
		}
		const h = "/usr/include/asm-generic/unistd.h"
		m, note, err := cEval(tmp, "unistd_generic64", h, defs, nrRe, nil)
		dropSentinel(m)
		add(oracleSource{ID: "uapi:asm-generic/unistd.h[arm64]", Kind: "kernel-uapi", Table: "syscallsAARCH64", Path: h,
			Note: "evaluated with " + strings.Join(arm64Wants, " ") + ", __BITS_PER_LONG = 64"}, m, note, err)
	}

	// --- Go standard library and x/sys
	goarches := []struct{ goarch, table string }{{"386", "syscalls386"}, {"amd64", "syscallsX86_64"}, {"arm", "syscallsARM"}, {"arm64", "syscallsAARCH64"}}
	goroot := ""
	if out, err := runTimeout(tmp, 30*time.Second, "go", "env", "GOROOT"); err == nil {
		goroot = strings.TrimSpace(out)
	}
	for _, ga := range goarches {
		p := filepath.Join(goroot, "src", "syscall", "zsysnum_linux_"+ga.goarch+".go")
		m, note, err := goSysnum(p)
		if goroot == "" {
			err = fmt.Errorf("GOROOT unknown")
		}
		add(oracleSource{ID: "go:syscall/" + ga.goarch, Kind: "go-syscall", Table: ga.table, Path: p}, m, note, err)
	}
	modcache := "/root/go/pkg/mod"
	if out, err := runTimeout(tmp, 30*time.Second, "go", "env", "GOMODCACHE"); err == nil && strings.TrimSpace(out) != "" {
		modcache = strings.TrimSpace(out)
	}
	for _, ver := range []string{"v0.19.0", "v0.29.0", "v0.48.0"} {
		for _, ga := range goarches {
			p := filepath.Join(modcache, "golang.org/x/sys@"+ver, "unix", "zsysnum_linux_"+ga.goarch+".go")
			m, note, err := goSysnum(p)
			add(oracleSource{ID: "xsys@" + ver + "/" + ga.goarch, Kind: "x-sys", Table: ga.table, Path: p}, m, note, err)
		}
	}

	// --- AUDIT_ARCH_* by the C compiler
	auditRe := regexp.MustCompile(`^(AUDIT_ARCH_[A-Z0-9_]+)$`)
	am, anote, aerr := cEval(tmp, "audit", "/usr/include/linux/audit.h", nil, auditRe, hasIdent)
	var audits []auditEntry
	auditAvail := aerr == nil
	if aerr != nil {
		anote = "source not available: " + aerr.Error()
	}
	for k, v := range am {
		audits = append(audits, auditEntry{k, v})
	}
	sort.Slice(audits, func(i, j int) bool { return audits[i].Name < audits[j].Name })

	// --- Lean
	var b strings.Builder
	b.WriteString("/-! GENERATED by vextract (oracle.go) — do not edit.  Regenerated on every check run.\n" +
		"Independent sources for C12: kernel UAPI headers evaluated by the C compiler, Go's syscall tables,\n" +
		"golang.org/x/sys.  Entries are `(name code, number)` with code = `Arch.encBytes` of the name's bytes\n" +
		"(the name is in the comment and in work/facts.json), sorted by code;\n" +
		"normalisations are documented in oracle.go. -/\n\n" +
		"namespace Gen.Oracle\n\nstructure Source where\n  id : String\n  table : String\n  available : Bool\n  entries : List (Nat × Nat)\n\n")
	for _, s := range sources {
		id := "src_" + leanTargetIdent(s.ID)
		fmt.Fprintf(&b, "/-- %s (%s) -/\ndef %s : List (Nat × Nat) := [\n", s.ID, s.Path, id)
		byCode := append([]oracleEntry(nil), s.Entries...)
		sort.SliceStable(byCode, func(i, j int) bool { return nameCode(byCode[i].Name).Cmp(nameCode(byCode[j].Name)) < 0 })
		for i, e := range byCode {
			sep := ","
			if i == len(s.Entries)-1 {
				sep = ""
			}
			fmt.Fprintf(&b, "  (%s, %d)%s  -- %s\n", nameCode(e.Name).String(), e.Num, sep, e.Name)
		}
		b.WriteString("]\n\n")
	}
	b.WriteString("def sources : List Source := [\n")
	for i, s := range sources {
		sep := ","
		if i == len(sources)-1 {
			sep = ""
		}
		fmt.Fprintf(&b, "  { id := %s, table := %s, available := %v, entries := src_%s }%s\n", leanString(s.ID), leanString(s.Table), s.Available, leanTargetIdent(s.ID), sep)
	}
	b.WriteString("]\n\n")
	fmt.Fprintf(&b, "/-- `AUDIT_ARCH_*` of linux/audit.h as evaluated by the C compiler -/\ndef auditAvailable : Bool := %v\ndef auditArch : List (String × Nat) := [\n", auditAvail)
	for i, a := range audits {
		sep := ","
		if i == len(audits)-1 {
			sep = ""
		}
		fmt.Fprintf(&b, "  (%s, 0x%x)%s\n", leanString(a.Name), a.Val, sep)
	}
	b.WriteString("]\n\nend Gen.Oracle\n")
	writeIfChanged("Oracle.lean", b.String())

	if audits == nil {
		audits = []auditEntry{}
	}
	facts["oracle"] = map[string]interface{}{
		"sources":        sources,
		"auditArch":      audits,
		"auditAvailable": auditAvail,
		"auditNote":      anote,
		"x32Bit":         x32Bit,
	}
	return nil
}
