package main

import (
	"fmt"
	"go/ast"
	"go/token"
	"strings"

	"golang.org/x/tools/go/packages"
)

// genSandbox renders `main` of cmd/sandbox as a Lean definition over the sandbox world of
// lean/Seccomp/Model/Sandbox.lean (Gen/SandboxSkeleton.lean).  Same principle as skeleton.go:
// a small statement subset, everything else becomes an opaque step of an arbitrary oracle.
//
//	flag.XxxVar(...), flag.Parse(), fmt.Fprintf(os.Stderr, ...)        → no step
//	args := flag.Args()                                               → let args := w.args
//	policy, err := parsePolicy()                                      → parsePolicyS
//	filter := seccomp.Filter{NoNewPrivs: …, Flag: …, Policy: *policy} → record
//	err = seccomp.LoadFilter(filter)                                  → loadFilterS
//	cmd := exec.Command(args[0], args[1:]...)                         → execCommand args
//	cmd.Stdout = os.Stdout (Stdin, Stderr)                            → no step
//	err = cmd.Run()                                                   → cmdRun
//	os.Exit(n)                                                        → terminal
type sbSkel struct {
	p     *packages.Package
	b     strings.Builder
	notes []string
}

func (s *sbSkel) line(indent int, format string, a ...interface{}) {
	s.b.WriteString(strings.Repeat("  ", indent))
	fmt.Fprintf(&s.b, format, a...)
	s.b.WriteByte('\n')
}

func (s *sbSkel) opaque(indent int, n ast.Node, why string) {
	txt := srcText(s.p, n)
	s.notes = append(s.notes, fmt.Sprintf("sandbox main: opaque statement (%s): %s", why, txt))
	s.line(indent, "let w := U.step %s w", leanString(txt))
}

func (s *sbSkel) cond(e ast.Expr) (string, bool) {
	switch x := e.(type) {
	case *ast.BinaryExpr:
		l, r := exprText(x.X), exprText(x.Y)
		switch {
		case x.Op == token.NEQ && r == "nil":
			return fmt.Sprintf("(%s ≠ SErr.nil)", leanIdent(l)), true
		case x.Op == token.EQL && r == "nil":
			return fmt.Sprintf("(%s = SErr.nil)", leanIdent(l)), true
		case x.Op == token.EQL && strings.HasPrefix(l, "len(") && r == "0":
			return fmt.Sprintf("((%s).length = 0)", leanIdent(strings.TrimSuffix(strings.TrimPrefix(l, "len("), ")"))), true
		case x.Op == token.LSS && strings.HasPrefix(l, "len(") && r == "1":
			return fmt.Sprintf("((%s).length < 1)", leanIdent(strings.TrimSuffix(strings.TrimPrefix(l, "len("), ")"))), true
		}
	}
	return "", false
}

func isNoStepCall(fun string) bool {
	return strings.HasPrefix(fun, "flag.") && (strings.HasSuffix(fun, "Var") || fun == "flag.Parse") ||
		fun == "fmt.Fprintf" || fun == "fmt.Fprintln" || fun == "fmt.Printf" || fun == "fmt.Println" || fun == "log.Println" || fun == "log.Printf"
}

// callTerm renders calls that produce values/steps.  kind: "val" (pure), "step2" ((x, err, w)), "step1" ((err, w)).
func (s *sbSkel) callTerm(c *ast.CallExpr) (term, kind string, ok bool) {
	fun := exprText(c.Fun)
	switch fun {
	case "flag.Args":
		return "w.args", "val", true
	case "parsePolicy":
		if len(c.Args) == 0 {
			return "parsePolicyS w", "step2", true
		}
	case "seccomp.LoadFilter":
		if len(c.Args) == 1 {
			return fmt.Sprintf("loadFilterS %s w", leanIdent(exprText(c.Args[0]))), "step1", true
		}
	case "exec.Command":
		// exec.Command(args[0], args[1:]...)
		if len(c.Args) == 2 && c.Ellipsis.IsValid() {
			a0, a1 := exprText(c.Args[0]), exprText(c.Args[1])
			if strings.HasSuffix(a0, "[0]") && strings.HasSuffix(a1, "[1:]") && strings.TrimSuffix(a0, "[0]") == strings.TrimSuffix(a1, "[1:]") {
				return fmt.Sprintf("execCommand %s", leanIdent(strings.TrimSuffix(a0, "[0]"))), "val", true
			}
		}
	}
	if sel, isSel := c.Fun.(*ast.SelectorExpr); isSel && sel.Sel.Name == "Run" && len(c.Args) == 0 {
		if id, isID := sel.X.(*ast.Ident); isID {
			if t := s.p.TypesInfo.TypeOf(id); t != nil && t.String() == "*os/exec.Cmd" {
				return fmt.Sprintf("cmdRun %s w", leanIdent(id.Name)), "step1", true
			}
		}
	}
	return "", "", false
}

func (s *sbSkel) stmts(list []ast.Stmt, indent int) {
	if len(list) == 0 {
		s.line(indent, "(SOutcome.returned, w)")
		return
	}
	st, rest := list[0], list[1:]
	if sw, isSwitch := st.(*ast.SwitchStmt); isSwitch {
		if is, ok := desugarSwitch(sw); ok {
			st = is
			if blk, isBlk := is.(*ast.BlockStmt); isBlk && len(blk.List) == 0 {
				s.stmts(rest, indent)
				return
			}
		}
	}
	switch x := st.(type) {
	case *ast.ExprStmt:
		if c, ok := x.X.(*ast.CallExpr); ok {
			fun := exprText(c.Fun)
			if isNoStepCall(fun) {
				s.line(indent, "-- %s  (no step)", srcText(s.p, x))
				s.stmts(rest, indent)
				return
			}
			if fun == "os.Exit" && len(c.Args) == 1 {
				if v, ok := constUint(s.p, c.Args[0]); ok {
					s.line(indent, "(SOutcome.exit %d, w)  -- %s", v, srcText(s.p, x))
					return
				}
			}
		}
		s.opaque(indent, x, "expression statement outside the subset")
		s.stmts(rest, indent)
	case *ast.AssignStmt:
		if len(x.Rhs) == 1 {
			// field assignments of the command's standard streams
			if len(x.Lhs) == 1 {
				r := exprText(x.Rhs[0])
				stdField := false
				if sel, isSel := x.Lhs[0].(*ast.SelectorExpr); isSel {
					if id, isID := sel.X.(*ast.Ident); isID {
						if t := s.p.TypesInfo.TypeOf(id); t != nil && t.String() == "*os/exec.Cmd" {
							stdField = sel.Sel.Name == "Stdin" || sel.Sel.Name == "Stdout" || sel.Sel.Name == "Stderr"
						}
					}
				}
				if stdField && strings.HasPrefix(r, "os.Std") {
					s.line(indent, "-- %s  (no step)", srcText(s.p, x))
					s.stmts(rest, indent)
					return
				}
			}
			if c, ok := x.Rhs[0].(*ast.CallExpr); ok {
				if term, kind, ok := s.callTerm(c); ok {
					var names []string
					for _, l := range x.Lhs {
						names = append(names, leanIdent(exprText(l)))
					}
					switch {
					case kind == "val" && len(names) == 1:
						s.line(indent, "let %s := %s  -- %s", names[0], term, srcText(s.p, x))
					case kind == "step2" && len(names) == 2:
						s.line(indent, "let (%s, %s, w) := %s  -- %s", names[0], names[1], term, srcText(s.p, x))
					case kind == "step1" && len(names) == 1:
						s.line(indent, "let (%s, w) := %s  -- %s", names[0], term, srcText(s.p, x))
					default:
						s.opaque(indent, x, "result arity")
					}
					s.stmts(rest, indent)
					return
				}
			}
			// filter := seccomp.Filter{…}
			if cl, ok := x.Rhs[0].(*ast.CompositeLit); ok && exprText(cl.Type) == "seccomp.Filter" && len(x.Lhs) == 1 {
				fields := map[string]string{}
				good := true
				for _, el := range cl.Elts {
					kv, ok := el.(*ast.KeyValueExpr)
					if !ok {
						good = false
						break
					}
					key, val := exprText(kv.Key), exprText(kv.Value)
					switch key {
					case "NoNewPrivs":
						if val == "noNewPrivs" {
							fields["noNewPrivs"] = "w.noNewPrivsFlag"
						} else if val == "true" || val == "false" {
							fields["noNewPrivs"] = val
						} else {
							good = false
						}
					case "Flag":
						if v, ok := constUint(s.p, kv.Value); ok {
							fields["flag"] = fmt.Sprintf("%d", v)
						} else {
							good = false
						}
					case "Policy":
						if strings.HasPrefix(val, "*") {
							fields["policy"] = leanIdent(val[1:])
						} else {
							good = false
						}
					default:
						good = false
					}
				}
				if good {
					if _, ok := fields["noNewPrivs"]; !ok {
						fields["noNewPrivs"] = "false"
					}
					if _, ok := fields["flag"]; !ok {
						fields["flag"] = "0"
					}
					if _, ok := fields["policy"]; ok {
						s.line(indent, "let %s : SFilter := { noNewPrivs := %s, flag := %s, policy := %s }  -- %s",
							leanIdent(exprText(x.Lhs[0])), fields["noNewPrivs"], fields["flag"], fields["policy"], srcText(s.p, x))
						s.stmts(rest, indent)
						return
					}
				}
			}
		}
		s.opaque(indent, x, "assignment outside the subset")
		s.stmts(rest, indent)
	case *ast.IfStmt:
		if x.Init != nil {
			inner := *x
			inner.Init = nil
			s.stmts(append([]ast.Stmt{x.Init, &inner}, rest...), indent)
			return
		}
		c, ok := s.cond(x.Cond)
		if !ok {
			s.opaque(indent, x, "condition outside the subset")
			s.stmts(rest, indent)
			return
		}
		s.line(indent, "if %s then", c)
		s.stmts(append(append([]ast.Stmt{}, x.Body.List...), rest...), indent+1)
		s.line(indent, "else")
		switch e := x.Else.(type) {
		case nil:
			s.stmts(rest, indent+1)
		case *ast.BlockStmt:
			s.stmts(append(append([]ast.Stmt{}, e.List...), rest...), indent+1)
		case *ast.IfStmt:
			s.stmts(append([]ast.Stmt{e}, rest...), indent+1)
		}
	case *ast.ReturnStmt:
		s.line(indent, "(SOutcome.returned, w)  -- %s", srcText(s.p, x))
	default:
		s.opaque(indent, st, "statement outside the subset")
		s.stmts(rest, indent)
	}
}

func genSandbox(t *target, facts map[string]interface{}) error {
	p := t.pkgs["cmd/sandbox"]
	var b strings.Builder
	b.WriteString("import Seccomp.Model.Sandbox\n")
	b.WriteString("/-! GENERATED by vextract from /repo/cmd/sandbox/main.go — do not edit.  Regenerated on every check run. -/\n\nnamespace Gen\n\n")
	var notes []string
	rendered := ""
	if p == nil || funcDecl(p, "main") == nil {
		notes = append(notes, "cmd/sandbox main not found")
		b.WriteString("def sandboxMain (U : SUnsupported) (w : SWorld) : SOutcome × SWorld := (SOutcome.returned, U.step \"missing main\" w)\n\n")
	} else {
		s := &sbSkel{p: p}
		fd := funcDecl(p, "main")
		s.line(0, "/-- `main` of cmd/sandbox -/")
		s.line(0, "def sandboxMain (U : SUnsupported) (w : SWorld) : SOutcome × SWorld :=")
		s.stmts(fd.Body.List, 1)
		rendered = s.b.String()
		b.WriteString(rendered)
		b.WriteString("\n")
		notes = append(notes, s.notes...)
		// parsePolicy: which loader and which struct it unpacks into
		if pp := funcDecl(p, "parsePolicy"); pp != nil {
			uses := []string{}
			ast.Inspect(pp.Body, func(n ast.Node) bool {
				if c, ok := n.(*ast.CallExpr); ok {
					uses = append(uses, exprText(c.Fun))
				}
				return true
			})
			fmt.Fprintf(&b, "/-- calls made by `parsePolicy`, in source order -/\ndef parsePolicyCalls : List String := [%s]\n\n", joinLeanStrings(uses))
			facts["parsePolicyCalls"] = uses
		}
	}
	fmt.Fprintf(&b, "def sandboxNotes : List String := [%s]\n\nend Gen\n", joinLeanStrings(notes))
	writeIfChanged("SandboxSkeleton.lean", b.String())
	facts["sandboxSkeleton"] = rendered
	facts["sandboxNotes"] = notes
	return nil
}
