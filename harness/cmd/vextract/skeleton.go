package main

import (
	"fmt"
	"go/ast"
	"go/constant"
	"go/token"
	"go/types"
	"strconv"
	"strings"

	"golang.org/x/tools/go/packages"
)

// The skeleton translator renders the loader functions of seccomp_linux.go as Lean definitions
// in state-passing style over the abstract kernel of lean/Seccomp/Model/Kernel.lean:
//
//	def seccomp (U : Unsupported) (op : Nat) (flags : Nat) (uargs : Option Prog) (w : World) : GoErr × World := …
//
// Statement subset: `x, y := f(…)`, `x = f(…)`, `x := expr`, `if [init;] cond { … } [else { … }]`,
// `return …`, `defer f()`, expression statements, `var x [N]T`, `copy(x[:], y)`.  An `if` whose
// branch falls through gets the rest of the function inlined into both branches (so that a `defer`
// executed in one branch is statically known at every `return`).  A statement outside the subset is
// rendered as the opaque step `U.step "<source text>" w`, an expression outside the subset makes its
// statement opaque; nothing can be proved about `U`, so a restructured function breaks its
// obligations visibly instead of being misread.

type skel struct {
	p        *packages.Package
	fn       *ast.FuncDecl
	b        strings.Builder
	nresults int
	resErr   bool // the single result is `error`
	resBool  bool // the single result is `bool`
	mode     string
	notes    []string

	// generalisations used by other skeleton families (cache.go); all nil/zero for the loader
	callHook   func(s *skel, c *ast.CallExpr) (term string, nres int, handled bool, err error)
	exprHook   func(s *skel, e ast.Expr, want string) (v string, handled bool, err error)
	stmtHook   func(s *skel, st ast.Stmt, indent int) (handled bool)
	resTwo     bool                    // results are (string, error): rendered as a pair
	nested     bool                    // primitives return ((r1, r2), w) instead of (r1, r2, w)
	bindDefers bool                    // deferred calls are bound to a variable at the defer statement
	extraBinds []string                // arguments the last rendered call rebinds (slices it writes to)
	names      map[types.Object]string // Lean name per Go object (shadowing-safe)
	used       map[string]int
	ndefer     int

	// unexported helper functions of the package called from the rendered function: each is rendered
	// once as a local function (`let h_f := fun … (w : World) => …` in front of the body), so that
	// unfolding the rendering unfolds the helpers too.  paramType maps a Go parameter type to Lean.
	hs        *helperSet
	paramType func(types.Type) string
	ncond     int
}

type helperSet struct {
	names   map[*types.Func]string
	nres    map[*types.Func]int
	prelude []string
	busy    map[*types.Func]bool
}

func newHelperSet() *helperSet {
	return &helperSet{names: map[*types.Func]string{}, nres: map[*types.Func]int{}, busy: map[*types.Func]bool{}}
}

// helperCall renders a call of an unexported, receiver-less function of the same package whose
// parameters have types the family knows and whose results are (), (error), (bool) — or (string,
// error) in a family with pair results.  The helper's body is rendered by the same translator.
func (s *skel) helperCall(c *ast.CallExpr) (term string, nres int, ok bool) {
	if s.hs == nil || s.paramType == nil {
		return "", 0, false
	}
	id, isID := c.Fun.(*ast.Ident)
	if !isID {
		return "", 0, false
	}
	fn, isFn := s.p.TypesInfo.Uses[id].(*types.Func)
	if !isFn || fn.Pkg() != s.p.Types || fn.Exported() {
		return "", 0, false
	}
	sig := fn.Type().(*types.Signature)
	if sig.Recv() != nil || sig.Variadic() || sig.Params().Len() != len(c.Args) {
		return "", 0, false
	}
	var args []string
	for _, a := range c.Args {
		v, err := s.expr(a, "")
		if err != nil {
			return "", 0, false
		}
		args = append(args, paren(v))
	}
	if name, done := s.hs.names[fn]; done {
		return fmt.Sprintf("%s %s w", name, strings.Join(args, " ")), s.hs.nres[fn], true
	}
	if s.hs.busy[fn] {
		return "", 0, false
	}
	fd := funcDecl(s.p, fn.Name())
	if fd == nil || fd.Body == nil || len(fd.Body.List) == 0 {
		return "", 0, false
	}
	h := &skel{p: s.p, fn: fd, callHook: s.callHook, exprHook: s.exprHook, stmtHook: s.stmtHook, nested: s.nested, bindDefers: s.bindDefers,
		hs: s.hs, paramType: s.paramType, ndefer: 100 * (len(s.hs.names) + 1)}
	res := sig.Results()
	switch {
	case res.Len() == 0:
	case res.Len() == 1 && res.At(0).Type().String() == "error":
		h.nresults, h.resErr = 1, true
	case res.Len() == 1 && res.At(0).Type().String() == "bool":
		h.nresults, h.resBool = 1, true
	case res.Len() == 2 && s.resTwo && res.At(0).Type().String() == "string" && res.At(1).Type().String() == "error":
		h.nresults, h.resTwo = 2, true
	default:
		return "", 0, false
	}
	var params []string
	for _, f := range fd.Type.Params.List {
		lt := s.paramType(s.p.TypesInfo.TypeOf(f.Type))
		if lt == "" {
			return "", 0, false
		}
		for _, n := range f.Names {
			params = append(params, fmt.Sprintf("(%s : %s)", h.ident(n), lt))
		}
	}
	s.hs.busy[fn] = true
	h.stmts(fd.Body.List, 3, nil)
	delete(s.hs.busy, fn)
	if len(h.notes) > 0 {
		s.notes = append(s.notes, h.notes...)
		return "", 0, false
	}
	name := "h_" + leanTargetIdent(fn.Name())
	s.hs.prelude = append(s.hs.prelude, fmt.Sprintf("  let %s := fun %s (w : World) =>  -- func %s\n%s", name, strings.Join(params, " "), fn.Name(), h.b.String()))
	s.hs.names[fn] = name
	s.hs.nres[fn] = h.nresults
	return fmt.Sprintf("%s %s w", name, strings.Join(args, " ")), h.nresults, true
}

// ident returns the Lean name of a Go identifier.  The first object with a given name keeps the
// name; a different object with the same name (a variable that shadows another one, as `err` in
// `n, err := f.Read(buf)` inside a block) gets a numbered name, so that code after the block still
// refers to the outer variable.
func (s *skel) ident(id *ast.Ident) string {
	if id.Name == "_" {
		return "_"
	}
	obj := s.p.TypesInfo.ObjectOf(id)
	if obj == nil {
		return leanIdent(id.Name)
	}
	if _, isVar := obj.(*types.Var); !isVar {
		return leanIdent(id.Name)
	}
	if s.names == nil {
		s.names = map[types.Object]string{}
		s.used = map[string]int{}
	}
	if n, ok := s.names[obj]; ok {
		return n
	}
	base := leanIdent(id.Name)
	n := base
	if k := s.used[base]; k > 0 {
		n = fmt.Sprintf("%s_%d", base, k)
	}
	s.used[base]++
	s.names[obj] = n
	return n
}

// lhsName renders an assignment target that is a plain identifier.
func (s *skel) lhsName(e ast.Expr) string {
	if id, ok := e.(*ast.Ident); ok {
		return s.ident(id)
	}
	return leanIdent(exprText(e))
}

func (s *skel) typeOf(e ast.Expr) types.Type {
	if tv, ok := s.p.TypesInfo.Types[e]; ok {
		return tv.Type
	}
	if id, ok := e.(*ast.Ident); ok {
		if obj := s.p.TypesInfo.ObjectOf(id); obj != nil {
			return obj.Type()
		}
	}
	return nil
}

func isErrorType(t types.Type) bool {
	return t != nil && t.String() == "error"
}

func isErrnoType(t types.Type) bool {
	return t != nil && t.String() == "syscall.Errno"
}

func leanIdent(name string) string {
	switch name {
	case "_":
		return "_"
	case "end", "at", "from", "fun", "match", "with", "then", "else", "do", "let", "have", "show", "in", "by", "open", "instance", "class", "structure", "def", "theorem", "where", "deriving":
		return name + "'"
	case "w", "U", "r", "some", "none", "true", "false":
		// names the renderings use themselves (the world, the oracle of untranslated statements,
		// the result of a returned call) or constructors of the target language
		return name + "_"
	}
	return name
}

type unsupportedExpr struct{ text string }

func (u unsupportedExpr) Error() string { return "unsupported expression: " + u.text }

// expr renders a value expression.  want = "err" coerces errno constants/values to GoErr.
func (s *skel) expr(e ast.Expr, want string) (string, error) {
	if tv, ok := s.p.TypesInfo.Types[e]; ok && tv.Value != nil && tv.Value.Kind() == constant.Int {
		v, _ := constant.Uint64Val(tv.Value)
		lit := fmt.Sprintf("%d", v)
		if want == "err" || (want == "auto" && isErrnoType(tv.Type) && false) {
			return fmt.Sprintf("(GoErr.errno %s)", lit), nil
		}
		return lit, nil
	}
	if tv, ok := s.p.TypesInfo.Types[e]; ok && tv.Value != nil && tv.Value.Kind() == constant.Bool {
		if constant.BoolVal(tv.Value) {
			return "true", nil
		}
		return "false", nil
	}
	if s.exprHook != nil {
		if v, handled, err := s.exprHook(s, e, want); handled {
			return v, err
		}
	}
	switch x := e.(type) {
	case *ast.ParenExpr:
		return s.expr(x.X, want)
	case *ast.Ident:
		if x.Name == "nil" {
			if want == "err" {
				return "GoErr.nil", nil
			}
			return "none", nil
		}
		if want == "err" && isErrnoType(s.typeOf(x)) {
			return fmt.Sprintf("(GoErr.errno %s)", s.ident(x)), nil
		}
		return s.ident(x), nil
	case *ast.SelectorExpr:
		if id, ok := x.X.(*ast.Ident); ok {
			// field of a struct-typed parameter or variable
			if _, isVar := s.p.TypesInfo.ObjectOf(id).(*types.Var); isVar {
				f := x.Sel.Name
				return fmt.Sprintf("%s.%s", s.ident(id), strings.ToLower(f[:1])+f[1:]), nil
			}
		}
		return "", unsupportedExpr{exprText(e)}
	case *ast.CallExpr:
		fun := exprText(x.Fun)
		switch {
		case fun == "uintptr" || fun == "unsafe.Pointer" || fun == "uint32" || fun == "int" || fun == "FilterFlag":
			return s.expr(x.Args[0], want)
		case fun == "len" && len(x.Args) == 1:
			a, err := s.expr(x.Args[0], "")
			if err != nil {
				return "", err
			}
			return fmt.Sprintf("(%s).length", a), nil
		case fun == "fmt.Errorf" || fun == "errors.New":
			inner := "GoErr.nil"
			if len(x.Args) > 1 {
				last := x.Args[len(x.Args)-1]
				if isErrorType(s.typeOf(last)) {
					v, err := s.expr(last, "err")
					if err != nil {
						return "", err
					}
					inner = v
				}
			}
			format := "?"
			if str, ok := constString(s.p, x.Args[0]); ok {
				format = str
			}
			return fmt.Sprintf("(GoErr.wrapped %s %s)", leanString(format), inner), nil
		case fun == "sockFilter" && len(x.Args) == 1:
			a, err := s.expr(x.Args[0], "")
			if err != nil {
				return "", err
			}
			return fmt.Sprintf("(sockFilter %s)", a), nil
		}
		return "", unsupportedExpr{exprText(e)}
	case *ast.IndexExpr:
		a, err := s.expr(x.X, "")
		if err != nil {
			return "", err
		}
		i, err := s.expr(x.Index, "")
		if err != nil {
			return "", err
		}
		return fmt.Sprintf("(%s).getD %s 0", a, i), nil
	case *ast.UnaryExpr:
		if x.Op == token.AND {
			// &syscall.SockFprog{Len: uint16(len(X)), Filter: &X[0]}
			if cl, ok := x.X.(*ast.CompositeLit); ok && strings.HasSuffix(exprText(cl.Type), "SockFprog") && len(cl.Elts) == 2 {
				var lenOf, filterOf string
				for _, el := range cl.Elts {
					kv, ok := el.(*ast.KeyValueExpr)
					if !ok {
						return "", unsupportedExpr{exprText(e)}
					}
					switch exprText(kv.Key) {
					case "Len":
						txt := exprText(kv.Value)
						if strings.HasPrefix(txt, "uint16(len(") && strings.HasSuffix(txt, "))") {
							lenOf = txt[len("uint16(len(") : len(txt)-2]
						}
					case "Filter":
						txt := exprText(kv.Value)
						if strings.HasPrefix(txt, "&") && strings.HasSuffix(txt, "[0]") {
							filterOf = txt[1 : len(txt)-3]
						}
					}
				}
				if lenOf != "" && lenOf == filterOf {
					return fmt.Sprintf("(mkFprog %s)", leanIdent(lenOf)), nil
				}
			}
		}
		if x.Op == token.NOT {
			c, err := s.cond(x.X)
			if err != nil {
				return "", err
			}
			return fmt.Sprintf("(¬ %s)", c), nil
		}
		return "", unsupportedExpr{exprText(e)}
	case *ast.BinaryExpr:
		if x.Op == token.AND {
			a, err := s.expr(x.X, "")
			if err != nil {
				return "", err
			}
			b, err := s.expr(x.Y, "")
			if err != nil {
				return "", err
			}
			return fmt.Sprintf("(%s &&& %s)", a, b), nil
		}
		return "", unsupportedExpr{exprText(e)}
	}
	return "", unsupportedExpr{exprText(e)}
}

// cond renders a boolean expression as a decidable proposition.
func (s *skel) cond(e ast.Expr) (string, error) {
	switch x := e.(type) {
	case *ast.ParenExpr:
		return s.cond(x.X)
	case *ast.BinaryExpr:
		switch x.Op {
		case token.LAND, token.LOR:
			a, err := s.cond(x.X)
			if err != nil {
				return "", err
			}
			b, err := s.cond(x.Y)
			if err != nil {
				return "", err
			}
			op := "∧"
			if x.Op == token.LOR {
				op = "∨"
			}
			return fmt.Sprintf("(%s %s %s)", a, op, b), nil
		case token.EQL, token.NEQ, token.GTR, token.LSS, token.GEQ, token.LEQ:
			want := ""
			if isErrorType(s.typeOf(x.X)) || isErrorType(s.typeOf(x.Y)) {
				want = "err"
			}
			a, err := s.expr(x.X, want)
			if err != nil {
				return "", err
			}
			b, err := s.expr(x.Y, want)
			if err != nil {
				return "", err
			}
			op := map[token.Token]string{token.EQL: "=", token.NEQ: "≠", token.GTR: ">", token.LSS: "<", token.GEQ: "≥", token.LEQ: "≤"}[x.Op]
			return fmt.Sprintf("(%s %s %s)", a, op, b), nil
		}
	case *ast.UnaryExpr:
		if x.Op == token.NOT {
			c, err := s.cond(x.X)
			if err != nil {
				return "", err
			}
			return fmt.Sprintf("(¬ %s)", c), nil
		}
	}
	if t := s.typeOf(e); t != nil && t.Underlying().String() == "bool" {
		v, err := s.expr(e, "")
		if err != nil {
			return "", err
		}
		return fmt.Sprintf("(%s = true)", v), nil
	}
	return "", unsupportedExpr{exprText(e)}
}

// call renders a call that may touch the world.  It returns the Lean term (applied to `w`), the
// number of Go results, and whether the term returns the world.
func (s *skel) call(c *ast.CallExpr) (term string, nres int, err error) {
	s.extraBinds = nil
	if s.callHook != nil {
		if term, nres, handled, err := s.callHook(s, c); handled {
			return term, nres, err
		}
	}
	fun := exprText(c.Fun)
	args := func(want ...string) ([]string, error) {
		out := make([]string, len(c.Args))
		for i, a := range c.Args {
			w := ""
			if i < len(want) {
				w = want[i]
			}
			v, err := s.expr(a, w)
			if err != nil {
				return nil, err
			}
			out[i] = v
		}
		return out, nil
	}
	switch fun {
	case "syscall.Syscall", "syscall.Syscall6", "syscall.RawSyscall", "syscall.RawSyscall6":
		if len(c.Args) == 0 {
			return "", 0, unsupportedExpr{exprText(c)}
		}
		sys := exprText(c.Args[0])
		a, err := args()
		if err != nil {
			return "", 0, err
		}
		switch {
		case strings.HasSuffix(sys, "SYS_SECCOMP") && len(a) == 4:
			return fmt.Sprintf("sysSeccomp %s %s %s w", paren(a[1]), paren(a[2]), paren(a[3])), 3, nil
		case strings.HasSuffix(sys, "SYS_PRCTL") && len(a) == 7:
			if a[6] != "0" {
				return "", 0, unsupportedExpr{exprText(c)}
			}
			return fmt.Sprintf("sysPrctl %s %s %s %s %s w", paren(a[1]), paren(a[2]), paren(a[3]), paren(a[4]), paren(a[5])), 3, nil
		}
		return "", 0, unsupportedExpr{exprText(c)}
	case "runtime.LockOSThread":
		return "lockOSThread w", 0, nil
	case "runtime.UnlockOSThread":
		return "unlockOSThread w", 0, nil
	case "filter.Policy.Assemble":
		return "policyAssemble filter.policy", 2, nil
	case "bpf.Assemble":
		a, err := args()
		if err != nil {
			return "", 0, err
		}
		return fmt.Sprintf("bpfAssemble %s", paren(a[0])), 2, nil
	}
	// a function of the package itself
	if id, ok := c.Fun.(*ast.Ident); ok {
		if fd := funcDecl(s.p, id.Name); fd != nil {
			if fd.Body != nil && len(fd.Body.List) == 0 && (fd.Type.Results == nil || len(fd.Type.Results.List) == 0) {
				// a function with an empty body (the verif hook without the tag): no step at all
				return "", -1, nil
			}
			if skeletonFuncs[id.Name] {
				var a []string
				variadic := fd.Type.Params != nil && len(fd.Type.Params.List) > 0
				if variadic {
					_, variadic = fd.Type.Params.List[len(fd.Type.Params.List)-1].Type.(*ast.Ellipsis)
				}
				nfixed := 0
				for _, f := range fd.Type.Params.List {
					nfixed += len(f.Names)
				}
				if variadic {
					nfixed--
				}
				for i, arg := range c.Args {
					v, err := s.expr(arg, "")
					if err != nil {
						return "", 0, err
					}
					if variadic && i >= nfixed {
						continue
					}
					a = append(a, paren(v))
				}
				if variadic {
					var rest []string
					for _, arg := range c.Args[nfixed:] {
						v, _ := s.expr(arg, "")
						rest = append(rest, v)
					}
					a = append(a, "["+strings.Join(rest, ", ")+"]")
				}
				n := 0
				if fd.Type.Results != nil {
					n = len(fd.Type.Results.List)
				}
				return fmt.Sprintf("%s U %s w", leanFuncName(id.Name), strings.Join(a, " ")), n, nil
			}
		}
	}
	if term, nres, ok := s.helperCall(c); ok {
		return term, nres, nil
	}
	return "", 0, unsupportedExpr{exprText(c)}
}

func paren(s string) string {
	if !strings.ContainsAny(s, " ") {
		return s
	}
	if strings.HasPrefix(s, "(") || strings.HasPrefix(s, "[") {
		// already enclosed if the opening bracket closes at the very end
		depth := 0
		for i, c := range s {
			switch c {
			case '(', '[':
				depth++
			case ')', ']':
				depth--
				if depth == 0 {
					if i == len(s)-1 {
						return s
					}
					return "(" + s + ")"
				}
			}
		}
	}
	return "(" + s + ")"
}

var skeletonFuncs = map[string]bool{"Supported": true, "SetNoNewPrivs": true, "LoadFilter": true, "prctl": true, "seccomp": true}

func leanFuncName(goName string) string {
	return strings.ToLower(goName[:1]) + goName[1:]
}

func (s *skel) line(indent int, format string, a ...interface{}) {
	s.b.WriteString(strings.Repeat("  ", indent))
	fmt.Fprintf(&s.b, format, a...)
	s.b.WriteByte('\n')
}

func srcText(p *packages.Package, n ast.Node) string {
	var b strings.Builder
	fset := p.Fset
	if !n.Pos().IsValid() || !n.End().IsValid() || n.End() < n.Pos() {
		return "(rewritten statement)" // a node synthesised by the translator (desugared switch)
	}
	start, end := fset.Position(n.Pos()), fset.Position(n.End())
	data, err := readFileCached(start.Filename)
	if err != nil || start.Filename != end.Filename || end.Offset > len(data) || start.Offset > end.Offset {
		return "?"
	}
	b.Write(data[start.Offset:end.Offset])
	txt := strings.Join(strings.Fields(b.String()), " ")
	if len(txt) > 160 {
		txt = txt[:160] + "…"
	}
	return txt
}

func (s *skel) applyDefers(defers []string) string {
	w := "w"
	for i := len(defers) - 1; i >= 0; i-- {
		w = fmt.Sprintf("(%s %s)", defers[i], w)
	}
	return w
}

func (s *skel) opaque(indent int, n ast.Node, why string) {
	txt := srcText(s.p, n)
	s.notes = append(s.notes, fmt.Sprintf("%s: opaque statement (%s): %s", s.fn.Name.Name, why, txt))
	s.line(indent, "let w := U.step %s w", leanString(txt))
}

// stmts renders a statement list; defers is the static list of deferred world steps.
func (s *skel) stmts(list []ast.Stmt, indent int, defers []string) {
	if len(list) == 0 {
		// falling off the end of a function without results
		if s.nresults == 0 {
			s.line(indent, "((), %s)", s.applyDefers(defers))
		} else {
			s.line(indent, "(%s, %s)", s.noReturn(), s.applyDefers(defers))
		}
		return
	}
	st, rest := list[0], list[1:]
	if sw, isSwitch := st.(*ast.SwitchStmt); isSwitch {
		if is, ok := desugarSwitch(sw); ok {
			st = is
			if blk, isBlk := is.(*ast.BlockStmt); isBlk && len(blk.List) == 0 {
				s.stmts(rest, indent, defers)
				return
			}
		}
	}
	if s.stmtHook != nil && s.stmtHook(s, st, indent) {
		s.stmts(rest, indent, defers)
		return
	}
	switch x := st.(type) {
	case *ast.ReturnStmt:
		s.ret(x, indent, defers)
		return
	case *ast.DeferStmt:
		term, _, err := s.call(x.Call)
		if err != nil || !strings.HasSuffix(term, " w") || strings.Contains(term, " U ") {
			txt := srcText(s.p, x)
			s.notes = append(s.notes, "opaque defer: "+txt)
			s.stmts(rest, indent, append(append([]string{}, defers...), "U.step "+leanString(txt)))
			return
		}
		if s.bindDefers {
			// the deferred call's receiver and arguments are evaluated now
			s.ndefer++
			name := fmt.Sprintf("dfr%d", s.ndefer)
			s.line(indent, "let %s : World → World := deferred (%s)  -- %s", name, strings.TrimSuffix(term, " w"), srcText(s.p, x))
			s.stmts(rest, indent, append(append([]string{}, defers...), name))
			return
		}
		s.line(indent, "-- %s", srcText(s.p, x))
		s.stmts(rest, indent, append(append([]string{}, defers...), strings.TrimSuffix(term, " w")))
		return
	case *ast.IfStmt:
		if x.Init != nil {
			// the init statement is executed first; its variables stay visible (a superset of Go's scope)
			inner := *x
			inner.Init = nil
			s.stmts(append([]ast.Stmt{x.Init, &inner}, rest...), indent, defers)
			return
		}
		c, err := s.cond(x.Cond)
		if err != nil {
			// `if helper(args) {` / `if !helper(args) {` with a helper that steps the world: evaluate it first
			inner, neg := ast.Unparen(x.Cond), false
			if u, isNot := inner.(*ast.UnaryExpr); isNot && u.Op == token.NOT {
				inner, neg = ast.Unparen(u.X), true
			}
			if call, isCall := inner.(*ast.CallExpr); isCall {
				if term, nres, ok := s.helperCall(call); ok && nres == 1 && s.typeOf(call) != nil && s.typeOf(call).String() == "bool" {
					s.ncond++
					cv := fmt.Sprintf("cnd%d", s.ncond)
					s.line(indent, "let (%s, w) := %s  -- %s", cv, term, exprText(call))
					c, err = fmt.Sprintf("(%s = %v)", cv, !neg), nil
				}
			}
		}
		if err != nil {
			s.opaque(indent, x, err.Error())
			s.stmts(rest, indent, defers)
			return
		}
		s.line(indent, "if %s then", c)
		s.stmts(append(append([]ast.Stmt{}, x.Body.List...), rest...), indent+1, defers)
		s.line(indent, "else")
		switch e := x.Else.(type) {
		case nil:
			s.stmts(rest, indent+1, defers)
		case *ast.BlockStmt:
			s.stmts(append(append([]ast.Stmt{}, e.List...), rest...), indent+1, defers)
		case *ast.IfStmt:
			s.stmts(append([]ast.Stmt{e}, rest...), indent+1, defers)
		}
		return
	case *ast.AssignStmt:
		if len(x.Rhs) == 1 {
			if c, ok := x.Rhs[0].(*ast.CallExpr); ok {
				if term, nres, err := s.call(c); err == nil && nres >= 0 {
					extra := s.extraBinds
					var names []string
					for _, l := range x.Lhs {
						names = append(names, s.lhsName(l))
					}
					if s.nested && strings.HasSuffix(term, " w") {
						pat := strings.Join(names, ", ")
						if len(names) > 1 {
							pat = "(" + pat + ")"
						}
						for _, e := range extra {
							pat += ", " + e
						}
						s.line(indent, "let (%s, w) := %s  -- %s", pat, term, srcText(s.p, x))
					} else if s.nested && len(names) == 1 {
						s.line(indent, "let %s := %s  -- %s", names[0], term, srcText(s.p, x))
					} else if nres == 3 && len(names) == 3 {
						// r1, r2, errno: the kernel model returns (r1, errno, world)
						if names[1] != "_" {
							s.opaque(indent, x, "second result of a raw syscall is used")
						} else {
							s.line(indent, "let (%s, %s, w) := %s  -- %s", names[0], names[2], term, srcText(s.p, x))
						}
					} else if strings.HasSuffix(term, " w") {
						s.line(indent, "let (%s, w) := %s  -- %s", strings.Join(names, ", "), term, srcText(s.p, x))
					} else {
						s.line(indent, "let (%s) := %s  -- %s", strings.Join(names, ", "), term, srcText(s.p, x))
					}
					s.stmts(rest, indent, defers)
					return
				}
			}
			// a plain expression
			if len(x.Lhs) == 1 {
				want := ""
				if isErrorType(s.typeOf(x.Lhs[0])) {
					want = "err"
				}
				if v, err := s.expr(x.Rhs[0], want); err == nil {
					s.line(indent, "let %s := %s  -- %s", s.lhsName(x.Lhs[0]), v, srcText(s.p, x))
					s.stmts(rest, indent, defers)
					return
				}
			}
		}
		s.opaque(indent, x, "assignment outside the subset")
		s.stmts(rest, indent, defers)
		return
	case *ast.ExprStmt:
		if c, ok := x.X.(*ast.CallExpr); ok {
			if exprText(c.Fun) == "copy" && len(c.Args) == 2 {
				dst := strings.TrimSuffix(exprText(c.Args[0]), "[:]")
				src, err := s.expr(c.Args[1], "")
				if err == nil && dst != exprText(c.Args[0]) {
					s.line(indent, "let %s := copyInto %s %s  -- %s", leanIdent(dst), leanIdent(dst), paren(src), srcText(s.p, x))
					s.stmts(rest, indent, defers)
					return
				}
			}
			term, nres, err := s.call(c)
			if err == nil {
				switch {
				case nres == -1:
					s.line(indent, "-- %s  (empty function: no step)", srcText(s.p, x))
				case nres == 0:
					s.line(indent, "let w := %s  -- %s", term, srcText(s.p, x))
				case s.nested && strings.HasSuffix(term, " w"):
					// the results are dropped, the step happens
					s.line(indent, "let (_, w) := %s  -- %s", term, srcText(s.p, x))
				default:
					s.opaque(indent, x, "results of a call are discarded")
				}
				s.stmts(rest, indent, defers)
				return
			}
		}
		s.opaque(indent, x, "expression statement outside the subset")
		s.stmts(rest, indent, defers)
		return
	case *ast.DeclStmt:
		if gd, ok := x.Decl.(*ast.GenDecl); ok && gd.Tok == token.VAR && len(gd.Specs) == 1 {
			vs := gd.Specs[0].(*ast.ValueSpec)
			if len(vs.Names) == 1 && len(vs.Values) == 0 {
				if at, ok := vs.Type.(*ast.ArrayType); ok && at.Len != nil {
					if n, ok := constUint(s.p, at.Len); ok {
						s.line(indent, "let %s := List.replicate %d 0  -- %s", s.ident(vs.Names[0]), n, srcText(s.p, x))
						s.stmts(rest, indent, defers)
						return
					}
				}
			}
		}
		s.opaque(indent, x, "declaration outside the subset")
		s.stmts(rest, indent, defers)
		return
	}
	s.opaque(indent, st, "statement outside the subset")
	s.stmts(rest, indent, defers)
}

func (s *skel) ret(x *ast.ReturnStmt, indent int, defers []string) {
	w := s.applyDefers(defers)
	if len(x.Results) == 0 {
		s.line(indent, "((), %s)", w)
		return
	}
	if len(x.Results) == 2 && s.resTwo {
		a, err1 := s.expr(x.Results[0], "")
		b, err2 := s.expr(x.Results[1], "err")
		if err1 == nil && err2 == nil {
			s.line(indent, "((%s, %s), %s)  -- %s", a, b, w, srcText(s.p, x))
			return
		}
	}
	if len(x.Results) != 1 {
		s.opaque(indent, x, "multiple results")
		s.line(indent, "(%s, %s)", s.noReturn(), w)
		return
	}
	r := x.Results[0]
	if c, ok := r.(*ast.CallExpr); ok {
		if term, nres, err := s.call(c); err == nil && nres == 1 && strings.HasSuffix(term, " w") {
			s.line(indent, "let (r, w) := %s  -- %s", term, srcText(s.p, x))
			s.line(indent, "(r, %s)", w)
			return
		}
	}
	want := ""
	if s.resErr {
		want = "err"
	}
	if s.resBool {
		// `return a == b`, `return !c`, `return a && b`: the condition itself is the result
		switch ast.Unparen(r).(type) {
		case *ast.BinaryExpr, *ast.UnaryExpr:
			if c, err := s.cond(r); err == nil {
				s.line(indent, "(decide %s, %s)  -- %s", c, w, srcText(s.p, x))
				return
			}
		}
	}
	v, err := s.expr(r, want)
	if err != nil {
		s.opaque(indent, x, err.Error())
		s.line(indent, "(%s, %s)", s.noReturn(), w)
		return
	}
	s.line(indent, "(%s, %s)  -- %s", v, w, srcText(s.p, x))
}

func (s *skel) noReturn() string {
	if s.resTwo {
		return "U.noReturn2"
	}
	if s.resBool {
		return "U.noReturnBool"
	}
	return "U.noReturnErr"
}

func leanParamType(t types.Type) string {
	switch t.String() {
	case "uintptr", "uint32", "int", "uint64", modPath + ".FilterFlag":
		return "Nat"
	case "unsafe.Pointer":
		return "Option Prog"
	case "[]uintptr":
		return "List Nat"
	case modPath + ".Filter":
		return "Filter"
	case "bool":
		return "Bool"
	}
	return ""
}

// genSkeletons emits Gen/Skeletons.lean.
func genSkeletons(t *target, facts map[string]interface{}) error {
	p := t.pkgs[""]
	var b strings.Builder
	b.WriteString("import Seccomp.Model.Kernel\n")
	b.WriteString("/-! GENERATED by vextract from /repo/seccomp_linux.go (production view, linux/amd64) — do not edit.\n    Regenerated on every check run; the theorems of Proofs/C09–C11 are about these definitions. -/\n\n")
	b.WriteString("namespace Gen\n\n")
	var notes []string
	// order: callees first
	order := []string{"seccomp", "prctl", "SetNoNewPrivs", "Supported", "LoadFilter"}
	rendered := map[string]string{}
	for _, name := range order {
		fd := funcDecl(p, name)
		if fd == nil || fd.Body == nil {
			notes = append(notes, name+": not found")
			fmt.Fprintf(&b, "/-- `%s` was not found in the linux build of the package -/\ndef %s (U : Unsupported) (w : World) : GoErr × World := (U.noReturnErr, U.step %s w)\n\n", name, leanFuncName(name), leanString("missing function "+name))
			continue
		}
		s := &skel{p: p, fn: fd}
		resType := "Unit"
		if fd.Type.Results != nil {
			for _, r := range fd.Type.Results.List {
				n := len(r.Names)
				if n == 0 {
					n = 1
				}
				s.nresults += n
			}
			if s.nresults == 1 {
				switch exprText(fd.Type.Results.List[0].Type) {
				case "error":
					s.resErr = true
					resType = "GoErr"
				case "bool":
					s.resBool = true
					resType = "Bool"
				}
			}
		}
		var params []string
		ok := true
		if fd.Type.Params != nil {
			for _, f := range fd.Type.Params.List {
				ft := p.TypesInfo.TypeOf(f.Type)
				if el, isEll := f.Type.(*ast.Ellipsis); isEll {
					ft = types.NewSlice(p.TypesInfo.TypeOf(el.Elt))
				}
				lt := leanParamType(ft)
				if lt == "" {
					ok = false
					notes = append(notes, fmt.Sprintf("%s: parameter type %s outside the subset", name, ft))
				}
				for _, n := range f.Names {
					params = append(params, fmt.Sprintf("(%s : %s)", s.ident(n), lt))
				}
			}
		}
		if !ok || (s.nresults > 1) || (s.nresults == 1 && !s.resErr && !s.resBool) {
			fmt.Fprintf(&b, "/-- `%s`: signature outside the subset -/\ndef %s (U : Unsupported) (w : World) : GoErr × World := (U.noReturnErr, U.step %s w)\n\n", name, leanFuncName(name), leanString("signature of "+name))
			continue
		}
		fmt.Fprintf(&s.b, "/-- `%s` (%s) -/\n", name, t.goos+"/"+t.goarch)
		fmt.Fprintf(&s.b, "def %s (U : Unsupported) %s (w : World) : %s × World :=\n", leanFuncName(name), strings.Join(params, " "), resType)
		s.stmts(fd.Body.List, 1, nil)
		notes = append(notes, s.notes...)
		rendered[name] = s.b.String()
		b.WriteString(s.b.String())
		b.WriteString("\n")
	}
	b.WriteString("/-- statements the translator could not render (empty = the whole loader is inside the subset) -/\n")
	fmt.Fprintf(&b, "def skeletonNotes : List String := [%s]\n\n", joinLeanStrings(notes))
	b.WriteString("end Gen\n")
	writeIfChanged("Skeletons.lean", b.String())
	facts["skeletons"] = rendered
	facts["skeletonNotes"] = notes
	return nil
}

var fileCache = map[string][]byte{}

func readFileCached(path string) ([]byte, error) {
	if d, ok := fileCache[path]; ok {
		return d, nil
	}
	d, err := readFile(path)
	if err == nil {
		fileCache[path] = d
	}
	return d, err
}

var _ = strconv.Itoa
