// vextract regenerates the Lean data files under lean/Seccomp/Gen from /repo's
// current working tree (production view: without the verif build tag).
//
//	vextract -repo /repo -out /verif/lean/Seccomp/Gen [-targets all|quick]
//
// It writes a file only when its content changed, so an unchanged tree costs no Lean
// rebuild.  Everything it emits is derived from the type-checked syntax trees
// (go/packages): nothing is executed.
package main

import (
	"flag"
	"fmt"
	"os"
	"path/filepath"
	"sort"
	"strings"
)

var (
	repoDir = flag.String("repo", "/repo", "repository working tree")
	outDir  = flag.String("out", "/verif/lean/Seccomp/Gen", "output directory for generated Lean files")
	targets = flag.String("targets", "quick", "build targets for Consts: quick | all | goos/goarch,goos/goarch,…")
	jsonOut = flag.String("json", "", "also write the facts as JSON to this file")
	only    = flag.String("only", "", "comma separated subset: tables,oracle,names,consts,skeletons,purity")
)

func main() {
	flag.Parse()
	want := map[string]bool{}
	for _, s := range strings.Split(*only, ",") {
		if s != "" {
			want[s] = true
		}
	}
	sel := func(s string) bool { return len(want) == 0 || want[s] }

	facts := map[string]interface{}{}
	host, err := loadTarget("linux", "amd64")
	if err != nil {
		fatal(err)
	}
	if sel("tables") {
		if err := genTables(host, facts); err != nil {
			fatal(err)
		}
		if err := genGetInfo(host, facts); err != nil {
			fatal(err)
		}
	}
	if sel("tables") || sel("oracle") {
		// C12: Nat-coded tables and the independent oracle sources (oracle.go)
		if _, ok := facts["tables"]; !ok {
			if err := genTables(host, facts); err != nil {
				fatal(err)
			}
		}
		if err := genTableCodes(host, facts); err != nil {
			fatal(err)
		}
		if err := genOracle(host, facts); err != nil {
			fatal(err)
		}
	}
	if sel("names") {
		if err := genNames(host, facts); err != nil {
			fatal(err)
		}
		if err := genUnpack(host, facts); err != nil {
			fatal(err)
		}
	}
	if sel("skeletons") {
		if err := genSkeletons(host, facts); err != nil {
			fatal(err)
		}
		if err := genSandbox(host, facts); err != nil {
			fatal(err)
		}
		if err := genCache(host, facts); err != nil {
			fatal(err)
		}
	}
	if sel("purity") {
		if err := genPurity(host, facts); err != nil {
			fatal(err)
		}
	}
	if sel("consts") {
		if err := genConsts(host, facts); err != nil {
			fatal(err)
		}
	}
	if *jsonOut != "" {
		writeJSON(*jsonOut, facts)
	}
}

func fatal(err error) {
	fmt.Fprintln(os.Stderr, "vextract:", err)
	os.Exit(2)
}

// writeIfChanged writes the generated file unless it already has this content.
func writeIfChanged(name, content string) {
	path := filepath.Join(*outDir, name)
	old, err := os.ReadFile(path)
	if err == nil && string(old) == content {
		return
	}
	if err := os.MkdirAll(*outDir, 0o755); err != nil {
		fatal(err)
	}
	tmp := path + ".tmp"
	if err := os.WriteFile(tmp, []byte(content), 0o644); err != nil {
		fatal(err)
	}
	if err := os.Rename(tmp, path); err != nil {
		fatal(err)
	}
}

// leanString renders a Go string as a Lean string literal.
func leanString(s string) string {
	var b strings.Builder
	b.WriteByte('"')
	for _, r := range s {
		switch {
		case r == '"':
			b.WriteString("\\\"")
		case r == '\\':
			b.WriteString("\\\\")
		case r == '\n':
			b.WriteString("\\n")
		case r == '\t':
			b.WriteString("\\t")
		case r < 0x20 || r == 0x7f:
			fmt.Fprintf(&b, "\\x%02x", r)
		default:
			b.WriteRune(r)
		}
	}
	b.WriteByte('"')
	return b.String()
}

func sortedKeys(m map[string]string) []string {
	keys := make([]string, 0, len(m))
	for k := range m {
		keys = append(keys, k)
	}
	sort.Strings(keys)
	return keys
}
