package main

import (
	"fmt"
	"go/ast"
	"go/constant"
	"go/token"
	"go/types"
	"strings"
)

// The cache skeleton: `doObjdump` and `hashBinary` of cmd/seccomp-profiler/main.go rendered as Lean
// definitions over the file-system step machine of lean/Seccomp/Model/Cache.lean, with the machinery
// of skeleton.go (same statement subset, same treatment of `if`, `return`, `defer`, opaque steps).
// Callee table: os.Open/CreateTemp/Create/Rename/Remove, (*os.File).Read/Close/Name,
// bufio.NewWriter/(*bufio.Writer).WriteString/Flush, exec.Command/(*exec.Cmd).Run with the Stdout
// field, log.Println, io.Copy into a sha256 hash, hex.EncodeToString, filepath.Dir/Base,
// make([]byte, n), string(b), string concatenation, and the package's own cachedDumpFile.

// calleeName returns the fully qualified name of the called function or method, e.g. "os.Open",
// "(*os.File).Read".
func skelCalleeName(s *skel, c *ast.CallExpr) string {
	switch f := c.Fun.(type) {
	case *ast.SelectorExpr:
		if fn, ok := s.p.TypesInfo.Uses[f.Sel].(*types.Func); ok {
			return fn.FullName()
		}
	case *ast.Ident:
		if fn, ok := s.p.TypesInfo.Uses[f].(*types.Func); ok {
			return fn.FullName()
		}
		return f.Name // builtin or conversion
	}
	return ""
}

func receiver(s *skel, c *ast.CallExpr) (string, error) {
	sel, ok := c.Fun.(*ast.SelectorExpr)
	if !ok {
		return "", unsupportedExpr{exprText(c)}
	}
	return s.expr(sel.X, "")
}

func cacheArgs(s *skel, c *ast.CallExpr) ([]string, error) {
	out := make([]string, len(c.Args))
	for i, a := range c.Args {
		v, err := s.expr(a, "")
		if err != nil {
			return nil, err
		}
		out[i] = paren(v)
	}
	return out, nil
}

// cacheCall: calls that are steps of the file-system machine.
func cacheCall(s *skel, c *ast.CallExpr) (string, int, bool, error) {
	name := skelCalleeName(s, c)
	fail := func(err error) (string, int, bool, error) { return "", 0, true, err }
	step := func(prim string, nres int, withRecv bool) (string, int, bool, error) {
		var parts []string
		if withRecv {
			r, err := receiver(s, c)
			if err != nil {
				return fail(err)
			}
			parts = append(parts, paren(r))
		}
		a, err := cacheArgs(s, c)
		if err != nil {
			return fail(err)
		}
		parts = append(parts, a...)
		return fmt.Sprintf("%s %s w", prim, strings.Join(parts, " ")), nres, true, nil
	}
	switch name {
	case "os.Open":
		return step("osOpen", 2, false)
	case "os.Create":
		return step("osCreate", 2, false)
	case "os.CreateTemp":
		return step("osCreateTemp", 2, false)
	case "os.Rename":
		return step("osRename", 1, false)
	case "os.Remove":
		return step("osRemove", 1, false)
	case "(*os.File).Close":
		return step("fileClose", 1, true)
	case "(*os.File).Read":
		// the call fills its argument: the variable is bound again
		if len(c.Args) == 1 {
			if id, ok := c.Args[0].(*ast.Ident); ok {
				t, n, h, err := step("fileRead", 2, true)
				s.extraBinds = []string{s.ident(id)}
				return t, n, h, err
			}
		}
		return fail(unsupportedExpr{exprText(c)})
	case "(*bufio.Writer).WriteString":
		return step("writeString", 2, true)
	case "(*bufio.Writer).Flush":
		return step("flush", 1, true)
	case "(*os/exec.Cmd).Run":
		return step("cmdRun", 1, true)
	case "io.Copy":
		// io.Copy(h, reader): the hash absorbs what it is given
		if len(c.Args) == 2 {
			if id, ok := c.Args[0].(*ast.Ident); ok {
				t, n, h, err := step("ioCopy", 2, false)
				s.extraBinds = []string{s.ident(id)}
				return t, n, h, err
			}
		}
		return fail(unsupportedExpr{exprText(c)})
	case "log.Println":
		a, err := cacheArgs(s, c)
		if err != nil {
			return fail(err)
		}
		return fmt.Sprintf("logPrintln [%s] w", strings.Join(a, ", ")), 0, true, nil
	case modPath + "/cmd/seccomp-profiler.cachedDumpFile":
		return step("cachedDumpFile", 2, false)
	}
	return "", 0, false, nil
}

// cacheExpr: pure expressions of the cache functions.
func cacheExpr(s *skel, e ast.Expr, want string) (string, bool, error) {
	if tv, ok := s.p.TypesInfo.Types[e]; ok && tv.Value != nil && tv.Value.Kind() == constant.String {
		str := constant.StringVal(tv.Value)
		if str == "" {
			return "[]", true, nil
		}
		return "bytes " + leanString(str), true, nil
	}
	switch x := e.(type) {
	case *ast.BinaryExpr:
		if x.Op == token.ADD {
			if t := s.typeOf(x); t != nil && t.Underlying().String() == "string" {
				a, err := s.expr(x.X, "")
				if err != nil {
					return "", true, err
				}
				b, err := s.expr(x.Y, "")
				if err != nil {
					return "", true, err
				}
				return fmt.Sprintf("%s ++ %s", paren(a), paren(b)), true, nil
			}
		}
	case *ast.CallExpr:
		name := skelCalleeName(s, x)
		pure := func(prim string, withRecv bool) (string, bool, error) {
			var parts []string
			if withRecv {
				r, err := receiver(s, x)
				if err != nil {
					return "", true, err
				}
				parts = append(parts, paren(r))
			}
			a, err := cacheArgs(s, x)
			if err != nil {
				return "", true, err
			}
			parts = append(parts, a...)
			return strings.TrimSpace(prim + " " + strings.Join(parts, " ")), true, nil
		}
		switch name {
		case "(*os.File).Name":
			r, err := receiver(s, x)
			if err != nil {
				return "", true, err
			}
			return paren(r) + ".name", true, nil
		case "path/filepath.Dir":
			return pure("dirOf", false)
		case "path/filepath.Base":
			return pure("baseOf", false)
		case "bufio.NewWriter":
			return pure("newWriter", false)
		case "bufio.NewReader":
			return pure("newReader", false)
		case "crypto/sha256.New":
			return "sha256New", true, nil
		case "encoding/hex.EncodeToString":
			return pure("hexEncode", false)
		case "(hash.Hash).Sum":
			if len(x.Args) == 1 && exprText(x.Args[0]) == "nil" {
				r, err := receiver(s, x)
				if err != nil {
					return "", true, err
				}
				return "hashSum " + paren(r), true, nil
			}
			return "", true, unsupportedExpr{exprText(e)}
		case "os/exec.Command":
			a, err := cacheArgs(s, x)
			if err != nil {
				return "", true, err
			}
			return fmt.Sprintf("execCommand [%s]", strings.Join(a, ", ")), true, nil
		case "make":
			if len(x.Args) == 2 && exprText(x.Args[0]) == "[]byte" {
				n, err := s.expr(x.Args[1], "")
				if err != nil {
					return "", true, err
				}
				return "mkBuf " + paren(n), true, nil
			}
			return "", true, unsupportedExpr{exprText(e)}
		case "string":
			// string(b) for a byte slice: strings and byte slices are both byte lists in the model
			if len(x.Args) == 1 {
				if t := s.typeOf(x.Args[0]); t != nil && t.String() == "[]byte" {
					v, err := s.expr(x.Args[0], "")
					return v, true, err
				}
			}
			return "", true, unsupportedExpr{exprText(e)}
		}
	}
	return "", false, nil
}

// cacheStmt: `cmd.Stdout = out` (assignment to a field of a local struct pointer).
func cacheStmt(s *skel, st ast.Stmt, indent int) bool {
	as, ok := st.(*ast.AssignStmt)
	if !ok || as.Tok != token.ASSIGN || len(as.Lhs) != 1 || len(as.Rhs) != 1 {
		return false
	}
	sel, ok := as.Lhs[0].(*ast.SelectorExpr)
	if !ok {
		return false
	}
	id, ok := sel.X.(*ast.Ident)
	if !ok {
		return false
	}
	if t := s.typeOf(id); t == nil || t.String() != "*os/exec.Cmd" || sel.Sel.Name != "Stdout" {
		return false
	}
	v, err := s.expr(as.Rhs[0], "")
	if err != nil {
		return false
	}
	n := s.ident(id)
	s.line(indent, "let %s := { %s with stdout := some %s }  -- %s", n, n, paren(v), srcText(s.p, st))
	return true
}

// genCache emits Gen/CacheSkeleton.lean.
func genCache(t *target, facts map[string]interface{}) error {
	var b strings.Builder
	b.WriteString("import Seccomp.Model.Cache\n")
	b.WriteString("/-! GENERATED by vextract from /repo/cmd/seccomp-profiler/main.go — do not edit.\n    Regenerated on every check run; `C17.tie` proves these definitions equal to the hand-written\n    reference `CacheSpec`. -/\n\n")
	b.WriteString("namespace Gen\nopen Cache\n\n")
	var notes []string
	rendered := map[string]string{}
	p := t.pkgs["cmd/seccomp-profiler"]
	for _, name := range []string{"hashBinary", "doObjdump"} {
		stub := func(why string) {
			notes = append(notes, name+": "+why)
			fmt.Fprintf(&b, "/-- `%s`: %s -/\ndef %s (U : Cache.Unsupported) (binary hash : Str) (w : World) : (Str × GoErr) × World := (U.noReturn2, U.step %s w)\n\n", name, why, name, leanString(why+" "+name))
		}
		if p == nil {
			stub("package cmd/seccomp-profiler not loaded")
			continue
		}
		fd := funcDecl(p, name)
		if fd == nil || fd.Body == nil {
			stub("not found")
			continue
		}
		s := &skel{p: p, fn: fd, callHook: cacheCall, exprHook: cacheExpr, stmtHook: cacheStmt, resTwo: true, nested: true, bindDefers: true, nresults: 2,
			hs: newHelperSet(), paramType: func(t types.Type) string {
				if t != nil && t.String() == "string" {
					return "Str"
				}
				return ""
			}}
		// signature: string parameters, results (string, error)
		okSig := fd.Type.Results != nil && len(fd.Type.Results.List) == 2 &&
			exprText(fd.Type.Results.List[0].Type) == "string" && exprText(fd.Type.Results.List[1].Type) == "error"
		var params []string
		if fd.Type.Params != nil {
			for _, f := range fd.Type.Params.List {
				if exprText(f.Type) != "string" {
					okSig = false
				}
				for _, n := range f.Names {
					params = append(params, fmt.Sprintf("(%s : Str)", s.ident(n)))
				}
			}
		}
		want := map[string]int{"hashBinary": 1, "doObjdump": 2}[name]
		if !okSig || len(params) != want {
			stub("signature outside the subset")
			continue
		}
		fmt.Fprintf(&s.b, "/-- `%s` -/\n", name)
		fmt.Fprintf(&s.b, "def %s (U : Cache.Unsupported) %s (w : World) : (Str × GoErr) × World :=\n", name, strings.Join(params, " "))
		head := s.b.String()
		s.b = strings.Builder{}
		s.stmts(fd.Body.List, 1, nil)
		notes = append(notes, s.notes...)
		text := head + strings.Join(s.hs.prelude, "") + s.b.String()
		rendered[name] = text
		b.WriteString(text)
		b.WriteString("\n")
	}
	b.WriteString("/-- statements the translator could not render (empty = both functions are inside the subset) -/\n")
	fmt.Fprintf(&b, "def cacheNotes : List String := [%s]\n\n", joinLeanStrings(notes))
	b.WriteString("end Gen\n")
	writeIfChanged("CacheSkeleton.lean", b.String())
	facts["cacheSkeleton"] = rendered
	facts["cacheNotes"] = notes
	return nil
}
