package main

import (
	"encoding/json"
	"fmt"
	"go/ast"
	"go/constant"
	"go/types"
	"os"
	"strings"

	"golang.org/x/tools/go/packages"
)

// target is the module loaded (parsed and type-checked) for one GOOS/GOARCH.
type target struct {
	goos, goarch string
	pkgs         map[string]*packages.Package // by import path suffix ("" = root)
	errs         []string
}

const modPath = "github.com/elastic/go-seccomp-bpf"

func loadTarget(goos, goarch string) (*target, error) {
	cfg := &packages.Config{
		Mode: packages.NeedName | packages.NeedFiles | packages.NeedCompiledGoFiles | packages.NeedSyntax |
			packages.NeedTypes | packages.NeedTypesInfo | packages.NeedImports | packages.NeedDeps,
		Dir: *repoDir,
		Env: append(os.Environ(), "GOOS="+goos, "GOARCH="+goarch, "CGO_ENABLED=0",
			"GOFLAGS=-mod=readonly", "GOPROXY=off", "GOSUMDB=off", "GOTOOLCHAIN=local"),
	}
	pkgs, err := packages.Load(cfg, "./...")
	if err != nil {
		return nil, err
	}
	t := &target{goos: goos, goarch: goarch, pkgs: map[string]*packages.Package{}}
	for _, p := range pkgs {
		suffix := strings.TrimPrefix(strings.TrimPrefix(p.PkgPath, modPath), "/")
		t.pkgs[suffix] = p
		for _, e := range p.Errors {
			t.errs = append(t.errs, e.Error())
		}
	}
	if _, ok := t.pkgs[""]; !ok {
		return nil, fmt.Errorf("root package not loaded for %s/%s", goos, goarch)
	}
	return t, nil
}

// pkgVarInit returns the initialiser expression of a package-level variable.
func pkgVarInit(p *packages.Package, name string) ast.Expr {
	for _, f := range p.Syntax {
		for _, d := range f.Decls {
			gd, ok := d.(*ast.GenDecl)
			if !ok {
				continue
			}
			for _, s := range gd.Specs {
				vs, ok := s.(*ast.ValueSpec)
				if !ok {
					continue
				}
				for i, n := range vs.Names {
					if n.Name == name && i < len(vs.Values) {
						return vs.Values[i]
					}
				}
			}
		}
	}
	return nil
}

// funcDecl finds a function or method ("Recv.Name") declaration.
func funcDecl(p *packages.Package, name string) *ast.FuncDecl {
	for _, f := range p.Syntax {
		for _, d := range f.Decls {
			fd, ok := d.(*ast.FuncDecl)
			if !ok {
				continue
			}
			n := fd.Name.Name
			if fd.Recv != nil && len(fd.Recv.List) == 1 {
				t := fd.Recv.List[0].Type
				if st, ok := t.(*ast.StarExpr); ok {
					t = st.X
				}
				if id, ok := t.(*ast.Ident); ok {
					n = id.Name + "." + n
				}
			}
			if n == name {
				return fd
			}
		}
	}
	return nil
}

// constVal evaluates a constant expression through the type checker.
func constVal(p *packages.Package, e ast.Expr) (constant.Value, bool) {
	tv, ok := p.TypesInfo.Types[e]
	if !ok || tv.Value == nil {
		return nil, false
	}
	return tv.Value, true
}

func constUint(p *packages.Package, e ast.Expr) (uint64, bool) {
	v, ok := constVal(p, e)
	if !ok {
		return 0, false
	}
	if v.Kind() != constant.Int {
		return 0, false
	}
	if u, exact := constant.Uint64Val(v); exact {
		return u, true
	}
	if i, exact := constant.Int64Val(v); exact {
		return uint64(i), true
	}
	return 0, false
}

func constString(p *packages.Package, e ast.Expr) (string, bool) {
	v, ok := constVal(p, e)
	if !ok || v.Kind() != constant.String {
		return "", false
	}
	return constant.StringVal(v), true
}

func exprText(e ast.Expr) string { return types.ExprString(e) }

func writeJSON(path string, v interface{}) {
	data, err := json.MarshalIndent(v, "", " ")
	if err != nil {
		fatal(err)
	}
	old, err := os.ReadFile(path)
	if err == nil && string(old) == string(data) {
		return
	}
	// atomic replacement: other checks may be reading the file
	tmp := path + ".tmp"
	if err := os.WriteFile(tmp, data, 0o644); err != nil {
		fatal(err)
	}
	if err := os.Rename(tmp, path); err != nil {
		fatal(err)
	}
}
