//go:build verif

package main

import (
	"fmt"

	"verif/harness/internal/probeprog"
)

// with the hooks: the fixed policies compiled for every table on this build target
func printPrograms() {
	for _, l := range probeprog.Lines() {
		fmt.Println(l)
	}
}
