//go:build !verif

package main

func printPrograms() {}
