// wasmprobe runs on a build target that has no syscall table (it is built for js/wasm and executed by
// node): what Policy.Assemble and arch.GetInfo("") answer there is printed for the consts stream.
package main

import (
	"fmt"
	"runtime"

	seccomp "github.com/elastic/go-seccomp-bpf"
	"github.com/elastic/go-seccomp-bpf/arch"
)

func class(err error) string {
	if err == nil {
		return "ok"
	}
	return fmt.Sprintf("error:%q", err.Error())
}

func main() {
	fmt.Printf("target %s/%s\n", runtime.GOOS, runtime.GOARCH)
	_, err := arch.GetInfo("")
	fmt.Printf("getinfo %s\n", class(err))
	for i, p := range []seccomp.Policy{
		{DefaultAction: seccomp.ActionAllow, Syscalls: []seccomp.SyscallGroup{{Action: seccomp.ActionErrno, Names: []string{"execve"}}}},
		{DefaultAction: seccomp.ActionErrno, Syscalls: []seccomp.SyscallGroup{{Action: seccomp.ActionAllow, NamesWithCondtions: []seccomp.NameWithConditions{
			{Name: "read", Conditions: seccomp.ArgumentConditions{{Argument: 0, Operation: seccomp.Equal, Value: 1}}}}}}},
	} {
		insts, err := p.Assemble()
		fmt.Printf("assemble %d instructions=%d %s\n", i, len(insts), class(err))
	}
	fmt.Printf("supported %v\n", seccomp.Supported())
}
