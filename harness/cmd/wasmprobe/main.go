// wasmprobe runs on a build target that has no syscall table (it is built for js/wasm and executed by
// node): what Policy.Assemble and arch.GetInfo("") answer there is printed for the consts stream.
package main

import (
	"fmt"
	"runtime"

	seccomp "github.com/elastic/go-seccomp-bpf"
	"github.com/elastic/go-seccomp-bpf/arch"
)

func class(err error) string {
	if err == nil {
		return "ok"
	}
	return fmt.Sprintf("error:%q", err.Error())
}

func main() {
	fmt.Printf("target %s/%s\n", runtime.GOOS, runtime.GOARCH)
	_, err := arch.GetInfo("")
	fmt.Printf("getinfo %s\n", class(err))
	for i, p := range []seccomp.Policy{
		{DefaultAction: seccomp.ActionAllow, Syscalls: []seccomp.SyscallGroup{{Action: seccomp.ActionErrno, Names: []string{"execve"}}}},
		{DefaultAction: seccomp.ActionErrno, Syscalls: []seccomp.SyscallGroup{{Action: seccomp.ActionAllow, NamesWithCondtions: []seccomp.NameWithConditions{
			{Name: "read", Conditions: seccomp.ArgumentConditions{{Argument: 0, Operation: seccomp.Equal, Value: 1}}}}}}},
	} {
		insts, err := p.Assemble()
		fmt.Printf("assemble %d instructions=%d %s\n", i, len(insts), class(err))
	}
	// names other than "" must resolve the same way on every target (the answer is a function of the name)
	for _, n := range []string{"x86_64", "amd64", "AMD64", "i386", "386", "arm", "ARM", "arm64", "aarch64", "AArch64", "x32", "X32", "ppc64", "mips", "s390x", "riscv64", "wasm", "bogus"} {
		info, err := arch.GetInfo(n)
		if err != nil {
			fmt.Printf("alias %s error\n", n)
		} else {
			fmt.Printf("alias %s ok:%s:%d:%d\n", n, info.Name, len(info.SyscallNames), len(info.SyscallNumbers))
		}
	}
	printPrograms()
	if runtime.GOOS != "linux" {
		fmt.Printf("supported %v\n", seccomp.Supported())
	}
}
