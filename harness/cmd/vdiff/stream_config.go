package main

// Stream "config" (C14): a generated valid policy is written in three text forms —
//   yaml-text     our own renderer in the documented layout of cmd/sandbox/seccomp.yml (with style variations),
//   yaml-marshal  gopkg.in/yaml.v2 Marshal of `struct{ Seccomp seccomp.Policy `yaml:"seccomp"` }` (as the profiler writes it),
//   json-marshal  encoding/json Marshal of the same value,
// each form is read back exactly as cmd/sandbox/main.go parsePolicy does (go-ucfg yaml.NewConfigWithFile + Unpack into
// `struct{ Seccomp seccomp.Policy }`; JSON additionally through go-ucfg's json package), compiled, and the program must
// equal the compilation of the in-memory value and the model's output.

import (
	"encoding/json"
	"fmt"
	"math/rand"
	"os"
	"path/filepath"
	"reflect"
	"strings"

	seccomp "github.com/elastic/go-seccomp-bpf"
	ujson "github.com/elastic/go-ucfg/json"
	uyaml "github.com/elastic/go-ucfg/yaml"
	yaml "gopkg.in/yaml.v2"

	"verif/harness/internal/vd"
)

func init() {
	streamFuncs["config"] = configStream
	replayFuncs["CFG"] = func(r *runner, id, line string) {
		// CFG <style seed> P arch endian …
		f := strings.SplitN(line, " ", 3)
		if len(f) != 3 {
			r.mismatch(Mismatch{Case: id, Request: line, Note: "bad CFG request"})
			return
		}
		var styleSeed int64
		fmt.Sscan(f[1], &styleSeed)
		p, _, err := vd.ParsePolicyRequest(f[2])
		if err != nil {
			r.mismatch(Mismatch{Case: id, Request: line, Note: err.Error()})
			return
		}
		r.oneConfig(id, p, styleSeed)
	}
}

type cfgWrapper struct {
	Seccomp seccomp.Policy `yaml:"seccomp" json:"seccomp"`
}

// parsePolicy is cmd/sandbox/main.go parsePolicy with the file name as a parameter.
func parsePolicyFile(policyFile string) (*seccomp.Policy, error) {
	conf, err := uyaml.NewConfigWithFile(policyFile)
	if err != nil {
		return nil, err
	}
	type Config struct {
		Seccomp seccomp.Policy
	}
	var config Config
	if err = conf.Unpack(&config); err != nil {
		return nil, err
	}
	return &config.Seccomp, nil
}

func parsePolicyJSON(data []byte) (*seccomp.Policy, error) {
	conf, err := ujson.NewConfig(data)
	if err != nil {
		return nil, err
	}
	type Config struct {
		Seccomp seccomp.Policy
	}
	var config Config
	if err = conf.Unpack(&config); err != nil {
		return nil, err
	}
	return &config.Seccomp, nil
}

/* ---------------------------------------------------------------- YAML text renderer */

type yamlStyle struct {
	indentSeq   bool // list items indented below their key (yaml.v2 style is not indented)
	actionFirst bool
	condsFirst  bool
	flowNames   bool
	quote       int // 0 plain, 1 single, 2 double
	hexValues   int // 0 decimal, 1 hex, 2 mixed
	hexArg      bool
	omitZero    bool // leave out `argument: 0` / `value: 0` (struct tag default:"0")
	comments    bool
	caseMode    int // 0 as documented, 1 upper, 2 lower, 3 random
	trailing    bool
	rng         *rand.Rand
}

func newStyle(seed int64) *yamlStyle {
	rng := rand.New(rand.NewSource(seed))
	return &yamlStyle{
		indentSeq: rng.Intn(2) == 0, actionFirst: rng.Intn(2) == 0, condsFirst: rng.Intn(3) == 0, flowNames: rng.Intn(4) == 0,
		quote: rng.Intn(3), hexValues: rng.Intn(3), hexArg: rng.Intn(4) == 0, omitZero: rng.Intn(3) == 0, comments: rng.Intn(3) == 0,
		caseMode: rng.Intn(4), trailing: rng.Intn(4) == 0, rng: rng,
	}
}

func (s *yamlStyle) word(w string) string {
	switch s.caseMode {
	case 1:
		return strings.ToUpper(w)
	case 2:
		return strings.ToLower(w)
	case 3:
		return flipCase(s.rng, w)
	}
	return w
}

var plainSafe = func(name string) bool {
	if name == "" {
		return false
	}
	for _, c := range name {
		if !(c >= 'a' && c <= 'z' || c >= 'A' && c <= 'Z' || c >= '0' && c <= '9' || c == '_') {
			return false
		}
	}
	// scalars YAML 1.1 would resolve to something else than a string
	switch strings.ToLower(name) {
	case "y", "n", "yes", "no", "on", "off", "true", "false", "null", "nan", "inf":
		return false
	}
	if c := name[0]; c >= '0' && c <= '9' {
		return false
	}
	return true
}

func (s *yamlStyle) str(v string) string {
	q := s.quote
	if q == 0 && !plainSafe(v) {
		q = 2
	}
	switch q {
	case 1:
		if !strings.ContainsAny(v, "\n\r\t\x00") {
			return "'" + strings.ReplaceAll(v, "'", "''") + "'"
		}
		fallthrough
	case 2:
		b, _ := json.Marshal(v) // a JSON string is a YAML double-quoted scalar
		return string(b)
	}
	return v
}

func (s *yamlStyle) num(v uint64, isArg bool) string {
	hex := false
	if isArg {
		hex = s.hexArg
	} else {
		hex = s.hexValues == 1 || (s.hexValues == 2 && s.rng.Intn(2) == 0)
	}
	if hex {
		return fmt.Sprintf("0x%x", v)
	}
	return fmt.Sprintf("%d", v)
}

func actionName(a uint32) string { return seccomp.Action(a).String() }

func renderYAML(p *vd.Policy, s *yamlStyle) string {
	var b strings.Builder
	eol := func() {
		if s.trailing && s.rng.Intn(3) == 0 {
			b.WriteString(" ")
		}
		b.WriteString("\n")
	}
	if s.comments {
		b.WriteString("# generated policy\n\n")
	}
	b.WriteString("seccomp:")
	eol()
	if s.comments {
		b.WriteString("  # The default action is applied if none of the syscalls match.\n")
	}
	fmt.Fprintf(&b, "  default_action: %s", s.word(actionName(p.Default)))
	eol()
	if s.comments {
		b.WriteString("\n")
	}
	b.WriteString("  syscalls:")
	eol()
	pad := "  "
	if s.indentSeq {
		pad = "    "
	}
	for _, g := range p.Groups {
		first := true
		key := func(format string, a ...interface{}) {
			if first {
				b.WriteString(pad + "- ")
				first = false
			} else {
				b.WriteString(pad + "  ")
			}
			fmt.Fprintf(&b, format, a...)
			eol()
		}
		if s.actionFirst {
			key("action: %s", s.word(actionName(g.Action)))
		}
		names := func() {
			if len(g.Names) == 0 && g.Names == nil {
				return
			}
			if s.flowNames || len(g.Names) == 0 {
				q := make([]string, len(g.Names))
				for i, n := range g.Names {
					q[i] = s.str(n)
				}
				key("names: [%s]", strings.Join(q, ", "))
				return
			}
			key("names:")
			ipad := pad + "  "
			if s.indentSeq {
				ipad += "  "
			}
			for _, n := range g.Names {
				b.WriteString(ipad + "- " + s.str(n))
				eol()
			}
		}
		conds := func() {
			if len(g.WithConds) == 0 {
				return
			}
			key("names_with_args:")
			ipad := pad + "  "
			if s.indentSeq {
				ipad += "  "
			}
			for _, nc := range g.WithConds {
				b.WriteString(ipad + "- name: " + s.str(nc.Name))
				eol()
				b.WriteString(ipad + "  arguments:")
				eol()
				cpad := ipad + "  "
				if s.indentSeq {
					cpad += "  "
				}
				for _, c := range nc.Conds {
					lead := cpad + "- "
					if !(s.omitZero && c.Arg == 0) {
						b.WriteString(lead + "argument: " + s.num(uint64(c.Arg), true))
						eol()
						lead = cpad + "  "
					}
					b.WriteString(lead + "operation: " + s.word(c.Op))
					eol()
					lead = cpad + "  "
					if !(s.omitZero && c.Val == 0) {
						b.WriteString(lead + "value: " + s.num(c.Val, false))
						eol()
					}
				}
			}
		}
		if s.condsFirst {
			conds()
			names()
		} else {
			names()
			conds()
		}
		if !s.actionFirst {
			key("action: %s", s.word(actionName(g.Action)))
		}
		if s.comments && s.rng.Intn(2) == 0 {
			b.WriteString(pad + "# next group\n")
		}
	}
	return b.String()
}

/* ---------------------------------------------------------------- comparison */

// normalise makes nil and empty slices equal for the value comparison (the encodings cannot tell them apart).
func normalisePolicy(p seccomp.Policy) seccomp.Policy {
	out := seccomp.Policy{DefaultAction: p.DefaultAction}
	for _, g := range p.Syscalls {
		ng := seccomp.SyscallGroup{Action: g.Action}
		ng.Names = append([]string{}, g.Names...)
		ng.NamesWithCondtions = []seccomp.NameWithConditions{}
		for _, nc := range g.NamesWithCondtions {
			ng.NamesWithCondtions = append(ng.NamesWithCondtions, seccomp.NameWithConditions{Name: nc.Name,
				Conditions: append(seccomp.ArgumentConditions{}, nc.Conditions...)})
		}
		out.Syscalls = append(out.Syscalls, ng)
	}
	return out
}

func firstDifference(a, b seccomp.Policy) string {
	if a.DefaultAction != b.DefaultAction {
		return fmt.Sprintf("default_action %v → %v", a.DefaultAction, b.DefaultAction)
	}
	if len(a.Syscalls) != len(b.Syscalls) {
		return fmt.Sprintf("%d groups → %d groups", len(a.Syscalls), len(b.Syscalls))
	}
	for i := range a.Syscalls {
		ga, gb := a.Syscalls[i], b.Syscalls[i]
		if ga.Action != gb.Action {
			return fmt.Sprintf("group %d action %v → %v", i, ga.Action, gb.Action)
		}
		if !reflect.DeepEqual(ga.Names, gb.Names) {
			return fmt.Sprintf("group %d names %q → %q", i, ga.Names, gb.Names)
		}
		if len(ga.NamesWithCondtions) != len(gb.NamesWithCondtions) {
			return fmt.Sprintf("group %d: %d conditional entries → %d", i, len(ga.NamesWithCondtions), len(gb.NamesWithCondtions))
		}
		for j := range ga.NamesWithCondtions {
			na, nb := ga.NamesWithCondtions[j], gb.NamesWithCondtions[j]
			if na.Name != nb.Name {
				return fmt.Sprintf("group %d entry %d name %q → %q", i, j, na.Name, nb.Name)
			}
			if len(na.Conditions) != len(nb.Conditions) {
				return fmt.Sprintf("group %d entry %d: %d conditions → %d", i, j, len(na.Conditions), len(nb.Conditions))
			}
			for k := range na.Conditions {
				if na.Conditions[k] != nb.Conditions[k] {
					return fmt.Sprintf("group %d entry %d condition %d: %+v → %+v", i, j, k, na.Conditions[k], nb.Conditions[k])
				}
			}
		}
	}
	return ""
}

var cfgTmp string

func cfgFile() string {
	if cfgTmp == "" {
		dir := os.Getenv("VERIF_DIR")
		if dir != "" {
			dir = filepath.Join(dir, "work")
		} else {
			dir = os.TempDir()
		}
		cfgTmp = filepath.Join(dir, fmt.Sprintf("cfg-%d.yml", os.Getpid()))
	}
	return cfgTmp
}

func clip(s string, n int) string {
	if len(s) > n {
		return s[:n] + "…"
	}
	return s
}

// oneConfig runs one policy through all forms.
func (r *runner) oneConfig(id string, p *vd.Policy, styleSeed int64) bool {
	req := p.Request()
	cfgReq := fmt.Sprintf("CFG %d %s", styleSeed, p.WireRequest())
	memReply, _ := p.Compile()
	modelReply, err := r.model.Ask(req)
	if err != nil {
		r.sum.Error = err.Error()
		return true
	}
	memDiffers := !vd.ComparePolicy(memReply, modelReply, p.Arch)
	if memDiffers && !p.Shared {
		return r.mismatch(Mismatch{Case: id, Request: req, Go: memReply, Model: modelReply, Note: "in-memory compile differs from the model"})
	}
	if memDiffers {
		// (a value whose slices share storage: go on, the forms read back never share any — if they compile
		// differently from the in-memory value the two forms do not denote the same policy)
		defer func() {
			if len(r.sum.Mismatches) == 0 {
				r.mismatch(Mismatch{Case: id, Request: cfgReq, Go: memReply, Model: modelReply, Note: "in-memory compile differs from the model"})
			}
		}()
	}
	orig := p.ToGo()
	named := func(a uint32) bool {
		for _, x := range vd.NamedActions {
			if x == a {
				return true
			}
		}
		return false
	}
	allNamed := named(p.Default)
	for _, g := range p.Groups {
		allNamed = allNamed && named(g.Action)
	}
	memOK := strings.HasPrefix(memReply, "OK ")

	type form struct {
		name string
		text string
		read func() (*seccomp.Policy, error)
	}
	viaFile := func(text string) func() (*seccomp.Policy, error) {
		return func() (*seccomp.Policy, error) {
			if err := os.WriteFile(cfgFile(), []byte(text), 0o600); err != nil {
				return nil, fmt.Errorf("harness: %v", err)
			}
			defer os.Remove(cfgFile())
			return parsePolicyFile(cfgFile())
		}
	}
	var forms []form
	if allNamed {
		t := renderYAML(p, newStyle(styleSeed))
		forms = append(forms, form{"yaml-text", t, viaFile(t)})
	}
	if y, err := yaml.Marshal(cfgWrapper{orig}); err == nil {
		forms = append(forms, form{"yaml-marshal", string(y), viaFile(string(y))})
	} else {
		return r.mismatch(Mismatch{Case: id, Request: cfgReq, Note: "yaml.Marshal failed: " + err.Error()})
	}
	if j, err := json.Marshal(cfgWrapper{orig}); err == nil {
		forms = append(forms, form{"json-marshal/ucfg-json", string(j), func() (*seccomp.Policy, error) { return parsePolicyJSON(j) }})
		forms = append(forms, form{"json-marshal/ucfg-yaml", string(j), viaFile(string(j))})
	} else {
		return r.mismatch(Mismatch{Case: id, Request: cfgReq, Note: "json.Marshal failed: " + err.Error()})
	}

	nconds := 0
	ops := map[string]bool{}
	for _, g := range p.Groups {
		for _, nc := range g.WithConds {
			nconds += len(nc.Conds)
			for _, c := range nc.Conds {
				ops[c.Op] = true
				r.tag(fmt.Sprintf("arg:%d", c.Arg))
				switch {
				case c.Val == 0:
					r.tag("value:0")
				case c.Val == 1<<32:
					r.tag("value:2^32")
				case c.Val == 1<<63:
					r.tag("value:2^63")
				case c.Val == 1<<64-1:
					r.tag("value:2^64-1")
				case c.Val > 1<<63:
					r.tag("value:>2^63")
				case c.Val >= 1<<32:
					r.tag("value:>=2^32")
				default:
					r.tag("value:<2^32")
				}
			}
		}
	}
	for o := range ops {
		r.tag("op:" + o)
	}
	r.tag("default:" + actionName(p.Default))
	for _, g := range p.Groups {
		r.tag("action:" + actionName(g.Action))
	}
	r.tag("arch:" + p.Arch)
	if !allNamed {
		r.tag("unnamed-action")
	}

	for _, f := range forms {
		r.tag("form:" + f.name)
		r.count(cfgReq+" "+f.name, memOK && allNamed)
		var back *seccomp.Policy
		var rerr error
		func() {
			defer func() {
				if x := recover(); x != nil {
					rerr = fmt.Errorf("PANIC %v", x)
				}
			}()
			back, rerr = f.read()
		}()
		describe := func(what string) string {
			return fmt.Sprintf("form %s: %s\npolicy: %s\ntext:\n%s", f.name, what, req, clip(f.text, 3000))
		}
		if !allNamed {
			// an action without a name is printed as "unknown"; reading that back must be an error
			if rerr == nil {
				return r.mismatch(Mismatch{Case: id, Request: cfgReq, Go: "read back without error", Model: modelReply,
					FailingInput: describe("a policy with an unnamed action was marshalled and read back without an error: " + firstDifference(normalisePolicy(orig), normalisePolicy(*back))),
					Key:          "config:" + f.name + ":unnamed"})
			}
			r.tag("unnamed:rejected-on-read")
			continue
		}
		if rerr != nil {
			if !memOK && strings.Contains(rerr.Error(), "syscalls must not be empty") {
				r.tag("read:validate-error")
				continue
			}
			return r.mismatch(Mismatch{Case: id, Request: cfgReq, Go: "read error: " + rerr.Error(), Model: modelReply,
				FailingInput: describe("the configuration loader rejects the text form of a policy that compiles in memory: " + rerr.Error()),
				Key:          "config:" + f.name + ":read-error"})
		}
		if f.name == "json-marshal/ucfg-json" {
			// go-ucfg's json package decodes every number into a float64 (third-party behaviour, outside /repo and outside the
			// documented YAML path): operands above 2^53 are rounded, 2^64−1 becomes 2^63.  The harness predicts exactly this
			// rounding; it is counted and reported in the evidence, anything else is a difference.
			lossy := normalisePolicy(orig)
			changed := false
			for gi := range lossy.Syscalls {
				for ni := range lossy.Syscalls[gi].NamesWithCondtions {
					cs := lossy.Syscalls[gi].NamesWithCondtions[ni].Conditions
					for ci := range cs {
						if v := uint64(float64(cs[ci].Value)); v != cs[ci].Value {
							cs[ci].Value = v
							changed = true
						}
					}
				}
			}
			if changed && firstDifference(lossy, normalisePolicy(*back)) == "" {
				r.tag("ucfg-json:float64-rounding-of-operands-above-2^53")
				if r.sum.Extra == nil {
					r.sum.Extra = map[string]interface{}{}
				}
				if _, ok := r.sum.Extra["ucfg_json_float64_example"]; !ok {
					r.sum.Extra["ucfg_json_float64_example"] = firstDifference(normalisePolicy(orig), normalisePolicy(*back))
				}
				continue
			}
		}
		backReply, _ := vd.CompileGo(back, p.Arch, p.Endian)
		diff := firstDifference(normalisePolicy(orig), normalisePolicy(*back))
		if backReply != memReply || !vd.ComparePolicy(backReply, modelReply, p.Arch) {
			return r.mismatch(Mismatch{Case: id, Request: cfgReq, Go: backReply, Model: modelReply,
				FailingInput: describe("the policy read back compiles to a different program than the in-memory policy; first difference of the values: " + diff),
				Key:          "config:" + f.name + ":" + strings.SplitN(diff, " ", 2)[0]})
		}
		if diff != "" {
			// same program although the values differ: report, the forms are meant to denote the same policy
			return r.mismatch(Mismatch{Case: id, Request: cfgReq, Go: backReply, Model: modelReply,
				Note: describe("same program, but the value read back differs: " + diff)})
		}
		r.tag("read:ok")
	}
	r.sample(cfgReq + "  =>  " + clip(memReply, 200))
	return false
}

func configStream(r *runner, rng *rand.Rand) error {
	r.sum.Rule = "one case = one generated valid policy (named actions only, all 8 operations, argument indices 0–5, operands incl. 0, 2^32, 2^63, 2^64−1; " +
		"architectures x86_64/i386/arm/aarch64/x32) × one text form (yaml-text in the documented layout with style variations: case of action/operation names, " +
		"hex/decimal numbers, quoting, flow/block lists, key order, omitted zero defaults, comments; yaml.v2 Marshal; encoding/json Marshal read through go-ucfg json and yaml); " +
		"read back as cmd/sandbox parsePolicy does, compiled, compared with the in-memory compile and the model; distinct by (policy, style, form); " +
		"non-trivial = the policy compiles; plus: whole tables as plain YAML names, and policies with an unnamed action (must be rejected on read-back)"
	if *n == 0 {
		return nil
	}
	// fixed: every name of every table in one policy, plain style (no name needs quoting to survive)
	for i, a := range []string{"x86_64", "i386", "arm", "aarch64", "x32"} {
		p := &vd.Policy{Arch: a, Endian: "le", Default: 0x7fff0000, Groups: []vd.Group{{Action: 0x00050000, Names: vd.TableNames(a)}}}
		st := int64(1000 + i)
		for newStyle(st).quote != 0 || newStyle(st).flowNames {
			st++
		}
		if r.oneConfig(fmt.Sprintf("table:%s", a), p, st) {
			return nil
		}
	}
	// fixed: the documented example
	doc := &vd.Policy{Arch: "x86_64", Endian: "le", Default: 0x7fff0000, Groups: []vd.Group{
		{Action: 0x00050000, Names: []string{"connect", "accept", "sendto", "recvfrom", "sendmsg", "recvmsg", "bind", "listen"}},
		{Action: 0x00050000, WithConds: []vd.NameConds{{Name: "clone", Conds: []vd.Cond{{Arg: 0, Op: "BitsNotSet", Val: 0x10000000}}}}}}}
	for st := int64(0); st < 12; st++ {
		if r.oneConfig("documented-example", doc, st) {
			return nil
		}
	}
	// fixed: malformed documents the loader must refuse (what the struct tags `validate:"required"` promise)
	malformed := []struct{ kind, text string }{
		{"entry-without-arguments-key", "seccomp:\n  default_action: allow\n  syscalls:\n  - action: errno\n    names_with_args:\n    - name: getppid\n"},
		{"entry-with-empty-arguments", "seccomp:\n  default_action: allow\n  syscalls:\n  - action: errno\n    names_with_args:\n    - name: getppid\n      arguments: []\n"},
		{"entry-without-name", "seccomp:\n  default_action: allow\n  syscalls:\n  - action: errno\n    names_with_args:\n    - arguments:\n      - argument: 0\n        operation: Equal\n        value: 1\n"},
		{"condition-without-operation", "seccomp:\n  default_action: allow\n  syscalls:\n  - action: errno\n    names_with_args:\n    - name: getppid\n      arguments:\n      - argument: 0\n        value: 1\n"},
		{"group-without-action", "seccomp:\n  default_action: allow\n  syscalls:\n  - names:\n    - getppid\n"},
		{"no-syscalls", "seccomp:\n  default_action: allow\n"},
		{"json-entry-without-arguments-key", `{"seccomp":{"default_action":"allow","syscalls":[{"action":"errno","names_with_args":[{"name":"getppid"}]}]}}`},
	}
	for _, m := range malformed {
		req := "CFGBAD " + m.kind
		r.count(req, true)
		r.tag("malformed:" + m.kind)
		var back *seccomp.Policy
		var rerr error
		func() {
			defer func() {
				if x := recover(); x != nil {
					rerr = fmt.Errorf("PANIC %v", x)
				}
			}()
			if err := os.WriteFile(cfgFile(), []byte(m.text), 0o600); err != nil {
				rerr = err
				return
			}
			defer os.Remove(cfgFile())
			back, rerr = parsePolicyFile(cfgFile())
			if rerr == nil && back != nil {
				// what cmd/sandbox does next: the policy is handed to LoadFilter, which validates and assembles
				if _, aerr := back.Assemble(); aerr != nil {
					rerr = aerr
				}
			}
		}()
		if rerr == nil {
			if r.mismatch(Mismatch{Case: m.kind, Request: req, Go: "read and assembled without error", Model: "must be refused",
				FailingInput: "the configuration path accepts a malformed policy document (" + m.kind + ") and compiles it:\n" + m.text,
				Key:          "config:malformed:" + m.kind}) {
				return nil
			}
		} else if strings.HasPrefix(rerr.Error(), "PANIC") {
			if r.mismatch(Mismatch{Case: m.kind, Request: req, Go: rerr.Error(), Model: "must be refused with an error",
				FailingInput: "the configuration path panics on a malformed policy document (" + m.kind + "):\n" + m.text}) {
				return nil
			}
		}
	}
	profiles := []string{"conds", "conds", "mix", "names", "single"}
	for i := 0; i < *n; i++ {
		p := vd.GenValid(rng, profiles[rng.Intn(len(profiles))])
		p.Shared = rng.Intn(4) == 0 // the in-memory value of a caller who slices shared arrays
		unnamed := rng.Intn(25) == 0
		fix := func(a uint32) uint32 {
			for _, x := range vd.NamedActions {
				if x == a {
					return a
				}
			}
			return vd.NamedActions[rng.Intn(len(vd.NamedActions))]
		}
		if !unnamed {
			p.Default = fix(p.Default)
			for gi := range p.Groups {
				p.Groups[gi].Action = fix(p.Groups[gi].Action)
			}
		} else if len(p.Groups) > 0 {
			p.Groups[rng.Intn(len(p.Groups))].Action = []uint32{0x7fc00000, 0x00050001, 1, rng.Uint32() | 1}[rng.Intn(4)]
		}
		// limit the size of name lists (the whole-table case is covered above)
		for gi := range p.Groups {
			if len(p.Groups[gi].Names) > 60 {
				p.Groups[gi].Names = p.Groups[gi].Names[:60]
			}
		}
		// more boundary operands
		for gi := range p.Groups {
			for ni := range p.Groups[gi].WithConds {
				for ci := range p.Groups[gi].WithConds[ni].Conds {
					if rng.Intn(5) == 0 {
						p.Groups[gi].WithConds[ni].Conds[ci].Val = []uint64{0, 1 << 32, 1 << 63, 1<<64 - 1, 1<<63 - 1, 1<<32 - 1, 0x10000000}[rng.Intn(7)]
					}
				}
			}
		}
		if r.oneConfig(fmt.Sprintf("gen#%d", i), p, rng.Int63n(1<<40)) {
			break
		}
		if r.sum.Error != "" {
			return fmt.Errorf("%s", r.sum.Error)
		}
	}
	return nil
}
