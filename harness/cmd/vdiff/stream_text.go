package main

// Stream "text" (C13, C14): Action.Unpack, Operation.Unpack, Action.String/MarshalText and
// FilterFlag.String/MarshalText of the real code against the Lean model (request verb TXT),
// plus the property's own oracle on every case (documented names in any ASCII letter case
// must parse to the documented constants, anything else must be rejected, printed names parse
// back, unnamed values print as "unknown") and a repetition check (the text of a value must
// be the same on every call in one process).

import (
	"bytes"
	"fmt"
	"math/rand"
	"strconv"
	"strings"
	"unicode"
	"unicode/utf8"

	seccomp "github.com/elastic/go-seccomp-bpf"

	"verif/harness/internal/vd"
)

func init() {
	streamFuncs["text"] = textStream
	replayFuncs["TXT"] = func(r *runner, id, line string) {
		f := strings.Fields(line)
		if len(f) != 3 {
			r.mismatch(Mismatch{Case: id, Request: line, Note: "bad TXT request"})
			return
		}
		raw := f[2]
		if f[1] == "ua" || f[1] == "uo" || f[1] == "lo" {
			raw = vd.Unhex(f[2])
		}
		r.oneText(id, f[1], raw, "replay")
	}
}

// The documented names (README / cmd/sandbox/seccomp.yml) with the kernel's constants
// (include/uapi/linux/seccomp.h).  This table is the property's oracle; it is deliberately
// not taken from the repository.
var documentedActions = []struct {
	name string
	val  uint32
}{
	{"kill_thread", 0x00000000}, {"kill_process", 0x80000000}, {"trap", 0x00030000}, {"errno", 0x00050000},
	{"trace", 0x7ff00000}, {"log", 0x7ffc0000}, {"allow", 0x7fff0000},
}

var documentedOps = []string{"Equal", "NotEqual", "GreaterThan", "LessThan", "GreaterOrEqual", "LessOrEqual", "BitsSet", "BitsNotSet"}

func asciiLower(s string) string {
	b := []byte(s)
	for i, c := range b {
		if 'A' <= c && c <= 'Z' {
			b[i] = c + 32
		}
	}
	return string(b)
}

func documentedAction(name string) (uint32, bool) {
	for _, d := range documentedActions {
		if d.name == name {
			return d.val, true
		}
	}
	return 0, false
}

func documentedOp(lower string) (string, bool) {
	for _, d := range documentedOps {
		if asciiLower(d) == lower {
			return d, true
		}
	}
	return "", false
}

const actionSentinel = seccomp.Action(0xdeadbeef)

// goText runs the real code.  note reports inconsistencies between the two printing methods
// or an output parameter that was written although an error was returned.
func goText(verb, raw string) (reply, note string) {
	defer func() {
		if p := recover(); p != nil {
			reply = "PANIC " + vd.Hex(fmt.Sprint(p))
		}
	}()
	switch verb {
	case "ua":
		a := actionSentinel
		err := a.Unpack(raw)
		if err != nil {
			if a != actionSentinel {
				note = fmt.Sprintf("Action.Unpack returned an error and wrote %#x", uint32(a))
			}
			msg := err.Error()
			if strings.HasPrefix(msg, "invalid action: ") {
				return "ERR " + vd.Hex(strings.TrimPrefix(msg, "invalid action: ")), note
			}
			return "ERR-OTHER " + vd.Hex(msg), note
		}
		return fmt.Sprintf("OK %d", uint32(a)), ""
	case "uo":
		o := seccomp.Operation("\x00sentinel")
		err := o.Unpack(raw)
		if err != nil {
			if o != "\x00sentinel" {
				note = fmt.Sprintf("Operation.Unpack returned an error and wrote %q", string(o))
			}
			msg := err.Error()
			if strings.HasPrefix(msg, "invalid operation: ") {
				return "ERR " + vd.Hex(strings.TrimPrefix(msg, "invalid operation: ")), note
			}
			return "ERR-OTHER " + vd.Hex(msg), note
		}
		return "OK " + vd.Hex(string(o)), ""
	case "as":
		v, _ := strconv.ParseUint(raw, 10, 32)
		a := seccomp.Action(v)
		s := a.String()
		m, err := a.MarshalText()
		if err != nil || !bytes.Equal(m, []byte(s)) {
			note = fmt.Sprintf("Action(%d): String()=%q MarshalText()=%q,%v", v, s, m, err)
		}
		return vd.Hex(s), note
	case "fs":
		v, _ := strconv.ParseUint(raw, 10, 32)
		f := seccomp.FilterFlag(v)
		s := f.String()
		m, err := f.MarshalText()
		if err != nil || !bytes.Equal(m, []byte(s)) {
			// with a map-order loop the two calls may legitimately differ: reported by the repetition check
			note = fmt.Sprintf("FilterFlag(%d): String()=%q MarshalText()=%q,%v", v, s, m, err)
		}
		return vd.Hex(s), note
	case "lo":
		return vd.Hex(strings.ToLower(raw)), ""
	}
	return "BAD-VERB", ""
}

// textOracle evaluates the property itself on one case of the real code; it returns a
// description of the failure or "".
func textOracle(verb, raw, goReply string) string {
	switch verb {
	case "ua":
		want, isVariant := documentedAction(asciiLower(raw))
		if strings.HasPrefix(goReply, "OK ") {
			got, _ := strconv.ParseUint(goReply[3:], 10, 32)
			if isVariant {
				if uint32(got) != want {
					return fmt.Sprintf("Action.Unpack(%q) = %#x, the documented constant is %#x", raw, got, want)
				}
				return ""
			}
			// not an ASCII case variant: only a Unicode case variant of a documented name may be accepted
			if w2, ok := documentedAction(strings.ToLower(raw)); ok && utf8.ValidString(raw) {
				if uint32(got) != w2 {
					return fmt.Sprintf("Action.Unpack(%q) = %#x, the documented constant of %q is %#x", raw, got, strings.ToLower(raw), w2)
				}
				return ""
			}
			return fmt.Sprintf("Action.Unpack(%q) = %#x (%s): a string that is no documented name in any letter case is accepted", raw, got, seccomp.Action(got))
		}
		if isVariant {
			return fmt.Sprintf("Action.Unpack(%q) is rejected (%s), it is the documented name %q in another letter case", raw, goReply, asciiLower(raw))
		}
	case "uo":
		want, isVariant := documentedOp(asciiLower(raw))
		if strings.HasPrefix(goReply, "OK ") {
			got := vd.Unhex(goReply[3:])
			if isVariant {
				if got != want {
					return fmt.Sprintf("Operation.Unpack(%q) = %q, the documented operation is %q", raw, got, want)
				}
				return ""
			}
			if w2, ok := documentedOp(strings.ToLower(raw)); ok && utf8.ValidString(raw) {
				if got != w2 {
					return fmt.Sprintf("Operation.Unpack(%q) = %q, want %q", raw, got, w2)
				}
				return ""
			}
			return fmt.Sprintf("Operation.Unpack(%q) = %q: a string that is no documented operation in any letter case is accepted", raw, got)
		}
		if isVariant {
			return fmt.Sprintf("Operation.Unpack(%q) is rejected (%s), it is the documented operation %q in another letter case", raw, goReply, want)
		}
	case "as":
		v, _ := strconv.ParseUint(raw, 10, 32)
		s := vd.Unhex(goReply)
		name := ""
		for _, d := range documentedActions {
			if uint64(d.val) == v {
				name = d.name
			}
		}
		if name != "" {
			if s != name {
				return fmt.Sprintf("Action(%#x).String() = %q, documented name %q", v, s, name)
			}
			var back seccomp.Action = actionSentinel
			if err := back.Unpack(s); err != nil || uint64(back) != v {
				return fmt.Sprintf("Action(%#x) prints as %q which parses to %#x, %v", v, s, uint32(back), err)
			}
			return ""
		}
		if s != "unknown" {
			return fmt.Sprintf("Action(%#x).String() = %q for a value without a documented name (want \"unknown\")", v, s)
		}
		var back seccomp.Action = actionSentinel
		if err := back.Unpack(s); err == nil {
			return fmt.Sprintf("Action(%#x) prints as %q and that parses to %#x: a silent change of the value", v, s, uint32(back))
		}
	}
	return ""
}

func (r *runner) oneText(id, verb, raw, class string) bool {
	arg := raw
	if verb == "ua" || verb == "uo" || verb == "lo" {
		arg = vd.Hex(raw)
	}
	req := "TXT " + verb + " " + arg
	goReply, note := goText(verb, raw)
	modelReply, err := r.model.Ask(req)
	if err != nil {
		r.sum.Error = err.Error()
		return true
	}
	r.tag("verb:" + verb)
	r.tag("class:" + class)
	switch {
	case strings.HasPrefix(goReply, "OK"):
		r.tag(verb + ":accepted")
	case strings.HasPrefix(goReply, "ERR"):
		r.tag(verb + ":rejected")
	}
	if (verb == "ua" || verb == "uo") && strings.HasPrefix(goReply, "OK") && asciiLower(raw) != strings.ToLower(raw) {
		r.tag("accepted-by-unicode-case-mapping")
	}
	r.count(req, !strings.HasPrefix(class, "random"))
	if !strings.HasPrefix(class, "random") || r.sum.Evaluations%50 == 0 {
		r.sample(fmt.Sprintf("%s (%q)  =>  %s", req, raw, goReply))
	}
	fail := textOracle(verb, raw, goReply)
	// repetition: the same call again must give the same text
	reps := 20
	if verb == "fs" {
		reps = 200
	}
	if fail == "" {
		for i := 0; i < reps; i++ {
			again, _ := goText(verb, raw)
			if again != goReply {
				what := map[string]string{"fs": "FilterFlag(%s).String()", "as": "Action(%s).String()", "ua": "Action.Unpack(%s)", "uo": "Operation.Unpack(%s)", "lo": "strings.ToLower(%s)"}[verb]
				show := func(s string) string {
					if verb == "fs" || verb == "as" {
						return fmt.Sprintf("%q", vd.Unhex(s))
					}
					return s
				}
				fail = fmt.Sprintf(what+" is not a function of the value: call 1 gave %s, call %d gave %s (same process)", raw, show(goReply), i+2, show(again))
				break
			}
		}
	}
	if fail != "" && verb != "lo" {
		return r.mismatch(Mismatch{Case: id, Request: req, Go: goReply, Model: modelReply, Note: note, FailingInput: fail, Key: "text:" + verb + ":" + arg})
	}
	if goReply != modelReply || (note != "" && verb != "fs") {
		return r.mismatch(Mismatch{Case: id, Request: req, Go: goReply, Model: modelReply, Note: note})
	}
	return false
}

/* ---------------------------------------------------------------- generators */

func flipCase(rng *rand.Rand, s string) string {
	b := []byte(s)
	mode := rng.Intn(4)
	for i, c := range b {
		isLetter := ('a' <= c && c <= 'z') || ('A' <= c && c <= 'Z')
		if !isLetter {
			continue
		}
		switch mode {
		case 0: // all upper
			b[i] = c &^ 0x20
		case 1: // all lower
			b[i] = c | 0x20
		case 2: // random
			if rng.Intn(2) == 0 {
				b[i] = c ^ 0x20
			}
		case 3: // one letter
		}
	}
	if mode == 3 && len(b) > 0 {
		i := rng.Intn(len(b))
		if c := b[i]; ('a' <= c && c <= 'z') || ('A' <= c && c <= 'Z') {
			b[i] = c ^ 0x20
		}
	}
	return string(b)
}

func nearMiss(rng *rand.Rand, s string) string {
	rs := []rune(s)
	switch rng.Intn(12) {
	case 0:
		return s + " "
	case 1:
		return " " + s
	case 2:
		return s + "\x00"
	case 3:
		return s + "\n"
	case 4:
		if len(rs) > 1 {
			i := rng.Intn(len(rs))
			return string(append(append([]rune{}, rs[:i]...), rs[i+1:]...))
		}
	case 5:
		i := rng.Intn(len(rs) + 1)
		return string(rs[:i]) + string(rune('a'+rng.Intn(26))) + string(rs[i:])
	case 6:
		return strings.ReplaceAll(s, "_", "-")
	case 7:
		return strings.ReplaceAll(s, "_", "")
	case 8:
		return s + s
	case 9:
		return s[:len(s)/2]
	case 10:
		return "action" + s
	case 11:
		return strings.ReplaceAll(s, "l", "1")
	}
	i := rng.Intn(len(rs))
	rs[i]++
	return string(rs)
}

// unicodeVariant replaces letters by code points that are related to them by some case mapping
// or look like them.
func unicodeVariant(rng *rand.Rand, s string) string {
	var b strings.Builder
	changed := false
	for _, c := range s {
		l := unicode.ToLower(c)
		if rng.Intn(3) != 0 && changed {
			b.WriteRune(c)
			continue
		}
		switch {
		case l == 'k' && rng.Intn(2) == 0:
			b.WriteRune(0x212A) // KELVIN SIGN, lower-cases to k
			changed = true
		case l == 'i' && rng.Intn(2) == 0:
			b.WriteRune(0x0130) // LATIN CAPITAL LETTER I WITH DOT ABOVE, unicode.ToLower gives i
			changed = true
		case l == 'i':
			b.WriteRune(0x0131) // dotless i (upper-cases to I)
			changed = true
		case l == 's' && rng.Intn(2) == 0:
			b.WriteRune(0x017F) // LONG S (upper-cases to S, folds to s)
			changed = true
		case 'a' <= l && l <= 'z' && rng.Intn(3) == 0:
			b.WriteRune(0xFF21 + (l - 'a') + rune(rng.Intn(2))*0x20) // fullwidth letters
			changed = true
		case l == 'a' && rng.Intn(2) == 0:
			b.WriteRune(0x0410 + rune(rng.Intn(2))*0x20) // Cyrillic А / а
			changed = true
		case l == 'e' && rng.Intn(2) == 0:
			b.WriteRune(0x212E + rune(rng.Intn(2))) // ℮ / ℯ
			changed = true
		case rng.Intn(6) == 0:
			b.WriteRune(c)
			b.WriteRune(0x0307) // combining dot above
			changed = true
		default:
			b.WriteRune(c)
		}
	}
	if !changed {
		return "K" + s
	}
	return b.String()
}

func randomString(rng *rand.Rand) string {
	n := rng.Intn(14)
	switch rng.Intn(5) {
	case 0: // bytes, mostly invalid UTF-8
		b := make([]byte, n)
		rng.Read(b)
		return string(b)
	case 1: // ASCII letters and _
		const al = "abcdefghijklmnopqrstuvwxyzABCDEFGHIJKLMNOPQRSTUVWXYZ_"
		b := make([]byte, n)
		for i := range b {
			b[i] = al[rng.Intn(len(al))]
		}
		return string(b)
	case 2: // runes from the case tables
		var b strings.Builder
		for i := 0; i < n; i++ {
			cr := unicode.CaseRanges[rng.Intn(len(unicode.CaseRanges))]
			b.WriteRune(rune(cr.Lo) + rune(rng.Intn(int(cr.Hi-cr.Lo)+1)))
		}
		return b.String()
	case 3: // any code points (surrogates and out-of-range values are encoded as U+FFFD by Go)
		var b strings.Builder
		for i := 0; i < n; i++ {
			b.WriteRune(rune(rng.Intn(0x30000)))
		}
		return b.String()
	default: // truncated / overlong encodings around a name
		base := []byte("al\xc4\xb0ow\xe2\x84\xaa")
		k := rng.Intn(len(base)) + 1
		out := append([]byte{}, base[:k]...)
		if rng.Intn(2) == 0 {
			out = append(out, 0xc0, 0xab, 0xed, 0xa0, 0x80, 0xf4, 0x90)
		}
		return string(out)
	}
}

var textSpecials = []string{"", "unknown", "user_notif", "user_notify", "notify", "kill", "KILL", "0", "2147418112", "0x7fff0000", "true", "null", "~",
	"allow\x00", "Allow", "ALLOW", "aLLoW", "errno(1)", "log ", "Kill_thread", "KILL_PROCESS", "KİLL_THREAD", "kıll_thread",
	"BİtsSet", "bitſset", "bitsſet", "Ｅqual", "Equal", "equal", "EQUAL", "eq", "==", "NOTEQUAL", "notEqual", "Not_Equal", "greater_than",
	"BitsNotSet", "bitsnotset", "BITSNOTSET", "lessorequal", "\xff", "a\xffllow", "\xe2\x84", "allow\xe2\x84\xaa"}

func genTextString(rng *rand.Rand, forOps bool) (string, string) {
	var names []string
	for _, d := range documentedActions {
		names = append(names, d.name)
	}
	pool := names
	if forOps {
		pool = documentedOps
	}
	switch k := rng.Intn(20); {
	case k < 6:
		return flipCase(rng, pool[rng.Intn(len(pool))]), "case-variant"
	case k < 10:
		return nearMiss(rng, flipCase(rng, pool[rng.Intn(len(pool))])), "near-miss"
	case k < 14:
		return unicodeVariant(rng, flipCase(rng, pool[rng.Intn(len(pool))])), "unicode-variant"
	case k < 15:
		other := documentedOps
		if forOps {
			other = names
		}
		return flipCase(rng, other[rng.Intn(len(other))]), "other-table"
	case k < 17:
		return textSpecials[rng.Intn(len(textSpecials))], "special"
	}
	return randomString(rng), "random"
}

func textStream(r *runner, rng *rand.Rand) error {
	r.sum.Rule = "one case = one call (Action.Unpack | Operation.Unpack | Action.String+MarshalText | FilterFlag.String+MarshalText | strings.ToLower) on one input, " +
		"compared exactly with the model (TXT requests) and with the documented table, then repeated 20 (flags: 200) times in the same process; " +
		"inputs: documented names in random ASCII case, near misses, Unicode case/look-alike variants (U+212A, U+0130, U+0131, U+017F, fullwidth, Cyrillic), " +
		"names of the other table, special strings, random bytes/runes; values: all named actions, user_notif, errno with data, random 32-bit values, flags 0..15 and random; " +
		"distinct by request line; random strings are not counted as non-trivial"
	if *n == 0 {
		return nil
	}
	// fixed part: every documented name in three cases, the special strings, every named value, flags 0..15
	i := 0
	next := func() string { i++; return fmt.Sprintf("fixed#%d", i) }
	for _, d := range documentedActions {
		for _, s := range []string{d.name, strings.ToUpper(d.name), strings.Title(d.name)} {
			if r.oneText(next(), "ua", s, "case-variant") {
				return nil
			}
		}
		if r.oneText(next(), "as", fmt.Sprint(d.val), "named-value") {
			return nil
		}
	}
	for _, o := range documentedOps {
		for _, s := range []string{o, strings.ToUpper(o), strings.ToLower(o)} {
			if r.oneText(next(), "uo", s, "case-variant") {
				return nil
			}
		}
	}
	for _, s := range textSpecials {
		if r.oneText(next(), "ua", s, "special") || r.oneText(next(), "uo", s, "special") || r.oneText(next(), "lo", s, "special") {
			return nil
		}
	}
	for _, v := range []uint32{0x7fc00000, 0x00050001, 1, 0xffffffff, 0x7fff0001, 0x80000001, 0x00040000} {
		if r.oneText(next(), "as", fmt.Sprint(v), "unnamed-value") {
			return nil
		}
	}
	for f := 0; f < 16; f++ {
		if r.oneText(next(), "fs", fmt.Sprint(f), "flag-small") {
			return nil
		}
	}
	if r.sum.Error != "" {
		return fmt.Errorf("%s", r.sum.Error)
	}
	for i := 0; i < *n; i++ {
		id := fmt.Sprintf("gen#%d", i)
		stop := false
		switch k := rng.Intn(20); {
		case k < 7:
			s, class := genTextString(rng, false)
			stop = r.oneText(id, "ua", s, class)
		case k < 13:
			s, class := genTextString(rng, true)
			stop = r.oneText(id, "uo", s, class)
		case k < 15:
			var v uint32
			class := "unnamed-value"
			switch rng.Intn(4) {
			case 0:
				v = documentedActions[rng.Intn(len(documentedActions))].val
				class = "named-value"
			case 1:
				v = documentedActions[rng.Intn(len(documentedActions))].val | uint32(rng.Intn(0x10000))
				if v&0xffff == 0 {
					class = "named-value"
				}
			default:
				v = rng.Uint32()
			}
			stop = r.oneText(id, "as", fmt.Sprint(v), class)
		case k < 17:
			v := rng.Uint32()
			class := "flag-random"
			if rng.Intn(2) == 0 {
				v = uint32(rng.Intn(4)) | uint32(1)<<uint(rng.Intn(32))
				class = "flag-combined"
			}
			stop = r.oneText(id, "fs", fmt.Sprint(v), class)
		default:
			s, class := genTextString(rng, rng.Intn(2) == 0)
			if rng.Intn(2) == 0 {
				s, class = randomString(rng), "random-lower"
			}
			stop = r.oneText(id, "lo", s, class)
		}
		if stop {
			break
		}
		if r.sum.Error != "" {
			return fmt.Errorf("%s", r.sum.Error)
		}
	}
	return nil
}
