//go:build race

package main

// raceEnabled: this binary was built with -race (thorough tier of C13).
const raceEnabled = true
