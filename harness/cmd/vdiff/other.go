package main

import (
	"fmt"
	"math/rand"
)

func (r *runner) otherStream(rng *rand.Rand) error {
	return fmt.Errorf("unknown stream %q", *stream)
}

func (r *runner) replayOther(id, line string) {
	r.mismatch(Mismatch{Case: id, Request: line, Note: "unknown request verb"})
}
