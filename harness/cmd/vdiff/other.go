package main

import (
	"fmt"
	"math/rand"
	"strings"
)

// streamFuncs and replayFuncs are filled by the init functions of the stream_*.go files.
var streamFuncs = map[string]func(r *runner, rng *rand.Rand) error{}

// replayFuncs maps a request verb (first token of a line) to its replayer.
var replayFuncs = map[string]func(r *runner, id, line string){}

func (r *runner) otherStream(rng *rand.Rand) error {
	f, ok := streamFuncs[*stream]
	if !ok {
		return fmt.Errorf("unknown stream %q", *stream)
	}
	return f(r, rng)
}

func (r *runner) replayOther(id, line string) {
	verb := strings.Fields(line)[0]
	if f, ok := replayFuncs[verb]; ok {
		f(r, id, line)
		return
	}
	r.mismatch(Mismatch{Case: id, Request: line, Note: "unknown request verb"})
}

// noModelStreams lists streams that compare the real code with regenerated facts or with
// itself and do not need the Lean model process.
var noModelStreams = map[string]bool{}
