//go:build !race

package main

const raceEnabled = false
