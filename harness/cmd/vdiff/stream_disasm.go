package main

// Stream "disasm" (property C16): disasm.ExtractSyscalls on generated objdump listings vs the Lean
// model of the parser (request verb D).
//
//	D <x86_64|i386> <- | k | open> <hex of the file content>
//	→ OK n (num hexname hexcaller hexfunction hexlocation hexassembly)* | ERR | PANIC
//
// "-": the file is readable to the end; "0": the path is a directory (the first read fails);
// "open": the path does not exist.  Besides the exact comparison with the model the clauses of the
// property are checked on the implementation's own output (panic; a result although the text could
// not be read to the end; reported name not in the architecture's table; number taken from another
// function; findings of a prefix cut at a function boundary are not a prefix of the findings of
// the whole); a clause that fails gives the mismatch its FailingInput.

import (
	"bufio"
	"bytes"
	"crypto/sha256"
	"encoding/hex"
	"fmt"
	"math/rand"
	"os"
	"os/exec"
	"path/filepath"
	"sort"
	"strings"
	"syscall"
	"time"
	"unsafe"

	"github.com/elastic/go-seccomp-bpf/arch"
	"github.com/elastic/go-seccomp-bpf/cmd/seccomp-profiler/disasm"
)

func init() {
	streamFuncs["disasm"] = func(r *runner, rng *rand.Rand) error { return r.disasmStream(rng) }
	replayFuncs["D"] = func(r *runner, id, line string) { r.replayDisasm(id, line) }
}

/* ---------------------------------------------------------------- running the real code */

type dsm struct {
	r       *runner
	dir     string
	devnull *os.File
	file    string
}

func newDsm(r *runner) (*dsm, error) {
	base := ""
	if v := os.Getenv("VERIF_DIR"); v != "" {
		base = filepath.Join(v, "work")
	} else if wd, err := os.Getwd(); err == nil {
		if st, err := os.Stat(filepath.Join(wd, "..", "work")); err == nil && st.IsDir() {
			base = filepath.Join(wd, "..", "work")
		}
	}
	if base != "" {
		os.MkdirAll(base, 0o755)
	}
	dir, err := os.MkdirTemp(base, "disasm-")
	if err != nil {
		return nil, err
	}
	dn, err := os.OpenFile(os.DevNull, os.O_WRONLY, 0)
	if err != nil {
		return nil, err
	}
	return &dsm{r: r, dir: dir, devnull: dn, file: filepath.Join(dir, "objdump.txt")}, nil
}

func (d *dsm) close() {
	d.devnull.Close()
	os.RemoveAll(d.dir)
}

func disArch(name string) *arch.Info {
	if name == "i386" {
		return arch.I386
	}
	return arch.X86_64
}

// real runs ExtractSyscalls with the library's WARN output silenced and panics recovered.
func (d *dsm) real(a *arch.Info, path string) (res []disasm.Syscall, err error, pan interface{}) {
	old := os.Stderr
	os.Stderr = d.devnull
	defer func() {
		os.Stderr = old
		if p := recover(); p != nil {
			pan = p
		}
	}()
	res, err = disasm.ExtractSyscalls(a, path)
	return
}

// realOn writes the content (fail "-") or picks the unreadable path and runs the real code.
func (d *dsm) realOn(a *arch.Info, fail string, content []byte) ([]disasm.Syscall, error, interface{}) {
	switch fail {
	case "-":
		if err := os.WriteFile(d.file, content, 0o644); err != nil {
			return nil, nil, "harness: " + err.Error()
		}
		return d.real(a, d.file)
	case "fifo":
		// the same text delivered through a named pipe (what `profiler <(go tool objdump …)` or a /dev/fd path
		// amounts to): stat reports size 0 and no seeking; the result must be that of the regular file
		return d.viaFifo(a, content)
	case "open":
		return d.real(a, filepath.Join(d.dir, "does-not-exist"))
	case "procmem":
		// a /proc file: stat reports size 0, os.Open succeeds, the first read fails with EIO
		return d.real(a, "/proc/self/mem")
	default: // a directory: os.Open succeeds, the first read fails
		return d.real(a, d.dir)
	}
}

func (d *dsm) viaFifo(a *arch.Info, content []byte) ([]disasm.Syscall, error, interface{}) {
	if len(content) == 0 {
		// nothing to wait for: an empty pipe whose writer is gone cannot be told from one that was never opened
		if err := os.WriteFile(d.file, content, 0o644); err != nil {
			return nil, nil, "harness: " + err.Error()
		}
		return d.real(a, d.file)
	}
	p := filepath.Join(d.dir, "listing.fifo")
	os.Remove(p)
	if err := syscall.Mkfifo(p, 0o600); err != nil {
		return nil, nil, "harness: mkfifo: " + err.Error()
	}
	w, err := os.OpenFile(p, os.O_RDWR, 0) // never blocks, and keeps the reader's open from blocking
	if err != nil {
		return nil, nil, "harness: " + err.Error()
	}
	stop := make(chan struct{})
	done := make(chan struct{})
	go func() {
		defer close(done)
		defer w.Close()
		if _, err := w.Write(content); err != nil {
			return
		}
		// the reader sees the end of the text when the last writer is gone; leave only after the reader has taken
		// everything (then it has opened the pipe), or when the extraction has returned without doing so
		rc, err := w.SyscallConn()
		if err != nil {
			return
		}
		for {
			select {
			case <-stop:
				return
			default:
			}
			pending := 1
			rc.Control(func(fd uintptr) {
				var n int32
				if _, _, e := syscall.Syscall(syscall.SYS_IOCTL, fd, 0x541B /* FIONREAD */, uintptr(unsafe.Pointer(&n))); e == 0 {
					pending = int(n)
				}
			})
			if pending == 0 {
				return
			}
			time.Sleep(50 * time.Microsecond)
		}
	}()
	resCh := make(chan struct{})
	var res []disasm.Syscall
	var rerr error
	var pan interface{}
	go func() {
		res, rerr, pan = d.real(a, p)
		close(resCh)
	}()
	select {
	case <-resCh:
	case <-time.After(30 * time.Second):
		close(stop)
		w.Close()
		<-done
		// unblock a reader stuck in open(2) or read(2), then report
		if k, err := os.OpenFile(p, os.O_WRONLY|syscall.O_NONBLOCK, 0); err == nil {
			k.Close()
		}
		return nil, nil, "harness: extraction from a named pipe did not finish within 30 s"
	}
	close(stop)
	w.Close() // a reader that went away early leaves the writer blocked on a full pipe
	<-done
	return res, rerr, pan
}

// childDisasmMain: `vdiff -childdisasm <arch>:<path>` — the extraction alone, in a process of its own, so that a tracer
// can make one of its read(2) calls on the listing fail.
func childDisasmMain(arg string) {
	i := strings.Index(arg, ":")
	if i < 0 {
		os.Exit(2)
	}
	dn, _ := os.OpenFile(os.DevNull, os.O_WRONLY, 0)
	d := &dsm{devnull: dn}
	res, err, pan := d.real(disArch(arg[:i]), arg[i+1:])
	fmt.Println(renderDis(res, err, pan))
}

// viaInjectedReadError runs the extraction in a child under strace, which makes the k-th read(2) on the listing fail
// with EIO ("read failures at every point": the first chunks were delivered, a line is usually pending).  It reports
// injected = false when the tracer is missing or the k-th read never happened (then nothing was tested).
func (d *dsm) viaInjectedReadError(archName string, content []byte, k int) (reply string, injected bool, problem string) {
	strace, err := exec.LookPath("strace")
	if err != nil {
		return "", false, ""
	}
	if err := os.WriteFile(d.file, content, 0o644); err != nil {
		return "", false, "harness: " + err.Error()
	}
	self, _ := os.Executable()
	trace := filepath.Join(d.dir, "strace.out")
	os.Remove(trace)
	cmd := exec.Command(strace, "-f", "-qq", "-o", trace, "-P", d.file, "-e", "trace=read", "-e", fmt.Sprintf("inject=read:error=EIO:when=%d", k),
		self, "-childdisasm", archName+":"+d.file)
	var out bytes.Buffer
	cmd.Stdout = &out
	done := make(chan error, 1)
	if err := cmd.Start(); err != nil {
		return "", false, ""
	}
	go func() { done <- cmd.Wait() }()
	select {
	case <-done:
	case <-time.After(60 * time.Second):
		cmd.Process.Kill()
		<-done
		return "", false, "harness: traced extraction did not finish within 60 s"
	}
	tr, _ := os.ReadFile(trace)
	if !bytes.Contains(tr, []byte("(INJECTED)")) {
		return "", false, ""
	}
	return strings.TrimSpace(out.String()), true, ""
}

func hexOrDash(b []byte) string {
	if len(b) == 0 {
		return "-"
	}
	return hex.EncodeToString(b)
}

func renderDis(res []disasm.Syscall, err error, pan interface{}) string {
	if pan != nil {
		return "PANIC"
	}
	if err != nil {
		return "ERR"
	}
	var b strings.Builder
	fmt.Fprintf(&b, "OK %d", len(res))
	for _, s := range res {
		fmt.Fprintf(&b, " %d %s %s %s %s %s", s.Num, hexOrDash([]byte(s.Name)), hexOrDash([]byte(s.Caller)),
			hexOrDash([]byte(s.Function)), hexOrDash([]byte(s.Location)), hexOrDash([]byte(s.Assembly)))
	}
	return b.String()
}

/* ---------------------------------------------------------------- the property's clauses on the real output */

// scanLines cuts the content the way the parser's scanner does (the standard library's scanner
// itself, default buffer); readable = the scanner reached the end of the input.
func scanLines(content []byte) (lines []string, readable bool) {
	s := bufio.NewScanner(bytes.NewReader(content))
	for s.Scan() {
		lines = append(lines, s.Text())
	}
	return lines, s.Err() == nil
}

func sameSyscall(a, b disasm.Syscall) bool { return a == b }

func isPrefixRes(p, w []disasm.Syscall) bool {
	if len(p) > len(w) {
		return false
	}
	for i := range p {
		if !sameSyscall(p[i], w[i]) {
			return false
		}
	}
	return true
}

// functionCuts returns the byte offsets at which a new function starts (a line beginning with TEXT
// right after a newline); cutting there leaves a text that ends in a newline.
func functionCuts(content []byte) []int {
	var cuts []int
	for i := 1; i+4 <= len(content); i++ {
		if content[i-1] == '\n' && bytes.HasPrefix(content[i:], []byte("TEXT")) {
			cuts = append(cuts, i)
		}
	}
	return cuts
}

// clauseCheck evaluates the clauses of C16 that can be decided from the implementation's output
// alone.  It returns a description of the first clause that fails, "" if none does.
func (d *dsm) clauseCheck(a *arch.Info, fail string, content []byte, res []disasm.Syscall, err error, pan interface{},
	maxCuts int, rng *rand.Rand) string {
	if pan != nil {
		return fmt.Sprintf("extraction panics: %v", pan)
	}
	lines, readable := scanLines(content)
	if fail == "fifo" {
		fail = "-"
	}
	if fail != "-" {
		readable = false
	}
	if !readable && err == nil {
		return fmt.Sprintf("the text cannot be read to the end but extraction returns %d syscalls and no error", len(res))
	}
	if err != nil {
		return ""
	}
	// every reported syscall exists in the architecture's table under the reported name
	for _, s := range res {
		if name, ok := a.SyscallNumbers[s.Num]; !ok || name != s.Name {
			return fmt.Sprintf("reported syscall %d %q is not an entry of the %s table (entry: %q, present %v)", s.Num, s.Name, a.Name, name, ok)
		}
	}
	// the number comes from the function of the site: decidable when the location field is unique
	first := map[string]int{}
	cnt := map[string]int{}
	for i, l := range lines {
		if strings.HasPrefix(l, "TEXT") {
			continue
		}
		f := strings.Fields(l)
		if len(f) > 0 {
			if cnt[f[0]] == 0 {
				first[f[0]] = i
			}
			cnt[f[0]]++
		}
	}
	for _, s := range res {
		if cnt[s.Location] != 1 {
			continue
		}
		i := first[s.Location]
		t := i
		for t >= 0 && !strings.HasPrefix(lines[t], "TEXT") {
			t--
		}
		caller := ""
		if t >= 0 && len(lines[t]) > 4 {
			caller = lines[t][5:]
		}
		if s.Caller != caller {
			return fmt.Sprintf("syscall at %s is attributed to function %q, its site lies in %q", s.Location, s.Caller, caller)
		}
		found := false
		hi := i
		if s.Assembly == "XORL AX, AX" {
			hi = i - 1
		}
		for j := t + 1; j <= hi && !found; j++ {
			found = strings.Contains(lines[j], s.Assembly)
		}
		if !found {
			return fmt.Sprintf("syscall %d at %s: the number-loading instruction %q does not occur in the function of the site (lines %d..%d)", s.Num, s.Location, s.Assembly, t+2, i+1)
		}
	}
	// appending further functions never removes or changes earlier findings
	cuts := functionCuts(content)
	if maxCuts > 0 && len(cuts) > maxCuts {
		rng.Shuffle(len(cuts), func(i, j int) { cuts[i], cuts[j] = cuts[j], cuts[i] })
		cuts = cuts[:maxCuts]
		sort.Ints(cuts)
	}
	if fail == "-" {
		for _, c := range cuts {
			pres, perr, ppan := d.realOn(a, "-", content[:c])
			d.r.sum.OracleRuns++
			if ppan != nil {
				return fmt.Sprintf("extraction panics on the prefix of %d bytes: %v", c, ppan)
			}
			if perr != nil {
				return fmt.Sprintf("the whole text is read without error, its prefix of %d bytes (cut at a function boundary) gives an error: %v", c, perr)
			}
			if !isPrefixRes(pres, res) {
				return fmt.Sprintf("findings of the prefix of %d bytes (cut at a function boundary) are not a prefix of the findings of the whole text: %s vs %s",
					c, renderDis(pres, nil, nil), renderDis(res, nil, nil))
			}
		}
	}
	return ""
}

/* ---------------------------------------------------------------- one case */

type disCase struct {
	arch    string
	fail    string
	content []byte
	tags    []string
	nontriv bool
}

func (c *disCase) request() string {
	return fmt.Sprintf("D %s %s %s", c.arch, c.fail, hexOrDash(c.content))
}

// modelRequest: the model knows "-" (readable), "open" and "read fails after n lines"; how the text is delivered
// (regular file or pipe) and which unreadable file it is are matters of the harness.
func (c *disCase) modelRequest() string {
	fail := c.fail
	switch fail {
	case "fifo":
		fail = "-"
	case "procmem":
		fail = "0"
	}
	return fmt.Sprintf("D %s %s %s", c.arch, fail, hexOrDash(c.content))
}

func shortReq(req string) string {
	if len(req) > 400 {
		h := sha256.Sum256([]byte(req))
		return fmt.Sprintf("%s…(%d characters, sha256 %x)", req[:400], len(req), h[:6])
	}
	return req
}

// one runs a case on both sides; cuts = how many function-boundary prefixes are run on the real code
// (0 = all).  Returns true when the stream should stop.
func (d *dsm) one(id string, c *disCase, cuts int, rng *rand.Rand) bool {
	r := d.r
	a := disArch(c.arch)
	req := c.request()
	res, err, pan := d.realOn(a, c.fail, c.content)
	goReply := renderDis(res, err, pan)
	modelReply, merr := r.model.Ask(c.modelRequest())
	if merr != nil {
		r.sum.Error = merr.Error()
		return true
	}
	r.tag("arch:" + c.arch)
	for _, t := range c.tags {
		r.tag(t)
	}
	cls := "OK-4+"
	switch {
	case pan != nil:
		cls = "PANIC"
	case err != nil:
		cls = "ERR"
	case len(res) == 0:
		cls = "OK-0"
	case len(res) < 4:
		cls = "OK-1..3"
	}
	r.tag("reply:" + cls)
	for _, t := range c.tags {
		if strings.HasPrefix(t, "family:") {
			r.tag(t + "/" + cls)
		}
	}
	r.count(req, c.nontriv)
	if len(req) < 3000 {
		r.sample(req + "  =>  " + goReply)
	}
	bad := d.clauseCheck(a, c.fail, c.content, res, err, pan, cuts, rng)
	if goReply == modelReply && bad == "" {
		return false
	}
	if goReply != modelReply && bad == "" {
		// look harder: every function boundary
		bad = d.clauseCheck(a, c.fail, c.content, res, err, pan, 0, rng)
	}
	m := Mismatch{Case: id, Request: req, Go: goReply, Model: modelReply}
	if goReply == modelReply {
		m.Note = "outputs are equal but a clause of the property fails on them"
	}
	if bad != "" {
		h := sha256.Sum256([]byte(req))
		m.FailingInput = bad + " — input: " + shortReq(req)
		m.Key = fmt.Sprintf("C16:%x", h[:8])
	}
	return r.mismatch(m)
}

func (r *runner) replayDisasm(id, line string) {
	f := strings.Fields(line)
	if len(f) != 4 || (f[1] != "x86_64" && f[1] != "i386") {
		r.mismatch(Mismatch{Case: id, Request: line, Note: "malformed D request"})
		return
	}
	var content []byte
	if f[3] != "-" {
		b, err := hex.DecodeString(f[3])
		if err != nil {
			r.mismatch(Mismatch{Case: id, Request: line, Note: "malformed D request: " + err.Error()})
			return
		}
		content = b
	}
	d, err := newDsm(r)
	if err != nil {
		r.mismatch(Mismatch{Case: id, Request: line, Note: "harness: " + err.Error()})
		return
	}
	defer d.close()
	lines, _ := scanLines(content)
	c := &disCase{arch: f[1], fail: f[2], content: content, tags: []string{"family:replay"}, nontriv: len(lines) > 0}
	d.one(id, c, 0, rand.New(rand.NewSource(1)))
}

/* ---------------------------------------------------------------- generator: the site model */

var disCallees = []string{
	"syscall.Syscall(SB)", "syscall.Syscall6(SB)", "syscall.rawVforkSyscall(SB)", "syscall.RawSyscall(SB)",
	"syscall.RawSyscall6(SB)", "unix.RawSyscall(SB)", "unix.RawSyscall6(SB)", "unix.RawSyscallNoError(SB)",
	"unix.Syscall(SB)", "unix.Syscall6(SB)", "unix.Syscall9(SB)", "unix.SyscallNoError(SB)",
	"golang.org/x/sys/unix.Syscall(SB)", "vendor/golang.org/x/sys/unix.RawSyscall6(SB)",
}

// calls that are not syscall functions
var disOtherCallees = []string{
	"syscall.Syscall9(SB)", "syscall.syscall(SB)", "unix.Syscall", "runtime.read(SB)", "runtime.morestack_noctxt(SB)",
	"syscall.Syscall(SP)", "main.helper(SB)", "unix.Syscall6 (SB)",
}

var disFuncNames = []string{
	"main.main(SB) /src/app/main.go", "main.run(SB) /src/app/run.go", "os.(*File).Read(SB) /go/src/os/file.go",
	"runtime.futex(SB) /go/src/runtime/sys_linux_amd64.s", "runtime.read(SB) /go/src/runtime/sys_linux_amd64.s",
	"syscall.Syscall(SB) /go/src/syscall/asm_linux_amd64.s", "syscall.RawSyscall6(SB) /go/src/syscall/asm_linux_amd64.s",
	"golang.org/x/sys/unix.Syscall(SB) /mod/x/sys/unix/asm_linux_amd64.s", "syscall.rawVforkSyscall(SB) /go/src/syscall/asm_linux_amd64.s",
	"net.(*netFD).connect(SB) /go/src/net/fd_unix.go", "type..eq.[2]string(SB) <autogenerated>", "x_cgo_init(SB)", "é.ü(SB) /src/ünï.go",
}

var disFillers = []string{
	"MOVQ AX, 0x8(SP)", "LEAQ 0x10(SP), BP", "CMPQ 0x10(R14), SP", "JBE 0x45f2c0", "RET", "MOVQ $0x0, 0x18(SP)",
	"MOVL $0x1, CX", "SUBQ $0x38, SP", "MOVQ BP, 0x30(SP)", "NOPL 0(AX)(AX*1)", "CALL runtime.morestack_noctxt(SB)",
	"MOVQ 0x40(SP), DI", "XORL CX, CX", "MOVQ CX, 0x10(SP)", "INT $0x3", "MOVZX AL, AX", "MOVQ $-0x1, 0x20(SP)",
	"JMP 0x45f2a0", "ADDQ $0x38, SP", "POPQ BP", "CMPQ $-0xfff, AX", "MOVQ AX, BP",
}

type disGen struct {
	rng   *rand.Rand
	a     *arch.Info
	arch  string
	nums  []int // sorted keys of the table
	tags  map[string]bool
	line  int
	pc    int
	file  string
	sites int
	odd   int // malformed lines
	lastN       int  // number of the previous load
	haveLast    bool
	lastUnknown bool // … which no table holds
}

func newDisGen(rng *rand.Rand, archName string) *disGen {
	a := disArch(archName)
	nums := make([]int, 0, len(a.SyscallNumbers))
	for k := range a.SyscallNumbers {
		nums = append(nums, k)
	}
	sort.Ints(nums)
	return &disGen{rng: rng, a: a, arch: archName, nums: nums, tags: map[string]bool{}, line: 10 + rng.Intn(500), pc: 0x401000 + rng.Intn(0x80000), file: "main.go"}
}

func (g *disGen) tag(t string) { g.tags[t] = true }

func (g *disGen) pick(xs []string) string { return xs[g.rng.Intn(len(xs))] }

// insertUnderscores puts single underscores between digits.
func insertUnderscores(rng *rand.Rand, digits string) string {
	var out []byte
	for i := 0; i < len(digits); i++ {
		out = append(out, digits[i])
		if i < len(digits)-1 && rng.Intn(3) == 0 {
			out = append(out, '_')
		}
	}
	return string(out)
}

// numText renders a syscall number the way a `$` operand may be written and says what was chosen.
func (g *disGen) numText() string {
	rng := g.rng
	var n int
	unknown := false
	switch k := rng.Intn(20); {
	case g.haveLast && (g.lastUnknown && rng.Intn(2) == 0 || rng.Intn(10) == 0):
		// the same number as the previous load (what a one-entry lookup memo would see)
		n, unknown = g.lastN, g.lastUnknown
		g.tag("num:same-as-previous-load")
		if unknown {
			g.tag("num:same-unknown-number-twice")
		}
	case k < 14:
		n = g.nums[rng.Intn(len(g.nums))]
	case k < 15: // not in the table
		n = []int{100000, 335 + rng.Intn(80), 1 << 20, 0x7fffffff, 4096 + rng.Intn(100), 8192}[rng.Intn(6)]
		unknown = true
		g.tag("num:unknown")
	case k < 16: // a table number with extra high bits: x32 bit, sign bit of 32 bits, bit 32, 16-bit wrap
		base := g.nums[rng.Intn(len(g.nums))]
		n = []int{base | 0x40000000, base | 0x80000000, base + 1<<32, base | 0x10000, base | 0x20000000, base + 1<<31 + 1<<30}[rng.Intn(6)]
		g.tag("num:table-number-with-high-bits")
	case k < 17:
		n = 0
	default:
		n = rng.Intn(460)
	}
	g.lastN, g.haveLast, g.lastUnknown = n, true, unknown
	switch k := rng.Intn(40); {
	case k < 14:
		g.tag("num:hex")
		return fmt.Sprintf("%#x", n)
	case k < 20:
		g.tag("num:decimal")
		return fmt.Sprintf("%d", n)
	case k < 22:
		g.tag("num:HEX")
		return fmt.Sprintf("0X%X", n)
	case k < 24:
		g.tag("num:octal0")
		return fmt.Sprintf("0%o", n)
	case k < 26:
		g.tag("num:octal0o")
		return fmt.Sprintf("0%c%o", "oO"[rng.Intn(2)], n)
	case k < 28:
		g.tag("num:binary")
		return fmt.Sprintf("0%c%b", "bB"[rng.Intn(2)], n)
	case k < 31:
		g.tag("num:underscore-ok")
		switch rng.Intn(4) {
		case 0:
			return "0x_" + insertUnderscores(rng, fmt.Sprintf("%x", n))
		case 1:
			return insertUnderscores(rng, fmt.Sprintf("%d", n+1000))
		case 2:
			return "0_" + insertUnderscores(rng, fmt.Sprintf("%o", n))
		default:
			return "0b_" + insertUnderscores(rng, fmt.Sprintf("%b", n))
		}
	case k < 33:
		g.tag("num:underscore-bad")
		s := fmt.Sprintf("%d", n+10)
		return []string{"_" + s, s + "_", s[:1] + "__" + s[1:], "0x" + s + "_", "0_x" + s, "0x__" + s, "-_" + s, "_"}[rng.Intn(8)]
	case k < 35:
		g.tag("num:signed")
		return []string{fmt.Sprintf("+%d", n), fmt.Sprintf("-%d", n), fmt.Sprintf("-%#x", n), fmt.Sprintf("+%#x", n), "-0", "+0x0", "-1", "--1", "+-1", "+", "-"}[rng.Intn(11)]
	case k < 37:
		g.tag("num:range")
		return []string{"0x8000000000000000", "0x7fffffffffffffff", "9223372036854775807", "9223372036854775808", "-9223372036854775808",
			"-9223372036854775809", "18446744073709551615", "18446744073709551616", "0xffffffffffffffff", "0x10000000000000000",
			"99999999999999999999999999", "-0x8000000000000000", "-0x8000000000000001", "01777777777777777777777", "0777777777777777777777",
			"0b1" + strings.Repeat("0", 63), "0b1" + strings.Repeat("0", 62)}[rng.Intn(17)]
	default:
		g.tag("num:garbage")
		s := fmt.Sprintf("%d", n)
		return []string{"", " ", "0x", "0b", "0o", "08", "09", "0b2", "0o8", "0xg", "abc", s + " ", " " + s, s + "h", "0x" + s + "p1", "\uff11\uff12", s + "\u00a0",
			"1e3", "0x1.8p1", "$" + s, "0", "00", "0x0", "0b0", "0o0", "0_0", s + ", 0(SP)", s + ", AX"}[rng.Intn(28)]
	}
}

// ins renders one instruction line in the layout of `go tool objdump`.
func (g *disGen) ins(text string) string {
	g.line += g.rng.Intn(3)
	g.pc += 1 + g.rng.Intn(9)
	enc := fmt.Sprintf("%x", g.rng.Uint64()>>(uint(g.rng.Intn(7))*8))
	// the location is unique per line: file:line with a strictly growing pc-derived suffix when the line repeats
	loc := fmt.Sprintf("%s:%d", g.file, g.line)
	g.line++
	switch k := g.rng.Intn(40); {
	case k < 34:
		return fmt.Sprintf("  %s\t%#x\t\t%s\t\t%s\t", loc, g.pc, enc, text)
	case k < 36:
		g.tag("layout:spaces")
		return fmt.Sprintf("  %s   %#x   %s   %s", loc, g.pc, enc, text)
	case k < 37:
		g.tag("layout:unicode-space")
		sp := []string{"\u00a0", "\u2003", "\u0085", "\u3000", "\u1680", "\u2028", "\u202f", "\u205f", "\u2000"}[g.rng.Intn(9)]
		return fmt.Sprintf("%s%s%s%#x%s%s%s%s", sp, loc, sp, g.pc, sp, enc, sp, text)
	case k < 38:
		g.tag("layout:zero-width-space")
		return fmt.Sprintf("  %s\u200b%#x\t\t%s\t\t%s\t", loc, g.pc, enc, text)
	case k < 39:
		g.tag("layout:fewer-fields")
		g.odd++
		switch g.rng.Intn(3) {
		case 0:
			return text
		case 1:
			return fmt.Sprintf("%s\t%s", loc, text)
		default:
			return fmt.Sprintf("%s\t%#x\t%s", loc, g.pc, text)
		}
	default:
		g.tag("layout:extra-fields")
		return fmt.Sprintf("  %s\t%#x\t\t%s\t\t%s\t// %s", loc, g.pc, enc, text, g.pick(disFillers))
	}
}

func (g *disGen) fillers(max int) []string {
	var out []string
	for k := g.rng.Intn(max + 1); k > 0; k-- {
		out = append(out, g.ins(g.pick(disFillers)))
	}
	return out
}

func (g *disGen) movOp() string {
	switch k := g.rng.Intn(30); {
	case k < 12:
		return "MOVQ"
	case k < 22:
		return "MOVL"
	case k < 24:
		return "MOV"
	case k < 26:
		return "MOVW"
	case k < 27:
		g.tag("mov:two-capitals")
		return []string{"MOVQQ", "MOVAB", "MOVZX", "MOVSD"}[g.rng.Intn(4)]
	case k < 28:
		g.tag("mov:lower")
		return "MOVq"
	case k < 29:
		g.tag("mov:prefixed")
		return "MOV MOVQ"
	default:
		return "CMOVQ"
	}
}

// rawIns gives a raw system call instruction (mostly one of this architecture).
func (g *disGen) rawIns() string {
	own := []string{"SYSCALL"}
	other := []string{"INT $0x80", "SYSENTER"}
	if g.arch == "i386" {
		own, other = other, own
	}
	if g.rng.Intn(8) == 0 {
		g.tag("raw:other-arch")
		return g.pick(other)
	}
	return g.pick(own)
}

// site renders one call site with the instructions that load its number.
func (g *disGen) site() []string {
	rng := g.rng
	var out []string
	g.sites++
	out = append(out, g.fillers(3)...)
	switch k := rng.Intn(20); {
	case k < 9: // call of a syscall function, number in 0(SP)
		g.tag("site:call")
		nmov := []int{1, 1, 1, 1, 1, 1, 0, 2}[rng.Intn(8)]
		if nmov == 0 {
			g.tag("site:no-number")
		}
		if nmov == 2 {
			g.tag("site:two-numbers")
		}
		for i := 0; i < nmov; i++ {
			dst := "0(SP)"
			if rng.Intn(15) == 0 {
				dst = []string{"(SP)", "0x0(SP)", "0(SP), 0(SP)", "0(SP)x", "AX", "0(sp)", "8(SP)"}[rng.Intn(7)]
				g.tag("mov:odd-destination")
			}
			out = append(out, g.ins(fmt.Sprintf("%s $%s, %s", g.movOp(), g.numText(), dst)))
			out = append(out, g.fillers(3)...)
		}
		callee := g.pick(disCallees)
		if rng.Intn(12) == 0 {
			callee = g.pick(disOtherCallees)
			g.tag("site:not-a-syscall-function")
		}
		op := "CALL"
		if rng.Intn(25) == 0 {
			op = []string{"JMP", "call", "CALLQ"}[rng.Intn(3)]
			g.tag("site:odd-call-op")
		}
		out = append(out, g.ins(op+" "+callee))
	case k < 17: // raw instruction, number in AX / BP
		g.tag("site:raw")
		nmov := []int{1, 1, 1, 1, 1, 0, 2}[rng.Intn(7)]
		if nmov == 0 {
			g.tag("site:no-number")
		}
		if nmov == 2 {
			g.tag("site:two-numbers")
		}
		for i := 0; i < nmov; i++ {
			dst := []string{"AX", "AX", "AX", "BP"}[rng.Intn(4)]
			if rng.Intn(15) == 0 {
				dst = []string{"BPX", "AX, AX", "CX", "ax", "AXBP", "AX, BP", "0(SP)"}[rng.Intn(7)]
				g.tag("mov:odd-destination")
			}
			out = append(out, g.ins(fmt.Sprintf("%s $%s, %s", g.movOp(), g.numText(), dst)))
			out = append(out, g.fillers(3)...)
		}
		out = append(out, g.ins(g.rawIns()))
	default: // XORL AX, AX directly before the raw instruction
		g.tag("site:xorl")
		if rng.Intn(3) == 0 {
			out = append(out, g.ins(fmt.Sprintf("MOVL $%s, AX", g.numText())))
		}
		out = append(out, g.ins("XORL AX, AX"))
		if rng.Intn(6) == 0 {
			g.tag("site:xorl-not-adjacent")
			out = append(out, g.ins(g.pick(disFillers)))
		}
		out = append(out, g.ins(g.rawIns()))
	}
	return out
}

func (g *disGen) textLine() string {
	name := g.pick(disFuncNames)
	if i := strings.LastIndex(name, "/"); i >= 0 {
		g.file = name[i+1:]
	} else {
		g.file = "x.go"
	}
	g.line = 1 + g.rng.Intn(900)
	switch k := g.rng.Intn(40); {
	case k < 3:
		// a well-formed marker whose symbol carries decorations: flags and a frame size as in assembler sources,
		// an ABI suffix, a comment, a $ or a comma somewhere — still a function boundary
		g.tag("marker:decorated-symbol")
		sym, rest := name, ""
		if i := strings.Index(name, " "); i >= 0 {
			sym, rest = name[:i], name[i:]
		}
		return "TEXT " + sym + []string{",NOSPLIT,$0-8", ",NOSPLIT|NOFRAME,$0", ", $16-24", "<ABIInternal>", ",$0x0", " // $0", ",4,$8-16", ".abi0,$0"}[g.rng.Intn(8)] + rest
	case k < 33:
		return "TEXT " + name
	case k < 34:
		g.tag("marker:bare-TEXT")
		g.odd++
		return "TEXT"
	case k < 35:
		g.tag("marker:TEXT+1")
		g.odd++
		return "TEXT" + []string{" ", "x", "\t", "\xc2", "\r"}[g.rng.Intn(5)]
	case k < 36:
		g.tag("marker:TEXT-tab")
		return "TEXT\t" + name
	case k < 37:
		g.tag("marker:TEXT-nbsp")
		return "TEXT\u00a0" + name
	case k < 38:
		g.tag("marker:TEXT-glued")
		return "TEXT" + name
	case k < 39:
		g.tag("marker:indented-TEXT")
		return " TEXT " + name
	default:
		g.tag("marker:TEXT-two-blanks")
		return "TEXT  " + name
	}
}

var disVocab = []string{
	"MOV", "MOVQ", "MOVL", "MOVQQ", "MOVA", "MOVAB", "MOVq", " ", " ", " ", "$", "$", "0x3b", "59", "1", "0", ", ", ", ", "0(SP)", "AX", "BP", "BPX", ",",
	"SYSCALL", "CALL", "CALL ", "syscall.Syscall(SB)", "unix.Syscall6(SB)", "syscall.RawSyscall(SB)", "INT $0x80", "SYSENTER", "XORL AX, AX", "TEXT", "TEXT ",
	"\t", "\t", "\u00a0", "\u2003", "\u200b", "\r", "\x80", "\xff", "\xe2\x80", "\xc2", "_", "-", "+", "0x", "0b1", "0o7", "08", "0x8000000000000000", "f.go:1", "0x45f2a0",
	"MOVQ $0x3b, 0(SP)", "MOVL $0x1, AX", "MOVL $0x27, BP", "main.f(SB)", "é", "\v", "\f", "x", "(SB)", "(SP)", "SYS", "CALL syscall.Syscall(SB)",
}

// pieces of number-loading instructions for the operand-fuzz family
var disFuzzVocab = []string{
	"MOV", "MOVQ", "MOVL", "MOVW", "MOVQQ", "MOVq", "MOV ", "MOVQ ", "MOVL ", "MOVB ", " ", " ", "$", "$", "$", ", ", ", ", ", ", ",", "AX", "BP", "BPX", "AX, AX",
	"0(SP)", "0(SP)", "(SP)", "0(SP) ", "0x3b", "59", "1", "0", "073", "0o73", "0b11", "0X3B", "_", "__", "-", "+", "0x", "9223372036854775807", "9223372036854775808",
	"0x7fffffffffffffff", "0x8000000000000000", "MOVQ $0x3b, 0(SP)", "MOVL $0x1, AX", "MOVL $0x27, BP", "$0x1, AX", "$5, 0(SP)", "\t", "\r", "\u00a0", "\xff", "é", "x", "8", "9", "a", "f", "g", "e3",
}

func (g *disGen) wildLine() string {
	rng := g.rng
	g.odd++
	switch k := rng.Intn(10); {
	case k < 6:
		var b strings.Builder
		for n := rng.Intn(9); n >= 0; n-- {
			b.WriteString(g.pick(disVocab))
		}
		return b.String()
	case k < 7:
		n := rng.Intn(40)
		b := make([]byte, n)
		for i := range b {
			c := byte(rng.Intn(256))
			if c == '\n' {
				c = ' '
			}
			b[i] = c
		}
		return string(b)
	case k < 8:
		return []string{"", " ", "\t", "\r", "\u00a0", "\u200b", "SYSCALL", " SYSCALL", "a SYSCALL", "a b SYSCALL", "a b c SYSCALL", "a b c d SYSCALL e",
			"CALL syscall.Syscall(SB)", "CALL\u00a0syscall.Syscall(SB)", "CALL\u200bsyscall.Syscall(SB)", "INT $0x80", "SYSENTER", " SYSENTER ",
			"XORL AX, AX", "TEXT", "TEXTX", "TEXT ", "\u2003SYSCALL"}[rng.Intn(23)]
	default:
		// a free-standing number-loading instruction or site
		switch rng.Intn(4) {
		case 0:
			return g.ins(fmt.Sprintf("%s $%s, 0(SP)", g.movOp(), g.numText()))
		case 1:
			return g.ins(fmt.Sprintf("%s $%s, %s", g.movOp(), g.numText(), []string{"AX", "BP"}[rng.Intn(2)]))
		case 2:
			return g.ins("CALL " + g.pick(disCallees))
		default:
			return g.ins(g.rawIns())
		}
	}
}

// listing produces the lines of a disassembly: functions × sites, with noise lines at the given rate
// (per mille).
func (g *disGen) listing(maxFuncs, maxSites, noise int) []string {
	rng := g.rng
	var lines []string
	if rng.Intn(6) == 0 {
		g.tag("listing:lines-before-first-TEXT")
		lines = append(lines, g.site()...)
	}
	for f := 1 + rng.Intn(maxFuncs); f > 0; f-- {
		lines = append(lines, g.textLine())
		if rng.Intn(60) == 0 {
			// a very long function body (beyond any fixed window a parser might keep) that ends in a
			// number nobody consumed; the next function starts with a site that loads no number itself
			g.tag("listing:function-longer-than-1024-lines")
			n := []int{1000, 1021, 1022, 1023, 1024, 1025, 1100, 1500, 2047, 2048, 3000, 5000}[rng.Intn(12)]
			for k := 0; k < n; k++ {
				lines = append(lines, g.ins(g.pick(disFillers)))
			}
			if rng.Intn(2) == 0 {
				lines = append(lines, g.ins(fmt.Sprintf("MOVQ $%s, 0(SP)", g.numText())))
			} else {
				lines = append(lines, g.ins(fmt.Sprintf("MOVL $%s, AX", g.numText())))
			}
			lines = append(lines, g.fillers(2)...)
			lines = append(lines, g.textLine())
			if rng.Intn(2) == 0 {
				lines = append(lines, g.ins("CALL "+g.pick(disCallees)))
			} else {
				lines = append(lines, g.ins(g.rawIns()))
			}
			g.sites++
		}
		if rng.Intn(60) == 0 {
			// well-formed lines that are merely long (below the scanner's 64 KiB limit): a marker with a very long
			// symbol between an unconsumed number and a site that loads none, and a site on a long line
			g.tag("listing:long-marker-or-site-line")
			n := []int{4090, 4097, 5000, 9000, 30000, 65000}[rng.Intn(6)]
			if rng.Intn(2) == 0 {
				lines = append(lines, g.ins(fmt.Sprintf("MOVQ $%s, 0(SP)", g.numText())))
			} else {
				lines = append(lines, g.ins(fmt.Sprintf("MOVL $%s, AX", g.numText())))
			}
			lines = append(lines, "TEXT main."+strings.Repeat("f", n)+"(SB) /src/long.go")
			if rng.Intn(2) == 0 {
				lines = append(lines, g.ins("CALL "+g.pick(disCallees)))
			} else {
				lines = append(lines, g.ins(g.rawIns()))
			}
			g.sites++
			// a complete site whose last line is long (a long source path)
			lines = append(lines, g.ins(fmt.Sprintf("MOVL $%s, AX", g.numText())))
			lines = append(lines, fmt.Sprintf("  /src/%s/f.go:7\t0x4a0000\t\t0f05\t\tSYSCALL\t", strings.Repeat("d", n)))
			g.sites++
		}
		ns := rng.Intn(maxSites + 1)
		if ns == 0 {
			lines = append(lines, g.fillers(4)...)
			if rng.Intn(3) == 0 {
				// a dangling number that must not leak into the next function
				g.tag("listing:dangling-number")
				if rng.Intn(2) == 0 {
					lines = append(lines, g.ins(fmt.Sprintf("MOVQ $%s, 0(SP)", g.numText())))
				} else {
					lines = append(lines, g.ins(fmt.Sprintf("MOVL $%s, AX", g.numText())))
				}
			}
		}
		for s := 0; s < ns; s++ {
			lines = append(lines, g.site()...)
		}
		lines = append(lines, g.fillers(2)...)
		if rng.Intn(5) == 0 {
			g.tag("listing:dangling-number")
			if rng.Intn(2) == 0 {
				lines = append(lines, g.ins(fmt.Sprintf("MOVQ $%s, 0(SP)", g.numText())))
			} else {
				lines = append(lines, g.ins(fmt.Sprintf("MOVL $%s, AX", g.numText())))
			}
		}
		if rng.Intn(4) == 0 {
			lines = append(lines, "")
		}
	}
	if noise > 0 {
		var out []string
		for _, l := range lines {
			for rng.Intn(1000) < noise {
				out = append(out, g.wildLine())
			}
			out = append(out, l)
		}
		lines = out
	}
	return lines
}

func longLine(rng *rand.Rand, n int) string {
	b := bytes.Repeat([]byte{'x'}, n)
	switch rng.Intn(4) {
	case 0:
	case 1: // fields on a long line
		for i := 0; i < n; i += 1 + rng.Intn(4000) {
			b[i] = ' '
		}
	case 2: // a syscall site at the end of a long line
		s := []byte(" f.go:1 0x1 0f05 SYSCALL")
		if n > len(s) {
			copy(b[n-len(s):], s)
		}
	default:
		s := []byte("MOVL $0x1, AX ")
		if n > len(s) {
			copy(b, s)
		}
	}
	return string(b)
}

// join renders the lines with the chosen line ends.
func joinLines(rng *rand.Rand, lines []string, tags map[string]bool) []byte {
	var b bytes.Buffer
	mode := rng.Intn(20)
	for i, l := range lines {
		b.WriteString(l)
		last := i == len(lines)-1
		switch {
		case mode == 0:
			tags["eol:crlf"] = true
			b.WriteString("\r\n")
		case mode == 1 && rng.Intn(3) == 0:
			tags["eol:mixed"] = true
			b.WriteString([]string{"\r\n", "\r\r\n", "\n\r"}[rng.Intn(3)])
		case mode == 2 && last:
			tags["eol:no-final-newline"] = true
		case mode == 3 && last:
			tags["eol:final-cr"] = true
			b.WriteString("\r")
		default:
			b.WriteString("\n")
		}
	}
	return b.Bytes()
}

func tagList(m map[string]bool) []string {
	out := make([]string, 0, len(m))
	for t := range m {
		out = append(out, t)
	}
	sort.Strings(out)
	return out
}

func (r *runner) disasmStream(rng *rand.Rand) error {
	r.sum.Rule = "seeded objdump listings rendered from a site model (functions × call sites: CALL of the syscall.Syscall family with MOV $n, 0(SP); raw SYSCALL / INT $0x80 / SYSENTER " +
		"with MOV $n, AX|BP; the XORL AX, AX case; numbers decimal/hex/octal/binary/underscored/signed/out of range/unknown/garbage), noise lines, malformed TEXT markers, sites with fewer than four fields, " +
		"CR-LF, Unicode blanks, lines of 65535/65536/70000 bytes, missing final newline, truncation at every line boundary and at random bytes, a directory, a missing path and a /proc file whose first read fails, the same number loaded by consecutive sites, marker lines with decorated symbols; one text in six delivered through a named pipe instead of a regular file; a few 300 KB listings extracted in a child whose second or third read(2) is made to fail with EIO (strace fault injection; skipped where strace is not available); both parsers (x86_64, i386); " +
		"a case is one (architecture, readability, file content); non-trivial = the text holds at least one syscall site or one malformed line, or the input is unreadable; distinct by request line. " +
		"oracle_runs = extra runs of the implementation on prefixes cut at function boundaries (prefix-monotonicity checked on the real code)"
	d, err := newDsm(r)
	if err != nil {
		return err
	}
	defer d.close()
	done := 0
	stop := false
	emit := func(id string, c *disCase, cuts int) {
		if stop {
			return
		}
		done++
		if c.fail == "-" && done%6 == 5 {
			// one text in six arrives through a named pipe instead of a regular file
			c.fail = "fifo"
			c.tags = append(c.tags, "delivery:named-pipe")
		}
		if d.one(id, c, cuts, rng) || r.sum.Error != "" {
			stop = true
		}
	}
	for i := 0; done < *n && !stop; i++ {
		archName := []string{"x86_64", "x86_64", "i386"}[rng.Intn(3)]
		g := newDisGen(rng, archName)
		id := fmt.Sprintf("%s#%d", *profile, i)
		switch k := rng.Intn(100); {
		case k < 30:
			g.tag("family:listing")
			lines := g.listing(5, 3, 0)
			emit(id, &disCase{arch: archName, fail: "-", content: joinLines(rng, lines, g.tags), tags: tagList(g.tags), nontriv: g.sites+g.odd > 0}, 3)
		case k < 55:
			g.tag("family:listing+noise")
			lines := g.listing(4, 3, 80+rng.Intn(300))
			emit(id, &disCase{arch: archName, fail: "-", content: joinLines(rng, lines, g.tags), tags: tagList(g.tags), nontriv: g.sites+g.odd > 0}, 3)
		case k < 70:
			g.tag("family:wild")
			var lines []string
			for m := rng.Intn(25); m >= 0; m-- {
				if rng.Intn(8) == 0 {
					lines = append(lines, g.textLine())
				}
				lines = append(lines, g.wildLine())
			}
			emit(id, &disCase{arch: archName, fail: "-", content: joinLines(rng, lines, g.tags), tags: tagList(g.tags), nontriv: true}, 2)
		case k < 76:
			// one function, one adversarial number-loading line, one site: exercises the two regular
			// expressions (leftmost start, optional capital, greedy operand) and ParseInt through
			// the reported assembly text and number
			g.tag("family:operand-fuzz")
			raw := rng.Intn(2) == 0
			operand := g.numText()
			if rng.Intn(5) < 2 {
				var ob strings.Builder
				for m := 1 + rng.Intn(4); m > 0; m-- {
					ob.WriteString(g.pick(disFuzzVocab))
				}
				operand = ob.String()
				g.tag("operand:token-soup")
			}
			dst := "0(SP)"
			if raw {
				dst = []string{"AX", "BP"}[rng.Intn(2)]
			}
			if rng.Intn(8) == 0 {
				dst = []string{"AX", "BP", "0(SP)", "CX", "BPX", "(SP)", "0(SP), AX", "AX, 0(SP)"}[rng.Intn(8)]
			}
			fz := []string{"", "", "", "MOV ", "MOVQ $1, ", "x", "MOV MOVQ $5, 0(SP) ", "MOVL $2, AX "}[rng.Intn(8)] +
				[]string{"MOV", "MOVQ", "MOVL", "MOVB", "MOVQQ", "MOVq", "MOVQ", "MOVL"}[rng.Intn(8)] + " $" + operand + ", " + dst +
				[]string{"", "", "", "\t", ", AX", ", 0(SP)", "X", " // , BP", " ; MOVQ $7, 0(SP)"}[rng.Intn(9)]
			if rng.Intn(4) == 0 && len(fz) > 0 {
				// perturb one byte position: delete it or put a token there
				g.tag("operand:perturbed")
				i := rng.Intn(len(fz))
				if rng.Intn(2) == 0 {
					fz = fz[:i] + fz[i+1:]
				} else {
					fz = fz[:i] + g.pick(disFuzzVocab) + fz[i:]
				}
			}
			fz = strings.ReplaceAll(fz, "\n", " ")
			var b strings.Builder
			b.WriteString(fz)
			lines := []string{"TEXT main.f(SB) /src/f.go"}
			if rng.Intn(4) == 0 {
				lines = append(lines, g.ins(g.pick(disFillers)))
			}
			lines = append(lines, "  f.go:1\t0x1\t\t00\t\t"+b.String())
			if rng.Intn(3) == 0 {
				lines = append(lines, g.ins(g.pick(disFillers)))
			}
			if raw {
				lines = append(lines, "  f.go:2\t0x2\t\t0f05\t\t"+g.rawIns())
			} else {
				lines = append(lines, "  f.go:2\t0x2\t\te8\t\tCALL "+g.pick(disCallees))
			}
			emit(id, &disCase{arch: archName, fail: "-", content: joinLines(rng, lines, g.tags), tags: tagList(g.tags), nontriv: true}, 0)
		case k < 84:
			g.tag("family:single-site")
			lines := []string{g.textLine()}
			lines = append(lines, g.site()...)
			emit(id, &disCase{arch: archName, fail: "-", content: joinLines(rng, lines, g.tags), tags: tagList(g.tags), nontriv: true}, 0)
		case k < 87:
			g.tag("family:long-line")
			lines := g.listing(3, 2, 0)
			ln := []int{65535, 65536, 70000, 65534, 65537}[rng.Intn(5)]
			g.tag(fmt.Sprintf("line:%d-bytes", ln))
			ll := longLine(rng, ln)
			pos := rng.Intn(len(lines) + 1)
			if rng.Intn(3) == 0 {
				pos = len(lines)
			}
			lines = append(lines[:pos:pos], append([]string{ll}, lines[pos:]...)...)
			emit(id, &disCase{arch: archName, fail: "-", content: joinLines(rng, lines, g.tags), tags: tagList(g.tags), nontriv: true}, 2)
		case k < 88 && done%2 == 0:
			// the k-th read(2) on a long listing fails (k = 2, 3: the chunks before it were delivered)
			g.tag("family:read-fails-midway")
			lines := g.listing(40, 3, 30)
			for len(strings.Join(lines, "\n")) < 300000 {
				lines = append(lines, g.listing(40, 3, 30)...)
			}
			content := joinLines(rng, lines, g.tags)
			kth := 2 + rng.Intn(2)
			done++
			reply, injected, problem := d.viaInjectedReadError(archName, content, kth)
			switch {
			case problem != "":
				r.sum.Error = problem
				stop = true
			case !injected:
				r.tag("read-fault:not-injected")
			default:
				r.sum.Evaluations++
				r.tag(fmt.Sprintf("read-fault:EIO-at-read-%d", kth))
				r.tag("read-fault/" + strings.SplitN(reply, " ", 2)[0])
				if reply != "ERR" {
					req := (&disCase{arch: archName, fail: fmt.Sprintf("inject:%d", kth), content: content}).request()
					m := Mismatch{Case: id, Request: shortReq(req), Go: shortReq(reply), Model: "ERR",
						Note: fmt.Sprintf("read(2) number %d on the listing (%d bytes) was made to fail with EIO (strace fault injection); the model says ERR for a read failure at any point; the listing is case %s of: vdiff -stream disasm -profile %s -seed %d -n %d", kth, len(content), id, *profile, *seed, done)}
					if strings.HasPrefix(reply, "OK") {
						m.FailingInput = fmt.Sprintf("a listing of %d bytes whose read(2) number %d fails with EIO: extraction returns a result (%s) and no error", len(content), kth, shortReq(reply))
					} else if reply == "PANIC" {
						m.FailingInput = fmt.Sprintf("a listing of %d bytes whose read(2) number %d fails with EIO: extraction panics", len(content), kth)
					}
					if r.mismatch(m) {
						stop = true
					}
				}
			}
		case k < 89:
			g.tag("family:unreadable")
			lines := g.listing(2, 2, 0)
			fail := []string{"0", "open", "procmem"}[rng.Intn(3)]
			g.tag("unreadable:" + map[string]string{"0": "directory", "open": "missing-path", "procmem": "proc-file-EIO"}[fail])
			emit(id, &disCase{arch: archName, fail: fail, content: joinLines(rng, lines, g.tags), tags: tagList(g.tags), nontriv: true}, 0)
		case k < 97:
			g.tag("family:empty-or-blank")
			content := []string{"", "\n", "\n\n", "\r\n", "\r", " ", "TEXT", "TEXT\n", "TEXT\r\n", "SYSCALL", "SYSCALL\n", "\nSYSCALL", "TEXT \nSYSCALL\n", "INT $0x80", "CALL unix.Syscall(SB)",
				strings.Repeat("\n", 150), strings.Repeat("\r\n", 120), strings.Repeat("\n", 5000) + "SYSCALL"}[rng.Intn(18)]
			emit(id, &disCase{arch: archName, fail: "-", content: []byte(content), tags: tagList(g.tags), nontriv: len(strings.TrimSpace(content)) > 0}, 0)
		default:
			// truncation of a valid listing at every line boundary (and at a few random bytes)
			g.tag("family:truncation")
			noise := 0
			if rng.Intn(3) == 0 {
				noise = 100
			}
			lines := g.listing(4, 2, noise)
			tags := tagList(g.tags)
			var whole bytes.Buffer
			var bounds []int
			for _, l := range lines {
				whole.WriteString(l)
				whole.WriteString("\n")
				bounds = append(bounds, whole.Len())
			}
			content := whole.Bytes()
			emit(id+"/whole", &disCase{arch: archName, fail: "-", content: content, tags: tags, nontriv: g.sites+g.odd > 0}, 0)
			for j, b := range bounds {
				if done >= *n {
					break
				}
				emit(fmt.Sprintf("%s/line%d", id, j+1), &disCase{arch: archName, fail: "-", content: content[:b], tags: []string{"family:truncation", "cut:line-boundary"}, nontriv: g.sites+g.odd > 0}, 1)
				if rng.Intn(4) == 0 && b > 1 {
					c := b - 1 - rng.Intn(minInt(b-1, 30))
					emit(fmt.Sprintf("%s/byte%d", id, c), &disCase{arch: archName, fail: "-", content: content[:c], tags: []string{"family:truncation", "cut:mid-line"}, nontriv: g.sites+g.odd > 0}, 1)
				}
			}
		}
	}
	if r.sum.Error != "" {
		return fmt.Errorf("%s", r.sum.Error)
	}
	return nil
}
