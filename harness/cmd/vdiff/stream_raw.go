package main

import (
	"fmt"
	"math/rand"
	"strings"

	"golang.org/x/net/bpf"

	"verif/harness/internal/vd"
)

// stream "raw": bpf.Assemble (x/net) on the four instruction kinds the compiler emits, compared
// with the model's `encode`; the inputs are random instruction lists and compiled policies.

func init() {
	streamFuncs["raw"] = rawStream
	replayFuncs["R"] = func(r *runner, id, line string) { r.oneRaw(id, line, nil) }
}

func renderRawGo(raw []bpf.RawInstruction) string {
	var b strings.Builder
	fmt.Fprintf(&b, "RAW %d", len(raw))
	for _, x := range raw {
		fmt.Fprintf(&b, " %d:%d:%d:%d", x.Op, x.Jt, x.Jf, x.K)
	}
	return b.String()
}

func (r *runner) oneRaw(id, req string, insts []bpf.Instruction) bool {
	if insts == nil {
		// replay: parse the request back
		f := strings.Fields(req)
		for _, t := range f[2:] {
			p := strings.Split(t, ":")
			var a, b, c, d uint64
			switch p[0] {
			case "ld":
				fmt.Sscan(p[1], &a)
				insts = append(insts, bpf.LoadAbsolute{Off: uint32(a), Size: 4})
			case "ja":
				fmt.Sscan(p[1], &a)
				insts = append(insts, bpf.Jump{Skip: uint32(a)})
			case "ret":
				fmt.Sscan(p[1], &a)
				insts = append(insts, bpf.RetConstant{Val: uint32(a)})
			case "jif":
				fmt.Sscan(p[2], &b)
				fmt.Sscan(p[3], &c)
				fmt.Sscan(p[4], &d)
				for k, v := range condNamesRev() {
					if k == p[1] {
						insts = append(insts, bpf.JumpIf{Cond: v, Val: uint32(b), SkipTrue: uint8(c), SkipFalse: uint8(d)})
					}
				}
			}
		}
	}
	goReply := ""
	raw, err := bpf.Assemble(insts)
	if err != nil {
		goReply = "ERR " + vd.Hex(err.Error())
	} else {
		goReply = renderRawGo(raw)
	}
	modelReply, merr := r.model.Ask(req)
	if merr != nil {
		r.sum.Error = merr.Error()
		return true
	}
	if goReply != modelReply {
		return r.mismatch(Mismatch{Case: id, Request: req, Go: goReply, Model: modelReply})
	}
	return false
}

func condNamesRev() map[string]bpf.JumpTest {
	return map[string]bpf.JumpTest{"eq": bpf.JumpEqual, "ne": bpf.JumpNotEqual, "gt": bpf.JumpGreaterThan, "lt": bpf.JumpLessThan,
		"ge": bpf.JumpGreaterOrEqual, "le": bpf.JumpLessOrEqual, "set": bpf.JumpBitsSet, "nset": bpf.JumpBitsNotSet}
}

func rawStream(r *runner, rng *rand.Rand) error {
	r.sum.Rule = "random lists of the four instruction kinds (all 8 jump tests, skips 0..255, 32-bit operands incl. 0 and 2^32-1) and programs compiled from generated policies, encoded by x/net bpf.Assemble and by the model's encode; distinct by request line; non-trivial = contains a flipped jump test (ne, lt, le, nset)"
	tests := []bpf.JumpTest{bpf.JumpEqual, bpf.JumpNotEqual, bpf.JumpGreaterThan, bpf.JumpLessThan, bpf.JumpGreaterOrEqual, bpf.JumpLessOrEqual, bpf.JumpBitsSet, bpf.JumpBitsNotSet}
	u32 := func() uint32 {
		switch rng.Intn(5) {
		case 0:
			return 0
		case 1:
			return 0xFFFFFFFF
		case 2:
			return uint32(rng.Intn(64))
		}
		return rng.Uint32()
	}
	for i := 0; i < *n; i++ {
		var insts []bpf.Instruction
		if i%4 == 3 {
			p := vd.GenValid(rng, []string{"conds", "mix", "long"}[rng.Intn(3)])
			_, insts = p.Compile()
		}
		if insts == nil {
			k := 1 + rng.Intn(40)
			for j := 0; j < k; j++ {
				switch rng.Intn(4) {
				case 0:
					insts = append(insts, bpf.LoadAbsolute{Off: u32(), Size: 4})
				case 1:
					insts = append(insts, bpf.JumpIf{Cond: tests[rng.Intn(8)], Val: u32(), SkipTrue: uint8(rng.Intn(256)), SkipFalse: uint8(rng.Intn(256))})
				case 2:
					insts = append(insts, bpf.Jump{Skip: u32()})
				default:
					insts = append(insts, bpf.RetConstant{Val: u32()})
				}
			}
		}
		var b strings.Builder
		fmt.Fprintf(&b, "R %d", len(insts))
		flipped := false
		for _, in := range insts {
			s := vd.RenderInstr(in)
			b.WriteByte(' ')
			b.WriteString(s)
			flipped = flipped || strings.HasPrefix(s, "jif:ne") || strings.HasPrefix(s, "jif:l") || strings.HasPrefix(s, "jif:nset")
		}
		req := b.String()
		r.count(req, flipped)
		r.tag(sizeBucket(len(insts)))
		r.sample(req)
		if r.oneRaw(fmt.Sprintf("raw#%d", i), req, insts) {
			break
		}
	}
	return nil
}
