package main

// stream "tables" (property C12): the compiled package `arch` against the facts that vextract
// regenerated from its source (work/facts.json) and against the independent oracle sources in
// the same file.  There is no model process: the Lean theorems of Proofs/C12.lean are about the
// regenerated facts; this stream establishes that the facts are what the compiled code contains
// and does, and it finds concrete failing inputs on the real code:
//
//   * arch.GetInfo(alias) for every key of `arches` in several letter cases (plus the runes
//     U+0130 / U+212A that strings.ToLower maps into ASCII), for table-less keys, unknown names,
//     malformed UTF-8 and the empty name — result compared with the regenerated row;
//   * every entry of every table in both directions (SyscallNumbers[nr], SyscallNames[name]),
//     map sizes, the exported *Info variables, IDs against linux/audit.h, numbers against every
//     oracle source;
//   * ambiguity: names with two numbers are searched directly in the compiled SyscallNumbers
//     maps, and the whole name→number maps are recomputed in -n fresh processes (map iteration
//     is randomised per process) and must be identical;
//   * the assumption behind the model's lower-casing is checked for all 0x110000 code points.
//
// Request verbs (replayable): GETINFO <hex name>, TNAME <Info var> <hex name>, TNUM <Info var> <nr>,
// ROW <Info var>.

import (
	"encoding/hex"
	"encoding/json"
	"fmt"
	"math/rand"
	"os"
	"os/exec"
	"path/filepath"
	"runtime"
	"sort"
	"strconv"
	"strings"
	"time"
	"unicode"
	"unicode/utf8"

	seccomp "github.com/elastic/go-seccomp-bpf"
	"github.com/elastic/go-seccomp-bpf/arch"
	"verif/harness/internal/vd"
)

func init() {
	streamFuncs["tables"] = tablesStream
	replayFuncs["GETINFO"] = replayTables
	replayFuncs["TNAME"] = replayTables
	replayFuncs["TNUM"] = replayTables
	replayFuncs["ROW"] = replayTables
}

type tFacts struct {
	Tables map[string][]struct {
		Num  uint64 `json:"num"`
		Name string `json:"name"`
	} `json:"tables"`
	TableNames []string `json:"tableNames"`
	ArchRows   []tRow   `json:"archRows"`
	Arches     []struct {
		Key string `json:"key"`
		Var string `json:"var"`
	} `json:"arches"`
	AuditConsts []struct {
		Name string `json:"name"`
		Val  uint64 `json:"val"`
	} `json:"auditConsts"`
	GetInfoGuard string            `json:"getInfoGuard"`
	AbiSkip      map[string]string `json:"abiSkip"`
	Oracle       struct {
		Sources []struct {
			ID        string `json:"id"`
			Table     string `json:"table"`
			Available bool   `json:"available"`
			Entries   []struct {
				Name string `json:"name"`
				Num  uint64 `json:"num"`
			} `json:"entries"`
		} `json:"sources"`
		AuditArch []struct {
			Name string `json:"name"`
			Val  uint64 `json:"val"`
		} `json:"auditArch"`
	} `json:"oracle"`
}

type tRow struct {
	Var   string `json:"var"`
	Name  string `json:"name"`
	ID    uint64 `json:"id"`
	Mask  uint64 `json:"mask"`
	Table string `json:"table"`
	Names string `json:"names"`
}

// the exported *Info variables of the package, by Go identifier (a removed variable breaks the
// harness build, which bin/check reports as a broken correspondence)
var archVars = map[string]*arch.Info{
	"ARM": arch.ARM, "AARCH64": arch.AARCH64, "I386": arch.I386, "X32": arch.X32, "X86_64": arch.X86_64,
	"PPC": arch.PPC, "PPC64": arch.PPC64, "PPC64LE": arch.PPC64LE, "S390": arch.S390, "S390X": arch.S390X,
	"MIPS": arch.MIPS, "MIPSEL": arch.MIPSEL, "MIPS64": arch.MIPS64, "MIPS64N32": arch.MIPS64N32,
	"MIPSEL64": arch.MIPSEL64, "MIPSEL64N32": arch.MIPSEL64N32,
}

const expectedGuard = "!found || len(arch.SyscallNames) == 0"

func loadTFacts() (*tFacts, error) {
	dir := os.Getenv("VERIF_DIR")
	if dir == "" {
		dir = ".."
	}
	data, err := os.ReadFile(filepath.Join(dir, "work", "facts.json"))
	if err != nil {
		return nil, err
	}
	f := &tFacts{}
	if err := json.Unmarshal(data, f); err != nil {
		return nil, err
	}
	if len(f.Tables) == 0 || len(f.ArchRows) == 0 || len(f.Arches) == 0 {
		return nil, fmt.Errorf("facts.json has no table facts (run vextract)")
	}
	return f, nil
}

// lowerModel is Arch.lower of Model/Arch.lean: ASCII lower-casing plus U+0130 ↦ i, U+212A ↦ k;
// malformed UTF-8 becomes U+FFFD as in strings.ToLower.
func lowerModel(s string) string {
	var b strings.Builder
	for _, r := range s {
		switch {
		case r == 0x130:
			r = 'i'
		case r == 0x212A:
			r = 'k'
		case r >= 'A' && r <= 'Z':
			r += 'a' - 'A'
		}
		b.WriteRune(r)
	}
	return b.String()
}

// The specification side (the same hand-written tables as in lean/Seccomp/Proofs/C12.lean):
// key of `arches` ↦ Info.Name it must resolve to, and Info.Name ↦ table variable for the
// architectures that have tables.
var expectedAliases = map[string]string{
	"arm": "arm", "ppc": "ppc", "ppc64": "ppc64", "ppc64le": "ppc64le", "s390": "s390", "s390x": "s390x",
	"mips": "mips", "mipsle": "mipsel", "mips64": "mips64",
	"i386": "i386", "386": "i386", "x32": "x32", "x86_64": "x86_64", "amd64": "x86_64",
	"aarch64": "aarch64", "arm64": "aarch64",
	"mips64n32": "mips64n32", "mips64p32": "mips64n32", "mipsel64": "mipsel64", "mips64le": "mipsel64",
	"mipsel64n32": "mipsel64n32", "mips64p32le": "mipsel64n32",
}

var expectedTable = map[string]string{"arm": "syscallsARM", "aarch64": "syscallsAARCH64", "i386": "syscalls386", "x32": "syscallsX32", "x86_64": "syscallsX86_64"}

// expectGetInfo is what the property requires of GetInfo(name): the Info.Name and table variable,
// or ok=false for the unsupported-architecture error.
func expectGetInfo(name string) (archName, table string, ok bool) {
	key := name
	if name == "" {
		key = runtime.GOARCH
	} else {
		key = lowerModel(name)
	}
	archName, known := expectedAliases[key]
	if !known {
		return "", "", false
	}
	table, ok = expectedTable[archName]
	return archName, table, ok
}

func safeGetInfo(name string) (info *arch.Info, err error, pan string) {
	defer func() {
		if x := recover(); x != nil {
			pan = fmt.Sprint(x)
		}
	}()
	info, err = arch.GetInfo(name)
	return
}

// checkGetInfo compares arch.GetInfo(name) with the model over the facts.  It returns a
// description of both sides and whether they agree.
func checkGetInfo(f *tFacts, name string) (got, want string, ok bool) {
	info, err, pan := safeGetInfo(name)
	archName, table, expOK := expectGetInfo(name)
	switch {
	case pan != "":
		got = "PANIC " + pan
	case err != nil:
		got = "ERR " + err.Error()
	case info == nil:
		got = "NIL"
	default:
		got = fmt.Sprintf("OK name=%s numbers=%d names=%d", info.Name, len(info.SyscallNumbers), len(info.SyscallNames))
	}
	if !expOK {
		want = "ERR unsupported arch"
		ok = pan == "" && err != nil && info == nil && strings.HasPrefix(err.Error(), "unsupported arch: ")
		return
	}
	distinct := map[string]bool{}
	for _, e := range f.Tables[table] {
		distinct[e.Name] = true
	}
	want = fmt.Sprintf("OK name=%s numbers=%d names=%d", archName, len(f.Tables[table]), len(distinct))
	ok = pan == "" && err == nil && info != nil && got == want
	if ok {
		// the same *Info as the exported variable whose Name this is
		for _, v := range archVars {
			if v.Name == archName && v != info {
				ok = false
				got += " (not the exported variable of that name)"
			}
		}
	}
	return
}

func caseVariants(rng *rand.Rand, key string) []string {
	out := []string{key, strings.ToUpper(key)}
	if len(key) > 0 {
		out = append(out, strings.ToUpper(key[:1])+key[1:])
	}
	alt := []byte(key)
	for i := range alt {
		if i%2 == 1 && alt[i] >= 'a' && alt[i] <= 'z' {
			alt[i] -= 32
		}
	}
	out = append(out, string(alt))
	for k := 0; k < 3; k++ {
		b := []byte(key)
		for i := range b {
			if b[i] >= 'a' && b[i] <= 'z' && rng.Intn(2) == 0 {
				b[i] -= 32
			}
		}
		out = append(out, string(b))
	}
	// runes that strings.ToLower maps into ASCII: İ (U+0130) for i, KELVIN SIGN (U+212A) for k
	if strings.ContainsAny(key, "ik") {
		out = append(out, strings.NewReplacer("i", "İ", "k", "K").Replace(key))
	}
	return out
}

func tablesChildDump() map[string]map[string]int {
	out := map[string]map[string]int{}
	for v, info := range archVars {
		if len(info.SyscallNames) > 0 {
			out[v] = info.SyscallNames
		}
	}
	return out
}

func auditNameOf(rowName string) string {
	if rowName == "x32" {
		return "AUDIT_ARCH_X86_64"
	}
	return "AUDIT_ARCH_" + strings.ToUpper(rowName)
}

func hexs(s string) string { return hex.EncodeToString([]byte(s)) }

// tmismatch registers a mismatch unless one with the same (non-empty) key is already recorded:
// one defect is reported once, by the first observation that finds it.
func tmismatch(r *runner, m Mismatch) bool {
	if m.Key != "" {
		for _, o := range r.sum.Mismatches {
			if o.Key == m.Key {
				return false
			}
		}
	}
	return r.mismatch(m)
}

func tablesStream(r *runner, rng *rand.Rand) error {
	if *profile == "child" {
		// fresh-process mode: print this process' name→number maps
		data, _ := json.Marshal(tablesChildDump())
		fmt.Println(string(data))
		return nil
	}
	r.sum.Rule = "exhaustive over the regenerated facts: one evaluation per (alias key × spelling), per unknown/malformed name, per table entry and direction, per oracle entry whose name the table has, per Info row, " +
		"plus one per fresh process whose complete name→number maps are compared; distinct by request line; non-trivial = every case except exact lower-case alias spellings"
	f, err := loadTFacts()
	if err != nil {
		return err
	}
	r.sum.Extra = map[string]interface{}{}
	// A history of ordinary use comes first: compilations that name syscalls in other spellings (refused, but a
	// lookup fallback may remember them) and odd-case architecture lookups must leave the package's tables as they are.
	for _, an := range []string{"x86_64", "i386", "arm", "aarch64", "x32"} {
		tn := vd.TableNames(an)
		for k := 0; k < 5 && len(tn) > 0; k++ {
			n := tn[rng.Intn(len(tn))]
			for _, sp := range []string{strings.ToUpper(n), strings.ToUpper(n[:1]) + n[1:], " " + n, n + " ", n + "\n"} {
				gp := seccomp.Policy{DefaultAction: seccomp.ActionAllow, Syscalls: []seccomp.SyscallGroup{
					{Action: seccomp.ActionErrno, Names: []string{sp}},
					{Action: seccomp.ActionErrno, NamesWithCondtions: []seccomp.NameWithConditions{{Name: sp, Conditions: []seccomp.Condition{{Argument: 0, Operation: seccomp.Equal, Value: 1}}}}}}}
				func() {
					defer func() { _ = recover() }()
					vd.CompileGo(&gp, an, "le")
				}()
			}
		}
		r.tag("history:compilations-with-other-spellings-before-the-tables-are-read")
	}
	rowByVar := map[string]*tRow{}
	for i := range f.ArchRows {
		rowByVar[f.ArchRows[i].Var] = &f.ArchRows[i]
	}

	// 0. the model's assumption about strings.ToLower / unicode.ToLower, all code points
	bad := 0
	for c := rune(0); c <= unicode.MaxRune; c++ {
		l := unicode.ToLower(c)
		switch {
		case c < 0x80:
			want := c
			if c >= 'A' && c <= 'Z' {
				want = c + 32
			}
			if l != want {
				bad++
			}
		case c == 0x130:
			if l != 'i' {
				bad++
			}
		case c == 0x212A:
			if l != 'k' {
				bad++
			}
		default:
			if l < 0x80 {
				bad++
				tmismatch(r, Mismatch{Case: "tolower", Request: fmt.Sprintf("GETINFO %s", hexs(string(c))), Go: fmt.Sprintf("unicode.ToLower(U+%04X)=U+%04X", c, l),
					Model: "non-ASCII runes other than U+0130, U+212A stay non-ASCII", Note: "assumption of Arch.lower broken for this Go toolchain"})
			}
		}
	}
	r.count("TOLOWER all-code-points", true)
	r.tag("tolower-codepoints-checked")
	r.sum.Extra["tolower_codepoints"] = int(unicode.MaxRune) + 1
	r.sum.Extra["tolower_violations"] = bad
	if bad > 0 && len(r.sum.Mismatches) == 0 {
		tmismatch(r, Mismatch{Case: "tolower", Request: "TOLOWER", Note: "ASCII/special-rune lower-casing differs from the model"})
	}

	// 1. GetInfo for every alias key in several spellings, neighbours of keys, unknown names
	one := func(id, name, kind string) bool {
		req := "GETINFO " + hexs(name)
		got, want, ok := checkGetInfo(f, name)
		r.count(req, kind != "alias:exact")
		r.tag(kind)
		if strings.HasPrefix(got, "OK") {
			r.tag("getinfo:ok")
		} else {
			r.tag("getinfo:error")
		}
		if len(r.sum.Samples) < 3 && kind != "alias:exact" {
			r.sample(fmt.Sprintf("GetInfo(%q) => %s", name, got))
		}
		if !ok {
			m := Mismatch{Case: id, Request: req, Go: got, Model: want, Key: "getinfo:" + lowerModel(name),
				FailingInput: fmt.Sprintf("arch.GetInfo(%q) = %s; the property requires %s", name, got, want)}
			return tmismatch(r, m)
		}
		// the Lean reference (Arch.getInfo, tied to the regenerated function body by C12.getinfo_tie)
		if r.model != nil && utf8.ValidString(name) && len(name) < 4096 {
			reply, err := r.model.Ask("GI " + vd.Hex(runtime.GOARCH) + " " + vd.Hex(name))
			if err != nil {
				r.sum.Error = err.Error()
				return true
			}
			r.tag("getinfo:compared-with-the-lean-reference")
			agree := false
			switch {
			case strings.HasPrefix(reply, "OK "):
				f := strings.Fields(reply)
				agree = len(f) == 3 && strings.HasPrefix(got, "OK name="+f[1]+" numbers="+f[2]+" ")
			case strings.HasPrefix(reply, "ERR "):
				agree = got == "ERR unsupported arch: "+vd.Unhex(strings.TrimPrefix(reply, "ERR "))
			}
			if !agree {
				return tmismatch(r, Mismatch{Case: id, Request: req, Go: got, Model: reply, Key: "getinfo-lean:" + lowerModel(name),
					FailingInput: fmt.Sprintf("arch.GetInfo(%q) = %s; the reference Arch.getInfo says %s", name, got, reply)})
			}
		}
		return false
	}
	for _, a := range f.Arches {
		// tie of the regenerated alias map: the compiled map sends the key to the same variable
		if info, err, _ := safeGetInfo(a.Key); err == nil && info != archVars[a.Var] {
			tmismatch(r, Mismatch{Case: "alias-map", Request: "GETINFO " + hexs(a.Key), Go: fmt.Sprintf("Info named %q", info.Name), Model: "variable " + a.Var,
				Note: "compiled alias map differs from the regenerated one"})
		}
		for i, v := range caseVariants(rng, a.Key) {
			kind := "alias:case-variant"
			if i == 0 {
				kind = "alias:exact"
			}
			if strings.ContainsAny(v, "İK") {
				kind = "alias:unicode-lower"
			}
			if one("alias:"+a.Key, v, kind) {
				return nil
			}
		}
		for _, v := range []string{" " + a.Key, a.Key + " ", a.Key + "x", a.Key[:len(a.Key)-1], a.Key + "\x00", strings.Replace(a.Key, "_", "-", 1) + "_", "\xff" + a.Key, a.Key + "\xc3"} {
			if one("near:"+a.Key, v, "unknown:near-alias") {
				return nil
			}
		}
	}
	unknown := []string{"", "x86", "x64", "amd", "amd65", "x86-64", "x86_32", "i686", "armv7", "armhf", "arm64be", "riscv64", "loong64", "wasm", "sparc64", "ia64",
		"mipsel", "mips64el", "ppc64el", "powerpc", "s390x ", "AARCH", "K", "İ", "é", "\xff\xfe", "\x00", strings.Repeat("a", 70000), "amd64\n", "AMD64\t"}
	for _, v := range f.ArchRows {
		unknown = append(unknown, v.Var, v.Name) // Go identifiers and Info names are not necessarily keys
	}
	for i := 0; i < 200; i++ {
		n := 1 + rng.Intn(8)
		b := make([]byte, n)
		const alpha = "abcdefghijklmnopqrstuvwxyzABCDEFXIMPS0123456789_"
		for j := range b {
			b[j] = alpha[rng.Intn(len(alpha))]
		}
		unknown = append(unknown, string(b))
	}
	for _, v := range unknown {
		kind := "unknown-or-other"
		if v == "" {
			kind = "empty=GOARCH"
		}
		if one("name", v, kind) {
			return nil
		}
	}

	// 2. rows: exported variables, IDs vs linux/audit.h, masks; tables entry by entry
	audit := map[string]uint64{}
	for _, a := range f.Oracle.AuditArch {
		audit[a.Name] = a.Val
	}
	entries, oracleCmp := 0, 0
	for _, row := range f.ArchRows {
		info := archVars[row.Var]
		req := "ROW " + row.Var
		r.count(req, true)
		r.tag("row")
		if info == nil {
			tmismatch(r, Mismatch{Case: "row", Request: req, Note: "Info variable " + row.Var + " is not known to the harness"})
			continue
		}
		if info.Name != row.Name || uint64(info.ID) != row.ID || uint64(info.SeccompMask) != row.Mask {
			tmismatch(r, Mismatch{Case: "row", Request: req, Go: fmt.Sprintf("name=%s id=0x%x mask=0x%x", info.Name, uint32(info.ID), info.SeccompMask),
				Model: fmt.Sprintf("name=%s id=0x%x mask=0x%x", row.Name, row.ID, row.Mask), Note: "compiled Info differs from the regenerated row"})
		}
		if len(audit) > 0 {
			if k, ok := audit[auditNameOf(info.Name)]; !ok || k != uint64(info.ID) {
				tmismatch(r, Mismatch{Case: "audit", Request: req, Go: fmt.Sprintf("arch.%s.ID=0x%x", row.Var, uint32(info.ID)), Model: fmt.Sprintf("%s=0x%x (linux/audit.h)", auditNameOf(info.Name), k),
					Key:          "audit:" + row.Var,
					FailingInput: fmt.Sprintf("arch.%s.ID = 0x%x but the kernel's %s = 0x%x (linux/audit.h evaluated by gcc)", row.Var, uint32(info.ID), auditNameOf(info.Name), k)})
			}
		}
		wantMask := uint64(0)
		if info.Name == "x32" {
			wantMask = 0x40000000
		}
		if uint64(info.SeccompMask) != wantMask {
			tmismatch(r, Mismatch{Case: "mask", Request: req, Go: fmt.Sprintf("mask=0x%x", info.SeccompMask), Model: fmt.Sprintf("mask=0x%x", wantMask), Key: "mask:" + row.Var,
				FailingInput: fmt.Sprintf("arch.%s.SeccompMask = 0x%x, expected 0x%x", row.Var, info.SeccompMask, wantMask)})
		}
		tab := f.Tables[row.Table]
		if (row.Table == "") != (len(info.SyscallNumbers) == 0) || (row.Names == "") != (len(info.SyscallNames) == 0) {
			tmismatch(r, Mismatch{Case: "row", Request: req, Go: fmt.Sprintf("numbers=%d names=%d", len(info.SyscallNumbers), len(info.SyscallNames)),
				Model: fmt.Sprintf("table=%q names=%q", row.Table, row.Names), Note: "presence of the maps differs from the regenerated row"})
		}
		if len(tab) == 0 {
			continue
		}
		// direct search for ambiguous names in the compiled map
		byName := map[string][]int{}
		for nr, name := range info.SyscallNumbers {
			byName[name] = append(byName[name], nr)
		}
		var amb []string
		for name, nrs := range byName {
			if len(nrs) > 1 {
				amb = append(amb, name)
			}
		}
		sort.Strings(amb)
		for i, name := range amb {
			nrs := byName[name]
			sort.Ints(nrs)
			if i < 3 {
				tmismatch(r, Mismatch{Case: "ambiguous", Request: fmt.Sprintf("TNAME %s %s", row.Var, hexs(name)), Go: fmt.Sprintf("SyscallNumbers lists %q under %v; SyscallNames[%q]=%d in this process", name, nrs, name, info.SyscallNames[name]),
					Model: "one number per name", Key: fmt.Sprintf("ambiguous:%s:%s", row.Name, name),
					FailingInput: fmt.Sprintf("arch=%s name=%s numbers=%v (%d ambiguous names in this table: %s)", row.Name, name, nrs, len(amb), strings.Join(amb, ","))})
			}
		}
		if len(info.SyscallNumbers) != len(tab) {
			tmismatch(r, Mismatch{Case: "size", Request: req, Go: fmt.Sprintf("len(SyscallNumbers)=%d", len(info.SyscallNumbers)), Model: fmt.Sprintf("%d entries in the literal", len(tab)), Note: "compiled table and regenerated table differ in size"})
		}
		if len(info.SyscallNames) != len(byName) {
			m := Mismatch{Case: "size", Request: req, Go: fmt.Sprintf("len(SyscallNames)=%d", len(info.SyscallNames)), Model: fmt.Sprintf("%d distinct names", len(byName)), Note: "inverted map has a different number of names"}
			var extra []string
			for name, nr := range info.SyscallNames {
				if _, ok := byName[name]; !ok {
					extra = append(extra, fmt.Sprintf("%q→%d", name, nr))
				}
			}
			sort.Strings(extra)
			if len(extra) > 0 {
				m.Key = "extra-names:" + row.Var
				m.FailingInput = fmt.Sprintf("arch.%s.SyscallNames holds %d name(s) that no row of the table has (%s), after compilations that named syscalls in upper case or with blanks: name→number and number→name are no longer inverses",
					row.Var, len(extra), strings.Join(extra[:minInt(len(extra), 6)], ", "))
			}
			tmismatch(r, m)
		}
		for _, e := range tab {
			entries++
			reqN := fmt.Sprintf("TNUM %s %d", row.Var, e.Num)
			r.count(reqN, true)
			if got, ok := info.SyscallNumbers[int(e.Num)]; !ok || got != e.Name {
				if tmismatch(r, Mismatch{Case: "entry", Request: reqN, Go: fmt.Sprintf("%q,%v", got, ok), Model: e.Name, Note: "compiled SyscallNumbers differs from the regenerated table"}) {
					return nil
				}
			}
			reqS := fmt.Sprintf("TNAME %s %s", row.Var, hexs(e.Name))
			r.count(reqS, true)
			if got, ok := info.SyscallNames[e.Name]; !ok || got != int(e.Num) {
				if len(byName[e.Name]) > 1 {
					continue // reported above as ambiguous
				}
				if tmismatch(r, Mismatch{Case: "entry", Request: reqS, Go: fmt.Sprintf("%d,%v", got, ok), Model: fmt.Sprint(e.Num), Key: fmt.Sprintf("inverse:%s:%s", row.Name, e.Name),
					FailingInput: fmt.Sprintf("arch=%s: SyscallNumbers[%d]=%q but SyscallNames[%q]=%d", row.Name, e.Num, e.Name, e.Name, got)}) {
					return nil
				}
			}
		}
		r.tag("table:" + row.Name)
		// the compiled numbers against every independent source of this ABI
		for _, s := range f.Oracle.Sources {
			if s.Table != row.Table || !s.Available {
				continue
			}
			nbad := 0
			for _, e := range s.Entries {
				got, ok := info.SyscallNames[e.Name]
				if !ok {
					continue
				}
				oracleCmp++
				r.count(fmt.Sprintf("ORACLE %s %s %s", s.ID, row.Var, e.Name), true)
				if uint64(got) != e.Num && len(byName[e.Name]) == 1 {
					nbad++
					if nbad <= 2 {
						if tmismatch(r, Mismatch{Case: "oracle", Request: fmt.Sprintf("TNAME %s %s", row.Var, hexs(e.Name)), Go: fmt.Sprint(got), Model: fmt.Sprintf("%d (%s)", e.Num, s.ID),
							Key:          fmt.Sprintf("oracle:%s:%s", row.Name, e.Name),
							FailingInput: fmt.Sprintf("arch=%s name=%s: the package says %d, %s says %d", row.Name, e.Name, got, s.ID, e.Num)}) {
							return nil
						}
					}
				}
			}
			r.tag("oracle:" + s.ID)
		}
	}
	r.sum.Extra["table_entries"] = entries
	r.sum.Extra["oracle_comparisons"] = oracleCmp

	// 3. the generator's ABI literals (facts only; the generator cannot run offline)
	r.count("ABI literals", true)
	if f.AbiSkip["buildX32"] != "64" || f.AbiSkip["buildX86_64"] != "x32" {
		r.tag("abi-literal-wrong")
	}

	// 4. fresh processes: complete name→number maps must be identical in every run
	self, err := os.Executable()
	if err != nil {
		return err
	}
	mine := tablesChildDump()
	runs := 0
	for i := 0; i < *n; i++ {
		cmd := exec.Command(self, "-stream", "tables", "-profile", "child", "-out", os.DevNull)
		cmd.Env = os.Environ()
		done := make(chan struct{})
		var out []byte
		var cerr error
		go func() { out, cerr = cmd.Output(); close(done) }()
		select {
		case <-done:
		case <-time.After(60 * time.Second):
			if cmd.Process != nil {
				cmd.Process.Kill()
			}
			<-done
			cerr = fmt.Errorf("timeout")
		}
		if cerr != nil {
			tmismatch(r, Mismatch{Case: "fresh-process", Request: fmt.Sprintf("RUN %d", i), Note: "child failed: " + cerr.Error()})
			break
		}
		var theirs map[string]map[string]int
		line := strings.TrimSpace(string(out))
		if err := json.Unmarshal([]byte(line), &theirs); err != nil {
			tmismatch(r, Mismatch{Case: "fresh-process", Request: fmt.Sprintf("RUN %d", i), Note: "child output unreadable: " + err.Error()})
			break
		}
		runs++
		r.count(fmt.Sprintf("RUN %d", i), true)
		r.tag("fresh-process")
		diff := false
		var vars []string
		for v := range mine {
			vars = append(vars, v)
		}
		sort.Strings(vars)
		for _, v := range vars {
			var names []string
			for name := range mine[v] {
				names = append(names, name)
			}
			sort.Strings(names)
			for _, name := range names {
				if t, ok := theirs[v][name]; !ok || t != mine[v][name] {
					if !diff {
						row := rowByVar[v]
						an := v
						if row != nil {
							an = row.Name
						}
						tmismatch(r, Mismatch{Case: "fresh-process", Request: fmt.Sprintf("TNAME %s %s", v, hexs(name)), Go: fmt.Sprintf("run A: %d, run B: %d", mine[v][name], t), Model: "same number in every run",
							Key:          fmt.Sprintf("ambiguous:%s:%s", an, name),
							FailingInput: fmt.Sprintf("arch=%s name=%s resolves to %d in one process and to %d in another (map inversion order)", an, name, mine[v][name], t)})
					}
					diff = true
				}
			}
			if len(theirs[v]) != len(mine[v]) {
				diff = true
			}
		}
		if diff {
			r.tag("fresh-process:differs")
			break
		}
	}
	r.sum.Extra["fresh_process_runs"] = runs

	// 5. other build targets, executed: alias resolution must not depend on the target (linux/386 natively,
	// js/wasm under node; see constsRunWasm)
	constsRunWasm(r)
	return nil
}

// replayTables re-executes one request line on the compiled package and prints what it finds.
func replayTables(r *runner, id, line string) {
	if len(r.sum.Mismatches) >= *maxMismatch {
		return // enough failing inputs for one run
	}
	fl := strings.Fields(line)
	f, err := loadTFacts()
	if err != nil {
		tmismatch(r, Mismatch{Case: id, Request: line, Note: err.Error()})
		return
	}
	r.count(line, true)
	switch fl[0] {
	case "GETINFO":
		name := ""
		if len(fl) > 1 {
			b, err := hex.DecodeString(fl[1])
			if err != nil {
				tmismatch(r, Mismatch{Case: id, Request: line, Note: "bad hex"})
				return
			}
			name = string(b)
		}
		got, want, ok := checkGetInfo(f, name)
		r.sample(fmt.Sprintf("GetInfo(%q) => %s (expected %s)", name, got, want))
		if !ok {
			tmismatch(r, Mismatch{Case: id, Request: line, Go: got, Model: want, Key: "getinfo:" + lowerModel(name),
				FailingInput: fmt.Sprintf("arch.GetInfo(%q) = %s; the property requires %s", name, got, want)})
		}
	case "ROW":
		if len(fl) < 2 || archVars[fl[1]] == nil {
			tmismatch(r, Mismatch{Case: id, Request: line, Note: "unknown Info variable"})
			return
		}
		info := archVars[fl[1]]
		wantMask := 0
		if info.Name == "x32" {
			wantMask = 0x40000000
		}
		k, have := uint64(0), false
		for _, a := range f.Oracle.AuditArch {
			if a.Name == auditNameOf(info.Name) {
				k, have = a.Val, true
			}
		}
		desc := fmt.Sprintf("arch.%s: Name=%s ID=0x%x SeccompMask=0x%x; kernel %s=0x%x (known=%v); expected mask 0x%x", fl[1], info.Name, uint32(info.ID), info.SeccompMask, auditNameOf(info.Name), k, have, wantMask)
		r.sample(desc)
		if (have && k != uint64(info.ID)) || info.SeccompMask != wantMask {
			tmismatch(r, Mismatch{Case: id, Request: line, Go: desc, Model: "ID = kernel constant, mask only on x32", Key: "audit:" + fl[1], FailingInput: desc})
		}
	case "TNAME", "TNUM":
		if len(fl) < 3 {
			tmismatch(r, Mismatch{Case: id, Request: line, Note: "malformed request"})
			return
		}
		info := archVars[fl[1]]
		if info == nil {
			tmismatch(r, Mismatch{Case: id, Request: line, Note: "unknown Info variable"})
			return
		}
		var name string
		if fl[0] == "TNAME" {
			b, err := hex.DecodeString(fl[2])
			if err != nil || !utf8.Valid(b) {
				tmismatch(r, Mismatch{Case: id, Request: line, Note: "bad hex"})
				return
			}
			name = string(b)
		} else {
			nr, err := strconv.Atoi(fl[2])
			if err != nil {
				tmismatch(r, Mismatch{Case: id, Request: line, Note: "bad number"})
				return
			}
			name = info.SyscallNumbers[nr]
		}
		var nrs []int
		for nr, nm := range info.SyscallNumbers {
			if nm == name {
				nrs = append(nrs, nr)
			}
		}
		sort.Ints(nrs)
		got, ok := info.SyscallNames[name]
		var orc []string
		row := (*tRow)(nil)
		for i := range f.ArchRows {
			if f.ArchRows[i].Var == fl[1] {
				row = &f.ArchRows[i]
			}
		}
		bad := len(nrs) > 1 || (ok && (len(nrs) != 1 || nrs[0] != got)) || (!ok && len(nrs) > 0)
		if row != nil {
			for _, s := range f.Oracle.Sources {
				if s.Table != row.Table {
					continue
				}
				for _, e := range s.Entries {
					if e.Name == name {
						orc = append(orc, fmt.Sprintf("%s=%d", s.ID, e.Num))
						if ok && uint64(got) != e.Num {
							bad = true
						}
					}
				}
			}
		}
		desc := fmt.Sprintf("arch=%s name=%q SyscallNames=%d,%v numbers-with-this-name=%v oracles=[%s]", info.Name, name, got, ok, nrs, strings.Join(orc, " "))
		r.sample(desc)
		if bad {
			tmismatch(r, Mismatch{Case: id, Request: line, Go: desc, Model: "exactly one number, equal to every oracle source that lists the name",
				Key: fmt.Sprintf("ambiguous:%s:%s", info.Name, name), FailingInput: desc})
		}
	}
}
