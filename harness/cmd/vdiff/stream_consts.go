package main

// Stream "consts" (property C19): the translator's per-target rows against the compiled code.
//
// Quick and thorough: the row of the host target (linux/amd64) in work/facts.json — values the Go
// type checker computed from the syntax trees — is compared with what the compiled package says at
// run time: exported constants directly, the constants of internal/unix against the x/sys/unix
// values they are defined from, unexported ones through what the compiled compiler emits (default
// errno → `ret ERRNO|EPERM`; x32 guard `jge 0x40000000` / `ret ERRNO|ENOSYS`, record offsets in the
// loads), file selection through `Supported()` on this kernel, and the table/no-table column of every
// GOARCH of the list through `arch.GetInfo(<goarch>)`.
//
// Thorough only: `go build` and `go vet` of the module for every target of the list in a scratch
// GOCACHE, compared with the translator's "type-checks" column; a failure is reported with the
// target as failing input.

import (
	"encoding/json"
	"fmt"
	"math/rand"
	"os"
	"os/exec"
	"path/filepath"
	"runtime"
	"sort"
	"strings"
	"sync"
	"time"
	"verif/harness/internal/probeprog"

	seccomp "github.com/elastic/go-seccomp-bpf"
	"github.com/elastic/go-seccomp-bpf/arch"
	"golang.org/x/net/bpf"
	"golang.org/x/sys/unix"
)

func init() {
	streamFuncs["consts"] = constsStream
	noModelStreams["consts"] = true
	replayFuncs["K"] = func(r *runner, id, line string) {
		// a replay re-runs the whole (cheap) comparison; differences are reported again
		constsCompare(r, loadConstFacts(r))
	}
}

type cfConst struct {
	Name  string `json:"name"`
	Val   string `json:"val"`
	IsNat bool   `json:"is_nat"`
}

type cfPkg struct {
	Path   string   `json:"path"`
	Main   bool     `json:"main"`
	OK     bool     `json:"ok"`
	Errors []string `json:"errors"`
}

type cfTarget struct {
	GOOS      string    `json:"goos"`
	GOARCH    string    `json:"goarch"`
	Builds    bool      `json:"builds"`
	LibBuilds bool      `json:"lib_builds"`
	Pkgs      []cfPkg   `json:"pkgs"`
	Files     []string  `json:"files"`
	Unix      []cfConst `json:"unix"`
	Root      []cfConst `json:"root"`
	Arch      []cfConst `json:"arch"`
	GoarchRow struct {
		HasKey   bool   `json:"has_key"`
		Var      string `json:"var"`
		HasTable bool   `json:"has_table"`
	} `json:"goarch_row"`
}

// auditMacroOfGoarch: the kernel's audit architecture of a Linux port, by GOARCH (names of linux/audit.h;
// the same hand-written list as Proofs/C19.lean auditMacroOfGoarch).
var auditMacroOfGoarch = map[string]string{"amd64": "AUDIT_ARCH_X86_64", "386": "AUDIT_ARCH_I386", "arm": "AUDIT_ARCH_ARM", "arm64": "AUDIT_ARCH_AARCH64",
	"riscv64": "AUDIT_ARCH_RISCV64", "loong64": "AUDIT_ARCH_LOONGARCH64", "ppc64": "AUDIT_ARCH_PPC64", "ppc64le": "AUDIT_ARCH_PPC64LE", "s390x": "AUDIT_ARCH_S390X",
	"mips": "AUDIT_ARCH_MIPS", "mipsle": "AUDIT_ARCH_MIPSEL", "mips64": "AUDIT_ARCH_MIPS64", "mips64le": "AUDIT_ARCH_MIPSEL64"}

type cfFacts struct {
	Oracle struct {
		AuditArch []struct {
			Name string `json:"name"`
			Val  uint64 `json:"val"`
		} `json:"auditArch"`
	} `json:"oracle"`
	Targets     []cfTarget `json:"targets"`
	AuditConsts []struct {
		Name string `json:"name"`
		Val  uint64 `json:"val"`
	} `json:"auditConsts"`
}

func verifDir() string {
	if d := os.Getenv("VERIF_DIR"); d != "" {
		return d
	}
	return "/verif"
}

func loadConstFacts(r *runner) *cfFacts {
	data, err := os.ReadFile(filepath.Join(verifDir(), "work", "facts.json"))
	if err != nil {
		r.sum.Error = "consts: " + err.Error()
		return nil
	}
	f := &cfFacts{}
	if err := json.Unmarshal(data, f); err != nil {
		r.sum.Error = "consts: facts.json: " + err.Error()
		return nil
	}
	if len(f.Targets) == 0 {
		r.sum.Error = "consts: facts.json has no targets (vextract did not run genConsts)"
		return nil
	}
	return f
}

func lookupConst(l []cfConst, name string) (string, bool) {
	for _, c := range l {
		if c.Name == name {
			return c.Val, true
		}
	}
	return "", false
}

func constsStream(r *runner, rng *rand.Rand) error {
	r.sum.Rule = "one case per compared fact: (host row constant × run-time value of the compiled package), (instruction field of a compiled probe policy × " +
		"value predicted from the row), (GOARCH of the list × arch.GetInfo result), Supported() on this kernel; thorough: (target × {go build, go vet}) " +
		"for every target of the list; distinct by (kind, target, fact); " +
		"trivial (not counted as non-trivial): facts whose expected value is 0/false (indistinguishable from an absent constant) and GetInfo of a GOARCH that is no key of arch.arches at all"
	f := loadConstFacts(r)
	if f == nil {
		return fmt.Errorf("%s", r.sum.Error)
	}
	constsCompare(r, f)
	constsRunWasm(r)
	if os.Getenv("VERIF_TIER") == "thorough" {
		constsBuildAll(r, f)
	}
	return nil
}

func (r *runner) constCase(kind, target, name, got, want string) {
	r.constCaseF(kind, target, name, got, want, "")
}

// constCaseF is constCase with a failing input for the property itself (when the difference is
// not merely translator-vs-compiler but the real code contradicting the property).
func (r *runner) constCaseF(kind, target, name, got, want, failing string) {
	req := fmt.Sprintf("K %s %s %s", kind, target, name)
	// a zero (false, empty) value is what an absent or uninitialised constant would also show: counted as trivial
	r.count(req, !(want == "0" || want == "" || want == "false" || want == "<missing>"))
	r.tag("kind:" + kind)
	if r.sum.Distribution["kind:"+kind] == 1 {
		r.sample(fmt.Sprintf("%s  =>  compiled %s, translator %s", req, got, want))
	}
	if got != want {
		r.mismatch(Mismatch{Case: kind + ":" + name, Request: req, Go: got, Model: want,
			Note: "the translator's row for " + target + " differs from the compiled package", Key: "consts:" + kind + ":" + target + ":" + name, FailingInput: failing})
	}
}

func constsCompare(r *runner, f *cfFacts) {
	if f == nil {
		return
	}
	hostName := runtime.GOOS + "/" + runtime.GOARCH
	var host *cfTarget
	for i := range f.Targets {
		if f.Targets[i].GOOS == runtime.GOOS && f.Targets[i].GOARCH == runtime.GOARCH {
			host = &f.Targets[i]
		}
	}
	if host == nil {
		r.mismatch(Mismatch{Case: "host-row", Request: "K row " + hostName + " -", Note: "no row for the host target in facts.json"})
		return
	}
	defer func() {
		if p := recover(); p != nil {
			r.mismatch(Mismatch{Case: "panic", Request: "K panic " + hostName + " -", Go: fmt.Sprint("PANIC ", p)})
		}
	}()
	dec := func(v uint64) string { return fmt.Sprintf("%d", v) }
	root := func(name string) string {
		v, ok := lookupConst(host.Root, name)
		if !ok {
			return "<missing>"
		}
		return v
	}
	rootU := func(name string) uint64 {
		var v uint64
		fmt.Sscanf(root(name), "%d", &v)
		return v
	}

	// 1. exported constants of the compiled package
	exported := []struct {
		name string
		val  uint64
	}{
		{"ActionKillThread", uint64(seccomp.ActionKillThread)}, {"ActionKillProcess", uint64(seccomp.ActionKillProcess)},
		{"ActionTrap", uint64(seccomp.ActionTrap)}, {"ActionErrno", uint64(seccomp.ActionErrno)},
		{"ActionTrace", uint64(seccomp.ActionTrace)}, {"ActionLog", uint64(seccomp.ActionLog)},
		{"ActionAllow", uint64(seccomp.ActionAllow)}, {"ActionUserNotify", uint64(seccomp.ActionUserNotify)},
		{"FilterFlagTSync", uint64(seccomp.FilterFlagTSync)}, {"FilterFlagLog", uint64(seccomp.FilterFlagLog)},
	}
	for _, e := range exported {
		r.constCase("exported", hostName, e.name, dec(e.val), root(e.name))
	}

	// 2. internal/unix is defined from x/sys/unix on Linux
	xsys := []struct {
		name string
		val  uint64
	}{
		{"SECCOMP_RET_KILL_THREAD", unix.SECCOMP_RET_KILL_THREAD}, {"SECCOMP_RET_KILL_PROCESS", unix.SECCOMP_RET_KILL_PROCESS},
		{"SECCOMP_RET_TRAP", unix.SECCOMP_RET_TRAP}, {"SECCOMP_RET_ERRNO", unix.SECCOMP_RET_ERRNO},
		{"SECCOMP_RET_TRACE", unix.SECCOMP_RET_TRACE}, {"SECCOMP_RET_LOG", unix.SECCOMP_RET_LOG},
		{"SECCOMP_RET_ALLOW", unix.SECCOMP_RET_ALLOW}, {"SECCOMP_RET_USER_NOTIF", unix.SECCOMP_RET_USER_NOTIF},
		{"SECCOMP_FILTER_FLAG_TSYNC", unix.SECCOMP_FILTER_FLAG_TSYNC}, {"SECCOMP_FILTER_FLAG_LOG", unix.SECCOMP_FILTER_FLAG_LOG},
		{"SECCOMP_SET_MODE_STRICT", unix.SECCOMP_SET_MODE_STRICT}, {"SECCOMP_SET_MODE_FILTER", unix.SECCOMP_SET_MODE_FILTER},
		{"PR_SET_NO_NEW_PRIVS", unix.PR_SET_NO_NEW_PRIVS}, {"EPERM", uint64(unix.EPERM)}, {"ENOSYS", uint64(unix.ENOSYS)},
	}
	for _, e := range xsys {
		v, ok := lookupConst(host.Unix, e.name)
		if !ok {
			v = "<missing>"
		}
		r.constCase("xsys", hostName, e.name, dec(e.val), v)
	}

	// 3. unexported constants through the compiled compiler (host table: x86_64)
	pol := seccomp.Policy{DefaultAction: seccomp.ActionErrno, Syscalls: []seccomp.SyscallGroup{{
		Action: seccomp.ActionAllow,
		NamesWithCondtions: []seccomp.NameWithConditions{{Name: "read",
			Conditions: []seccomp.Condition{{Argument: 2, Operation: seccomp.Equal, Value: 0x1122334455667788}}}},
	}}}
	prog, err := pol.Assemble()
	if err != nil || len(prog) < 6 {
		r.mismatch(Mismatch{Case: "probe-policy", Request: "K emitted " + hostName + " probe", Go: fmt.Sprint("ERR ", err, " len ", len(prog)),
			Note: "the probe policy does not compile on the host"})
	} else {
		render := func(i bpf.Instruction) string { return fmt.Sprintf("%#v", i) }
		audit := uint64(0)
		for _, a := range f.AuditConsts {
			if a.Name == "auditArchX86_64" {
				audit = a.Val
			}
		}
		x32 := "<missing>"
		if v, ok := lookupConst(host.Arch, "x32SyscallMask"); ok {
			x32 = v
		}
		var x32u uint64
		fmt.Sscanf(x32, "%d", &x32u)
		if runtime.GOARCH == "amd64" {
			r.constCase("emitted", hostName, "load-arch@archOffset/sizeOfUint32", render(prog[0]),
				render(bpf.LoadAbsolute{Off: uint32(rootU("archOffset")), Size: int(rootU("sizeOfUint32"))}))
			if j, ok := prog[1].(bpf.JumpIf); ok {
				r.constCase("emitted", hostName, "arch-id", dec(uint64(j.Val)), dec(audit))
			} else {
				r.constCase("emitted", hostName, "arch-id", render(prog[1]), "JumpIf")
			}
			r.constCase("emitted", hostName, "load-nr@syscallNumOffset/sizeOfUint32", render(prog[2]),
				render(bpf.LoadAbsolute{Off: uint32(rootU("syscallNumOffset")), Size: int(rootU("sizeOfUint32"))}))
			r.constCase("emitted", hostName, "x32-guard=x32SyscallMask", render(prog[3]),
				render(bpf.JumpIf{Cond: bpf.JumpGreaterOrEqual, Val: uint32(x32u), SkipFalse: 1}))
			r.constCase("emitted", hostName, "x32-ret=ActionErrno|errnoENOSYS", render(prog[4]),
				render(bpf.RetConstant{Val: uint32(rootU("ActionErrno")) | uint32(rootU("errnoENOSYS"))}))
		}
		r.constCase("emitted", hostName, "default-ret=ActionErrno|errnoEPERM", render(prog[len(prog)-1]),
			render(bpf.RetConstant{Val: uint32(rootU("ActionErrno")) | uint32(rootU("errnoEPERM"))}))
		// argument 2: low half at argumentOffset + sizeOfUint64*2, high half + sizeOfUint32 (little-endian host)
		var offs []int
		for _, ins := range prog[3:] {
			if l, ok := ins.(bpf.LoadAbsolute); ok && l.Off >= 16 {
				offs = append(offs, int(l.Off))
			}
		}
		sort.Ints(offs)
		lo := int(rootU("argumentOffset") + rootU("sizeOfUint64")*2)
		want := []int{lo, lo + int(rootU("sizeOfUint32"))}
		r.constCase("emitted", hostName, "arg2-loads@argumentOffset+sizeOfUint64*2(+sizeOfUint32)", fmt.Sprint(offs), fmt.Sprint(want))
	}

	// 4. file selection: the Linux file makes Supported() ask the kernel (true here), the stub returns false
	hasLinux := false
	for _, fl := range host.Files {
		if fl == "seccomp_linux.go" {
			hasLinux = true
		}
	}
	r.constCase("selected", hostName, "Supported()", fmt.Sprint(seccomp.Supported()), fmt.Sprint(hasLinux))

	// 5. table / no-table column of every GOARCH of the list
	seen := map[string]bool{}
	for _, t := range f.Targets {
		if seen[t.GOARCH] {
			continue
		}
		seen[t.GOARCH] = true
		info, err := arch.GetInfo(t.GOARCH)
		got := "ok"
		if err != nil {
			got = "error"
			if !strings.HasPrefix(err.Error(), "unsupported arch") {
				got = "error:" + err.Error()
			}
		} else if info == nil || len(info.SyscallNames) == 0 {
			got = "ok-without-table"
		}
		if err == nil && info != nil {
			// whatever resolves for a GOARCH is what Policy.Assemble compiles for on that build target: its audit
			// identifier must be the kernel's for that port, or the filter's architecture test never matches there
			if macro, known := auditMacroOfGoarch[t.GOARCH]; known {
				for _, a := range f.Oracle.AuditArch {
					if a.Name == macro {
						req := fmt.Sprintf("K getinfo-audit */%s GetInfo(%s).ID", t.GOARCH, t.GOARCH)
						r.count(req, true)
						r.tag("kind:getinfo-audit")
						if uint64(info.ID) != a.Val {
							r.mismatch(Mismatch{Case: "getinfo-audit:" + t.GOARCH, Request: req, Go: fmt.Sprintf("%s id=0x%x", info.Name, uint32(info.ID)), Model: fmt.Sprintf("%s=0x%x", macro, a.Val), Key: "consts:getinfo-audit:" + t.GOARCH,
								FailingInput: fmt.Sprintf("GOARCH %s (targets */%s): arch.GetInfo(%q) — what GetInfo(\"\") evaluates there, so what Policy.Assemble compiles for — returns the %s table with audit id 0x%x; the kernel's %s is 0x%x (linux/audit.h evaluated by gcc): a filter is produced for a target that has no table of its own",
									t.GOARCH, t.GOARCH, t.GOARCH, info.Name, uint32(info.ID), macro, a.Val)})
						}
					}
				}
			}
		}
		want := "error"
		if t.GoarchRow.HasKey && t.GoarchRow.HasTable {
			want = "ok"
		}
		if !t.GoarchRow.HasKey {
			// any unknown string is an error: trivial; compared but not counted as non-trivial
			req := fmt.Sprintf("K getinfo */%s GetInfo(%s)", t.GOARCH, t.GOARCH)
			r.count(req, false)
			r.tag("kind:getinfo-nokey")
			if got != want {
				r.mismatch(Mismatch{Case: "getinfo:" + t.GOARCH, Request: req, Go: got, Model: want, Key: "consts:getinfo:" + t.GOARCH})
			}
			continue
		}
		failing := ""
		// a failing input only if the compiled package itself shows it (an Info without a table was returned);
		// "ok" with a table, against a translator row that lists none, is a disagreement with the translator
		if want == "error" && got == "ok-without-table" {
			failing = fmt.Sprintf("GOARCH %s (targets */%s): arch.GetInfo(%q) — what GetInfo(\"\") evaluates there — returns %s although arch.%s has no syscall table; "+
				"expected an `unsupported arch` error", t.GOARCH, t.GOARCH, t.GOARCH, got, t.GoarchRow.Var)
		}
		r.constCaseF("getinfo", "*/"+t.GOARCH, "GetInfo("+t.GOARCH+")", got, want, failing)
	}
	// GetInfo("") on this host is the row of runtime.GOARCH
	_, err = arch.GetInfo("")
	want := "error"
	if host.GoarchRow.HasKey && host.GoarchRow.HasTable {
		want = "ok"
	}
	got := "ok"
	if err != nil {
		got = "error"
	}
	r.constCase("getinfo", hostName, `GetInfo("")`, got, want)
}

// constsBuildAll runs the real compiler and vet for every target of the list.
func constsBuildAll(r *runner, f *cfFacts) {
	repo := os.Getenv("VERIF_REPO")
	if repo == "" {
		repo = "/repo"
	}
	cache := filepath.Join(verifDir(), "work", fmt.Sprintf("gocache-c19-%d", os.Getpid()))
	os.RemoveAll(cache)
	if err := os.MkdirAll(cache, 0o755); err != nil {
		r.sum.Error = "consts: " + err.Error()
		return
	}
	defer os.RemoveAll(cache)
	type result struct {
		target, step, out string
		ok                bool
		dt                float64
		pkgs              string
	}
	results := make([]result, 0, 2*len(f.Targets))
	var mu sync.Mutex
	var wg sync.WaitGroup
	skipped := []string{}
	sem := make(chan struct{}, 3)
	start := time.Now()
	for i := range f.Targets {
		t := f.Targets[i]
		wg.Add(1)
		go func() {
			defer wg.Done()
			sem <- struct{}{}
			defer func() { <-sem }()
			// what the translator says builds: everything, or (toolchain refuses to link commands
			// without cgo on android/ios) the library packages
			pkgs := []string{"./..."}
			steps := []string{"build", "vet"}
			if !t.Builds {
				pkgs = nil
				for _, p := range t.Pkgs {
					for _, e := range p.Errors {
						if p.Main && strings.Contains(e, "requires external (cgo) linking") {
							// android/386, android/amd64, android/arm, ios/*: the toolchain links nothing without
							// cgo; `go vet` also loads the generated test main packages and stops with the same
							// message, so only `go build` of the library packages is meaningful there
							steps = []string{"build"}
						}
					}
					if p.OK && !p.Main {
						if p.Path == "." {
							pkgs = append(pkgs, ".")
						} else {
							pkgs = append(pkgs, "./"+p.Path)
						}
					}
				}
			}
			env := append(os.Environ(), "GOOS="+t.GOOS, "GOARCH="+t.GOARCH, "CGO_ENABLED=0", "GOFLAGS=-mod=readonly",
				"GOPROXY=off", "GOSUMDB=off", "GOTOOLCHAIN=local", "GOCACHE="+cache)
			if len(steps) == 1 {
				mu.Lock()
				skipped = append(skipped, t.GOOS+"/"+t.GOARCH)
				mu.Unlock()
			}
			for _, step := range steps {
				t0 := time.Now()
				cmd := exec.Command("go", append([]string{step}, pkgs...)...)
				cmd.Dir = repo
				cmd.Env = env
				out, err := cmd.CombinedOutput()
				mu.Lock()
				results = append(results, result{t.GOOS + "/" + t.GOARCH, step, string(out), err == nil, time.Since(t0).Seconds(), strings.Join(pkgs, " ")})
				mu.Unlock()
			}
		}()
	}
	wg.Wait()
	sort.Slice(results, func(i, j int) bool {
		if results[i].target != results[j].target {
			return results[i].target < results[j].target
		}
		return results[i].step < results[j].step
	})
	failed := 0
	for _, res := range results {
		req := fmt.Sprintf("K go-%s %s %s", res.step, res.target, res.pkgs)
		r.count(req, true)
		r.tag("kind:go-" + res.step)
		if !res.ok {
			failed++
			out := res.out
			if len(out) > 1500 {
				out = out[:1500] + "…"
			}
			r.mismatch(Mismatch{Case: "go-" + res.step + ":" + res.target, Request: req, Go: "FAIL " + out, Model: "ok (the translator's row says these packages type-check)",
				Note:         "go " + res.step + " fails for a target of the distribution list",
				FailingInput: fmt.Sprintf("target %s: cd %s && GOOS=%s GOARCH=%s CGO_ENABLED=0 go %s %s", res.target, repo, strings.Split(res.target, "/")[0], strings.Split(res.target, "/")[1], res.step, res.pkgs),
				Key:          "consts:go-" + res.step + ":" + res.target})
		}
	}
	if r.sum.Extra == nil {
		r.sum.Extra = map[string]interface{}{}
	}
	r.sum.Extra["targets_built_and_vetted"] = len(f.Targets)
	r.sum.Extra["go_build_vet_failures"] = failed
	sort.Strings(skipped)
	r.sum.Extra["go_vet_skipped_cgo_link_restriction"] = skipped
	r.sum.Extra["go_build_vet_wall_s"] = time.Since(start).Seconds()
}

// constsRunWasm executes the library on a build target that has no syscall table: the probe
// (harness/cmd/wasmprobe, built for js/wasm next to this binary) is run by node.  There
// arch.GetInfo("") and every Policy.Assemble must answer `unsupported arch`, and Supported() is false.
// Skipped (and tagged) when node, the toolchain's wasm_exec_node.js or the probe are not there.
func constsRunWasm(r *runner) {
	self, _ := os.Executable()
	if p386 := filepath.Join(filepath.Dir(self), "probe386"); fileExists(p386) {
		constsRunProbe(r, "linux/386", "386", true, exec.Command(p386))
	}
	wasm := filepath.Join(filepath.Dir(self), "wasmprobe.wasm")
	node, nerr := exec.LookPath("node")
	goroot, _ := exec.Command("go", "env", "GOROOT").Output()
	var execJS string
	for _, c := range []string{"lib/wasm/wasm_exec_node.js", "misc/wasm/wasm_exec_node.js"} {
		if _, err := os.Stat(filepath.Join(strings.TrimSpace(string(goroot)), c)); err == nil {
			execJS = filepath.Join(strings.TrimSpace(string(goroot)), c)
			break
		}
	}
	if _, err := os.Stat(wasm); err != nil || nerr != nil || execJS == "" {
		r.tag("wasm-run:unavailable")
		return
	}
	constsRunProbe(r, "js/wasm", "wasm", false, exec.Command(node, execJS, wasm))
}

func fileExists(p string) bool { _, err := os.Stat(p); return err == nil }

// constsRunProbe runs the probe for one target and compares: target name, GetInfo(""), the two
// compilations (error on a target without table, a program on linux/386), alias resolution (the same as
// in this process, whatever the target), Supported() on non-Linux targets.
func constsRunProbe(r *runner, target, goarch string, hasTable bool, cmd *exec.Cmd) {
	done := make(chan struct{})
	var out []byte
	var rerr error
	go func() { out, rerr = cmd.CombinedOutput(); close(done) }()
	select {
	case <-done:
	case <-time.After(120 * time.Second):
		if cmd.Process != nil {
			cmd.Process.Kill()
		}
		<-done
	}
	if rerr != nil && len(out) == 0 {
		r.tag("probe-run:" + target + ":failed-to-start")
		return
	}
	r.tag("probe-run:" + target + ":executed")
	here := map[string]string{} // "<table> <index>" -> program compiled in this process
	for _, l := range probeprog.Lines() {
		if pf := strings.SplitN(l, " ", 4); len(pf) == 4 {
			here[pf[1]+" "+pf[2]] = pf[3]
		}
	}
	for _, l := range strings.Split(strings.TrimSpace(string(out)), "\n") {
		f := strings.SplitN(l, " ", 2)
		if len(f) != 2 {
			continue
		}
		req := "K probe-run " + target + " " + l
		switch f[0] {
		case "target":
			if f[1] != target {
				r.mismatch(Mismatch{Case: "probe-run", Request: req, Go: f[1], Model: target, Note: "the probe did not run on " + target})
				return
			}
		case "alias":
			r.count(req, true)
			nf := strings.SplitN(f[1], " ", 2)
			if len(nf) == 2 {
				want := "error"
				if info, err := arch.GetInfo(nf[0]); err == nil {
					want = fmt.Sprintf("ok:%s:%d:%d", info.Name, len(info.SyscallNames), len(info.SyscallNumbers))
				}
				if nf[1] != want {
					r.mismatch(Mismatch{Case: "probe-run:alias", Request: req, Go: nf[1], Model: want, Key: "consts:probe-run:" + target + ":alias:" + nf[0],
						FailingInput: fmt.Sprintf("on %s arch.GetInfo(%q) answers %s, on %s/%s it answers %s: the answer for a non-empty name must not depend on the build target",
							target, nf[0], nf[1], runtime.GOOS, runtime.GOARCH, want)})
				}
			}
		case "program":
			pf := strings.SplitN(f[1], " ", 3)
			if len(pf) != 3 || os.Getenv("VERIF_PID") == "C12" {
				continue // same program on every target is C19's clause; the tables (C12) are not involved
			}
			req = "K probe-run " + target + " program " + pf[0] + " " + pf[1]
			r.count(req, true)
			r.tag("probe-run:" + target + ":program-compared")
			if want, ok := here[pf[0]+" "+pf[1]]; ok && want != pf[2] {
				r.mismatch(Mismatch{Case: "probe-run:program", Request: req, Go: pf[2], Model: want, Key: "consts:probe-run:" + target + ":program:" + pf[0] + ":" + pf[1],
					FailingInput: fmt.Sprintf("fixed policy #%s compiled for the %s table (verif hook VerifSetArch) gives on %s the program\n  %s\nand on %s/%s the program\n  %s\n(the policies are in harness/internal/probeprog): a policy must compile to the same program wherever it is compiled for a given table",
						pf[1], pf[0], target, pf[2], runtime.GOOS, runtime.GOARCH, want)})
			}
		case "getinfo":
			r.count(req, true)
			if hasTable {
				if f[1] != "ok" {
					r.mismatch(Mismatch{Case: "probe-run:getinfo", Request: req, Go: f[1], Model: "ok", Key: "consts:probe-run:" + target + ":getinfo",
						FailingInput: "on " + target + " arch.GetInfo(\"\") answers " + f[1] + " although the target has a syscall table"})
				}
			} else if f[1] != `error:"unsupported arch: `+goarch+`"` {
				r.mismatch(Mismatch{Case: "wasm-run:getinfo", Request: req, Go: f[1], Model: `error:"unsupported arch: wasm"`, Key: "consts:wasm-run:getinfo",
					FailingInput: "on js/wasm (executed by node) arch.GetInfo(\"\") answers " + f[1] + "; the target has no syscall table and must get the unsupported-architecture error"})
			}
		case "assemble":
			r.count(req, true)
			if hasTable {
				if !strings.HasSuffix(f[1], " ok") || strings.Contains(f[1], "instructions=0 ") {
					r.mismatch(Mismatch{Case: "probe-run:assemble", Request: req, Go: f[1], Model: "a program", Key: "consts:probe-run:" + target + ":assemble",
						FailingInput: "on " + target + " Policy.Assemble answers `" + f[1] + "` for a valid policy"})
				}
			} else if !strings.HasSuffix(f[1], `instructions=0 error:"unsupported arch: `+goarch+`"`) {
				r.mismatch(Mismatch{Case: "wasm-run:assemble", Request: req, Go: f[1], Model: `instructions=0 error:"unsupported arch: wasm"`, Key: "consts:wasm-run:assemble",
					FailingInput: "on js/wasm (executed by node) Policy.Assemble answers `" + f[1] + "`; a target without a syscall table must get the unsupported-architecture error and no program"})
			}
		case "supported":
			r.count(req, true)
			if f[1] != "false" {
				r.mismatch(Mismatch{Case: "wasm-run:supported", Request: req, Go: f[1], Model: "false", Key: "consts:wasm-run:supported",
					FailingInput: "on js/wasm Supported() = " + f[1]})
			}
		}
	}
}
