// vdiff is the correspondence check between the real code (linked from /repo, built with
// -tags verif) and the executable Lean model (line protocol).  It generates seeded cases,
// runs both sides, compares exactly and writes a JSON summary.
package main

import (
	"crypto/sha256"
	"encoding/json"
	"flag"
	"fmt"
	"golang.org/x/net/bpf"
	"math/rand"
	"os"
	"path/filepath"
	"sort"
	"strings"
	"time"

	"verif/harness/internal/vd"
)

type Mismatch struct {
	Case    string `json:"case"`
	Request string `json:"request"`
	Go      string `json:"go"`
	Model   string `json:"model"`
	Oracle  string `json:"oracle,omitempty"`
	Note    string `json:"note,omitempty"`
	// FailingInput, when set, is a concrete input on which the property itself fails on the
	// implementation (found by the stream's own search); Key is a stable identifier of the
	// failing input for known-findings.txt.
	FailingInput string `json:"failing_input,omitempty"`
	Key          string `json:"key,omitempty"`
}

type Summary struct {
	Stream       string         `json:"stream"`
	Profile      string         `json:"profile"`
	Seed         int64          `json:"seed"`
	Evaluations  int            `json:"evaluations"`
	Distinct     int            `json:"distinct_nontrivial"`
	Rule         string         `json:"rule"`
	Distribution map[string]int `json:"distribution"`
	Samples      []string       `json:"samples"`
	Mismatches   []Mismatch     `json:"mismatches"`
	OracleRuns   int            `json:"oracle_runs"`
	OracleEvents int            `json:"oracle_events"`
	CorpusCases  int            `json:"corpus_cases"`
	WallS        float64        `json:"wall_s"`
	Error        string         `json:"error,omitempty"`
	// Extra holds stream specific measurements that go into the evidence file verbatim.
	Extra map[string]interface{} `json:"extra,omitempty"`
}

var (
	stream       = flag.String("stream", "policy", "policy | builder | raw | text | tables | disasm | profile | purity")
	profile      = flag.String("profile", "mix", "generator profile of the stream")
	n            = flag.Int("n", 1000, "number of generated cases")
	seed         = flag.Int64("seed", 1, "PRNG seed")
	modelPath    = flag.String("model", "/verif/lean/.lake/build/bin/model", "model driver executable")
	corpusDir    = flag.String("corpus", "", "directory with *.case files (one request line each) that run first")
	outPath      = flag.String("out", "", "summary JSON file (default stdout)")
	oracleSample = flag.Int("oracle-sample", 40, "run the failing-input oracle on every k-th agreeing OK case (0 = never)")
	replay       = flag.String("replay", "", "replay one request line from this file and print both replies")
	maxMismatch  = flag.Int("max-mismatch", 5, "stop after this many mismatches")
	childDisasm  = flag.String("childdisasm", "", "run disasm.ExtractSyscalls on <arch>:<path> and print the rendered result (child of the read-fault injection)")
)

type runner struct {
	sum           *Summary
	model         *vd.Model
	seen          map[[32]byte]bool
	withInput     int
	withoutInput  int
	firstMismatch time.Time
}

func (r *runner) tag(t string) { r.sum.Distribution[t]++ }
func (r *runner) sample(s string) {
	if len(r.sum.Samples) < 4 {
		if len(s) > 600 {
			s = s[:600] + "…"
		}
		r.sum.Samples = append(r.sum.Samples, s)
	}
}

// count registers a case; it is counted as distinct non-trivial once per request line.
func (r *runner) count(req string, nontrivial bool) {
	r.sum.Evaluations++
	if !nontrivial {
		return
	}
	h := sha256.Sum256([]byte(req))
	if !r.seen[h] {
		r.seen[h] = true
		r.sum.Distinct++
	}
}

func main() {
	flag.Parse()
	if *childDisasm != "" {
		childDisasmMain(*childDisasm)
		return
	}
	start := time.Now()
	sum := &Summary{Stream: *stream, Profile: *profile, Seed: *seed, Distribution: map[string]int{}, Samples: []string{}, Mismatches: []Mismatch{}}
	r := &runner{sum: sum, seen: map[[32]byte]bool{}}
	needModel := !noModelStreams[*stream]
	if needModel {
		m, err := vd.StartModel(*modelPath)
		if err != nil {
			sum.Error = "cannot start model: " + err.Error()
			finish(sum, start)
			os.Exit(2)
		}
		r.model = m
		defer m.Close()
	}
	if *replay != "" {
		data, err := os.ReadFile(*replay)
		if err != nil {
			fmt.Fprintln(os.Stderr, err)
			os.Exit(2)
		}
		for _, line := range strings.Split(string(data), "\n") {
			line = strings.TrimSpace(line)
			if line == "" || strings.HasPrefix(line, "#") {
				continue
			}
			r.replayLine("replay", line)
		}
		finish(sum, start)
		return
	}
	if *corpusDir != "" {
		files, _ := filepath.Glob(filepath.Join(*corpusDir, "*.case"))
		sort.Strings(files)
		for _, f := range files {
			data, err := os.ReadFile(f)
			if err != nil {
				continue
			}
			for _, line := range strings.Split(string(data), "\n") {
				line = strings.TrimSpace(line)
				if line == "" || strings.HasPrefix(line, "#") {
					continue
				}
				r.replayLine("corpus:"+filepath.Base(f), line)
				sum.CorpusCases++
			}
		}
	}
	rng := rand.New(rand.NewSource(*seed))
	var err error
	switch *stream {
	case "policy":
		err = r.policyStream(rng)
	case "builder":
		err = r.builderStream(rng)
	default:
		err = r.otherStream(rng)
	}
	if err != nil {
		sum.Error = err.Error()
	}
	finish(sum, start)
	if sum.Error != "" {
		os.Exit(2)
	}
}

func finish(sum *Summary, start time.Time) {
	sum.WallS = time.Since(start).Seconds()
	data, _ := json.MarshalIndent(sum, "", " ")
	if *outPath == "" {
		fmt.Println(string(data))
	} else {
		os.WriteFile(*outPath, data, 0o644)
	}
}

// mismatch records a difference.  It returns true when the run should stop: after maxMismatch
// differences *with a concrete failing input*, or — when differences are found but the search has
// not produced a failing input yet — after a budget of further cases (the differences without a
// failing input are kept up to maxMismatch, the search goes on).
func (r *runner) mismatch(m Mismatch) bool {
	hasInput := strings.HasPrefix(m.Oracle, "CEX ") || m.FailingInput != ""
	if hasInput {
		r.withInput++
		// put it in front so that it is reported first
		r.sum.Mismatches = append([]Mismatch{m}, r.sum.Mismatches...)
	} else {
		r.withoutInput++
		if r.withoutInput <= *maxMismatch {
			r.sum.Mismatches = append(r.sum.Mismatches, m)
		}
	}
	if r.firstMismatch.IsZero() {
		r.firstMismatch = time.Now()
	}
	if r.withInput >= *maxMismatch {
		return true
	}
	if r.withInput >= 1 && r.withoutInput+r.withInput >= *maxMismatch {
		return true
	}
	// no failing input yet: keep searching for a while
	return r.withoutInput >= 400 || time.Since(r.firstMismatch) > 75*time.Second
}

// replayLine dispatches a stored request line to its stream.
func (r *runner) replayLine(id, line string) {
	switch {
	case strings.HasPrefix(line, "P "), strings.HasPrefix(line, "W "), strings.HasPrefix(line, "E "), strings.HasPrefix(line, "S "), strings.HasPrefix(line, "N "):
		edit, shared, native := false, false, false
		for strings.HasPrefix(line, "E ") || strings.HasPrefix(line, "S ") || strings.HasPrefix(line, "N ") {
			switch {
			case strings.HasPrefix(line, "E "):
				edit, line = true, strings.TrimPrefix(line, "E ")
			case strings.HasPrefix(line, "S "):
				shared, line = true, strings.TrimPrefix(line, "S ")
			default:
				native, line = true, strings.TrimPrefix(line, "N ")
			}
		}
		warm := ""
		if f := strings.SplitN(line, " ", 3); f[0] == "W" && len(f) == 3 {
			warm, line = f[1], f[2]
		}
		p, _, err := vd.ParsePolicyRequest(line)
		if err != nil {
			r.mismatch(Mismatch{Case: id, Request: line, Note: err.Error()})
			return
		}
		p.WarmArch = warm
		p.WarmEdit = edit
		p.Shared = shared
		p.NativeOrder = native && p.Endian == vd.HostEndian()
		r.onePolicy(id, p, true)
	case strings.HasPrefix(line, "B "):
		goReply, _ := vd.ReplayBuilder(line)
		r.oneBuilder(id, line, goReply, true)
	default:
		r.replayOther(id, line)
	}
}

/* ---------------------------------------------------------------- policy stream */

func sizeBucket(n int) string {
	switch {
	case n <= 16:
		return "len<=16"
	case n <= 255:
		return "len<=255"
	case n <= 1024:
		return "len<=1024"
	case n <= 4096:
		return "len<=4096"
	}
	return "len>4096"
}

func (r *runner) onePolicy(id string, p *vd.Policy, forceOracle bool) bool {
	goReply, goInsts := p.Compile()
	req := p.Request()
	modelReply, err := r.model.Ask(req)
	if err != nil {
		r.sum.Error = err.Error()
		return true
	}
	shown := req // what a mismatch records: the request, prefixed by the history if there is one
	if p.WarmArch != "" {
		shown = "W " + p.WarmArch + " " + req
		r.tag("history:assembled-for-another-arch-first")
	}
	if p.Shared {
		shown = "S " + shown
		r.tag("layout:groups-are-windows-of-one-array")
	}
	if p.NativeOrder {
		shown = "N " + shown
		r.tag("byte-order:the-library's-own(no hook)")
	}
	if p.WarmEdit {
		shown = "E " + shown
		r.tag("history:assembled-then-edited-inside-a-group")
	}
	// features
	nconds, nlists, nnames := 0, 0, 0
	for _, g := range p.Groups {
		nnames += len(g.Names)
		nlists += len(g.WithConds)
		for _, nc := range g.WithConds {
			nconds += len(nc.Conds)
		}
	}
	ok := strings.HasPrefix(goReply, "OK ")
	plen := 0
	if ok {
		fmt.Sscanf(goReply, "OK %d", &plen)
	}
	r.tag("arch:" + p.Arch)
	r.tag("endian:" + p.Endian)
	r.tag(fmt.Sprintf("groups:%d", minInt(len(p.Groups), 7)))
	if ok {
		r.tag(sizeBucket(plen))
		r.tag("reply:OK")
		if plen-len(p.Groups) > 0 {
			// arch jump form (8-bit vs long)
			if strings.Contains(goReply, " jif:eq:") && strings.Fields(goReply)[3][:7] == "jif:eq:" {
				r.tag("archjump:long")
				if *profile == "boundary" {
					r.tag(fmt.Sprintf("jumpN:%d", plen-4))
				}
			} else {
				r.tag("archjump:short")
				if *profile == "boundary" {
					r.tag(fmt.Sprintf("jumpN:%d", plen-3))
				}
			}
		}
	} else {
		f := strings.Fields(goReply)
		cls := f[0]
		if len(f) > 1 {
			cls += ":" + f[1]
		}
		r.tag("reply:" + cls)
	}
	if nconds > 0 {
		r.tag("has-conditions")
	}
	// structural features (what the generator reaches is part of the evidence)
	{
		seenIn := map[string]int{}
		emptyGroup, nilNames, twoGroups := false, false, false
		maxLists, maxConds, entryInstrs := 0, 0, 0
		for gi, g := range p.Groups {
			if len(g.Names)+len(g.WithConds) == 0 {
				emptyGroup = true
			}
			if len(g.Names) == 0 && len(g.WithConds) > 0 {
				nilNames = true
			}
			per := map[string]int{}
			perInstr := map[string]int{}
			inGroup := map[string]bool{}
			for _, n := range g.Names {
				inGroup[n] = true
			}
			for _, nc := range g.WithConds {
				inGroup[nc.Name] = true
				per[nc.Name]++
				perInstr[nc.Name] += 5 * len(nc.Conds)
				if len(nc.Conds) > maxConds {
					maxConds = len(nc.Conds)
				}
			}
			for n, k := range per {
				if k > maxLists {
					maxLists = k
				}
				if perInstr[n] > entryInstrs {
					entryInstrs = perInstr[n]
				}
			}
			for n := range inGroup {
				if prev, ok := seenIn[n]; ok && prev != gi {
					twoGroups = true
				}
				seenIn[n] = gi
			}
		}
		if twoGroups {
			r.tag("feature:same-syscall-in-two-groups")
		}
		if emptyGroup {
			r.tag("feature:empty-group")
		}
		if nilNames {
			r.tag("feature:group-with-conditional-entries-only")
		}
		if maxLists >= 2 {
			r.tag("feature:entry-with-several-lists")
		}
		if maxLists >= 8 {
			r.tag("feature:entry-with->=8-lists")
		}
		if maxConds >= 7 {
			r.tag("feature:list-with->6-conditions")
		}
		if entryInstrs > 255 {
			r.tag("feature:entry-longer-than-255-instructions")
		}
	}
	if nlists > 0 && nconds == 0 {
		r.tag("empty-condition-list")
	}
	nontrivial := false
	switch *profile {
	case "names":
		for _, g := range p.Groups {
			if ok && len(g.Names) > 0 && g.Action != p.Default {
				nontrivial = true
			}
		}
	case "single", "conds":
		nontrivial = ok && nconds > 0
	case "long":
		nontrivial = ok && plen > 255
	case "boundary":
		nontrivial = ok && plen >= 250 && plen <= 268
	case "limit":
		r.tag(fmt.Sprintf("limit-len:%d", plen))
		nontrivial = !ok || (plen >= 4085 && plen <= 4110)
	case "defects":
		nontrivial = !ok || len(p.Groups) >= 2
	default:
		nontrivial = ok && (nnames+nlists) > 0 || !ok
	}
	r.count(req, nontrivial)
	r.sample(req + "  =>  " + goReply)
	if !vd.ComparePolicy(goReply, modelReply, p.Arch) {
		m := Mismatch{Case: id, Request: shown, Go: goReply, Model: modelReply}
		if p.WarmArch != "" {
			m.Note = "history: the same Policy value was assembled for " + p.WarmArch + " before (result discarded)"
		}
		if p.NativeOrder {
			m.Note += " byte order: compiled with the library's own byte order, as production code is (no VerifSetNativeEndian call; N prefix); the model compiles for this machine's order (" + p.Endian + ");"
		}
		if p.Shared {
			m.Note += " layout: the groups' name lists, conditional entries and condition lists are adjacent windows of one backing array each (S prefix);"
		}
		if p.WarmEdit {
			m.Note += " history: the same Policy value was assembled and dumped before with the middle group's last name missing and another action, then edited in place"
		}
		if ok {
			m.Oracle, _ = r.model.Ask("X " + p.Arch + " " + p.Endian + " " + p.Body() + " " + strings.TrimPrefix(goReply, "OK "))
			r.sum.OracleRuns++
			if m.Oracle == "BAD-REQUEST" && goInsts != nil {
				m.Oracle = vd.SearchVM(r.model, p, goInsts)
			}
		}
		// C05 is about the program the compiler hands out: if it is not a valid seccomp filter, the policy is a
		// failing input whatever the model would have compiled.
		if os.Getenv("VERIF_PID") == "C05" && ok && plen <= 4096 && !strings.HasPrefix(m.Oracle, "CEX ") {
			if raw, err := r.model.Ask("R " + strings.TrimPrefix(goReply, "OK ")); err == nil {
				verdict := raw
				if strings.HasPrefix(raw, "RAW ") {
					verdict, _ = r.model.Ask("K " + strings.TrimPrefix(raw, "RAW "))
				}
				if verdict == "REJECT" || verdict == "UNFIT" {
					m.FailingInput = fmt.Sprintf("Policy.Assemble returns a program of %d instructions that the kernel's filter checker refuses (%s: a load outside the 64-byte record, a jump out of bounds, a missing final return or a field that does not fit its width)", plen, verdict)
				}
			}
		}
		// C07 is about the verdict itself: the model's verdict is the specification's
		// (Proofs.C07.accepted_iff_not_defective), so a policy on which the two verdicts differ
		// is a failing input of the property, not only a broken correspondence.
		if os.Getenv("VERIF_PID") == "C07" && (*profile == "defects" || *profile == "limit") {
			mok := strings.HasPrefix(modelReply, "OK ")
			var mlen int
			fmt.Sscanf(modelReply, "OK %d", &mlen)
			switch {
			case strings.HasPrefix(goReply, "PANIC"):
				m.FailingInput = "Policy.Assemble panics on this policy: " + goReply
			case !ok && mok && mlen <= 4096:
				m.FailingInput = fmt.Sprintf("a policy free of every listed defect, which compiles to %d ≤ 4096 instructions, is refused by Policy.Assemble: %s", mlen, goReply)
			case ok && !mok && !strings.HasPrefix(m.Oracle, "CEX "):
				m.FailingInput = "a defective policy (" + modelReply + ") is accepted by Policy.Assemble"
			}
		}
		return r.mismatch(m)
	}
	if ok && (forceOracle || (*oracleSample > 0 && r.sum.Evaluations%*oracleSample == 0)) && plen <= 1500 {
		o, err := r.model.Ask("X " + p.Arch + " " + p.Endian + " " + p.Body() + " " + strings.TrimPrefix(goReply, "OK "))
		if err != nil {
			r.sum.Error = err.Error()
			return true
		}
		r.sum.OracleRuns++
		if strings.HasPrefix(o, "AGREE ") {
			var k int
			fmt.Sscanf(o, "AGREE %d", &k)
			r.sum.OracleEvents += k
		} else {
			// model and code agree with each other but not with the specification
			return r.mismatch(Mismatch{Case: id, Request: req, Go: goReply, Model: modelReply, Oracle: o, Note: "oracle disagrees although outputs are equal"})
		}
	}
	return false
}

func minInt(a, b int) int {
	if a < b {
		return a
	}
	return b
}

func (r *runner) policyStream(rng *rand.Rand) error {
	r.sum.Rule = "seeded structured generation from the repository's own tables (profile " + *profile + "); a case is one policy × architecture × byte order; " +
		"counted once per distinct request line and only if non-trivial: names → accepted and some non-empty group's action differs from the default; " +
		"single/conds → accepted with at least one condition; long → accepted with more than 255 instructions; defects → rejected, or accepted with ≥ 2 groups; mix → not an empty accepted policy"
	for i := 0; i < *n; i++ {
		var p *vd.Policy
		switch *profile {
		case "defects":
			base := []string{"names", "conds", "mix"}[rng.Intn(3)]
			p = vd.GenValid(rng, base)
			d := vd.Defects[rng.Intn(len(vd.Defects))]
			if vd.Inject(rng, p, d) {
				r.tag("defect:" + d)
				if rng.Intn(6) == 0 { // two defects
					d2 := vd.Defects[rng.Intn(len(vd.Defects))]
					if len(p.Groups) > 0 && vd.Inject(rng, p, d2) {
						r.tag("defect2:" + d2)
					}
				}
			} else {
				r.tag("defect:none")
			}
		case "boundary":
			p = vd.GenBoundary(rng)
		case "limit":
			// sweep the sizes around the kernel's limit: 4090 … 4101 in turn
			target := 4090 + i%12
			p = vd.GenLimit(rng, target)
			r.tag(fmt.Sprintf("limit-target:%d", target))
		default:
			p = vd.GenValid(rng, *profile)
		}
		if (*profile == "defects" || *profile == "mix" || *profile == "names" || *profile == "conds") && rng.Intn(6) == 0 {
			// a policy value that has been assembled for another architecture before
			p.WarmArch = vd.TableArches[rng.Intn(len(vd.TableArches))]
		}
		if (*profile == "defects" || *profile == "mix" || *profile == "names" || *profile == "conds") && rng.Intn(6) == 0 {
			// a policy value that was assembled before and then edited inside one of its groups
			p.WarmEdit = true
		}
		if *profile != "limit" && *profile != "single" && rng.Intn(5) == 0 {
			// a caller who slices one table into the groups of the policy
			p.Shared = true
		}
		if *profile != "limit" && rng.Intn(6) == 0 {
			// the library's own byte order (what production gets): this machine's, without the hook
			p.NativeOrder, p.Endian = true, vd.HostEndian()
		}
		if r.onePolicy(fmt.Sprintf("%s#%d", *profile, i), p, false) {
			break
		}
		if r.sum.Error != "" {
			return fmt.Errorf("%s", r.sum.Error)
		}
	}
	return nil
}

/* ---------------------------------------------------------------- builder stream */

func (r *runner) oneBuilder(id, req, goReply string, corpus bool) bool {
	modelReply, err := r.model.Ask(req)
	if err != nil {
		r.sum.Error = err.Error()
		return true
	}
	if goReply != modelReply {
		m := Mismatch{Case: id, Request: req, Go: goReply, Model: modelReply}
		if strings.HasPrefix(goReply, "OK ") {
			// failing-input search: the implementation's program against the label-level meaning
			o, err := r.model.Ask("Y" + strings.TrimPrefix(req, "B") + " " + strings.TrimPrefix(goReply, "OK "))
			if err == nil {
				m.Oracle = o
				r.sum.OracleRuns++
			}
		} else if strings.HasPrefix(goReply, "PANIC") {
			m.FailingInput = "the builder call sequence makes Program.Assemble panic: " + goReply
		} else if strings.HasPrefix(goReply, "ERR") && strings.HasPrefix(modelReply, "OK ") {
			m.FailingInput = "Program.Assemble refuses (" + goReply + ") a label program whose label-level meaning is defined on every input and which the reference resolver assembles (C06.assemble_sound): no instruction list is handed out for it"
		}
		return r.mismatch(m)
	}
	return false
}

func (r *runner) builderStream(rng *rand.Rand) error {
	r.sum.Rule = "seeded call sequences of the public builder (NewLabel/SetLabel/JmpIf/JmpIfTrue/Ret/LdHi/LdLo/Assemble), profile " + *profile +
		" (wf: forward jumps, each label placed once, final return; any: one malformation added); distances drawn from {0,1,2,…,254..258,509..513,…}; " +
		"non-trivial = at least one jump whose label is more than one instruction away; distinct by request line"
	type heldProg struct {
		req, reply string
		insts      []bpf.Instruction
	}
	var held []heldProg
	for i := 0; i < *n; i++ {
		mode := *profile
		if mode == "mix" {
			mode = []string{"wf", "wf", "any"}[rng.Intn(3)]
		}
		bp := vd.GenBuilder(rng, mode)
		req, goReply, insts := bp.Run()
		// histories: an instruction list returned earlier must still read the same after later
		// Assemble calls of other programs (the caller owns what it was given)
		for _, h := range held {
			if now := vd.RenderProg(h.insts); now != h.reply {
				m := Mismatch{Case: fmt.Sprintf("%s#%d", mode, i), Request: h.req, Go: now, Model: h.reply,
					Note: "history: Assemble(this request) returned the list shown under model; after Assemble of the later request " + req + " the same returned slice reads as shown under implementation"}
				m.Oracle, _ = r.model.Ask("Y " + strings.TrimPrefix(h.req, "B ") + " " + strings.TrimPrefix(now, "OK "))
				if !strings.HasPrefix(m.Oracle, "CEX ") {
					m.FailingInput = "the instruction list returned by an earlier Program.Assemble was overwritten by a later Assemble of another program"
				}
				r.mismatch(m)
				held = nil
				break
			}
		}
		if insts != nil && strings.HasPrefix(goReply, "OK ") {
			held = append(held, heldProg{req, goReply, insts})
			if len(held) > 4 {
				held = held[1:]
			}
			r.tag("history:earlier-results-rechecked")
		}
		for t := range bp.Tags {
			r.tag(t)
		}
		f := strings.Fields(goReply)
		if f[0] == "OK" {
			var k int
			fmt.Sscanf(goReply, "OK %d", &k)
			r.tag(sizeBucket(k))
			r.tag("reply:OK")
		} else {
			cls := f[0]
			if len(f) > 1 {
				cls += ":" + f[1]
			}
			r.tag("reply:" + cls)
		}
		r.count(req, bp.Tags["nontrivial-jump"])
		r.sample(req + "  =>  " + goReply)
		if r.oneBuilder(fmt.Sprintf("%s#%d", mode, i), req, goReply, false) {
			break
		}
		if r.sum.Error != "" {
			return fmt.Errorf("%s", r.sum.Error)
		}
	}
	return nil
}
