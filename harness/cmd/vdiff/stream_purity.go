package main

// Stream "purity" (C13): every generated policy is compiled
//   (a) k times on the same value, in this process,
//   (b) on deep copies,
//   (c) in a child process from up to 16 goroutines at once — each on its own copy of the value, the copies either deep
//       or *sharing the slices* of one original — while other goroutines compile a different policy, call arch.GetInfo and
//       run the text conversions,
//   (d) in three fresh processes (different map iteration seeds),
// and all outputs must be equal to each other and to the model's reply; the exported fields of the policy are compared
// (reflect.DeepEqual on a deep copy taken before) after every step.  A child that dies (for instance "fatal error:
// concurrent map writes") or — when this binary was built with -race — prints "WARNING: DATA RACE" is a failing input.
//
// The children are this executable re-executed; the child modes are entered from init() (before main parses flags).

import (
	"bufio"
	"fmt"
	"io"
	"math/rand"
	"os"
	"os/exec"
	"reflect"
	"strconv"
	"strings"
	"sync"
	"sync/atomic"
	"time"

	seccomp "github.com/elastic/go-seccomp-bpf"
	"github.com/elastic/go-seccomp-bpf/arch"

	"verif/harness/internal/vd"
)

func init() {
	if len(os.Args) > 1 {
		switch os.Args[1] {
		case "-purity-child":
			purityChild()
			os.Exit(0)
		case "-purity-once":
			purityOnce(strings.Join(os.Args[2:], " "))
			os.Exit(0)
		}
	}
	streamFuncs["purity"] = purityStream
	replayFuncs["PUR"] = func(r *runner, id, line string) {
		// PUR <k> <goroutines> P …
		f := strings.SplitN(line, " ", 4)
		if len(f) != 4 {
			r.mismatch(Mismatch{Case: id, Request: line, Note: "bad PUR request"})
			return
		}
		k, _ := strconv.Atoi(f[1])
		g, _ := strconv.Atoi(f[2])
		p, _, err := vd.ParsePolicyRequest(f[3])
		if err != nil {
			r.mismatch(Mismatch{Case: id, Request: line, Note: err.Error()})
			return
		}
		pc := &purityCtx{}
		defer pc.stop()
		r.onePurity(pc, id, p, k, g, true)
	}
}

/* ---------------------------------------------------------------- exported view of a policy */

type condView struct {
	Argument  uint32
	Operation string
	Value     uint64
}
type ncView struct {
	Name       string
	Conditions []condView
}
type groupView struct {
	Names     []string
	WithConds []ncView
	Action    uint32
}
type policyView struct {
	Default uint32
	Groups  []groupView
}

// viewOf copies the exported fields deeply; nil and empty slices stay distinguishable.
func viewOf(p *seccomp.Policy) policyView {
	v := policyView{Default: uint32(p.DefaultAction)}
	if p.Syscalls != nil {
		v.Groups = make([]groupView, 0, len(p.Syscalls))
	}
	for _, g := range p.Syscalls {
		gv := groupView{Action: uint32(g.Action)}
		if g.Names != nil {
			gv.Names = append(make([]string, 0, len(g.Names)), g.Names...)
		}
		if g.NamesWithCondtions != nil {
			gv.WithConds = make([]ncView, 0, len(g.NamesWithCondtions))
		}
		for _, nc := range g.NamesWithCondtions {
			nv := ncView{Name: nc.Name}
			if nc.Conditions != nil {
				nv.Conditions = make([]condView, 0, len(nc.Conditions))
			}
			for _, c := range nc.Conditions {
				nv.Conditions = append(nv.Conditions, condView{c.Argument, string(c.Operation), c.Value})
			}
			gv.WithConds = append(gv.WithConds, nv)
		}
		v.Groups = append(v.Groups, gv)
	}
	return v
}

func viewDiff(a, b policyView) string {
	if reflect.DeepEqual(a, b) {
		return ""
	}
	if a.Default != b.Default {
		return fmt.Sprintf("DefaultAction %#x → %#x", a.Default, b.Default)
	}
	if len(a.Groups) != len(b.Groups) {
		return fmt.Sprintf("len(Syscalls) %d → %d", len(a.Groups), len(b.Groups))
	}
	for i := range a.Groups {
		if !reflect.DeepEqual(a.Groups[i], b.Groups[i]) {
			return fmt.Sprintf("Syscalls[%d]: %s → %s", i, clip(fmt.Sprintf("%+v", a.Groups[i]), 400), clip(fmt.Sprintf("%+v", b.Groups[i]), 400))
		}
	}
	return "values differ"
}

// deepCopy builds an independent value with the same exported content.
func deepCopy(p *seccomp.Policy) seccomp.Policy {
	out := seccomp.Policy{DefaultAction: p.DefaultAction}
	if p.Syscalls != nil {
		out.Syscalls = make([]seccomp.SyscallGroup, 0, len(p.Syscalls))
	}
	for _, g := range p.Syscalls {
		ng := seccomp.SyscallGroup{Action: g.Action}
		if g.Names != nil {
			ng.Names = append(make([]string, 0, len(g.Names)), g.Names...)
		}
		if g.NamesWithCondtions != nil {
			ng.NamesWithCondtions = make([]seccomp.NameWithConditions, 0, len(g.NamesWithCondtions))
		}
		for _, nc := range g.NamesWithCondtions {
			n := seccomp.NameWithConditions{Name: nc.Name}
			if nc.Conditions != nil {
				n.Conditions = append(make(seccomp.ArgumentConditions, 0, len(nc.Conditions)), nc.Conditions...)
			}
			ng.NamesWithCondtions = append(ng.NamesWithCondtions, n)
		}
		out.Syscalls = append(out.Syscalls, ng)
	}
	return out
}

/* ---------------------------------------------------------------- compiling without touching globals */

// hostCase: the policy targets the architecture arch.GetInfo("") returns and the byte order of the host, so it can be
// compiled without any hook (this exercises the `p.arch == nil` branch with its cache store).
func hostCase(p *vd.Policy) bool {
	host, err := arch.GetInfo("")
	return err == nil && vd.ArchInfo(p.Arch) == host && p.Endian == "le"
}

// compileValue assembles gp for the policy's architecture; the byte order hook must have been set by the caller
// (it is a package-level variable of the library and is never touched while goroutines run).
func compileValue(gp *seccomp.Policy, p *vd.Policy, useHook bool) (reply string) {
	defer func() {
		if x := recover(); x != nil {
			reply = "PANIC " + vd.Hex(fmt.Sprint(x))
		}
	}()
	if useHook {
		info := vd.ArchInfo(p.Arch)
		if info == nil {
			return "ERR harness-unknown-arch"
		}
		seccomp.VerifSetArch(gp, info)
	}
	insts, err := gp.Assemble()
	if err != nil {
		if insts != nil {
			return "ERR-WITH-PROGRAM " + vd.Hex(err.Error())
		}
		return vd.ClassifyError(err)
	}
	return vd.RenderProg(insts)
}

func setEndian(e string) func() {
	var prev = seccomp.VerifSetNativeEndian(vd.Order(e))
	return func() { seccomp.VerifSetNativeEndian(prev) }
}

/* ---------------------------------------------------------------- child: one compile in a fresh process */

func purityOnce(line string) {
	p, _, err := vd.ParsePolicyRequest(line)
	if err != nil {
		fmt.Println("BAD-REQUEST " + err.Error())
		return
	}
	gp := p.ToGo()
	restore := setEndian(p.Endian)
	defer restore()
	fmt.Println(compileValue(&gp, p, !hostCase(p)))
}

/* ---------------------------------------------------------------- child: concurrent histories */

type auxExpect struct {
	archNames []string
	archInfo  []*arch.Info
	archErr   []bool
	actVals   []uint32
	actText   []string
	flagText  []string
	unpackIn  []string
	unpackOut []string
	opIn      []string
	opOut     []string
}

var freshCounter uint64

var freshBases = []string{"aarch64", "mipsel64n32", "mips64le", "ppc64le", "amd64", "arm64", "s390x", "x86_64", "i386"}

// freshSpelling returns a spelling of an architecture name in mixed letter case that this process has
// (for the first few hundred calls) never looked up before, and the lower-case name it stands for:
// the first lookup of a spelling must be as free of side effects as any other.
func freshSpelling() (string, string) {
	k := atomic.AddUint64(&freshCounter, 1)
	base := freshBases[k%uint64(len(freshBases))]
	bits := k/uint64(len(freshBases)) + 1
	b := []byte(base)
	j := 0
	for i := range b {
		if b[i] >= 'a' && b[i] <= 'z' {
			if bits>>uint(j)&1 == 1 {
				b[i] -= 'a' - 'A'
			}
			j++
		}
	}
	return string(b), base
}

func auxCompute() *auxExpect {
	e := &auxExpect{}
	e.archNames = []string{"", "amd64", "x86_64", "X86_64", "i386", "386", "arm", "ARM", "arm64", "aarch64", "x32", "ppc", "mips", "s390x", "bogus", "mips64le"}
	for _, n := range e.archNames {
		i, err := arch.GetInfo(n)
		e.archInfo = append(e.archInfo, i)
		e.archErr = append(e.archErr, err != nil)
	}
	e.actVals = append(append([]uint32{}, vd.NamedActions...), 0x7fc00000, 0x00050001, 1, 0xffffffff)
	for _, v := range e.actVals {
		e.actText = append(e.actText, seccomp.Action(v).String())
	}
	for f := 0; f < 8; f++ {
		e.flagText = append(e.flagText, seccomp.FilterFlag(f).String())
	}
	e.unpackIn = []string{"allow", "ALLOW", "Kill_Process", "Kill_thread", "errno", "nope", "", "log", "trace", "TRAP"}
	for _, s := range e.unpackIn {
		a := seccomp.Action(0xdeadbeef)
		if err := a.Unpack(s); err != nil {
			e.unpackOut = append(e.unpackOut, "ERR")
		} else {
			e.unpackOut = append(e.unpackOut, fmt.Sprint(uint32(a)))
		}
	}
	e.opIn = []string{"Equal", "bitsnotset", "GREATERTHAN", "x", "LessOrEqual", "BİtsSet"}
	for _, s := range e.opIn {
		var o seccomp.Operation
		if err := o.Unpack(s); err != nil {
			e.opOut = append(e.opOut, "ERR")
		} else {
			e.opOut = append(e.opOut, string(o))
		}
	}
	return e
}

// auxRun repeats the lookups and conversions; it returns a description of the first deviation.
func (e *auxExpect) auxRun(which int, rounds int) string {
	for r := 0; r < rounds; r++ {
		switch which % 2 {
		case 0:
			for i, n := range e.archNames {
				info, err := arch.GetInfo(n)
				if info != e.archInfo[i] || (err != nil) != e.archErr[i] {
					return fmt.Sprintf("arch.GetInfo(%q) = %p,%v while other goroutines compile; alone it gave %p, error=%v", n, info, err, e.archInfo[i], e.archErr[i])
				}
				if info != nil && len(info.SyscallNames) != len(info.SyscallNumbers) {
					return fmt.Sprintf("arch.GetInfo(%q): tables of different size", n)
				}
			}
			// spellings nobody has looked up yet (any letter case resolves like the lower-case name)
			for j := 0; j < 3; j++ {
				v, base := freshSpelling()
				info, err := arch.GetInfo(v)
				want, werr := arch.GetInfo(base)
				if info != want || (err != nil) != (werr != nil) {
					return fmt.Sprintf("arch.GetInfo(%q) = %p,%v while other goroutines compile; arch.GetInfo(%q) = %p,%v", v, info, err, base, want, werr)
				}
			}
		case 1:
			for i, v := range e.actVals {
				if s := seccomp.Action(v).String(); s != e.actText[i] {
					return fmt.Sprintf("Action(%#x).String() = %q, alone %q", v, s, e.actText[i])
				}
				if m, _ := seccomp.Action(v).MarshalText(); string(m) != e.actText[i] {
					return fmt.Sprintf("Action(%#x).MarshalText() = %q, alone %q", v, m, e.actText[i])
				} else if which == 1 {
					// the caller owns what it was given: scribbling over the returned bytes must not change
					// what the next conversion returns (one goroutine only, so that this is not itself a race)
					for k := range m {
						m[k] = '#'
					}
					if m2, _ := seccomp.Action(v).MarshalText(); string(m2) != e.actText[i] {
						return fmt.Sprintf("Action(%#x).MarshalText() = %q after the caller overwrote the bytes returned by the previous call; before %q", v, m2, e.actText[i])
					}
				}
			}
			for f := range e.flagText {
				if s := seccomp.FilterFlag(f).String(); s != e.flagText[f] {
					return fmt.Sprintf("FilterFlag(%d).String() = %q, alone %q", f, s, e.flagText[f])
				}
				if which == 1 {
					if m, _ := seccomp.FilterFlag(f).MarshalText(); string(m) == e.flagText[f] {
						for k := range m {
							m[k] = '#'
						}
						if m2, _ := seccomp.FilterFlag(f).MarshalText(); string(m2) != e.flagText[f] {
							return fmt.Sprintf("FilterFlag(%d).MarshalText() = %q after the caller overwrote the bytes returned by the previous call", f, m2)
						}
					}
				}
			}
			// combined values that nobody in this process has converted before (a conversion must not
			// depend on, or leave behind, anything shared): known bits plus fresh unknown bits
			for j := 0; j < 4; j++ {
				fresh := uint32(1+(which*100003+r*7+j)%0x3fffff) << 2
				for low := uint32(0); low < 4; low++ {
					f := fresh | low
					want := []string{"unknown", "tsync|unknown", "log|unknown", "tsync|log|unknown"}[low]
					if s := seccomp.FilterFlag(f).String(); s != want {
						return fmt.Sprintf("FilterFlag(%#x).String() = %q on its first conversion in this process, expected %q", f, s, want)
					}
				}
			}
			for i, s := range e.unpackIn {
				a := seccomp.Action(0xdeadbeef)
				got := "ERR"
				if err := a.Unpack(s); err == nil {
					got = fmt.Sprint(uint32(a))
				}
				if got != e.unpackOut[i] {
					return fmt.Sprintf("Action.Unpack(%q) = %s, alone %s", s, got, e.unpackOut[i])
				}
			}
			for i, s := range e.opIn {
				var o seccomp.Operation
				got := "ERR"
				if err := o.Unpack(s); err == nil {
					got = string(o)
				}
				if got != e.opOut[i] {
					return fmt.Sprintf("Operation.Unpack(%q) = %s, alone %s", s, got, e.opOut[i])
				}
			}
		}
	}
	return ""
}

// purityChild serves requests `<seq> <k> <goroutines> P …` on stdin; one reply line per request on stdout:
//
//	OK <reply> | FAIL <kind> <hex detail> ; after each request `#done <seq>` is written to stderr.
func purityChild() {
	in := bufio.NewReaderSize(os.Stdin, 1<<22)
	out := bufio.NewWriter(os.Stdout)
	aux := auxCompute()
	var prev *vd.Policy
	for {
		line, err := in.ReadString('\n')
		if line == "" && err != nil {
			return
		}
		line = strings.TrimSpace(line)
		f := strings.SplitN(line, " ", 4)
		if len(f) != 4 {
			fmt.Fprintln(out, "FAIL bad-request -")
			out.Flush()
			continue
		}
		k, _ := strconv.Atoi(f[1])
		g, _ := strconv.Atoi(f[2])
		p, _, perr := vd.ParsePolicyRequest(f[3])
		if perr != nil {
			fmt.Fprintln(out, "FAIL bad-request "+vd.Hex(perr.Error()))
			out.Flush()
			fmt.Fprintf(os.Stderr, "#done %s\n", f[0])
			continue
		}
		fmt.Fprintln(out, purityConcurrent(aux, p, prev, k, g))
		out.Flush()
		fmt.Fprintf(os.Stderr, "#done %s\n", f[0])
		prev = p
		if err != nil {
			return
		}
	}
}

func purityConcurrent(aux *auxExpect, p, prev *vd.Policy, k, g int) string {
	restore := setEndian(p.Endian)
	defer restore()
	useHook := !hostCase(p)
	orig := p.ToGo()
	before := viewOf(&orig)
	if useHook {
		seccomp.VerifSetArch(&orig, vd.ArchInfo(p.Arch)) // copies inherit the architecture
	}
	// the other policy: compiled alone first (under this byte order), then concurrently
	var other seccomp.Policy
	var otherP *vd.Policy
	otherWant := ""
	if prev != nil && vd.ArchInfo(prev.Arch) != nil {
		otherP = prev
		o := prev.ToGo()
		otherWant = compileValue(&o, prev, true)
		other = prev.ToGo()
	}
	type result struct {
		who   string
		reply string
	}
	results := make([][]result, g)
	auxErr := make([]string, 4)
	start := make(chan struct{})
	var wg sync.WaitGroup
	for i := 0; i < g; i++ {
		wg.Add(1)
		go func(i int) {
			defer wg.Done()
			var cp seccomp.Policy
			kind := "copy sharing slices"
			if i%3 == 2 {
				cp = deepCopy(&orig)
				if useHook {
					seccomp.VerifSetArch(&cp, vd.ArchInfo(p.Arch))
				}
				kind = "deep copy"
			} else {
				cp = orig // struct copy: Syscalls, Names, Conditions share their backing arrays with every other copy
			}
			<-start
			for j := 0; j < k; j++ {
				results[i] = append(results[i], result{fmt.Sprintf("goroutine %d (%s) call %d", i, kind, j+1), compileValue(&cp, p, false)})
			}
		}(i)
	}
	for a := 0; a < 4; a++ {
		wg.Add(1)
		go func(a int) {
			defer wg.Done()
			<-start
			if a == 3 && otherP != nil {
				for j := 0; j < k+1; j++ {
					if got := compileValue(&other, otherP, true); got != otherWant {
						auxErr[a] = fmt.Sprintf("another policy compiled concurrently gave a different program than alone: %s vs %s", clip(got, 300), clip(otherWant, 300))
						return
					}
				}
				return
			}
			auxErr[a] = aux.auxRun(a, 6)
		}(a)
	}
	close(start)
	wg.Wait()
	for _, e := range auxErr {
		if e != "" {
			return "FAIL aux " + vd.Hex(e)
		}
	}
	first := results[0][0]
	for i := range results {
		for _, r := range results[i] {
			if r.reply != first.reply {
				return "FAIL diff " + vd.Hex(fmt.Sprintf("%s → %s\n%s → %s", first.who, clip(first.reply, 1500), r.who, clip(r.reply, 1500)))
			}
		}
	}
	if d := viewDiff(before, viewOf(&orig)); d != "" {
		return "FAIL mutated " + vd.Hex(d)
	}
	return "OK " + first.reply
}

/* ---------------------------------------------------------------- parent */

type purityCtx struct {
	// the previous case of the stream: its value is compiled once more after the current one (history A…A B…B A)
	prevVal   *seccomp.Policy
	prevP     *vd.Policy
	prevReply string
	prevView  policyView

	cmd    *exec.Cmd
	stdin  io.WriteCloser
	stdout *bufio.Reader
	errCh  chan string
	seq    int
	self   string
}

func (pc *purityCtx) startChild() error {
	if pc.self == "" {
		self, err := os.Executable()
		if err != nil {
			return err
		}
		pc.self = self
	}
	cmd := exec.Command(pc.self, "-purity-child")
	cmd.Env = append(os.Environ(), "GORACE=halt_on_error=0 atexit_sleep_ms=0")
	in, err := cmd.StdinPipe()
	if err != nil {
		return err
	}
	out, err := cmd.StdoutPipe()
	if err != nil {
		return err
	}
	serr, err := cmd.StderrPipe()
	if err != nil {
		return err
	}
	if err := cmd.Start(); err != nil {
		return err
	}
	pc.cmd, pc.stdin, pc.stdout = cmd, in, bufio.NewReaderSize(out, 1<<22)
	ch := make(chan string, 4096)
	pc.errCh = ch
	go func() {
		sc := bufio.NewScanner(serr)
		sc.Buffer(make([]byte, 1<<20), 1<<24)
		for sc.Scan() {
			ch <- sc.Text()
		}
		close(ch)
	}()
	return nil
}

func (pc *purityCtx) stop() {
	if pc.cmd != nil {
		pc.stdin.Close()
		done := make(chan struct{})
		go func() { pc.cmd.Wait(); close(done) }()
		select {
		case <-done:
		case <-time.After(5 * time.Second):
			pc.cmd.Process.Kill()
		}
		pc.cmd = nil
	}
}

// ask sends one request to the child; stderrText is what the child wrote to stderr while serving it.
func (pc *purityCtx) ask(k, g int, req string) (reply, stderrText string, died bool) {
	if pc.cmd == nil {
		if err := pc.startChild(); err != nil {
			return "", "cannot start child: " + err.Error(), true
		}
	}
	pc.seq++
	seq := strconv.Itoa(pc.seq)
	type rd struct {
		line string
		err  error
	}
	rch := make(chan rd, 1)
	go func() {
		l, err := pc.stdout.ReadString('\n')
		rch <- rd{l, err}
	}()
	if _, err := io.WriteString(pc.stdin, fmt.Sprintf("%s %d %d %s\n", seq, k, g, req)); err != nil {
		died = true
	}
	var sb strings.Builder
	collect := func(untilMarker bool, d time.Duration) {
		t := time.After(d)
		for {
			select {
			case l, ok := <-pc.errCh:
				if !ok {
					return
				}
				if l == "#done "+seq {
					return
				}
				if !strings.HasPrefix(l, "#done ") {
					sb.WriteString(l + "\n")
				}
			case <-t:
				return
			}
		}
	}
	select {
	case x := <-rch:
		if x.err != nil {
			died = true
		}
		reply = strings.TrimRight(x.line, "\n")
	case <-time.After(120 * time.Second):
		died = true
		sb.WriteString("child did not answer within 120 s\n")
		pc.cmd.Process.Kill()
	}
	if died {
		collect(false, 3*time.Second)
		pc.cmd.Process.Kill()
		pc.cmd.Wait()
		pc.cmd = nil
	} else {
		collect(true, 20*time.Second)
	}
	return reply, sb.String(), died
}

func (pc *purityCtx) once(req string) (string, string) {
	if pc.self == "" {
		pc.self, _ = os.Executable()
	}
	cmd := exec.Command(pc.self, append([]string{"-purity-once"}, strings.Fields(req)...)...)
	cmd.Env = append(os.Environ(), "GORACE=halt_on_error=0 atexit_sleep_ms=0")
	var so, se strings.Builder
	cmd.Stdout, cmd.Stderr = &so, &se
	done := make(chan error, 1)
	if err := cmd.Start(); err != nil {
		return "", "cannot start: " + err.Error()
	}
	go func() { done <- cmd.Wait() }()
	select {
	case <-done:
	case <-time.After(60 * time.Second):
		cmd.Process.Kill()
		return "", "timeout"
	}
	return strings.TrimSpace(so.String()), se.String()
}

// editInPlace changes the library value gp (built from p) in place, keeping its shape, and returns the
// description p2 of the edited policy.
func editInPlace(p *vd.Policy, gp *seccomp.Policy, seed int64) (*vd.Policy, string) {
	rng := rand.New(rand.NewSource(seed))
	p2 := *p
	p2.Groups = make([]vd.Group, len(p.Groups))
	for i, g := range p.Groups {
		ng := vd.Group{Action: g.Action, Names: append([]string(nil), g.Names...)}
		for _, nc := range g.WithConds {
			ng.WithConds = append(ng.WithConds, vd.NameConds{Name: nc.Name, Conds: append([]vd.Cond(nil), nc.Conds...)})
		}
		p2.Groups[i] = ng
	}
	used := map[string]bool{}
	for _, g := range p.Groups {
		for _, n := range g.Names {
			used[n] = true
		}
		for _, nc := range g.WithConds {
			used[nc.Name] = true
		}
	}
	// candidates: a plain name, or a condition
	type site struct{ g, i, c int }
	var names, conds []site
	for gi, g := range p.Groups {
		for i := range g.Names {
			names = append(names, site{gi, i, -1})
		}
		for i, nc := range g.WithConds {
			for c := range nc.Conds {
				conds = append(conds, site{gi, i, c})
			}
		}
	}
	if len(conds) > 0 && (len(names) == 0 || rng.Intn(2) == 0) {
		st := conds[rng.Intn(len(conds))]
		c := &p2.Groups[st.g].WithConds[st.i].Conds[st.c]
		switch rng.Intn(3) {
		case 0:
			c.Val = vd.Operand(rng)
		case 1:
			c.Arg = (c.Arg + 1 + uint32(rng.Intn(5))) % 6
		default:
			c.Op = vd.Ops[rng.Intn(len(vd.Ops))]
		}
		gc := &gp.Syscalls[st.g].NamesWithCondtions[st.i].Conditions[st.c]
		gc.Value, gc.Argument, gc.Operation = c.Val, c.Arg, seccomp.Operation(c.Op)
		return &p2, fmt.Sprintf("condition %d of entry %d in group %d", st.c, st.i, st.g)
	}
	if len(names) > 0 {
		st := names[rng.Intn(len(names))]
		for _, n := range vd.TableNames(p.Arch) {
			if !used[n] {
				p2.Groups[st.g].Names[st.i] = n
				gp.Syscalls[st.g].Names[st.i] = n
				return &p2, fmt.Sprintf("name %d of group %d renamed to %s", st.i, st.g, n)
			}
		}
	}
	return nil, ""
}

func (r *runner) onePurity(pc *purityCtx, id string, p *vd.Policy, k, g int, processes bool) bool {
	req := p.Request()
	purReq := fmt.Sprintf("PUR %d %d %s", k, g, p.WireRequest())
	modelReply, err := r.model.Ask(req)
	if err != nil {
		r.sum.Error = err.Error()
		return true
	}
	fail := func(what, goReply string) bool {
		if p.Shared {
			what += "\n(layout of the value: its name lists, entries and condition lists are windows of shared arrays, and equal condition lists within a group are one and the same slice — verb PS in the request)"
		}
		return r.mismatch(Mismatch{Case: id, Request: purReq, Go: clip(goReply, 4000), Model: clip(modelReply, 4000),
			FailingInput: what + "\npolicy: " + req, Key: "purity:" + strings.SplitN(what, ":", 2)[0]})
	}
	same := func(goReply string) bool { return vd.ComparePolicy(goReply, modelReply, p.Arch) }

	// (a) k times on the same value, (b) deep copies — sequential, in this process
	restore := setEndian(p.Endian)
	useHook := !hostCase(p)
	gp := p.ToGo()
	before := viewOf(&gp)
	snapshot := deepCopy(&gp)
	var firstReply string
	for j := 0; j < k; j++ {
		rep := compileValue(&gp, p, useHook && j == 0)
		if j == 0 {
			firstReply = rep
		} else if rep != firstReply {
			restore()
			return fail(fmt.Sprintf("repeated-compile: call 1 and call %d of Assemble on the same policy value gave different results:\n%s\n%s", j+1, clip(firstReply, 1500), clip(rep, 1500)), rep)
		}
		if d := viewDiff(before, viewOf(&gp)); d != "" {
			restore()
			return fail(fmt.Sprintf("policy-modified: Assemble (call %d) changed the caller's policy: %s", j+1, d), rep)
		}
	}
	dc := deepCopy(&snapshot)
	repCopy := compileValue(&dc, p, useHook)
	// (a2) template reuse: edit a *copy of the compiled value* in place without changing its shape (rename a
	// syscall, change a condition) and compile again: the result must be that of a freshly built equal value
	if ok0 := strings.HasPrefix(firstReply, "OK "); ok0 {
		tmpl := deepCopy(&snapshot)
		compileValue(&tmpl, p, useHook) // the template has been compiled once
		if p2, what := editInPlace(p, &tmpl, int64(len(req))+int64(k)); p2 != nil {
			again := compileValue(&tmpl, p2, useHook)
			fresh := p2.ToGo()
			want := compileValue(&fresh, p2, useHook)
			if again != want {
				restore()
				return fail(fmt.Sprintf("history-dependence: compile, edit the same value in place (%s), compile again gives a different program than a freshly built equal value:\nreused: %s\nfresh:  %s", what, clip(again, 1500), clip(want, 1500)), again)
			}
			r.tag("template-reuse:ok")
		}
	}
	restore()
	// interleaving with another policy: the previous case's value, compiled again after this one
	if pc.prevVal != nil {
		restorePrev := setEndian(pc.prevP.Endian)
		again := compileValue(pc.prevVal, pc.prevP, false)
		restorePrev()
		if again != pc.prevReply {
			return fail(fmt.Sprintf("interleaved-compile: a policy value compiled again after another policy was compiled gives a different result:\n%s\n%s\nthe policy compiled in between is the one below; the value compiled again: %s",
				clip(pc.prevReply, 1500), clip(again, 1500), pc.prevP.Request()), again)
		}
		if d := viewDiff(pc.prevView, viewOf(pc.prevVal)); d != "" {
			return fail("policy-modified: compiling another policy and then this value again changed it: "+d+"\nvalue: "+pc.prevP.Request(), again)
		}
		r.tag("interleaved:ok")
	}
	pc.prevVal, pc.prevP, pc.prevReply, pc.prevView = &gp, p, firstReply, before
	if repCopy != firstReply {
		return fail(fmt.Sprintf("copy-compile: an equal policy (deep copy taken before the first call) compiles differently:\n%s\n%s", clip(firstReply, 1500), clip(repCopy, 1500)), repCopy)
	}
	ok := strings.HasPrefix(firstReply, "OK ")
	r.tag("arch:" + p.Arch)
	r.tag(fmt.Sprintf("goroutines:%d", g))
	r.tag(fmt.Sprintf("k:%d", k))
	if useHook {
		r.tag("arch-by-hook")
	} else {
		r.tag("arch-by-GetInfo(cache-store-exercised)")
	}
	if ok {
		var plen int
		fmt.Sscanf(firstReply, "OK %d", &plen)
		r.tag(sizeBucket(plen))
		r.tag("reply:OK")
	} else {
		r.tag("reply:" + strings.Join(strings.Fields(firstReply)[:minInt(2, len(strings.Fields(firstReply)))], ":"))
	}
	r.count(purReq, len(p.Groups) > 0)
	r.sample(purReq + "  =>  " + clip(firstReply, 160))
	if !same(firstReply) {
		return r.mismatch(Mismatch{Case: id, Request: req, Go: firstReply, Model: modelReply, Note: "sequential compile differs from the model"})
	}

	// (c) concurrent histories in the child
	creply, cerr, died := pc.ask(k, g, p.WireRequest())
	race := strings.Contains(cerr, "WARNING: DATA RACE")
	switch {
	case race:
		return fail("data-race: the race detector reported a data race while up to "+strconv.Itoa(g)+" goroutines compiled copies of one policy (k="+strconv.Itoa(k)+"), with concurrent arch.GetInfo and text conversions:\n"+clip(cerr, 6000), creply)
	case died:
		return fail("concurrent-crash: the process died while "+strconv.Itoa(g)+" goroutines compiled copies of one policy:\n"+clip(cerr, 6000), creply)
	case strings.HasPrefix(creply, "FAIL "):
		f := strings.SplitN(creply, " ", 3)
		detail := ""
		if len(f) == 3 {
			detail = vd.Unhex(f[2])
		}
		kinds := map[string]string{"diff": "concurrent-diff: concurrent compilations of copies of one policy gave different programs", "mutated": "policy-modified: concurrent compilations changed the original policy",
			"aux": "concurrent-influence: a concurrent lookup or text conversion was influenced"}
		return fail(kinds[f[1]]+": "+detail, creply)
	case !strings.HasPrefix(creply, "OK "):
		return r.mismatch(Mismatch{Case: id, Request: purReq, Go: creply, Model: modelReply, Note: "unexpected child reply; stderr: " + clip(cerr, 2000)})
	}
	if got := strings.TrimPrefix(creply, "OK "); got != firstReply {
		return fail(fmt.Sprintf("concurrent-diff: the concurrent compilations agree with each other but not with the sequential one:\n%s\n%s", clip(firstReply, 1500), clip(got, 1500)), got)
	}
	r.tag("concurrent:ok")

	// (d) fresh processes
	if processes {
		for i := 0; i < 3; i++ {
			got, serr := pc.once(req)
			if strings.Contains(serr, "WARNING: DATA RACE") {
				return fail("data-race: in a single compile in a fresh process:\n"+clip(serr, 4000), got)
			}
			if got != firstReply {
				return fail(fmt.Sprintf("process-diff: a fresh process (%d) compiles the policy differently:\n%s\n%s\nstderr: %s", i+1, clip(firstReply, 1500), clip(got, 1500), clip(serr, 1000)), got)
			}
		}
		r.tag("processes:3-agree")
	}
	return false
}

func purityStream(r *runner, rng *rand.Rand) error {
	r.sum.Rule = "one case = one generated policy (valid mixes of names and conditions over 5 architectures and both byte orders, long programs, some defective ones) with a history: " +
		"k ∈ {2,3,5} sequential Assemble calls on one value + a deep copy, then the previous case's value once more (interleaving A…A B…B A); then, in a child process, g ∈ {2,4,8,16} goroutines released together, each compiling its own copy k times " +
		"(two thirds of the copies share all slices with one original, one third are deep), a goroutine compiling the previous (different) policy, two calling arch.GetInfo on 16 names " +
		"and one running Action/FilterFlag/Operation conversions; then 3 fresh processes. All outputs byte-identical and equal to the model, exported fields unchanged. " +
		"A policy whose architecture is the host's is compiled without the arch hook (cache store in Policy.Assemble exercised). distinct by (k, g, policy)"
	if *n == 0 {
		return nil
	}
	pc := &purityCtx{}
	defer pc.stop()
	if r.sum.Extra == nil {
		r.sum.Extra = map[string]interface{}{}
	}
	r.sum.Extra["race_detector"] = raceEnabled
	profiles := []string{"mix", "mix", "conds", "names", "long", "defects"}
	every := 1
	if raceEnabled {
		every = 4 // process start is slow under the race detector
	}
	for i := 0; i < *n; i++ {
		prof := profiles[rng.Intn(len(profiles))]
		var p *vd.Policy
		if prof == "defects" {
			p = vd.GenValid(rng, "mix")
			vd.Inject(rng, p, vd.Defects[rng.Intn(len(vd.Defects))])
		} else {
			p = vd.GenValid(rng, prof)
		}
		// more host-architecture cases: they run without the hook
		if rng.Intn(3) == 0 && p.Arch != "x86_64" && prof != "defects" {
			q := vd.GenValid(rng, prof)
			for t := 0; t < 8 && q.Arch != "x86_64"; t++ {
				q = vd.GenValid(rng, prof)
			}
			if q.Arch == "x86_64" {
				q.Endian = "le"
				p = q
			}
		}
		p.Shared = rng.Intn(4) == 0 // a value whose slices are windows of shared arrays (equal condition lists: one slice)
		k := []int{2, 3, 5}[rng.Intn(3)]
		g := []int{2, 4, 8, 16}[rng.Intn(4)]
		if r.onePurity(pc, fmt.Sprintf("%s#%d", prof, i), p, k, g, i%every == 0) {
			break
		}
		if r.sum.Error != "" {
			return fmt.Errorf("%s", r.sum.Error)
		}
	}
	return nil
}
