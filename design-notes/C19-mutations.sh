#!/bin/sh
# Mutation trials for C19 on a scratch copy of the repository (never on /repo).
#   usage: design-notes/C19-mutations.sh            (from the root of the verif clone)
# Every trial must end in `VIOLATION property=C19 …` (exit 1); the last run on the unchanged tree must exit 0.
set -u
V="$(cd "$(dirname "$0")/.." && pwd)"
M="${TMPDIR:-/tmp}/c19-repo-mut.$$"
trial() { # name, sed-script or python, file
  name="$1"; shift
  rm -rf "$M"; cp -r /repo "$M"
  ( cd "$M" && "$@" ) || { echo "mutation $name could not be applied"; return; }
  echo "=== $name"; ( cd "$M" && git diff | grep '^[+-][^+-]' )
  ( cd "$V" && VERIF_REPO="$M" timeout 900 bin/check C19; echo "exit=$?" ) 2>&1 | grep -v '^\[check\]'
  for f in $(cd "$V" && ls -t replays/C19-*.txt | head -1); do sed -n 2p "$V/$f"; done
}
trial "a: SECCOMP_RET_TRAP differs in types_other.go only" sed -i 's/SECCOMP_RET_TRAP         = 0x30000/SECCOMP_RET_TRAP         = 0x20000/' internal/unix/types_other.go
trial "b: non-linux Supported() returns true" sed -i '/^func Supported() bool {/,/^}/ s/return false/return true/' seccomp_unsupported.go
trial "c: os.Getpid() inside the LoadFilter stub" sed -i -e 's/^package seccomp$/package seccomp\n\nimport "os"/' -e 's/^func LoadFilter(_ Filter) error {$/func LoadFilter(_ Filter) error {\n\t_ = os.Getpid()/' seccomp_unsupported.go
trial "d: ENOSYS changed in types_other.go" sed -i 's/ENOSYS = 0x26/ENOSYS = 0x59/' internal/unix/types_other.go
trial "e: ENOSYS hard-coded to 38 in types_linux.go (wrong on MIPS)" sed -i 's/ENOSYS = linux.ENOSYS/ENOSYS = 0x26/' internal/unix/types_linux.go
trial "f: constant missing from types_other.go (non-linux targets stop building)" sed -i 's/^const PR_SET_NO_NEW_PRIVS = 0x26/const PR_SET_NO_NEW_PRIVS_X = 0x26/' internal/unix/types_other.go
trial "g: GetInfo no longer rejects table-less architectures" sed -i 's/if !found || len(arch.SyscallNames) == 0 {/if !found {/' arch/info.go
trial "h: FilterFlagLog defined with the wrong value in constants.go (all targets)" sed -i 's/FilterFlagLog FilterFlag = unix.SECCOMP_FILTER_FLAG_LOG/FilterFlagLog FilterFlag = unix.SECCOMP_FILTER_FLAG_LOG << 1/' constants.go
rm -rf "$M" "$V"/harness/go.alt.*
echo "=== unchanged /repo"
( cd "$V" && timeout 900 bin/check C19; echo "exit=$?" )
