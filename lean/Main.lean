import Seccomp.Model.Spec
import Seccomp.Model.Oracle
import Seccomp.Model.Chain
import Seccomp.Gen.Tables
import Seccomp.Model.Arch
import Seccomp.Driver.Disasm
import Std.Data.HashMap
import Seccomp.Driver.Loader
import Seccomp.Driver.Raw
import Seccomp.Driver.Text
import Seccomp.Driver.Cache
import Seccomp.Driver.Profile
/-!
# Line-protocol driver of the executable model (`lean_exe model`)

One request per line on stdin, one reply per line on stdout (DESIGN.md, Appendix C).
Names travel hex-encoded and stay hex-encoded inside the driver (the model only looks
names up and compares them, and the table keys are hex-encoded the same way), so any
byte string is a legal name.
-/

open Std

def hexDigit (n : Nat) : Char := if n < 10 then Char.ofNat (48 + n) else Char.ofNat (87 + n)

def hexOfString (s : String) : String :=
  if s.isEmpty then "-" else
  s.toUTF8.foldl (fun acc b => (acc.push (hexDigit (b.toNat / 16))).push (hexDigit (b.toNat % 16))) ""

def unhexDigit (c : Char) : Option Nat :=
  if '0' ≤ c ∧ c ≤ '9' then some (c.toNat - 48)
  else if 'a' ≤ c ∧ c ≤ 'f' then some (c.toNat - 87)
  else none

def bytesOfHex (s : String) : Option ByteArray :=
  if s = "-" then some ByteArray.empty else
  let rec go (cs : List Char) (acc : ByteArray) : Option ByteArray :=
    match cs with
    | [] => some acc
    | a :: b :: rest => do
      let x ← unhexDigit a
      let y ← unhexDigit b
      go rest (acc.push (UInt8.ofNat (x * 16 + y)))
    | _ => none
  go s.toList ByteArray.empty

def stringOfHex (s : String) : Option String := do
  let b ← bytesOfHex s
  String.fromUTF8? b

/-! ## token parser -/

abbrev P := StateT (List String) Option

def tok : P String := do
  match (← get) with
  | [] => failure
  | t :: rest => set rest; pure t

def nat : P Nat := do
  let t ← tok
  match t.toNat? with
  | some n => pure n
  | none => failure

def rep {α} (n : Nat) (p : P α) : P (List α) :=
  match n with
  | 0 => pure []
  | n+1 => do let x ← p; let xs ← rep n p; pure (x :: xs)

def counted {α} (p : P α) : P (List α) := do let n ← nat; rep n p

def pCond : P Condition := do
  let arg ← nat
  let opHex ← tok
  let val ← nat
  let op ← (match stringOfHex opHex with | some s => pure s | none => failure : P String)
  pure { arg := arg, op := op, val := BitVec.ofNat 64 val }

def pNameConds : P NameConds := do
  let name ← tok
  let conds ← counted pCond
  pure { name := name, conds := conds }

def pGroup : P Group := do
  let action ← nat
  let names ← counted tok
  let wc ← counted pNameConds
  pure { names := names, withConds := wc, action := BitVec.ofNat 32 action }

def pPolicy : P Policy := do
  let d ← nat
  let gs ← counted pGroup
  pure { default := BitVec.ofNat 32 d, groups := gs }

def pEndian : P Endian := do
  match (← tok) with
  | "le" => pure .little
  | "be" => pure .big
  | _ => failure

def condOfString : String → Option Cond
  | "eq" => some .eq | "ne" => some .ne | "gt" => some .gt | "lt" => some .lt
  | "ge" => some .ge | "le" => some .le | "set" => some .set | "nset" => some .nset
  | _ => none

def Cond.name : Cond → String
  | .eq => "eq" | .ne => "ne" | .gt => "gt" | .lt => "lt"
  | .ge => "ge" | .le => "le" | .set => "set" | .nset => "nset"

def Instr.render : Instr → String
  | .ld off => s!"ld:{off}"
  | .jif c k jt jf => s!"jif:{c.name}:{k.toNat}:{jt}:{jf}"
  | .ja n => s!"ja:{n}"
  | .ret k => s!"ret:{k.toNat}"

def pInstr : P Instr := do
  let t ← tok
  match t.splitOn ":" with
  | ["ld", off] => (match off.toNat? with | some o => pure (.ld o) | none => failure)
  | ["jif", c, k, jt, jf] =>
    (match condOfString c, k.toNat?, jt.toNat?, jf.toNat? with
     | some c, some k, some jt, some jf => pure (.jif c (BitVec.ofNat 32 k) jt jf)
     | _, _, _, _ => failure)
  | ["ja", n] => (match n.toNat? with | some n => pure (.ja n) | none => failure)
  | ["ret", k] => (match k.toNat? with | some k => pure (.ret (BitVec.ofNat 32 k)) | none => failure)
  | _ => failure

def renderProg (p : List Instr) : String :=
  p.foldl (fun acc i => acc ++ " " ++ i.render) s!"OK {p.length}"

def Problem.render : Problem → String
  | .duplicate n => s!"duplicate {n}"
  | .unknown n => s!"unknown {n}"
  | .mixed n => s!"mixed {n}"
  | .argument a => s!"argument {a}"
  | .operation o => s!"operation {hexOfString o}"

def CErr.render : CErr → String
  | .default => "ERR default"
  | .empty => "ERR empty"
  | .arch => "ERR arch"
  | .problems ps => ps.foldl (fun acc p => acc ++ " " ++ p.render) "ERR problems"
  | .asm .useless => "ERR useless"
  | .asm .backward => "ERR backward"

/-! ## architectures (regenerated tables behind hash maps, keys hex-encoded) -/

structure Arches where
  infos : HashMap String ArchInfo

/-- `invert`: a name that occurs twice would make the Go result depend on map order; the model
    takes the last one (C12 proves there is none) -/
def mkMap (tbl : List (Nat × String)) : HashMap String Nat :=
  tbl.foldl (fun m (n, s) => m.insert (hexOfString s) n) {}

def tableByName (n : String) : List (Nat × String) :=
  if n = "syscallsARM" then Gen.syscallsARM
  else if n = "syscallsAARCH64" then Gen.syscallsAARCH64
  else if n = "syscalls386" then Gen.syscalls386
  else if n = "syscallsX32" then Gen.syscallsX32
  else if n = "syscallsX86_64" then Gen.syscallsX86_64
  else []

def mkArches : IO Arches := do
  let mut infos : HashMap String ArchInfo := {}
  for r in Gen.archRows do
    -- the map is built once, here; the closure below only captures it
    let m := mkMap (tableByName r.names)
    IO.eprint ""   -- keep this block in IO so that `m` is evaluated before the closure is created
    infos := infos.insert r.name { name := r.name, id := BitVec.ofNat 32 r.id, mask := r.mask,
                                   lookup := fun k => m.get? k }
  return { infos := infos }

/-- the architecture token of a request: an `Info.Name`, or `none` (= `GetInfo` failed) -/
def pArch (A : Arches) : P (Option ArchInfo) := do
  let t ← tok
  if t = "none" then pure none
  else match A.infos.get? t with
    | some a => pure (some a)
    | none => failure

/-! ## builder stream (public API of assembler.go, integer labels) -/

/-- Labels of the builder stream are Go `Label` values (`int`).  `NewLabel` increments a counter that
    starts at 1 and returns the new value; `JmpIfTrue` draws its fall-through label from the same
    counter, so the driver threads the counter through the call sequence. -/
abbrev BL := Int

def pInt : P Int := do
  let t ← tok
  match t.toInt? with
  | some n => pure n
  | none => failure

def wrap32 (n : Nat) : Nat := n % 4294967296

/-- one builder call: the tokens it appends and the new value of the label counter -/
def pCall (e : Endian) (ctr : Int) : P (List (Tok BL) × Int) := do
  let t ← tok
  match t.splitOn ":" with
  | ["new"] => pure ([], ctr + 1)
  | ["set", l] => (match l.toInt? with | some l => pure ([.lab l], ctr) | none => failure)
  | ["jif", c, k, tl, fl] =>
    (match condOfString c, k.toNat?, tl.toInt?, fl.toInt? with
     | some c, some k, some tl, some fl => pure ([.ins (.jif c (BitVec.ofNat 32 k) tl fl)], ctr)
     | _, _, _, _ => failure)
  | ["jt", c, k, tl] =>
    (match condOfString c, k.toNat?, tl.toInt? with
     | some c, some k, some tl =>
       pure ([.ins (.jif c (BitVec.ofNat 32 k) tl (ctr + 1)), .lab (ctr + 1)], ctr + 1)
     | _, _, _ => failure)
  | ["ret", a] => (match a.toNat? with | some a => pure ([.ins (.ret (enc (BitVec.ofNat 32 a)))], ctr) | none => failure)
  | ["ldhi", i] => (match i.toNat? with
     | some i => pure ([.ins (.ld (wrap32 ((Layout.ofEndian e).hiOff i)))], ctr) | none => failure)
  | ["ldlo", i] => (match i.toNat? with
     | some i => pure ([.ins (.ld (wrap32 ((Layout.ofEndian e).loOff i)))], ctr) | none => failure)
  | _ => failure

def pCalls (e : Endian) : Nat → Int → P (List (Tok BL))
  | 0, _ => pure []
  | n+1, ctr => do
    let (t, ctr') ← pCall e ctr
    let rest ← pCalls e n ctr'
    pure (t ++ rest)

/-! ## requests -/

def handle (A : Arches) (line : String) : String :=
  let toks := (line.splitOn " ").filter (· ≠ "")
  match toks with
  | "P" :: rest =>
    let p : P String := do
      let arch ← pArch A
      let e ← pEndian
      let pol ← pPolicy
      match assemblePolicy arch (Layout.ofEndian e) pol with
      | .ok prog => pure (renderProg prog)
      | .error err => pure err.render
    (match p.run rest with
     | some (r, []) => r
     | _ => "BAD-REQUEST")
  | "B" :: rest =>
    let p : P String := do
      let e ← pEndian
      let n ← nat
      let toks ← pCalls e n 1
      match assemble toks with
      | .ok prog => pure (renderProg prog)
      | .error .useless => pure "ERR useless"
      | .error .backward => pure "ERR backward"
    (match p.run rest with
     | some (r, []) => r
     | _ => "BAD-REQUEST")
  | "Y" :: rest =>
    -- oracle for the builder: Y endian ncalls call* n instr*
    let p : P String := do
      let e ← pEndian
      let n ← nat
      let toks ← pCalls e n 1
      let prog ← counted pInstr
      pure (Oracle.checkBuilder toks prog)
    (match p.run rest with
     | some (r, []) => r
     | _ => "BAD-REQUEST")
  | "X" :: rest =>
    -- oracle: run the implementation's program against the specification on the event partition
    let p : P String := do
      let arch ← pArch A
      let e ← pEndian
      let pol ← pPolicy
      let prog ← counted pInstr
      match arch with
      | none => pure "SKIP no-arch"
      | some a => pure (Oracle.check a e pol prog)
    (match p.run rest with
     | some (r, []) => r
     | _ => "BAD-REQUEST")
  | "XE" :: rest =>
    -- the oracle's event partition with the specification's decisions (XE arch policy plen limit nconsts const…)
    let p : P String := do
      let arch ← pArch A
      let pol ← pPolicy
      let plen ← nat
      let limit ← nat
      let consts ← counted nat
      match arch with
      | none => pure "SKIP no-arch"
      | some a => pure (Oracle.expectations a pol consts plen limit)
    (match p.run rest with
     | some (r, []) => r
     | _ => "BAD-REQUEST")
  | "S" :: rest =>
    -- specification only: decision for one event  (S arch default groups… nr archword a0 … a5)
    let p : P String := do
      let arch ← pArch A
      let pol ← pPolicy
      let nr ← nat
      let aw ← nat
      let args ← rep 6 nat
      match arch with
      | none => pure "SKIP no-arch"
      | some a =>
        let ev : Event := { nr := BitVec.ofNat 32 nr, arch := BitVec.ofNat 32 aw, ip := 0,
                            args := fun i => BitVec.ofNat 64 (args.getD i 0) }
        pure s!"DEC {(Spec.decision a pol ev).toNat}"
    (match p.run rest with
     | some (r, []) => r
     | _ => "BAD-REQUEST")
  | "V" :: rest =>
    -- run a program on one event:  V endian n instr… nr archword a0 … a5
    let p : P String := do
      let e ← pEndian
      let prog ← counted pInstr
      let nr ← nat
      let aw ← nat
      let args ← rep 6 nat
      let ev : Event := { nr := BitVec.ofNat 32 nr, arch := BitVec.ofNat 32 aw, ip := 0,
                          args := fun i => BitVec.ofNat 64 (args.getD i 0) }
      match run (words e ev) prog 0#32 with
      | .ret k => pure s!"RET {k.toNat}"
      | .exit a => pure s!"EXIT {a.toNat}"
      | .stuck => pure "STUCK"
    (match p.run rest with
     | some (r, []) => r
     | _ => "BAD-REQUEST")
  | "CH" :: rest =>
    -- the kernel's loop over the return values of a chain of filters, newest first (CH n v1 … vn)
    (match (counted nat).run rest with
     | some (vs, []) => s!"CHAIN {(Chain.chain (vs.map (BitVec.ofNat 32))).toNat}"
     | _ => "BAD-REQUEST")
  | "H" :: rest => Driver.Loader.handle rest
  | "R" :: rest =>
    (match (counted pInstr).run rest with
     | some (prog, []) => Driver.Raw.handleR prog
     | _ => "BAD-REQUEST")
  | "K" :: rest => Driver.Raw.handleK rest
  | "D" :: rest => DisasmDriver.handle rest
  | ["GI", g, n] =>
    -- the reference `Arch.getInfo` (C12): GI <hex GOARCH> <hex name>  →  OK <Info.Name> <table length> | ERR <hex key> | NOT-UTF8
    (match stringOfHex g, stringOfHex n with
     | some goarch, some name =>
       (match Arch.getInfo goarch name with
        | .ok r => s!"OK {r.name} {(Arch.tableOf r.table).length}"
        | .error (.unsupported key) => s!"ERR {hexOfString key}")
     | _, _ => "NOT-UTF8")
  | "TXT" :: rest => Driver.Text.handle rest
  | "CACHE" :: rest => Driver.Cache.handle rest
  | "F" :: rest => Driver.Profile.handle (fun a => (A.infos.get? a).map (·.lookup)) rest
  | _ => "BAD-REQUEST"

partial def loop (A : Arches) (hin hout : IO.FS.Stream) : IO Unit := do
  let line ← hin.getLine
  if line.isEmpty then return ()
  let l := (line.dropEndWhile (fun c => c = '\n' || c = '\r')).toString
  hout.putStrLn (handle A l)
  hout.flush
  loop A hin hout

def main : IO Unit := do
  let A ← mkArches
  loop A (← IO.getStdin) (← IO.getStdout)
