def hello := "world"
