import Seccomp.Gen.SandboxSkeleton
/-!
# C15 — the sandbox command runs its target only under the loaded policy  (partial)

Theorems about `Gen.sandboxMain`, the rendering of `main` of cmd/sandbox that `vextract` regenerates on
every run, for every world: every outcome of reading the policy file, every answer of `LoadFilter`,
every target command.  What a nil result of `LoadFilter` means is C09; that the loaded filter decides
as the policy says is C01/C08; that a child image started by `exec` inherits the filter is kernel
behaviour (assumed; exercised by the live runs of the built binary).
-/

namespace C15

/-- **Tie to the specification used by the live runs**: the regenerated `main` does exactly what
    `SandboxSpec.main` does, for every world and every behaviour of untranslated statements. -/
theorem translator_tie (U : SUnsupported) (w : SWorld) : Gen.sandboxMain U w = SandboxSpec.main w := by
  first
  | rfl
  | -- an equivalent arrangement of the same steps: by cases on every outcome the world can produce
    (unfold Gen.sandboxMain SandboxSpec.main
     simp only [parsePolicyS, loadFilterS, cmdRun, execCommand]
     obtain ⟨args, nnp, parseOk, loadOk, runOk, events⟩ := w
     cases args <;> cases parseOk <;> cases loadOk <;> cases runOk <;> simp)

/-- the translator rendered every statement of `main` -/
theorem skeleton_complete : Gen.sandboxNotes = [] := by decide

/-- **The target is started only after the policy file was parsed and the filter installed**, in this
    order, and thread-sync with the requested no_new_privs setting is what was asked of `LoadFilter`. -/
theorem exec_only_after_load (U : SUnsupported) (w : SWorld) (hw : w.events = [])
    (h : SEvent.targetStarted ∈ (Gen.sandboxMain U w).2.events) :
    w.parseOk = true ∧ w.loadOk = true ∧
    (Gen.sandboxMain U w).2.events = [.targetStarted, .loadCalled w.noNewPrivsFlag 1 true, .parsed true] := by
  rw [translator_tie] at h ⊢
  unfold SandboxSpec.main at h ⊢
  simp only [parsePolicyS, loadFilterS, cmdRun] at h ⊢
  obtain ⟨args, nnp, parseOk, loadOk, runOk, events⟩ := w
  simp only at hw h ⊢
  subst hw
  by_cases ha : args.length = 0
  · simp [ha] at h
  · cases parseOk <;> cases loadOk <;> cases runOk <;> simp [ha] at h ⊢

/-- **Every failure before exec exits non-zero without running the target**: no command given, policy
    file not parsed (missing, malformed, unknown action …), filter not installed (unknown syscall,
    kernel refusal — `LoadFilter` reports these as errors by C07/C09). -/
theorem failure_exits_nonzero (U : SUnsupported) (w : SWorld) (hw : w.events = [])
    (hf : w.args.length = 0 ∨ w.parseOk = false ∨ w.loadOk = false) :
    (Gen.sandboxMain U w).1 = .exit 1 ∧ SEvent.targetStarted ∉ (Gen.sandboxMain U w).2.events := by
  rw [translator_tie]
  unfold SandboxSpec.main
  simp only [parsePolicyS, loadFilterS, cmdRun]
  obtain ⟨args, nnp, parseOk, loadOk, runOk, events⟩ := w
  simp only at hw hf ⊢
  subst hw
  by_cases ha : args.length = 0
  · simp [ha]
  · cases parseOk <;> cases loadOk <;> cases runOk <;> simp [ha] at hf ⊢

/-- when everything succeeds the target runs and the command's status is the target's -/
theorem success_runs_target (U : SUnsupported) (w : SWorld) (ha : w.args.length ≠ 0)
    (hp : w.parseOk = true) (hl : w.loadOk = true) :
    SEvent.targetStarted ∈ (Gen.sandboxMain U w).2.events ∧
    (Gen.sandboxMain U w).1 = (if w.runOk then .returned else .exit 1) := by
  rw [translator_tie]
  unfold SandboxSpec.main
  simp only [parsePolicyS, loadFilterS, cmdRun, ha, hp, hl, if_true, if_false, ne_eq, not_true_eq_false]
  cases w.runOk <;> simp

/-- the policy is read through the documented configuration path (go-ucfg YAML file, then Unpack) -/
theorem config_path : Gen.parsePolicyCalls = ["yaml.NewConfigWithFile", "conf.Unpack"] := by decide

/-! ### non-vacuity -/

def goodRun : SWorld := { args := ["/bin/true"], noNewPrivsFlag := true, parseOk := true, loadOk := true, runOk := true }
def badPolicy : SWorld := { goodRun with parseOk := false }

theorem goodRun_example : (Gen.sandboxMain ⟨fun _ w => w⟩ goodRun).1 = .returned ∧
    SEvent.targetStarted ∈ (Gen.sandboxMain ⟨fun _ w => w⟩ goodRun).2.events := by decide
theorem badPolicy_example : (Gen.sandboxMain ⟨fun _ w => w⟩ badPolicy).1 = .exit 1 := by decide

end C15
