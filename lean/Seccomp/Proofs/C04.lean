import Seccomp.Proofs.C01
/-!
# C04 — foreign-architecture and x32 events never reach the rules
-/

namespace C04

/-- **Foreign architecture ⇒ default action**, whatever the number and the arguments, for programs of
    every size (both encodings of the architecture jump are covered by `prologue_spec`). -/
theorem foreign_arch_default (A : ArchInfo) (e : Endian) (p : Policy) (prog : List Instr)
    (h : assemblePolicy (some A) (Layout.ofEndian e) p = .ok prog) (ev : Event) (hf : ev.arch ≠ A.id) (a0 : Word) :
    run (words e ev) prog a0 = .ret (enc p.default) := by
  rw [C01.compile_correct A e p prog h ev a0]
  simp [Spec.decision, hf]

/-- **x32 ⇒ ERRNO(ENOSYS) on x86_64**, whatever the policy contains. -/
theorem x32_enosys (A : ArchInfo) (e : Endian) (p : Policy) (prog : List Instr)
    (h : assemblePolicy (some A) (Layout.ofEndian e) p = .ok prog) (ev : Event)
    (hx : A.id = auditArchX86_64) (ha : ev.arch = A.id) (hn : ev.nr.toNat ≥ 0x40000000) (a0 : Word) :
    run (words e ev) prog a0 = .ret 0x00050026#32 := by
  rw [C01.compile_correct A e p prog h ev a0]
  simp [Spec.decision, ha, hx, hn, Spec.enosys]

/-- the value is SECCOMP_RET_ERRNO | ENOSYS(38) -/
theorem enosys_value : (0x00050026#32 : Word) = actErrno ||| 38#32 := by decide

/-- the guard exists on x86_64 only: elsewhere numbers ≥ 0x40000000 are ordinary numbers -/
theorem no_x32_guard_elsewhere (A : ArchInfo) (ev : Event) (hx : A.id ≠ auditArchX86_64) (ha : ev.arch = A.id) :
    C01.Native A ev := ⟨ha, fun h => hx h.1⟩

/-- **The prologue alone** (independent of the group proofs): whatever code `pre` the groups produced,
    and for both forms of the architecture jump (8-bit skip up to 255, `jeq; ja` beyond), a foreign
    architecture lands on the final return and an x32 number on the ENOSYS return. -/
theorem prologue (w : Nat → Word) (ar : ArchI) (pre : List Instr) (d : Word) (a0 : Word) :
    run w (policyProg ar (pre ++ [.ret d])) a0 =
      if w 4 ≠ ar.id then .ret d
      else if ar.x86 = true ∧ x32Bit.ule (w 0) = true then .ret enosys
      else run w (pre ++ [.ret d]) (w 0) :=
  prologue_spec w ar pre d a0

/-- the two forms of the architecture jump, at the boundary -/
theorem arch_jump_forms (ar : ArchI) (body : List Instr) :
    ((x32Filter ar.x86 ++ body).length ≤ 255 →
      (policyProg ar body).take 2 = [.ld 4, .jif .ne ar.id (x32Filter ar.x86 ++ body).length 0]) ∧
    (¬ (x32Filter ar.x86 ++ body).length ≤ 255 →
      (policyProg ar body).take 3 = [.ld 4, .jif .eq ar.id 1 0, .ja (x32Filter ar.x86 ++ body).length]) := by
  constructor <;> intro h <;> simp only [policyProg, h, if_true, if_false] <;> rfl

/-! ### non-vacuity -/

def x86 : ArchInfo := { C01.tinyArch with id := auditArchX86_64, name := "x86_64" }

def x32Event : Event := { nr := 0x40000001#32, arch := auditArchX86_64, ip := 0#64, args := fun _ => 0#64 }
def foreignEvent : Event := { nr := 1#32, arch := 0x40000003#32, ip := 0#64, args := fun _ => 0#64 }

theorem accepted : (assemblePolicy (some x86) (Layout.ofEndian .little) C01.twoGroups).toOption.isSome = true := by
  decide +kernel
theorem x32Event_hyp : x86.id = auditArchX86_64 ∧ x32Event.arch = x86.id ∧ x32Event.nr.toNat ≥ 0x40000000 := by decide
theorem foreignEvent_hyp : foreignEvent.arch ≠ x86.id := by decide

end C04
