import Seccomp.Proofs.Lemmas.Origin
import Seccomp.Model.Policy
/-!
# Loads and returns of a group's label program
-/

variable (ly : Layout)

/-- the argument indices an entry's conditions read -/
def Entry.args : Entry → List Nat
  | .uncond _ => []
  | .cond _ lists => (lists.flatten).map (·.arg)

/-- a token that is neither a return nor a raw jump, and whose load (if it is one) satisfies `P` -/
def TokLd (P : Nat → Prop) : Tok PL → Prop
  | .ins (.ld off) => P off
  | .ins (.ret _) => False
  | .ins (.ja _) => False
  | _ => True

theorem TokLd_mono {P Q : Nat → Prop} (h : ∀ o, P o → Q o) (t : Tok PL) (ht : TokLd P t) : TokLd Q t := by
  cases t with
  | lab l => trivial
  | ins i => cases i <;> simp only [TokLd] at ht ⊢ <;> first | exact h _ ht | exact ht | trivial

theorem condToks_shape (e l c : Nat) (cnd : Cnd) (m : PL) :
    ∀ t ∈ condToks ly e l c cnd m, TokLd (fun o => o = ly.hiOff cnd.arg ∨ o = ly.loOff cnd.arg) t := by
  unfold condToks
  cases hop : cnd.op <;> simp [jt, TokLd]

theorem condsToks_shape (e l : Nat) : ∀ (conds : List Cnd) (c : Nat),
    ∀ t ∈ condsToks ly e l c conds, TokLd (fun o => ∃ cnd ∈ conds, o = ly.hiOff cnd.arg ∨ o = ly.loOff cnd.arg) t
  | [], _ => by intro t ht; simp [condsToks] at ht
  | [cnd], c => by
    intro t ht
    simp only [condsToks] at ht
    exact TokLd_mono (fun o ho => ⟨cnd, List.mem_cons_self, ho⟩) t (condToks_shape ly e l c cnd _ t ht)
  | cnd :: cnd2 :: tl, c => by
    intro t ht
    simp only [condsToks, List.mem_append] at ht
    rcases ht with h | h
    · exact TokLd_mono (fun o ho => ⟨cnd, List.mem_cons_self, ho⟩) t (condToks_shape ly e l c cnd _ t h)
    · exact TokLd_mono (fun o ⟨x, hx, ho⟩ => ⟨x, List.mem_cons_of_mem _ hx, ho⟩) t
        (condsToks_shape e l (cnd2 :: tl) (c+1) t h)

theorem listsToks_shape (e : Nat) : ∀ (lists : List (List Cnd)) (l : Nat),
    ∀ t ∈ listsToks ly e l lists,
      TokLd (fun o => ∃ cnd ∈ lists.flatten, o = ly.hiOff cnd.arg ∨ o = ly.loOff cnd.arg) t
  | [], _ => by intro t ht; simp [listsToks] at ht
  | conds :: rest, l => by
    intro t ht
    simp only [listsToks, List.mem_append, List.mem_cons, List.not_mem_nil, or_false] at ht
    rcases ht with (h | h) | h
    · exact TokLd_mono (fun o ⟨x, hx, ho⟩ => ⟨x, by simp [hx], ho⟩) t (condsToks_shape ly e l conds 0 t h)
    · subst h; trivial
    · exact TokLd_mono (fun o ⟨x, hx, ho⟩ => ⟨x, by simp [hx], ho⟩) t (listsToks_shape e rest (l+1) t h)

theorem entryToks_shape (e : Nat) (ent : Entry) :
    ∀ t ∈ entryToks ly e ent, TokLd (fun o => o = 0 ∨ ∃ a ∈ ent.args, o = ly.hiOff a ∨ o = ly.loOff a) t := by
  intro t ht
  cases ent with
  | uncond num =>
    simp only [entryToks, jt, List.mem_cons, List.not_mem_nil, or_false] at ht
    rcases ht with h | h <;> subst h <;> trivial
  | cond num lists =>
    simp only [entryToks, jt, List.mem_append, List.mem_cons, List.not_mem_nil, or_false] at ht
    rcases ht with ((h | h) | h) | (h | h)
    · subst h; trivial
    · subst h; trivial
    · refine TokLd_mono (fun o ⟨x, hx, ho⟩ => .inr ⟨x.arg, ?_, ho⟩) t (listsToks_shape ly e lists 0 t h)
      simp only [Entry.args, List.mem_map]
      exact ⟨x, hx, rfl⟩
    · subst h; simp [TokLd]
    · subst h; trivial

theorem entriesToks_shape : ∀ (ents : List Entry) (e : Nat),
    ∀ t ∈ entriesToks ly e ents,
      TokLd (fun o => o = 0 ∨ ∃ ent ∈ ents, ∃ a ∈ ent.args, o = ly.hiOff a ∨ o = ly.loOff a) t
  | [], _ => by intro t ht; simp [entriesToks] at ht
  | ent :: more, e => by
    intro t ht
    simp only [entriesToks, List.mem_append] at ht
    rcases ht with h | h
    · refine TokLd_mono (fun o ho => ?_) t (entryToks_shape ly e ent t h)
      rcases ho with h0 | ⟨a, ha, ho⟩
      · exact .inl h0
      · exact .inr ⟨ent, List.mem_cons_self, a, ha, ho⟩
    · refine TokLd_mono (fun o ho => ?_) t (entriesToks_shape more (e+1) t h)
      rcases ho with h0 | ⟨x, hx, a, ha, ho⟩
      · exact .inl h0
      · exact .inr ⟨x, List.mem_cons_of_mem _ hx, a, ha, ho⟩

/-- **Loads and returns of a compiled group**: every load reads the syscall number or a half of an
    argument some condition of the group mentions, and the only return value is the group's. -/
theorem group_out_shape (ents : List Entry) (r : Word) (out : List Instr)
    (h : assemble (groupToks ly ents r) = .ok out) :
    (∀ off, Instr.ld off ∈ out → off = 0 ∨ ∃ ent ∈ ents, ∃ a ∈ ent.args, off = ly.hiOff a ∨ off = ly.loOff a) ∧
    (∀ k, Instr.ret k ∈ out → k = r) := by
  have ho := assemble_origin _ out h
  constructor
  · intro off hm
    have := ho _ hm
    simp only [FromProg, groupToks, List.mem_append, List.mem_cons, List.not_mem_nil, or_false] at this
    rcases this with h1 | h1 | h1 | h1
    · exact entriesToks_shape ly ents 0 _ h1
    · cases h1
    · cases h1
    · cases h1
  · intro k hm
    have := ho _ hm
    simp only [FromProg, groupToks, List.mem_append, List.mem_cons, List.not_mem_nil, or_false] at this
    rcases this with h1 | h1 | h1 | h1
    · exact absurd (entriesToks_shape ly ents 0 _ h1) (by simp [TokLd])
    · cases h1
    · cases h1
    · simp only [Tok.ins.injEq, LInstr.ret.injEq] at h1; exact h1
