import Seccomp.Model.Lower
/-! ### 64-bit facts -/
theorem toNat_split (a : BitVec 64) : a.toNat = (hi a).toNat * 2^32 + (lo a).toNat := by
  simp [hi, lo, BitVec.extractLsb'_toNat]; omega

theorem eq_split (a v : BitVec 64) : (a = v) ↔ (hi a = hi v ∧ lo a = lo v) := by
  have ha := toNat_split a; have hv := toNat_split v
  have h1 := (hi a).isLt; have h2 := (lo a).isLt; have h3 := (hi v).isLt; have h4 := (lo v).isLt
  simp only [← BitVec.toNat_inj]; omega

theorem ult_split (v a : BitVec 64) :
    v.ult a = ((hi v).ult (hi a) || (hi a == hi v && (lo v).ult (lo a))) := by
  have ha := toNat_split a; have hv := toNat_split v
  have h1 := (hi a).isLt; have h2 := (lo a).isLt; have h3 := (hi v).isLt; have h4 := (lo v).isLt
  rw [Bool.eq_iff_iff]
  simp only [BitVec.ult, decide_eq_true_eq, Bool.or_eq_true, Bool.and_eq_true, beq_iff_eq, ← BitVec.toNat_inj]
  omega

theorem ule_split (v a : BitVec 64) :
    v.ule a = ((hi v).ult (hi a) || (hi a == hi v && (lo v).ule (lo a))) := by
  have ha := toNat_split a; have hv := toNat_split v
  have h1 := (hi a).isLt; have h2 := (lo a).isLt; have h3 := (hi v).isLt; have h4 := (lo v).isLt
  rw [Bool.eq_iff_iff]
  simp only [BitVec.ult, BitVec.ule, decide_eq_true_eq, Bool.or_eq_true, Bool.and_eq_true, beq_iff_eq, ← BitVec.toNat_inj]
  omega

theorem hi_and (a v : BitVec 64) : hi (a &&& v) = hi a &&& hi v := by
  unfold hi; ext i h; simp
theorem lo_and (a v : BitVec 64) : lo (a &&& v) = lo a &&& lo v := by
  unfold lo; ext i h; simp
theorem hi_zero : hi 0#64 = 0#32 := by unfold hi; ext i h; simp
theorem lo_zero : lo 0#64 = 0#32 := by unfold lo; ext i h; simp

theorem and_zero_split (a v : BitVec 64) : (a &&& v = 0#64) ↔ (hi a &&& hi v = 0#32 ∧ lo a &&& lo v = 0#32) := by
  rw [eq_split, hi_and, lo_and, hi_zero, lo_zero]

/-- what each operation means on the halves -/
theorem holds_halves (c : Cnd) (args : Nat → BitVec 64) :
    c.holds args =
      let ah := hi (args c.arg); let al := lo (args c.arg); let vh := hi c.val; let vl := lo c.val
      match c.op with
      | .eq => !(ah != vh) && (al == vl)
      | .ne => (ah != vh) || (al != vl)
      | .gt => vh.ult ah || (!(ah != vh) && vl.ult al)
      | .ge => vh.ult ah || (!(ah != vh) && vl.ule al)
      | .lt => ah.ult vh || (!(ah != vh) && al.ult vl)
      | .le => ah.ult vh || (!(ah != vh) && al.ule vl)
      | .set => ((ah &&& vh) != 0#32) || ((al &&& vl) != 0#32)
      | .nset => !((ah &&& vh) != 0#32) && ((al &&& vl) == 0#32) := by
  unfold Cnd.holds
  cases c.op <;> simp only
  · rw [Bool.eq_iff_iff]; simp [eq_split]
  · rw [Bool.eq_iff_iff]; simp [eq_split]; 
    constructor
    · intro h; by_cases hh : hi (args c.arg) = hi c.val
      · exact .inr (h hh)
      · exact .inl hh
    · rintro (h | h) hh
      · exact absurd hh h
      · exact h
  · rw [ult_split]; simp [bne]
  · rw [ult_split, show (hi c.val == hi (args c.arg)) = (hi (args c.arg) == hi c.val) from by
      rw [Bool.eq_iff_iff, beq_iff_eq, beq_iff_eq]; exact eq_comm]; simp [bne]
  · rw [ule_split]; simp [bne]
  · rw [ule_split, show (hi c.val == hi (args c.arg)) = (hi (args c.arg) == hi c.val) from by
      rw [Bool.eq_iff_iff, beq_iff_eq, beq_iff_eq]; exact eq_comm]; simp [bne]
  · rw [Bool.eq_iff_iff]; simp only [bne_iff_ne, ne_eq, Bool.or_eq_true]
    rw [and_zero_split]
    constructor
    · intro h; by_cases hh : hi (args c.arg) &&& hi c.val = 0#32
      · exact .inr (fun hl => h ⟨hh, hl⟩)
      · exact .inl hh
    · rintro (h | h) ⟨h1, h2⟩
      · exact h h1
      · exact h h2
  · rw [Bool.eq_iff_iff]; simp only [bne_iff_ne, ne_eq, Bool.and_eq_true, Bool.not_eq_true', beq_iff_eq]
    rw [and_zero_split]; simp
