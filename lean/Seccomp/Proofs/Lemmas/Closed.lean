import Seccomp.Proofs.Lemmas.AsmComplete

/-- every jump of `p` lands inside `p` or exactly at its end -/
def InBounds : List Instr → Prop
  | [] => True
  | .jif _ _ jt jf :: rest => jt ≤ rest.length ∧ jf ≤ rest.length ∧ InBounds rest
  | .ja n :: rest => n ≤ rest.length ∧ InBounds rest
  | _ :: rest => InBounds rest

theorem InBounds_tail (i : Instr) (rest : List Instr) (h : InBounds (i :: rest)) : InBounds rest := by
  cases i <;> simp only [InBounds] at h <;> first | exact h | exact h.2.2 | exact h.2

theorem InBounds_drop : ∀ (n : Nat) (p : List Instr), InBounds p → InBounds (p.drop n)
  | 0, p, h => by simpa using h
  | _+1, [], _ => by simp [InBounds]
  | n+1, i :: rest, h => by simpa using InBounds_drop n rest (InBounds_tail i rest h)

/-- **Concatenation**: a closed piece of code followed by `q` runs the piece and, if it leaves through
    its end, continues with `q` -/
theorem run_append (w : Nat → Word) : ∀ (p q : List Instr) (a : Word), InBounds p →
    run w (p ++ q) a = (run w p a).andThen (run w q)
  | [], q, a, _ => by simp [run_nil, Result.andThen]
  | .ld off :: rest, q, a, h => by
    simp only [List.cons_append, run_ld]; exact run_append w rest q _ h
  | .ret k :: rest, q, a, _ => by simp [run_ret, Result.andThen]
  | .ja n :: rest, q, a, h => by
    simp only [List.cons_append, run_ja]
    have : (rest ++ q).drop n = rest.drop n ++ q := by
      rw [List.drop_append_of_le_length h.1]
    rw [this]; exact run_append w (rest.drop n) q a (InBounds_drop n rest h.2)
  | .jif c k jt jf :: rest, q, a, h => by
    simp only [List.cons_append, run_jif]
    have hle : (if c.eval a k then jt else jf) ≤ rest.length := by split; exact h.1; exact h.2.1
    have : (rest ++ q).drop (if c.eval a k then jt else jf) = rest.drop (if c.eval a k then jt else jf) ++ q := by
      rw [List.drop_append_of_le_length hle]
    rw [this]; exact run_append w _ q a (InBounds_drop _ rest h.2.2)
termination_by p => p.length
decreasing_by all_goals simp_wf <;> (try simp [List.length_drop]) <;> omega

#print axioms run_append


variable {L : Type} [DecidableEq L]

def countIns : List (Tok L) → Nat
  | [] => 0
  | .lab _ :: rest => countIns rest
  | .ins _ :: rest => countIns rest + 1

/-- raw unconditional jumps stay inside the program -/
def JaFit : List (Tok L) → Prop
  | [] => True
  | .ins (.ja n) :: rest => n ≤ countIns rest ∧ JaFit rest
  | _ :: rest => JaFit rest

omit [DecidableEq L] in
theorem JaFit_tail (t : Tok L) (rest : List (Tok L)) (h : JaFit (t :: rest)) : JaFit rest := by
  cases t with
  | lab l => exact h
  | ins i => cases i <;> first | exact h | exact h.2

theorem bridge_inBounds {s s' : St L} {l : L} (h : InBounds s.out) (hb : bridge s l = .ok s') :
    InBounds s'.out ∧ s.out.length ≤ s'.out.length := by
  unfold bridge at hb
  split at hb
  · cases hb
  · split at hb
    · cases hb; exact ⟨h, Nat.le_refl _⟩
    · cases hb
      refine ⟨?_, by simp⟩
      simp only
      split
      · simpa [InBounds] using h
      · simp only [InBounds]; exact ⟨Nat.sub_le _ _, h⟩

theorem step_inBounds {t : Tok L} {rest : List (Tok L)} {s s' : St L} (hja : JaFit (t :: rest))
    (hc : countIns rest ≤ s.out.length) (h : InBounds s.out) (hs : stepTok t s = .ok s') :
    countIns (t :: rest) ≤ s'.out.length ∧ InBounds s'.out := by
  unfold stepTok at hs
  cases t with
  | lab l =>
    simp only at hs
    split at hs <;> (cases hs; exact ⟨hc, h⟩)
  | ins i =>
    cases i with
    | ld off => simp only at hs; cases hs; exact ⟨by simp [countIns]; omega, by simpa [InBounds] using h⟩
    | ret k => simp only at hs; cases hs; exact ⟨by simp [countIns]; omega, by simpa [InBounds] using h⟩
    | ja n =>
      simp only at hs; cases hs
      exact ⟨by simp [countIns]; omega, by simp only [InBounds]; exact ⟨Nat.le_trans hja.1 hc, h⟩⟩
    | jif c k tl fl =>
      simp only at hs
      split at hs
      · cases hs
      · rename_i s1 hb1
        split at hs
        · cases hs
        · rename_i s2 hb2
          split at hs
          · cases hs
          · rename_i s3 hb3
            obtain ⟨i1, l1⟩ := bridge_inBounds h hb1
            obtain ⟨i2, l2⟩ := bridge_inBounds i1 hb2
            obtain ⟨i3, l3⟩ := bridge_inBounds i2 hb3
            split at hs
            · split at hs
              · cases hs
              · cases hs
                exact ⟨by simp [countIns]; omega,
                  by simp only [InBounds]; exact ⟨Nat.sub_le _ _, Nat.sub_le _ _, i3⟩⟩
            · cases hs

theorem asm_inBounds : ∀ (prog : List (Tok L)) (s : St L), JaFit prog → asmT prog = .ok s →
    countIns prog ≤ s.out.length ∧ InBounds s.out
  | [], s, _, h => by simp only [asmT] at h; cases h; exact ⟨Nat.le_refl _, trivial⟩
  | t :: rest, s, hja, h => by
    simp only [asmT] at h
    split at h
    · cases h
    · rename_i s0 h0
      obtain ⟨a, b⟩ := asm_inBounds rest s0 (JaFit_tail t rest hja) h0
      exact step_inBounds hja a b h

/-- what the resolver emits is closed: it can be followed by more code (the next group) -/
theorem assemble_inBounds (prog : List (Tok L)) (out : List Instr) (hja : JaFit prog)
    (h : assemble prog = .ok out) : InBounds out := by
  unfold assemble at h
  cases hs : asmT prog with
  | error e => simp [hs, Except.map] at h
  | ok s =>
    simp only [hs, Except.map, Except.ok.injEq] at h
    subst h
    exact (asm_inBounds prog s hja hs).2
#print axioms assemble_inBounds
