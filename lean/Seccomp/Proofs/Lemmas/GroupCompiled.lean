import Seccomp.Proofs.Lemmas.EntrySpec
import Seccomp.Proofs.Lemmas.Closed

/-! ## from label level to instruction level, groups chained, prologue -/

def isJa : Tok PL → Bool
  | .ins (.ja _) => true
  | _ => false

def NoJa (p : List (Tok PL)) : Prop := ∀ t ∈ p, isJa t = false

theorem JaOkT_append_noJa : ∀ (p q : List (Tok PL)), NoJa p → JaOkT q → JaOkT (p ++ q)
  | [], q, _, h => h
  | t :: rest, q, hn, h => by
    have ih := JaOkT_append_noJa rest q (fun t ht => hn t (List.mem_cons_of_mem _ ht)) h
    have ht := hn t (List.mem_cons_self)
    cases t with
    | lab l => exact ih
    | ins i => cases i <;> first | exact ih | (simp [isJa] at ht)

theorem JaFit_append_noJa : ∀ (p q : List (Tok PL)), NoJa p → JaFit q → JaFit (p ++ q)
  | [], q, _, h => h
  | t :: rest, q, hn, h => by
    have ih := JaFit_append_noJa rest q (fun t ht => hn t (List.mem_cons_of_mem _ ht)) h
    have ht := hn t (List.mem_cons_self)
    cases t with
    | lab l => exact ih
    | ins i => cases i <;> first | exact ih | (simp [isJa] at ht)

theorem NoJa_append {p q : List (Tok PL)} (hp : NoJa p) (hq : NoJa q) : NoJa (p ++ q) := by
  intro t ht; rcases List.mem_append.1 ht with h | h; exact hp t h; exact hq t h

variable (ly : Layout)

theorem noJa_condToks (e l c cnd m) : NoJa (condToks ly e l c cnd m) := by
  have : (condToks ly e l c cnd m).all (fun t => !isJa t) = true := by
    unfold condToks
    cases cnd.op <;> simp [jt, isJa]
  intro t ht
  have := List.all_eq_true.1 this t ht
  simpa using this

theorem noJa_condsToks (e l : Nat) : ∀ (conds : List Cnd) (c : Nat), NoJa (condsToks ly e l c conds)
  | [], _ => by intro t ht; simp [condsToks] at ht
  | [cnd], c => by simpa [condsToks] using noJa_condToks ly e l c cnd .action
  | cnd :: cnd2 :: tl, c => by
    simp only [condsToks]
    exact NoJa_append (noJa_condToks ly _ _ _ _ _) (noJa_condsToks e l (cnd2 :: tl) (c+1))

theorem noJa_listsToks (e : Nat) : ∀ (lists : List (List Cnd)) (l : Nat), NoJa (listsToks ly e l lists)
  | [], _ => by intro t ht; simp [listsToks] at ht
  | conds :: rest, l => by
    simp only [listsToks]
    refine NoJa_append (NoJa_append (noJa_condsToks ly e l conds 0) ?_) (noJa_listsToks e rest (l+1))
    intro t ht; simp at ht; subst ht; rfl

theorem noJa_entryToks (e : Nat) (ent : Entry) : NoJa (entryToks ly e ent) := by
  cases ent with
  | uncond num => intro t ht; simp [entryToks, jt] at ht; rcases ht with h | h <;> subst h <;> rfl
  | cond num lists =>
    simp only [entryToks]
    refine NoJa_append (NoJa_append ?_ (noJa_listsToks ly e lists 0)) ?_
    · intro t ht; simp [jt] at ht; rcases ht with h | h <;> subst h <;> rfl
    · intro t ht; simp at ht; rcases ht with h | h <;> subst h <;> rfl

theorem noJa_entriesToks : ∀ (ents : List Entry) (e : Nat), NoJa (entriesToks ly e ents)
  | [], _ => by intro t ht; simp [entriesToks] at ht
  | ent :: more, e => by
    simp only [entriesToks]; exact NoJa_append (noJa_entryToks ly e ent) (noJa_entriesToks more (e+1))

theorem groupToks_jaOk (ents : List Entry) (r : Word) : JaOkT (groupToks ly ents r) ∧ JaFit (groupToks ly ents r) := by
  unfold groupToks
  constructor
  · refine JaOkT_append_noJa _ _ (noJa_entriesToks ly ents 0) ?_
    simp [JaOkT, PlainPrefixT, plain]
  · refine JaFit_append_noJa _ _ (noJa_entriesToks ly ents 0) ?_
    simp [JaFit, countIns]

/-- **a compiled group** (instruction level): closed, and it returns the group's value iff an entry
    matches, else leaves through its end with the syscall number in the accumulator -/
theorem group_compiled (ents : List Entry) (r : Word) (out : List Instr)
    (h : assemble (groupToks ly ents r) = .ok out) :
    InBounds out ∧ ∀ (w : Nat → Word) (nr : Word) (args : Nat → BitVec 64), Sees ly w nr args →
      run w out nr = if ents.any (·.matches nr args) then .ret r else .exit nr := by
  obtain ⟨h1, h2⟩ := groupToks_jaOk ly ents r
  refine ⟨assemble_inBounds _ _ h2 h, fun w nr args hs => ?_⟩
  rw [assemble_sound _ _ h1 h w nr, group_spec w ly nr args hs]

/-- compiled groups in a row, then the default return: the first matching group decides -/
theorem groups_chain (w : Nat → Word) (nr : Word) (d : Word) :
    ∀ (gs : List (List Instr × Bool × Word)),
      (∀ g ∈ gs, InBounds g.1 ∧ run w g.1 nr = if g.2.1 then .ret g.2.2 else .exit nr) →
      run w ((gs.map (·.1)).flatten ++ [.ret d]) nr =
        match gs.find? (·.2.1) with
        | some g => .ret g.2.2
        | none => .ret d
  | [], _ => by simp [run_ret]
  | g :: more, h => by
    obtain ⟨hb, hr⟩ := h g (List.mem_cons_self)
    have ih := groups_chain w nr d more (fun g' hg' => h g' (List.mem_cons_of_mem _ hg'))
    simp only [List.map_cons, List.flatten_cons, List.append_assoc]
    rw [run_append w _ _ _ hb, hr]
    by_cases hm : g.2.1 = true
    · simp [hm, Result.andThen, List.find?_cons]
    · simp only [hm, Bool.false_eq_true, if_false, Result.andThen, List.find?_cons]
      exact ih
#print axioms group_compiled
#print axioms groups_chain
