import Seccomp.Proofs.Lemmas.SkipsFit

variable {L : Type} [DecidableEq L]

def hasIns : List (Tok L) → Bool
  | [] => false
  | .ins _ :: _ => true
  | .lab _ :: r => hasIns r

/-- `l` is placed ahead, in front of at least one instruction -/
def LabelAhead (l : L) (rest : List (Tok L)) : Prop :=
  ∃ i, findLab l rest = some i ∧ hasIns (rest.drop i) = true

/-- "forward jumps only": every jump label is placed ahead of the jump, before the end -/
def WFT : List (Tok L) → Prop
  | [] => True
  | .ins (.jif _ _ tl fl) :: rest => LabelAhead tl rest ∧ LabelAhead fl rest ∧ WFT rest
  | _ :: rest => WFT rest

theorem WFT_tail (t : Tok L) (rest : List (Tok L)) (h : WFT (t :: rest)) : WFT rest := by
  cases t with
  | lab l => exact h
  | ins i => cases i <;> first | exact h | exact h.2.2

structure CInv (prog : List (Tok L)) (s : St L) : Prop where
  total : ∀ l, LabelAhead l prog → ∃ d, s.get l = some d
  nonempty : hasIns prog = true → s.out.length ≠ 0

theorem bridge_get_mono {s s' : St L} {l : L} (hb : bridge s l = .ok s') :
    ∀ l', (∃ d, s.get l' = some d) → ∃ d, s'.get l' = some d := by
  intro l' ⟨d, hd⟩
  rcases bridge_cases hb with ⟨rfl, _⟩ | ⟨_, _, _, _, _, rfl⟩
  · exact ⟨d, hd⟩
  · rw [get_cons (o' := s.out)]
    by_cases h : l = l'
    · exact ⟨s.out.length + 1, by simp [h]⟩
    · exact ⟨d, by simp [h]; exact hd⟩

theorem bridge_ok_of_get {s : St L} {l : L} (h : ∃ d, s.get l = some d) : ∃ s', bridge s l = .ok s' := by
  obtain ⟨d, hd⟩ := h
  unfold bridge
  simp only [hd]
  split
  · exact ⟨_, rfl⟩
  · exact ⟨_, rfl⟩

theorem step_complete {t : Tok L} {rest : List (Tok L)} {s : St L} (hwf : WFT (t :: rest)) (h : CInv rest s) :
    (∃ s', stepTok t s = .ok s' ∧ CInv (t :: rest) s') ∨ stepTok t s = .error .useless := by
  have push : ∀ (i : LInstr L) (x : Instr) (s0 : St L), (∀ l, (∃ d, s.get l = some d) → ∃ d, s0.get l = some d) →
      CInv (.ins i :: rest) { s0 with out := x :: s0.out } := by
    intro i x s0 hmono
    constructor
    · intro l ⟨j, hj, hi⟩
      simp only [findLab] at hj
      cases hf : findLab l rest with
      | none => simp [hf] at hj
      | some j' =>
        simp only [hf, Option.map_some, Option.some.injEq] at hj
        subst hj
        have : ∃ d, s.get l = some d := h.total l ⟨j', hf, by simpa using hi⟩
        exact hmono l this
    · intro _; simp
  unfold stepTok
  cases t with
  | lab l =>
    left
    simp only
    split
    · rename_i h0
      refine ⟨s, rfl, ?_, ?_⟩
      · intro l' ⟨j, hj, hi⟩
        -- nothing is laid out yet, so there is no instruction ahead: impossible
        have hno : hasIns rest = false := by
          cases hh : hasIns rest with
          | false => rfl
          | true => exact absurd h0 (h.nonempty hh)
        exfalso
        have : ∀ (p : List (Tok L)) (n : Nat), hasIns p = false → hasIns (p.drop n) = false := by
          intro p
          induction p with
          | nil => intro n _; simp [hasIns]
          | cons t r ih =>
            intro n hp
            cases n with
            | zero => simpa using hp
            | succ n => cases t <;> simp only [hasIns] at hp <;> first | exact ih n hp | cases hp
        have h2 : hasIns (Tok.lab l :: rest) = false := by simpa [hasIns] using hno
        rw [this _ j h2] at hi; cases hi
      · intro hh; exact absurd h0 (h.nonempty (by simpa [hasIns] using hh))
    · rename_i h0
      refine ⟨_, rfl, ?_, ?_⟩
      · intro l' ⟨j, hj, hi⟩
        rw [get_cons (o' := s.out)]
        by_cases hl : l = l'
        · exact ⟨s.out.length, by simp [hl]⟩
        · simp only [findLab, hl, if_false] at hj
          cases hf : findLab l' rest with
          | none => simp [hf] at hj
          | some j' =>
            simp only [hf, Option.map_some, Option.some.injEq] at hj
            subst hj
            obtain ⟨d, hd⟩ := h.total l' ⟨j', hf, by simpa using hi⟩
            exact ⟨d, by simp [hl]; exact hd⟩
      · intro _; exact h0
  | ins i =>
    cases i with
    | ld off => exact .inl ⟨_, rfl, push _ _ s (fun _ h => h)⟩
    | ret k => exact .inl ⟨_, rfl, push _ _ s (fun _ h => h)⟩
    | ja n => exact .inl ⟨_, rfl, push _ _ s (fun _ h => h)⟩
    | jif c k tl fl =>
      obtain ⟨htl, hfl, _⟩ := hwf
      obtain ⟨s1, hb1⟩ := bridge_ok_of_get (s := s) (h.total fl hfl)
      have m1 := bridge_get_mono hb1
      obtain ⟨s2, hb2⟩ := bridge_ok_of_get (s := s1) (m1 tl (h.total tl htl))
      have m2 := bridge_get_mono hb2
      obtain ⟨s3, hb3⟩ := bridge_ok_of_get (s := s2) (m2 fl (m1 fl (h.total fl hfl)))
      have m3 := bridge_get_mono hb3
      obtain ⟨dt, hdt⟩ := m3 tl (m2 tl (m1 tl (h.total tl htl)))
      obtain ⟨df, hdf⟩ := m3 fl (m2 fl (m1 fl (h.total fl hfl)))
      simp only [hb1, hb2, hb3, hdt, hdf]
      split
      · exact .inr rfl
      · exact .inl ⟨_, rfl, push _ _ s3 (fun l hl => m3 l (m2 l (m1 l hl)))⟩

/-- **Completeness**: on a well-formed label program the resolver can only fail with "useless jump" -/
theorem asm_complete : ∀ (prog : List (Tok L)), WFT prog →
    (∃ s, asmT prog = .ok s ∧ CInv prog s) ∨ asmT prog = .error .useless
  | [], _ => .inl ⟨⟨[], []⟩, rfl, ⟨fun l ⟨i, hi, _⟩ => by simp [findLab] at hi, fun h => by simp [hasIns] at h⟩⟩
  | t :: rest, hwf => by
    simp only [asmT]
    rcases asm_complete rest (WFT_tail t rest hwf) with ⟨s, hs, hinv⟩ | herr
    · simp only [hs]
      rcases step_complete hwf hinv with ⟨s', hs', hinv'⟩ | herr
      · exact .inl ⟨s', hs', hinv'⟩
      · exact .inr herr
    · simp only [herr]; exact .inr trivial

#print axioms asm_complete
