import Seccomp.Proofs.Lemmas.LoaderLemmas
import Seccomp.Model.LoaderSpec
/-!
# `Gen.loadFilter` reduced to its kernel steps
-/

/-- the world in which `LoadFilter` issues the seccomp call: unchanged, or — when no_new_privs was
    requested — locked to the thread with the bit set by a `prctl` on that thread -/
def preInstall (filter : Filter) (w : World) : World :=
  if filter.noNewPrivs = true then
    (sysPrctl 38 1 0 0 0 (lockOSThread w)).2.2
  else w

/-- what happens at a return: the deferred `UnlockOSThread` runs iff the lock was taken -/
def atReturn (filter : Filter) (w : World) : World :=
  if filter.noNewPrivs = true then unlockOSThread w else w

/-- the fault in which `LoadFilter` gives up before the seccomp call: no_new_privs is requested on a
    kernel whose `prctl` refuses the option -/
def nnpFault (filter : Filter) (w : World) : Prop := filter.noNewPrivs = true ∧ w.nnpAvailable = false

instance (filter : Filter) (w : World) : Decidable (nnpFault filter w) := by unfold nnpFault; infer_instance

theorem gen_setNoNewPrivs (U : Unsupported) (w : World) :
    Gen.setNoNewPrivs U w =
      (if w.nnpAvailable = true then GoErr.nil else GoErr.errno 22, (sysPrctl 38 1 0 0 0 w).2.2) := by
  unfold Gen.setNoNewPrivs Gen.prctl
  simp only [List.length_singleton, show ¬ (1 > 4) from by decide, if_false]
  have : copyInto (List.replicate 4 0) [1] = [1, 0, 0, 0] := by decide
  simp only [this, List.getD_cons_zero, List.getD_cons_succ]
  cases h : w.nnpAvailable
  · rw [sysPrctl_nnp_fault w h]; simp [EINVAL]
  · rw [sysPrctl_nnp w h]; simp

/-- **The fault case in one equation**: the `prctl` error is wrapped and returned, the deferred unlock
    runs, and `seccomp` is never called. -/
theorem gen_loadFilter_fault (U : Unsupported) (filter : Filter) (p : Prog) (hp : filter.policy = .prog p) (w : World)
    (hf : nnpFault filter w) :
    Gen.loadFilter U filter w =
      (GoErr.wrapped "failed to set no_new_privs with prctl: %w" (GoErr.errno 22), atReturn filter (preInstall filter w)) := by
  obtain ⟨hn, ha⟩ := hf
  unfold Gen.loadFilter
  simp only [hp, policyAssemble, bpfAssemble, sockFilter, ne_eq, not_true_eq_false, if_false, preInstall, atReturn,
    hn, if_true, gen_setNoNewPrivs, show (lockOSThread w).nnpAvailable = w.nnpAvailable from rfl, ha,
    Bool.false_eq_true]
  simp

/-- **`LoadFilter` in one equation** (for a policy that assembles and encodes): the pre-install world,
    one `seccomp()` call with the filter's own flag word and program, every non-nil result wrapped,
    then the deferred unlock. -/
theorem gen_loadFilter_prog (U : Unsupported) (filter : Filter) (p : Prog) (hp : filter.policy = .prog p) (w : World)
    (hnf : ¬ nnpFault filter w) :
    ∃ msg : GoErr → GoErr, (∀ e, msg e ≠ GoErr.nil) ∧
    Gen.loadFilter U filter w =
      (let r := Gen.seccomp U 1 filter.flag (mkFprog (.prog p)) (preInstall filter w)
       (if r.1 ≠ GoErr.nil then msg r.1 else GoErr.nil, atReturn filter r.2)) := by
  refine ⟨fun e => if e = GoErr.errno 38 then
      GoErr.wrapped "failed loading seccomp filter: seccomp is not supported by the kernel: %w" e
    else GoErr.wrapped "failed loading seccomp filter: %w" e, fun e => by simp only; split <;> simp, ?_⟩
  unfold Gen.loadFilter
  simp only [hp, policyAssemble, bpfAssemble, sockFilter, ne_eq, not_true_eq_false, if_false, preInstall, atReturn]
  by_cases hn : filter.noNewPrivs = true
  · have ha : w.nnpAvailable = true := by
      cases h : w.nnpAvailable
      · exact absurd ⟨hn, h⟩ hnf
      · rfl
    simp only [hn, if_true, gen_setNoNewPrivs, show (lockOSThread w).nnpAvailable = w.nnpAvailable from rfl, ha,
      not_true_eq_false, if_false]
    generalize Gen.seccomp U 1 filter.flag (mkFprog (PolicyOutcome.prog p)) (sysPrctl 38 1 0 0 0 (lockOSThread w)).2.2 = r
    obtain ⟨err, w2⟩ := r
    -- case analysis on the error value rather than on the shape of the `if` tree, so that an
    -- equivalent arrangement of the same tests in the source proves the same way
    by_cases he : err = GoErr.nil
    · subst he; simp
    · by_cases h38 : err = GoErr.errno 38
      · subst h38; simp
      · simp [he, h38]
  · simp only [hn, Bool.false_eq_true, if_false]
    generalize Gen.seccomp U 1 filter.flag (mkFprog (PolicyOutcome.prog p)) w = r
    obtain ⟨err, w2⟩ := r
    -- case analysis on the error value rather than on the shape of the `if` tree, so that an
    -- equivalent arrangement of the same tests in the source proves the same way
    by_cases he : err = GoErr.nil
    · subst he; simp
    · by_cases h38 : err = GoErr.errno 38
      · subst h38; simp
      · simp [he, h38]

/-- a policy that does not assemble or encode: an error, and the world is untouched -/
theorem gen_loadFilter_noprog (U : Unsupported) (filter : Filter) (hp : ∀ p, filter.policy ≠ .prog p) (w : World) :
    (Gen.loadFilter U filter w).1 ≠ GoErr.nil ∧ (Gen.loadFilter U filter w).2 = w := by
  unfold Gen.loadFilter
  cases hpol : filter.policy with
  | assembleFails => simp [policyAssemble]
  | encodeFails => simp [policyAssemble, bpfAssemble]
  | prog p => exact absurd hpol (hp p)

/-! ## projections -/

@[simp] theorem World.upd_thr_self (w : World) (t : Tid) (th : Thread) : (w.upd t th).thr t = th := by simp [World.upd]
theorem World.upd_thr_ne (w : World) (t t' : Tid) (th : Thread) (h : t' ≠ t) : (w.upd t th).thr t' = w.thr t' := by
  simp [World.upd, h]
@[simp] theorem World.upd_live (w : World) (t : Tid) (th : Thread) : (w.upd t th).live = w.live := rfl
@[simp] theorem World.upd_cur (w : World) (t : Tid) (th : Thread) : (w.upd t th).cur = w.cur := rfl
@[simp] theorem World.upd_lock (w : World) (t : Tid) (th : Thread) : (w.upd t th).lockCount = w.lockCount := rfl
@[simp] theorem World.upd_priv (w : World) (t : Tid) (th : Thread) : (w.upd t th).privileged = w.privileged := rfl
@[simp] theorem World.upd_log (w : World) (t : Tid) (th : Thread) : (w.upd t th).log = w.log := rfl

theorem lockOSThread_sched (w : World) : schedStep (lockOSThread w) = lockOSThread w :=
  schedStep_locked _ (by simp [lockOSThread])

/-- the pre-install world when no_new_privs is requested, explicitly -/
theorem preInstall_nnp (filter : Filter) (w : World) (hn : filter.noNewPrivs = true) (ha : w.nnpAvailable = true) :
    preInstall filter w =
      ({ lockOSThread w with log := .prctl w.cur 38 1 0 0 0 :: w.log } : World).upd w.cur { w.thr w.cur with nnp := true } := by
  simp only [preInstall, hn, if_true, sysPrctl_nnp _ (show (lockOSThread w).nnpAvailable = true from ha), lockOSThread_sched]
  rfl

/-- … and when the kernel refuses the option: the lock and the logged call, nothing else -/
theorem preInstall_fault (filter : Filter) (w : World) (hn : filter.noNewPrivs = true) (ha : w.nnpAvailable = false) :
    preInstall filter w = { lockOSThread w with log := .prctl w.cur 38 1 0 0 0 :: w.log } := by
  simp only [preInstall, hn, if_true, sysPrctl_nnp_fault _ (show (lockOSThread w).nnpAvailable = false from ha), lockOSThread_sched]
  rfl

theorem preInstall_off (filter : Filter) (w : World) (hn : filter.noNewPrivs = false) : preInstall filter w = w := by
  simp [preInstall, hn]

/-- the three shapes of the pre-install world -/
theorem preInstall_cases (filter : Filter) (w : World) :
    preInstall filter w = w ∨
    preInstall filter w = { lockOSThread w with log := .prctl w.cur 38 1 0 0 0 :: w.log } ∨
    preInstall filter w =
      ({ lockOSThread w with log := .prctl w.cur 38 1 0 0 0 :: w.log } : World).upd w.cur { w.thr w.cur with nnp := true } := by
  cases hn : filter.noNewPrivs
  · exact .inl (preInstall_off _ _ hn)
  · cases ha : w.nnpAvailable
    · exact .inr (.inl (preInstall_fault _ _ hn ha))
    · exact .inr (.inr (preInstall_nnp _ _ hn ha))

theorem preInstall_live (filter : Filter) (w : World) : (preInstall filter w).live = w.live := by
  rcases preInstall_cases filter w with h | h | h <;> rw [h] <;> rfl

theorem preInstall_cur (filter : Filter) (w : World) : (preInstall filter w).cur = w.cur := by
  rcases preInstall_cases filter w with h | h | h <;> rw [h] <;> rfl

theorem preInstall_priv (filter : Filter) (w : World) : (preInstall filter w).privileged = w.privileged := by
  rcases preInstall_cases filter w with h | h | h <;> rw [h] <;> rfl

theorem preInstall_avail (filter : Filter) (w : World) : (preInstall filter w).seccompAvailable = w.seccompAvailable := by
  rcases preInstall_cases filter w with h | h | h <;> rw [h] <;> rfl

theorem preInstall_filters (filter : Filter) (w : World) (t : Tid) :
    ((preInstall filter w).thr t).filters = (w.thr t).filters := by
  rcases preInstall_cases filter w with h | h | h <;> rw [h]
  · rfl
  · by_cases ht : t = w.cur
    · subst ht; simp
    · rw [World.upd_thr_ne _ _ _ _ ht]; rfl

/-- the fault leaves every thread exactly as it was (in particular no no_new_privs bit appears) -/
theorem preInstall_thr_fault (filter : Filter) (w : World) (hf : nnpFault filter w) :
    (preInstall filter w).thr = w.thr := by
  rw [preInstall_fault _ _ hf.1 hf.2]; rfl

/-- with no_new_privs requested the goroutine cannot move between `prctl` and `seccomp` -/
theorem preInstall_sched_nnp (filter : Filter) (w : World) (hn : filter.noNewPrivs = true) :
    schedStep (preInstall filter w) = preInstall filter w := by
  apply schedStep_locked
  cases ha : w.nnpAvailable
  · rw [preInstall_fault _ _ hn ha]; simp [lockOSThread]
  · rw [preInstall_nnp _ _ hn ha]; simp [lockOSThread]

theorem atReturn_thr (filter : Filter) (w : World) : (atReturn filter w).thr = w.thr := by
  unfold atReturn; split <;> rfl
theorem atReturn_live (filter : Filter) (w : World) : (atReturn filter w).live = w.live := by
  unfold atReturn; split <;> rfl
theorem atReturn_cur (filter : Filter) (w : World) : (atReturn filter w).cur = w.cur := by
  unfold atReturn; split <;> rfl
theorem atReturn_log (filter : Filter) (w : World) : (atReturn filter w).log = w.log := by
  unfold atReturn; split <;> rfl


/-- the two messages `LoadFilter` wraps a failed seccomp call in -/
def loadMsg (e : GoErr) : GoErr :=
  if e = GoErr.errno 38 then
    GoErr.wrapped "failed loading seccomp filter: seccomp is not supported by the kernel: %w" e
  else GoErr.wrapped "failed loading seccomp filter: %w" e

theorem cls_wrapped_of_ne_nil (m : String) (e : GoErr) (he : e ≠ GoErr.nil) : (GoErr.wrapped m e).cls = e.cls := by
  cases e with
  | nil => exact absurd rfl he
  | errno n => simp [GoErr.cls]
  | wrapped m' inner =>
    simp only [GoErr.cls]
    cases inner.cls <;> rfl

/-- `gen_loadFilter_prog` with the messages spelled out, and their observable class -/
theorem gen_loadFilter_prog' (U : Unsupported) (filter : Filter) (p : Prog) (hp : filter.policy = .prog p) (w : World)
    (hnf : ¬ nnpFault filter w) :
    Gen.loadFilter U filter w =
      (let r := Gen.seccomp U 1 filter.flag (mkFprog (.prog p)) (preInstall filter w)
       (if r.1 ≠ GoErr.nil then loadMsg r.1 else GoErr.nil, atReturn filter r.2)) ∧
    (∀ e, e ≠ GoErr.nil → (loadMsg e).cls = e.cls) := by
  refine ⟨?_, fun e he => by unfold loadMsg; split <;> exact cls_wrapped_of_ne_nil _ e he⟩
  unfold Gen.loadFilter
  simp only [hp, policyAssemble, bpfAssemble, sockFilter, ne_eq, not_true_eq_false, if_false, preInstall, atReturn,
    loadMsg]
  by_cases hn : filter.noNewPrivs = true
  · have ha : w.nnpAvailable = true := by
      cases h : w.nnpAvailable
      · exact absurd ⟨hn, h⟩ hnf
      · rfl
    simp only [hn, if_true, gen_setNoNewPrivs, show (lockOSThread w).nnpAvailable = w.nnpAvailable from rfl, ha,
      not_true_eq_false, if_false]
    generalize Gen.seccomp U 1 filter.flag (mkFprog (PolicyOutcome.prog p)) (sysPrctl 38 1 0 0 0 (lockOSThread w)).2.2 = r
    obtain ⟨err, w2⟩ := r
    -- case analysis on the error value rather than on the shape of the `if` tree, so that an
    -- equivalent arrangement of the same tests in the source proves the same way
    by_cases he : err = GoErr.nil
    · subst he; simp
    · by_cases h38 : err = GoErr.errno 38
      · subst h38; simp
      · simp [he, h38]
  · simp only [hn, Bool.false_eq_true, if_false]
    generalize Gen.seccomp U 1 filter.flag (mkFprog (PolicyOutcome.prog p)) w = r
    obtain ⟨err, w2⟩ := r
    -- case analysis on the error value rather than on the shape of the `if` tree, so that an
    -- equivalent arrangement of the same tests in the source proves the same way
    by_cases he : err = GoErr.nil
    · subst he; simp
    · by_cases h38 : err = GoErr.errno 38
      · subst h38; simp
      · simp [he, h38]

/-! ## the regenerated loader agrees with the hand-written specification -/

theorem gen_seccomp_cls (U : Unsupported) (flags : Nat) (uargs : Option Prog) (w : World) :
    (Gen.seccomp U 1 flags uargs w).1.cls =
      (let r := sysSeccomp 1 flags uargs w
       if r.2.1 ≠ 0 then ErrClass.errno r.2.1
       else if flags &&& FLAG_TSYNC ≠ 0 ∧ r.1 ≠ 0 then .other else .nil) :=
  (gen_seccomp_core U 1 flags uargs w).2.2.1

/-- **Translator tie, loader.**  For every filter, world, schedule and every behaviour `U` of
    untranslated statements: the regenerated `LoadFilter` leaves the same world behind as the
    specification and returns an error of the same observable class. -/
theorem gen_loadFilter_eq_spec (U : Unsupported) (filter : Filter) (w : World) :
    ((Gen.loadFilter U filter w).1.cls, (Gen.loadFilter U filter w).2) = LoaderSpec.load filter w := by
  cases hpol : filter.policy with
  | assembleFails =>
    unfold Gen.loadFilter LoaderSpec.load
    simp [hpol, policyAssemble, GoErr.cls]
  | encodeFails =>
    unfold Gen.loadFilter LoaderSpec.load
    simp [hpol, policyAssemble, bpfAssemble, GoErr.cls]
  | prog p =>
    by_cases hf : nnpFault filter w
    · rw [gen_loadFilter_fault U filter p hpol w hf]
      unfold LoaderSpec.load
      have h0 : (sysPrctl PR_SET_NO_NEW_PRIVS 1 0 0 0 (lockOSThread w)) =
          (0, EINVAL, { lockOSThread w with log := .prctl w.cur 38 1 0 0 0 :: w.log }) := by
        have := sysPrctl_nnp_fault (lockOSThread w) hf.2
        rw [lockOSThread_sched] at this
        exact this
      simp only [hpol, h0, hf.1, true_and, atReturn, if_true, preInstall_fault _ _ hf.1 hf.2, GoErr.cls]
      simp [EINVAL]
    have hspec : ¬ (filter.noNewPrivs = true ∧ (sysPrctl PR_SET_NO_NEW_PRIVS 1 0 0 0 (lockOSThread w)).2.1 ≠ 0) := by
      rintro ⟨hn, he⟩
      have ha : w.nnpAvailable = true := by
        cases h : w.nnpAvailable
        · exact absurd ⟨hn, h⟩ hf
        · rfl
      have := sysPrctl_nnp (lockOSThread w) ha
      simp only [PR_SET_NO_NEW_PRIVS] at he
      rw [this] at he
      exact he rfl
    obtain ⟨heq, hcls⟩ := gen_loadFilter_prog' U filter p hpol w hf
    rw [heq]
    simp only
    unfold LoaderSpec.load
    simp only [hpol, if_neg hspec]
    have hw : (Gen.seccomp U 1 filter.flag (mkFprog (.prog p)) (preInstall filter w)).2 =
        (sysSeccomp 1 filter.flag (mkFprog (.prog p)) (preInstall filter w)).2.2 := gen_seccomp_world _ _ _ _ _
    have hc := gen_seccomp_cls U filter.flag (mkFprog (.prog p)) (preInstall filter w)
    have hcl : (if (Gen.seccomp U 1 filter.flag (mkFprog (.prog p)) (preInstall filter w)).1 ≠ GoErr.nil
        then loadMsg (Gen.seccomp U 1 filter.flag (mkFprog (.prog p)) (preInstall filter w)).1 else GoErr.nil).cls =
        (Gen.seccomp U 1 filter.flag (mkFprog (.prog p)) (preInstall filter w)).1.cls := by
      split
      · rename_i hne; exact hcls _ hne
      · rename_i hne
        have : (Gen.seccomp U 1 filter.flag (mkFprog (.prog p)) (preInstall filter w)).1 = GoErr.nil := by
          simpa using hne
        rw [this]
    rw [hcl, hc, hw]
    simp only [preInstall, atReturn, PR_SET_NO_NEW_PRIVS, SECCOMP_SET_MODE_FILTER]
    split <;> (split <;> first | rfl | (split <;> rfl))

theorem gen_supported_eq_spec (U : Unsupported) (w : World) :
    Gen.supported U w = LoaderSpec.supported w := by
  rw [gen_supported_char]
  unfold LoaderSpec.supported
  rw [show sysSeccomp SECCOMP_SET_MODE_STRICT 1 none w = sysSeccomp 0 1 none w from rfl, sysSeccomp_probe]
  have := w.refusal.errno_ne_einval
  cases w.seccompAvailable <;> simp_all [EINVAL]
