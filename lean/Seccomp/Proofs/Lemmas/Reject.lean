import Seccomp.Model.Policy
/-!
# Defects are reported: lemmas about the problem list of `toEntries`
-/

variable (A : ArchInfo)

/-- the problem list only grows in the first loop -/
theorem resolveNames_mono : ∀ (names : List String) (es : List Entry) (ps : List Problem),
    ps ≠ [] → (resolveNames A names es ps).2 ≠ []
  | [], es, ps, h => by simpa [resolveNames] using h
  | n :: rest, es, ps, h => by
    simp only [resolveNames]
    cases A.number n with
    | none => exact resolveNames_mono rest es _ (by simp)
    | some num =>
      simp only
      split
      · exact resolveNames_mono rest es _ (by simp)
      · exact resolveNames_mono rest _ ps h

/-- the problem list only grows in the second loop -/
theorem resolveConds_mono : ∀ (ncs : List NameConds) (es : List Entry) (ps : List Problem),
    ps ≠ [] → (resolveConds A ncs es ps).2 ≠ []
  | [], es, ps, h => by simpa [resolveConds] using h
  | nc :: rest, es, ps, h => by
    simp only [resolveConds]
    cases A.number nc.name with
    | none => exact resolveConds_mono rest es _ (by simp)
    | some num =>
      simp only
      split
      · exact resolveConds_mono rest es _ (by simp [h])
      · split
        · exact resolveConds_mono rest _ ps h
        · exact resolveConds_mono rest es _ (by simp)
        · exact resolveConds_mono rest _ ps h

/-- `toEntries` fails as soon as one of the loops reports a problem -/
theorem toEntries_error_of_names (g : Group) (h : (resolveNames A g.names [] []).2 ≠ []) :
    ∃ ps, toEntries A g = .error ps := by
  unfold toEntries
  generalize h1 : resolveNames A g.names [] [] = r1 at h
  obtain ⟨es1, ps1⟩ := r1
  simp only at h ⊢
  have := resolveConds_mono A g.withConds es1 ps1 h
  generalize resolveConds A g.withConds es1 ps1 = r2 at this
  obtain ⟨es2, ps2⟩ := r2
  simp only at this ⊢
  have hne : ps2.isEmpty = false := by cases ps2 <;> simp_all
  simp [hne]

theorem toEntries_error_of_conds (g : Group)
    (h : ∀ es ps, (resolveConds A g.withConds es ps).2 ≠ []) : ∃ ps, toEntries A g = .error ps := by
  unfold toEntries
  generalize resolveNames A g.names [] [] = r1
  obtain ⟨es1, ps1⟩ := r1
  simp only
  have := h es1 ps1
  generalize resolveConds A g.withConds es1 ps1 = r2 at this
  obtain ⟨es2, ps2⟩ := r2
  simp only at this ⊢
  have hne : ps2.isEmpty = false := by cases ps2 <;> simp_all
  simp [hne]

/-- an unknown plain name is reported -/
theorem resolveNames_unknown : ∀ (names : List String) (es : List Entry) (ps : List Problem) (n : String),
    n ∈ names → A.number n = none → (resolveNames A names es ps).2 ≠ []
  | [], _, _, _, h, _ => by cases h
  | x :: rest, es, ps, n, hmem, hn => by
    simp only [resolveNames]
    rcases List.mem_cons.1 hmem with rfl | hm
    · simp only [hn]; exact resolveNames_mono A rest es _ (by simp)
    · cases A.number x with
      | none => exact resolveNames_mono A rest es _ (by simp)
      | some num =>
        simp only
        split
        · exact resolveNames_mono A rest es _ (by simp)
        · exact resolveNames_unknown rest _ ps n hm hn

/-- a plain name whose number is already in the entry list is reported as a duplicate -/
theorem resolveNames_dup_of_present : ∀ (names : List String) (es : List Entry) (ps : List Problem)
    (n : String) (num : Word), n ∈ names → A.number n = some num → es.any (·.num == num) = true →
    (resolveNames A names es ps).2 ≠ []
  | [], _, _, _, _, h, _, _ => by cases h
  | x :: rest, es, ps, n, num, hmem, hn, hany => by
    simp only [resolveNames]
    cases hx : A.number x with
    | none => exact resolveNames_mono A rest es _ (by simp)
    | some m =>
      simp only
      split
      · exact resolveNames_mono A rest es _ (by simp)
      · rename_i hnot
        rcases List.mem_cons.1 hmem with rfl | hm
        · rw [hn] at hx; cases hx; exact absurd hany hnot
        · exact resolveNames_dup_of_present rest _ ps n num hm hn (by simp [List.any_append, hany])

/-- a name that occurs twice among `Names` is reported -/
theorem resolveNames_duplicate : ∀ (l1 : List String) (n : String) (rest : List String) (es : List Entry)
    (ps : List Problem), n ∈ rest → (resolveNames A (l1 ++ n :: rest) es ps).2 ≠ []
  | [], n, rest, es, ps, hmem => by
    simp only [List.nil_append, resolveNames]
    cases hn : A.number n with
    | none => exact resolveNames_mono A rest es _ (by simp)
    | some num =>
      simp only
      split
      · exact resolveNames_mono A rest es _ (by simp)
      · exact resolveNames_dup_of_present A rest _ ps n num hmem hn (by simp [List.any_append, Entry.num])
  | x :: l1, n, rest, es, ps, hmem => by
    simp only [List.cons_append, resolveNames]
    cases A.number x with
    | none => exact resolveNames_duplicate l1 n rest es _ hmem
    | some m =>
      simp only
      split
      · exact resolveNames_duplicate l1 n rest es _ hmem
      · exact resolveNames_duplicate l1 n rest _ ps hmem

/-- a defective condition makes `ArgumentConditions.Validate` report something -/
theorem validateConds_ne_nil {conds : List Condition} {c : Condition} (hc : c ∈ conds)
    (hbad : c.arg > 5 ∨ opOfString c.op = none) : validateConds conds ≠ [] := by
  induction conds with
  | nil => cases hc
  | cons x rest ih =>
    simp only [validateConds]
    rcases List.mem_cons.1 hc with rfl | hm
    · rcases hbad with h | h
      · simp [h]
      · simp [h]
    · intro h
      simp only [List.append_eq_nil_iff] at h
      exact ih hm h.2

/-- an entry with conditions whose name is unknown, or one of whose conditions has an argument index
    above 5 or an operation that is not implemented, is reported -/
theorem resolveConds_bad : ∀ (ncs : List NameConds) (es : List Entry) (ps : List Problem) (nc : NameConds),
    nc ∈ ncs → (A.number nc.name = none ∨ ∃ c ∈ nc.conds, c.arg > 5 ∨ opOfString c.op = none) →
    (resolveConds A ncs es ps).2 ≠ []
  | [], _, _, _, h, _ => by cases h
  | x :: rest, es, ps, nc, hmem, hbad => by
    simp only [resolveConds]
    rcases List.mem_cons.1 hmem with rfl | hm
    · cases hn : A.number nc.name with
      | none => exact resolveConds_mono A rest es _ (by simp)
      | some num =>
        simp only
        rcases hbad with h | ⟨c, hc, hb⟩
        · rw [hn] at h; cases h
        · have hv := validateConds_ne_nil hc hb
          have hne : (validateConds nc.conds).isEmpty = false := by
            cases hvc : validateConds nc.conds with
            | nil => exact absurd hvc hv
            | cons _ _ => rfl
          simp only [hne, Bool.not_false, if_true]
          exact resolveConds_mono A rest es _ (by simp [hv])
    · cases A.number x.name with
      | none => exact resolveConds_mono A rest es _ (by simp)
      | some num =>
        simp only
        split
        · rename_i hinv
          exact resolveConds_mono A rest es _ (by
            intro h; simp only [List.append_eq_nil_iff] at h
            simp [h.2] at hinv)
        · split
          · exact resolveConds_bad rest _ ps nc hm hbad
          · exact resolveConds_mono A rest es _ (by simp)
          · exact resolveConds_bad rest _ ps nc hm hbad

/-! ## a name listed both with and without conditions -/

def Entry.isUncond : Entry → Bool
  | .uncond _ => true
  | .cond _ _ => false

/-- after the first loop every entry is unconditional and every resolved plain name has one -/
theorem resolveNames_entries : ∀ (names : List String) (es : List Entry) (ps : List Problem) (es' : List Entry),
    resolveNames A names es ps = (es', []) → es.all Entry.isUncond = true →
    es'.all Entry.isUncond = true ∧
    (∀ num, es.any (·.num == num) = true → es'.any (·.num == num) = true) ∧
    (∀ n ∈ names, ∀ num, A.number n = some num → es'.any (·.num == num) = true)
  | [], es, ps, es', h, hall => by
    simp only [resolveNames, Prod.mk.injEq] at h
    obtain ⟨rfl, rfl⟩ := h
    exact ⟨hall, fun _ h => h, fun n hn => by cases hn⟩
  | x :: rest, es, ps, es', h, hall => by
    simp only [resolveNames] at h
    cases hx : A.number x with
    | none =>
      simp only [hx] at h
      have := resolveNames_mono A rest es (ps ++ [.unknown x]) (by simp)
      rw [h] at this; exact absurd rfl this
    | some m =>
      simp only [hx] at h
      split at h
      · have := resolveNames_mono A rest es (ps ++ [.duplicate x]) (by simp)
        rw [h] at this; exact absurd rfl this
      · obtain ⟨h1, h2, h3⟩ := resolveNames_entries rest _ ps es' h
          (by simp [List.all_append, hall, Entry.isUncond])
        refine ⟨h1, fun num hn => h2 num (by simp [List.any_append, hn]), ?_⟩
        intro n hn num hnum
        rcases List.mem_cons.1 hn with rfl | hm
        · rw [hx] at hnum
          have hm : m = num := Option.some.inj hnum
          subst hm
          exact h2 m (by simp [List.any_append, Entry.num])
        · exact h3 n hm num hnum

theorem find_uncond_of_all {es : List Entry} {num : Word} (hall : es.all Entry.isUncond = true)
    (hany : es.any (·.num == num) = true) : es.find? (·.num == num) = some (.uncond num) := by
  induction es with
  | nil => simp at hany
  | cons e rest ih =>
    simp only [List.all_cons, Bool.and_eq_true] at hall
    simp only [List.find?_cons]
    by_cases he : (e.num == num) = true
    · simp only [he]
      cases e with
      | uncond n => simp [Entry.num] at he; subst he; rfl
      | cond n ls => simp [Entry.isUncond] at hall
    · simp only [he]
      simp only [List.any_cons, he, Bool.false_or] at hany
      exact ih hall.2 hany

theorem find_addList_ne (num num' : Word) (cs : List Cnd) (hne : num' ≠ num) : ∀ (es : List Entry),
    (addList num' cs es).find? (·.num == num) = es.find? (·.num == num)
  | [] => rfl
  | e :: rest => by
    simp only [addList]
    by_cases he : e.num = num'
    · simp only [he, if_true]
      have hp : (e.num == num) = false := by simp [he, hne]
      cases e with
      | uncond n => rfl
      | cond n ls =>
        simp only [List.find?_cons]
        have h1 : ((Entry.cond n (ls ++ [cs])).num == num) = false := by simpa [Entry.num] using hp
        have h2 : ((Entry.cond n ls).num == num) = false := by simpa [Entry.num] using hp
        simp [h1, h2]
    · simp only [he, if_false, List.find?_cons, find_addList_ne num num' cs hne rest]

/-- an entry with conditions for a number that already has an unconditional entry is reported -/
theorem resolveConds_mixed (num : Word) : ∀ (ncs : List NameConds) (es : List Entry) (ps : List Problem)
    (nc : NameConds), nc ∈ ncs → A.number nc.name = some num →
    es.find? (·.num == num) = some (.uncond num) → (resolveConds A ncs es ps).2 ≠ []
  | [], _, _, _, h, _, _ => by cases h
  | x :: rest, es, ps, nc, hmem, hn, hf => by
    simp only [resolveConds]
    rcases List.mem_cons.1 hmem with rfl | hm
    · simp only [hn]
      split
      · rename_i hinv
        exact resolveConds_mono A rest es _ (by
          intro h; simp only [List.append_eq_nil_iff] at h; simp [h.2] at hinv)
      · simp only [hf]
        exact resolveConds_mono A rest es _ (by simp)
    · cases hx : A.number x.name with
      | none => exact resolveConds_mono A rest es _ (by simp)
      | some num' =>
        simp only
        split
        · rename_i hinv
          exact resolveConds_mono A rest es _ (by
            intro h; simp only [List.append_eq_nil_iff] at h; simp [h.2] at hinv)
        · split
          · exact resolveConds_mixed num rest _ ps nc hm hn (by
              rw [List.find?_append, hf]; rfl)
          · exact resolveConds_mono A rest es _ (by simp)
          · rename_i n ls hf'
            have hne : num' ≠ num := by
              intro heq; subst heq; rw [hf] at hf'; cases hf'
            exact resolveConds_mixed num rest _ ps nc hm hn (by
              rw [find_addList_ne num num' _ hne, hf])

/-- a name listed both in `Names` and with conditions is reported -/
theorem toEntries_mixed (g : Group) (n : String) (hn : n ∈ g.names) (nc : NameConds)
    (hnc : nc ∈ g.withConds) (heq : nc.name = n) : ∃ ps, toEntries A g = .error ps := by
  by_cases h1 : (resolveNames A g.names [] []).2 = []
  · cases hnum : A.number n with
    | none => exact toEntries_error_of_names A g (resolveNames_unknown A g.names [] [] n hn hnum)
    | some num =>
      unfold toEntries
      generalize hr : resolveNames A g.names [] [] = r1 at h1
      obtain ⟨es1, ps1⟩ := r1
      simp only at h1
      subst h1
      obtain ⟨hall, _, hhas⟩ := resolveNames_entries A g.names [] [] es1 hr (by simp)
      have hf := find_uncond_of_all hall (hhas n hn num hnum)
      have := resolveConds_mixed A num g.withConds es1 [] nc hnc (by rw [heq]; exact hnum) hf
      simp only
      generalize resolveConds A g.withConds es1 [] = r2 at this
      obtain ⟨es2, ps2⟩ := r2
      simp only at this ⊢
      have hne : ps2.isEmpty = false := by cases ps2 <;> simp_all
      simp [hne]
  · exact toEntries_error_of_names A g h1
