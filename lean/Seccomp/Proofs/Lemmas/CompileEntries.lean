import Seccomp.Proofs.Lemmas.Prologue
variable (ly : Layout)

theorem compileGroup_spec (g : GroupE) (out : List Instr) (h : compileGroup ly g = .ok out) :
    InBounds out ∧ ∀ (w : Nat → Word) (nr : Word) (args : Nat → BitVec 64), Sees ly w nr args →
      run w out nr = if g.matches nr args then .ret g.r else .exit nr := by
  unfold compileGroup at h
  split at h
  · rename_i he
    cases h
    refine ⟨trivial, fun w nr args _ => ?_⟩
    have : g.ents = [] := by simpa using he
    simp [GroupE.matches, this, run_nil]
  · exact group_compiled ly g.ents g.r out h

theorem compileGroups_spec : ∀ (gs : List GroupE) (outs : List (List Instr)), compileGroups ly gs = .ok outs →
    ∀ (w : Nat → Word) (nr : Word) (args : Nat → BitVec 64) (d : Word), Sees ly w nr args →
      run w (outs.flatten ++ [.ret d]) nr =
        match gs.find? (·.matches nr args) with
        | some g => .ret g.r
        | none => .ret d
  | [], outs, h, w, nr, args, d, _ => by
    simp only [compileGroups] at h; cases h; simp [run_ret]
  | g :: more, outs, h, w, nr, args, d, hs => by
    simp only [compileGroups] at h
    split at h
    · cases h
    · rename_i out hg
      split at h
      · cases h
      · rename_i outs' hm
        cases h
        obtain ⟨hb, hr⟩ := compileGroup_spec ly g out hg
        have ih := compileGroups_spec more outs' hm w nr args d hs
        simp only [List.flatten_cons, List.append_assoc]
        rw [run_append w _ _ _ hb, hr w nr args hs]
        by_cases hmt : g.matches nr args = true
        · simp [hmt, Result.andThen, List.find?_cons]
        · simp only [hmt, Bool.false_eq_true, if_false, Result.andThen, List.find?_cons]
          exact ih

/-- **compile_correct (entry level)**: whatever the compiler accepts decides every event as the policy says -/
theorem compile_correct (ar : ArchI) (gs : List GroupE) (d : Word) (prog : List Instr)
    (h : compilePolicy ly ar gs d = .ok prog)
    (w : Nat → Word) (nr : Word) (args : Nat → BitVec 64) (hs : Sees ly w nr args) (a0 : Word) :
    run w prog a0 =
      if w 4 ≠ ar.id then .ret d
      else if ar.x86 = true ∧ x32Bit.ule nr = true then .ret enosys
      else match gs.find? (·.matches nr args) with
        | some g => .ret g.r
        | none => .ret d := by
  unfold compilePolicy at h
  split at h
  · cases h
  · rename_i outs ho
    cases h
    rw [prologue_spec, hs.nr, compileGroups_spec ly gs outs ho w nr args d hs]
#print axioms compile_correct
