import Seccomp.Proofs.Lemmas.Halves

variable (w : Nat → Word)

/-- where control is after the instructions of one condition: looked up in `lab nextArg :: rest` -/
abbrev K (e l c : Nat) (rest : List (Tok PL)) (x : PL) (a : Word) : Result :=
  contAt w x (.lab (.nextArg e l c) :: rest) a

section
variable {w}
variable {e l c : Nat} {rest : List (Tok PL)} {m nm : PL} {f0 f1 : PL}

/-- shape A (`Equal`, `BitsNotSet`): leave to `nm` on the high word, decide on the low word -/
theorem shapeA (c1 c2 : Cond) (vh vl : Word) (oh ol : Nat) (a : Word)
    (hnm0 : nm ≠ f0) (hm0 : m ≠ f0) :
    runT w ([.ins (.ld oh)] ++ jt c1 vh nm f0 ++ [.ins (.ld ol), .ins (.jif c2 vl m nm)] ++
        [.lab (.nextArg e l c)] ++ rest) a =
      if c1.eval (w oh) vh then K w e l c rest nm (w oh)
      else K w e l c rest (if c2.eval (w ol) vl then m else nm) (w ol) := by
  simp only [jt, List.cons_append, List.nil_append, runT_ld, runT_jif]
  by_cases h1 : c1.eval (w oh) vh = true
  · simp only [h1, if_true]
    rw [contAt_cons_lab_ne _ _ _ _ _ (Ne.symm hnm0), contAt_cons_ins, contAt_cons_ins]
  · simp only [h1, Bool.false_eq_true, if_false, contAt_lab_self, runT_ld, runT_jif]

/-- shape B (`NotEqual`, `BitsSet`): leave to `m` on the high word, decide on the low word -/
theorem shapeB (c1 c2 : Cond) (vh vl : Word) (oh ol : Nat) (a : Word)
    (hnm0 : nm ≠ f0) (hm0 : m ≠ f0) :
    runT w ([.ins (.ld oh)] ++ jt c1 vh m f0 ++ [.ins (.ld ol), .ins (.jif c2 vl m nm)] ++
        [.lab (.nextArg e l c)] ++ rest) a =
      if c1.eval (w oh) vh then K w e l c rest m (w oh)
      else K w e l c rest (if c2.eval (w ol) vl then m else nm) (w ol) := by
  simp only [jt, List.cons_append, List.nil_append, runT_ld, runT_jif]
  by_cases h1 : c1.eval (w oh) vh = true
  · simp only [h1, if_true]
    rw [contAt_cons_lab_ne _ _ _ _ _ (Ne.symm hm0), contAt_cons_ins, contAt_cons_ins]
  · simp only [h1, Bool.false_eq_true, if_false, contAt_lab_self, runT_ld, runT_jif]

/-- shape C (the four orderings): `m` if the high word decides, `nm` if it differs, else the low word -/
theorem shapeC (c1 c2 : Cond) (vh vl : Word) (oh ol : Nat) (a : Word)
    (hnm0 : nm ≠ f0) (hm0 : m ≠ f0) (hnm1 : nm ≠ f1) (hm1 : m ≠ f1) :
    runT w ([.ins (.ld oh)] ++ jt c1 vh m f0 ++ jt .ne vh nm f1 ++ [.ins (.ld ol), .ins (.jif c2 vl m nm)] ++
        [.lab (.nextArg e l c)] ++ rest) a =
      if c1.eval (w oh) vh then K w e l c rest m (w oh)
      else if Cond.ne.eval (w oh) vh then K w e l c rest nm (w oh)
      else K w e l c rest (if c2.eval (w ol) vl then m else nm) (w ol) := by
  simp only [jt, List.cons_append, List.nil_append, runT_ld, runT_jif]
  by_cases h1 : c1.eval (w oh) vh = true
  · simp only [h1, if_true]
    rw [contAt_cons_lab_ne _ _ _ _ _ (Ne.symm hm0), contAt_cons_ins,
      contAt_cons_lab_ne _ _ _ _ _ (Ne.symm hm1), contAt_cons_ins, contAt_cons_ins]
  · simp only [h1, Bool.false_eq_true, if_false, contAt_lab_self, runT_jif]
    by_cases h2 : Cond.ne.eval (w oh) vh = true
    · simp only [h2, if_true]
      rw [contAt_cons_lab_ne _ _ _ _ _ (Ne.symm hnm1), contAt_cons_ins, contAt_cons_ins]
    · simp only [h2, Bool.false_eq_true, if_false, contAt_lab_self, runT_ld, runT_jif]
end

/-- One lowered condition: control continues at `m` iff the 64-bit relation holds, else at `noMatch`. -/
theorem cond_spec (ly : Layout) (nr : Word) (args : Nat → BitVec 64) (hs : Sees ly w nr args)
    (e l c : Nat) (cnd : Cnd) (m : PL) (rest : List (Tok PL)) (a : Word)
    (hm : ∀ j, m ≠ .nextIns e l c j) :
    ∃ a', runT w (condToks ly e l c cnd m ++ rest) a =
      K w e l c rest (if cnd.holds args then m else .noMatch e l) a' := by
  have hnm : ∀ j, PL.noMatch e l ≠ .nextIns e l c j := by intro j; simp
  rw [holds_halves]
  unfold condToks
  cases hop : cnd.op <;> simp only
  · -- eq
    rw [shapeA (hnm0 := hnm 0) (hm0 := hm 0), hs.hi, hs.lo]
    by_cases h1 : Cond.ne.eval (hi (args cnd.arg)) (hi cnd.val) = true
    · exact ⟨hi (args cnd.arg), by simp only [Cond.eval] at h1 ⊢; simp [h1]⟩
    · exact ⟨lo (args cnd.arg), by simp only [Cond.eval] at h1 ⊢; simp [h1]⟩
  · -- ne
    rw [shapeB (hnm0 := hnm 0) (hm0 := hm 0), hs.hi, hs.lo]
    by_cases h1 : Cond.ne.eval (hi (args cnd.arg)) (hi cnd.val) = true
    · exact ⟨hi (args cnd.arg), by simp only [Cond.eval] at h1 ⊢; simp [h1]⟩
    · exact ⟨lo (args cnd.arg), by simp only [Cond.eval] at h1 ⊢; simp [h1]⟩
  · -- gt
    rw [shapeC (hnm0 := hnm 0) (hm0 := hm 0) (hnm1 := hnm 1) (hm1 := hm 1), hs.hi, hs.lo]
    by_cases h1 : Cond.gt.eval (hi (args cnd.arg)) (hi cnd.val) = true
    · exact ⟨hi (args cnd.arg), by simp only [Cond.eval] at h1 ⊢; simp [h1]⟩
    · by_cases h2 : Cond.ne.eval (hi (args cnd.arg)) (hi cnd.val) = true
      · exact ⟨hi (args cnd.arg), by simp only [Cond.eval] at h1 h2 ⊢; simp [h1, h2]⟩
      · refine ⟨lo (args cnd.arg), ?_⟩
        simp only [Cond.eval] at h1 h2 ⊢
        simp only [h1, h2, if_false, Bool.false_eq_true, Bool.false_or, Bool.not_false, Bool.true_and]
        split <;> simp_all
  · -- lt
    rw [shapeC (hnm0 := hnm 0) (hm0 := hm 0) (hnm1 := hnm 1) (hm1 := hm 1), hs.hi, hs.lo]
    by_cases h1 : Cond.lt.eval (hi (args cnd.arg)) (hi cnd.val) = true
    · exact ⟨hi (args cnd.arg), by simp only [Cond.eval] at h1 ⊢; simp [h1]⟩
    · by_cases h2 : Cond.ne.eval (hi (args cnd.arg)) (hi cnd.val) = true
      · exact ⟨hi (args cnd.arg), by simp only [Cond.eval] at h1 h2 ⊢; simp [h1, h2]⟩
      · refine ⟨lo (args cnd.arg), ?_⟩
        simp only [Cond.eval] at h1 h2 ⊢
        simp only [h1, h2, if_false, Bool.false_eq_true, Bool.false_or, Bool.not_false, Bool.true_and]
        split <;> simp_all
  · -- ge
    rw [shapeC (hnm0 := hnm 0) (hm0 := hm 0) (hnm1 := hnm 1) (hm1 := hm 1), hs.hi, hs.lo]
    by_cases h1 : Cond.gt.eval (hi (args cnd.arg)) (hi cnd.val) = true
    · exact ⟨hi (args cnd.arg), by simp only [Cond.eval] at h1 ⊢; simp [h1]⟩
    · by_cases h2 : Cond.ne.eval (hi (args cnd.arg)) (hi cnd.val) = true
      · exact ⟨hi (args cnd.arg), by simp only [Cond.eval] at h1 h2 ⊢; simp [h1, h2]⟩
      · refine ⟨lo (args cnd.arg), ?_⟩
        simp only [Cond.eval] at h1 h2 ⊢
        simp only [h1, h2, if_false, Bool.false_eq_true, Bool.false_or, Bool.not_false, Bool.true_and]
        split <;> simp_all
  · -- le
    rw [shapeC (hnm0 := hnm 0) (hm0 := hm 0) (hnm1 := hnm 1) (hm1 := hm 1), hs.hi, hs.lo]
    by_cases h1 : Cond.lt.eval (hi (args cnd.arg)) (hi cnd.val) = true
    · exact ⟨hi (args cnd.arg), by simp only [Cond.eval] at h1 ⊢; simp [h1]⟩
    · by_cases h2 : Cond.ne.eval (hi (args cnd.arg)) (hi cnd.val) = true
      · exact ⟨hi (args cnd.arg), by simp only [Cond.eval] at h1 h2 ⊢; simp [h1, h2]⟩
      · refine ⟨lo (args cnd.arg), ?_⟩
        simp only [Cond.eval] at h1 h2 ⊢
        simp only [h1, h2, if_false, Bool.false_eq_true, Bool.false_or, Bool.not_false, Bool.true_and]
        split <;> simp_all
  · -- set
    rw [shapeB (hnm0 := hnm 0) (hm0 := hm 0), hs.hi, hs.lo]
    by_cases h1 : Cond.set.eval (hi (args cnd.arg)) (hi cnd.val) = true
    · exact ⟨hi (args cnd.arg), by simp only [Cond.eval] at h1 ⊢; simp [h1]⟩
    · exact ⟨lo (args cnd.arg), by simp only [Cond.eval] at h1 ⊢; simp [h1]⟩
  · -- nset
    rw [shapeA (hnm0 := hnm 0) (hm0 := hm 0), hs.hi, hs.lo]
    by_cases h1 : Cond.set.eval (hi (args cnd.arg)) (hi cnd.val) = true
    · exact ⟨hi (args cnd.arg), by simp only [Cond.eval] at h1 ⊢; simp [h1]⟩
    · exact ⟨lo (args cnd.arg), by simp only [Cond.eval] at h1 ⊢; simp [h1]⟩
#print axioms cond_spec
