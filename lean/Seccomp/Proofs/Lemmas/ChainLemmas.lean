import Seccomp.Model.Chain
/-!
# Lemmas about the kernel's loop over a chain of filters (`Model/Chain.lean`)
-/

namespace Chain

theorem mask_mod (v : Word) : (v &&& actionFull).toNat % 65536 = 0 := by
  have h := @Nat.and_mod_two_pow v.toNat 4294901760 16
  simp [actionFull, BitVec.toNat_and] at h ⊢
  exact h

theorem actionOnly_retAllow : actionOnly retAllow = 2147418112 := by decide

/-- no action is above `allow` in the kernel's order -/
theorem actionOnly_le_allow (v : Word) : actionOnly v ≤ actionOnly retAllow := by
  have hm := mask_mod v
  have hlt := (v &&& actionFull).isLt
  rw [actionOnly_retAllow]
  unfold actionOnly
  rw [BitVec.toInt_eq_toNat_cond]
  split <;> omega

/-- an action part that is not below `allow` *is* `allow` -/
theorem mask_eq_allow_of_not_lt (v : Word) (h : ¬ actionOnly v < actionOnly retAllow) :
    v &&& actionFull = retAllow := by
  have hle := actionOnly_le_allow v
  have heq : actionOnly v = actionOnly retAllow := by omega
  have hm := mask_mod v
  have hlt := (v &&& actionFull).isLt
  rw [actionOnly_retAllow] at heq
  unfold actionOnly at heq
  rw [BitVec.toInt_eq_toNat_cond] at heq
  apply BitVec.eq_of_toNat_eq
  have : retAllow.toNat = 2147418112 := by decide
  rw [this]
  split at heq <;> omega

theorem keep_le_left (r c : Word) : actionOnly (keep r c) ≤ actionOnly r := by
  unfold keep; split <;> omega

theorem keep_le_right (r c : Word) : actionOnly (keep r c) ≤ actionOnly c := by
  unfold keep; split <;> omega

theorem keep_cases (r c : Word) : keep r c = r ∨ keep r c = c := by
  unfold keep; split <;> simp

theorem runFrom_le_start (r : Word) (vs : List Word) : actionOnly (runFrom r vs) ≤ actionOnly r := by
  induction vs generalizing r with
  | nil => simp [runFrom]
  | cons c older ih =>
    simp only [runFrom]
    have := ih (keep r c); have := keep_le_left r c; omega

theorem runFrom_le_mem (r : Word) (vs : List Word) (v : Word) (h : v ∈ vs) :
    actionOnly (runFrom r vs) ≤ actionOnly v := by
  induction vs generalizing r with
  | nil => cases h
  | cons c older ih =>
    simp only [runFrom]
    rcases List.mem_cons.mp h with rfl | h'
    · have := runFrom_le_start (keep r v) older; have := keep_le_right r v; omega
    · exact ih (keep r c) h'

theorem runFrom_mem (r : Word) (vs : List Word) : runFrom r vs = r ∨ runFrom r vs ∈ vs := by
  induction vs generalizing r with
  | nil => simp [runFrom]
  | cons c older ih =>
    simp only [runFrom]
    rcases ih (keep r c) with h | h
    · rcases keep_cases r c with k | k
      · left; rw [h, k]
      · right; rw [h, k]; exact List.mem_cons_self
    · right; exact List.mem_cons_of_mem _ h

/-- the loop is monotone in the value it starts from -/
theorem runFrom_mono (r r' : Word) (vs : List Word) (h : actionOnly r' ≤ actionOnly r) :
    actionOnly (runFrom r' vs) ≤ actionOnly (runFrom r vs) := by
  induction vs generalizing r r' with
  | nil => simpa [runFrom]
  | cons c older ih =>
    simp only [runFrom]
    apply ih
    unfold keep
    split <;> split <;> omega

end Chain
