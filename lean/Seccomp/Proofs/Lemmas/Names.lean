import Seccomp.Model.Spec
import Seccomp.Proofs.Lemmas.CompileEntries
/-!
# From names to resolved entries

`toEntries` (the model of `toSyscallsWithConditions`) produces, when it reports no problem, a list
of entries whose disjunction is exactly `Spec.groupMatches`: plain names, and for every name with
conditions the OR of its condition lists (same-name merging).
-/

variable (A : ArchInfo) (nr : Word) (args : Nat → BitVec 64)

/-- `Cnd.holds` (bit-vector comparisons) is the relation of the specification -/
theorem Cnd.holds_eq_rel (c : Cnd) : c.holds args = Spec.rel c.op (args c.arg) c.val := by
  unfold Cnd.holds Spec.rel
  cases c.op <;> simp [BitVec.ult, BitVec.ule]

theorem validateConds_nil {conds : List Condition} (h : validateConds conds = []) :
    ∀ c ∈ conds, c.arg ≤ 5 ∧ (opOfString c.op).isSome = true := by
  induction conds with
  | nil => intro c hc; cases hc
  | cons c rest ih =>
    simp only [validateConds, List.append_eq_nil_iff] at h
    obtain ⟨⟨h1, h2⟩, h3⟩ := h
    intro c' hc'
    rcases List.mem_cons.1 hc' with rfl | hm
    · constructor
      · by_cases hgt : c'.arg > 5
        · simp [hgt] at h1
        · omega
      · cases ho : opOfString c'.op with
        | none => simp [ho] at h2
        | some _ => rfl
    · exact ih h3 c' hm

theorem toCnds_spec {conds : List Condition} (h : ∀ c ∈ conds, (opOfString c.op).isSome = true) :
    (toCnds conds).isEmpty = conds.isEmpty ∧
    (toCnds conds).all (·.holds args) = conds.all (Spec.condHolds · args) := by
  induction conds with
  | nil => simp [toCnds]
  | cons c rest ih =>
    have hc := h c List.mem_cons_self
    obtain ⟨_, ih2⟩ := ih (fun c' hc' => h c' (List.mem_cons_of_mem _ hc'))
    cases ho : opOfString c.op with
    | none => simp [ho] at hc
    | some op =>
      simp only [toCnds, ho, List.isEmpty_cons, List.all_cons, ih2, true_and]
      congr 1
      simp [Cnd.holds_eq_rel, Spec.condHolds, ho]

theorem listMatches_toCnds {conds : List Condition} (h : validateConds conds = []) :
    listMatches args (toCnds conds) = (!conds.isEmpty && conds.all (Spec.condHolds · args)) := by
  obtain ⟨h1, h2⟩ := toCnds_spec args (fun c hc => (validateConds_nil h c hc).2)
  simp [listMatches, h1, h2]

/-- disjunction of the entries -/
abbrev anyMatch (es : List Entry) : Bool := es.any (·.matches nr args)

theorem nameIs_some {name : String} {num : Word} (h : A.number name = some num) :
    Spec.nameIs A nr name = (nr == num) := by simp [Spec.nameIs, h]

theorem nameIs_none {name : String} (h : A.number name = none) : Spec.nameIs A nr name = false := by
  simp [Spec.nameIs, h]

/-- first loop: with no problem reported, the entries gained are the plain names -/
theorem resolveNames_spec : ∀ (names : List String) (es : List Entry) (ps : List Problem) (es' : List Entry),
    resolveNames A names es ps = (es', []) →
    ps = [] ∧ anyMatch nr args es' = (anyMatch nr args es || names.any (Spec.nameIs A nr))
  | [], es, ps, es', h => by
    simp only [resolveNames, Prod.mk.injEq] at h
    obtain ⟨rfl, rfl⟩ := h
    simp
  | name :: rest, es, ps, es', h => by
    simp only [resolveNames] at h
    cases hn : A.number name with
    | none =>
      simp only [hn] at h
      have := (resolveNames_spec rest es _ es' h).1
      simp at this
    | some num =>
      simp only [hn] at h
      split at h
      · have := (resolveNames_spec rest es _ es' h).1
        simp at this
      · obtain ⟨hp, hm⟩ := resolveNames_spec rest _ ps es' h
        refine ⟨hp, ?_⟩
        rw [hm]
        simp [anyMatch, Entry.matches, nameIs_some A nr hn, Bool.or_assoc]

theorem Entry.num_cond (n : Word) (ls) : (Entry.cond n ls).num = n := rfl
theorem Entry.num_uncond (n : Word) : (Entry.uncond n).num = n := rfl

/-- appending a list to the first entry with that number adds one alternative -/
theorem anyMatch_addList (num : Word) (cs : List Cnd) : ∀ (es : List Entry) (n : Word) (ls : List (List Cnd)),
    es.find? (·.num == num) = some (.cond n ls) →
    anyMatch nr args (addList num cs es) = (anyMatch nr args es || (nr == num && listMatches args cs))
  | [], _, _, h => by simp at h
  | e :: rest, n, ls, h => by
    simp only [List.find?_cons] at h
    by_cases he : (e.num == num) = true
    · simp only [he] at h
      have heq : e = .cond n ls := by simpa using h
      subst heq
      have hnum : n = num := by simpa [Entry.num] using he
      subst hnum
      simp only [addList, Entry.num_cond, if_true, anyMatch, List.any_cons, Entry.matches, List.any_append,
        List.any_nil, Bool.or_false]
      cases (nr == n) <;> cases (ls.any (listMatches args)) <;> cases (listMatches args cs) <;> simp
    · have hne : ¬ e.num = num := by simpa using he
      simp only [he, Bool.false_eq_true, if_false] at h
      have ih := anyMatch_addList num cs rest n ls h
      simp only [addList, hne, if_false, anyMatch, List.any_cons] at ih ⊢
      rw [ih, Bool.or_assoc]

/-- second loop: with no problem reported, every name with conditions contributes the alternative
    "number matches and the (non-empty) list holds" -/
theorem resolveConds_spec : ∀ (ncs : List NameConds) (es : List Entry) (ps : List Problem) (es' : List Entry),
    resolveConds A ncs es ps = (es', []) →
    ps = [] ∧ anyMatch nr args es' = (anyMatch nr args es ||
      ncs.any (fun nc => Spec.nameIs A nr nc.name && !nc.conds.isEmpty && nc.conds.all (Spec.condHolds · args)))
  | [], es, ps, es', h => by
    simp only [resolveConds, Prod.mk.injEq] at h
    obtain ⟨rfl, rfl⟩ := h
    simp
  | nc :: rest, es, ps, es', h => by
    simp only [resolveConds] at h
    cases hn : A.number nc.name with
    | none =>
      simp only [hn] at h
      have := (resolveConds_spec rest es _ es' h).1
      simp at this
    | some num =>
      simp only [hn] at h
      by_cases hv : validateConds nc.conds = []
      · simp only [hv, List.isEmpty_nil, Bool.not_true, Bool.false_eq_true, if_false] at h
        have hlm := listMatches_toCnds args hv
        cases hf : es.find? (·.num == num) with
        | none =>
          simp only [hf] at h
          obtain ⟨hp, hm⟩ := resolveConds_spec rest _ ps es' h
          refine ⟨hp, ?_⟩
          rw [hm]
          simp only [anyMatch, List.any_append, List.any_cons, List.any_nil, Bool.or_false, Entry.matches,
            nameIs_some A nr hn, hlm, Bool.or_assoc, Bool.and_assoc]
        | some e =>
          simp only [hf] at h
          cases e with
          | uncond n =>
            simp only at h
            have := (resolveConds_spec rest es _ es' h).1
            simp at this
          | cond n ls =>
            simp only at h
            obtain ⟨hp, hm⟩ := resolveConds_spec rest _ ps es' h
            refine ⟨hp, ?_⟩
            rw [hm, anyMatch_addList nr args num _ es n ls hf]
            simp only [List.any_cons, nameIs_some A nr hn, hlm, Bool.or_assoc, Bool.and_assoc]
      · have hne : (validateConds nc.conds).isEmpty = false := by
          cases hvc : validateConds nc.conds with
          | nil => exact absurd hvc hv
          | cons _ _ => rfl
        simp only [hne, Bool.not_false, if_true] at h
        have := (resolveConds_spec rest es _ es' h).1
        have hvne : validateConds nc.conds ≠ [] := hv
        simp [hvne] at this

/-- **names → entries**: what `toSyscallsWithConditions` returns without error matches an event
    exactly when the group, as written, lists it -/
theorem toEntries_spec (g : Group) (ents : List Entry) (h : toEntries A g = .ok ents) :
    anyMatch nr args ents = Spec.groupMatches A g nr args := by
  unfold toEntries at h
  generalize h1 : resolveNames A g.names [] [] = r1 at h
  obtain ⟨es1, ps1⟩ := r1
  simp only at h
  generalize h2 : resolveConds A g.withConds es1 ps1 = r2 at h
  obtain ⟨es2, ps2⟩ := r2
  simp only at h
  split at h
  · rename_i hemp
    have hps2 : ps2 = [] := by simpa using hemp
    subst hps2
    simp only [Except.ok.injEq] at h
    subst h
    obtain ⟨hp1, hm2⟩ := resolveConds_spec A nr args g.withConds es1 ps1 es2 h2
    subst hp1
    obtain ⟨_, hm1⟩ := resolveNames_spec A nr args g.names [] [] es1 h1
    rw [hm2, hm1]
    simp [anyMatch, Spec.groupMatches]
  · cases h
