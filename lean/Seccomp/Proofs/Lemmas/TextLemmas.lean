import Seccomp.Model.Text
/-!
# Helper lemmas for C13 / C14: searching a table whose matching entry is unique
-/

namespace Text

/-- a search finds the unique matching member -/
theorem find?_of_unique {α} {p : α → Bool} {l : List α} {a : α} (ha : a ∈ l) (hp : p a = true)
    (huniq : ∀ x ∈ l, ∀ y ∈ l, p x = true → p y = true → x = y) : l.find? p = some a := by
  cases h : l.find? p with
  | none => exact absurd hp (List.find?_eq_none.1 h a ha)
  | some b =>
    have hb := List.mem_of_find?_eq_some h
    have hpb := List.find?_some h
    rw [huniq b hb a ha hpb hp]

/-- a search whose predicate holds for at most one member does not depend on the order of the list
    (this is the model of "iterate a Go map until the entry is found") -/
theorem find?_perm {α} {p : α → Bool} {l₁ l₂ : List α} (h : l₁.Perm l₂)
    (huniq : ∀ x ∈ l₂, ∀ y ∈ l₂, p x = true → p y = true → x = y) : l₁.find? p = l₂.find? p := by
  cases h2 : l₂.find? p with
  | none =>
    rw [List.find?_eq_none] at h2 ⊢
    intro x hx
    exact h2 x (h.mem_iff.1 hx)
  | some a =>
    have ha := List.mem_of_find?_eq_some h2
    have hp := List.find?_some h2
    apply find?_of_unique (h.mem_iff.2 ha) hp
    intro x hx y hy
    exact huniq x (h.mem_iff.1 hx) y (h.mem_iff.1 hy)

/-- keys of a table are pairwise distinct -/
def KeysUnique (m : List (Nat × String)) : Prop := ∀ x ∈ m, ∀ y ∈ m, x.1 = y.1 → x = y

/-- names of a table are pairwise distinct -/
def NamesUnique (m : List (Nat × String)) : Prop := ∀ x ∈ m, ∀ y ∈ m, runes x.2 = runes y.2 → x = y

instance (m : List (Nat × String)) : Decidable (KeysUnique m) := by unfold KeysUnique; infer_instance
instance (m : List (Nat × String)) : Decidable (NamesUnique m) := by unfold NamesUnique; infer_instance

/-- a map lookup does not depend on the iteration order of the map -/
theorem lookup_perm {m order : List (Nat × String)} (h : order.Perm m) (hk : KeysUnique m) (k : Nat) :
    order.find? (fun e => e.1 == k) = m.find? (fun e => e.1 == k) := by
  apply find?_perm h
  intro x hx y hy hpx hpy
  apply hk x hx y hy
  simp only [beq_iff_eq] at hpx hpy
  omega

/-- on ASCII strings `strings.ToLower` is ASCII lower-casing -/
theorem lower_ascii {rs : List Nat} (h : ∀ r ∈ rs, r < 128) : lower rs = rs.map asciiLower := by
  unfold lower
  apply List.map_congr_left
  intro r hr
  have := h r hr
  simp [lowerRune, asciiLower, this]

theorem asciiLower_lt {r : Nat} (h : r < 128) : asciiLower r < 128 := by
  unfold asciiLower; split <;> omega

/-- the entries of the case table, seen from ASCII: a range either lies above ASCII after lower-casing, or is
    one of the two single code points that map into ASCII -/
def RangeAboveAscii (cr : Gen.LowerRange) : Prop :=
  cr.hi < 128 ∨ (cr.ul = true ∧ 128 ≤ cr.lo) ∨ (cr.ul = false ∧ 128 + cr.sub ≤ cr.lo + cr.add) ∨
  (cr.lo = cr.hi ∧ (cr.lo = 0x130 ∨ cr.lo = 0x212A))

instance (cr : Gen.LowerRange) : Decidable (RangeAboveAscii cr) := by unfold RangeAboveAscii; infer_instance

theorem lowerRanges_above_ascii : ∀ cr ∈ Gen.lowerRanges, RangeAboveAscii cr := by decide +kernel

end Text
