import Seccomp.Proofs.Lemmas.Names
/-!
# `Policy.Assemble` decides every event as the specification says (names level)
-/

variable (A : ArchInfo) (ly : Layout)

/-- one assembled group: closed code that returns the group's action iff the group lists the event,
    and otherwise leaves through its end with the syscall number in the accumulator -/
theorem assembleGroup_spec (g : Group) (out : List Instr) (h : assembleGroup A ly g = .ok out) :
    InBounds out ∧ ∀ (w : Nat → Word) (nr : Word) (args : Nat → BitVec 64), Sees ly w nr args →
      run w out nr = if Spec.groupMatches A g nr args then .ret (enc g.action) else .exit nr := by
  unfold assembleGroup at h
  split at h
  · rename_i hemp
    cases h
    refine ⟨trivial, fun w nr args _ => ?_⟩
    have h1 : g.names = [] := by
      have := hemp; simp only [Bool.and_eq_true, List.isEmpty_iff] at this; exact this.1
    have h2 : g.withConds = [] := by
      have := hemp; simp only [Bool.and_eq_true, List.isEmpty_iff] at this; exact this.2
    simp [Spec.groupMatches, h1, h2, run_nil]
  · split at h
    · cases h
    · rename_i ents hents
      split at h
      · cases h
      · rename_i out' hasm
        cases h
        obtain ⟨hb, hr⟩ := group_compiled ly ents (enc g.action) out hasm
        refine ⟨hb, fun w nr args hs => ?_⟩
        rw [hr w nr args hs]
        have := toEntries_spec A nr args g ents hents
        simp only [anyMatch] at this
        rw [this]

/-- the groups in a row followed by the default return: the first group, in policy order, that lists
    the event decides -/
theorem assembleGroups_spec : ∀ (gs : List Group) (outs : List (List Instr)), assembleGroups A ly gs = .ok outs →
    ∀ (w : Nat → Word) (nr : Word) (args : Nat → BitVec 64) (d : Word), Sees ly w nr args →
      run w (outs.flatten ++ [.ret d]) nr =
        match gs.find? (fun g => Spec.groupMatches A g nr args) with
        | some g => .ret (enc g.action)
        | none => .ret d
  | [], outs, h, w, nr, args, d, _ => by
    simp only [assembleGroups] at h; cases h; simp [run_ret]
  | g :: more, outs, h, w, nr, args, d, hs => by
    simp only [assembleGroups] at h
    split at h
    · cases h
    · rename_i out hg
      split at h
      · cases h
      · rename_i outs' hm
        cases h
        obtain ⟨hb, hr⟩ := assembleGroup_spec A ly g out hg
        have ih := assembleGroups_spec more outs' hm w nr args d hs
        simp only [List.flatten_cons, List.append_assoc]
        rw [run_append w _ _ _ hb, hr w nr args hs]
        by_cases hmt : Spec.groupMatches A g nr args = true
        · simp [hmt, Result.andThen]
        · simp only [hmt, Bool.false_eq_true, if_false, Result.andThen, List.find?_cons]
          exact ih

/-- the accepted policy in terms of the word view -/
theorem assemblePolicy_spec (p : Policy) (prog : List Instr)
    (h : assemblePolicy (some A) ly p = .ok prog)
    (w : Nat → Word) (nr : Word) (args : Nat → BitVec 64) (hs : Sees ly w nr args) (a0 : Word) :
    run w prog a0 =
      if w 4 ≠ A.id then .ret (enc p.default)
      else if (A.id == auditArchX86_64) = true ∧ x32Bit.ule nr = true then .ret enosys
      else match p.groups.find? (fun g => Spec.groupMatches A g nr args) with
        | some g => .ret (enc g.action)
        | none => .ret (enc p.default) := by
  unfold assemblePolicy at h
  split at h
  · cases h
  · split at h
    · cases h
    · simp only at h
      split at h
      · cases h
      · rename_i outs ho
        cases h
        rw [prologue_spec, hs.nr, assembleGroups_spec A ly p.groups outs ho w nr args _ hs]
        rfl

/-! ## the two concrete layouts -/

theorem sees_words (e : Endian) (ev : Event) : Sees (Layout.ofEndian e) (words e ev) ev.nr ev.args := by
  constructor
  · simp [words]
  · intro i
    cases e with
    | little =>
      have h1 : (16 + 8 * i + 4) % 8 = 4 := by omega
      have h2 : (16 + 8 * i + 4 - 16) / 8 = i := by omega
      have h2' : (16 + 8 * i - 12) / 8 = i := by omega
      have h3 : ¬ (16 + 8 * i + 4 = 0) := by omega
      have h4 : ¬ (16 + 8 * i + 4 = 4) := by omega
      have h5 : ¬ (16 + 8 * i + 4 = 8) := by omega
      have h6 : ¬ (16 + 8 * i + 4 = 12) := by omega
      simp [words, Layout.ofEndian, h1, h2, h3, h4, h5, h6, *]
    | big =>
      have h1 : (16 + 8 * i) % 8 = 0 := by omega
      have h2 : (16 + 8 * i - 16) / 8 = i := by omega
      have h3 : ¬ (16 + 8 * i = 0) := by omega
      have h4 : ¬ (16 + 8 * i = 4) := by omega
      have h5 : ¬ (16 + 8 * i = 8) := by omega
      have h6 : ¬ (16 + 8 * i = 12) := by omega
      simp [words, Layout.ofEndian, h1, h2, h3, h4, h5, h6, *]
  · intro i
    cases e with
    | little =>
      have h1 : (16 + 8 * i) % 8 = 0 := by omega
      have h2 : (16 + 8 * i - 16) / 8 = i := by omega
      have h3 : ¬ (16 + 8 * i = 0) := by omega
      have h4 : ¬ (16 + 8 * i = 4) := by omega
      have h5 : ¬ (16 + 8 * i = 8) := by omega
      have h6 : ¬ (16 + 8 * i = 12) := by omega
      simp [words, Layout.ofEndian, h1, h2, h3, h4, h5, h6, *]
    | big =>
      have h1 : (16 + 8 * i + 4) % 8 = 4 := by omega
      have h2 : (16 + 8 * i + 4 - 16) / 8 = i := by omega
      have h2' : (16 + 8 * i - 12) / 8 = i := by omega
      have h3 : ¬ (16 + 8 * i + 4 = 0) := by omega
      have h4 : ¬ (16 + 8 * i + 4 = 4) := by omega
      have h5 : ¬ (16 + 8 * i + 4 = 8) := by omega
      have h6 : ¬ (16 + 8 * i + 4 = 12) := by omega
      simp [words, Layout.ofEndian, h1, h2, h3, h4, h5, h6, *]

theorem words_arch (e : Endian) (ev : Event) : words e ev 4 = ev.arch := by simp [words]

/-- **compile_correct**: for every architecture description, both byte orders, every accepted policy
    and every event, the compiled filter returns exactly the specified decision -/
theorem policy_compile_correct (e : Endian) (p : Policy) (prog : List Instr)
    (h : assemblePolicy (some A) (Layout.ofEndian e) p = .ok prog) (ev : Event) (a0 : Word) :
    run (words e ev) prog a0 = .ret (Spec.decision A p ev) := by
  rw [assemblePolicy_spec A _ p prog h (words e ev) ev.nr ev.args (sees_words e ev) a0, words_arch]
  unfold Spec.decision
  by_cases ha : ev.arch = A.id
  · simp only [ha, ne_eq, not_true_eq_false, if_false]
    have hx : ((A.id == auditArchX86_64) = true ∧ x32Bit.ule ev.nr = true) ↔
        (A.id = auditArchX86_64 ∧ ev.nr.toNat ≥ 0x40000000) := by
      simp [x32Bit, BitVec.ule]
    by_cases hc : (A.id == auditArchX86_64) = true ∧ x32Bit.ule ev.nr = true
    · rw [if_pos hc, if_pos (hx.1 hc)]; rfl
    · rw [if_neg hc, if_neg (fun h' => hc (hx.2 h'))]
      cases p.groups.find? (fun g => Spec.groupMatches A g ev.nr ev.args) <;> rfl
  · simp [ha]
