import Seccomp.Proofs.Lemmas.GroupShape
import Seccomp.Proofs.Lemmas.Names
import Seccomp.Model.Raw
/-!
# Structural validity of compiled programs (C05)
-/

/-! ## argument indices of resolved entries are ≤ 5 -/

def ArgsOk (es : List Entry) : Prop := ∀ ent ∈ es, ∀ a ∈ ent.args, a ≤ 5

theorem toCnds_args {conds : List Condition} (h : validateConds conds = []) : ∀ c ∈ toCnds conds, c.arg ≤ 5 := by
  have hv := validateConds_nil h
  induction conds with
  | nil => intro c hc; simp [toCnds] at hc
  | cons x rest ih =>
    have hrest : validateConds rest = [] := by
      simp only [validateConds, List.append_eq_nil_iff] at h; exact h.2
    intro c hc
    simp only [toCnds] at hc
    cases ho : opOfString x.op with
    | none => simp only [ho] at hc; exact ih hrest (fun c hc => hv c (List.mem_cons_of_mem _ hc)) c hc
    | some op =>
      simp only [ho, List.mem_cons] at hc
      rcases hc with rfl | hc
      · exact (hv x List.mem_cons_self).1
      · exact ih hrest (fun c hc => hv c (List.mem_cons_of_mem _ hc)) c hc

theorem argsOk_append {es : List Entry} {e : Entry} (h : ArgsOk es) (he : ∀ a ∈ e.args, a ≤ 5) : ArgsOk (es ++ [e]) := by
  intro ent hent a ha
  rcases List.mem_append.1 hent with h1 | h1
  · exact h ent h1 a ha
  · simp only [List.mem_cons, List.not_mem_nil, or_false] at h1; subst h1; exact he a ha

theorem argsOk_addList (num : Word) (cs : List Cnd) (hcs : ∀ c ∈ cs, c.arg ≤ 5) :
    ∀ (es : List Entry), ArgsOk es → ArgsOk (addList num cs es)
  | [], h => h
  | e :: rest, h => by
    have hrest : ArgsOk rest := fun ent hent => h ent (List.mem_cons_of_mem _ hent)
    simp only [addList]
    split
    · cases e with
      | uncond n => exact h
      | cond n ls =>
        intro ent hent a ha
        rcases List.mem_cons.1 hent with rfl | h1
        · simp only [Entry.args, List.flatten_append, List.map_append, List.mem_append, List.flatten_cons,
            List.flatten_nil, List.append_nil] at ha
          rcases ha with ha | ha
          · exact h (.cond n ls) List.mem_cons_self a (by simpa [Entry.args] using ha)
          · obtain ⟨c, hc, rfl⟩ := List.mem_map.1 ha
            exact hcs c hc
        · exact hrest ent h1 a ha
    · intro ent hent a ha
      rcases List.mem_cons.1 hent with rfl | h1
      · exact h ent List.mem_cons_self a ha
      · exact argsOk_addList num cs hcs rest hrest ent h1 a ha

theorem resolveNames_argsOk (A : ArchInfo) : ∀ (names : List String) (es : List Entry) (ps : List Problem),
    ArgsOk es → ArgsOk (resolveNames A names es ps).1
  | [], es, ps, h => h
  | n :: rest, es, ps, h => by
    simp only [resolveNames]
    cases A.number n with
    | none => exact resolveNames_argsOk A rest es _ h
    | some num =>
      simp only
      split
      · exact resolveNames_argsOk A rest es _ h
      · exact resolveNames_argsOk A rest _ ps (argsOk_append h (by intro a ha; simp [Entry.args] at ha))

theorem resolveConds_argsOk (A : ArchInfo) : ∀ (ncs : List NameConds) (es : List Entry) (ps : List Problem),
    ArgsOk es → ArgsOk (resolveConds A ncs es ps).1
  | [], es, ps, h => h
  | nc :: rest, es, ps, h => by
    simp only [resolveConds]
    cases A.number nc.name with
    | none => exact resolveConds_argsOk A rest es _ h
    | some num =>
      simp only
      split
      · exact resolveConds_argsOk A rest es _ h
      · rename_i hv
        have hv' : validateConds nc.conds = [] := by
          cases hvc : validateConds nc.conds with
          | nil => rfl
          | cons _ _ => simp [hvc] at hv
        have hargs := toCnds_args hv'
        split
        · refine resolveConds_argsOk A rest _ ps (argsOk_append h ?_)
          intro a ha
          simp only [Entry.args, List.flatten_cons, List.flatten_nil, List.append_nil, List.mem_map] at ha
          obtain ⟨c, hc, rfl⟩ := ha
          exact hargs c hc
        · exact resolveConds_argsOk A rest es _ h
        · exact resolveConds_argsOk A rest _ ps (argsOk_addList num _ hargs es h)

theorem toEntries_argsOk (A : ArchInfo) (g : Group) (ents : List Entry) (h : toEntries A g = .ok ents) : ArgsOk ents := by
  unfold toEntries at h
  have h1 := resolveNames_argsOk A g.names [] [] (by intro e he; cases he)
  generalize resolveNames A g.names [] [] = r1 at h h1
  obtain ⟨es1, ps1⟩ := r1
  have h2 := resolveConds_argsOk A g.withConds es1 ps1 h1
  simp only at h
  generalize resolveConds A g.withConds es1 ps1 = r2 at h h2
  obtain ⟨es2, ps2⟩ := r2
  simp only at h
  split at h
  · cases h; exact h2
  · cases h

/-! ## strict bounds: what the kernel's checker asks of every instruction -/

/-- loads are aligned words inside the 64-byte record -/
def LdOk (p : List Instr) : Prop := ∀ off, Instr.ld off ∈ p → off % 4 = 0 ∧ off < 64

/-- every jump lands strictly inside the program, every load is a word of the record -/
def StrictOk : List Instr → Prop
  | [] => True
  | .ld off :: rest => (off % 4 = 0 ∧ off < 64) ∧ StrictOk rest
  | .ret _ :: rest => StrictOk rest
  | .ja n :: rest => n < rest.length ∧ StrictOk rest
  | .jif _ _ jt jf :: rest => jt < rest.length ∧ jf < rest.length ∧ StrictOk rest

/-- closed code followed by non-empty strict code is strict -/
theorem strictOk_append : ∀ (p q : List Instr), InBounds p → LdOk p → q ≠ [] → StrictOk q → StrictOk (p ++ q)
  | [], q, _, _, _, hq => hq
  | i :: rest, q, hb, hl, hne, hq => by
    have hqlen : 0 < q.length := List.length_pos_iff.2 hne
    have hl' : LdOk rest := fun off hm => hl off (List.mem_cons_of_mem _ hm)
    have ih := strictOk_append rest q (InBounds_tail i rest hb) hl' hne hq
    cases i with
    | ld off => exact ⟨hl off List.mem_cons_self, ih⟩
    | ret k => exact ih
    | ja n =>
      simp only [InBounds] at hb
      show n < (rest ++ q).length ∧ StrictOk (rest ++ q)
      exact ⟨by rw [List.length_append]; omega, ih⟩
    | jif c k jt jf =>
      simp only [InBounds] at hb
      show jt < (rest ++ q).length ∧ jf < (rest ++ q).length ∧ StrictOk (rest ++ q)
      exact ⟨by rw [List.length_append]; omega, by rw [List.length_append]; omega, ih⟩

theorem InBounds_append : ∀ (p q : List Instr), InBounds p → InBounds q → InBounds (p ++ q)
  | [], q, _, hq => hq
  | i :: rest, q, hb, hq => by
    have ih := InBounds_append rest q (InBounds_tail i rest hb) hq
    cases i with
    | ld off => exact ih
    | ret k => exact ih
    | ja n =>
      simp only [InBounds] at hb
      show n ≤ (rest ++ q).length ∧ InBounds (rest ++ q)
      exact ⟨by rw [List.length_append]; omega, ih⟩
    | jif c k jt jf =>
      simp only [InBounds] at hb
      show jt ≤ (rest ++ q).length ∧ jf ≤ (rest ++ q).length ∧ InBounds (rest ++ q)
      exact ⟨by rw [List.length_append]; omega, by rw [List.length_append]; omega, ih⟩

/-- strictness is what `allInsnOk` checks on the encoded program -/
theorem allInsnOk_of_strict : ∀ (p : List Instr), StrictOk p → allInsnOk (p.map encode) = true
  | [], _ => rfl
  | i :: rest, h => by
    simp only [List.map_cons, allInsnOk, List.length_map, Bool.and_eq_true]
    cases i with
    | ld off =>
      obtain ⟨⟨h1, h2⟩, h3⟩ := h
      exact ⟨by simp [insnOk, encode, opLdAbsW, h1, h2], allInsnOk_of_strict rest h3⟩
    | ret k => exact ⟨by simp [insnOk, encode, opRetK, opLdAbsW], allInsnOk_of_strict rest h⟩
    | ja n =>
      obtain ⟨h1, h3⟩ := h
      exact ⟨by simp [insnOk, encode, opJa, opRetK, opLdAbsW, h1], allInsnOk_of_strict rest h3⟩
    | jif c k jt jf =>
      obtain ⟨h1, h2, h3⟩ := h
      refine ⟨?_, allInsnOk_of_strict rest h3⟩
      cases c <;> simp [insnOk, encode, opJa, opRetK, opLdAbsW, opJeqK, opJgtK, opJgeK, opJsetK, h1, h2]

/-! ## the compiled policy -/

theorem ldOk_offsets (e : Endian) (a : Nat) (ha : a ≤ 5) :
    ((Layout.ofEndian e).hiOff a % 4 = 0 ∧ (Layout.ofEndian e).hiOff a < 64) ∧
    ((Layout.ofEndian e).loOff a % 4 = 0 ∧ (Layout.ofEndian e).loOff a < 64) := by
  cases e <;> simp only [Layout.ofEndian] <;> omega

/-- a rets-in predicate: every return value of the list is one of `vals` -/
def RetsIn (vals : List Word) (p : List Instr) : Prop := ∀ k, Instr.ret k ∈ p → k ∈ vals

theorem ldOk_nil : LdOk [] := fun _ hm => absurd hm List.not_mem_nil
theorem retsIn_nil (vals : List Word) : RetsIn vals [] := fun _ hm => absurd hm List.not_mem_nil

/-- one assembled group: closed, loads inside the record, only the group's return value, 8-bit skips -/
theorem assembleGroup_shape (A : ArchInfo) (e : Endian) (g : Group) (out : List Instr)
    (h : assembleGroup A (Layout.ofEndian e) g = .ok out) :
    InBounds out ∧ LdOk out ∧ RetsIn [enc g.action] out ∧ out.all fits = true := by
  unfold assembleGroup at h
  split at h
  · cases h
    exact ⟨trivial, ldOk_nil, retsIn_nil _, rfl⟩
  · split at h
    · cases h
    · rename_i ents hents
      split at h
      · cases h
      · rename_i out' hasm
        cases h
        obtain ⟨hb, _⟩ := group_compiled (Layout.ofEndian e) ents (enc g.action) out hasm
        obtain ⟨hld, hret⟩ := group_out_shape (Layout.ofEndian e) ents (enc g.action) out hasm
        have hargs := toEntries_argsOk A g ents hents
        refine ⟨hb, ?_, ?_, assemble_skips_fit _ out hasm⟩
        · intro off hm
          rcases hld off hm with h0 | ⟨ent, hent, a, ha, ho⟩
          · subst h0; exact ⟨rfl, by decide⟩
          · have := ldOk_offsets e a (hargs ent hent a ha)
            rcases ho with ho | ho <;> subst ho
            · exact this.1
            · exact this.2
        · intro k hm
          simp [hret k hm]

theorem assembleGroups_shape (A : ArchInfo) (e : Endian) : ∀ (gs : List Group) (outs : List (List Instr)),
    assembleGroups A (Layout.ofEndian e) gs = .ok outs →
    InBounds outs.flatten ∧ LdOk outs.flatten ∧ RetsIn (gs.map (fun g => enc g.action)) outs.flatten ∧
      outs.flatten.all fits = true
  | [], outs, h => by
    simp only [assembleGroups] at h; cases h
    exact ⟨trivial, ldOk_nil, retsIn_nil _, rfl⟩
  | g :: more, outs, h => by
    simp only [assembleGroups] at h
    split at h
    · cases h
    · rename_i out hg
      split at h
      · cases h
      · rename_i outs' hm
        cases h
        obtain ⟨b1, l1, r1, f1⟩ := assembleGroup_shape A e g out hg
        obtain ⟨b2, l2, r2, f2⟩ := assembleGroups_shape A e more outs' hm
        simp only [List.flatten_cons]
        refine ⟨InBounds_append _ _ b1 b2, ?_, ?_, by simp [List.all_append, f1, f2]⟩
        · intro off hmem
          rcases List.mem_append.1 hmem with h1 | h1
          · exact l1 off h1
          · exact l2 off h1
        · intro k hmem
          rcases List.mem_append.1 hmem with h1 | h1
          · have := r1 k h1; simp at this; simp [this]
          · exact List.mem_cons_of_mem _ (r2 k h1)

theorem strictOk_ret (d : Word) : StrictOk [Instr.ret d] := trivial

theorem strictOk_x32 (x86 : Bool) (body : List Instr) (hne : body ≠ []) (hb : StrictOk body) :
    StrictOk (x32Filter x86 ++ body) := by
  have hlen : 0 < body.length := List.length_pos_iff.2 hne
  cases x86 with
  | false => simpa [x32Filter] using hb
  | true =>
    simp only [x32Filter, if_true, List.cons_append, List.nil_append]
    exact ⟨by simp only [List.length_cons]; omega, by simp only [List.length_cons]; omega, hb⟩

/-- the whole program is strict, whichever form the architecture jump takes -/
theorem strictOk_policyProg (ar : ArchI) (body : List Instr) (hne : body ≠ []) (hb : StrictOk body) :
    StrictOk (policyProg ar body) := by
  have hx := strictOk_x32 ar.x86 body hne hb
  unfold policyProg
  simp only
  split
  · simp only [List.cons_append, List.nil_append]
    exact ⟨⟨rfl, by decide⟩, by simp only [List.length_cons]; omega, by simp only [List.length_cons]; omega,
      ⟨rfl, by decide⟩, hx⟩
  · simp only [List.cons_append, List.nil_append]
    exact ⟨⟨rfl, by decide⟩, by simp only [List.length_cons]; omega, by simp only [List.length_cons]; omega,
      by simp only [List.length_cons]; omega, ⟨rfl, by decide⟩, hx⟩

/-- under a length bound, strict code whose conditional skips fit 8 bits fits the raw widths -/
theorem fitsRaw_of_strict : ∀ (p : List Instr), StrictOk p → p.length ≤ 4096 → p.all fits = true →
    p.all Instr.fitsRaw = true
  | [], _, _, _ => rfl
  | i :: rest, hs, hl, hf => by
    simp only [List.length_cons] at hl
    simp only [List.all_cons, Bool.and_eq_true] at hf ⊢
    cases i with
    | ld off =>
      obtain ⟨⟨_, h2⟩, h3⟩ := hs
      exact ⟨by simp only [Instr.fitsRaw, decide_eq_true_eq]; omega, fitsRaw_of_strict rest h3 (by omega) hf.2⟩
    | ret k => exact ⟨rfl, fitsRaw_of_strict rest hs (by omega) hf.2⟩
    | ja n =>
      obtain ⟨h1, h3⟩ := hs
      exact ⟨by simp only [Instr.fitsRaw, decide_eq_true_eq]; omega, fitsRaw_of_strict rest h3 (by omega) hf.2⟩
    | jif c k jt jf =>
      obtain ⟨_, _, h3⟩ := hs
      refine ⟨?_, fitsRaw_of_strict rest h3 (by omega) hf.2⟩
      simpa [Instr.fitsRaw, fits] using hf.1

theorem fits_policyProg (ar : ArchI) (body : List Instr) (hf : body.all fits = true) :
    (policyProg ar body).all fits = true := by
  unfold policyProg
  simp only
  have hx : (x32Filter ar.x86).all fits = true := by cases ar.x86 <;> simp [x32Filter, fits]
  split
  · rename_i hle
    simp only [List.cons_append, List.nil_append, List.all_cons, List.all_append, hx, hf, fits, Bool.and_true,
      Bool.true_and, decide_eq_true_eq]
    simp only [List.length_append] at hle
    simp [hle]
  · simp [List.all_append, hx, hf, fits]
