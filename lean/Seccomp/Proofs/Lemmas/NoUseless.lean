import Seccomp.Proofs.Lemmas.AsmComplete
/-!
# When the resolver cannot fail

On a label program with forward jumps only (`WFT`) whose conditional jumps have two *different* labels,
at least one of which is not placed directly behind the jump (`JifOk`), `asmT` succeeds: "backward" is
excluded by `asm_complete`, and "useless jump" because a bridge for one label pushes the other one at
least one instruction away.
-/

variable {L : Type} [DecidableEq L]

/-- labels placed in front of the first instruction -/
def frontLabs : List (Tok L) → List L
  | [] => []
  | .lab l :: rest => l :: frontLabs rest
  | .ins _ :: _ => []

/-- every conditional jump has two different labels, not both placed directly behind it -/
def JifOk : List (Tok L) → Prop
  | [] => True
  | .ins (.jif _ _ tl fl) :: rest => tl ≠ fl ∧ (tl ∉ frontLabs rest ∨ fl ∉ frontLabs rest) ∧ JifOk rest
  | _ :: rest => JifOk rest

omit [DecidableEq L] in
theorem JifOk_tail (t : Tok L) (rest : List (Tok L)) (h : JifOk (t :: rest)) : JifOk rest := by
  cases t with
  | lab l => exact h
  | ins i => cases i <;> first | exact h | exact h.2.2

/-- a destination that is the whole laid-out suffix belongs to a label in front of the first instruction -/
def FrontInv (prog : List (Tok L)) (s : St L) : Prop :=
  ∀ l d, s.get l = some d → d = s.out.length → l ∈ frontLabs prog

theorem three_bridges_not_useless {s s1 s2 s3 : St L} {tl fl : L} (hle : DestLe s) (hne : tl ≠ fl)
    (hfar : ∀ dt df, s.get tl = some dt → s.get fl = some df → dt < s.out.length ∨ df < s.out.length)
    (h1 : bridge s fl = .ok s1) (h2 : bridge s1 tl = .ok s2) (h3 : bridge s2 fl = .ok s3)
    (dt df : Nat) (hdt : s3.get tl = some dt) (hdf : s3.get fl = some df) :
    ¬ (s3.out.length - dt = 0 ∧ s3.out.length - df = 0) := by
  have hle1 := bridge_destLe hle h1
  have hle2 := bridge_destLe hle1 h2
  have hle3 := bridge_destLe hle2 h3
  have hnf : ¬ fl = tl := fun e => hne e.symm
  rcases bridge_cases h3 with ⟨rfl, _⟩ | ⟨d2, b3, hd2, _, _, rfl⟩
  · -- step 3 inserted nothing
    rcases bridge_cases h2 with ⟨rfl, _⟩ | ⟨d1, b2, hd1, _, _, rfl⟩
    · -- step 2 inserted nothing
      rcases bridge_cases h1 with ⟨rfl, _⟩ | ⟨d0, b1, hd0, _, _, rfl⟩
      · -- nothing was inserted at all
        rcases hfar dt df hdt hdf with h | h <;> omega
      · -- only step 1 inserted (for `fl`): `tl` keeps its destination inside the old suffix
        rw [get_cons (o' := s.out)] at hdt
        simp only [hnf, if_false] at hdt
        have := hle tl dt hdt
        simp only [List.length_cons]; omega
    · -- step 2 inserted (for `tl`): `fl` keeps its destination inside the old suffix
      rw [get_cons (o' := s1.out)] at hdf
      simp only [hne, if_false] at hdf
      have := hle1 fl df hdf
      simp only [List.length_cons]; omega
  · -- step 3 inserted (for `fl`): `tl` keeps its destination inside the old suffix
    rw [get_cons (o' := s2.out)] at hdt
    simp only [hnf, if_false] at hdt
    have := hle2 tl dt hdt
    simp only [List.length_cons]; omega

theorem frontInv_step {t : Tok L} {rest : List (Tok L)} {s s' : St L} (hle : DestLe s)
    (hinv : FrontInv rest s) (hs : stepTok t s = .ok s') (hle' : DestLe s') : FrontInv (t :: rest) s' := by
  unfold stepTok at hs
  cases t with
  | lab l0 =>
    simp only at hs
    split at hs
    · cases hs
      intro l d hg hd
      exact List.mem_cons_of_mem _ (hinv l d hg hd)
    · cases hs
      intro l d hg hd
      rw [get_cons (o' := s.out)] at hg
      by_cases hl : l0 = l
      · subst hl; exact List.mem_cons_self
      · simp only [hl, if_false] at hg
        exact List.mem_cons_of_mem _ (hinv l d hg hd)
  | ins i =>
    -- an instruction was pushed: no destination is the whole suffix any more
    have key : ∀ (x : Instr) (s0 : St L), DestLe s0 → s' = { s0 with out := x :: s0.out } → FrontInv (.ins i :: rest) s' := by
      intro x s0 hle0 he l d hg hd
      subst he
      have : St.get { s0 with out := x :: s0.out } l = s0.get l := rfl
      rw [this] at hg
      have := hle0 l d hg
      simp only [List.length_cons] at hd
      omega
    cases i with
    | ld off => simp only at hs; cases hs; exact key _ s hle rfl
    | ret k => simp only at hs; cases hs; exact key _ s hle rfl
    | ja n => simp only at hs; cases hs; exact key _ s hle rfl
    | jif c k tl fl =>
      simp only at hs
      split at hs
      · cases hs
      · rename_i s1 hb1
        split at hs
        · cases hs
        · rename_i s2 hb2
          split at hs
          · cases hs
          · rename_i s3 hb3
            have hle3 := bridge_destLe (bridge_destLe (bridge_destLe hle hb1) hb2) hb3
            split at hs
            · split at hs
              · cases hs
              · cases hs; exact key _ s3 hle3 rfl
            · cases hs

/-- a conditional jump that is `JifOk` is never reported as useless -/
theorem step_not_useless {c : Cond} {k : Word} {tl fl : L} {rest : List (Tok L)} {s : St L}
    (hle : DestLe s) (hinv : FrontInv rest s) (hne : tl ≠ fl)
    (hfront : tl ∉ frontLabs rest ∨ fl ∉ frontLabs rest) :
    stepTok (.ins (.jif c k tl fl)) s ≠ .error .useless := by
  intro hs
  unfold stepTok at hs
  simp only at hs
  split at hs
  · rename_i e hb1; cases hs
    -- bridge only fails with `backward`
    unfold bridge at hb1
    split at hb1
    · cases hb1
    · split at hb1 <;> cases hb1
  · rename_i s1 hb1
    split at hs
    · rename_i e hb2; cases hs
      unfold bridge at hb2
      split at hb2
      · cases hb2
      · split at hb2 <;> cases hb2
    · rename_i s2 hb2
      split at hs
      · rename_i e hb3; cases hs
        unfold bridge at hb3
        split at hb3
        · cases hb3
        · split at hb3 <;> cases hb3
      · rename_i s3 hb3
        split at hs
        · rename_i dt df hdt hdf
          split at hs
          · rename_i huse
            have hfar : ∀ dt df, s.get tl = some dt → s.get fl = some df →
                dt < s.out.length ∨ df < s.out.length := by
              intro dt0 df0 h1 h2
              rcases hfront with hf | hf
              · left
                have h3 := hle tl dt0 h1
                by_cases he : dt0 = s.out.length
                · exact absurd (hinv tl dt0 h1 he) hf
                · omega
              · right
                have h3 := hle fl df0 h2
                by_cases he : df0 = s.out.length
                · exact absurd (hinv fl df0 h2 he) hf
                · omega
            exact three_bridges_not_useless hle hne hfar hb1 hb2 hb3 dt df hdt hdf huse
          · cases hs
        · cases hs

/-- **Totality**: forward jumps only, and every conditional jump `JifOk` ⇒ the resolver succeeds -/
theorem asm_total : ∀ (prog : List (Tok L)), WFT prog → JifOk prog →
    ∃ s, asmT prog = .ok s ∧ CInv prog s ∧ FrontInv prog s
  | [], _, _ => ⟨⟨[], []⟩, rfl,
      ⟨fun l ⟨i, hi, _⟩ => by simp [findLab] at hi, fun h => by simp [hasIns] at h⟩,
      fun l d hg _ => by simp [St.get] at hg⟩
  | t :: rest, hwf, hj => by
    obtain ⟨s, hs, hc, hf⟩ := asm_total rest (WFT_tail t rest hwf) (JifOk_tail t rest hj)
    have hle : DestLe s := (asm_fit rest s hs).1
    simp only [asmT, hs]
    rcases step_complete hwf hc with ⟨s', hs', hc'⟩ | herr
    · have hle' : DestLe s' := by
        have : asmT (t :: rest) = .ok s' := by simp only [asmT, hs, hs']
        exact (asm_fit (t :: rest) s' this).1
      exact ⟨s', hs', hc', frontInv_step hle hf hs' hle'⟩
    · exfalso
      cases t with
      | lab l => unfold stepTok at herr; simp only at herr; split at herr <;> cases herr
      | ins i =>
        cases i with
        | ld off => unfold stepTok at herr; cases herr
        | ret k => unfold stepTok at herr; cases herr
        | ja n => unfold stepTok at herr; cases herr
        | jif c k tl fl => exact step_not_useless hle hf hj.1 hj.2.1 herr

/-- `assemble` succeeds on such programs -/
theorem assemble_total (prog : List (Tok L)) (hwf : WFT prog) (hj : JifOk prog) :
    ∃ out, assemble prog = .ok out := by
  obtain ⟨s, hs, _, _⟩ := asm_total prog hwf hj
  exact ⟨s.out, by simp [assemble, hs, Except.map]⟩
