import Seccomp.Proofs.Lemmas.CondSpec

variable (w : Nat → Word) (ly : Layout) (nr : Word) (args : Nat → BitVec 64)

/-- labels placed by entry `e` (any list) -/
def inEntry (e : Nat) : PL → Prop
  | .nextArg e' _ _ => e' = e
  | .nextIns e' _ _ _ => e' = e
  | .noMatch e' _ => e' = e
  | .afterNr e' => e' = e
  | .nextSys e' => e' = e
  | .action => False

/-- labels placed inside the conditions of list `l` of entry `e` -/
def inList (e l : Nat) : PL → Prop
  | .nextArg e' l' _ => e' = e ∧ l' = l
  | .nextIns e' l' _ _ => e' = e ∧ l' = l
  | _ => False

theorem labelsOf_condToks (e l c cnd m) : ∀ x ∈ labelsOf (condToks ly e l c cnd m), inList e l x := by
  intro x hx
  unfold condToks at hx
  cases hop : cnd.op <;>
    simp only [hop, jt, labelsOf, labelsOf_append, List.cons_append, List.nil_append, List.mem_cons,
      List.mem_append, List.not_mem_nil, or_false, false_or] at hx <;>
    (rcases hx with h | h | h <;> (try subst h) <;> simp_all [inList])

theorem labelsOf_condsToks (e l : Nat) : ∀ (conds : List Cnd) (c : Nat),
    ∀ x ∈ labelsOf (condsToks ly e l c conds), inList e l x
  | [], _ => by simp [condsToks, labelsOf]
  | [cnd], c => by simpa [condsToks] using labelsOf_condToks ly e l c cnd .action
  | cnd :: cnd2 :: tl, c => by
    intro x hx
    simp only [condsToks, labelsOf_append, List.mem_append] at hx
    rcases hx with h | h
    · exact labelsOf_condToks ly _ _ _ _ _ x h
    · exact labelsOf_condsToks e l (cnd2 :: tl) (c+1) x h

/-- AND: a list of conditions in front of its `noMatch` marker -/
theorem list_spec (hs : Sees ly w nr args) (e l : Nat) : ∀ (conds : List Cnd) (c : Nat) (rest : List (Tok PL)) (a : Word),
    ∃ a', runT w (condsToks ly e l c conds ++ .lab (.noMatch e l) :: rest) a =
      if conds.isEmpty then runT w rest a
      else if conds.all (·.holds args) then contAt w .action rest a' else runT w rest a'
  | [], _, rest, a => ⟨a, by simp [condsToks]⟩
  | [cnd], c, rest, a => by
    obtain ⟨a', h⟩ := cond_spec w ly nr args hs e l c cnd .action (.lab (.noMatch e l) :: rest) a (by intro j; simp)
    refine ⟨a', ?_⟩
    simp only [condsToks, h, List.all_cons, List.all_nil, Bool.and_true, List.isEmpty_cons, Bool.false_eq_true, if_false]
    by_cases hh : cnd.holds args = true
    · simp only [hh, if_true, K]
      rw [contAt_cons_lab_ne _ _ _ _ _ (by simp), contAt_cons_lab_ne _ _ _ _ _ (by simp)]
    · simp only [hh, Bool.false_eq_true, if_false, K]
      rw [contAt_cons_lab_ne _ _ _ _ _ (by simp), contAt_lab_self]
  | cnd :: cnd2 :: tl, c, rest, a => by
    obtain ⟨a1, h⟩ := cond_spec w ly nr args hs e l c cnd (.nextArg e l c)
      (condsToks ly e l (c+1) (cnd2 :: tl) ++ .lab (.noMatch e l) :: rest) a (by intro j; simp)
    by_cases hh : cnd.holds args = true
    · obtain ⟨a2, ih⟩ := list_spec hs e l (cnd2 :: tl) (c+1) rest a1
      refine ⟨a2, ?_⟩
      simp only [condsToks, List.append_assoc, h, hh, if_true, K, contAt_lab_self, ih]
      simp [hh]
    · refine ⟨a1, ?_⟩
      simp only [condsToks, List.append_assoc, h, hh, Bool.false_eq_true, if_false, K]
      rw [contAt_cons_lab_ne _ _ _ _ _ (by simp),
        contAt_append_not_mem _ _ _ _ _ (fun hmem => by
          simpa [inList] using labelsOf_condsToks ly e l _ _ _ hmem), contAt_lab_self]
      simp [hh]

theorem labelsOf_listsToks (e : Nat) : ∀ (lists : List (List Cnd)) (l : Nat),
    ∀ x ∈ labelsOf (listsToks ly e l lists), inEntry e x ∧ x ≠ .nextSys e ∧ x ≠ .afterNr e
  | [], _ => by simp [listsToks, labelsOf]
  | conds :: rest, l => by
    intro x hx
    simp only [listsToks, labelsOf_append, List.mem_append, labelsOf, List.mem_cons, List.not_mem_nil, or_false] at hx
    rcases hx with (h | h) | h
    · have := labelsOf_condsToks ly e l conds 0 x h
      cases x <;> simp_all [inList, inEntry]
    · subst h; simp [inEntry]
    · exact labelsOf_listsToks e rest (l+1) x h

/-- OR: the lists of one entry; falls through (with some accumulator) when none matches -/
theorem lists_spec (hs : Sees ly w nr args) (e : Nat) : ∀ (lists : List (List Cnd)) (l : Nat) (rest : List (Tok PL)) (a : Word),
    ∃ a', runT w (listsToks ly e l lists ++ rest) a =
      if lists.any (listMatches args) then contAt w .action rest a' else runT w rest a'
  | [], _, rest, a => ⟨a, by simp [listsToks]⟩
  | conds :: more, l, rest, a => by
    obtain ⟨a1, h⟩ := list_spec w ly nr args hs e l conds 0 (listsToks ly e (l+1) more ++ rest) a
    simp only [listsToks, List.append_assoc, List.cons_append, List.nil_append, h]
    by_cases hm : listMatches args conds = true
    · refine ⟨a1, ?_⟩
      have hne : conds.isEmpty = false := by
        simp only [listMatches, Bool.and_eq_true, Bool.not_eq_true'] at hm; exact hm.1
      have hall : conds.all (·.holds args) = true := by
        simp only [listMatches, Bool.and_eq_true] at hm; exact hm.2
      simp only [hne, Bool.false_eq_true, if_false, hall, if_true, List.any_cons, hm, Bool.true_or]
      rw [contAt_append_not_mem _ _ _ _ _ (fun hmem => by
        have := (labelsOf_listsToks ly e more (l+1) _ hmem).1; simp [inEntry] at this)]
    · obtain ⟨a2, ih⟩ := lists_spec hs e more (l+1) rest a1
      by_cases hempty : conds.isEmpty = true
      · obtain ⟨a3, ih'⟩ := lists_spec hs e more (l+1) rest a
        refine ⟨a3, ?_⟩
        simp only [hempty, if_true, ih', List.any_cons, hm, Bool.false_or]
      · refine ⟨a2, ?_⟩
        have hall : conds.all (·.holds args) = false := by
          simp only [listMatches, Bool.and_eq_true, not_and, Bool.not_eq_true', Bool.not_eq_false] at hm
          cases hc : conds.isEmpty with
          | true => exact absurd hc hempty
          | false => simpa using hm (by simpa using hc)
        simp only [hempty, Bool.false_eq_true, if_false, hall, ih, List.any_cons, hm, Bool.false_or]
#print axioms lists_spec
