import Seccomp.Proofs.Lemmas.Bridges

variable {L : Type} [DecidableEq L]

theorem DestLe_push {s : St L} (x : Instr) (h : DestLe s) : DestLe { s with out := x :: s.out } := by
  intro l d hg
  have : s.get l = some d := hg
  have := h l d this; simp; omega

theorem step_fit {t : Tok L} {s s' : St L} (hle : DestLe s) (hfit : s.out.all fits = true)
    (hs : stepTok t s = .ok s') : DestLe s' ∧ s'.out.all fits = true := by
  unfold stepTok at hs
  cases t with
  | lab l =>
    simp only at hs
    split at hs
    · cases hs; exact ⟨hle, hfit⟩
    · cases hs
      refine ⟨?_, hfit⟩
      intro l' d hg
      rw [get_cons (o' := s.out)] at hg
      by_cases hl : l = l'
      · simp only [hl, if_true, Option.some.injEq] at hg; subst hg; exact Nat.le_refl _
      · simp only [hl, if_false] at hg; exact hle l' d hg
  | ins i =>
    cases i with
    | ld off => simp only at hs; cases hs; exact ⟨DestLe_push _ hle, by simp [fits, hfit]⟩
    | ret k => simp only at hs; cases hs; exact ⟨DestLe_push _ hle, by simp [fits, hfit]⟩
    | ja n => simp only at hs; cases hs; exact ⟨DestLe_push _ hle, by simp [fits, hfit]⟩
    | jif c k tl fl =>
      simp only at hs
      split at hs
      · cases hs
      · rename_i s1 hb1
        split at hs
        · cases hs
        · rename_i s2 hb2
          split at hs
          · cases hs
          · rename_i s3 hb3
            have hle3 := bridge_destLe (bridge_destLe (bridge_destLe hle hb1) hb2) hb3
            have hfit3 : s3.out.all fits = true := by
              have step : ∀ {a b : St L} {l}, bridge a l = .ok b → a.out.all fits = true → b.out.all fits = true := by
                intro a b l hb ha
                rcases bridge_cases hb with ⟨rfl, _⟩ | ⟨_, _, _, _, hb', rfl⟩
                · exact ha
                · simp [hb', ha]
              exact step hb3 (step hb2 (step hb1 hfit))
            obtain ⟨dt, df, hdt, hdf, ht, hf⟩ := three_bridges hle hb1 hb2 hb3
            simp only [hdt, hdf] at hs
            split at hs
            · cases hs
            · cases hs
              exact ⟨DestLe_push _ hle3, by simp [fits, ht, hf, hfit3]⟩

theorem asm_fit : ∀ (prog : List (Tok L)) (s : St L), asmT prog = .ok s → DestLe s ∧ s.out.all fits = true
  | [], s, h => by
    simp only [asmT] at h; cases h
    exact ⟨fun l d hg => by simp [St.get] at hg, rfl⟩
  | t :: rest, s, h => by
    simp only [asmT] at h
    split at h
    · cases h
    · rename_i s0 h0
      obtain ⟨a, b⟩ := asm_fit rest s0 h0
      exact step_fit a b h

/-- every conditional jump the resolver emits fits the 8-bit skip fields, whatever the distances were -/
theorem assemble_skips_fit (prog : List (Tok L)) (out : List Instr) (h : assemble prog = .ok out) :
    out.all fits = true := by
  unfold assemble at h
  cases hs : asmT prog with
  | error e => simp [hs, Except.map] at h
  | ok s =>
    simp only [hs, Except.map, Except.ok.injEq] at h
    subst h
    exact (asm_fit prog s hs).2
#print axioms assemble_skips_fit

/-! ### example: both branches far, 300 loads in between -/
def farProg : List (Tok Nat) :=
  [.ins (.ld 0), .ins (.jif .eq 1 10 20)] ++ (List.replicate 300 (.ins (.ld 4))) ++
  [.lab 20, .ins (.ret 222), .lab 10, .ins (.ret 111)]
#eval (assemble farProg).toOption.map (fun o => (o.length, o.take 5))
#eval (assemble farProg).toOption.map (fun o => (run (fun _ => 1) o 0, run (fun _ => 0) o 0))
