import Seccomp.Model.Cache
/-!
# Facts about the primitive steps of `Model/Cache.lean`
-/
namespace Cache

theorem step_dead {α : Type} (n : String) (d : α) (f : World → α × World) (w : World) (h : w.alive = false) :
    step n d f w = (d, w) := by simp [step, h]

theorem step_live {α : Type} (n : String) (d : α) (f : World → α × World) (w : World) (h : w.alive = true) :
    step n d f w = ((f w).1, tick n (f w).2) := by simp [step, h]

@[simp] theorem tick_fs (n : String) (w : World) : (tick n w).fs = w.fs := rfl
@[simp] theorem tick_env (n : String) (w : World) : (tick n w).env = w.env := rfl
@[simp] theorem tick_buf (n : String) (w : World) : (tick n w).buf = w.buf := rfl
@[simp] theorem tick_log (n : String) (w : World) : (tick n w).log = w.log := rfl
@[simp] theorem tick_steps (n : String) (w : World) : (tick n w).steps = w.steps + 1 := rfl

theorem tick_alive_nocrash (n : String) (w : World) (h : w.env.crashAt = none) : (tick n w).alive = true := by
  simp [tick, h]

@[simp] theorem FS.set_same (fs : FS) (p : Str) (v : Option Str) : (fs.set p v) p = v := by simp [FS.set]
theorem FS.set_ne (fs : FS) (p q : Str) (v : Option Str) (h : q ≠ p) : (fs.set p v) q = fs q := by simp [FS.set, h]
@[simp] theorem FS.append_same (fs : FS) (p : Str) (d : Str) : (fs.append p d) p = some ((fs p).getD [] ++ d) := by
  simp [FS.append]
theorem FS.append_ne (fs : FS) (p q : Str) (d : Str) (h : q ≠ p) : (fs.append p d) q = fs q := by
  simp [FS.append, FS.set_ne _ _ _ _ h]

/-- content of file `p` plus what is still in the writer -/
def pend (w : World) (p : Str) : Str := (w.fs p).getD [] ++ w.buf

/-! ### a dead process does nothing -/
section dead
variable (w : World) (h : w.alive = false)
include h
theorem cachedDumpFile_dead (b : Str) : cachedDumpFile b w = (([], .nil), w) := step_dead _ _ _ _ h
theorem osOpen_dead (p : Str) : osOpen p w = ((noFile, .nil), w) := step_dead _ _ _ _ h
theorem fileRead_dead (f : File) (b : Str) : fileRead f b w = ((0, .nil), b, w) := by simp [fileRead, step_dead _ _ _ _ h]
theorem fileClose_dead (f : File) : fileClose f w = (.nil, w) := step_dead _ _ _ _ h
theorem osCreateTemp_dead (d p : Str) : osCreateTemp d p w = ((noFile, .nil), w) := step_dead _ _ _ _ h
theorem osCreate_dead (p : Str) : osCreate p w = ((noFile, .nil), w) := step_dead _ _ _ _ h
theorem writeString_dead (o : Writer) (s : Str) : writeString o s w = ((0, .nil), w) := step_dead _ _ _ _ h
theorem cmdRun_dead (c : Cmd) : cmdRun c w = (.nil, w) := step_dead _ _ _ _ h
theorem flush_dead (o : Writer) : flush o w = (.nil, w) := step_dead _ _ _ _ h
theorem osRename_dead (a b : Str) : osRename a b w = (.nil, w) := step_dead _ _ _ _ h
theorem osRemove_dead (p : Str) : osRemove p w = (.nil, w) := step_dead _ _ _ _ h
theorem logPrintln_dead (a : List Str) : logPrintln a w = w := by simp [logPrintln, step_dead _ _ _ _ h]
end dead

/-! ### frame facts: environment, liveness, untouched files -/

/-- what every primitive step guarantees about the parts of the world it does not own -/
structure Frame (w w' : World) : Prop where
  env : w'.env = w.env
  mono : w'.alive = true → w.alive = true
  nocrash : w.env.crashAt = none → w.alive = true → w'.alive = true
  dead : w.alive = false → w' = w

theorem Frame.refl (w : World) : Frame w w := ⟨rfl, id, fun _ h => h, fun _ => rfl⟩

theorem Frame.trans {a b c : World} (h1 : Frame a b) (h2 : Frame b c) : Frame a c :=
  ⟨h2.env.trans h1.env, fun h => h1.mono (h2.mono h), fun hc ha => h2.nocrash (h1.env ▸ hc) (h1.nocrash hc ha),
   fun hd => by rw [h2.dead (by rw [h1.dead hd]; exact hd), h1.dead hd]⟩

/-- a step whose effect leaves `env`, `alive`, `steps` alone is framed -/
theorem step_frame {α : Type} (n : String) (d : α) (f : World → α × World) (w : World)
    (hf : (f w).2.env = w.env ∧ (f w).2.steps = w.steps) : Frame w (step n d f w).2 := by
  by_cases h : w.alive = true
  · rw [step_live _ _ _ _ h]
    refine ⟨by simp [hf.1], fun _ => h, fun hc _ => ?_, fun hd => by simp [h] at hd⟩
    exact tick_alive_nocrash _ _ (by rw [hf.1]; exact hc)
  · have h' : w.alive = false := by simpa using h
    rw [step_dead _ _ _ _ h']
    exact Frame.refl w

theorem cachedDumpFile_frame (b : Str) (w : World) : Frame w (cachedDumpFile b w).2 := by
  unfold cachedDumpFile; apply step_frame; split <;> simp
theorem osOpen_frame (p : Str) (w : World) : Frame w (osOpen p w).2 := by
  unfold osOpen; apply step_frame; split <;> simp
theorem fileRead_frame (f : File) (b : Str) (w : World) : Frame w (fileRead f b w).2.2 := by
  unfold fileRead; apply step_frame; split
  · simp
  · simp only; split <;> simp
theorem fileClose_frame (f : File) (w : World) : Frame w (fileClose f w).2 := by
  unfold fileClose; apply step_frame; split <;> simp
theorem osCreateTemp_frame (d p : Str) (w : World) : Frame w (osCreateTemp d p w).2 := by
  unfold osCreateTemp; apply step_frame; simp only; split <;> simp
theorem osCreate_frame (p : Str) (w : World) : Frame w (osCreate p w).2 := by
  unfold osCreate; apply step_frame; split <;> simp
theorem writeString_frame (o : Writer) (s : Str) (w : World) : Frame w (writeString o s w).2 := by
  unfold writeString; apply step_frame; split <;> simp [pushThrough]
theorem emit_env_steps (o : Option Writer) (d : Str) (w : World) :
    (emit o d w).env = w.env ∧ (emit o d w).steps = w.steps := by
  unfold emit; split <;> simp [pushThrough]
theorem cmdRun_frame (c : Cmd) (w : World) : Frame w (cmdRun c w).2 := by
  unfold cmdRun; apply step_frame; split
  · simp
  · split <;> simp [emit_env_steps]
theorem flush_frame (o : Writer) (w : World) : Frame w (flush o w).2 := by
  unfold flush; apply step_frame; split <;> simp
theorem osRename_frame (a b : Str) (w : World) : Frame w (osRename a b w).2 := by
  unfold osRename; apply step_frame; split <;> (try split) <;> simp
theorem osRemove_frame (p : Str) (w : World) : Frame w (osRemove p w).2 := by
  unfold osRemove; apply step_frame; split <;> simp
theorem logPrintln_frame (a : List Str) (w : World) : Frame w (logPrintln a w) := by
  unfold logPrintln; apply step_frame; simp

/-! ### effect on the file system -/

theorem step_fs {α : Type} (n : String) (d : α) (f : World → α × World) (w : World) (p : Str)
    (hf : (f w).2.fs p = w.fs p) : (step n d f w).2.fs p = w.fs p := by
  by_cases h : w.alive = true
  · rw [step_live _ _ _ _ h]; simpa using hf
  · rw [step_dead _ _ _ _ (by simpa using h)]

@[simp] theorem cachedDumpFile_fs (b : Str) (w : World) : (cachedDumpFile b w).2.fs = w.fs := by
  funext p; unfold cachedDumpFile; apply step_fs; split <;> rfl
@[simp] theorem osOpen_fs (q : Str) (w : World) : (osOpen q w).2.fs = w.fs := by
  funext p; unfold osOpen; apply step_fs; split <;> rfl
@[simp] theorem fileRead_fs (f : File) (b : Str) (w : World) : (fileRead f b w).2.2.fs = w.fs := by
  funext p; unfold fileRead; apply step_fs; split
  · rfl
  · simp only; split <;> rfl
@[simp] theorem fileClose_fs (f : File) (w : World) : (fileClose f w).2.fs = w.fs := by
  funext p; unfold fileClose; apply step_fs; split <;> rfl
@[simp] theorem logPrintln_fs (a : List Str) (w : World) : (logPrintln a w).fs = w.fs := by
  funext p; unfold logPrintln; apply step_fs; rfl

theorem osCreateTemp_fs_ne (d pat : Str) (w : World) (p : Str) (h : p ≠ d ++ [47] ++ pat ++ w.env.tmpSuffix) :
    (osCreateTemp d pat w).2.fs p = w.fs p := by
  unfold osCreateTemp; apply step_fs; simp only; split
  · rfl
  · exact FS.set_ne _ _ _ _ h
theorem pushThrough_fs_ne (o : Writer) (s : Str) (w : World) (p : Str) (h : p ≠ o.file.name) :
    (pushThrough o s w).fs p = w.fs p := by
  simp [pushThrough, FS.append_ne _ _ _ _ h]
theorem writeString_fs_ne (o : Writer) (s : Str) (w : World) (p : Str) (h : p ≠ o.file.name) :
    (writeString o s w).2.fs p = w.fs p := by
  unfold writeString; apply step_fs; split <;> exact pushThrough_fs_ne _ _ _ _ h
theorem emit_fs_ne (c : Option Writer) (d : Str) (w : World) (p : Str) (h : ∀ o, c = some o → p ≠ o.file.name) :
    (emit c d w).fs p = w.fs p := by
  unfold emit; split
  · exact pushThrough_fs_ne _ _ _ _ (h _ rfl)
  · rfl
theorem cmdRun_fs_ne (c : Cmd) (w : World) (p : Str) (h : ∀ o, c.stdout = some o → p ≠ o.file.name) :
    (cmdRun c w).2.fs p = w.fs p := by
  unfold cmdRun; apply step_fs; split
  · rfl
  · split
    · rfl
    · exact emit_fs_ne _ _ _ _ h
    · exact emit_fs_ne _ _ _ _ h
theorem flush_fs_ne (o : Writer) (w : World) (p : Str) (h : p ≠ o.file.name) : (flush o w).2.fs p = w.fs p := by
  unfold flush; apply step_fs; split <;> simp [FS.append_ne _ _ _ _ h]
theorem osRemove_fs_ne (q : Str) (w : World) (p : Str) (h : p ≠ q) : (osRemove q w).2.fs p = w.fs p := by
  unfold osRemove; apply step_fs; split
  · rfl
  · exact FS.set_ne _ _ _ _ h

/-- **rename is the only step that can change the target**: afterwards `new` holds what it held
    before, or exactly what `old` held (and then the process was alive when it renamed) -/
theorem osRename_target (a b : Str) (w : World) :
    (osRename a b w).2.fs b = w.fs b ∨
    ((osRename a b w).2.fs b = w.fs a ∧ w.alive = true ∧ (w.fs a).isSome ∧ (osRename a b w).1 = .nil) := by
  unfold osRename
  by_cases h : w.alive = true
  · rw [step_live _ _ _ _ h]
    simp only [tick_fs]
    split
    · exact .inl rfl
    · split
      · exact .inl rfl
      · rename_i h1 h2
        refine .inr ⟨by simp [FS.set, Ne.symm h2], h, ?_, rfl⟩
        simp only [not_or] at h1
        cases hh : w.fs a with
        | none => simp [hh] at h1
        | some c => rfl
  · rw [step_dead _ _ _ _ (by simpa using h)]; exact .inl rfl

/-- a live rename that reports success has moved the file -/
theorem osRename_nil_live (a b : Str) (w : World) (ha : w.alive = true) (hab : a ≠ b) (h : (osRename a b w).1 = .nil) :
    (osRename a b w).2.fs b = w.fs a := by
  unfold osRename at h ⊢
  rw [step_live _ _ _ _ ha] at h ⊢
  by_cases hc : w.faulty = true ∨ (w.fs a).isNone = true
  · rw [if_pos hc] at h; simp at h
  · rw [if_neg hc, if_neg hab]
    simp [FS.set, Ne.symm hab]

theorem osRename_fs_ne (a b : Str) (w : World) (p : Str) (ha : p ≠ a) (hb : p ≠ b) : (osRename a b w).2.fs p = w.fs p := by
  unfold osRename; apply step_fs; split
  · rfl
  · split
    · rfl
    · simp [FS.set_ne _ _ _ _ ha, FS.set_ne _ _ _ _ hb]

/-! ### contents -/

theorem osOpen_ok (p : Str) (w : World) (ha : w.alive = true) (h : (osOpen p w).1.2 = .nil) :
    (osOpen p w).1.1 = ⟨p⟩ := by
  unfold osOpen at h ⊢
  rw [step_live _ _ _ _ ha] at h ⊢
  simp only at h ⊢
  split <;> simp_all

theorem fileRead_full (f : File) (b : Str) (w : World) (hb : b.length ≠ 0)
    (h1 : (fileRead f b w).1.2 = .nil) (h2 : (fileRead f b w).1.1 = b.length) :
    ∃ c, w.fs f.name = some c ∧ (fileRead f b w).2.1 = c.take b.length ∧ b.length ≤ c.length := by
  unfold fileRead at h1 h2 ⊢
  by_cases ha : w.alive = true
  · rw [step_live _ _ _ _ ha] at h1 h2 ⊢
    by_cases hf : w.faulty = true
    · simp [hf] at h1
    · simp only [hf, Bool.false_eq_true, if_false] at h1 h2 ⊢
      by_cases he : (List.take b.length ((w.fs f.name).getD [])).length = 0 ∧ b.length ≠ 0
      · rw [if_pos he] at h1; simp at h1
      · rw [if_neg he] at h2 ⊢
        simp only at h2 ⊢
        cases hc : w.fs f.name with
        | none => simp [hc] at h2; exact absurd h2.symm hb
        | some c =>
          simp only [hc, Option.getD_some, List.length_take] at h2 ⊢
          refine ⟨c, rfl, ?_, by omega⟩
          rw [h2]; simp
  · rw [step_dead _ _ _ _ (by simpa using ha)] at h2
    simp at h2; exact absurd h2.symm hb

/-- `Read` fills the buffer in place: its length does not change -/
theorem fileRead_len (f : File) (b : Str) (w : World) : (fileRead f b w).2.1.length = b.length := by
  unfold fileRead
  by_cases ha : w.alive = true
  · rw [step_live _ _ _ _ ha]
    by_cases hf : w.faulty = true
    · simp [hf]
    · simp only [hf, Bool.false_eq_true, if_false]
      split
      · rfl
      · simp only [List.length_append, List.length_take, List.length_drop]; omega
  · rw [step_dead _ _ _ _ (by simpa using ha)]

theorem osCreateTemp_err (d pat : Str) (w : World) (h : (osCreateTemp d pat w).1.2 ≠ .nil) :
    (osCreateTemp d pat w).2.fs = w.fs := by
  unfold osCreateTemp at h ⊢
  by_cases ha : w.alive = true
  · rw [step_live _ _ _ _ ha] at h ⊢
    simp only at h ⊢
    split
    · rfl
    · rename_i hn; rw [if_neg hn] at h; simp at h
  · rw [step_dead _ _ _ _ (by simpa using ha)]

theorem osCreateTemp_ok (d pat : Str) (w : World) (ha : w.alive = true) (h : (osCreateTemp d pat w).1.2 = .nil) :
    (osCreateTemp d pat w).1.1 = ⟨d ++ [47] ++ pat ++ w.env.tmpSuffix⟩ ∧
    (osCreateTemp d pat w).2.fs (d ++ [47] ++ pat ++ w.env.tmpSuffix) = some [] ∧
    (osCreateTemp d pat w).2.buf = w.buf := by
  unfold osCreateTemp at h ⊢
  rw [step_live _ _ _ _ ha] at h ⊢
  simp only at h ⊢
  split
  · rename_i hn; rw [if_pos hn] at h; simp at h
  · simp

theorem pushThrough_pend (o : Writer) (s : Str) (w : World) :
    pend (pushThrough o s w) o.file.name = pend w o.file.name ++ s := by
  simp [pend, pushThrough, List.append_assoc]

theorem tick_pend (n : String) (w : World) (p : Str) : pend (tick n w) p = pend w p := rfl

theorem writeString_pend (o : Writer) (s : Str) (w : World) (ha : w.alive = true) :
    pend (writeString o s w).2 o.file.name = pend w o.file.name ++ s := by
  unfold writeString
  rw [step_live _ _ _ _ ha]
  split <;> simp [tick_pend, pushThrough_pend]

theorem cmdRun_pend (c : Cmd) (o : Writer) (w : World) (ha : w.alive = true) (hc : c.stdout = some o)
    (h : (cmdRun c w).1 = .nil) :
    pend (cmdRun c w).2 o.file.name = pend w o.file.name ++ w.env.listing := by
  unfold cmdRun at h ⊢
  rw [step_live _ _ _ _ ha] at h ⊢
  simp only at h ⊢
  split at h
  · simp at h
  · rename_i hn
    rw [if_neg hn]
    split at h
    · simp at h
    · simp at h
    · rename_i ho
      simp only [tick_pend, emit, hc, pushThrough_pend]

theorem flush_complete (o : Writer) (w : World) (ha : w.alive = true) (h : (flush o w).1 = .nil)
    (hl : (flush o w).2.alive = true) :
    (flush o w).2.fs o.file.name = some (pend w o.file.name) ∧ (flush o w).2.buf = [] := by
  unfold flush at h hl ⊢
  rw [step_live _ _ _ _ ha] at h hl ⊢
  by_cases hc : w.faulty = true ∨ w.dying = true
  · rw [if_pos hc] at h hl
    rcases hc with hc | hc
    · simp [hc] at h
    · simp [tick, World.dying] at hl hc
      exact absurd hc hl
  · rw [if_neg hc]
    simp [pend]

@[simp] theorem fileClose_buf (f : File) (w : World) : (fileClose f w).2.buf = w.buf := by
  unfold fileClose
  by_cases ha : w.alive = true
  · rw [step_live _ _ _ _ ha]; split <;> rfl
  · rw [step_dead _ _ _ _ (by simpa using ha)]

@[simp] theorem cachedDumpFile_buf (b : Str) (w : World) : (cachedDumpFile b w).2.buf = w.buf := by
  unfold cachedDumpFile
  by_cases ha : w.alive = true
  · rw [step_live _ _ _ _ ha]; split <;> rfl
  · rw [step_dead _ _ _ _ (by simpa using ha)]
@[simp] theorem osOpen_buf (b : Str) (w : World) : (osOpen b w).2.buf = w.buf := by
  unfold osOpen
  by_cases ha : w.alive = true
  · rw [step_live _ _ _ _ ha]; split <;> rfl
  · rw [step_dead _ _ _ _ (by simpa using ha)]
@[simp] theorem fileRead_buf (f : File) (b : Str) (w : World) : (fileRead f b w).2.2.buf = w.buf := by
  unfold fileRead
  by_cases ha : w.alive = true
  · rw [step_live _ _ _ _ ha]; split
    · rfl
    · simp only; split <;> rfl
  · rw [step_dead _ _ _ _ (by simpa using ha)]

theorem cachedDumpFile_ok (b : Str) (w : World) (ha : w.alive = true) (h : (cachedDumpFile b w).1.2 = .nil) :
    (cachedDumpFile b w).1.1 = w.env.dump := by
  unfold cachedDumpFile at h ⊢
  rw [step_live _ _ _ _ ha] at h ⊢
  simp only at h ⊢
  split
  · rename_i hn; rw [if_pos hn] at h; simp at h
  · rfl

end Cache
