import Seccomp.Proofs.Lemmas.TableLemmas
import Seccomp.Gen.TableCodes
import Seccomp.Gen.Oracle
/-!
# Certificates for the regenerated tables (C12): definitions and lifting lemmas

`Certified name t` bundles what `TableFacts.lean` lets the kernel decide about one table; the lemmas
here turn a certificate into the statements of the property (distinct numbers, distinct names,
agreement with an oracle source).  No finite fact is proved in this file.
-/

namespace Arch

/-- a string table with every name replaced by its code: `(enc name, number)` -/
def codesOf (t : Table) : List (Nat × Nat) := t.map (fun p => (enc p.2, p.1))

def sortedByName (n : String) : List (Nat × Nat) :=
  if n = "syscallsARM" then Gen.syscallsARM_sorted
  else if n = "syscallsAARCH64" then Gen.syscallsAARCH64_sorted
  else if n = "syscalls386" then Gen.syscalls386_sorted
  else if n = "syscallsX32" then Gen.syscallsX32_sorted
  else if n = "syscallsX86_64" then Gen.syscallsX86_64_sorted
  else []

/-- every source: its key-sorted entries carry the table's number wherever the table has the name -/
def oracleCheck : Bool :=
  Gen.Oracle.sources.all (fun s => sortedAgree (sortedByName s.table) s.entries)

/-- number of keys of `os` that occur in `ts` (both sorted by key) — for the non-vacuity statements -/
def sharedF : Nat → List (Nat × Nat) → List (Nat × Nat) → Nat
  | _, [], _ => 0
  | _, _ :: _, [] => 0
  | 0, _ :: _, _ :: _ => 0
  | f + 1, t :: ts, o :: os =>
    if t.1 < o.1 then sharedF f ts (o :: os)
    else if o.1 < t.1 then sharedF f (t :: ts) os
    else 1 + sharedF f (t :: ts) os

def shared (s : Gen.Oracle.Source) : Nat :=
  let ts := sortedByName s.table
  sharedF (ts.length + s.entries.length + 1) ts s.entries


/-! ## lifting the per-table facts -/

/-- everything the kernel checked about the table `t` stored in the Go variable `name` -/
def Certified (name : String) (t : Table) : Prop :=
  ∃ codes sorted : List (Nat × Nat), codesOf t = codes ∧ msort (·.1) codes = sorted ∧
    strictAsc (sorted.map (·.1)) = true ∧ uniqueCheck (codes.map (·.2)) = true ∧
    sortedByName name = sorted

theorem Certified.numbers_nodup {name : String} {t : Table} (h : Certified name t) :
    (t.map (·.1)).Nodup := by
  obtain ⟨codes, sorted, hc, _, _, hu, _⟩ := h
  have h1 := uniqueCheck_nodup _ hu
  rw [← hc, codesOf, List.map_map] at h1
  exact h1

theorem Certified.names_nodup {name : String} {t : Table} (h : Certified name t) :
    (t.map (·.2)).Nodup := by
  obtain ⟨codes, sorted, hc, hs, ha, _, _⟩ := h
  have h1 : (sorted.map (·.1)).Nodup := strictAsc_nodup _ ha
  have hp : sorted.Perm codes := hs ▸ msort_perm (·.1) codes
  have h2 : (codes.map (·.1)).Nodup := (hp.map (·.1)).nodup_iff.mp h1
  rw [← hc, codesOf, List.map_map] at h2
  have h3 : ((t.map (·.2)).map enc).Nodup := by rw [List.map_map]; exact h2
  exact List.Pairwise.of_map enc (fun a b h e => h (congrArg enc e)) h3

theorem mem_of_nameToNr {t : Table} {name : String} {nr : Nat} (h : nameToNr t name = some nr) :
    (nr, name) ∈ t := by
  unfold nameToNr at h
  cases hf : t.find? (fun p => p.2 == name) with
  | none => simp [hf] at h
  | some p =>
    simp only [hf, Option.map_some, Option.some.injEq] at h
    have hm := List.mem_of_find?_eq_some hf
    have hp := List.find?_some hf
    simp only [beq_iff_eq] at hp
    rw [← h, ← hp]; exact hm

/-- a source whose sorted entries passed `sortedAgree` never contradicts the table -/
theorem Certified.agrees {name : String} {t : Table} (h : Certified name t) (os : List (Nat × Nat))
    (hag : sortedAgree (sortedByName name) os = true) (nm : String) (nr : Nat)
    (hmem : (enc nm, nr) ∈ os) : nameToNr t nm = none ∨ nameToNr t nm = some nr := by
  obtain ⟨codes, sorted, hc, hs, ha, _, hb⟩ := h
  cases hn : nameToNr t nm with
  | none => exact .inl rfl
  | some m =>
    right
    have h1 : (m, nm) ∈ t := mem_of_nameToNr hn
    have h2 : (enc nm, m) ∈ codes := by
      rw [← hc, codesOf]; exact List.mem_map.mpr ⟨(m, nm), h1, rfl⟩
    have hp : sorted.Perm codes := hs ▸ msort_perm (·.1) codes
    have h3 : (enc nm, m) ∈ sorted := hp.mem_iff.mpr h2
    rw [hb] at hag
    have := sortedAgree_sound sorted os ha hag (enc nm, m) h3 (enc nm, nr) hmem rfl
    simp only at this
    rw [this]

end Arch
