import Seccomp.Model.Disasm
/-!
# Lemmas about the disassembly parser model (used by `Proofs/C16.lean`)
-/

namespace Disasm

/-! ## bytes that `strings.Fields` may drop -/

/-- an ASCII blank, or a byte ≥ 0x80 (only such bytes can belong to a white-space rune) -/
def Spaceish (b : UInt8) : Prop :=
  b = 9 ∨ b = 10 ∨ b = 11 ∨ b = 12 ∨ b = 13 ∨ b = 32 ∨ 128 ≤ b

instance (b : UInt8) : Decidable (Spaceish b) := by unfold Spaceish; infer_instance

/-- the pattern contains a visible ASCII character -/
def SolidPat (pat : Bytes) : Prop := ∃ b ∈ pat, ¬ Spaceish b

/-- The instruction patterns of a parser all contain a visible ASCII character (so a line that
    contains one of them has at least one field). -/
def Parser.Solid (p : Parser) : Prop := (∀ ins ∈ p.raw, SolidPat ins) ∧ SolidPat p.callOp

theorem x86_64Parser_solid : x86_64Parser.Solid := by
  refine ⟨?_, 67, by decide, by decide⟩
  intro ins h
  have : ins = ofStr "SYSCALL" := by simpa [x86_64Parser] using h
  subst this
  exact ⟨83, by decide, by decide⟩

theorem i386Parser_solid : i386Parser.Solid := by
  refine ⟨?_, 67, by decide, by decide⟩
  intro ins h
  have : ins = ofStr "INT $0x80" ∨ ins = ofStr "SYSENTER" := by simpa [i386Parser] using h
  rcases this with h | h <;> subst h
  · exact ⟨73, by decide, by decide⟩
  · exact ⟨83, by decide, by decide⟩

/-! ## `contains` -/

theorem mem_of_contains {pat : Bytes} : ∀ {l : Bytes}, contains pat l = true → ∀ b ∈ pat, b ∈ l
  | [], h, b, hb => by
    simp [contains] at h
    subst h
    cases hb
  | x :: t, h, b, hb => by
    simp only [contains, Bool.or_eq_true] at h
    rcases h with h | h
    · have hp : pat <+: x :: t := List.isPrefixOf_iff_prefix.mp h
      exact hp.subset hb
    · exact List.mem_cons_of_mem _ (mem_of_contains h b hb)

/-! ## `fields` -/

theorem spaceish_of_ge {b : UInt8} (h : 128 ≤ b) : Spaceish b := by
  unfold Spaceish; simp [h]

theorem spaceLen_spaceish (l : Bytes) (k : Nat) (h : spaceLen l = k + 1) : ∀ b ∈ l.take (k + 1), Spaceish b := by
  intro b hb
  unfold spaceLen at h
  repeat' split at h
  all_goals first
    | (exfalso; omega)
    | skip
  all_goals
    have hk : k = 0 ∨ k = 1 ∨ k = 2 := by omega
    rcases hk with hk | hk | hk <;> subst hk <;> first | (exfalso; omega) | skip
  all_goals simp at hb
  all_goals
    rcases hb with rfl | rfl | rfl
  all_goals
    first
      | (apply spaceish_of_ge; simp_all; done)
      | (apply spaceish_of_ge; rename_i h1 h2; rcases h2 with ⟨_, ⟨h3, _⟩ | h3 | h3 | h3⟩ <;> simp_all; done)
      | (unfold Spaceish; simp_all; done)
      | (unfold Spaceish; rename_i h1; rcases h1 with h | h | h | h | h | h <;> simp [h]; done)

theorem flush_eq_nil {cur : Bytes} : flush cur = [] ↔ cur = [] := by
  unfold flush; cases cur <;> simp

/-- if `strings.Fields` finds no field, every byte is a blank or belongs to a non-ASCII rune -/
theorem fieldsAux_nil : ∀ (l : Bytes) (skip : Nat) (cur : Bytes), fieldsAux skip cur l = [] →
    cur = [] ∧ ∀ b ∈ l.drop skip, Spaceish b
  | [], skip, cur, h => by
    simp [fieldsAux] at h
    simp [flush_eq_nil.mp h]
  | x :: t, skip+1, cur, h => by
    rw [fieldsAux] at h
    simpa using fieldsAux_nil t skip cur h
  | x :: t, 0, cur, h => by
    rw [fieldsAux] at h
    split at h
    · have := (fieldsAux_nil t 0 (x :: cur) h).1
      cases this
    · rename_i k hk
      have h1 := List.append_eq_nil_iff.mp h
      have hc := flush_eq_nil.mp h1.1
      have ih := (fieldsAux_nil t k [] h1.2).2
      refine ⟨hc, ?_⟩
      intro b hb
      simp only [List.drop_zero] at hb
      rw [← List.take_append_drop (k+1) (x :: t)] at hb
      rcases List.mem_append.mp hb with hb | hb
      · exact spaceLen_spaceish _ k hk b hb
      · exact ih b (by simpa using hb)

theorem fields_ne_nil_of_mem {l : Bytes} {b : UInt8} (hb : b ∈ l) (hs : ¬ Spaceish b) : fields l ≠ [] := by
  intro h
  exact hs ((fieldsAux_nil l 0 [] h).2 b (by simpa using hb))

theorem fields_ne_nil_of_contains {pat l : Bytes} (hp : SolidPat pat) (h : contains pat l = true) :
    fields l ≠ [] := by
  obtain ⟨b, hb, hs⟩ := hp
  exact fields_ne_nil_of_mem (mem_of_contains h b hb) hs

/-! ## the guarded slices never panic -/

theorem functionField_some (fs : List Bytes) : ∃ r, functionField fs = some r := by
  unfold functionField
  split
  · exact ⟨_, rfl⟩
  · rename_i h
    have h3 : 3 ≤ fs.length := by omega
    simp [sliceFrom, h3]

theorem withFields_some {line : Bytes} (k : Bytes → Bytes → LineResult) (h : fields line ≠ []) :
    ∃ loc fn, withFields line k = some (k loc fn) := by
  unfold withFields
  cases hf : fields line with
  | nil => exact absurd hf h
  | cons a r =>
    obtain ⟨fn, hfn⟩ := functionField_some (a :: r)
    exact ⟨a, fn, by simp [index, hfn]⟩

theorem withFields_eq {line : Bytes} {k : Bytes → Bytes → LineResult} {r : LineResult}
    (h : withFields line k = some r) : ∃ loc fn, r = k loc fn := by
  unfold withFields at h
  dsimp only at h
  split at h
  · cases h
  · split at h
    · cases h
    · cases h; exact ⟨_, _, rfl⟩

theorem lastInstruction_cons_some (line : Bytes) (rest : List Bytes) :
    ∃ r, lastInstruction (line :: rest) = some r := by
  unfold lastInstruction
  cases rest with
  | nil => simp
  | cons a t => simp [index]

theorem isRawSyscall_fields {p : Parser} (hp : p.Solid) {line : Bytes} (h : p.isRawSyscall line = true) :
    fields line ≠ [] := by
  unfold Parser.isRawSyscall at h
  obtain ⟨ins, hi, hc⟩ := List.any_eq_true.mp h
  exact fields_ne_nil_of_contains (hp.1 ins hi) hc

theorem isFunctionCall_fields {p : Parser} (hp : p.Solid) {line : Bytes} (h : p.isFunctionCall line = true) :
    fields line ≠ [] :=
  fields_ne_nil_of_contains hp.2 h

/-- `parseX86_64` never panics: `fields[0]` exists because the line contains a visible pattern,
    `fields[3:]` is guarded by `functionField`, `instructions[len-2]` by `lastInstruction`. -/
theorem parseLine_some {p : Parser} (hp : p.Solid) (line caller : Bytes) (rest : List Bytes) :
    ∃ r, parseLine p line caller (line :: rest) = some r := by
  unfold parseLine
  simp only []
  split
  · rename_i h
    have hraw : p.isRawSyscall line = true := by simp at h; exact h.1
    have hf := isRawSyscall_fields hp hraw
    obtain ⟨inst, hi⟩ := lastInstruction_cons_some line rest
    rw [hi]
    simp only []
    split
    · obtain ⟨loc, fn, h⟩ := withFields_some (fun loc fn => LineResult.found
        { num := 0, name := "", caller := [], function := fn, location := loc, assembly := xorl }) hf
      exact ⟨_, h⟩
    · obtain ⟨loc, fn, h⟩ := withFields_some (fun loc fn =>
        match findSyscallNum rawRegex (line :: rest) with
        | .err => LineResult.warn
        | .found n a => LineResult.found { num := n, name := "", caller := [], function := fn, location := loc, assembly := a }) hf
      exact ⟨_, h⟩
  · split
    · rename_i h
      have hcall : p.isFunctionCall line = true := by simp at h; exact h.1
      have hf := isFunctionCall_fields hp hcall
      obtain ⟨loc, fn, h⟩ := withFields_some (fun loc fn =>
        match findSyscallNum callRegex (line :: rest) with
        | .err => LineResult.warn
        | .found n a => LineResult.found { num := n, name := "", caller := [], function := fn, location := loc, assembly := a }) hf
      exact ⟨_, h⟩
    · exact ⟨_, rfl⟩

theorem functionMarker_length : functionMarker.length = 4 := by decide

/-- one iteration of the loop never panics: `line[5:]` is guarded by `len(line) > len("TEXT")` -/
theorem step_some {p : Parser} (hp : p.Solid) (tbl : Nat → Option String) (st : St) (line : Bytes) :
    ∃ st', step p tbl st line = some st' := by
  unfold step
  split
  · split
    · rename_i h
      rw [functionMarker_length] at h ⊢
      have h5 : 4 + 1 ≤ line.length := by omega
      simp [sliceFrom, h5]
    · exact ⟨_, rfl⟩
  · dsimp only
    obtain ⟨r, hr⟩ := parseLine_some hp line st.function st.window
    rw [hr]
    cases r with
    | notSyscall => exact ⟨_, rfl⟩
    | warn => exact ⟨_, rfl⟩
    | found s =>
      dsimp only
      cases lookupNum tbl s.num with
      | none => exact ⟨_, rfl⟩
      | some name => exact ⟨_, rfl⟩

theorem run_some {p : Parser} (hp : p.Solid) (tbl : Nat → Option String) :
    ∀ (ls : List Bytes) (st : St), ∃ st', run p tbl st ls = some st'
  | [], st => ⟨st, rfl⟩
  | l :: ls, st => by
    obtain ⟨st1, h1⟩ := step_some hp tbl st l
    obtain ⟨st2, h2⟩ := run_some hp tbl ls st1
    exact ⟨st2, by simp [run, h1, h2]⟩

/-! ## where a reported number comes from -/

/-- the line is a function marker line (`strings.HasPrefix(line, "TEXT")`) -/
def isText (l : Bytes) : Bool := hasPrefix functionMarker l

/-- The number and the assembly text of the finding `s` were taken from one of the lines `ls`:
    either the `XORL AX, AX` special case (number 0, one of the lines contains that instruction),
    or one of the two regular expressions matched one of the lines, `s.assembly` is the matched
    text and `s.num` is the value of the captured operand. -/
def FromLines (s : Syscall) (ls : List Bytes) : Prop :=
  (s.assembly = xorl ∧ s.num = 0 ∧ ∃ l ∈ ls, contains xorl l = true) ∨
  (∃ l ∈ ls, ∃ re, (re = rawRegex ∨ re = callRegex) ∧
     ∃ grp, re.find l = some (s.assembly, grp) ∧ parseInt grp = some s.num)

theorem fromLines_mono {s : Syscall} {ls ls' : List Bytes} (hsub : ∀ l ∈ ls, l ∈ ls')
    (h : FromLines s ls) : FromLines s ls' := by
  rcases h with ⟨h1, h2, l, hl, h3⟩ | ⟨l, hl, h⟩
  · exact Or.inl ⟨h1, h2, l, hsub l hl, h3⟩
  · exact Or.inr ⟨l, hsub l hl, h⟩

theorem fromLines_congr {s s' : Syscall} (ha : s'.assembly = s.assembly) (hn : s'.num = s.num)
    {ls : List Bytes} (h : FromLines s ls) : FromLines s' ls := by
  unfold FromLines at *
  rw [ha, hn]
  exact h

theorem findSyscallNum_found {re : Regex} : ∀ {win : List Bytes} {n : Int} {a : Bytes},
    findSyscallNum re win = .found n a →
    ∃ l ∈ win, ∃ grp, re.find l = some (a, grp) ∧ parseInt grp = some n
  | [], n, a, h => by simp [findSyscallNum] at h
  | line :: older, n, a, h => by
    rw [findSyscallNum] at h
    split at h
    · obtain ⟨l, hl, r⟩ := findSyscallNum_found h
      exact ⟨l, List.mem_cons_of_mem _ hl, r⟩
    · rename_i whole grp hfind
      split at h
      · cases h
      · rename_i k hk
        cases h
        exact ⟨line, List.mem_cons_self, grp, hfind, hk⟩

theorem number_found {re : Regex} (hre : re = rawRegex ∨ re = callRegex) {win : List Bytes} {loc fn : Bytes}
    {s : Syscall}
    (h : (match findSyscallNum re win with
          | .err => LineResult.warn
          | .found n a => LineResult.found { num := n, name := "", caller := [], function := fn, location := loc, assembly := a })
         = .found s) : FromLines s win := by
  split at h
  · cases h
  · rename_i n a hf
    cases h
    obtain ⟨l, hl, grp, h1, h2⟩ := findSyscallNum_found hf
    exact Or.inr ⟨l, hl, re, hre, grp, h1, h2⟩

/-- whatever `parseX86_64` reports was read off the instruction window it was given -/
theorem parseLine_found {p : Parser} {line caller : Bytes} {win : List Bytes} {s : Syscall}
    (h : parseLine p line caller win = some (.found s)) : FromLines s win := by
  unfold parseLine at h
  dsimp only at h
  split at h
  · split at h
    · cases h
    · rename_i inst hinst
      split at h
      · rename_i hx
        obtain ⟨loc, fn, hr⟩ := withFields_eq h
        cases hr
        refine Or.inl ⟨rfl, rfl, inst, ?_, hx.2⟩
        unfold lastInstruction at hinst
        split at hinst
        · exact List.mem_of_getElem? hinst
        · cases hinst
          exact absurd rfl hx.1
      · obtain ⟨loc, fn, hr⟩ := withFields_eq h
        exact number_found (Or.inl rfl) hr.symm
  · split at h
    · obtain ⟨loc, fn, hr⟩ := withFields_eq h
      exact number_found (Or.inr rfl) hr.symm
    · cases h

/-! ## the window invariant -/

/-- `f` is the function name that `Parse` holds after the lines `pre`, when `pre` ends in the last
    marker line seen so far (or is empty: no marker yet, the name is empty) -/
def HeadOK (pre : List Bytes) (f : Bytes) : Prop :=
  (pre = [] ∧ f = []) ∨ ∃ pre' t, pre = pre' ++ [t] ∧ isText t = true ∧ f = t.drop 5

/-- The finding `s` is function-scoped in the listing `ls`: the listing splits into
    `pre ++ body ++ site :: post` where `pre` ends in a marker line (or is empty), neither `body`
    nor the `site` line is a marker line — so `body ++ [site]` lies inside one function, after the
    last marker that precedes the site —, the reported caller is the name on that marker line, and
    the number was read off `body ++ [site]`. -/
def Scoped (ls : List Bytes) (s : Syscall) : Prop :=
  ∃ pre body site post, ls = pre ++ body ++ site :: post ∧ (∀ l ∈ body ++ [site], isText l = false) ∧
    HeadOK pre s.caller ∧ FromLines s (body ++ [site])

theorem scoped_mono {ls : List Bytes} {s : Syscall} (more : List Bytes) (h : Scoped ls s) :
    Scoped (ls ++ more) s := by
  obtain ⟨pre, body, site, post, rfl, h1, h2, h3⟩ := h
  exact ⟨pre, body, site, post ++ more, by simp, h1, h2, h3⟩

/-- invariant of the loop of `Parse` after the lines `processed` -/
structure Inv (processed : List Bytes) (st : St) : Prop where
  split : ∃ pre body, processed = pre ++ body ∧ (∀ l ∈ body, isText l = false) ∧
            HeadOK pre st.function ∧ st.window.reverse <:+ body
  found : ∀ s ∈ st.found, Scoped processed s

theorem inv_init : Inv [] St.init :=
  ⟨⟨[], [], rfl, by simp, Or.inl ⟨rfl, rfl⟩, by simp [St.init]⟩, by simp [St.init]⟩

theorem step_inv {p : Parser} {tbl : Nat → Option String} {processed : List Bytes} {st st' : St} {line : Bytes}
    (hi : Inv processed st) (h : step p tbl st line = some st') : Inv (processed ++ [line]) st' := by
  obtain ⟨⟨pre, body, hpb, hbody, hhead, hwin⟩, hfound⟩ := hi
  unfold step at h
  split at h
  · rename_i htext
    have hst : st' = { st with function := line.drop 5, window := [] } := by
      split at h
      · rename_i hlen
        rw [functionMarker_length] at h hlen
        have h5 : 4 + 1 ≤ line.length := by omega
        simp [sliceFrom, h5] at h
        rw [← h]
      · rename_i hlen
        rw [functionMarker_length] at hlen
        have hd : line.drop 5 = [] := by simp; omega
        cases h
        simp [hd]
    subst hst
    refine ⟨⟨processed ++ [line], [], by simp, by simp, Or.inr ⟨processed, line, rfl, htext, rfl⟩, by simp⟩, ?_⟩
    intro s hs
    exact scoped_mono [line] (hfound s hs)
  · rename_i htext
    have htext' : isText line = false := by simpa [isText] using htext
    have hbody' : ∀ l ∈ body ++ [line], isText l = false := by
      intro l hl
      rcases List.mem_append.mp hl with hl | hl
      · exact hbody l hl
      · simp at hl; subst hl; exact htext'
    have hsplit : ∀ w : List Bytes, (w = line :: st.window ∨ w = []) →
        ∃ pre body, processed ++ [line] = pre ++ body ∧ (∀ l ∈ body, isText l = false) ∧
          HeadOK pre st.function ∧ w.reverse <:+ body := by
      intro w hw
      refine ⟨pre, body ++ [line], by simp [hpb], hbody', hhead, ?_⟩
      rcases hw with hw | hw
      · subst hw
        obtain ⟨t, ht⟩ := hwin
        exact ⟨t, by simp [← ht]⟩
      · subst hw; simp
    have hold : ∀ s ∈ st.found, Scoped (processed ++ [line]) s := fun s hs => scoped_mono [line] (hfound s hs)
    dsimp only at h
    split at h
    · cases h
    · cases h; exact ⟨hsplit _ (Or.inl rfl), hold⟩
    · cases h; exact ⟨hsplit _ (Or.inl rfl), hold⟩
    · rename_i s hparse
      have hfrom : FromLines s (body ++ [line]) := by
        refine fromLines_mono ?_ (parseLine_found hparse)
        intro l hl
        rcases List.mem_cons.mp hl with hl | hl
        · subst hl; simp
        · have : l ∈ st.window.reverse := by simpa using hl
          exact List.mem_append_left _ (hwin.subset this)
      split at h
      · cases h; exact ⟨hsplit _ (Or.inr rfl), hold⟩
      · rename_i name hname
        cases h
        refine ⟨hsplit _ (Or.inr rfl), ?_⟩
        intro s' hs'
        rcases List.mem_append.mp hs' with hs' | hs'
        · exact hold s' hs'
        · simp at hs'
          subst hs'
          exact ⟨pre, body, line, [], by simp [hpb], hbody', hhead, fromLines_congr rfl rfl hfrom⟩

theorem run_inv {p : Parser} {tbl : Nat → Option String} : ∀ (ls processed : List Bytes) (st st' : St),
    Inv processed st → run p tbl st ls = some st' → Inv (processed ++ ls) st'
  | [], processed, st, st', hi, h => by
    simp [run] at h; subst h; simpa using hi
  | l :: ls, processed, st, st', hi, h => by
    rw [run] at h
    split at h
    · cases h
    · rename_i st1 h1
      have := run_inv ls (processed ++ [l]) st1 st' (step_inv hi h1) h
      simpa using this

/-! ## findings only grow, and come from the table -/

theorem step_found_prefix {p : Parser} {tbl : Nat → Option String} {st st' : St} {line : Bytes}
    (h : step p tbl st line = some st') : st.found <+: st'.found := by
  unfold step at h
  split at h
  · split at h
    · split at h
      · cases h
      · cases h; exact List.prefix_refl _
    · cases h; exact List.prefix_refl _
  · dsimp only at h
    split at h
    · cases h
    · cases h; exact List.prefix_refl _
    · cases h; exact List.prefix_refl _
    · split at h
      · cases h; exact List.prefix_refl _
      · cases h; exact List.prefix_append _ _

theorem run_found_prefix {p : Parser} {tbl : Nat → Option String} : ∀ (ls : List Bytes) (st st' : St),
    run p tbl st ls = some st' → st.found <+: st'.found
  | [], st, st', h => by simp [run] at h; subst h; exact List.prefix_refl _
  | l :: ls, st, st', h => by
    rw [run] at h
    split at h
    · cases h
    · rename_i st1 h1
      exact (step_found_prefix h1).trans (run_found_prefix ls st1 st' h)

theorem run_append {p : Parser} {tbl : Nat → Option String} : ∀ (a b : List Bytes) (st : St),
    run p tbl st (a ++ b) = (run p tbl st a).bind (fun st1 => run p tbl st1 b)
  | [], b, st => by simp [run]
  | l :: a, b, st => by
    simp only [List.cons_append, run]
    cases step p tbl st l with
    | none => simp
    | some st1 => simpa using run_append a b st1

theorem step_table {p : Parser} {tbl : Nat → Option String} {st st' : St} {line : Bytes}
    (hi : ∀ s ∈ st.found, lookupNum tbl s.num = some s.name) (h : step p tbl st line = some st') :
    ∀ s ∈ st'.found, lookupNum tbl s.num = some s.name := by
  unfold step at h
  split at h
  · split at h
    · split at h
      · cases h
      · cases h; exact hi
    · cases h; exact hi
  · dsimp only at h
    split at h
    · cases h
    · cases h; exact hi
    · cases h; exact hi
    · split at h
      · cases h; exact hi
      · rename_i name hname
        cases h
        intro s hs
        rcases List.mem_append.mp hs with hs | hs
        · exact hi s hs
        · simp at hs; subst hs; exact hname

theorem run_table {p : Parser} {tbl : Nat → Option String} : ∀ (ls : List Bytes) (st st' : St),
    (∀ s ∈ st.found, lookupNum tbl s.num = some s.name) → run p tbl st ls = some st' →
    ∀ s ∈ st'.found, lookupNum tbl s.num = some s.name
  | [], st, st', hi, h => by simp [run] at h; subst h; exact hi
  | l :: ls, st, st', hi, h => by
    rw [run] at h
    split at h
    · cases h
    · rename_i st1 h1
      exact run_table ls st1 st' (step_table hi h1) h

theorem lookupNum_some {tbl : Nat → Option String} {n : Int} {name : String} (h : lookupNum tbl n = some name) :
    ∃ k : Nat, n = (k : Int) ∧ tbl k = some name := by
  unfold lookupNum at h
  split at h
  · cases h
  · rename_i hn
    exact ⟨n.toNat, by omega, h⟩

/-! ## the scanner -/

theorem scan_tooLong_iff : ∀ (ls : List Bytes), (scan ls).2 = true ↔ ∃ l ∈ ls, l.length ≥ maxToken
  | [] => by simp [scan]
  | l :: rest => by
    rw [scan]
    split
    · rename_i h
      simp only [true_iff]
      exact ⟨l, List.mem_cons_self, h⟩
    · rename_i h
      have ih := scan_tooLong_iff rest
      cases hs : scan rest with
      | mk ts e =>
        rw [hs] at ih
        simp only [List.mem_cons]
        constructor
        · intro he
          obtain ⟨x, hx, hl⟩ := ih.mp he
          exact ⟨x, Or.inr hx, hl⟩
        · rintro ⟨x, hx | hx, hl⟩
          · subst hx; exact absurd hl h
          · exact ih.mpr ⟨x, hx, hl⟩

theorem scan_append : ∀ (a b : List Bytes),
    scan (a ++ b) = if (scan a).2 then scan a else ((scan a).1 ++ (scan b).1, (scan b).2)
  | [], b => by simp [scan]
  | l :: a, b => by
    simp only [List.cons_append]
    rw [scan, scan]
    split
    · simp
    · have ih := scan_append a b
      cases hs : scan a with
      | mk ts e =>
        rw [hs] at ih
        rw [ih]
        cases e <;> simp

theorem rawLinesAux_append_nl (t' : Bytes) : ∀ (t0 cur : Bytes),
    rawLinesAux cur (t0 ++ 10 :: t') = rawLinesAux cur (t0 ++ [10]) ++ rawLinesAux [] t'
  | [], cur => by simp [rawLinesAux]
  | x :: t0, cur => by
    simp only [List.cons_append, rawLinesAux]
    split
    · simp [rawLinesAux_append_nl t' t0 []]
    · exact rawLinesAux_append_nl t' t0 (x :: cur)

/-- appending to a text that ends in a newline appends lines -/
theorem rawLines_append_nl (t0 t' : Bytes) :
    rawLines ((t0 ++ [10]) ++ t') = rawLines (t0 ++ [10]) ++ rawLines t' := by
  unfold rawLines
  simpa using rawLinesAux_append_nl t' t0 []

theorem rawLinesAux_long : ∀ (b cur : Bytes), cur ≠ [] → ∃ r ∈ rawLinesAux cur b, cur.length ≤ r.length
  | [], cur, hc => by
    refine ⟨cur.reverse, ?_, by simp⟩
    cases cur with
    | nil => exact absurd rfl hc
    | cons a t => simp [rawLinesAux]
  | x :: b, cur, hc => by
    rw [rawLinesAux]
    split
    · exact ⟨cur.reverse, List.mem_cons_self, by simp⟩
    · obtain ⟨r, hr, hl⟩ := rawLinesAux_long b (x :: cur) (by simp)
      exact ⟨r, hr, by simp at hl; omega⟩

theorem rawLinesAux_run (b : Bytes) : ∀ (l cur : Bytes), 10 ∉ l →
    rawLinesAux cur (l ++ b) = rawLinesAux (l.reverse ++ cur) b
  | [], cur, _ => by simp
  | x :: l, cur, h => by
    have hx : x ≠ 10 := fun e => h (by simp [e])
    have hl : 10 ∉ l := fun e => h (List.mem_cons_of_mem _ e)
    simp only [List.cons_append, rawLinesAux, hx, if_false]
    rw [rawLinesAux_run b l (x :: cur) hl]
    simp

theorem rawLinesAux_skip (rest : Bytes) (P : Bytes → Prop) (h : ∀ cur, ∃ r ∈ rawLinesAux cur rest, P r) :
    ∀ (a cur : Bytes), ∃ r ∈ rawLinesAux cur (a ++ rest), P r
  | [], cur => by simpa using h cur
  | x :: a, cur => by
    simp only [List.cons_append, rawLinesAux]
    split
    · obtain ⟨r, hr, hp⟩ := rawLinesAux_skip rest P h a []
      exact ⟨r, List.mem_cons_of_mem _ hr, hp⟩
    · exact rawLinesAux_skip rest P h a (x :: cur)

/-- a run of `n ≥ 1` bytes without a newline lies inside one line of at least `n` bytes -/
theorem rawLines_long_run (a l b : Bytes) (hl : 10 ∉ l) (hne : l ≠ []) :
    ∃ r ∈ rawLines (a ++ l ++ b), l.length ≤ r.length := by
  unfold rawLines
  rw [List.append_assoc]
  apply rawLinesAux_skip (l ++ b) (fun r => l.length ≤ r.length)
  intro cur
  rw [rawLinesAux_run b l cur hl]
  obtain ⟨r, hr, hlen⟩ := rawLinesAux_long b (l.reverse ++ cur) (by simp [hne])
  exact ⟨r, hr, by simp at hlen; omega⟩

/-! ## `parse` unfolded -/

theorem parse_none_ok_iff {p : Parser} {tbl : Nat → Option String} {content : Bytes} {r : List Syscall} :
    parse p tbl content none = .ok r ↔
      (scan (rawLines content)).2 = false ∧
      ∃ st, run p tbl St.init (scan (rawLines content)).1 = some st ∧ st.found = r := by
  unfold parse
  dsimp only
  constructor
  · intro h
    split at h
    · cases h
    · rename_i st hst
      split at h
      · cases h
      · rename_i he
        cases h
        exact ⟨by simpa using he, st, hst, rfl⟩
  · rintro ⟨he, st, hst, rfl⟩
    rw [hst]
    simp [he]

theorem parse_ok_fail_none {p : Parser} {tbl : Nat → Option String} {content : Bytes} {fail : Option Nat}
    {r : List Syscall} (h : parse p tbl content fail = .ok r) : fail = none := by
  cases fail with
  | none => rfl
  | some k =>
    unfold parse at h
    dsimp only at h
    split at h
    · cases h
    · simp at h

end Disasm
