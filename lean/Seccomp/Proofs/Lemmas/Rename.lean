import Seccomp.Model.Asm
/-!
# Label names do not matter (`Program.Assemble` and the label-level meaning)

The Go builder hands out integers as labels (`NewLabel` counts up); `Model/Lower.lean` writes the policy
compiler with *structured* labels.  This file proves that this is immaterial: renaming the labels of a label
program by any function that is injective on the labels the program mentions changes neither the assembled
instruction list (`asmT_rename`, `assemble_rename`) nor the label-level meaning (`runT_rename`).
-/

variable {L M : Type} [DecidableEq L] [DecidableEq M]

def LInstr.rename (f : L → M) : LInstr L → LInstr M
  | .ld off => .ld off
  | .ret k => .ret k
  | .ja n => .ja n
  | .jif c k tl fl => .jif c k (f tl) (f fl)

def Tok.rename (f : L → M) : Tok L → Tok M
  | .lab l => .lab (f l)
  | .ins i => .ins (i.rename f)

/-- every label a token mentions: the one it places, or the two it jumps to -/
def Tok.mentions : Tok L → List L
  | .lab l => [l]
  | .ins (.jif _ _ tl fl) => [tl, fl]
  | .ins _ => []

def mentioned (p : List (Tok L)) : List L := p.flatMap Tok.mentions

/-- `f` is injective on the labels in `S` -/
def InjOn (f : L → M) (S : List L) : Prop := ∀ a ∈ S, ∀ b ∈ S, f a = f b → a = b

def St.rename (f : L → M) (s : St L) : St M := ⟨s.out, s.dest.map (fun x => (f x.1, x.2))⟩

/-- the labels with a registered destination -/
def St.labels (s : St L) : List L := s.dest.map (·.1)

theorem find_rename (f : L → M) (S : List L) (hf : InjOn f S) (l : L) (hl : l ∈ S)
    (d : List (L × Nat)) (hd : ∀ x ∈ d, x.1 ∈ S) :
    ((d.map (fun x => (f x.1, x.2))).find? (·.1 == f l)).map (·.2) = (d.find? (·.1 == l)).map (·.2) := by
  induction d with
  | nil => rfl
  | cons x rest ih =>
    have hx : x.1 ∈ S := hd x List.mem_cons_self
    have hrest : ∀ y ∈ rest, y.1 ∈ S := fun y hy => hd y (List.mem_cons_of_mem _ hy)
    simp only [List.map_cons, List.find?_cons]
    by_cases h : x.1 = l
    · have h1 : (x.1 == l) = true := by simp [h]
      have h2 : (f x.1 == f l) = true := by simp [h]
      simp only [h1, h2]
      rfl
    · have h1 : (x.1 == l) = false := by simp [h]
      have h2 : (f x.1 == f l) = false := by
        simp only [beq_eq_false_iff_ne, ne_eq]
        intro e; exact h (hf _ hx _ hl e)
      simp only [h1, h2]
      exact ih hrest

theorem get_rename (f : L → M) (S : List L) (hf : InjOn f S) (s : St L) (hs : ∀ l ∈ s.labels, l ∈ S)
    (l : L) (hl : l ∈ S) : (s.rename f).get (f l) = s.get l := by
  unfold St.get St.rename
  apply find_rename f S hf l hl
  intro x hx
  exact hs x.1 (List.mem_map.mpr ⟨x, hx, rfl⟩)

theorem bridge_rename (f : L → M) (S : List L) (hf : InjOn f S) (s : St L) (hs : ∀ l ∈ s.labels, l ∈ S)
    (l : L) (hl : l ∈ S) : bridge (s.rename f) (f l) = (bridge s l).map (St.rename f) := by
  unfold bridge
  rw [get_rename f S hf s hs l hl]
  cases s.get l with
  | none => rfl
  | some d =>
    have hout : (s.rename f).out = s.out := rfl
    simp only [hout]
    by_cases h : s.out.length - d ≤ 255
    · rw [if_pos h, if_pos h]; rfl
    · rw [if_neg h, if_neg h]; rfl

/-- a bridge step registers at most the label it was asked for -/
theorem bridge_labels (s s' : St L) (l : L) (h : bridge s l = .ok s') :
    ∀ x ∈ s'.labels, x = l ∨ x ∈ s.labels := by
  unfold bridge at h
  cases hg : s.get l with
  | none => rw [hg] at h; cases h
  | some d =>
    rw [hg] at h
    simp only at h
    split at h
    · cases h; intro x hx; exact Or.inr hx
    · cases h
      intro x hx
      simp only [St.labels, List.map_cons, List.mem_cons] at hx
      rcases hx with rfl | hx
      · exact Or.inl rfl
      · exact Or.inr hx

theorem stepTok_rename (f : L → M) (S : List L) (hf : InjOn f S) (t : Tok L) (ht : ∀ l ∈ t.mentions, l ∈ S)
    (s : St L) (hs : ∀ l ∈ s.labels, l ∈ S) :
    stepTok (t.rename f) (s.rename f) = (stepTok t s).map (St.rename f) := by
  cases t with
  | lab l =>
    have hout : (s.rename f).out = s.out := rfl
    simp only [Tok.rename, stepTok, hout]
    by_cases h : s.out.length = 0
    · rw [if_pos h, if_pos h]; rfl
    · rw [if_neg h, if_neg h]; rfl
  | ins i =>
    cases i with
    | ld off => rfl
    | ret k => rfl
    | ja n => rfl
    | jif c k tl fl =>
      have htl : tl ∈ S := ht tl (by simp [Tok.mentions])
      have hfl : fl ∈ S := ht fl (by simp [Tok.mentions])
      simp only [Tok.rename, LInstr.rename, stepTok]
      rw [bridge_rename f S hf s hs fl hfl]
      cases h1 : bridge s fl with
      | error e => rfl
      | ok s1 =>
        have hs1 : ∀ l ∈ s1.labels, l ∈ S := by
          intro x hx; rcases bridge_labels s s1 fl h1 x hx with rfl | h
          · exact hfl
          · exact hs x h
        simp only [Except.map]
        rw [bridge_rename f S hf s1 hs1 tl htl]
        cases h2 : bridge s1 tl with
        | error e => rfl
        | ok s2 =>
          have hs2 : ∀ l ∈ s2.labels, l ∈ S := by
            intro x hx; rcases bridge_labels s1 s2 tl h2 x hx with rfl | h
            · exact htl
            · exact hs1 x h
          simp only [Except.map]
          rw [bridge_rename f S hf s2 hs2 fl hfl]
          cases h3 : bridge s2 fl with
          | error e => rfl
          | ok s3 =>
            have hs3 : ∀ l ∈ s3.labels, l ∈ S := by
              intro x hx; rcases bridge_labels s2 s3 fl h3 x hx with rfl | h
              · exact hfl
              · exact hs2 x h
            simp only [Except.map]
            rw [get_rename f S hf s3 hs3 tl htl, get_rename f S hf s3 hs3 fl hfl]
            cases s3.get tl with
            | none => rfl
            | some dt =>
              cases s3.get fl with
              | none => rfl
              | some df =>
                have hout : (s3.rename f).out = s3.out := rfl
                simp only [hout]
                by_cases h : s3.out.length - dt = 0 ∧ s3.out.length - df = 0
                · rw [if_pos h, if_pos h]
                · rw [if_neg h, if_neg h]; rfl

/-- a step registers at most the labels its token mentions -/
theorem stepTok_labels (t : Tok L) (s s' : St L) (h : stepTok t s = .ok s') :
    ∀ x ∈ s'.labels, x ∈ t.mentions ∨ x ∈ s.labels := by
  cases t with
  | lab l =>
    simp only [stepTok] at h
    split at h
    · cases h; intro x hx; exact Or.inr hx
    · cases h
      intro x hx
      simp only [St.labels, List.map_cons, List.mem_cons] at hx
      rcases hx with rfl | hx
      · exact Or.inl (by simp [Tok.mentions])
      · exact Or.inr hx
  | ins i =>
    cases i with
    | ld off => simp only [stepTok] at h; cases h; intro x hx; exact Or.inr hx
    | ret k => simp only [stepTok] at h; cases h; intro x hx; exact Or.inr hx
    | ja n => simp only [stepTok] at h; cases h; intro x hx; exact Or.inr hx
    | jif c k tl fl =>
      simp only [stepTok] at h
      cases h1 : bridge s fl with
      | error e => rw [h1] at h; cases h
      | ok s1 =>
        rw [h1] at h; simp only at h
        cases h2 : bridge s1 tl with
        | error e => rw [h2] at h; cases h
        | ok s2 =>
          rw [h2] at h; simp only at h
          cases h3 : bridge s2 fl with
          | error e => rw [h3] at h; cases h
          | ok s3 =>
            rw [h3] at h; simp only at h
            have key : ∀ x ∈ s3.labels, x ∈ (Tok.ins (LInstr.jif c k tl fl)).mentions ∨ x ∈ s.labels := by
              intro x hx
              rcases bridge_labels s2 s3 fl h3 x hx with rfl | hx2
              · exact Or.inl (by simp [Tok.mentions])
              rcases bridge_labels s1 s2 tl h2 x hx2 with rfl | hx1
              · exact Or.inl (by simp [Tok.mentions])
              rcases bridge_labels s s1 fl h1 x hx1 with rfl | hx0
              · exact Or.inl (by simp [Tok.mentions])
              · exact Or.inr hx0
            cases hgt : s3.get tl <;> cases hgf : s3.get fl <;> rw [hgt, hgf] at h <;> simp only at h <;> try cases h
            split at h
            · cases h
            · cases h; exact key

def renameToks (f : L → M) (p : List (Tok L)) : List (Tok M) := p.map (Tok.rename f)

omit [DecidableEq L] in
theorem mentioned_cons (t : Tok L) (p : List (Tok L)) : mentioned (t :: p) = t.mentions ++ mentioned p := by
  simp [mentioned]

/-- the resolver registers only labels the program mentions -/
theorem asmT_labels (p : List (Tok L)) (s : St L) (h : asmT p = .ok s) : ∀ x ∈ s.labels, x ∈ mentioned p := by
  induction p generalizing s with
  | nil => simp only [asmT] at h; cases h; intro x hx; cases hx
  | cons t rest ih =>
    simp only [asmT] at h
    cases hr : asmT rest with
    | error e => rw [hr] at h; cases h
    | ok s0 =>
      rw [hr] at h; simp only at h
      intro x hx
      rw [mentioned_cons]
      rcases stepTok_labels t s0 s h x hx with h1 | h1
      · exact List.mem_append_left _ h1
      · exact List.mem_append_right _ (ih s0 hr x h1)

/-- **The resolver does not look at label names**: renaming by a function injective on the mentioned labels
    commutes with resolution (same instruction list, same error). -/
theorem asmT_rename (f : L → M) (p : List (Tok L)) (hf : InjOn f (mentioned p)) :
    asmT (renameToks f p) = (asmT p).map (St.rename f) := by
  induction p with
  | nil => rfl
  | cons t rest ih =>
    have hsub : ∀ x ∈ mentioned rest, x ∈ mentioned (t :: rest) := by
      intro x hx; rw [mentioned_cons]; exact List.mem_append_right _ hx
    have hf' : InjOn f (mentioned rest) := fun a ha b hb e => hf a (hsub a ha) b (hsub b hb) e
    simp only [renameToks, List.map_cons, asmT]
    have ih' := ih hf'
    simp only [renameToks] at ih'
    rw [ih']
    cases hr : asmT rest with
    | error e => rfl
    | ok s0 =>
      simp only [Except.map]
      apply stepTok_rename f (mentioned (t :: rest)) hf t
      · intro l hl; rw [mentioned_cons]; exact List.mem_append_left _ hl
      · intro l hl; exact hsub l (asmT_labels rest s0 hr l hl)

theorem assemble_rename (f : L → M) (p : List (Tok L)) (hf : InjOn f (mentioned p)) :
    assemble (renameToks f p) = assemble p := by
  unfold assemble
  rw [asmT_rename f p hf]
  cases asmT p <;> rfl

/-! ## the label-level meaning does not look at label names either -/

theorem findLab_rename (f : L → M) (S : List L) (hf : InjOn f S) (l : L) (hl : l ∈ S)
    (p : List (Tok L)) (hp : ∀ x ∈ mentioned p, x ∈ S) :
    findLab (f l) (renameToks f p) = findLab l p := by
  induction p with
  | nil => rfl
  | cons t rest ih =>
    have hrest : ∀ x ∈ mentioned rest, x ∈ S := by
      intro x hx; apply hp; rw [mentioned_cons]; exact List.mem_append_right _ hx
    have ih' := ih hrest
    simp only [renameToks] at ih'
    cases t with
    | lab l' =>
      have hl' : l' ∈ S := hp l' (by rw [mentioned_cons]; exact List.mem_append_left _ (by simp [Tok.mentions]))
      simp only [renameToks, List.map_cons, Tok.rename, findLab]
      by_cases h : l' = l
      · rw [if_pos h, if_pos (by rw [h])]
      · rw [if_neg h, if_neg (fun e => h (hf _ hl' _ hl e)), ih']
    | ins i =>
      simp only [renameToks, List.map_cons, Tok.rename, findLab, ih']

omit [DecidableEq L] [DecidableEq M] in
theorem dropIns_rename (f : L → M) (n : Nat) (p : List (Tok L)) :
    dropIns n (renameToks f p) = renameToks f (dropIns n p) := by
  induction p generalizing n with
  | nil => cases n <;> rfl
  | cons t rest ih =>
    cases n with
    | zero => rfl
    | succ n =>
      cases t with
      | lab l => simp only [renameToks, List.map_cons, Tok.rename, dropIns]; exact ih (n+1)
      | ins i => simp only [renameToks, List.map_cons, Tok.rename, dropIns]; exact ih n

omit [DecidableEq L] in
theorem mentioned_dropIns (n : Nat) (p : List (Tok L)) : ∀ x ∈ mentioned (dropIns n p), x ∈ mentioned p := by
  induction p generalizing n with
  | nil => cases n <;> simp [dropIns]
  | cons t rest ih =>
    cases n with
    | zero => simp [dropIns]
    | succ n =>
      intro x hx
      rw [mentioned_cons]
      apply List.mem_append_right
      cases t with
      | lab l => exact ih (n+1) x hx
      | ins i => exact ih n x hx

omit [DecidableEq L] in
theorem mentioned_drop (i : Nat) (p : List (Tok L)) : ∀ x ∈ mentioned (p.drop i), x ∈ mentioned p := by
  intro x hx
  simp only [mentioned, List.mem_flatMap] at hx ⊢
  obtain ⟨t, ht, hxt⟩ := hx
  exact ⟨t, List.mem_of_mem_drop ht, hxt⟩

/-- **The label-level meaning is invariant under renaming** (injective on the mentioned labels). -/
theorem runT_rename (w : Nat → Word) (f : L → M) (S : List L) (hf : InjOn f S) :
    ∀ (n : Nat) (p : List (Tok L)), p.length ≤ n → (∀ x ∈ mentioned p, x ∈ S) →
      ∀ a, runT w (renameToks f p) a = runT w p a := by
  intro n
  induction n with
  | zero =>
    intro p hp _ a
    have : p = [] := List.eq_nil_of_length_eq_zero (by omega)
    subst this; simp [renameToks]
  | succ n ih =>
    intro p hp hS a
    cases p with
    | nil => simp [renameToks]
    | cons t rest =>
      have hlen : rest.length ≤ n := by simp only [List.length_cons] at hp; omega
      have hrest : ∀ x ∈ mentioned rest, x ∈ S := by
        intro x hx; apply hS; rw [mentioned_cons]; exact List.mem_append_right _ hx
      cases t with
      | lab l =>
        simp only [renameToks, List.map_cons, Tok.rename, runT_lab]
        exact ih rest hlen hrest a
      | ins i =>
        cases i with
        | ld off =>
          simp only [renameToks, List.map_cons, Tok.rename, LInstr.rename, runT_ld]
          exact ih rest hlen hrest (w off)
        | ret k => simp only [renameToks, List.map_cons, Tok.rename, LInstr.rename, runT_ret]
        | ja k =>
          simp only [renameToks, List.map_cons, Tok.rename, LInstr.rename, runT_ja]
          have := dropIns_rename f k rest
          simp only [renameToks] at this
          rw [this]
          apply ih
          · have := dropIns_length k rest; omega
          · intro x hx; exact hrest x (mentioned_dropIns k rest x hx)
        | jif c k tl fl =>
          have htl : tl ∈ S := hS tl (by rw [mentioned_cons]; exact List.mem_append_left _ (by simp [Tok.mentions]))
          have hfl : fl ∈ S := hS fl (by rw [mentioned_cons]; exact List.mem_append_left _ (by simp [Tok.mentions]))
          simp only [renameToks, List.map_cons, Tok.rename, LInstr.rename, runT_jif]
          have hsel : (if c.eval a k = true then f tl else f fl) = f (if c.eval a k = true then tl else fl) := by
            split <;> rfl
          rw [hsel]
          generalize hl : (if c.eval a k = true then tl else fl) = l
          have hlS : l ∈ S := by rw [← hl]; split <;> assumption
          unfold contAt
          have hfind := findLab_rename f S hf l hlS rest hrest
          simp only [renameToks] at hfind
          rw [hfind]
          cases findLab l rest with
          | none => rfl
          | some i =>
            simp only
            rw [← List.map_drop]
            apply ih
            · simp only [List.length_drop]; omega
            · intro x hx; exact hrest x (mentioned_drop i rest x hx)
