import Seccomp.Model.Arch
/-!
# General lemmas behind the finite table facts of C12

* a structural (fuel based) merge sort `msort` that the kernel can evaluate, with `msort_perm`;
* `strictAsc l = true → l.Nodup`, so "the sorted codes are strictly ascending" proves uniqueness;
* `encBytes` / `enc` are injective, so distinct codes mean distinct names;
* `agreeCheck` — a linear merge walk over two key-sorted association lists — is sound:
  equal keys carry equal values;
* `invert` (model of the Go function) does not depend on the iteration order when the values are
  pairwise distinct, and then equals the first-match lookup `nameToNr`;
* the two lookups are mutual inverses when keys and values are both pairwise distinct.
-/

namespace Arch

/-! ## merge sort -/

section MSort
variable {α : Type} (key : α → Nat)

def mergeF : Nat → List α → List α → List α
  | 0, xs, ys => xs ++ ys
  | _ + 1, [], ys => ys
  | _ + 1, x :: xs, [] => x :: xs
  | f + 1, x :: xs, y :: ys =>
    if key x ≤ key y then x :: mergeF f xs (y :: ys) else y :: mergeF f (x :: xs) ys

theorem mergeF_perm : ∀ (f : Nat) (xs ys : List α), (mergeF key f xs ys).Perm (xs ++ ys) := by
  intro f
  induction f with
  | zero => intro xs ys; simp [mergeF]
  | succ f ih =>
    intro xs ys
    cases xs with
    | nil => simp [mergeF]
    | cons x xs =>
      cases ys with
      | nil => simp [mergeF]
      | cons y ys =>
        simp only [mergeF]
        split
        · exact (ih xs (y :: ys)).cons x
        · exact ((ih (x :: xs) ys).cons y).trans (List.perm_middle.symm)

def mergePairs : List (List α) → List (List α)
  | [] => []
  | [a] => [a]
  | a :: b :: rest => mergeF key (a.length + b.length) a b :: mergePairs rest

theorem mergePairs_perm : ∀ (ls : List (List α)), (mergePairs key ls).flatten.Perm ls.flatten
  | [] => by simp [mergePairs]
  | [a] => by simp [mergePairs]
  | a :: b :: rest => by
    simp only [mergePairs, List.flatten_cons]
    rw [← List.append_assoc]
    exact (mergeF_perm key _ a b).append (mergePairs_perm rest)

def mergeAll : Nat → List (List α) → List α
  | 0, ls => ls.flatten
  | f + 1, ls =>
    match ls with
    | [] => []
    | [a] => a
    | a :: b :: rest => mergeAll f (mergePairs key (a :: b :: rest))

theorem mergeAll_perm : ∀ (f : Nat) (ls : List (List α)), (mergeAll key f ls).Perm ls.flatten := by
  intro f
  induction f with
  | zero => intro ls; simp [mergeAll]
  | succ f ih =>
    intro ls
    match ls with
    | [] => simp [mergeAll]
    | [a] => simp [mergeAll]
    | a :: b :: rest =>
      simp only [mergeAll]
      exact (ih _).trans (mergePairs_perm key _)

/-- bottom-up merge sort by `key`; structural, so the kernel evaluates it -/
def msort (l : List α) : List α := mergeAll key l.length (l.map fun x => [x])

theorem flatten_singletons : ∀ (l : List α), (l.map fun x => [x]).flatten = l
  | [] => rfl
  | x :: l => by simp [flatten_singletons l]

theorem msort_perm (l : List α) : (msort key l).Perm l := by
  have h := mergeAll_perm key l.length (l.map fun x => [x])
  rw [flatten_singletons] at h
  exact h

end MSort

/-! ## ascending checks -/

def strictAsc : List Nat → Bool
  | [] => true
  | [_] => true
  | a :: b :: rest => decide (a < b) && strictAsc (b :: rest)

def weakAsc : List Nat → Bool
  | [] => true
  | [_] => true
  | a :: b :: rest => decide (a ≤ b) && weakAsc (b :: rest)

theorem strictAsc_pairwise : ∀ (l : List Nat), strictAsc l = true → l.Pairwise (· < ·)
  | [], _ => List.Pairwise.nil
  | [_], _ => by simp
  | a :: b :: rest, h => by
    simp only [strictAsc, Bool.and_eq_true, decide_eq_true_eq] at h
    have ih := strictAsc_pairwise (b :: rest) h.2
    refine List.Pairwise.cons ?_ ih
    intro c hc
    rcases List.mem_cons.mp hc with rfl | hc
    · exact h.1
    · exact Nat.lt_trans h.1 (List.rel_of_pairwise_cons ih hc)

theorem weakAsc_pairwise : ∀ (l : List Nat), weakAsc l = true → l.Pairwise (· ≤ ·)
  | [], _ => List.Pairwise.nil
  | [_], _ => by simp
  | a :: b :: rest, h => by
    simp only [weakAsc, Bool.and_eq_true, decide_eq_true_eq] at h
    have ih := weakAsc_pairwise (b :: rest) h.2
    refine List.Pairwise.cons ?_ ih
    intro c hc
    rcases List.mem_cons.mp hc with rfl | hc
    · exact h.1
    · exact Nat.le_trans h.1 (List.rel_of_pairwise_cons ih hc)

theorem strictAsc_nodup (l : List Nat) (h : strictAsc l = true) : l.Nodup :=
  (strictAsc_pairwise l h).imp (fun hab => Nat.ne_of_lt hab)

/-- uniqueness certificate: the sorted list is strictly ascending -/
def uniqueCheck (l : List Nat) : Bool := strictAsc (msort id l)

theorem uniqueCheck_nodup (l : List Nat) (h : uniqueCheck l = true) : l.Nodup :=
  (msort_perm id l).nodup_iff.mp (strictAsc_nodup _ h)

/-! ## name codes are injective -/

theorem encBytes_pos : ∀ (l : List UInt8), 0 < encBytes l
  | [] => by simp [encBytes]
  | c :: cs => by have := encBytes_pos cs; simp only [encBytes]; omega

theorem encBytes_inj : ∀ (a b : List UInt8), encBytes a = encBytes b → a = b
  | [], [], _ => rfl
  | [], d :: ds, h => by
    have := encBytes_pos ds; simp only [encBytes] at h; omega
  | c :: cs, [], h => by
    have := encBytes_pos cs; simp only [encBytes] at h; omega
  | c :: cs, d :: ds, h => by
    simp only [encBytes] at h
    have hc : c.toNat < 256 := UInt8.toNat_lt c
    have hd : d.toNat < 256 := UInt8.toNat_lt d
    have h1 : encBytes cs = encBytes ds := by omega
    have h2 : c.toNat = d.toNat := by omega
    rw [encBytes_inj cs ds h1, UInt8.toNat_inj.mp h2]

theorem enc_inj (s t : String) (h : enc s = enc t) : s = t := by
  have h1 := encBytes_inj _ _ h
  have h2 : s.toUTF8.data = t.toUTF8.data := Array.toList_inj.mp h1
  have h3 : s.toUTF8 = t.toUTF8 := ByteArray.ext h2
  exact String.toByteArray_inj.mp h3

/-! ## agreement of two association lists by a merge walk -/

def agreeF : Nat → List (Nat × Nat) → List (Nat × Nat) → Bool
  | _, [], _ => true
  | _, _ :: _, [] => true
  | 0, _ :: _, _ :: _ => false
  | f + 1, t :: ts, o :: os =>
    if t.1 < o.1 then agreeF f ts (o :: os)
    else if o.1 < t.1 then agreeF f (t :: ts) os
    else t.2 == o.2 && agreeF f (t :: ts) os

theorem agreeF_sound : ∀ (f : Nat) (ts os : List (Nat × Nat)), agreeF f ts os = true →
    ts.Pairwise (fun a b => a.1 < b.1) → os.Pairwise (fun a b => a.1 ≤ b.1) →
    ∀ t ∈ ts, ∀ o ∈ os, t.1 = o.1 → t.2 = o.2 := by
  intro f
  induction f with
  | zero =>
    intro ts os h _ _ t ht o ho _
    cases ts with
    | nil => cases ht
    | cons a ts =>
      cases os with
      | nil => cases ho
      | cons b os => simp [agreeF] at h
  | succ f ih =>
    intro ts os h hts hos t' ht' o' ho' hk
    cases ts with
    | nil => cases ht'
    | cons t ts =>
      cases os with
      | nil => cases ho'
      | cons o os =>
        have hts' := List.pairwise_cons.mp hts
        have hos' := List.pairwise_cons.mp hos
        have ho_ge : o.1 ≤ o'.1 := by
          rcases List.mem_cons.mp ho' with rfl | hm
          · exact Nat.le_refl _
          · exact hos'.1 _ hm
        have ht_ge : t.1 ≤ t'.1 := by
          rcases List.mem_cons.mp ht' with rfl | hm
          · exact Nat.le_refl _
          · exact Nat.le_of_lt (hts'.1 _ hm)
        simp only [agreeF] at h
        split at h
        · -- t.1 < o.1 : t is dropped
          rename_i hlt
          rcases List.mem_cons.mp ht' with rfl | hm
          · omega
          · exact ih ts (o :: os) h hts'.2 hos t' hm o' ho' hk
        · split at h
          · -- o.1 < t.1 : o is dropped
            rename_i _ hlt
            rcases List.mem_cons.mp ho' with rfl | hm
            · omega
            · exact ih (t :: ts) os h hts hos'.2 t' ht' o' hm hk
          · -- equal keys
            rename_i h1 h2
            simp only [Bool.and_eq_true, beq_iff_eq] at h
            rcases List.mem_cons.mp ho' with rfl | hm
            · rcases List.mem_cons.mp ht' with rfl | hm'
              · exact h.1
              · have := hts'.1 _ hm'; omega
            · exact ih (t :: ts) os h.2 hts hos'.2 t' ht' o' hm hk

/-- `tcodes`, `ocodes`: `(key, value)` lists in any order; true only if, after sorting both by key,
    the first has strictly ascending keys and a linear walk finds equal values under equal keys -/
def agreeCheck (tcodes ocodes : List (Nat × Nat)) : Bool :=
  let ts := msort (·.1) tcodes
  let os := msort (·.1) ocodes
  strictAsc (ts.map (·.1)) && weakAsc (os.map (·.1)) && agreeF (ts.length + os.length + 1) ts os

theorem agreeCheck_sound (tcodes ocodes : List (Nat × Nat)) (h : agreeCheck tcodes ocodes = true) :
    ∀ t ∈ tcodes, ∀ o ∈ ocodes, t.1 = o.1 → t.2 = o.2 := by
  simp only [agreeCheck, Bool.and_eq_true] at h
  obtain ⟨⟨h1, h2⟩, h3⟩ := h
  have p1 := List.pairwise_map.mp (strictAsc_pairwise _ h1)
  have p2 := List.pairwise_map.mp (weakAsc_pairwise _ h2)
  intro t ht o ho hk
  exact agreeF_sound _ _ _ h3 p1 p2 t ((msort_perm (·.1) tcodes).mem_iff.mpr ht)
    o ((msort_perm (·.1) ocodes).mem_iff.mpr ho) hk

/-- the same for lists that are already sorted by key (`ts` strictly): only linear work -/
def sortedAgree (ts os : List (Nat × Nat)) : Bool :=
  weakAsc (os.map (·.1)) && agreeF (ts.length + os.length + 1) ts os

theorem sortedAgree_sound (ts os : List (Nat × Nat)) (hs : strictAsc (ts.map (·.1)) = true)
    (h : sortedAgree ts os = true) : ∀ t ∈ ts, ∀ o ∈ os, t.1 = o.1 → t.2 = o.2 := by
  simp only [sortedAgree, Bool.and_eq_true] at h
  exact agreeF_sound _ _ _ h.2 (List.pairwise_map.mp (strictAsc_pairwise _ hs))
    (List.pairwise_map.mp (weakAsc_pairwise _ h.1))

/-! ## `invert` -/

def invertFrom (m : NameMap) (order : Table) : NameMap :=
  order.foldl (fun out kv => out.set kv.2 kv.1) m

theorem invert_eq_invertFrom (order : Table) : invert order = invertFrom NameMap.empty order := rfl

theorem invertFrom_cons (m : NameMap) (p : Nat × String) (l : Table) :
    invertFrom m (p :: l) = invertFrom (m.set p.2 p.1) l := rfl

theorem invertFrom_absent : ∀ (l : Table) (m : NameMap) (x : String),
    (∀ p ∈ l, p.2 ≠ x) → invertFrom m l x = m x
  | [], _, _, _ => rfl
  | p :: l, m, x, h => by
    rw [invertFrom_cons, invertFrom_absent l _ x (fun q hq => h q (List.mem_cons_of_mem _ hq))]
    have : x ≠ p.2 := fun e => h p (List.mem_cons_self) e.symm
    simp [NameMap.set, this]

theorem invertFrom_mem : ∀ (l : Table) (m : NameMap) (n : Nat) (x : String),
    (l.map (·.2)).Nodup → (n, x) ∈ l → invertFrom m l x = some n
  | [], _, _, _, _, h => by cases h
  | p :: l, m, n, x, hnd, h => by
    rw [invertFrom_cons]
    simp only [List.map_cons, List.nodup_cons] at hnd
    rcases List.mem_cons.mp h with rfl | hm
    · rw [invertFrom_absent]
      · simp [NameMap.set]
      · intro q hq e
        exact hnd.1 (List.mem_map.mpr ⟨q, hq, e⟩)
    · exact invertFrom_mem l _ n x hnd.2 hm

/-- with pairwise distinct names, the inverted map holds exactly the entries, whatever the order -/
theorem invert_eq_some_iff (l : Table) (hnd : (l.map (·.2)).Nodup) (x : String) (n : Nat) :
    invert l x = some n ↔ (n, x) ∈ l := by
  constructor
  · intro h
    by_cases hex : ∃ p ∈ l, p.2 = x
    · obtain ⟨p, hp, rfl⟩ := hex
      have := invertFrom_mem l NameMap.empty p.1 p.2 hnd hp
      rw [invert_eq_invertFrom] at h
      rw [this] at h
      cases h
      exact hp
    · rw [invert_eq_invertFrom, invertFrom_absent l _ x (fun p hp e => hex ⟨p, hp, e⟩)] at h
      cases h
  · exact invertFrom_mem l NameMap.empty n x hnd

/-- **order independence**: two iteration orders of the same entries (`List.Perm`) give the same
    inverted map, provided the values (names) are pairwise distinct -/
theorem invert_perm (l₁ l₂ : Table) (hp : l₁.Perm l₂) (hnd : (l₁.map (·.2)).Nodup) :
    invert l₁ = invert l₂ := by
  have hnd₂ : (l₂.map (·.2)).Nodup := (hp.map (·.2)).nodup_iff.mp hnd
  funext x
  cases h : invert l₁ x with
  | some n =>
    have := (invert_eq_some_iff l₁ hnd x n).mp h
    exact ((invert_eq_some_iff l₂ hnd₂ x n).mpr (hp.mem_iff.mp this)).symm
  | none =>
    cases h₂ : invert l₂ x with
    | none => rfl
    | some n =>
      have := (invert_eq_some_iff l₂ hnd₂ x n).mp h₂
      rw [(invert_eq_some_iff l₁ hnd x n).mpr (hp.mem_iff.mpr this)] at h
      cases h

/-- any entry's name is present in the inverted map (no distinctness needed) -/
theorem invertFrom_isSome : ∀ (l : Table) (m : NameMap) (x : String),
    (∃ p ∈ l, p.2 = x) → (invertFrom m l x).isSome = true
  | [], _, _, h => by obtain ⟨_, hp, _⟩ := h; cases hp
  | p :: l, m, x, h => by
    rw [invertFrom_cons]
    by_cases hex : ∃ q ∈ l, q.2 = x
    · exact invertFrom_isSome l _ x hex
    · rw [invertFrom_absent l _ x (fun q hq e => hex ⟨q, hq, e⟩)]
      obtain ⟨q, hq, rfl⟩ := h
      rcases List.mem_cons.mp hq with rfl | hm
      · simp [NameMap.set]
      · exact absurd ⟨q, hm, rfl⟩ hex

/-! ## first-match lookups -/

theorem find_of_nodup {β : Type} [DecidableEq β] (f : Nat × String → β) :
    ∀ (t : Table), (t.map f).Nodup → ∀ p ∈ t, t.find? (fun q => f q == f p) = some p
  | [], _, _, h => by cases h
  | q :: t, hnd, p, h => by
    simp only [List.map_cons, List.nodup_cons] at hnd
    rcases List.mem_cons.mp h with rfl | hm
    · simp
    · have hne : f q ≠ f p := fun e => hnd.1 (e ▸ List.mem_map.mpr ⟨p, hm, rfl⟩)
      have hb : (f q == f p) = false := by simp [hne]
      simp only [List.find?_cons, hb]
      exact find_of_nodup f t hnd.2 p hm

theorem nameToNr_eq_some_iff (t : Table) (hnd : (t.map (·.2)).Nodup) (name : String) (nr : Nat) :
    nameToNr t name = some nr ↔ (nr, name) ∈ t := by
  unfold nameToNr
  constructor
  · intro h
    cases hf : t.find? (fun p => p.2 == name) with
    | none => simp [hf] at h
    | some p =>
      simp only [hf, Option.map_some, Option.some.injEq] at h
      have hm := List.mem_of_find?_eq_some hf
      have hp := List.find?_some hf
      simp only [beq_iff_eq] at hp
      rw [← h, ← hp]; exact hm
  · intro h
    have := find_of_nodup (·.2) t hnd (nr, name) h
    simp only at this
    rw [this]; rfl

theorem nrToName_eq_some_iff (t : Table) (hnd : (t.map (·.1)).Nodup) (nr : Nat) (name : String) :
    nrToName t nr = some name ↔ (nr, name) ∈ t := by
  unfold nrToName
  constructor
  · intro h
    cases hf : t.find? (fun p => p.1 == nr) with
    | none => simp [hf] at h
    | some p =>
      simp only [hf, Option.map_some, Option.some.injEq] at h
      have hm := List.mem_of_find?_eq_some hf
      have hp := List.find?_some hf
      simp only [beq_iff_eq] at hp
      rw [← h, ← hp]; exact hm
  · intro h
    have := find_of_nodup (·.1) t hnd (nr, name) h
    simp only at this
    rw [this]; rfl

theorem nameToNr_none_iff (t : Table) (name : String) :
    nameToNr t name = none ↔ ∀ p ∈ t, p.2 ≠ name := by
  unfold nameToNr
  simp [List.find?_eq_none]

/-- with distinct names, `invert` of any iteration order is the first-match lookup -/
theorem invert_eq_nameToNr (t order : Table) (hp : order.Perm t) (hnd : (t.map (·.2)).Nodup) :
    invert order = nameToNr t := by
  have hnd' : (order.map (·.2)).Nodup := (hp.map (·.2)).nodup_iff.mpr hnd
  funext x
  cases h : nameToNr t x with
  | some n =>
    exact (invert_eq_some_iff order hnd' x n).mpr
      (hp.mem_iff.mpr ((nameToNr_eq_some_iff t hnd x n).mp h))
  | none =>
    have hnone := (nameToNr_none_iff t x).mp h
    rw [invert_eq_invertFrom, invertFrom_absent order _ x (fun p hm => hnone p (hp.mem_iff.mp hm))]
    rfl

end Arch
