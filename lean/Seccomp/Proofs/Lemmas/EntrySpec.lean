import Seccomp.Proofs.Lemmas.ListSpec

variable (w : Nat → Word) (ly : Layout) (nr : Word) (args : Nat → BitVec 64)

theorem labelsOf_entryToks (e : Nat) (ent : Entry) : ∀ x ∈ labelsOf (entryToks ly e ent), inEntry e x := by
  intro x hx
  cases ent with
  | uncond num => simp [entryToks, jt, labelsOf] at hx; subst hx; simp [inEntry]
  | cond num lists =>
    simp only [entryToks, jt, labelsOf_append, labelsOf, List.mem_append, List.mem_cons, List.not_mem_nil,
      or_false] at hx
    rcases hx with (h | h) | h
    · subst h; simp [inEntry]
    · exact (labelsOf_listsToks ly e lists 0 x h).1
    · subst h; simp [inEntry]

/-- one entry, entered with the syscall number in the accumulator: it jumps to `action` iff it matches,
    and otherwise falls through **with the syscall number in the accumulator again** -/
theorem entry_spec (hs : Sees ly w nr args) (e : Nat) (ent : Entry) (rest : List (Tok PL)) :
    ∃ a', runT w (entryToks ly e ent ++ rest) nr =
      if ent.matches nr args then contAt w .action rest a' else runT w rest nr := by
  cases ent with
  | uncond num =>
    refine ⟨nr, ?_⟩
    simp only [entryToks, jt, List.cons_append, List.nil_append, runT_jif, Cond.eval, Entry.matches]
    by_cases h : (nr == num) = true
    · simp only [h, if_true]; rw [contAt_cons_lab_ne _ _ _ _ _ (by simp)]
    · simp only [h, Bool.false_eq_true, if_false, contAt_lab_self]
  | cond num lists =>
    simp only [entryToks, jt, List.cons_append, List.nil_append, List.append_assoc, runT_jif, Cond.eval,
      Entry.matches]
    by_cases h : (nr == num) = true
    · have hne : (nr != num) = false := by simp [bne, h]
      simp only [hne, Bool.false_eq_true, if_false, contAt_lab_self, h, Bool.true_and]
      obtain ⟨a1, hl⟩ := lists_spec w ly nr args hs e lists 0 ([.ins (.ld 0), .lab (.nextSys e)] ++ rest) nr
      simp only [List.cons_append, List.nil_append] at hl
      rw [hl]
      refine ⟨a1, ?_⟩
      by_cases hm : lists.any (listMatches args) = true
      · simp only [hm, if_true]; rw [contAt_cons_ins, contAt_cons_lab_ne _ _ _ _ _ (by simp)]
      · simp only [hm, Bool.false_eq_true, if_false, runT_ld, runT_lab, hs.nr]
    · have hne : (nr != num) = true := by simp [bne]; simpa using h
      refine ⟨nr, ?_⟩
      simp only [hne, if_true, h, Bool.false_and, Bool.false_eq_true, if_false]
      rw [contAt_cons_lab_ne _ _ _ _ _ (by simp),
        contAt_append_not_mem _ _ _ _ _ (fun hmem => (labelsOf_listsToks ly e lists 0 _ hmem).2.1 rfl),
        contAt_cons_ins, contAt_lab_self]

theorem action_not_in_entries : ∀ (ents : List Entry) (e : Nat), PL.action ∉ labelsOf (entriesToks ly e ents)
  | [], _ => by simp [entriesToks, labelsOf]
  | ent :: more, e => by
    simp only [entriesToks, labelsOf_append, List.mem_append, not_or]
    exact ⟨fun h => by simpa [inEntry] using labelsOf_entryToks ly e ent _ h, action_not_in_entries more (e+1)⟩

/-- the entries of a group, in order -/
theorem entries_spec (hs : Sees ly w nr args) : ∀ (ents : List Entry) (e : Nat) (rest : List (Tok PL)),
    ∃ a', runT w (entriesToks ly e ents ++ rest) nr =
      if ents.any (·.matches nr args) then contAt w .action rest a' else runT w rest nr
  | [], _, rest => ⟨nr, by simp [entriesToks]⟩
  | ent :: more, e, rest => by
    obtain ⟨a1, h⟩ := entry_spec w ly nr args hs e ent (entriesToks ly (e+1) more ++ rest)
    simp only [entriesToks, List.append_assoc, h, List.any_cons]
    by_cases hm : ent.matches nr args = true
    · refine ⟨a1, ?_⟩
      simp only [hm, if_true, Bool.true_or]
      rw [contAt_append_not_mem _ _ _ _ _ (action_not_in_entries ly more (e+1))]
    · obtain ⟨a2, ih⟩ := entries_spec hs more (e+1) rest
      exact ⟨a2, by simp only [hm, Bool.false_eq_true, if_false, Bool.false_or, ih]⟩

/-- **Group**: returns the group's value iff some entry matches, else leaves through its end with `nr` -/
theorem group_spec (hs : Sees ly w nr args) (ents : List Entry) (r : Word) :
    runT w (groupToks ly ents r) nr = if ents.any (·.matches nr args) then .ret r else .exit nr := by
  obtain ⟨a', h⟩ := entries_spec w ly nr args hs ents 0 [.ins (.ja 1), .lab .action, .ins (.ret r)]
  unfold groupToks
  rw [h]
  by_cases hm : ents.any (·.matches nr args) = true
  · simp only [hm, if_true]
    rw [contAt_cons_ins, contAt_lab_self, runT_ret]
  · simp only [hm, Bool.false_eq_true, if_false]
    rw [runT_ja]; simp [dropIns]
#print axioms group_spec
