import Seccomp.Model.Asm

variable {L : Type} [DecidableEq L]

def plain : LInstr L → Bool
  | .jif .. => false
  | _ => true

def PlainPrefixT : Nat → List (Tok L) → Prop
  | 0, _ => True
  | _+1, [] => True
  | k+1, .lab _ :: rest => PlainPrefixT (k+1) rest
  | k+1, .ins i :: rest => plain i = true ∧ PlainPrefixT k rest

omit [DecidableEq L] in
theorem pp0 (p : List (Tok L)) : PlainPrefixT 0 p := by
  unfold PlainPrefixT; trivial

def JaOkT : List (Tok L) → Prop
  | [] => True
  | .ins (.ja n) :: rest => PlainPrefixT n rest ∧ JaOkT rest
  | _ :: rest => JaOkT rest

theorem JaOkT_tail (t : Tok L) (rest : List (Tok L)) (h : JaOkT (t :: rest)) : JaOkT rest := by
  cases t with
  | lab l => exact h
  | ins i => cases i <;> first | exact h | exact h.2

def DestOk (w : Nat → Word) (prog : List (Tok L)) (s : St L) : Prop :=
  ∀ l d, s.get l = some d → 1 ≤ d ∧ d ≤ s.out.length ∧
    ∃ i, findLab l prog = some i ∧
      ∀ a, run w (s.out.drop (s.out.length - d)) a = runT w (prog.drop i) a

structure AInv (w : Nat → Word) (prog : List (Tok L)) (s : St L) : Prop where
  sim : ∀ k, PlainPrefixT k prog → ∀ a, run w (s.out.drop k) a = runT w (dropIns k prog) a
  dest : DestOk w prog s

theorem get_cons (o o' : List Instr) (dest : List (L × Nat)) (l l' : L) (n : Nat) :
    St.get (L := L) { out := o, dest := (l, n) :: dest } l' =
      if l = l' then some n else St.get { out := o', dest := dest } l' := by
  simp only [St.get, List.find?_cons]
  by_cases h : l = l'
  · simp [h]
  · have : (l == l') = false := by simpa using h
    simp [this, h]

theorem bridge_destOk {w} {prog : List (Tok L)} {s : St L} {l s'} (h : DestOk w prog s)
    (hb : bridge s l = .ok s') : DestOk w prog s' := by
  unfold bridge at hb
  split at hb
  · cases hb
  · rename_i d hd
    split at hb
    · cases hb; exact h
    · cases hb
      obtain ⟨h1, h2, i, hi, hrun⟩ := h l d hd
      intro l' d' hg
      rw [get_cons (o' := s.out)] at hg
      by_cases hl : l = l'
      · subst hl
        simp only [if_true, Option.some.injEq] at hg
        subst hg
        refine ⟨by simp, by simp, i, hi, ?_⟩
        intro a
        simp only [List.length_cons, Nat.sub_self, List.drop_zero]
        rw [← hrun a]
        generalize hsuf : s.out.drop (s.out.length - d) = suf
        cases suf with
        | nil =>
          have : (s.out.drop (s.out.length - d)).length = 0 := by rw [hsuf]; rfl
          simp [List.length_drop] at this; omega
        | cons x xs =>
          cases x with
          | ret k => simp [run_ret]
          | ld off => simp [run_ja, hsuf]
          | ja n => simp [run_ja, hsuf]
          | jif c k jt jf => simp [run_ja, hsuf]
      · simp only [hl, if_false] at hg
        obtain ⟨g1, g2, j, hj, hr⟩ := h l' d' hg
        refine ⟨g1, by simp; omega, j, hj, ?_⟩
        intro a
        have : (s.out.length + 1 - d') = (s.out.length - d') + 1 := by omega
        simp only [List.length_cons, this, List.drop_succ_cons]
        exact hr a

/-- putting the translation `x` of a (non-label) token in front -/
theorem push_inv {w} {i : LInstr L} {rest : List (Tok L)} {s : St L} {x : Instr}
    (hd : DestOk w rest s)
    (hsim0 : ∀ a, run w (x :: s.out) a = runT w (.ins i :: rest) a)
    (hsimS : ∀ k, PlainPrefixT (k+1) (.ins i :: rest) → ∀ a, run w (s.out.drop k) a = runT w (dropIns k rest) a) :
    AInv w (.ins i :: rest) { out := x :: s.out, dest := s.dest } := by
  constructor
  · intro k hk a
    cases k with
    | zero => simpa [dropIns] using hsim0 a
    | succ k => simpa [dropIns] using hsimS k hk a
  · intro l d hg
    have hg' : s.get l = some d := hg
    obtain ⟨g1, g2, j, hj, hr⟩ := hd l d hg'
    refine ⟨g1, by simp; omega, j + 1, by simp [findLab, hj], ?_⟩
    intro a
    have : (s.out.length + 1 - d) = (s.out.length - d) + 1 := by omega
    simp only [List.length_cons, this, List.drop_succ_cons]
    exact hr a

theorem step_inv {w} {t : Tok L} {rest : List (Tok L)} {s s' : St L} (hja : JaOkT (t :: rest))
    (h : AInv w rest s) (hs : stepTok t s = .ok s') : AInv w (t :: rest) s' := by
  unfold stepTok at hs
  cases t with
  | lab l =>
    simp only at hs
    have hsim : ∀ k, PlainPrefixT k (.lab l :: rest) → ∀ a,
        run w (s.out.drop k) a = runT w (dropIns k (.lab l :: rest)) a := by
      intro k hk a
      cases k with
      | zero => simpa [dropIns] using h.sim 0 (pp0 _) a
      | succ k => simpa [dropIns] using h.sim (k+1) hk a
    split at hs
    · rename_i h0
      cases hs
      refine ⟨hsim, ?_⟩
      intro l' d hg
      obtain ⟨g1, g2, _⟩ := h.dest l' d hg
      omega
    · rename_i h0
      cases hs
      refine ⟨hsim, ?_⟩
      intro l' d hg
      rw [get_cons (o' := s.out)] at hg
      by_cases hl : l = l'
      · subst hl
        simp only [if_true, Option.some.injEq] at hg
        subst hg
        refine ⟨by omega, Nat.le_refl _, 0, by simp [findLab], ?_⟩
        intro a
        simpa [dropIns] using h.sim 0 (pp0 _) a
      · simp only [hl, if_false] at hg
        obtain ⟨g1, g2, j, hj, hr⟩ := h.dest l' d hg
        refine ⟨g1, g2, j + 1, by simp [findLab, hl, hj], ?_⟩
        intro a; simpa using hr a
  | ins i =>
    cases i with
    | ld off =>
      simp only at hs; cases hs
      refine push_inv h.dest (fun a => ?_) (fun k hk a => h.sim k hk.2 a)
      rw [run_ld, runT_ld]; simpa [dropIns] using h.sim 0 (pp0 _) (w off)
    | ret k =>
      simp only at hs; cases hs
      refine push_inv h.dest (fun a => ?_) (fun k hk a => h.sim k hk.2 a)
      rw [run_ret, runT_ret]
    | ja n =>
      simp only at hs; cases hs
      refine push_inv h.dest (fun a => ?_) (fun k hk a => h.sim k hk.2 a)
      rw [run_ja, runT_ja]; exact h.sim n hja.1 a
    | jif c k tl fl =>
      simp only at hs
      split at hs
      · cases hs
      · rename_i s1 hb1
        split at hs
        · cases hs
        · rename_i s2 hb2
          split at hs
          · cases hs
          · rename_i s3 hb3
            have d3 : DestOk w rest s3 := bridge_destOk (bridge_destOk (bridge_destOk h.dest hb1) hb2) hb3
            split at hs
            · rename_i dt df hdt hdf
              split at hs
              · cases hs
              · cases hs
                refine push_inv d3 (fun a => ?_) (fun k hk a => absurd hk.1 (by simp [plain]))
                rw [run_jif, runT_jif]
                unfold contAt
                by_cases hc : c.eval a k = true
                · simp only [hc, if_true]
                  obtain ⟨_, _, i, hi, hr⟩ := d3 tl dt hdt
                  rw [hi]; exact hr a
                · simp only [hc, if_false]
                  obtain ⟨_, _, i, hi, hr⟩ := d3 fl df hdf
                  simp only [Bool.false_eq_true, if_false]
                  rw [hi]; exact hr a
            · cases hs

theorem asm_inv (w) : ∀ (prog : List (Tok L)) (s : St L), JaOkT prog → asmT prog = .ok s → AInv w prog s
  | [], s, _, h => by
    simp only [asmT] at h
    cases h
    constructor
    · intro k _ a; cases k <;> simp [dropIns, run_nil]
    · intro l d hg; simp [St.get] at hg
  | t :: rest, s, hja, h => by
    simp only [asmT] at h
    split at h
    · cases h
    · rename_i s0 h0
      exact step_inv hja (asm_inv w rest s0 (JaOkT_tail t rest hja) h0) h

/-- **Soundness**: whenever the resolver succeeds, the instruction list means what the label program means. -/
theorem assemble_sound (prog : List (Tok L)) (out : List Instr) (hja : JaOkT prog)
    (h : assemble prog = .ok out) (w : Nat → Word) (a : Word) : run w out a = runT w prog a := by
  unfold assemble at h
  cases hs : asmT prog with
  | error e => simp [hs, Except.map] at h
  | ok s =>
    simp only [hs, Except.map, Except.ok.injEq] at h
    subst h
    simpa [dropIns] using (asm_inv w prog s hja hs).sim 0 (pp0 _) a

#print axioms assemble_sound
