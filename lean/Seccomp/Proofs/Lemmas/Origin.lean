import Seccomp.Proofs.Lemmas.Closed
/-!
# Where the instructions of an assembled program come from

Loads and returns in the output of `assemble` are loads and returns of the label program (a bridge is
a copy of a return that is already there, or a `ja`): the resolver invents no loads and no return values.
-/

variable {L : Type} [DecidableEq L]

/-- a load / return of the output occurs in the label program -/
def FromProg (prog : List (Tok L)) : Instr → Prop
  | .ld off => Tok.ins (.ld off) ∈ prog
  | .ret k => Tok.ins (.ret k) ∈ prog
  | _ => True

omit [DecidableEq L] in
theorem FromProg_mono {p q : List (Tok L)} (h : ∀ t ∈ p, t ∈ q) (x : Instr) (hx : FromProg p x) : FromProg q x := by
  cases x <;> simp only [FromProg] at hx ⊢ <;> first | exact h _ hx | trivial

theorem bridge_origin {prog : List (Tok L)} {s s' : St L} {l : L}
    (h : ∀ x ∈ s.out, FromProg prog x) (hb : bridge s l = .ok s') : ∀ x ∈ s'.out, FromProg prog x := by
  unfold bridge at hb
  split at hb
  · cases hb
  · split at hb
    · cases hb; exact h
    · cases hb
      intro x hx
      simp only [List.mem_cons] at hx
      rcases hx with rfl | hx
      · split
        · rename_i k hk
          -- a copy of a return that is in `out`
          have hmem : Instr.ret k ∈ s.out := by
            have := List.mem_of_mem_head? hk
            exact List.mem_of_mem_drop this
          exact h _ hmem
        · trivial
      · exact h x hx

theorem step_origin {t : Tok L} {rest : List (Tok L)} {s s' : St L}
    (h : ∀ x ∈ s.out, FromProg rest x) (hs : stepTok t s = .ok s') : ∀ x ∈ s'.out, FromProg (t :: rest) x := by
  have hmono : ∀ x, FromProg rest x → FromProg (t :: rest) x :=
    fun x hx => FromProg_mono (fun t' ht' => List.mem_cons_of_mem _ ht') x hx
  have h' : ∀ x ∈ s.out, FromProg (t :: rest) x := fun x hx => hmono x (h x hx)
  unfold stepTok at hs
  cases t with
  | lab l =>
    simp only at hs
    split at hs <;> (cases hs; exact h')
  | ins i =>
    cases i with
    | ld off =>
      simp only at hs; cases hs
      intro x hx; simp only [List.mem_cons] at hx
      rcases hx with rfl | hx
      · simp [FromProg]
      · exact h' x hx
    | ret k =>
      simp only at hs; cases hs
      intro x hx; simp only [List.mem_cons] at hx
      rcases hx with rfl | hx
      · simp [FromProg]
      · exact h' x hx
    | ja n =>
      simp only at hs; cases hs
      intro x hx; simp only [List.mem_cons] at hx
      rcases hx with rfl | hx
      · trivial
      · exact h' x hx
    | jif c k tl fl =>
      simp only at hs
      split at hs
      · cases hs
      · rename_i s1 hb1
        split at hs
        · cases hs
        · rename_i s2 hb2
          split at hs
          · cases hs
          · rename_i s3 hb3
            have o3 := bridge_origin (bridge_origin (bridge_origin h' hb1) hb2) hb3
            split at hs
            · split at hs
              · cases hs
              · cases hs
                intro x hx; simp only [List.mem_cons] at hx
                rcases hx with rfl | hx
                · trivial
                · exact o3 x hx
            · cases hs

theorem asm_origin : ∀ (prog : List (Tok L)) (s : St L), asmT prog = .ok s → ∀ x ∈ s.out, FromProg prog x
  | [], s, h => by simp only [asmT] at h; cases h; intro x hx; cases hx
  | t :: rest, s, h => by
    simp only [asmT] at h
    split at h
    · cases h
    · rename_i s0 h0
      exact step_origin (asm_origin rest s0 h0) h

/-- every load and every return of the assembled program is one of the label program -/
theorem assemble_origin (prog : List (Tok L)) (out : List Instr) (h : assemble prog = .ok out) :
    ∀ x ∈ out, FromProg prog x := by
  unfold assemble at h
  cases hs : asmT prog with
  | error e => simp [hs, Except.map] at h
  | ok s =>
    simp only [hs, Except.map, Except.ok.injEq] at h
    subst h
    exact asm_origin prog s hs
