import Seccomp.Proofs.Lemmas.NoUseless
import Seccomp.Proofs.Lemmas.EntrySpec
/-!
# The label programs of the group compiler are well-formed: the resolver never fails on them
-/

/-! ## generic helpers -/

section generic
variable {L : Type} [DecidableEq L]

def Ok (p : List (Tok L)) : Prop := WFT p ∧ JifOk p

omit [DecidableEq L] in
theorem hasIns_append (p q : List (Tok L)) : hasIns (p ++ q) = (hasIns p || hasIns q) := by
  induction p with
  | nil => simp [hasIns]
  | cons t rest ih => cases t <;> simp [hasIns, ih]

theorem la_cons_ins (l : L) (i : LInstr L) (rest : List (Tok L)) (h : LabelAhead l rest) :
    LabelAhead l (.ins i :: rest) := by
  obtain ⟨j, hj, hi⟩ := h
  exact ⟨j + 1, by simp [findLab, hj], by simpa using hi⟩

theorem la_cons_lab_ne (l l' : L) (rest : List (Tok L)) (hne : l' ≠ l) (h : LabelAhead l rest) :
    LabelAhead l (.lab l' :: rest) := by
  obtain ⟨j, hj, hi⟩ := h
  exact ⟨j + 1, by simp [findLab, hne, hj], by simpa using hi⟩

theorem la_cons_lab_self (l : L) (rest : List (Tok L)) (h : hasIns rest = true) :
    LabelAhead l (.lab l :: rest) :=
  ⟨0, by simp [findLab], by simpa [hasIns] using h⟩

theorem la_append (l : L) (p q : List (Tok L)) (hn : l ∉ labelsOf p) (h : LabelAhead l q) :
    LabelAhead l (p ++ q) := by
  obtain ⟨j, hj, hi⟩ := h
  refine ⟨j + p.length, by rw [findLab_append_not_mem l p q hn, hj]; rfl, ?_⟩
  have : (p ++ q).drop (j + p.length) = q.drop j := by
    rw [Nat.add_comm, ← List.drop_drop]; simp
  rw [this]; exact hi

omit [DecidableEq L] in
theorem frontLabs_append_of_hasIns (p q : List (Tok L)) (h : hasIns p = true) : frontLabs (p ++ q) = frontLabs p := by
  induction p with
  | nil => simp [hasIns] at h
  | cons t rest ih =>
    cases t with
    | lab l => simp only [List.cons_append, frontLabs]; rw [ih (by simpa [hasIns] using h)]
    | ins i => rfl

omit [DecidableEq L] in
theorem frontLabs_subset_labelsOf (p : List (Tok L)) : ∀ l ∈ frontLabs p, l ∈ labelsOf p := by
  induction p with
  | nil => intro l hl; cases hl
  | cons t rest ih =>
    cases t with
    | lab l0 =>
      intro l hl
      simp only [frontLabs, List.mem_cons] at hl
      simp only [labelsOf, List.mem_cons]
      rcases hl with h | h
      · exact .inl h
      · exact .inr (ih l h)
    | ins i => intro l hl; cases hl

theorem ok_plain (i : LInstr L) (rest : List (Tok L)) (hp : plain i = true) (h : Ok rest) : Ok (.ins i :: rest) := by
  cases i with
  | jif c k tl fl => simp [plain] at hp
  | ld off => exact h
  | ret k => exact h
  | ja n => exact h

theorem ok_lab (l : L) (rest : List (Tok L)) (h : Ok rest) : Ok (.lab l :: rest) := h

theorem ok_jif (c : Cond) (k : Word) (tl fl : L) (rest : List (Tok L)) (hne : tl ≠ fl)
    (ht : LabelAhead tl rest) (hf : LabelAhead fl rest) (hfront : tl ∉ frontLabs rest ∨ fl ∉ frontLabs rest)
    (h : Ok rest) : Ok (.ins (.jif c k tl fl) :: rest) :=
  ⟨⟨ht, hf, h.1⟩, ⟨hne, hfront, h.2⟩⟩

/-- `JmpIfTrue`: the fall-through label is fresh and placed directly behind the jump -/
theorem ok_jt (c : Cond) (k : Word) (x f : L) (rest : List (Tok L)) (hne : x ≠ f)
    (hx : LabelAhead x rest) (hins : hasIns rest = true) (hfront : x ∉ frontLabs rest) (h : Ok rest) :
    Ok (.ins (.jif c k x f) :: .lab f :: rest) := by
  refine ok_jif c k x f _ hne (la_cons_lab_ne x f rest (fun e => hne e.symm) hx) (la_cons_lab_self f rest hins)
    (.inl ?_) (ok_lab f rest h)
  simp only [frontLabs, List.mem_cons, not_or]
  exact ⟨hne, hfront⟩

end generic

/-! ## one condition -/

/-- what the code behind one lowered condition must provide -/
structure CondK (e l c : Nat) (m : PL) (K : List (Tok PL)) : Prop where
  ok : Ok K
  nm : LabelAhead (PL.noMatch e l) K
  m : (m = .nextArg e l c ∧ hasIns K = true ∧ PL.noMatch e l ∉ frontLabs K) ∨
      (m = .action ∧ LabelAhead PL.action K ∧ PL.action ∉ frontLabs K)

/-- the low-word part shared by all eight shapes: `ldlo; jif c vl m nm; lab nextArg` -/
theorem ok_condTail (e l c : Nat) (m : PL) (K : List (Tok PL)) (hK : CondK e l c m K)
    (b : Nat) (c2 : Cond) (k2 : Word) :
    let T2 : List (Tok PL) := .ins (.ld b) :: .ins (.jif c2 k2 m (.noMatch e l)) :: .lab (.nextArg e l c) :: K
    Ok T2 ∧ LabelAhead m T2 ∧ LabelAhead (.noMatch e l) T2 ∧ (∀ j, m ≠ .nextIns e l c j) := by
  intro T2
  have hnm : LabelAhead (.noMatch e l) (.lab (.nextArg e l c) :: K) :=
    la_cons_lab_ne _ _ _ (by simp) hK.nm
  rcases hK.m with ⟨rfl, hins, hfr⟩ | ⟨rfl, hact, hfr⟩
  · have hm : LabelAhead (.nextArg e l c) (.lab (.nextArg e l c) :: K) := la_cons_lab_self _ _ hins
    have hT : Ok (.ins (.jif c2 k2 (.nextArg e l c) (.noMatch e l)) :: .lab (.nextArg e l c) :: K) :=
      ok_jif c2 k2 _ _ _ (by simp) hm hnm
        (.inr (by simp only [frontLabs, List.mem_cons, not_or]; exact ⟨by simp, hfr⟩)) (ok_lab _ _ hK.ok)
    exact ⟨ok_plain _ _ rfl hT, la_cons_ins _ _ _ (la_cons_ins _ _ _ hm), la_cons_ins _ _ _ (la_cons_ins _ _ _ hnm),
      fun j => by simp⟩
  · have hm : LabelAhead PL.action (.lab (.nextArg e l c) :: K) := la_cons_lab_ne _ _ _ (by simp) hact
    have hT : Ok (.ins (.jif c2 k2 PL.action (.noMatch e l)) :: .lab (.nextArg e l c) :: K) :=
      ok_jif c2 k2 _ _ _ (by simp) hm hnm
        (.inl (by simp only [frontLabs, List.mem_cons, not_or]; exact ⟨by simp, hfr⟩)) (ok_lab _ _ hK.ok)
    exact ⟨ok_plain _ _ rfl hT, la_cons_ins _ _ _ (la_cons_ins _ _ _ hm), la_cons_ins _ _ _ (la_cons_ins _ _ _ hnm),
      fun j => by simp⟩

/-- shape with one high-word jump (`Equal`, `NotEqual`, `BitsSet`, `BitsNotSet`) -/
theorem ok_shape2 (e l c : Nat) (m x : PL) (K : List (Tok PL)) (hK : CondK e l c m K)
    (hx : x = m ∨ x = .noMatch e l) (a b : Nat) (c1 c2 : Cond) (k1 k2 : Word) :
    Ok (.ins (.ld a) :: .ins (.jif c1 k1 x (.nextIns e l c 0)) :: .lab (.nextIns e l c 0) ::
        .ins (.ld b) :: .ins (.jif c2 k2 m (.noMatch e l)) :: .lab (.nextArg e l c) :: K) := by
  obtain ⟨hT, hm, hnm, hmf⟩ := ok_condTail e l c m K hK b c2 k2
  refine ok_plain _ _ rfl (ok_jt c1 k1 x _ _ ?_ ?_ rfl (by simp [frontLabs]) hT)
  · rcases hx with rfl | rfl
    · exact hmf 0
    · simp
  · rcases hx with rfl | rfl
    · exact hm
    · exact hnm

/-- shape with two high-word jumps (`GreaterThan`, `GreaterOrEqual`, `LessThan`, `LessOrEqual`) -/
theorem ok_shape3 (e l c : Nat) (m : PL) (K : List (Tok PL)) (hK : CondK e l c m K)
    (a b : Nat) (c1 c2 c3 : Cond) (k1 k2 k3 : Word) :
    Ok (.ins (.ld a) :: .ins (.jif c1 k1 m (.nextIns e l c 0)) :: .lab (.nextIns e l c 0) ::
        .ins (.jif c3 k3 (.noMatch e l) (.nextIns e l c 1)) :: .lab (.nextIns e l c 1) ::
        .ins (.ld b) :: .ins (.jif c2 k2 m (.noMatch e l)) :: .lab (.nextArg e l c) :: K) := by
  obtain ⟨hT, hm, hnm, hmf⟩ := ok_condTail e l c m K hK b c2 k2
  have h3 := ok_jt c3 k3 (.noMatch e l) (.nextIns e l c 1) _ (by simp) hnm rfl (by simp [frontLabs]) hT
  refine ok_plain _ _ rfl (ok_jt c1 k1 m _ _ (hmf 0) ?_ rfl (by simp [frontLabs]) h3)
  exact la_cons_ins _ _ _ (la_cons_lab_ne _ _ _ (fun h => hmf 1 h.symm) hm)

theorem ok_condToks (ly : Layout) (e l c : Nat) (cnd : Cnd) (m : PL) (K : List (Tok PL)) (hK : CondK e l c m K) :
    Ok (condToks ly e l c cnd m ++ K) := by
  unfold condToks
  cases cnd.op <;> simp only [jt, List.cons_append, List.nil_append, List.append_assoc]
  · exact ok_shape2 e l c m _ K hK (.inr rfl) _ _ _ _ _ _
  · exact ok_shape2 e l c m _ K hK (.inl rfl) _ _ _ _ _ _
  · exact ok_shape3 e l c m K hK _ _ _ _ _ _ _ _
  · exact ok_shape3 e l c m K hK _ _ _ _ _ _ _ _
  · exact ok_shape3 e l c m K hK _ _ _ _ _ _ _ _
  · exact ok_shape3 e l c m K hK _ _ _ _ _ _ _ _
  · exact ok_shape2 e l c m _ K hK (.inl rfl) _ _ _ _ _ _
  · exact ok_shape2 e l c m _ K hK (.inr rfl) _ _ _ _ _ _

/-! ## lists of conditions, entries, groups -/

section levels
variable (ly : Layout)

theorem frontLabs_append_subset {L : Type} (p q : List (Tok L)) (l : L) (h : l ∈ frontLabs (p ++ q)) :
    l ∈ labelsOf p ∨ l ∈ frontLabs q := by
  induction p with
  | nil => exact .inr h
  | cons t rest ih =>
    cases t with
    | lab l0 =>
      simp only [List.cons_append, frontLabs, List.mem_cons] at h
      simp only [labelsOf, List.mem_cons]
      rcases h with h | h
      · exact .inl (.inl h)
      · rcases ih h with h1 | h1
        · exact .inl (.inr h1)
        · exact .inr h1
    | ins i => cases h

/-- what the code behind the conditions of list `l` of entry `e` must provide -/
structure ListK (e l : Nat) (K : List (Tok PL)) : Prop where
  ok : Ok K
  nm : LabelAhead (PL.noMatch e l) K
  act : LabelAhead PL.action K
  actFront : PL.action ∉ frontLabs K

theorem condToks_head (e l c : Nat) (cnd : Cnd) (m : PL) :
    ∃ a rest, condToks ly e l c cnd m = .ins (.ld a) :: rest := by
  unfold condToks
  cases cnd.op <;> exact ⟨_, _, rfl⟩

theorem condsToks_head (e l : Nat) : ∀ (cnd : Cnd) (more : List Cnd) (c : Nat),
    ∃ a rest, condsToks ly e l c (cnd :: more) = .ins (.ld a) :: rest
  | cnd, [], c => by simpa [condsToks] using condToks_head ly e l c cnd .action
  | cnd, x :: xs, c => by
    obtain ⟨a, rest, h⟩ := condToks_head ly e l c cnd (.nextArg e l c)
    exact ⟨a, rest ++ condsToks ly e l (c+1) (x :: xs), by simp [condsToks, h]⟩

theorem ok_condsToks (e l : Nat) : ∀ (conds : List Cnd) (c : Nat) (K : List (Tok PL)), ListK e l K →
    Ok (condsToks ly e l c conds ++ K)
  | [], _, K, hK => by simpa [condsToks] using hK.ok
  | [cnd], c, K, hK => by
    simp only [condsToks]
    exact ok_condToks ly e l c cnd .action K ⟨hK.ok, hK.nm, .inr ⟨rfl, hK.act, hK.actFront⟩⟩
  | cnd :: cnd2 :: tl, c, K, hK => by
    simp only [condsToks, List.append_assoc]
    have ih := ok_condsToks e l (cnd2 :: tl) (c+1) K hK
    obtain ⟨a, rest, hhead⟩ := condsToks_head ly e l cnd2 tl (c+1)
    refine ok_condToks ly e l c cnd (.nextArg e l c) _ ⟨ih, ?_, .inl ⟨rfl, ?_, ?_⟩⟩
    · refine la_append _ _ _ ?_ hK.nm
      intro hmem
      have := labelsOf_condsToks ly e l (cnd2 :: tl) (c+1) _ hmem
      simp [inList] at this
    · rw [hhead]; rfl
    · rw [hhead]; simp [frontLabs]

/-- what the code behind (part of) an entry must provide -/
structure EntK (K : List (Tok PL)) : Prop where
  ok : Ok K
  act : LabelAhead PL.action K
  actFront : PL.action ∉ frontLabs K
  ins : hasIns K = true

theorem action_not_in_lists (e : Nat) (lists : List (List Cnd)) (l : Nat) :
    PL.action ∉ labelsOf (listsToks ly e l lists) := by
  intro h
  have := (labelsOf_listsToks ly e lists l _ h).1
  simp [inEntry] at this

theorem ok_listsToks (e : Nat) : ∀ (lists : List (List Cnd)) (l : Nat) (K : List (Tok PL)), EntK K →
    Ok (listsToks ly e l lists ++ K) ∧ hasIns (listsToks ly e l lists ++ K) = true
  | [], _, K, hK => by simpa [listsToks] using ⟨hK.ok, hK.ins⟩
  | conds :: rest, l, K, hK => by
    obtain ⟨ih, ihins⟩ := ok_listsToks e rest (l+1) K hK
    simp only [listsToks, List.append_assoc, List.cons_append, List.nil_append]
    have hK0 : ListK e l (.lab (.noMatch e l) :: (listsToks ly e (l+1) rest ++ K)) := by
      refine ⟨ok_lab _ _ ih, la_cons_lab_self _ _ ihins, ?_, ?_⟩
      · exact la_cons_lab_ne _ _ _ (by simp) (la_append _ _ _ (action_not_in_lists ly e rest (l+1)) hK.act)
      · simp only [frontLabs, List.mem_cons, not_or]
        refine ⟨by simp, fun h => ?_⟩
        rcases frontLabs_append_subset _ _ _ h with h1 | h1
        · exact action_not_in_lists ly e rest (l+1) h1
        · exact hK.actFront h1
    refine ⟨ok_condsToks ly e l conds 0 _ hK0, ?_⟩
    rw [hasIns_append]
    simp [hasIns, ihins]

theorem action_not_in_entry (e : Nat) (ent : Entry) : PL.action ∉ labelsOf (entryToks ly e ent) := by
  intro h
  have := labelsOf_entryToks ly e ent _ h
  simp [inEntry] at this

theorem entryToks_head (e : Nat) (ent : Entry) : ∃ i rest, entryToks ly e ent = .ins i :: rest := by
  cases ent with
  | uncond num => exact ⟨_, _, rfl⟩
  | cond num lists =>
    exact ⟨.jif .ne num (.nextSys e) (.afterNr e), .lab (.afterNr e) :: (listsToks ly e 0 lists ++ [.ins (.ld 0), .lab (.nextSys e)]),
      by simp [entryToks, jt]⟩

theorem ok_entryToks (e : Nat) (ent : Entry) (K : List (Tok PL)) (hK : EntK K) :
    EntK (entryToks ly e ent ++ K) := by
  obtain ⟨i, rest, hhead⟩ := entryToks_head ly e ent
  refine ⟨?_, la_append _ _ _ (action_not_in_entry ly e ent) hK.act, by rw [hhead]; simp [frontLabs],
    by rw [hhead]; rfl⟩
  cases ent with
  | uncond num =>
    simp only [entryToks, jt, List.cons_append, List.nil_append]
    exact ok_jt .eq num .action (.afterNr e) K (by simp) hK.act hK.ins hK.actFront hK.ok
  | cond num lists =>
    simp only [entryToks, jt, List.cons_append, List.nil_append, List.append_assoc]
    have hK2 : EntK (.ins (.ld 0) :: .lab (.nextSys e) :: K) :=
      ⟨ok_plain _ _ rfl (ok_lab _ _ hK.ok), la_cons_ins _ _ _ (la_cons_lab_ne _ _ _ (by simp) hK.act),
        by simp [frontLabs], rfl⟩
    obtain ⟨hl, hlins⟩ := ok_listsToks ly e lists 0 _ hK2
    have hns : PL.nextSys e ∉ labelsOf (listsToks ly e 0 lists) := fun h =>
      (labelsOf_listsToks ly e lists 0 _ h).2.1 rfl
    refine ok_jt .ne num (.nextSys e) (.afterNr e) _ (by simp) ?_ hlins ?_ hl
    · exact la_append _ _ _ hns (la_cons_ins _ _ _ (la_cons_lab_self _ _ hK.ins))
    · intro h
      rcases frontLabs_append_subset _ _ _ h with h1 | h1
      · exact hns h1
      · simp [frontLabs] at h1

theorem ok_entriesToks : ∀ (ents : List Entry) (e : Nat) (K : List (Tok PL)), EntK K →
    EntK (entriesToks ly e ents ++ K)
  | [], _, K, hK => by simpa [entriesToks] using hK
  | ent :: more, e, K, hK => by
    simp only [entriesToks, List.append_assoc]
    exact ok_entryToks ly e ent _ (ok_entriesToks more (e+1) K hK)

/-- **The label program of every group is well-formed**: forward jumps only, every conditional jump has
    two different labels that are not both placed directly behind it -/
theorem ok_groupToks (ents : List Entry) (r : Word) : Ok (groupToks ly ents r) := by
  unfold groupToks
  have hK : EntK ([.ins (.ja 1), .lab .action, .ins (.ret r)] : List (Tok PL)) :=
    ⟨⟨by simp [WFT], by simp [JifOk]⟩, ⟨1, by simp [findLab], by simp [hasIns]⟩, by simp [frontLabs], rfl⟩
  exact (ok_entriesToks ly ents 0 _ hK).ok

/-- **The resolver never fails on a group's label program.** -/
theorem assemble_group_total (ents : List Entry) (r : Word) : ∃ out, assemble (groupToks ly ents r) = .ok out :=
  assemble_total _ (ok_groupToks ly ents r).1 (ok_groupToks ly ents r).2

end levels
