import Seccomp.Model.Profile
/-!
# Lemmas about the profiler's set pipeline
-/
namespace Profile

/-! ### the map keyed by number -/

theorem putNum_all (m : List (Nat × String)) (x : Nat × String) (F : Nat × String → Prop)
    (hm : ∀ y ∈ m, F y) (hx : F x) : ∀ y ∈ putNum m x, F y := by
  unfold putNum
  split
  · intro y hy
    rw [List.mem_map] at hy
    obtain ⟨z, hz, rfl⟩ := hy
    split
    · exact hx
    · exact hm z hz
  · intro y hy
    rw [List.mem_append] at hy
    rcases hy with hy | hy
    · exact hm y hy
    · simp at hy; rw [hy]; exact hx

theorem putNum_keys (m : List (Nat × String)) (x : Nat × String) (k : Nat) :
    (∃ y ∈ putNum m x, y.1 = k) ↔ (∃ y ∈ m, y.1 = k) ∨ x.1 = k := by
  unfold putNum
  split
  · rename_i hany
    constructor
    · rintro ⟨y, hy, hk⟩
      rw [List.mem_map] at hy
      obtain ⟨z, hz, rfl⟩ := hy
      by_cases hzx : (z.1 == x.1) = true
      · rw [if_pos hzx] at hk; exact .inr hk
      · rw [if_neg hzx] at hk; exact .inl ⟨z, hz, hk⟩
    · rintro (⟨z, hz, hk⟩ | hk)
      · refine ⟨if (z.1 == x.1) = true then x else z, List.mem_map.2 ⟨z, hz, rfl⟩, ?_⟩
        by_cases hzx : (z.1 == x.1) = true
        · rw [if_pos hzx, ← hk]; exact (beq_iff_eq.1 hzx).symm
        · rw [if_neg hzx]; exact hk
      · rw [List.any_eq_true] at hany
        obtain ⟨z, hz, hzx⟩ := hany
        exact ⟨if (z.1 == x.1) = true then x else z, List.mem_map.2 ⟨z, hz, rfl⟩, by rw [if_pos hzx]; exact hk⟩
  · constructor
    · rintro ⟨y, hy, hk⟩
      rw [List.mem_append] at hy
      rcases hy with hy | hy
      · exact .inl ⟨y, hy, hk⟩
      · simp at hy; rw [hy] at hk; exact .inr hk
    · rintro (⟨z, hz, hk⟩ | hk)
      · exact ⟨z, List.mem_append_left _ hz, hk⟩
      · exact ⟨x, by simp, hk⟩

theorem putNum_keys_nodup (m : List (Nat × String)) (x : Nat × String) (h : (m.map (·.1)).Nodup) :
    ((putNum m x).map (·.1)).Nodup := by
  unfold putNum
  split
  · have : (m.map (fun y => if (y.1 == x.1) = true then x else y)).map (·.1) = m.map (·.1) := by
      rw [List.map_map]
      apply List.map_congr_left
      intro y _
      simp only [Function.comp]
      by_cases hyx : (y.1 == x.1) = true
      · rw [if_pos hyx]; exact (beq_iff_eq.1 hyx).symm
      · rw [if_neg hyx]
    rw [this]; exact h
  · rename_i hany
    rw [List.map_append, List.nodup_append]
    refine ⟨h, by simp, ?_⟩
    intro a ha b hb
    simp at hb
    rw [hb]
    intro hab
    apply hany
    rw [List.any_eq_true]
    rw [List.mem_map] at ha
    obtain ⟨z, hz, hza⟩ := ha
    exact ⟨z, hz, by rw [beq_iff_eq, hza, hab]⟩

theorem fold_all (found m : List (Nat × String)) (F : Nat × String → Prop)
    (hm : ∀ y ∈ m, F y) (hf : ∀ x ∈ found, F x) : ∀ y ∈ found.foldl putNum m, F y := by
  induction found generalizing m with
  | nil => exact hm
  | cons x rest ih =>
    exact ih (putNum m x) (putNum_all m x F hm (hf x List.mem_cons_self)) (fun y hy => hf y (List.mem_cons_of_mem _ hy))

theorem fold_keys (found m : List (Nat × String)) (k : Nat) :
    (∃ y ∈ found.foldl putNum m, y.1 = k) ↔ (∃ y ∈ m, y.1 = k) ∨ ∃ x ∈ found, x.1 = k := by
  induction found generalizing m with
  | nil => simp
  | cons x rest ih =>
    rw [List.foldl_cons, ih, putNum_keys]
    constructor
    · rintro ((h | h) | ⟨y, hy, hk⟩)
      · exact .inl h
      · exact .inr ⟨x, List.mem_cons_self, h⟩
      · exact .inr ⟨y, List.mem_cons_of_mem _ hy, hk⟩
    · rintro (h | ⟨y, hy, hk⟩)
      · exact .inl (.inl h)
      · rcases List.mem_cons.1 hy with rfl | hy
        · exact .inl (.inr hk)
        · exact .inr ⟨y, hy, hk⟩

theorem fold_keys_nodup (found m : List (Nat × String)) (h : (m.map (·.1)).Nodup) :
    ((found.foldl putNum m).map (·.1)).Nodup := by
  induction found generalizing m with
  | nil => exact h
  | cons x rest ih => exact ih _ (putNum_keys_nodup m x h)

theorem dedup_sub (found : List (Nat × String)) : ∀ y ∈ dedupByNum found, y ∈ found :=
  fold_all found [] (· ∈ found) (by simp) (fun _ h => h)

theorem dedup_keys (found : List (Nat × String)) (k : Nat) :
    (∃ y ∈ dedupByNum found, y.1 = k) ↔ ∃ x ∈ found, x.1 = k := by
  unfold dedupByNum; rw [fold_keys]; simp

theorem dedup_keys_nodup (found : List (Nat × String)) : ((dedupByNum found).map (·.1)).Nodup :=
  fold_keys_nodup found [] (by simp)

/-- **Which site wins per number does not matter** when the name is a function of the number: the
    names in the map are exactly the names found. -/
theorem dedup_names_mem (found : List (Nat × String))
    (hfun : ∀ x ∈ found, ∀ y ∈ found, x.1 = y.1 → x.2 = y.2) (s : String) :
    s ∈ (dedupByNum found).map (·.2) ↔ ∃ n, (n, s) ∈ found := by
  constructor
  · intro h
    rw [List.mem_map] at h
    obtain ⟨y, hy, rfl⟩ := h
    exact ⟨y.1, dedup_sub found y hy⟩
  · rintro ⟨n, hn⟩
    obtain ⟨y, hy, hk⟩ := (dedup_keys found n).2 ⟨(n, s), hn, rfl⟩
    rw [List.mem_map]
    exact ⟨y, hy, hfun y (dedup_sub found y hy) (n, s) hn hk⟩

theorem pairwise_imp_mem {α : Type} {R S : α → α → Prop} : ∀ (l : List α),
    (∀ a ∈ l, ∀ b ∈ l, R a b → S a b) → l.Pairwise R → l.Pairwise S
  | [], _, _ => List.Pairwise.nil
  | a :: t, h, hp => by
    rw [List.pairwise_cons] at hp ⊢
    refine ⟨fun b hb => h a List.mem_cons_self b (List.mem_cons_of_mem _ hb) (hp.1 b hb), ?_⟩
    exact pairwise_imp_mem t (fun x hx y hy => h x (List.mem_cons_of_mem _ hx) y (List.mem_cons_of_mem _ hy)) hp.2

/-- distinct numbers carry distinct names when the name determines the number -/
theorem dedup_names_nodup (found : List (Nat × String))
    (hinj : ∀ x ∈ found, ∀ y ∈ found, x.2 = y.2 → x.1 = y.1) : ((dedupByNum found).map (·.2)).Nodup := by
  have h := dedup_keys_nodup found
  unfold List.Nodup at h ⊢
  rw [List.pairwise_map] at h ⊢
  exact pairwise_imp_mem _ (fun a ha b hb hab hn => hab (hinj a (dedup_sub found a ha) b (dedup_sub found b hb) hn)) h

/-! ### blacklist -/

theorem filterBlacklist_mem (bl names : List String) (s : String) :
    s ∈ filterBlacklist bl names ↔ s ∈ names ∧ s ∉ bl := by
  simp [filterBlacklist, List.mem_filter]

theorem filterBlacklist_nodup (bl names : List String) (h : names.Nodup) : (filterBlacklist bl names).Nodup :=
  List.Pairwise.filter _ h

/-! ### allow list -/

theorem addName_mem (m : List String) (s x : String) : x ∈ addName m s ↔ x ∈ m ∨ x = s := by
  unfold addName
  split
  · rename_i h
    rw [List.contains_iff_mem] at h
    constructor
    · exact .inl
    · rintro (h' | rfl)
      · exact h'
      · exact h
  · simp

theorem addName_nodup (m : List String) (s : String) (h : m.Nodup) : (addName m s).Nodup := by
  unfold addName
  split
  · exact h
  · rename_i hc
    rw [List.contains_iff_mem] at hc
    rw [List.nodup_append]
    refine ⟨h, by simp, ?_⟩
    intro a ha b hb
    simp at hb
    rw [hb]
    intro hab
    exact hc (hab ▸ ha)

theorem foldAdd_mem (names m : List String) (x : String) :
    x ∈ names.foldl addName m ↔ x ∈ m ∨ x ∈ names := by
  induction names generalizing m with
  | nil => simp
  | cons a t ih =>
    rw [List.foldl_cons, ih, addName_mem, List.mem_cons]
    constructor
    · rintro ((h | h) | h)
      · exact .inl h
      · exact .inr (.inl h)
      · exact .inr (.inr h)
    · rintro (h | h | h)
      · exact .inl (.inl h)
      · exact .inl (.inr h)
      · exact .inr h

theorem foldAdd_nodup (names m : List String) (h : m.Nodup) : (names.foldl addName m).Nodup := by
  induction names generalizing m with
  | nil => exact h
  | cons a t ih => exact ih _ (addName_nodup m a h)

theorem foldAllow_mem (tableHas : String → Bool) (allow m : List String) (x : String) :
    x ∈ allow.foldl (fun m s => if tableHas s then addName m s else m) m ↔
      x ∈ m ∨ (x ∈ allow ∧ tableHas x = true) := by
  induction allow generalizing m with
  | nil => simp
  | cons a t ih =>
    rw [List.foldl_cons, ih]
    by_cases ha : tableHas a = true
    · rw [if_pos ha, addName_mem]
      constructor
      · rintro ((h | h) | ⟨h1, h2⟩)
        · exact .inl h
        · exact .inr ⟨by rw [h]; exact List.mem_cons_self, by rw [h]; exact ha⟩
        · exact .inr ⟨List.mem_cons_of_mem _ h1, h2⟩
      · rintro (h | ⟨h1, h2⟩)
        · exact .inl (.inl h)
        · rcases List.mem_cons.1 h1 with h1 | h1
          · exact .inl (.inr h1)
          · exact .inr ⟨h1, h2⟩
    · rw [if_neg ha]
      constructor
      · rintro (h | ⟨h1, h2⟩)
        · exact .inl h
        · exact .inr ⟨List.mem_cons_of_mem _ h1, h2⟩
      · rintro (h | ⟨h1, h2⟩)
        · exact .inl h
        · rcases List.mem_cons.1 h1 with h1 | h1
          · rw [h1] at h2; exact absurd h2 ha
          · exact .inr ⟨h1, h2⟩

theorem foldAllow_nodup (tableHas : String → Bool) (allow m : List String) (h : m.Nodup) :
    (allow.foldl (fun m s => if tableHas s then addName m s else m) m).Nodup := by
  induction allow generalizing m with
  | nil => exact h
  | cons a t ih =>
    rw [List.foldl_cons]
    apply ih
    split
    · exact addName_nodup m a h
    · exact h

theorem addAllow_mem (tableHas : String → Bool) (allow names : List String) (x : String) :
    x ∈ addAllow tableHas allow names ↔ x ∈ names ∨ (x ∈ allow ∧ tableHas x = true) := by
  unfold addAllow
  rw [foldAllow_mem, foldAdd_mem]
  simp

theorem addAllow_nodup (tableHas : String → Bool) (allow names : List String) :
    (addAllow tableHas allow names).Nodup :=
  foldAllow_nodup _ _ _ (foldAdd_nodup _ _ (by simp))

/-! ### sort.Strings -/

theorem insertSorted_mem (x y : String) (l : List String) : y ∈ insertSorted x l ↔ y = x ∨ y ∈ l := by
  induction l with
  | nil => simp [insertSorted]
  | cons a t ih =>
    unfold insertSorted
    split
    · simp
    · rw [List.mem_cons, ih, List.mem_cons]
      constructor
      · rintro (h | h | h)
        · exact .inr (.inl h)
        · exact .inl h
        · exact .inr (.inr h)
      · rintro (h | h | h)
        · exact .inr (.inl h)
        · exact .inl h
        · exact .inr (.inr h)

theorem sortStrings_mem (y : String) (l : List String) : y ∈ sortStrings l ↔ y ∈ l := by
  induction l with
  | nil => simp [sortStrings]
  | cons a t ih => rw [sortStrings, insertSorted_mem, ih, List.mem_cons]

theorem insertSorted_sorted (x : String) (l : List String) (h : l.Pairwise (· ≤ ·)) :
    (insertSorted x l).Pairwise (· ≤ ·) := by
  induction l with
  | nil => simp [insertSorted]
  | cons a t ih =>
    rw [List.pairwise_cons] at h
    unfold insertSorted
    split
    · rename_i hxa
      rw [List.pairwise_cons]
      refine ⟨fun b hb => ?_, List.pairwise_cons.2 h⟩
      rcases List.mem_cons.1 hb with rfl | hb
      · exact hxa
      · exact String.le_trans hxa (h.1 b hb)
    · rename_i hxa
      rw [List.pairwise_cons]
      refine ⟨fun b hb => ?_, ih h.2⟩
      rw [insertSorted_mem] at hb
      rcases hb with rfl | hb
      · rcases String.le_total b a with h' | h'
        · exact absurd h' hxa
        · exact h'
      · exact h.1 b hb

theorem sortStrings_sorted (l : List String) : (sortStrings l).Pairwise (· ≤ ·) := by
  induction l with
  | nil => simp [sortStrings]
  | cons a t ih => exact insertSorted_sorted a _ ih

theorem insertSorted_nodup (x : String) (l : List String) (hx : x ∉ l) (h : l.Nodup) : (insertSorted x l).Nodup := by
  induction l with
  | nil => simp [insertSorted]
  | cons a t ih =>
    unfold insertSorted
    split
    · exact List.nodup_cons.2 ⟨hx, h⟩
    · rw [List.nodup_cons] at h ⊢
      refine ⟨?_, ih (fun hm => hx (List.mem_cons_of_mem _ hm)) h.2⟩
      rw [insertSorted_mem]
      rintro (rfl | hm)
      · exact hx List.mem_cons_self
      · exact h.1 hm

theorem sortStrings_nodup (l : List String) (h : l.Nodup) : (sortStrings l).Nodup := by
  induction l with
  | nil => simp [sortStrings]
  | cons a t ih =>
    rw [List.nodup_cons] at h
    exact insertSorted_nodup a _ (by rw [sortStrings_mem]; exact h.1) (ih h.2)

theorem lt_of_le_ne {a b : String} (h : a ≤ b) (hn : a ≠ b) : a < b := by
  apply Classical.byContradiction
  intro hlt
  exact hn (String.le_antisymm h (String.not_lt.1 hlt))

theorem strict_of_sorted_nodup : ∀ (l : List String), l.Pairwise (· ≤ ·) → l.Nodup → l.Pairwise (· < ·)
  | [], _, _ => List.Pairwise.nil
  | a :: t, hs, hn => by
    rw [List.pairwise_cons] at hs ⊢
    rw [List.nodup_cons] at hn
    refine ⟨fun b hb => lt_of_le_ne (hs.1 b hb) (fun hab => hn.1 (hab ▸ hb)), strict_of_sorted_nodup t hs.2 hn.2⟩

/-- a strictly increasing list is determined by its members -/
theorem sorted_unique : ∀ (l₁ l₂ : List String), l₁.Pairwise (· < ·) → l₂.Pairwise (· < ·) →
    (∀ x, x ∈ l₁ ↔ x ∈ l₂) → l₁ = l₂
  | [], [], _, _, _ => rfl
  | [], b :: _, _, _, h => by have := (h b).2 List.mem_cons_self; simp at this
  | a :: _, [], _, _, h => by have := (h a).1 List.mem_cons_self; simp at this
  | a :: t₁, b :: t₂, h₁, h₂, h => by
    rw [List.pairwise_cons] at h₁ h₂
    have hab : a = b := by
      have ha := (h a).1 List.mem_cons_self
      have hb := (h b).2 List.mem_cons_self
      rcases List.mem_cons.1 ha with ha | ha
      · exact ha
      · rcases List.mem_cons.1 hb with hb | hb
        · exact hb.symm
        · exact absurd (h₂.1 a ha) (String.lt_asymm (h₁.1 b hb))
    subst hab
    congr 1
    apply sorted_unique t₁ t₂ h₁.2 h₂.2
    intro x
    constructor
    · intro hx
      rcases List.mem_cons.1 ((h x).1 (List.mem_cons_of_mem _ hx)) with rfl | hx'
      · exact absurd (h₁.1 _ hx) (String.lt_irrefl _)
      · exact hx'
    · intro hx
      rcases List.mem_cons.1 ((h x).2 (List.mem_cons_of_mem _ hx)) with rfl | hx'
      · exact absurd (h₂.1 _ hx) (String.lt_irrefl _)
      · exact hx'

end Profile
