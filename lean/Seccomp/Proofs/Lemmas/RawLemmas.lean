import Seccomp.Model.Raw
/-!
# The raw encoding means the same to the kernel
-/

theorem ofNat_toNat32 (k : Word) : BitVec.ofNat 32 k.toNat = k := by simp

/-- **`bpf.Assemble` preserves meaning**: the kernel's interpretation of the encoded program equals the
    meaning of the instruction list — including the flipped encodings of `≠ < ≤ ¬set`. -/
theorem runRaw_encode (w : Nat → Word) : ∀ (n : Nat) (prog : List Instr) (a : Word), prog.length = n →
    runRaw w (prog.map encode) a = run w prog a := by
  intro n
  induction n using Nat.strongRecOn with
  | _ n ih =>
    intro prog a hn
    cases prog with
    | nil => rw [List.map_nil, runRaw, run]
    | cons i rest =>
      have hlt : rest.length < n := by rw [← hn]; simp
      have hdrop : ∀ m, (rest.drop m).length < n := fun m => by
        rw [List.length_drop]; omega
      cases i with
      | ld off =>
        rw [List.map_cons, runRaw, run]
        simp only [encode, if_true]
        exact ih _ hlt rest _ rfl
      | ret k =>
        rw [List.map_cons, runRaw, run]
        simp [encode, opRetK, opLdAbsW]
      | ja m =>
        rw [List.map_cons, runRaw, run]
        simp only [encode, opJa, opLdAbsW, opRetK, show (5 : Nat) ≠ 32 from by decide,
          show (5 : Nat) ≠ 6 from by decide, if_false, if_true, ← List.map_drop]
        exact ih _ (hdrop m) _ _ rfl
      | jif c k jt jf =>
        rw [List.map_cons, runRaw, run]
        cases c <;>
          simp only [encode, opJeqK, opJgtK, opJgeK, opJsetK, opJa, opLdAbsW, opRetK, Cond.eval, ofNat_toNat32,
            show (21 : Nat) ≠ 32 from by decide, show (21 : Nat) ≠ 6 from by decide, show (21 : Nat) ≠ 5 from by decide,
            show (37 : Nat) ≠ 32 from by decide, show (37 : Nat) ≠ 6 from by decide, show (37 : Nat) ≠ 5 from by decide,
            show (37 : Nat) ≠ 21 from by decide,
            show (53 : Nat) ≠ 32 from by decide, show (53 : Nat) ≠ 6 from by decide, show (53 : Nat) ≠ 5 from by decide,
            show (53 : Nat) ≠ 21 from by decide, show (53 : Nat) ≠ 37 from by decide,
            show (69 : Nat) ≠ 32 from by decide, show (69 : Nat) ≠ 6 from by decide, show (69 : Nat) ≠ 5 from by decide,
            show (69 : Nat) ≠ 21 from by decide, show (69 : Nat) ≠ 37 from by decide, show (69 : Nat) ≠ 53 from by decide,
            if_false, if_true, ← List.map_drop]
        · exact ih _ (hdrop _) _ _ rfl
        · -- ne: flipped jeq
          by_cases h : (a == k) = true
          · have : (a != k) = false := by simp [bne, h]
            simp only [h, this, if_true, Bool.false_eq_true, if_false]
            exact ih _ (hdrop _) _ _ rfl
          · have h' : (a == k) = false := by simpa using h
            have : (a != k) = true := by simp [bne, h']
            simp only [h', this, if_true, Bool.false_eq_true, if_false]
            exact ih _ (hdrop _) _ _ rfl
        · exact ih _ (hdrop _) _ _ rfl
        · -- lt: flipped jge
          have hrel : (a.ult k) = !(k.ule a) := by
            simp only [BitVec.ult, BitVec.ule]
            rw [Bool.eq_iff_iff]; simp only [decide_eq_true_eq, Bool.not_eq_true', decide_eq_false_iff_not]; omega
          by_cases h : (k.ule a) = true
          · simp only [hrel, h, Bool.not_true, if_true, Bool.false_eq_true, if_false]
            exact ih _ (hdrop _) _ _ rfl
          · have h' : (k.ule a) = false := by simpa using h
            simp only [hrel, h', Bool.not_false, if_true, Bool.false_eq_true, if_false]
            exact ih _ (hdrop _) _ _ rfl
        · exact ih _ (hdrop _) _ _ rfl
        · -- le: flipped jgt
          have hrel : (a.ule k) = !(k.ult a) := by
            simp only [BitVec.ult, BitVec.ule]
            rw [Bool.eq_iff_iff]; simp only [decide_eq_true_eq, Bool.not_eq_true', decide_eq_false_iff_not]; omega
          by_cases h : (k.ult a) = true
          · simp only [hrel, h, Bool.not_true, if_true, Bool.false_eq_true, if_false]
            exact ih _ (hdrop _) _ _ rfl
          · have h' : (k.ult a) = false := by simpa using h
            simp only [hrel, h', Bool.not_false, if_true, Bool.false_eq_true, if_false]
            exact ih _ (hdrop _) _ _ rfl
        · exact ih _ (hdrop _) _ _ rfl
        · -- nset: flipped jset
          by_cases h : ((a &&& k) != 0#32) = true
          · have : ((a &&& k) == 0#32) = false := by simpa [bne] using h
            simp only [h, this, if_true, Bool.false_eq_true, if_false]
            exact ih _ (hdrop _) _ _ rfl
          · have h' : ((a &&& k) != 0#32) = false := by simpa using h
            have : ((a &&& k) == 0#32) = true := by simpa [bne] using h'
            simp only [h', this, if_true, Bool.false_eq_true, if_false]
            exact ih _ (hdrop _) _ _ rfl
