import Seccomp.Model.Kernel
/-!
# Case lemmas about the abstract kernel: all the loader proofs use
-/

theorem schedStep_live (w : World) : (schedStep w).live = w.live := by
  unfold schedStep; split; rfl; split; rfl; split <;> rfl
theorem schedStep_thr (w : World) : (schedStep w).thr = w.thr := by
  unfold schedStep; split; rfl; split; rfl; split <;> rfl
theorem schedStep_lock (w : World) : (schedStep w).lockCount = w.lockCount := by
  unfold schedStep; split; rfl; split; rfl; split <;> rfl
theorem schedStep_priv (w : World) : (schedStep w).privileged = w.privileged := by
  unfold schedStep; split; rfl; split; rfl; split <;> rfl
theorem schedStep_log (w : World) : (schedStep w).log = w.log := by
  unfold schedStep; split; rfl; split; rfl; split <;> rfl
theorem schedStep_avail (w : World) : (schedStep w).seccompAvailable = w.seccompAvailable := by
  unfold schedStep; split; rfl; split; rfl; split <;> rfl
theorem schedStep_refusal (w : World) : (schedStep w).refusal = w.refusal := by
  unfold schedStep; split; rfl; split; rfl; split <;> rfl
theorem Refusal.errno_ne_zero (r : Refusal) : r.errno ≠ 0 := by cases r <;> decide
theorem Refusal.errno_ne_einval (r : Refusal) : r.errno ≠ EINVAL := by cases r <;> decide
theorem schedStep_nnpAvail (w : World) : (schedStep w).nnpAvailable = w.nnpAvailable := by
  unfold schedStep; split; rfl; split; rfl; split <;> rfl
theorem schedStep_locked (w : World) (h : w.lockCount ≠ 0) : schedStep w = w := by
  unfold schedStep; simp [h]
theorem schedStep_cur_live (w : World) (h : w.cur ∈ w.live) : (schedStep w).cur ∈ (schedStep w).live := by
  unfold schedStep
  split
  · exact h
  · split
    · exact h
    · split <;> simp_all

/-- what a `prctl(PR_SET_NO_NEW_PRIVS, 1, 0, 0, 0)` does on a kernel that knows the option -/
theorem sysPrctl_nnp (w : World) (h : w.nnpAvailable = true) :
    sysPrctl 38 1 0 0 0 w =
      (0, 0, ({ schedStep w with log := .prctl (schedStep w).cur 38 1 0 0 0 :: w.log } : World).upd (schedStep w).cur
        { (schedStep w).thr (schedStep w).cur with nnp := true }) := by
  simp [sysPrctl, PR_SET_NO_NEW_PRIVS, schedStep_log, schedStep_nnpAvail, h]

/-- … and on one that does not: EINVAL, and only the call log changes -/
theorem sysPrctl_nnp_fault (w : World) (h : w.nnpAvailable = false) :
    sysPrctl 38 1 0 0 0 w =
      (0, EINVAL, { schedStep w with log := .prctl (schedStep w).cur 38 1 0 0 0 :: w.log }) := by
  simp [sysPrctl, PR_SET_NO_NEW_PRIVS, schedStep_log, schedStep_nnpAvail, h]

/-- the outcome classes of `seccomp(SECCOMP_SET_MODE_FILTER, flags, uargs)` -/
inductive FilterOutcome (flags : Nat) (uargs : Option Prog) (w : World) : Nat × Nat × World → Prop
  /-- declined with an errno: nothing changes except the log -/
  | declined (e : Nat) (he : e ≠ 0)
      (hwhy : flags &&& knownFlags ≠ flags ∨ uargs = none ∨
        (∃ p, uargs = some p ∧ (p.ok = false ∨ p.len = 0 ∨ p.len > BPF_MAXINSNS)) ∨
        (((schedStep w).thr (schedStep w).cur).nnp = false ∧ w.privileged = false) ∨
        w.seccompAvailable = false ∨
        (flags &&& FLAG_TSYNC ≠ 0 ∧ flags &&& FLAG_NEW_LISTENER ≠ 0)) :
      FilterOutcome flags uargs w
        (0, e, { schedStep w with log := .seccomp (schedStep w).cur 1 flags uargs :: w.log })
  /-- thread-sync refused: positive return value, errno 0, nothing attached -/
  | refused (t : Tid) (hts : flags &&& FLAG_TSYNC ≠ 0)
      (ht : t ∈ w.live ∧ t ≠ (schedStep w).cur)
      (hdiv : (w.thr t).filters.isSuffixOf (w.thr (schedStep w).cur).filters = false) :
      FilterOutcome flags uargs w
        (t + 1, 0, { schedStep w with log := .seccomp (schedStep w).cur 1 flags uargs :: w.log })
  /-- attached to the calling thread only; the return value is 0 unless a listener was asked for
      (then it is the listener's descriptor) -/
  | attachedOne (p : Prog) (r1 : Nat) (hr : flags &&& FLAG_NEW_LISTENER = 0 → r1 = 0)
      (hp : uargs = some p) (hok : p.ok = true ∧ p.len ≠ 0 ∧ p.len ≤ BPF_MAXINSNS)
      (havail : w.seccompAvailable = true)
      (hflags : flags &&& knownFlags = flags)
      (hts : flags &&& FLAG_TSYNC = 0)
      (hpriv : ((schedStep w).thr (schedStep w).cur).nnp = true ∨ w.privileged = true) :
      FilterOutcome flags uargs w
        (r1, 0, ({ schedStep w with log := .seccomp (schedStep w).cur 1 flags uargs :: w.log } : World).upd (schedStep w).cur
          { (schedStep w).thr (schedStep w).cur with filters := p.id :: ((schedStep w).thr (schedStep w).cur).filters })
  /-- attached to every live thread (thread-sync) -/
  | attachedAll (p : Prog) (hp : uargs = some p) (hok : p.ok = true ∧ p.len ≠ 0 ∧ p.len ≤ BPF_MAXINSNS)
      (havail : w.seccompAvailable = true)
      (hflags : flags &&& knownFlags = flags)
      (hts : flags &&& FLAG_TSYNC ≠ 0)
      (hsync : ∀ t ∈ w.live, t ≠ (schedStep w).cur →
        (w.thr t).filters.isSuffixOf (w.thr (schedStep w).cur).filters = true)
      (hpriv : ((schedStep w).thr (schedStep w).cur).nnp = true ∨ w.privileged = true) :
      FilterOutcome flags uargs w
        (0, 0, { schedStep w with
          log := .seccomp (schedStep w).cur 1 flags uargs :: w.log,
          thr := fun t => if t ∈ w.live then
              { w.thr t with filters := p.id :: ((schedStep w).thr (schedStep w).cur).filters,
                             nnp := (w.thr t).nnp || ((schedStep w).thr (schedStep w).cur).nnp }
            else w.thr t })

theorem sysSeccomp_filter (flags : Nat) (uargs : Option Prog) (w : World) :
    FilterOutcome flags uargs w (sysSeccomp 1 flags uargs w) := by
  unfold sysSeccomp
  simp only [SECCOMP_SET_MODE_STRICT, SECCOMP_SET_MODE_FILTER, Nat.succ_ne_zero, if_false, if_true,
    schedStep_log, show (1 : Nat) ≠ 0 from by decide]
  split
  · rename_i h0
    have h0' : w.seccompAvailable = false := by simpa [schedStep_avail] using h0
    exact .declined (schedStep w).refusal.errno (Refusal.errno_ne_zero _) (.inr (.inr (.inr (.inr (.inl h0')))))
  rename_i h0
  have havail : w.seccompAvailable = true := by
    have : ¬ w.seccompAvailable = false := by simpa [schedStep_avail] using h0
    simpa using this
  by_cases h1 : flags &&& knownFlags ≠ flags
  · rw [if_pos h1]
    exact .declined EINVAL (by decide) (.inl h1)
  · rw [if_neg h1]
    by_cases hc : flags &&& FLAG_TSYNC ≠ 0 ∧ flags &&& FLAG_NEW_LISTENER ≠ 0
    · rw [if_pos hc]
      exact .declined EINVAL (by decide) (.inr (.inr (.inr (.inr (.inr hc)))))
    rw [if_neg hc]
    cases uargs with
    | none => exact .declined EFAULT (by decide) (.inr (.inl rfl))
    | some p =>
      simp only
      by_cases h2 : p.len = 0 ∨ p.len > BPF_MAXINSNS
      · rw [if_pos h2]
        refine .declined EINVAL (by decide) (.inr (.inr (.inl ⟨p, rfl, ?_⟩)))
        rcases h2 with h | h
        · exact .inr (.inl h)
        · exact .inr (.inr h)
      · rw [if_neg h2]
        by_cases h3 : (!(((schedStep w).thr (schedStep w).cur).nnp || (schedStep w).privileged)) = true
        · rw [if_pos h3]
          refine .declined EACCES (by decide) (.inr (.inr (.inr (.inl ?_))))
          simp only [Bool.not_eq_true', Bool.or_eq_false_iff, schedStep_priv] at h3
          exact h3
        · rw [if_neg h3]
          have hpriv : ((schedStep w).thr (schedStep w).cur).nnp = true ∨ w.privileged = true := by
            simp only [Bool.not_eq_true', Bool.not_eq_false, Bool.or_eq_true, schedStep_priv] at h3
            exact h3
          by_cases h5 : (!p.ok) = true
          · rw [if_pos h5]
            exact .declined EINVAL (by decide) (.inr (.inr (.inl ⟨p, rfl, .inl (by simpa using h5)⟩)))
          rw [if_neg h5]
          have hok : p.ok = true ∧ p.len ≠ 0 ∧ p.len ≤ BPF_MAXINSNS := by
            refine ⟨by simpa using h5, ?_, ?_⟩
            · intro h; exact h2 (.inl h)
            · exact Nat.le_of_not_gt (fun h => h2 (.inr h))
          by_cases h4 : flags &&& FLAG_TSYNC ≠ 0
          · rw [if_pos h4]
            split
            · rename_i t ht
              have hf := List.find?_some ht
              have hm := List.mem_of_find?_eq_some ht
              simp only [schedStep_live, schedStep_thr, Bool.and_eq_true, bne_iff_ne, ne_eq, Bool.not_eq_true'] at hf hm
              exact .refused t h4 ⟨hm, hf.1⟩ hf.2
            · rename_i hnone
              have hsync : ∀ t ∈ w.live, t ≠ (schedStep w).cur →
                  (w.thr t).filters.isSuffixOf (w.thr (schedStep w).cur).filters = true := by
                intro t ht htc
                have := List.find?_eq_none.1 hnone t (by simpa [schedStep_live] using ht)
                simp only [schedStep_thr, Bool.and_eq_true, bne_iff_ne, ne_eq, Bool.not_eq_true', not_and,
                  Bool.not_eq_false] at this
                exact this htc
              have := FilterOutcome.attachedAll (w := w) p rfl hok havail (by simpa using h1) h4 hsync hpriv
              simpa only [schedStep_live, schedStep_thr] using this
          · rw [if_neg h4]
            refine .attachedOne p _ ?_ rfl hok havail (by simpa using h1) (by simpa using h4) hpriv
            intro hl; rw [if_neg (by simpa using hl)]

/-- the probe `seccomp(SECCOMP_SET_MODE_STRICT, 1, NULL)`: EINVAL if the syscall exists, the refusal's errno (ENOSYS, EPERM, EACCES) if not;
    nothing but the call log changes -/
theorem sysSeccomp_probe (w : World) :
    sysSeccomp 0 1 none w =
      (0, if w.seccompAvailable = true then EINVAL else w.refusal.errno,
        { schedStep w with log := .seccomp (schedStep w).cur 0 1 none :: w.log }) := by
  unfold sysSeccomp
  cases ha : w.seccompAvailable <;>
    simp [SECCOMP_SET_MODE_STRICT, schedStep_avail, schedStep_log, schedStep_refusal, ha]

/-- any operation other than SET_MODE_FILTER leaves the filter chains alone: the world afterwards is
    the logged one, possibly with the calling thread in strict mode -/
theorem sysSeccomp_other (op flags : Nat) (uargs : Option Prog) (w : World) (hop : op ≠ 1) :
    (sysSeccomp op flags uargs w).2.2 =
        { schedStep w with log := .seccomp (schedStep w).cur op flags uargs :: w.log } ∨
    (sysSeccomp op flags uargs w).2.2 =
        ({ schedStep w with log := .seccomp (schedStep w).cur op flags uargs :: w.log } : World).upd (schedStep w).cur
          { (schedStep w).thr (schedStep w).cur with strict := true } := by
  have h1 : ¬ op = SECCOMP_SET_MODE_FILTER := hop
  unfold sysSeccomp
  simp only [if_neg h1, schedStep_log]
  split
  · exact .inl rfl
  · split
    · split
      · exact .inl rfl
      · exact .inr rfl
    · exact .inl rfl
