import Seccomp.Proofs.Lemmas.KernelLemmas
import Seccomp.Gen.Skeletons
import Seccomp.Model.LoaderSpec
/-!
# The generated loader against the abstract kernel

Everything here is about `Gen.seccomp`, `Gen.prctl`, `Gen.setNoNewPrivs`, `Gen.supported`,
`Gen.loadFilter` — the Lean rendering of seccomp_linux.go that `vextract` regenerates on every run.
-/

/-- **The one lemma that looks inside `Gen.seccomp`** (everything else in the loader proofs goes through
    it): the wrapper leaves the world the kernel call leaves, is nil exactly when the kernel reported
    errno 0 and — if thread-sync was asked for — returned 0, and otherwise carries the errno or an error
    that is not an errno.  Proved by case analysis on the kernel's answer, not on the shape of the `if`
    tree, and without mentioning the message text: any equivalent arrangement of the same tests in the
    source proves the same way. -/
theorem gen_seccomp_core (U : Unsupported) (op flags : Nat) (uargs : Option Prog) (w : World) :
    (Gen.seccomp U op flags uargs w).2 = (sysSeccomp op flags uargs w).2.2 ∧
    ((Gen.seccomp U op flags uargs w).1 = GoErr.nil ↔
      ((sysSeccomp op flags uargs w).2.1 = 0 ∧ ¬ (flags &&& 1 ≠ 0 ∧ (sysSeccomp op flags uargs w).1 ≠ 0))) ∧
    (Gen.seccomp U op flags uargs w).1.cls =
      (if (sysSeccomp op flags uargs w).2.1 ≠ 0 then ErrClass.errno (sysSeccomp op flags uargs w).2.1
       else if flags &&& 1 ≠ 0 ∧ (sysSeccomp op flags uargs w).1 ≠ 0 then .other else .nil) ∧
    ((sysSeccomp op flags uargs w).2.1 ≠ 0 →
      (Gen.seccomp U op flags uargs w).1 = GoErr.errno (sysSeccomp op flags uargs w).2.1) := by
  unfold Gen.seccomp
  generalize sysSeccomp op flags uargs w = r
  obtain ⟨r1, e, w1⟩ := r
  generalize flags &&& 1 = tsync
  by_cases he : e = 0 <;> by_cases hr : r1 = 0 <;> by_cases hf : tsync = 0 <;>
    simp [he, hr, hf, GoErr.cls]

/-- the wrapper never changes the world: it only interprets the kernel's answer -/
theorem gen_seccomp_world (U : Unsupported) (op flags : Nat) (uargs : Option Prog) (w : World) :
    (Gen.seccomp U op flags uargs w).2 = (sysSeccomp op flags uargs w).2.2 :=
  (gen_seccomp_core U op flags uargs w).1

/-- the `seccomp()` wrapper: nil exactly when the kernel attached the filter -/
theorem gen_seccomp_nil {U : Unsupported} {flags : Nat} {uargs : Option Prog} {w w' : World}
    (h : Gen.seccomp U 1 flags uargs w = (GoErr.nil, w')) :
    ∃ p, uargs = some p ∧ (p.ok = true ∧ p.len ≠ 0 ∧ p.len ≤ BPF_MAXINSNS) ∧
      w.seccompAvailable = true ∧
      flags &&& knownFlags = flags ∧
      (flags &&& FLAG_TSYNC ≠ 0 → ∀ t ∈ w.live, t ≠ (schedStep w).cur →
        (w.thr t).filters.isSuffixOf (w.thr (schedStep w).cur).filters = true) ∧
      (((schedStep w).thr (schedStep w).cur).nnp = true ∨ w.privileged = true) ∧
      ((flags &&& FLAG_TSYNC = 0 ∧
        w' = ({ schedStep w with log := .seccomp (schedStep w).cur 1 flags uargs :: w.log } : World).upd (schedStep w).cur
          { (schedStep w).thr (schedStep w).cur with filters := p.id :: ((schedStep w).thr (schedStep w).cur).filters }) ∨
       (flags &&& FLAG_TSYNC ≠ 0 ∧
        w' = { schedStep w with
          log := .seccomp (schedStep w).cur 1 flags uargs :: w.log,
          thr := fun t => if t ∈ w.live then
              { w.thr t with filters := p.id :: ((schedStep w).thr (schedStep w).cur).filters,
                             nnp := (w.thr t).nnp || ((schedStep w).thr (schedStep w).cur).nnp }
            else w.thr t })) := by
  have hk := sysSeccomp_filter flags uargs w
  obtain ⟨hw, hnil, _, _⟩ := gen_seccomp_core U 1 flags uargs w
  have h1 : (Gen.seccomp U 1 flags uargs w).1 = GoErr.nil := by rw [h]
  have h2 : w' = (sysSeccomp 1 flags uargs w).2.2 := by rw [← hw, h]
  have hz := hnil.1 h1
  generalize sysSeccomp 1 flags uargs w = r at hk hz h2
  cases hk with
  | declined e he _ => exact absurd hz.1 he
  | refused t hts _ _ =>
    exact absurd ⟨hts, Nat.succ_ne_zero t⟩ hz.2
  | attachedOne p r1 hr hp hok havail hflags hts hpriv =>
    exact ⟨p, hp, hok, havail, hflags, fun h' => absurd hts h', hpriv, .inl ⟨hts, h2⟩⟩
  | attachedAll p hp hok havail hflags hts hsync hpriv =>
    exact ⟨p, hp, hok, havail, hflags, fun _ => hsync, hpriv, .inr ⟨hts, h2⟩⟩

/-- the `seccomp()` wrapper: a non-nil result leaves every thread as it was -/
theorem gen_seccomp_err {U : Unsupported} {flags : Nat} {uargs : Option Prog} {w w' : World} {err : GoErr}
    (h : Gen.seccomp U 1 flags uargs w = (err, w')) (hne : err ≠ GoErr.nil) :
    w' = { schedStep w with log := .seccomp (schedStep w).cur 1 flags uargs :: w.log } := by
  have hk := sysSeccomp_filter flags uargs w
  obtain ⟨hw, hnil, _, _⟩ := gen_seccomp_core U 1 flags uargs w
  have h1 : (Gen.seccomp U 1 flags uargs w).1 ≠ GoErr.nil := by rw [h]; exact hne
  have h2 : w' = (sysSeccomp 1 flags uargs w).2.2 := by rw [← hw, h]
  have hz : ¬ ((sysSeccomp 1 flags uargs w).2.1 = 0 ∧ ¬ (flags &&& 1 ≠ 0 ∧ (sysSeccomp 1 flags uargs w).1 ≠ 0)) :=
    fun hc => h1 (hnil.2 hc)
  generalize sysSeccomp 1 flags uargs w = r at hk hz h2
  cases hk with
  | declined e he _ => exact h2
  | refused t hts _ _ => exact h2
  | attachedOne p r1 hr hp hok havail hflags hts hpriv =>
    exact absurd ⟨rfl, fun hc => hc.1 hts⟩ hz
  | attachedAll p hp hok havail hflags hts hsync hpriv =>
    exact absurd ⟨rfl, fun hc => hc.2 rfl⟩ hz

/-- the refusals, one by one: the wrapper reports each as a non-nil error -/
theorem gen_seccomp_declines {U : Unsupported} {flags : Nat} {uargs : Option Prog} {w : World}
    (hwhy : flags &&& knownFlags ≠ flags ∨ uargs = none ∨
        (∃ p, uargs = some p ∧ (p.ok = false ∨ p.len = 0 ∨ p.len > BPF_MAXINSNS)) ∨
        (((schedStep w).thr (schedStep w).cur).nnp = false ∧ w.privileged = false) ∨
        (flags &&& FLAG_TSYNC ≠ 0 ∧ ∃ t ∈ w.live, t ≠ (schedStep w).cur ∧
          (w.thr t).filters.isSuffixOf (w.thr (schedStep w).cur).filters = false) ∨
        w.seccompAvailable = false) :
    (Gen.seccomp U 1 flags uargs w).1 ≠ GoErr.nil := by
  intro hnil
  have h : Gen.seccomp U 1 flags uargs w = (GoErr.nil, (Gen.seccomp U 1 flags uargs w).2) := by
    rw [← hnil]
  obtain ⟨p, hp, hok, havail, hflags, hsync, hpriv, _⟩ := gen_seccomp_nil h
  rcases hwhy with h1 | h2 | ⟨q, hq, hbad⟩ | ⟨hn, hpv⟩ | ⟨hts, t, ht, htc, hdiv⟩ | hna
  · exact h1 hflags
  · rw [h2] at hp; cases hp
  · rw [hq] at hp; cases hp
    rcases hbad with h | h | h
    · rw [hok.1] at h; cases h
    · exact hok.2.1 h
    · exact Nat.not_le_of_gt h hok.2.2
  · rcases hpriv with h | h
    · rw [hn] at h; cases h
    · rw [hpv] at h; cases h
  · have := hsync hts t ht htc
    rw [hdiv] at this; cases this
  · rw [hna] at havail; cases havail

/-- the wrapper issues exactly one kernel call, with the operation, flag word and pointer it was given,
    whatever the outcome -/
theorem gen_seccomp_log (U : Unsupported) (flags : Nat) (uargs : Option Prog) (w : World) :
    (Gen.seccomp U 1 flags uargs w).2.log = .seccomp (schedStep w).cur 1 flags uargs :: w.log ∧
    (Gen.seccomp U 1 flags uargs w).2.cur = (schedStep w).cur ∧
    (Gen.seccomp U 1 flags uargs w).2.live = w.live ∧
    (Gen.seccomp U 1 flags uargs w).2.lockCount = w.lockCount := by
  rw [gen_seccomp_world]
  have hk := sysSeccomp_filter flags uargs w
  generalize sysSeccomp 1 flags uargs w = r at hk
  cases hk <;> simp [World.upd, schedStep_live, schedStep_lock]

/-- when nothing stands in the way the wrapper returns nil -/
theorem gen_seccomp_ok {U : Unsupported} {flags : Nat} {p : Prog} {w : World}
    (havail : w.seccompAvailable = true)
    (hflags : flags &&& knownFlags = flags)
    (hcombo : ¬ (flags &&& FLAG_TSYNC ≠ 0 ∧ flags &&& FLAG_NEW_LISTENER ≠ 0))
    (hok : p.ok = true ∧ p.len ≠ 0 ∧ p.len ≤ BPF_MAXINSNS)
    (hpriv : ((schedStep w).thr (schedStep w).cur).nnp = true ∨ w.privileged = true)
    (hsync : flags &&& FLAG_TSYNC ≠ 0 → ∀ t ∈ w.live, t ≠ (schedStep w).cur →
        (w.thr t).filters.isSuffixOf (w.thr (schedStep w).cur).filters = true) :
    (Gen.seccomp U 1 flags (some p) w).1 = GoErr.nil := by
  have hk := sysSeccomp_filter flags (some p) w
  apply (gen_seccomp_core U 1 flags (some p) w).2.1.2
  generalize sysSeccomp 1 flags (some p) w = r at hk
  cases hk with
  | declined e he hwhy =>
    exfalso
    rcases hwhy with h | h | ⟨q, hq, hbad⟩ | ⟨h1, h2⟩ | hna | hcb
    · exact h hflags
    · cases h
    · cases hq
      rcases hbad with h | h | h
      · rw [hok.1] at h; cases h
      · exact hok.2.1 h
      · exact Nat.not_le_of_gt h hok.2.2
    · rcases hpriv with h | h
      · rw [h1] at h; cases h
      · rw [h2] at h; cases h
    · rw [hna] at havail; cases havail
    · exact hcombo hcb
  | refused t hts ht hdiv =>
    exfalso
    have := hsync hts t ht.1 ht.2
    rw [hdiv] at this; cases this
  | attachedOne q r1 hr hq hok' havail' hflags' hts hpriv' =>
    exact ⟨rfl, fun hc => hc.1 hts⟩
  | attachedAll q hq hok' havail' hflags' hts hsync' hpriv' =>
    exact ⟨rfl, fun hc => hc.2 rfl⟩

/-- **`Supported()` in one equation**: it reports whether the syscall exists, and the world is the one the
    probe call leaves.  Through `gen_seccomp_core`, by cases on the kernel's answer (not on how the
    source spells the comparison with EINVAL). -/
theorem gen_supported_char (U : Unsupported) (w : World) :
    Gen.supported U w = (w.seccompAvailable, (sysSeccomp 0 1 none w).2.2) := by
  have hne : (sysSeccomp 0 1 none w).2.1 ≠ 0 := by
    rw [sysSeccomp_probe]; cases w.seccompAvailable <;> simp [EINVAL, Refusal.errno_ne_zero]
  have h4 := (gen_seccomp_core U 0 1 none w).2.2.2 hne
  have hw := gen_seccomp_world U 0 1 none w
  unfold Gen.supported
  generalize Gen.seccomp U 0 1 none w = r at h4 hw
  obtain ⟨err, w2⟩ := r
  simp only at h4 hw
  subst h4 hw
  rw [sysSeccomp_probe]
  have := w.refusal.errno_ne_einval
  cases w.seccompAvailable <;> simp_all [EINVAL]
