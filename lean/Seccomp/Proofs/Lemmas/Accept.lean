import Seccomp.Proofs.Lemmas.Reject
/-!
# Defect-free groups pass validation (the converse direction of C07, up to the label resolver)
-/

variable (A : ArchInfo)

/-- different names have different numbers (true of every real table: C12.lookup_inverse) -/
def NumInj : Prop := ∀ n1 n2 k, A.number n1 = some k → A.number n2 = some k → n1 = n2

/-- a group free of the defects the property lists -/
structure GroupValid (g : Group) : Prop where
  namesKnown : ∀ n ∈ g.names, (A.number n).isSome = true
  namesNodup : g.names.Nodup
  condNamesKnown : ∀ nc ∈ g.withConds, (A.number nc.name).isSome = true
  notMixed : ∀ nc ∈ g.withConds, nc.name ∉ g.names
  condsValid : ∀ nc ∈ g.withConds, ∀ c ∈ nc.conds, c.arg ≤ 5 ∧ (opOfString c.op).isSome = true

theorem validateConds_eq_nil {conds : List Condition}
    (h : ∀ c ∈ conds, c.arg ≤ 5 ∧ (opOfString c.op).isSome = true) : validateConds conds = [] := by
  induction conds with
  | nil => rfl
  | cons c rest ih =>
    obtain ⟨h1, h2⟩ := h c List.mem_cons_self
    have hgt : ¬ c.arg > 5 := by omega
    have hop : (opOfString c.op).isNone = false := by
      cases ho : opOfString c.op with
      | none => rw [ho] at h2; cases h2
      | some _ => rfl
    simp only [validateConds, hgt, if_false, hop, Bool.false_eq_true, List.nil_append]
    exact ih (fun c' hc' => h c' (List.mem_cons_of_mem _ hc'))

/-- first loop on distinct known names: no problem is added, and every entry comes from a name -/
theorem resolveNames_ok (hinj : NumInj A) : ∀ (names done : List String) (es : List Entry) (ps : List Problem),
    (∀ e ∈ es, ∃ n ∈ done, A.number n = some e.num) →
    (∀ n ∈ names, (A.number n).isSome = true) → names.Nodup → (∀ n ∈ names, n ∉ done) →
    (resolveNames A names es ps).2 = ps ∧
    (∀ e ∈ (resolveNames A names es ps).1, ∃ n ∈ done ++ names, A.number n = some e.num) ∧
    ((resolveNames A names es ps).1.all Entry.isUncond = es.all Entry.isUncond)
  | [], done, es, ps, hinv, _, _, _ => by
    simp only [resolveNames, List.append_nil]
    exact ⟨trivial, hinv, trivial⟩
  | x :: rest, done, es, ps, hinv, hk, hnd, hfresh => by
    simp only [resolveNames]
    have hx := hk x List.mem_cons_self
    cases hn : A.number x with
    | none => rw [hn] at hx; cases hx
    | some m =>
      simp only
      have hnot : ¬ (es.any (·.num == m)) = true := by
        intro hany
        obtain ⟨e, he, hem⟩ := List.any_eq_true.1 hany
        have hem' : e.num = m := by simpa using hem
        obtain ⟨n, hnd', hnn⟩ := hinv e he
        rw [hem'] at hnn
        have := hinj n x m hnn hn
        subst this
        exact hfresh n List.mem_cons_self hnd'
      rw [if_neg hnot]
      have hnd2 := List.nodup_cons.1 hnd
      obtain ⟨h1, h2, h3⟩ := resolveNames_ok hinj rest (done ++ [x]) (es ++ [.uncond m]) ps
        (by
          intro e he
          rcases List.mem_append.1 he with h | h
          · obtain ⟨n, hn1, hn2⟩ := hinv e h
            exact ⟨n, List.mem_append_left _ hn1, hn2⟩
          · simp only [List.mem_cons, List.not_mem_nil, or_false] at h
            subst h
            exact ⟨x, by simp, hn⟩)
        (fun n hn' => hk n (List.mem_cons_of_mem _ hn'))
        hnd2.2
        (by
          intro n hn' hd
          rcases List.mem_append.1 hd with h | h
          · exact hfresh n (List.mem_cons_of_mem _ hn') h
          · simp only [List.mem_cons, List.not_mem_nil, or_false] at h
            subst h; exact hnd2.1 hn')
      refine ⟨h1, ?_, ?_⟩
      · intro e he
        obtain ⟨n, hn1, hn2⟩ := h2 e he
        exact ⟨n, by simpa [List.append_assoc] using hn1, hn2⟩
      · rw [h3]; simp [List.all_append, Entry.isUncond]

theorem addList_uncond_origin (num : Word) (cs : List Cnd) (P : Word → Prop) : ∀ (es : List Entry),
    (∀ e ∈ es, e.isUncond = true → P e.num) → ∀ e ∈ addList num cs es, e.isUncond = true → P e.num
  | [], h => by intro e he; cases he
  | x :: rest, h => by
    intro e he hu
    simp only [addList] at he
    split at he
    · cases x with
      | uncond n => exact h e he hu
      | cond n ls =>
        rcases List.mem_cons.1 he with rfl | h1
        · simp [Entry.isUncond] at hu
        · exact h e (List.mem_cons_of_mem _ h1) hu
    · rcases List.mem_cons.1 he with rfl | h1
      · exact h _ List.mem_cons_self hu
      · exact addList_uncond_origin num cs P rest (fun e' he' => h e' (List.mem_cons_of_mem _ he')) e h1 hu

/-- second loop on valid entries with conditions: no problem is added -/
theorem resolveConds_ok (hinj : NumInj A) (names : List String) : ∀ (ncs : List NameConds) (es : List Entry)
    (ps : List Problem),
    (∀ e ∈ es, e.isUncond = true → ∃ n ∈ names, A.number n = some e.num) →
    (∀ nc ∈ ncs, (A.number nc.name).isSome = true ∧ nc.name ∉ names ∧
      ∀ c ∈ nc.conds, c.arg ≤ 5 ∧ (opOfString c.op).isSome = true) →
    (resolveConds A ncs es ps).2 = ps
  | [], es, ps, _, _ => rfl
  | nc :: rest, es, ps, hinv, hv => by
    obtain ⟨hk, hnm, hc⟩ := hv nc List.mem_cons_self
    have hrest : ∀ nc' ∈ rest, (A.number nc'.name).isSome = true ∧ nc'.name ∉ names ∧
        ∀ c ∈ nc'.conds, c.arg ≤ 5 ∧ (opOfString c.op).isSome = true :=
      fun nc' h => hv nc' (List.mem_cons_of_mem _ h)
    simp only [resolveConds]
    cases hn : A.number nc.name with
    | none => rw [hn] at hk; cases hk
    | some num =>
      simp only [validateConds_eq_nil hc, List.isEmpty_nil, Bool.not_true, Bool.false_eq_true, if_false]
      cases hf : es.find? (·.num == num) with
      | none =>
        simp only
        refine resolveConds_ok hinj names rest _ ps ?_ hrest
        intro e he hu
        rcases List.mem_append.1 he with h | h
        · exact hinv e h hu
        · simp only [List.mem_cons, List.not_mem_nil, or_false] at h
          subst h; simp [Entry.isUncond] at hu
      | some e0 =>
        cases e0 with
        | uncond k =>
          exfalso
          have hmem := List.mem_of_find?_eq_some hf
          have hp := List.find?_some hf
          have hk' : k = num := by simpa [Entry.num] using hp
          obtain ⟨n, hn1, hn2⟩ := hinv _ hmem rfl
          simp only [Entry.num] at hn2
          rw [hk'] at hn2
          have := hinj n nc.name num hn2 hn
          subst this
          exact hnm hn1
        | cond k ls =>
          simp only
          refine resolveConds_ok hinj names rest _ ps ?_ hrest
          exact addList_uncond_origin num _ (fun w => ∃ n ∈ names, A.number n = some w) es hinv

/-- **A defect-free group passes validation**: `toSyscallsWithConditions` reports no problem -/
theorem toEntries_ok (hinj : NumInj A) (g : Group) (hv : GroupValid A g) : ∃ ents, toEntries A g = .ok ents := by
  unfold toEntries
  obtain ⟨h1, h2, h3⟩ := resolveNames_ok A hinj g.names [] [] []
    (by intro e he; cases he) hv.namesKnown hv.namesNodup (by intro n _ hd; cases hd)
  generalize hr : resolveNames A g.names [] [] = r1 at h1 h2 h3
  obtain ⟨es1, ps1⟩ := r1
  simp only at h1 h2 h3 ⊢
  subst h1
  have hc := resolveConds_ok A hinj g.names g.withConds es1 []
    (by intro e he _; simpa using h2 e he)
    (fun nc hnc => ⟨hv.condNamesKnown nc hnc, hv.notMixed nc hnc, hv.condsValid nc hnc⟩)
  generalize resolveConds A g.withConds es1 [] = r2 at hc
  obtain ⟨es2, ps2⟩ := r2
  simp only at hc ⊢
  subst hc
  exact ⟨es2, by simp⟩
