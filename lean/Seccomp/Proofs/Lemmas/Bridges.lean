import Seccomp.Proofs.Lemmas.AsmSound

variable {L : Type} [DecidableEq L]

/-- destinations never point past the end of what is laid out -/
def DestLe (s : St L) : Prop := ∀ l d, s.get l = some d → d ≤ s.out.length

def fits : Instr → Bool
  | .jif _ _ jt jf => decide (jt ≤ 255) && decide (jf ≤ 255)
  | _ => true

theorem bridge_cases {s : St L} {l : L} {s' : St L} (hb : bridge s l = .ok s') :
    (s' = s ∧ ∃ d, s.get l = some d ∧ s.out.length - d ≤ 255) ∨
    (∃ d b, s.get l = some d ∧ 255 < s.out.length - d ∧ fits b = true ∧
      s' = { out := b :: s.out, dest := (l, s.out.length + 1) :: s.dest }) := by
  unfold bridge at hb
  split at hb
  · cases hb
  · rename_i d hd
    split at hb
    · rename_i hle; cases hb; exact .inl ⟨rfl, d, hd, hle⟩
    · rename_i hgt; cases hb
      refine .inr ⟨d, _, hd, by omega, ?_, rfl⟩
      split <;> simp [fits]

theorem bridge_destLe {s : St L} {l : L} {s' : St L} (h : DestLe s) (hb : bridge s l = .ok s') : DestLe s' := by
  rcases bridge_cases hb with ⟨rfl, _⟩ | ⟨d, b, hd, _, _, rfl⟩
  · exact h
  · intro l' d' hg
    rw [get_cons (o' := s.out)] at hg
    by_cases hl : l = l'
    · simp only [hl, if_true, Option.some.injEq] at hg; subst hg; simp
    · simp only [hl, if_false] at hg
      have := h l' d' hg; simp; omega

/-- after `bridge s l`, `l` is within reach; any other label moved by at most one, and only if `l` is now adjacent -/
theorem bridge_dist {s : St L} {l : L} {s' : St L} (hb : bridge s l = .ok s') :
    (∃ d, s'.get l = some d ∧ s'.out.length - d ≤ 255) ∧
    (∀ l' d', s.get l' = some d' → l' ≠ l →
      s'.get l' = some d' ∧ (s'.out.length = s.out.length ∨
        (s'.out.length = s.out.length + 1 ∧ s'.get l = some s'.out.length))) := by
  rcases bridge_cases hb with ⟨rfl, d, hd, hle⟩ | ⟨d, b, hd, hgt, _, rfl⟩
  · exact ⟨⟨d, hd, hle⟩, fun l' d' hg _ => ⟨hg, .inl rfl⟩⟩
  · refine ⟨⟨s.out.length + 1, by rw [get_cons (o' := s.out)]; simp, by simp⟩, ?_⟩
    intro l' d' hg hne
    refine ⟨?_, .inr ⟨by simp, by rw [get_cons (o' := s.out)]; simp⟩⟩
    rw [get_cons (o' := s.out)]
    have : ¬ l = l' := fun e => hne e.symm
    simp only [this, if_false]; exact hg

/-- the three bridge steps leave both labels within the 8-bit range -/
theorem three_bridges {s s1 s2 s3 : St L} {tl fl : L} (hle : DestLe s)
    (h1 : bridge s fl = .ok s1) (h2 : bridge s1 tl = .ok s2) (h3 : bridge s2 fl = .ok s3) :
    ∃ dt df, s3.get tl = some dt ∧ s3.get fl = some df ∧
      s3.out.length - dt ≤ 255 ∧ s3.out.length - df ≤ 255 := by
  have hle1 := bridge_destLe hle h1
  have hle2 := bridge_destLe hle1 h2
  have hle3 := bridge_destLe hle2 h3
  obtain ⟨⟨df3, hdf3, hfit3⟩, hoth3⟩ := bridge_dist h3
  by_cases hlab : tl = fl
  · subst hlab
    exact ⟨df3, df3, hdf3, hdf3, hfit3, hfit3⟩
  · obtain ⟨⟨dt2, hdt2, hfit2⟩, _⟩ := bridge_dist h2
    obtain ⟨hdt3, hlen⟩ := hoth3 tl dt2 hdt2 hlab
    refine ⟨dt2, df3, hdt3, hdf3, ?_, hfit3⟩
    rcases hlen with heq | ⟨hplus, _⟩
    · omega
    · -- step 3 inserted: `fl` was out of reach in `s2`, so step 2 had inserted, so `tl` is adjacent in `s2`
      rcases bridge_cases h3 with ⟨rfl, _⟩ | ⟨d2, b, hd2, hgt2, _, rfl⟩
      · omega
      · obtain ⟨⟨df1, hdf1, hfit1⟩, _⟩ := bridge_dist h1
        obtain ⟨_, hoth2⟩ := bridge_dist h2
        obtain ⟨hdf2, hlen2⟩ := hoth2 fl df1 hdf1 (fun e => hlab e.symm)
        have : d2 = df1 := by rw [hdf2] at hd2; exact (Option.some.inj hd2).symm
        subst this
        rcases hlen2 with heq2 | ⟨hplus2, hadj⟩
        · omega
        · have : dt2 = s2.out.length := by rw [hadj] at hdt2; exact (Option.some.inj hdt2).symm
          simp only [List.length_cons]; omega

#print axioms three_bridges
