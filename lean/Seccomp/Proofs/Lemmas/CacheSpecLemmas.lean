import Seccomp.Proofs.Lemmas.CacheLemmas
/-!
# The repaired cache protocol, step by step
-/
namespace CacheSpec
open Cache

/-! ### paths -/

theorem dropWhile_slash (p : Str) (h : 47 ∈ p) : ∃ rest, p.dropWhile (· != 47) = 47 :: rest := by
  induction p with
  | nil => simp at h
  | cons a t ih =>
    by_cases ha : a = 47
    · subst ha; exact ⟨t, by simp [List.dropWhile]⟩
    · have : 47 ∈ t := by
        rcases List.mem_cons.1 h with h | h
        · exact absurd h.symm ha
        · exact h
      obtain ⟨r, hr⟩ := ih this
      refine ⟨r, ?_⟩
      rw [List.dropWhile_cons, if_pos (by simpa using ha)]
      exact hr

theorem dir_base_split (p : Str) (h : 47 ∈ p) : dirOf p ++ [47] ++ baseOf p = p := by
  unfold dirOf baseOf
  have hsplit := List.takeWhile_append_dropWhile (p := fun x : Nat => x != 47) (l := p.reverse)
  obtain ⟨rest, hrest⟩ := dropWhile_slash p.reverse (by simpa using h)
  rw [hrest] at hsplit ⊢
  have : p = (List.takeWhile (fun x => x != 47) p.reverse ++ 47 :: rest).reverse := by
    rw [hsplit, List.reverse_reverse]
  conv => rhs; rw [this]
  simp

/-- the temporary file is never the cache file itself -/
theorem tmp_ne_dump (dump sfx : Str) (h : 47 ∈ dump) :
    dirOf dump ++ [47] ++ (baseOf dump ++ bytes ".tmp") ++ sfx ≠ dump := by
  intro hc
  have h1 := dir_base_split dump h
  have : (dirOf dump ++ [47] ++ (baseOf dump ++ bytes ".tmp") ++ sfx).length = dump.length := by rw [hc]
  have h2 : dump.length = (dirOf dump ++ [47] ++ baseOf dump).length := by rw [h1]
  have h3 : (bytes ".tmp").length = 4 := by decide
  simp only [List.length_append, List.length_cons, List.length_nil] at this h2
  omega

/-! ### lookup -/

theorem lookup_frame (dump hash : Str) (w : World) : Frame w (lookup dump hash w).2 := by
  unfold lookup
  simp only []
  split
  · exact ((osOpen_frame _ _).trans (fileRead_frame _ _ _)).trans (fileClose_frame _ _)
  · exact osOpen_frame _ _

@[simp] theorem lookup_fs (dump hash : Str) (w : World) : (lookup dump hash w).2.fs = w.fs := by
  unfold lookup; simp only []; split <;> simp

@[simp] theorem lookup_buf (dump hash : Str) (w : World) : (lookup dump hash w).2.buf = w.buf := by
  unfold lookup; simp only []; split <;> simp

/-- a hit means: the file exists and its first 64 bytes are the hash -/
theorem lookup_hit (dump hash : Str) (w : World) (h : (lookup dump hash w).1 = true) :
    ∃ c, w.fs dump = some c ∧ c.take 64 = hash ∧ 64 ≤ c.length := by
  by_cases ha : w.alive = true
  · unfold lookup at h
    simp only [] at h
    split at h
    · rename_i ho
      simp only [decide_eq_true_eq] at h
      obtain ⟨⟨h1, h2⟩, h3⟩ := h
      have hlen : (mkBuf 64).length = 64 := by simp [mkBuf]
      rw [fileRead_len, hlen] at h2
      obtain ⟨c, hc, hr, hl⟩ := fileRead_full _ (mkBuf 64) _ (by rw [hlen]; decide) h1 (by rw [hlen]; exact h2)
      rw [osOpen_ok _ _ ha ho, osOpen_fs] at hc
      rw [hlen] at hr hl
      exact ⟨c, hc, by rw [h3, hr], hl⟩
    · simp at h
  · have hd : w.alive = false := by simpa using ha
    unfold lookup at h
    simp [osOpen_dead _ hd, fileRead_dead _ hd, fileClose_dead _ hd, mkBuf] at h

/-! ### store -/

theorem cleanup_frame (f : File) (w : World) : Frame w (cleanup f w) := by
  unfold cleanup deferred
  exact (fileClose_frame _ _).trans (osRemove_frame _ _)

theorem cleanup_fs_ne (f : File) (w : World) (p : Str) (h : p ≠ f.name) : (cleanup f w).fs p = w.fs p := by
  unfold cleanup deferred
  rw [osRemove_fs_ne _ _ _ h, fileClose_fs]

theorem store_dead (binary dump hash : Str) (w : World) (hd : w.alive = false) :
    (store binary dump hash w).2 = w := by
  unfold store cleanup deferred
  simp [osCreateTemp_dead _ hd, writeString_dead _ hd, cmdRun_dead _ hd, flush_dead _ hd, fileClose_dead _ hd,
    osRename_dead _ hd, osRemove_dead _ hd, logPrintln_dead _ hd]

/-- **What `store` can do to the cache path**: it leaves it alone — and then, unless the process was
    killed, it reports an error — or it has put there exactly `hash ++ "\n" ++ listing` and returns
    that path. -/
theorem store_main (binary dump hash : Str) (w : World) (hb : w.buf = []) (hs : 47 ∈ dump) :
    ((store binary dump hash w).2.fs dump = w.fs dump ∧
      (w.env.crashAt = none → w.alive = true → (store binary dump hash w).1.2 ≠ .nil)) ∨
    ((store binary dump hash w).2.fs dump = some (hash ++ bytes "\n" ++ w.env.listing) ∧
      (store binary dump hash w).1 = (dump, .nil)) := by
  by_cases ha : w.alive = true
  case neg =>
    have hd : w.alive = false := by simpa using ha
    left
    rw [store_dead _ _ _ _ hd]
    exact ⟨rfl, fun _ h => absurd h ha⟩
  -- the temporary file
  have hne := tmp_ne_dump dump w.env.tmpSuffix hs
  have T1 := osCreateTemp_frame (dirOf dump) (baseOf dump ++ bytes ".tmp") w
  have T2 := osCreateTemp_fs_ne (dirOf dump) (baseOf dump ++ bytes ".tmp") w dump (Ne.symm hne)
  have T3 := osCreateTemp_ok (dirOf dump) (baseOf dump ++ bytes ".tmp") w ha
  unfold store
  simp only []
  generalize osCreateTemp (dirOf dump) (baseOf dump ++ bytes ".tmp") w = t at *
  by_cases ht : t.1.2 = .nil
  case neg =>
    left; rw [if_pos ht]; exact ⟨T2, fun _ _ => ht⟩
  rw [if_neg (fun hn => hn ht)]
  obtain ⟨T3a, T3b, T3c⟩ := T3 ht
  generalize htn : dirOf dump ++ [47] ++ (baseOf dump ++ bytes ".tmp") ++ w.env.tmpSuffix = tn at *
  have hfn : t.1.1.name = tn := by rw [T3a]
  have hdn : dump ≠ t.1.1.name := by rw [hfn]; exact Ne.symm hne
  have hdo : dump ≠ (newWriter t.1.1).file.name := hdn
  -- the header
  have H1 := writeString_frame (newWriter t.1.1) (hash ++ bytes "\n") t.2
  have H2 := writeString_fs_ne (newWriter t.1.1) (hash ++ bytes "\n") t.2 dump hdo
  have H3 := writeString_pend (newWriter t.1.1) (hash ++ bytes "\n") t.2
  generalize writeString (newWriter t.1.1) (hash ++ bytes "\n") t.2 = h at *
  by_cases hh : h.1.2 = .nil
  case neg =>
    left; rw [if_pos hh]
    refine ⟨by rw [cleanup_fs_ne _ _ _ hdn, H2, T2], fun _ _ => hh⟩
  rw [if_neg (fun hn => hn hh)]
  -- the disassembler
  generalize hcmd : ({ execCommand [bytes "go", bytes "tool", bytes "objdump", binary] with
      stdout := some (newWriter t.1.1) } : Cmd) = cmd
  have hco : cmd.stdout = some (newWriter t.1.1) := by rw [← hcmd]
  have R1 := cmdRun_frame cmd h.2
  have R2 := cmdRun_fs_ne cmd h.2 dump (fun o ho => by rw [hco] at ho; cases ho; exact hdo)
  have R3 := fun hal => cmdRun_pend cmd (newWriter t.1.1) h.2 hal hco
  generalize cmdRun cmd h.2 = r at *
  by_cases hr : r.1 = .nil
  case neg =>
    left; rw [if_pos hr]
    refine ⟨by rw [cleanup_fs_ne _ _ _ hdn, R2, H2, T2], fun _ _ => hr⟩
  rw [if_neg (fun hn => hn hr)]
  -- flush
  have F1 := flush_frame (newWriter t.1.1) r.2
  have F2 := flush_fs_ne (newWriter t.1.1) r.2 dump hdo
  have F3 := flush_complete (newWriter t.1.1) r.2
  generalize flush (newWriter t.1.1) r.2 = fl at *
  by_cases hfl : fl.1 = .nil
  case neg =>
    left; rw [if_pos hfl]
    refine ⟨by rw [cleanup_fs_ne _ _ _ hdn, F2, R2, H2, T2], fun _ _ => hfl⟩
  rw [if_neg (fun hn => hn hfl)]
  -- close
  have C1 := fileClose_frame t.1.1 fl.2
  have C2 := fileClose_fs t.1.1 fl.2
  generalize fileClose t.1.1 fl.2 = c at *
  by_cases hc : c.1 = .nil
  case neg =>
    left; rw [if_pos hc]
    refine ⟨by rw [cleanup_fs_ne _ _ _ hdn, C2, F2, R2, H2, T2], fun _ _ => hc⟩
  rw [if_neg (fun hn => hn hc)]
  -- rename
  have M1 := osRename_frame t.1.1.name dump c.2
  have M2 := osRename_target t.1.1.name dump c.2
  have M3 := osRename_nil_live t.1.1.name dump c.2
  generalize osRename t.1.1.name dump c.2 = mv at *
  have hdump_before : c.2.fs dump = w.fs dump := by rw [C2, F2, R2, H2, T2]
  by_cases hmv : mv.1 = .nil
  case neg =>
    left; rw [if_pos hmv]
    refine ⟨?_, fun _ _ => hmv⟩
    rw [cleanup_fs_ne _ _ _ hdn]
    rcases M2 with M2 | ⟨_, _, _, M2⟩
    · rw [M2, hdump_before]
    · exact absurd M2 hmv
  rw [if_neg (fun hn => hn hmv)]
  simp only
  rw [cleanup_fs_ne _ _ _ hdn, logPrintln_fs]
  by_cases hcl : c.2.alive = true
  case neg =>
    -- the process was dead before it could rename
    left
    have hd : c.2.alive = false := by simpa using hcl
    refine ⟨by rw [M1.dead hd, hdump_before], fun hnc hal => ?_⟩
    have a1 := T1.nocrash hnc hal
    have a2 := H1.nocrash (by rw [T1.env]; exact hnc) a1
    have a3 := R1.nocrash (by rw [H1.env, T1.env]; exact hnc) a2
    have a4 := F1.nocrash (by rw [R1.env, H1.env, T1.env]; exact hnc) a3
    have a5 := C1.nocrash (by rw [F1.env, R1.env, H1.env, T1.env]; exact hnc) a4
    exact absurd a5 hcl
  -- alive at the rename: alive all the way, and the temporary file is complete
  right
  have a4 := C1.mono hcl
  have a3 := F1.mono a4
  have a2 := R1.mono a3
  have a1 := H1.mono a2
  refine ⟨?_, trivial⟩
  rw [M3 hcl (Ne.symm hdn) hmv, C2]
  obtain ⟨F3a, _⟩ := F3 a3 hfl a4
  have hfile : (newWriter t.1.1).file.name = tn := hfn
  rw [hfile] at F3a H3 R3
  rw [hfn, F3a, R3 a2 hr, H3 a1, H1.env, T1.env]
  simp [pend, T3b, T3c, hb]

/-- `store` never leaves the cache path with anything but its old content or the complete file -/
theorem store_dump_cases (binary dump hash : Str) (w : World) (hb : w.buf = []) (hs : 47 ∈ dump) :
    (store binary dump hash w).2.fs dump = w.fs dump ∨
    (store binary dump hash w).2.fs dump = some (hash ++ bytes "\n" ++ w.env.listing) := by
  rcases store_main binary dump hash w hb hs with h | h
  · exact .inl h.1
  · exact .inr h.1

/-! ### the whole step -/

theorem lookup_dead (dump hash : Str) (w : World) (hd : w.alive = false) : lookup dump hash w = (false, w) := by
  unfold lookup
  simp [osOpen_dead _ hd, fileRead_dead _ hd, fileClose_dead _ hd, mkBuf]

theorem doObjdump_dead (binary hash : Str) (w : World) (hd : w.alive = false) :
    (doObjdump binary hash w).2 = w := by
  unfold doObjdump
  simp [cachedDumpFile_dead _ hd, lookup_dead _ _ _ hd, store_dead _ _ _ _ hd]

theorem isHex_ne_newline (b : Nat) (h : isHex b) : b ≠ 10 := by
  unfold isHex at h; omega

/-- a file written by a complete run claims nothing it does not hold -/
theorem complete_is_honest (L : Str → Str) (hash : Str) (hh : HashOK hash) (h : Str) (hv : IsHash h)
    (ht : (hash ++ bytes "\n" ++ L hash).take 64 = h) : hash ++ bytes "\n" ++ L hash = complete L h := by
  rcases hh with hh | hh
  · have : (hash ++ bytes "\n" ++ L hash).take 64 = hash := by
      rw [List.append_assoc, List.take_append_of_le_length (by rw [hh.1]; exact Nat.le_refl _), List.take_of_length_le (by rw [hh.1]; exact Nat.le_refl _)]
    rw [this] at ht
    rw [← ht]; rfl
  · subst hh
    have hb : bytes "\n" = [10] := by decide
    rw [hb] at ht
    simp only [List.nil_append, List.cons_append, List.take_succ_cons] at ht
    have : 10 ∈ h := by rw [← ht]; simp
    exact absurd rfl (isHex_ne_newline 10 (hv.2 10 this))

/-- **The invariant**: whatever happens during a run — any crash point, any I/O failure, any
    behaviour of the disassembler — the cache path stays honest. -/
theorem doObjdump_honest (L : Str → Str) (binary hash : Str) (w : World) (hb : w.buf = [])
    (hs : 47 ∈ w.env.dump) (hl : w.env.listing = L hash) (hh : HashOK hash)
    (hi : Honest L w.env.dump w.fs) : Honest L w.env.dump (doObjdump binary hash w).2.fs := by
  by_cases ha : w.alive = true
  case neg => rw [doObjdump_dead _ _ _ (by simpa using ha)]; exact hi
  have D1 := cachedDumpFile_frame binary w
  have D2 := cachedDumpFile_fs binary w
  have D3 := cachedDumpFile_buf binary w
  have D4 := cachedDumpFile_ok binary w ha
  unfold doObjdump
  simp only []
  generalize cachedDumpFile binary w = d at *
  by_cases hd : d.1.2 = .nil
  case neg => rw [if_pos hd]; simp only; rw [D2]; exact hi
  rw [if_neg (fun hn => hn hd), D4 hd]
  have L1 := lookup_frame w.env.dump hash d.2
  have L2 := lookup_fs w.env.dump hash d.2
  have L3 := lookup_buf w.env.dump hash d.2
  generalize lookup w.env.dump hash d.2 = l at *
  split
  · simp only; rw [logPrintln_fs, L2, D2]; exact hi
  · rcases store_dump_cases binary w.env.dump hash l.2 (by rw [L3, D3, hb]) hs with h | h
    · intro c hc; rw [h, L2, D2] at hc; exact hi c hc
    · intro c hc h' hv ht
      rw [h, L1.env, D1.env, hl] at hc
      cases hc
      exact complete_is_honest L hash hh h' hv ht

/-- **A normal run** (not killed; I/O errors and a failing disassembler are allowed) over an honest
    cache returns an error or the path of a file that is complete for the exact binary. -/
theorem doObjdump_ok_complete (L : Str → Str) (binary hash : Str) (w : World) (hb : w.buf = [])
    (ha : w.alive = true) (hnc : w.env.crashAt = none)
    (hs : 47 ∈ w.env.dump) (hl : w.env.listing = L hash) (hh : HashOK hash)
    (hi : Honest L w.env.dump w.fs) (hok : (doObjdump binary hash w).1.2 = .nil) :
    (doObjdump binary hash w).1.1 = w.env.dump ∧
    (doObjdump binary hash w).2.fs w.env.dump = some (complete L hash) := by
  have D1 := cachedDumpFile_frame binary w
  have D2 := cachedDumpFile_fs binary w
  have D3 := cachedDumpFile_buf binary w
  have D4 := cachedDumpFile_ok binary w ha
  unfold doObjdump at hok ⊢
  simp only [] at hok ⊢
  generalize cachedDumpFile binary w = d at *
  by_cases hd : d.1.2 = .nil
  case neg => rw [if_pos hd] at hok; exact absurd hok hd
  rw [if_neg (fun hn => hn hd), D4 hd] at hok ⊢
  have L1 := lookup_frame w.env.dump hash d.2
  have L2 := lookup_fs w.env.dump hash d.2
  have L3 := lookup_buf w.env.dump hash d.2
  have L4 := lookup_hit w.env.dump hash d.2
  generalize lookup w.env.dump hash d.2 = l at *
  by_cases hit : l.1 = true
  · rw [if_pos hit]
    refine ⟨rfl, ?_⟩
    simp only; rw [logPrintln_fs, L2, D2]
    obtain ⟨c, hc, ht, hlen⟩ := L4 hit
    rw [D2] at hc
    rw [hc]
    rcases hh with hh | hh
    · rw [hi c hc hash hh ht]
    · subst hh
      have : (c.take 64).length = 64 := by rw [List.length_take]; omega
      rw [ht] at this; simp at this
  · rw [if_neg hit] at hok ⊢
    rcases store_main binary w.env.dump hash l.2 (by rw [L3, D3, hb]) hs with ⟨_, h⟩ | ⟨h1, h2⟩
    · have a1 := D1.nocrash hnc ha
      have a2 := L1.nocrash (by rw [D1.env]; exact hnc) a1
      exact absurd hok (h (by rw [L1.env, D1.env]; exact hnc) a2)
    · rw [h2, h1, L1.env, D1.env, hl]
      exact ⟨rfl, rfl⟩

end CacheSpec
