import Seccomp.Proofs.Lemmas.GroupCompiled

theorem drop_to_last (xs : List Instr) (x : Instr) (y : Instr) :
    (y :: (xs ++ [x])).drop (xs ++ [x]).length = [x] := by
  have : (y :: (xs ++ [x])) = (y :: xs) ++ [x] := by simp
  rw [this, List.length_append, List.length_singleton, List.drop_append_of_le_length (by simp)]
  simp

/-- the prologue: foreign architectures get the default, x32 numbers get ENOSYS on x86_64, everything
    else reaches the rules with the syscall number in the accumulator — for every program length -/
theorem prologue_spec (w : Nat → Word) (ar : ArchI) (pre : List Instr) (d : Word) (a0 : Word) :
    run w (policyProg ar (pre ++ [.ret d])) a0 =
      if w 4 ≠ ar.id then .ret d
      else if ar.x86 = true ∧ x32Bit.ule (w 0) = true then .ret enosys
      else run w (pre ++ [.ret d]) (w 0) := by
  unfold policyProg
  simp only
  have hrest : x32Filter ar.x86 ++ (pre ++ [Instr.ret d]) = (x32Filter ar.x86 ++ pre) ++ [Instr.ret d] := by simp
  have hx : ∀ a, run w ([Instr.ld 0] ++ (x32Filter ar.x86 ++ (pre ++ [Instr.ret d]))) a =
      if ar.x86 = true ∧ x32Bit.ule (w 0) = true then .ret enosys else run w (pre ++ [.ret d]) (w 0) := by
    intro a
    simp only [List.cons_append, List.nil_append, run_ld]
    unfold x32Filter
    cases ar.x86 with
    | false => simp
    | true =>
      simp only [if_true, List.cons_append, List.nil_append, run_jif, Cond.eval, true_and]
      by_cases h : x32Bit.ule (w 0) = true
      · simp [h, run_ret]
      · simp [h]
  by_cases harch : w 4 = ar.id
  · -- own architecture
    simp only [harch, ne_eq, not_true_eq_false, if_false]
    split
    · simp only [List.cons_append, List.nil_append, run_ld, run_jif, Cond.eval, harch, bne_self_eq_false,
        Bool.false_eq_true, if_false, List.drop_zero]
      simpa [run_ld] using hx (w 4)
    · simp only [List.cons_append, List.nil_append, run_ld, run_jif, Cond.eval, harch, beq_self_eq_true, if_true,
        List.drop_succ_cons, List.drop_zero]
      simpa [run_ld] using hx (w 4)
  · -- foreign architecture: land on the final return
    simp only [ne_eq, harch, not_false_eq_true, if_true]
    have hne : (w 4 != ar.id) = true := by simpa [bne] using harch
    have heq : (w 4 == ar.id) = false := by simpa using harch
    split
    · simp only [List.cons_append, List.nil_append, run_ld, run_jif, Cond.eval, hne, if_true]
      rw [hrest, drop_to_last, run_ret]
    · simp only [List.cons_append, List.nil_append, run_ld, run_jif, Cond.eval, heq, Bool.false_eq_true, if_false,
        List.drop_zero, run_ja]
      rw [hrest, drop_to_last, run_ret]
#print axioms prologue_spec
