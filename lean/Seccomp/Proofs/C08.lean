import Seccomp.Proofs.Lemmas.RawLemmas
import Seccomp.Proofs.C01
/-!
# C08 — the installed filter enforces the policy on the running kernel  (partial)

What is proved: the raw encoding (`bpf.Assemble`, modelled by `encode`) means to the kernel's
interpreter (modelled by `runRaw`) exactly what the instruction list means, hence the kernel's
decision for every event is the specification's; the action classes the property names.
What is modelled, not verified: the kernel's classic-BPF interpreter and action handling
(`runRaw`, `outcome`) — the live correspondence loads generated policies through the real
`LoadFilter` and compares the kernel's observable decisions (success / EPERM / death by SIGSYS) with
`Spec.decision`, and the hook captures the exact array and length handed to the kernel.
-/

namespace C08

/-- **Encoding preserves meaning**: the kernel's interpretation of the encoded program equals the
    meaning of the instruction list (the flipped encodings of `≠ < ≤ ¬set` included). -/
theorem encode_preserves_meaning (w : Nat → Word) (prog : List Instr) (a : Word) :
    runRaw w (prog.map encode) a = run w prog a :=
  runRaw_encode w prog.length prog a rfl

/-- **The kernel's decision is the policy's**, for every accepted policy, both byte orders and every
    event (all 32-bit numbers, all argument values). -/
theorem kernel_decision_eq_spec (A : ArchInfo) (e : Endian) (p : Policy) (prog : List Instr)
    (h : assemblePolicy (some A) (Layout.ofEndian e) p = .ok prog) (ev : Event) (a0 : Word) :
    runRaw (words e ev) (prog.map encode) a0 = .ret (Spec.decision A p ev) := by
  rw [encode_preserves_meaning, C01.compile_correct A e p prog h ev a0]

/-- the raw image has the program's length, and the 16-bit length field of `sock_fprog` holds it for
    every program the kernel can accept -/
theorem image_length (prog : List Instr) (hlen : prog.length ≤ 4096) :
    (prog.map encode).length = prog.length ∧ prog.length % 65536 = prog.length := by
  refine ⟨List.length_map _, ?_⟩
  omega

/-- the encoding loses nothing: the instruction can be read back from the raw form -/
def decode (r : RawInsn) : Option Instr :=
  if r.op = opLdAbsW then some (.ld r.k)
  else if r.op = opRetK then some (.ret (BitVec.ofNat 32 r.k))
  else if r.op = opJa then some (.ja r.k)
  else if r.op = opJeqK then some (.jif .eq (BitVec.ofNat 32 r.k) r.jt r.jf)
  else if r.op = opJgtK then some (.jif .gt (BitVec.ofNat 32 r.k) r.jt r.jf)
  else if r.op = opJgeK then some (.jif .ge (BitVec.ofNat 32 r.k) r.jt r.jf)
  else if r.op = opJsetK then some (.jif .set (BitVec.ofNat 32 r.k) r.jt r.jf)
  else none

/-- what the kernel does with a filter's return value (SECCOMP_RET_ACTION_FULL / SECCOMP_RET_DATA) -/
inductive Outcome where
  | allow | log | errno (e : Nat) | trap | trace | killThread | killProcess | userNotif | other
deriving DecidableEq, Repr

def outcome (v : Word) : Outcome :=
  let act := v &&& 0xffff0000#32
  if act = actAllow then .allow
  else if act = actLog then .log
  else if act = actErrno then .errno (v &&& 0xffff#32).toNat
  else if act = actTrap then .trap
  else if act = actTrace then .trace
  else if act = actKillThread then .killThread
  else if act = actKillProcess then .killProcess
  else if act = 0x7fc00000#32 then .userNotif
  else .other

/-- **The observable classes the property names**: an `errno` action makes the probe fail with EPERM,
    `allow` lets it through, `kill_process` kills; the x32 guard answers ENOSYS. -/
theorem outcome_classes :
    outcome (enc actErrno) = .errno 1 ∧ outcome (enc actAllow) = .allow ∧
    outcome (enc actKillProcess) = .killProcess ∧ outcome (enc actKillThread) = .killThread ∧
    outcome (enc actLog) = .log ∧ outcome (enc actTrap) = .trap ∧ outcome (enc actTrace) = .trace ∧
    outcome Spec.enosys = .errno 38 := by decide

/-- a flipped test read back from its encoding is the complementary test with swapped skips: same meaning -/
theorem flipped_encoding_example :
    decode (encode (.jif .ne 7#32 3 5)) = some (.jif .eq 7#32 5 3) ∧
    decode (encode (.jif .lt 7#32 3 5)) = some (.jif .ge 7#32 5 3) := by decide

end C08
