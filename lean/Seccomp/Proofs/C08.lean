import Seccomp.Proofs.Lemmas.RawLemmas
import Seccomp.Proofs.Lemmas.ChainLemmas
import Seccomp.Proofs.C01
/-!
# C08 — the installed filter enforces the policy on the running kernel  (partial)

What is proved: the raw encoding (`bpf.Assemble`, modelled by `encode`) means to the kernel's
interpreter (modelled by `runRaw`) exactly what the instruction list means, hence the kernel's
decision for every event is the specification's; the action classes the property names.
What is modelled, not verified: the kernel's classic-BPF interpreter and action handling
(`runRaw`, `outcome`) — the live correspondence loads generated policies through the real
`LoadFilter` and compares the kernel's observable decisions (success / EPERM / death by SIGSYS) with
`Spec.decision`, and the hook captures the exact array and length handed to the kernel.
-/

namespace C08

/-- **Encoding preserves meaning**: the kernel's interpretation of the encoded program equals the
    meaning of the instruction list (the flipped encodings of `≠ < ≤ ¬set` included). -/
theorem encode_preserves_meaning (w : Nat → Word) (prog : List Instr) (a : Word) :
    runRaw w (prog.map encode) a = run w prog a :=
  runRaw_encode w prog.length prog a rfl

/-- **The kernel's decision is the policy's**, for every accepted policy, both byte orders and every
    event (all 32-bit numbers, all argument values). -/
theorem kernel_decision_eq_spec (A : ArchInfo) (e : Endian) (p : Policy) (prog : List Instr)
    (h : assemblePolicy (some A) (Layout.ofEndian e) p = .ok prog) (ev : Event) (a0 : Word) :
    runRaw (words e ev) (prog.map encode) a0 = .ret (Spec.decision A p ev) := by
  rw [encode_preserves_meaning, C01.compile_correct A e p prog h ev a0]

/-- the raw image has the program's length, and the 16-bit length field of `sock_fprog` holds it for
    every program the kernel can accept -/
theorem image_length (prog : List Instr) (hlen : prog.length ≤ 4096) :
    (prog.map encode).length = prog.length ∧ prog.length % 65536 = prog.length := by
  refine ⟨List.length_map _, ?_⟩
  omega

/-- the encoding loses nothing: the instruction can be read back from the raw form -/
def decode (r : RawInsn) : Option Instr :=
  if r.op = opLdAbsW then some (.ld r.k)
  else if r.op = opRetK then some (.ret (BitVec.ofNat 32 r.k))
  else if r.op = opJa then some (.ja r.k)
  else if r.op = opJeqK then some (.jif .eq (BitVec.ofNat 32 r.k) r.jt r.jf)
  else if r.op = opJgtK then some (.jif .gt (BitVec.ofNat 32 r.k) r.jt r.jf)
  else if r.op = opJgeK then some (.jif .ge (BitVec.ofNat 32 r.k) r.jt r.jf)
  else if r.op = opJsetK then some (.jif .set (BitVec.ofNat 32 r.k) r.jt r.jf)
  else none

/-- what the kernel does with a filter's return value (SECCOMP_RET_ACTION_FULL / SECCOMP_RET_DATA) -/
inductive Outcome where
  | allow | log | errno (e : Nat) | trap | trace | killThread | killProcess | userNotif | other
deriving DecidableEq, Repr

def outcome (v : Word) : Outcome :=
  let act := v &&& 0xffff0000#32
  if act = actAllow then .allow
  else if act = actLog then .log
  else if act = actErrno then .errno (v &&& 0xffff#32).toNat
  else if act = actTrap then .trap
  else if act = actTrace then .trace
  else if act = actKillThread then .killThread
  else if act = actKillProcess then .killProcess
  else if act = 0x7fc00000#32 then .userNotif
  else .other

/-- **The observable classes the property names**: an `errno` action makes the probe fail with EPERM,
    `allow` lets it through, `kill_process` kills; the x32 guard answers ENOSYS. -/
theorem outcome_classes :
    outcome (enc actErrno) = .errno 1 ∧ outcome (enc actAllow) = .allow ∧
    outcome (enc actKillProcess) = .killProcess ∧ outcome (enc actKillThread) = .killThread ∧
    outcome (enc actLog) = .log ∧ outcome (enc actTrap) = .trap ∧ outcome (enc actTrace) = .trace ∧
    outcome Spec.enosys = .errno 38 := by decide

/-- a flipped test read back from its encoding is the complementary test with swapped skips: same meaning -/
theorem flipped_encoding_example :
    decode (encode (.jif .ne 7#32 3 5)) = some (.jif .eq 7#32 5 3) ∧
    decode (encode (.jif .lt 7#32 3 5)) = some (.jif .ge 7#32 5 3) := by decide


/-! ## Several filters on one thread (`seccomp_run_filters`, `Model/Chain.lean`)

A load history that succeeds more than once leaves a *chain* of filters; the kernel runs all of them and
keeps the most restrictive answer.  The theorems below say what the property's "the kernel's decisions equal
the policy's" becomes for such histories: the decision is the chain of the policies' decisions, a single
filter decides alone, and no earlier or later filter can make any policy's answer more permissive. -/

open Chain in
/-- the order of the actions the kernel uses: kill_process < kill_thread < trap < errno < user_notif <
    trace < log < allow -/
theorem chain_precedence :
    actionOnly actKillProcess < actionOnly actKillThread ∧ actionOnly actKillThread < actionOnly actTrap ∧
    actionOnly actTrap < actionOnly actErrno ∧ actionOnly actErrno < actionOnly 0x7fc00000#32 ∧
    actionOnly 0x7fc00000#32 < actionOnly actTrace ∧ actionOnly actTrace < actionOnly actLog ∧
    actionOnly actLog < actionOnly actAllow ∧ actAllow = retAllow := by decide

/-- every filter of the chain returns its policy's decision (any number of filters, any policies;
    `pp` pairs each loaded policy with the program compiled from it) -/
theorem kernel_chain_values (A : ArchInfo) (e : Endian) (pp : List (Policy × List Instr))
    (h : ∀ x ∈ pp, assemblePolicy (some A) (Layout.ofEndian e) x.1 = .ok x.2)
    (ev : Event) (a0 : Word) :
    pp.map (fun x => runRaw (words e ev) (x.2.map encode) a0) =
      pp.map (fun x => Result.ret (Spec.decision A x.1 ev)) := by
  apply List.map_congr_left
  intro x hx
  exact kernel_decision_eq_spec A e x.1 x.2 (h x hx) ev a0

/-- the decision of a chain of policies (newest first) -/
def chainDecision (A : ArchInfo) (ps : List Policy) (ev : Event) : Word :=
  Chain.chain (ps.map (fun p => Spec.decision A p ev))

/-- **One filter decides alone**: with a single filter the observable outcome is the policy's. -/
theorem chain_single_outcome (v : Word) : outcome (Chain.chain [v]) = outcome v := by
  unfold Chain.chain Chain.runFrom Chain.runFrom Chain.keep
  split
  · rfl
  · rename_i h
    have hm := Chain.mask_eq_allow_of_not_lt v h
    have h1 : outcome v = .allow := by
      unfold outcome
      have : v &&& 0xffff0000#32 = actAllow := hm
      simp only [this, if_true]
    rw [h1]; decide

/-- **Stacking never loosens**: the chain's answer is at most as permissive as every single filter's. -/
theorem chain_never_more_permissive (vs : List Word) (v : Word) (h : v ∈ vs) :
    Chain.actionOnly (Chain.chain vs) ≤ Chain.actionOnly v :=
  Chain.runFrom_le_mem _ vs v h

/-- for policies: whatever else is loaded before or after, an event is never answered more permissively
    than policy `p` (a member of the chain) answers it -/
theorem chain_enforces_each_policy (A : ArchInfo) (ps : List Policy) (p : Policy) (hp : p ∈ ps) (ev : Event) :
    Chain.actionOnly (chainDecision A ps ev) ≤ Chain.actionOnly (Spec.decision A p ev) :=
  chain_never_more_permissive _ _ (List.mem_map.mpr ⟨p, hp, rfl⟩)

/-- the chain's answer is the answer of one of its filters, or `allow` -/
theorem chain_value_from_a_filter (vs : List Word) : Chain.chain vs = Chain.retAllow ∨ Chain.chain vs ∈ vs :=
  Chain.runFrom_mem _ vs

/-- one more (newer) filter can only lower the answer -/
theorem chain_cons_le (v : Word) (vs : List Word) :
    Chain.actionOnly (Chain.chain (v :: vs)) ≤ Chain.actionOnly (Chain.chain vs) := by
  unfold Chain.chain
  simp only [Chain.runFrom]
  exact Chain.runFrom_mono _ _ vs (Chain.keep_le_left _ _)

/-- filters that all allow leave the event allowed -/
theorem chain_all_allow (vs : List Word) (h : ∀ v ∈ vs, Chain.actionOnly v = Chain.actionOnly Chain.retAllow) :
    Chain.chain vs = Chain.retAllow := by
  rcases chain_value_from_a_filter vs with h1 | h1
  · exact h1
  · -- the kept value would have to be strictly below `allow`
    unfold Chain.chain at h1 ⊢
    generalize hr : Chain.retAllow = r at h1 ⊢
    have hall : ∀ v ∈ vs, ¬ Chain.actionOnly v < Chain.actionOnly r := by
      intro v hv; rw [← hr, h v hv]; omega
    clear h h1
    induction vs generalizing r with
    | nil => rfl
    | cons c older ih =>
      simp only [Chain.runFrom]
      have hk : Chain.keep r c = r := by
        unfold Chain.keep; rw [if_neg (hall c List.mem_cons_self)]
      rw [hk]
      exact ih r hr (fun v hv => hall v (List.mem_cons_of_mem _ hv))

/-- among equal actions the newest filter's value is kept (its errno is what the caller sees), and a
    killing filter wins wherever it stands -/
theorem chain_examples :
    Chain.chain [actErrno ||| 13#32, actErrno ||| 2#32] = actErrno ||| 13#32 ∧
    Chain.chain [actAllow, actErrno ||| 1#32, actLog] = actErrno ||| 1#32 ∧
    Chain.chain [actErrno ||| 1#32, actKillProcess, actAllow] = actKillProcess ∧
    Chain.chain [] = actAllow := by decide

/-! ## The 16-bit length field of `sock_fprog`

`LoadFilter` stores `uint16(len(program))`.  For a program of 65536 instructions or more the kernel is therefore shown
only a prefix (`len mod 65536` instructions, possibly none).  The theorem says that no such prefix can be attached:
whatever its length, the kernel's checker refuses it — the long form of the architecture jump (`ja jumpN`, third
instruction, `jumpN ≥ 65532`) points far beyond any prefix the kernel would take (≤ 4096 instructions), and a prefix
shorter than that jump does not end in a return.  So an oversize policy can only fail to load (C09), never install a
truncated filter. -/

theorem assemblePolicy_shape (A : ArchInfo) (ly : Layout) (p : Policy) (prog : List Instr)
    (h : assemblePolicy (some A) ly p = .ok prog) : ∃ body, prog = policyProg A.archI body := by
  unfold assemblePolicy at h
  split at h
  · cases h
  · split at h
    · cases h
    · simp only at h
      split at h
      · cases h
      · cases h
        exact ⟨_, rfl⟩

theorem policyProg_prefix_rejected (ar : ArchI) (body : List Instr) (k : Nat)
    (hlen : 65536 ≤ (policyProg ar body).length) (hk : k ≤ 4096) :
    kernelAccepts (((policyProg ar body).map encode).take k) = false := by
  unfold policyProg at hlen ⊢
  generalize x32Filter ar.x86 ++ body = rest at hlen ⊢
  simp only at hlen ⊢
  by_cases hshort : rest.length ≤ 255
  · rw [if_pos hshort] at hlen
    simp at hlen
    omega
  · rw [if_neg hshort] at hlen ⊢
    simp only [List.cons_append, List.nil_append, List.length_cons] at hlen
    simp only [List.cons_append, List.nil_append, List.map_cons]
    match k, hk with
    | 0, _ => simp [kernelAccepts]
    | 1, _ => simp [kernelAccepts, lastIsRet, encode, opRetK, opLdAbsW]
    | 2, _ => simp [kernelAccepts, lastIsRet, encode, opRetK, opJeqK]
    | k+3, hk =>
      simp only [List.take_succ_cons]
      unfold kernelAccepts
      have : allInsnOk (encode (Instr.ld 4) :: encode (Instr.jif Cond.eq ar.id 1 0) :: encode (Instr.ja rest.length) ::
          List.take k (encode (Instr.ld 0) :: List.map encode rest)) = false := by
        simp only [allInsnOk, Bool.and_eq_false_iff]
        right; right; left
        simp only [insnOk, encode, opJa, opLdAbsW, opRetK]
        have hl : (List.take k (encode (Instr.ld 0) :: List.map encode rest)).length ≤ k := List.length_take_le _ _
        simp
        omega
      simp [this]

/-- **A wrapped length never installs a truncated filter**: for every accepted policy whose program has 65536
    instructions or more, every prefix the kernel could be shown (any `k ≤ 4096`, in particular
    `k = prog.length % 65536` when that is small) is refused by the kernel's checker. -/
theorem wrapped_length_prefix_rejected (A : ArchInfo) (e : Endian) (p : Policy) (prog : List Instr)
    (h : assemblePolicy (some A) (Layout.ofEndian e) p = .ok prog) (hlen : 65536 ≤ prog.length)
    (k : Nat) (hk : k ≤ 4096) : kernelAccepts ((prog.map encode).take k) = false := by
  obtain ⟨body, rfl⟩ := assemblePolicy_shape A _ p prog h
  exact policyProg_prefix_rejected _ body k hlen hk

/-- … and a prefix longer than 4096 instructions is refused for its length alone -/
theorem long_prefix_rejected (raw : List RawInsn) (h : 4096 < raw.length) : kernelAccepts raw = false := by
  unfold kernelAccepts
  have : decide (raw.length ≤ 4096) = false := by simp; omega
  simp [this]

end C08
