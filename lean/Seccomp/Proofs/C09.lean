import Seccomp.Proofs.Lemmas.LoadFilterLemmas
import Seccomp.Proofs.Lemmas.ChainLemmas
/-!
# C09 — a nil load result means the filter is in force; failed loads leave none behind

All theorems are about `Gen.loadFilter` / `Gen.supported`, the Lean rendering of `LoadFilter` and
`Supported` that `vextract` regenerates from seccomp_linux.go on every run, executed against the
abstract kernel of `Model/Kernel.lean`.  They hold for every world (thread set, chains, privileges),
every schedule oracle, every filter, and every behaviour `U` of statements outside the translated
subset (there are none on the current tree: `Gen.skeletonNotes = []`).
-/

namespace C09

/-- **nil ⇒ in force.**  If `LoadFilter` returns nil, the policy assembled, and its program heads the
    filter chain of the thread the call ran on — and of every live thread if thread-sync was in the
    flag word. -/
theorem load_nil_implies_installed (U : Unsupported) (filter : Filter) (w w' : World)
    (hc : w.cur ∈ w.live) (h : Gen.loadFilter U filter w = (GoErr.nil, w')) :
    ∃ p, filter.policy = .prog p ∧
      (w'.thr w'.cur).filters.head? = some p.id ∧
      (filter.flag &&& FLAG_TSYNC ≠ 0 → ∀ t ∈ w'.live, (w'.thr t).filters.head? = some p.id) := by
  cases hpol : filter.policy with
  | assembleFails =>
    have := (gen_loadFilter_noprog U filter (by simp [hpol]) w).1
    rw [h] at this; exact absurd rfl this
  | encodeFails =>
    have := (gen_loadFilter_noprog U filter (by simp [hpol]) w).1
    rw [h] at this; exact absurd rfl this
  | prog p =>
    refine ⟨p, rfl, ?_⟩
    by_cases hf : nnpFault filter w
    · rw [gen_loadFilter_fault U filter p hpol w hf] at h
      simp only [Prod.mk.injEq] at h
      exact absurd h.1 (by simp)
    obtain ⟨msg, hmsg, heq⟩ := gen_loadFilter_prog U filter p hpol w hf
    rw [heq] at h
    simp only [Prod.mk.injEq] at h
    obtain ⟨h1, h2⟩ := h
    have hnil : (Gen.seccomp U 1 filter.flag (mkFprog (.prog p)) (preInstall filter w)).1 = GoErr.nil := by
      by_cases hc : (Gen.seccomp U 1 filter.flag (mkFprog (.prog p)) (preInstall filter w)).1 = GoErr.nil
      · exact hc
      · rw [if_pos hc] at h1; exact absurd h1 (hmsg _)
    have hs : Gen.seccomp U 1 filter.flag (mkFprog (.prog p)) (preInstall filter w) =
        (GoErr.nil, (Gen.seccomp U 1 filter.flag (mkFprog (.prog p)) (preInstall filter w)).2) := by
      rw [← hnil]
    obtain ⟨q, hq, _, _, _, _, _, hw⟩ := gen_seccomp_nil hs
    have hqid : q.id = p.id := by
      simp only [mkFprog, Option.some.injEq] at hq; rw [← hq]
    subst h2
    rw [atReturn_thr, atReturn_cur, atReturn_live]
    rcases hw with ⟨hts, hw⟩ | ⟨hts, hw⟩
    · rw [hw]
      refine ⟨by simp [hqid], fun h' => absurd hts h'⟩
    · rw [hw]
      simp only
      refine ⟨?_, fun _ t ht => ?_⟩
      · -- the calling thread is alive … or not: in both cases look at what the kernel wrote
        by_cases hl : (schedStep (preInstall filter w)).cur ∈ (preInstall filter w).live
        · simp [hl, hqid]
        · have := schedStep_cur_live (preInstall filter w) (by rw [preInstall_cur, preInstall_live]; exact hc)
          exact absurd (by simpa [schedStep_live] using this) hl
      · have ht' : t ∈ (preInstall filter w).live := by simpa [schedStep_live] using ht
        simp [ht', hqid]

/-- the thread on which `LoadFilter` issues the seccomp call -/
def callThread (filter : Filter) (w : World) : Tid := (schedStep (preInstall filter w)).cur

/-- **A failed load leaves no filter behind**: whenever the result is not nil, every thread's filter
    chain is what it was before the call. -/
theorem failed_load_attaches_nothing (U : Unsupported) (filter : Filter) (w : World)
    (h : (Gen.loadFilter U filter w).1 ≠ GoErr.nil) :
    ∀ t, ((Gen.loadFilter U filter w).2.thr t).filters = (w.thr t).filters := by
  intro t
  cases hpol : filter.policy with
  | assembleFails => rw [(gen_loadFilter_noprog U filter (by simp [hpol]) w).2]
  | encodeFails => rw [(gen_loadFilter_noprog U filter (by simp [hpol]) w).2]
  | prog p =>
    by_cases hf : nnpFault filter w
    · rw [gen_loadFilter_fault U filter p hpol w hf]
      simp only
      rw [atReturn_thr]
      exact preInstall_filters filter w t
    obtain ⟨msg, hmsg, heq⟩ := gen_loadFilter_prog U filter p hpol w hf
    rw [heq] at h ⊢
    simp only at h ⊢
    generalize hr : Gen.seccomp U 1 filter.flag (mkFprog (.prog p)) (preInstall filter w) = r at h ⊢
    obtain ⟨err, w2⟩ := r
    simp only at h ⊢
    have hne : err ≠ GoErr.nil := by
      intro hc; rw [hc] at h; simp at h
    have := gen_seccomp_err hr hne
    rw [atReturn_thr, this]
    simp only [schedStep_thr]
    exact preInstall_filters filter w t

/-- **Every way the kernel declines is reported**: unknown flag bits, a program the verifier rejects
    (or of length 0 / above 4096 after the 16-bit length field), a kernel without the seccomp
    syscall (ENOSYS), missing privilege (no no_new_privs on
    the calling thread and no CAP_SYS_ADMIN), and a thread-sync refused because another thread carries a
    chain that is not an ancestor of the caller's — each gives a non-nil error. -/
theorem kernel_refusal_is_error (U : Unsupported) (filter : Filter) (p : Prog) (hp : filter.policy = .prog p)
    (w : World)
    (hwhy : filter.flag &&& knownFlags ≠ filter.flag ∨
      p.ok = false ∨ p.len % 65536 = 0 ∨ p.len % 65536 > BPF_MAXINSNS ∨
      (((preInstall filter w).thr (callThread filter w)).nnp = false ∧ w.privileged = false) ∨
      (filter.flag &&& FLAG_TSYNC ≠ 0 ∧ ∃ t ∈ w.live, t ≠ callThread filter w ∧
        (w.thr t).filters.isSuffixOf (w.thr (callThread filter w)).filters = false) ∨
      w.seccompAvailable = false) :
    (Gen.loadFilter U filter w).1 ≠ GoErr.nil := by
  by_cases hf : nnpFault filter w
  · rw [gen_loadFilter_fault U filter p hp w hf]; simp
  obtain ⟨msg, hmsg, heq⟩ := gen_loadFilter_prog U filter p hp w hf
  rw [heq]
  simp only
  have hd : (Gen.seccomp U 1 filter.flag (mkFprog (.prog p)) (preInstall filter w)).1 ≠ GoErr.nil := by
    apply gen_seccomp_declines
    rcases hwhy with h | h | h | h | ⟨h1, h2⟩ | ⟨h1, t, ht, htc, hdiv⟩ | hna
    · exact .inl h
    · exact .inr (.inr (.inl ⟨_, rfl, .inl h⟩))
    · exact .inr (.inr (.inl ⟨_, rfl, .inr (.inl h)⟩))
    · exact .inr (.inr (.inl ⟨_, rfl, .inr (.inr h)⟩))
    · refine .inr (.inr (.inr (.inl ⟨?_, by rw [preInstall_priv]; exact h2⟩)))
      simpa [schedStep_thr, callThread] using h1
    · refine .inr (.inr (.inr (.inr (.inl ⟨h1, t, by rw [preInstall_live]; exact ht, htc, ?_⟩))))
      rw [preInstall_filters, preInstall_filters]; exact hdiv
    · exact .inr (.inr (.inr (.inr (.inr (by rw [preInstall_avail]; exact hna)))))
  rw [if_pos hd]
  exact hmsg _

/-- **A refused `prctl` is reported too, and `seccomp` is then never called**: if no_new_privs is requested
    on a kernel that refuses the option, the result is a non-nil error carrying the kernel's errno, no
    thread's state changes (no filter, no bit), and the only kernel call made is the `prctl`. -/
theorem nnp_refusal_is_error (U : Unsupported) (filter : Filter) (p : Prog) (hp : filter.policy = .prog p)
    (w : World) (hn : filter.noNewPrivs = true) (ha : w.nnpAvailable = false) :
    (Gen.loadFilter U filter w).1.cls = .errno EINVAL ∧
    (Gen.loadFilter U filter w).2.thr = w.thr ∧
    (Gen.loadFilter U filter w).2.log = .prctl w.cur 38 1 0 0 0 :: w.log ∧
    (Gen.loadFilter U filter w).2.lockCount = w.lockCount := by
  rw [gen_loadFilter_fault U filter p hp w ⟨hn, ha⟩]
  refine ⟨by simp [GoErr.cls, EINVAL], ?_, ?_, ?_⟩
  · simp only; rw [atReturn_thr, preInstall_thr_fault _ _ ⟨hn, ha⟩]
  · simp only; rw [atReturn_log, preInstall_fault _ _ hn ha]
  · simp only [atReturn, hn, if_true, preInstall_fault _ _ hn ha]
    simp [unlockOSThread, lockOSThread]

/-- **A load that fails before reaching the kernel changes nothing**: no filter, no no_new_privs bit,
    no kernel call at all (the world, including its call log, is the same). -/
theorem failed_assemble_leaves_nothing (U : Unsupported) (filter : Filter) (w : World)
    (hp : filter.policy = .assembleFails ∨ filter.policy = .encodeFails) :
    (Gen.loadFilter U filter w).1 ≠ GoErr.nil ∧ (Gen.loadFilter U filter w).2 = w :=
  gen_loadFilter_noprog U filter (by rcases hp with h | h <;> simp [h]) w

/-- **Probing for support never changes process state**: `Supported()` issues strict mode with flags 1,
    which a kernel that has the
    syscall answers EINVAL (and one that has not, ENOSYS; one where a profile denies it, EPERM or EACCES —
    every `World.refusal`): it reports exactly whether the syscall is usable, and no thread's state is
    touched, whatever the errno of the refusal. -/
theorem probe_pure (U : Unsupported) (w : World) :
    (Gen.supported U w).1 = w.seccompAvailable ∧ (Gen.supported U w).2.thr = w.thr ∧
      (Gen.supported U w).2.live = w.live := by
  rw [gen_supported_char, sysSeccomp_probe]
  exact ⟨rfl, schedStep_thr w, schedStep_live w⟩

/-- **Tie between the regenerated loader and the specification used by the live correspondence**: for
    every filter, world, schedule and `U`, `Gen.loadFilter` leaves the world `LoaderSpec.load` leaves
    and returns an error of the same observable class (nil / errno n / other); same for `Supported`.
    The live histories compare the real `LoadFilter` with `LoaderSpec` on the running kernel. -/
theorem translator_tie (U : Unsupported) (filter : Filter) (w : World) :
    ((Gen.loadFilter U filter w).1.cls, (Gen.loadFilter U filter w).2) = LoaderSpec.load filter w ∧
    Gen.supported U w = LoaderSpec.supported w :=
  ⟨gen_loadFilter_eq_spec U filter w, gen_supported_eq_spec U w⟩

/-- the translator rendered every statement of the loader (nothing was left to the oracle `U`) -/
theorem skeleton_complete : Gen.skeletonNotes = [] := by decide

/-! ### non-vacuity: concrete histories -/

def noU : Unsupported := { step := fun _ w => w, noReturnErr := .nil, noReturnBool := false }

/-- two threads; thread 2 already carries filter 7, which the caller (thread 1) does not have -/
def divergent : World :=
  { thr := fun t => if t = 2 then { filters := [7] } else {}, live := [1, 2], cur := 1, privileged := true }

def goodProg : Prog := { id := 42, len := 20, ok := true }

/-- the witness of DESIGN §7 F5: thread-sync refused ⇒ (after the fix) an error, and nothing attached -/
theorem tsync_refused_example :
    (Gen.loadFilter noU { noNewPrivs := true, flag := 1, policy := .prog goodProg } divergent).1 ≠ GoErr.nil := by
  decide

/-- a plain successful load on one thread -/
theorem success_example :
    (Gen.loadFilter noU { noNewPrivs := true, flag := 0, policy := .prog goodProg }
      { thr := fun _ => {}, live := [1], cur := 1, privileged := false }).1 = GoErr.nil := by
  decide

/-- a load that asks for a listener (SECCOMP_FILTER_FLAG_NEW_LISTENER): the kernel answers with a
    positive descriptor and errno 0 — that is a success, not a thread-sync refusal -/
theorem listener_example :
    (Gen.loadFilter noU { noNewPrivs := true, flag := 8, policy := .prog goodProg }
      { thr := fun _ => {}, live := [1], cur := 1, privileged := false }).1 = GoErr.nil ∧
    (sysSeccomp 1 8 (some goodProg) { thr := fun _ => { nnp := true }, live := [1], cur := 1, privileged := false }).1 ≠ 0 := by
  decide

/-- the probe where a profile denies `seccomp(2)` with EPERM: false, and the thread keeps its state -/
theorem probe_denied_example :
    let w : World := { thr := fun _ => {}, live := [1], cur := 1, privileged := true,
                       seccompAvailable := false, refusal := .eperm }
    (Gen.supported noU w).1 = false ∧ ((Gen.supported noU w).2.thr 1).nnp = false := by
  decide

/-- **nil ⇒ the policy is enforced, whatever else is attached.**  The kernel runs every filter of a thread's
    chain and keeps the most restrictive answer (`Model/Chain.lean`).  So after a nil result, for every event —
    `val` gives each attached filter's answer to it — the calling thread's decision is at most as permissive
    as the new filter's answer, and with thread-sync in the flag word so is every live thread's: earlier loads
    (this process's own or inherited ones) can only restrict further, never undo the new policy. -/
theorem load_nil_enforces (U : Unsupported) (filter : Filter) (w w' : World)
    (hc : w.cur ∈ w.live) (h : Gen.loadFilter U filter w = (GoErr.nil, w')) (val : FilterId → Word) :
    ∃ p, filter.policy = .prog p ∧
      Chain.actionOnly (Chain.chain ((w'.thr w'.cur).filters.map val)) ≤ Chain.actionOnly (val p.id) ∧
      (filter.flag &&& FLAG_TSYNC ≠ 0 → ∀ t ∈ w'.live,
        Chain.actionOnly (Chain.chain ((w'.thr t).filters.map val)) ≤ Chain.actionOnly (val p.id)) := by
  obtain ⟨p, hp, hcur, hall⟩ := load_nil_implies_installed U filter w w' hc h
  have key : ∀ fs : List FilterId, fs.head? = some p.id →
      Chain.actionOnly (Chain.chain (fs.map val)) ≤ Chain.actionOnly (val p.id) := by
    intro fs hfs
    apply Chain.runFrom_le_mem
    cases fs with
    | nil => cases hfs
    | cons f rest =>
      simp only [List.head?_cons, Option.some.injEq] at hfs
      simp [hfs]
  exact ⟨p, hp, key _ hcur, fun ht t hl => key _ (hall ht t hl)⟩

end C09
