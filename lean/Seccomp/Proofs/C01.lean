import Seccomp.Proofs.Lemmas.CompilePolicy
/-!
# C01 — allow/deny lists decide by first matching group, else the default action

`assemblePolicy` is the model of `Policy.Assemble` (tied to the Go code by the `policy` stream of
the correspondence check: exact equality of instruction lists and errors).  `A` ranges over *all*
architecture descriptions (any name table, any audit id), so the theorems hold for x86_64, i386,
arm, aarch64 and any table added later; `e` over both byte orders; `ev` over all events (every
32-bit number, all argument values).  No bound on groups, names or program length.
-/

namespace C01

/-- **The compiled filter computes the specified decision** on every event. -/
theorem compile_correct (A : ArchInfo) (e : Endian) (p : Policy) (prog : List Instr)
    (h : assemblePolicy (some A) (Layout.ofEndian e) p = .ok prog) (ev : Event) (a0 : Word) :
    run (words e ev) prog a0 = .ret (Spec.decision A p ev) :=
  policy_compile_correct A e p prog h ev a0

/-- an event the property speaks about: the policy's architecture, and on x86_64 no x32 bit -/
def Native (A : ArchInfo) (ev : Event) : Prop :=
  ev.arch = A.id ∧ ¬ (A.id = auditArchX86_64 ∧ ev.nr.toNat ≥ 0x40000000)

/-- **First matching group, in policy order, decides; otherwise the default.** -/
theorem first_group_decides (A : ArchInfo) (e : Endian) (p : Policy) (prog : List Instr)
    (h : assemblePolicy (some A) (Layout.ofEndian e) p = .ok prog) (ev : Event) (hn : Native A ev) (a0 : Word) :
    run (words e ev) prog a0 =
      match p.groups.find? (fun g => Spec.groupMatches A g ev.nr ev.args) with
      | some g => .ret (enc g.action)
      | none => .ret (enc p.default) := by
  rw [compile_correct A e p prog h ev a0]
  unfold Spec.decision
  obtain ⟨ha, hx⟩ := hn
  simp only [ha, ne_eq, not_true_eq_false, if_false, hx]
  cases p.groups.find? (fun g => Spec.groupMatches A g ev.nr ev.args) <;> rfl

/-- for a group without conditional entries "matches" is "one of its names has the event's number" -/
theorem names_only_matches (A : ArchInfo) (g : Group) (hg : g.withConds = []) (nr : Word) (args : Nat → BitVec 64) :
    Spec.groupMatches A g nr args = g.names.any (fun n => A.number n == some nr) := by
  simp only [Spec.groupMatches, hg, List.any_nil, Bool.or_false]
  congr 1
  funext n
  simp only [Spec.nameIs]
  cases h : A.number n with
  | none => simp
  | some m =>
    rw [Bool.eq_iff_iff]; simp only [beq_iff_eq, Option.some.injEq]; exact eq_comm

/-- if the first `k` groups do not list the event and group `k` does, group `k` decides -/
theorem kth_group_decides (A : ArchInfo) (e : Endian) (p : Policy) (prog : List Instr)
    (h : assemblePolicy (some A) (Layout.ofEndian e) p = .ok prog) (ev : Event) (hn : Native A ev) (a0 : Word)
    (pre post : List Group) (g : Group) (hp : p.groups = pre ++ g :: post)
    (hpre : ∀ g' ∈ pre, Spec.groupMatches A g' ev.nr ev.args = false)
    (hg : Spec.groupMatches A g ev.nr ev.args = true) :
    run (words e ev) prog a0 = .ret (enc g.action) := by
  rw [first_group_decides A e p prog h ev hn a0, hp]
  have : (pre ++ g :: post).find? (fun g => Spec.groupMatches A g ev.nr ev.args) = some g := by
    rw [List.find?_append]
    have : pre.find? (fun g => Spec.groupMatches A g ev.nr ev.args) = none := by
      rw [List.find?_eq_none]; intro x hx; simp [hpre x hx]
    simp [this, List.find?_cons, hg]
  rw [this]

/-- no group lists the event: the default action -/
theorem default_if_unlisted (A : ArchInfo) (e : Endian) (p : Policy) (prog : List Instr)
    (h : assemblePolicy (some A) (Layout.ofEndian e) p = .ok prog) (ev : Event) (hn : Native A ev) (a0 : Word)
    (hno : ∀ g ∈ p.groups, Spec.groupMatches A g ev.nr ev.args = false) :
    run (words e ev) prog a0 = .ret (enc p.default) := by
  rw [first_group_decides A e p prog h ev hn a0]
  have : p.groups.find? (fun g => Spec.groupMatches A g ev.nr ev.args) = none := by
    rw [List.find?_eq_none]; intro x hx; simp [hno x hx]
  rw [this]

/-- **Encoding of actions**: `errno` carries EPERM, every other action is its exact constant. -/
theorem enc_exact : enc actErrno = 0x00050001#32 ∧ ∀ a, a ≠ actErrno → enc a = a := by
  refine ⟨by decide, fun a ha => by simp [enc, ha]⟩

/-! ### non-vacuity: a two-group policy whose *second* group decides -/

def tinyArch : ArchInfo :=
  { name := "tiny", id := 0x40000003#32, mask := 0,
    lookup := fun s => if s = "read" then some 0 else if s = "write" then some 1
                        else if s = "open" then some 2 else if s = "close" then some 3 else none }

def twoGroups : Policy :=
  { default := actKillProcess,
    groups := [ { names := ["read", "write"], withConds := [], action := actAllow },
                { names := ["open", "close"], withConds := [], action := actErrno } ] }

def openEvent : Event := { nr := 2#32, arch := 0x40000003#32, ip := 0#64, args := fun _ => 0#64 }

theorem twoGroups_accepted : (assemblePolicy (some tinyArch) (Layout.ofEndian .little) twoGroups).toOption.isSome = true := by
  decide +kernel

theorem openEvent_native : Native tinyArch openEvent := by
  refine ⟨rfl, ?_⟩
  rintro ⟨h, _⟩
  exact absurd h (by decide)

theorem second_group_decides_example : Spec.decision tinyArch twoGroups openEvent = 0x00050001#32 := by
  decide +kernel

end C01
