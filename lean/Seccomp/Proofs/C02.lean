import Seccomp.Proofs.C01
/-!
# C02 — argument conditions are exact unsigned 64-bit comparisons

`Spec.rel` is the unsigned 64-bit relation (on `toNat`, resp. `&&&` against zero).  The theorems
quantify over all operations, argument positions, operands and actual values (2^128 pairs per
operation) and over both byte orders of `seccomp_data`.
-/

namespace C02

/-- the eight relations, spelled out on natural numbers -/
theorem rel_meaning (a v : BitVec 64) :
    (Spec.rel .eq a v = true ↔ a.toNat = v.toNat) ∧
    (Spec.rel .ne a v = true ↔ a.toNat ≠ v.toNat) ∧
    (Spec.rel .gt a v = true ↔ a.toNat > v.toNat) ∧
    (Spec.rel .lt a v = true ↔ a.toNat < v.toNat) ∧
    (Spec.rel .ge a v = true ↔ a.toNat ≥ v.toNat) ∧
    (Spec.rel .le a v = true ↔ a.toNat ≤ v.toNat) ∧
    (Spec.rel .set a v = true ↔ a &&& v ≠ 0#64) ∧
    (Spec.rel .nset a v = true ↔ a &&& v = 0#64) := by
  simp [Spec.rel, BitVec.toNat_inj]

/-- the operation names are exactly the eight documented ones -/
theorem op_names :
    opOfString "Equal" = some .eq ∧ opOfString "NotEqual" = some .ne ∧
    opOfString "GreaterThan" = some .gt ∧ opOfString "LessThan" = some .lt ∧
    opOfString "GreaterOrEqual" = some .ge ∧ opOfString "LessOrEqual" = some .le ∧
    opOfString "BitsSet" = some .set ∧ opOfString "BitsNotSet" = some .nset := by
  decide

/-- a policy with one group holding one single-condition entry -/
def single (d act : Word) (name : String) (c : Condition) : Policy :=
  { default := d, groups := [ { names := [], withConds := [ { name := name, conds := [c] } ], action := act } ] }

/-- **Exactness.**  For every accepted single-condition policy and every event of the policy's
    architecture, the filter answers the entry's action exactly when the event's number is the
    entry's and the unsigned 64-bit relation holds between the actual argument and the operand;
    otherwise the default. -/
theorem cond_lowering_exact (A : ArchInfo) (e : Endian) (d act : Word) (name : String) (c : Condition) (op : Op)
    (hop : opOfString c.op = some op) (prog : List Instr)
    (h : assemblePolicy (some A) (Layout.ofEndian e) (single d act name c) = .ok prog)
    (ev : Event) (hn : C01.Native A ev) (a0 : Word) :
    run (words e ev) prog a0 =
      if Spec.nameIs A ev.nr name = true ∧ Spec.rel op (ev.args c.arg) c.val = true
      then .ret (enc act) else .ret (enc d) := by
  rw [C01.first_group_decides A e _ prog h ev hn a0]
  simp only [single, List.find?_cons, List.find?_nil, Spec.groupMatches, List.any_nil, Bool.false_or,
    List.any_cons, Bool.or_false, List.isEmpty_cons, Bool.not_false, Bool.and_true, List.all_cons, List.all_nil,
    Spec.condHolds, hop]
  by_cases h1 : Spec.nameIs A ev.nr name = true <;> by_cases h2 : Spec.rel op (ev.args c.arg) c.val = true <;>
    simp [h1, h2]

/-- **Both byte orders give the same answer**: the little-endian and the big-endian program, each run
    on its own layout of the same event, agree. -/
theorem cond_endian_independent (A : ArchInfo) (p : Policy) (progLE progBE : List Instr)
    (hl : assemblePolicy (some A) (Layout.ofEndian .little) p = .ok progLE)
    (hb : assemblePolicy (some A) (Layout.ofEndian .big) p = .ok progBE) (ev : Event) (a0 a1 : Word) :
    run (words .little ev) progLE a0 = run (words .big ev) progBE a1 := by
  rw [C01.compile_correct A .little p progLE hl ev a0, C01.compile_correct A .big p progBE hb ev a1]

/-- **The halves are read from the right words**: the offset `LdHi i` / `LdLo i` loads holds the most /
    least significant 32 bits of argument `i` in the byte order in effect, and the two halves determine
    the 64-bit value. -/
theorem halves_read_correctly (e : Endian) (ev : Event) (i : Nat) :
    words e ev ((Layout.ofEndian e).hiOff i) = hi (ev.args i) ∧
    words e ev ((Layout.ofEndian e).loOff i) = lo (ev.args i) ∧
    (ev.args i).toNat = (hi (ev.args i)).toNat * 2^32 + (lo (ev.args i)).toNat :=
  ⟨(sees_words e ev).hi i, (sees_words e ev).lo i, toNat_split _⟩

/-- the offsets are those of `struct seccomp_data` -/
theorem offsets (i : Nat) :
    (Layout.ofEndian .little).loOff i = 16 + 8 * i ∧ (Layout.ofEndian .little).hiOff i = 16 + 8 * i + 4 ∧
    (Layout.ofEndian .big).hiOff i = 16 + 8 * i ∧ (Layout.ofEndian .big).loOff i = 16 + 8 * i + 4 := by
  simp [Layout.ofEndian]

/-- **One lowered condition (label level), any layout**: the fragment emitted for a condition, run in
    front of any code `rest`, continues at its `match` label iff the condition holds and at the list's
    `noMatch` label otherwise (`K` = "continue at that label in `rest`"). -/
theorem cond_fragment_exact {w : Nat → Word} (ly : Layout) (nr : Word) (args : Nat → BitVec 64)
    (hs : Sees ly w nr args) (e l c : Nat) (cnd : Cnd) (m : PL) (rest : List (Tok PL)) (a : Word)
    (hm : ∀ j, m ≠ .nextIns e l c j) :
    ∃ a', runT w (condToks ly e l c cnd m ++ rest) a =
      K w e l c rest (if cnd.holds args then m else .noMatch e l) a' :=
  cond_spec w ly nr args hs e l c cnd m rest a hm

/-! ### non-vacuity: `GreaterThan 0xFFFFFFFF_00000000` on argument 5, actual value `0xFFFFFFFF_00000001` -/

def gtPolicy : Policy := single actKillProcess actAllow "read"
  { arg := 5, op := "GreaterThan", val := 0xFFFFFFFF00000000#64 }

theorem gtPolicy_accepted_le : (assemblePolicy (some C01.tinyArch) (Layout.ofEndian .little) gtPolicy).toOption.isSome = true := by
  decide +kernel
theorem gtPolicy_accepted_be : (assemblePolicy (some C01.tinyArch) (Layout.ofEndian .big) gtPolicy).toOption.isSome = true := by
  decide +kernel

theorem gt_example : Spec.rel .gt 0xFFFFFFFF00000001#64 0xFFFFFFFF00000000#64 = true ∧
    Spec.rel .gt 0x00000000FFFFFFFF#64 0xFFFFFFFF00000000#64 = false := by decide

end C02
