import Seccomp.Gen.Consts
import Seccomp.Gen.Tables
import Seccomp.Gen.GetInfo
import Seccomp.Gen.Oracle
import Seccomp.Model.Policy
import Seccomp.Model.Lower
import Seccomp.Model.Spec
import Seccomp.Proofs.C07
/-!
# C19 — constants and stubs are consistent across build targets

> On every operating system and CPU target for which the library builds, the action, filter-flag,
> errno and prctl constants it exposes are numerically identical to the Linux kernel's UAPI values,
> so a policy compiles to the same program wherever it is compiled for a given syscall table.  On
> non-Linux targets the loader stubs report seccomp as unsupported and perform no system calls, and
> on targets without syscall tables compilation fails with an unsupported-architecture error rather
> than producing a filter.

Everything here is a statement about `Gen.targets` (`Gen/Consts.lean`), which `vextract` regenerates
on every run by loading and type-checking the module under each GOOS/GOARCH of the target list
(`go tool dist list` in the thorough tier, a 14-target cross-section in the quick tier): one row per
target with the value the Go type checker computes for every constant, the files the build context
selects, and the shape of the three loader entry points.  The oracle `Gen.uapi` is printed by a C
program compiled against the installed kernel headers; it never passes through Go source.  All
theorems are decided by the Lean kernel on these finite tables (`decide +kernel`).
-/

namespace C19
open Gen

/-! ## vocabulary -/

/-- a build context that satisfies the constraint `linux` (GOOS=android implies it) -/
def isLinux (t : Target) : Bool := t.goos == "linux" || t.goos == "android"

/-- the MIPS ports of Linux, the only Go targets whose kernel numbers errno values differently -/
def isMipsLinux (t : Target) : Bool :=
  isLinux t && (t.goarch == "mips" || t.goarch == "mipsle" || t.goarch == "mips64" || t.goarch == "mips64le")

/-- **Hand-written oracle row** (the only one).  `arch/mips/include/uapi/asm/errno.h` of the kernel:
    `#define ENOSYS 89 /* Function not implemented */`.  No MIPS kernel headers are installed in this
    sandbox, so the value cannot be printed by the C oracle; it is also the value of
    `syscall.ENOSYS` in Go's `zerrors_linux_mips{,le,64,64le}.go`.  Every other Linux port that Go
    supports (386, amd64, arm, arm64, loong64, ppc64, ppc64le, riscv64, s390x) uses
    `asm-generic/errno.h`, i.e. the value the C oracle prints on this host. -/
def mipsENOSYS : Nat := 89

/-- `ENOSYS` of the kernel the target's binaries run on; for non-Linux targets (no such kernel) the
    generic Linux value, which is what a filter for one of the four table architectures needs -/
def kernelENOSYS (t : Target) : Option Nat :=
  if isMipsLinux t then some mipsENOSYS else uapi.lookup "ENOSYS"

/-- UAPI name (also the name in `internal/unix`) ↦ the constant of the root package defined from it -/
def pairing : List (String × String) := [
  ("SECCOMP_RET_KILL_THREAD", "ActionKillThread"),
  ("SECCOMP_RET_KILL_PROCESS", "ActionKillProcess"),
  ("SECCOMP_RET_TRAP", "ActionTrap"),
  ("SECCOMP_RET_ERRNO", "ActionErrno"),
  ("SECCOMP_RET_TRACE", "ActionTrace"),
  ("SECCOMP_RET_LOG", "ActionLog"),
  ("SECCOMP_RET_ALLOW", "ActionAllow"),
  ("SECCOMP_RET_USER_NOTIF", "ActionUserNotify"),
  ("SECCOMP_FILTER_FLAG_TSYNC", "FilterFlagTSync"),
  ("SECCOMP_FILTER_FLAG_LOG", "FilterFlagLog"),
  ("PR_SET_NO_NEW_PRIVS", "prSetNoNewPrivs"),
  ("SECCOMP_SET_MODE_STRICT", "seccompSetModeStrict"),
  ("SECCOMP_SET_MODE_FILTER", "seccompSetModeFilter"),
  ("EPERM", "errnoEPERM")]

/-- layout of `struct seccomp_data` and the x32 bit: (what the C oracle printed, constant of the root package) -/
def layoutPairing : List (String × String) := [
  ("offsetof_nr", "syscallNumOffset"),
  ("offsetof_arch", "archOffset"),
  ("offsetof_args", "argumentOffset"),
  ("sizeof_arg", "sizeOfUint64"),
  ("sizeof_nr", "sizeOfUint32"),
  ("__X32_SYSCALL_BIT", "x32SyscallMask")]

/-- the constants that can enter a compiled program, in a fixed order: the eight actions, `EPERM`,
    `ENOSYS`, the x32 bit as package arch defines it (`arch.X32.SeccompMask`), the five offsets/sizes -/
def programConsts (t : Target) : List (Option Nat) :=
  (["ActionKillThread", "ActionKillProcess", "ActionTrap", "ActionErrno", "ActionTrace", "ActionLog",
    "ActionAllow", "ActionUserNotify", "errnoEPERM", "errnoENOSYS", "syscallNumOffset", "archOffset",
    "argumentOffset", "sizeOfUint32", "sizeOfUint64"].map (fun n => t.root.lookup n)) ++ [t.arch.lookup "x32SyscallMask"]

/-- the same list without `errnoENOSYS` -/
def programConstsButENOSYS (t : Target) : List (Option Nat) :=
  (["ActionKillThread", "ActionKillProcess", "ActionTrap", "ActionErrno", "ActionTrace", "ActionLog",
    "ActionAllow", "ActionUserNotify", "errnoEPERM", "syscallNumOffset", "archOffset",
    "argumentOffset", "sizeOfUint32", "sizeOfUint64"].map (fun n => t.root.lookup n)) ++ [t.arch.lookup "x32SyscallMask"]

def entryPoints : List String := ["Supported", "SetNoNewPrivs", "LoadFilter"]

/-- `len(arch.SyscallNames) == 0` is false for the `Info` variable `v`: its row builds `SyscallNames`
    by `invert(<table>)` from a table with at least one entry -/
def rowHasTable (v : String) : Bool :=
  match archRows.find? (fun r => r.var == v) with
  | some r => r.names != "" && (tableSizes.lookup r.names).getD 0 != 0
  | none => false

/-- `arch.GetInfo("")` on a target whose `runtime.GOARCH` is `g` returns an error, read off the data:
    `g` is no key of `arches`, or its row has no table.  That the function regenerated from the source
    (`Gen.getInfoSkel`) answers exactly so on every target is the first conjunct of
    `unsupported_arch_errors`. -/
def getInfoDefaultErrors (g : String) : Bool :=
  match arches.lookup g with
  | none => true
  | some v => !rowHasTable v

/-! ## the property ranges over something: the library builds on every target of the list -/

/-- Every target of the list was loaded and every library (non-`main`) package of the module
    type-checks under it, so none of the statements below is vacuous for any target.  (The two
    commands need cgo linking on android/386, android/amd64, android/arm and ios/*; that is a
    restriction of the toolchain for `main` packages, recorded per package in `Target.pkgs`.) -/
theorem library_builds_on_every_target :
    ∀ t ∈ targets, t.loaded = true ∧ t.libBuilds = true ∧
      ∀ p ∈ t.pkgs, p.main = false → p.ok = true := by
  decide +kernel

/-- the list contains the host, Linux ports with and without tables, a MIPS port and non-Linux systems -/
theorem targets_cover :
    14 ≤ targets.length ∧ t_linux_amd64 ∈ targets ∧
    (∃ t ∈ targets, isMipsLinux t = true) ∧
    (∃ t ∈ targets, isLinux t = true ∧ isMipsLinux t = false ∧ getInfoDefaultErrors t.goarch = true) ∧
    4 ≤ (targets.filter (fun t => !isLinux t)).length ∧
    (∃ t ∈ targets, isLinux t = false ∧ getInfoDefaultErrors t.goarch = true) := by
  decide +kernel

/-! ## constants = kernel UAPI -/

/-- what `consts_equal_uapi` says about one target row -/
def ConstsEqualUapi (t : Target) : Prop :=
  (∀ p ∈ pairing, (uapi.lookup p.1).isSome = true ∧
      t.unix.lookup p.1 = uapi.lookup p.1 ∧ t.root.lookup p.2 = uapi.lookup p.1) ∧
  (kernelENOSYS t).isSome = true ∧
  t.unix.lookup "ENOSYS" = kernelENOSYS t ∧ t.root.lookup "errnoENOSYS" = kernelENOSYS t ∧
  t.nonNat = []

instance (t : Target) : Decidable (ConstsEqualUapi t) := by unfold ConstsEqualUapi; infer_instance

/-- **Constants equal the kernel's UAPI values on every target.**  For every target of the list on
    which the library builds: each of the eight actions, the two filter flags, the prctl option, the
    two `seccomp(2)` operations and `EPERM` has — both in `internal/unix` (taken from x/sys/unix on
    Linux, from the hand-maintained copy elsewhere) and in the root package's `constants.go` — exactly
    the value the installed kernel headers give; `ENOSYS` has the value of the target's kernel
    (38 = the header value; 89 on linux/mips*); and no constant of these packages is negative or
    non-integer. -/
theorem consts_equal_uapi : ∀ t ∈ targets, t.libBuilds = true → ConstsEqualUapi t := by
  decide +kernel

/-- the statement discriminates: the darwin row with `SECCOMP_RET_TRAP` changed in the hand-maintained
    copy only (so that it differs from Linux) does not satisfy it, nor does one with MIPS' `ENOSYS` -/
example : ¬ ConstsEqualUapi { t_darwin_arm64 with
    unix := t_darwin_arm64.unix.map (fun p => if p.1 = "SECCOMP_RET_TRAP" then (p.1, 0x20000) else p) } := by
  decide +kernel
example : ¬ ConstsEqualUapi { t_darwin_arm64 with
    root := t_darwin_arm64.root.map (fun p => if p.1 = "errnoENOSYS" then (p.1, 89) else p) } := by
  decide +kernel
/-- … while 89 is exactly what is required of (and found on) linux/mips -/
example : ConstsEqualUapi t_linux_mips ∧ t_linux_mips.root.lookup "errnoENOSYS" = some 89 := by
  decide +kernel

/-- The record offsets and sizes the compiler uses are those of `struct seccomp_data` in
    `linux/seccomp.h` (`offsetof`/`sizeof` evaluated by the C compiler) and the x32 bit is
    `__X32_SYSCALL_BIT` of `asm/unistd.h` — on every target (so `unsafe.Sizeof` did not vary). -/
theorem layout_equals_uapi :
    ∀ t ∈ targets, t.libBuilds = true →
      (∀ p ∈ layoutPairing, (uapi.lookup p.1).isSome = true ∧ t.root.lookup p.2 = uapi.lookup p.1) ∧
      t.arch.lookup "x32SyscallMask" = uapi.lookup "__X32_SYSCALL_BIT" := by
  decide +kernel

/-- the header values themselves are the well-known ones (guards against a broken oracle run) -/
theorem uapi_sane :
    uapi.lookup "SECCOMP_RET_ALLOW" = some 0x7fff0000 ∧ uapi.lookup "SECCOMP_RET_ERRNO" = some 0x50000 ∧
    uapi.lookup "SECCOMP_RET_KILL_PROCESS" = some 0x80000000 ∧ uapi.lookup "SECCOMP_RET_KILL_THREAD" = some 0 ∧
    uapi.lookup "SECCOMP_FILTER_FLAG_TSYNC" = some 1 ∧ uapi.lookup "SECCOMP_FILTER_FLAG_LOG" = some 2 ∧
    uapi.lookup "PR_SET_NO_NEW_PRIVS" = some 38 ∧ uapi.lookup "EPERM" = some 1 ∧ uapi.lookup "ENOSYS" = some 38 := by
  decide +kernel

/-! ## the same program everywhere -/

/-- every non-MIPS target has the program constants of linux/amd64 -/
theorem program_consts_as_host :
    ∀ t ∈ targets, isMipsLinux t = false → programConsts t = programConsts t_linux_amd64 := by
  decide +kernel

/-- **Same program everywhere.**  All constants that enter a compiled program — the actions, `EPERM`,
    `ENOSYS`, the x32 bit, the offsets and sizes — are equal on every pair of non-MIPS targets, so the
    compiler (a function of the policy, the table and these constants) emits the same program for a
    given syscall table wherever it is compiled. -/
theorem same_program_everywhere :
    ∀ t₁ ∈ targets, ∀ t₂ ∈ targets, isMipsLinux t₁ = false → isMipsLinux t₂ = false →
      programConsts t₁ = programConsts t₂ := fun t₁ h₁ t₂ h₂ m₁ m₂ =>
  (program_consts_as_host t₁ h₁ m₁).trans (program_consts_as_host t₂ h₂ m₂).symm

/-- On the MIPS ports the only program constant that differs is `ENOSYS` (the kernel's own 89) … -/
theorem mips_differs_only_in_enosys :
    ∀ t ∈ targets, programConstsButENOSYS t = programConstsButENOSYS t_linux_amd64 := by
  decide +kernel

/-- … and it cannot reach a program: `ENOSYS` is only emitted in the x32 guard of a policy for the
    x86_64 table, the architecture of a policy is always `GetInfo("")` (filter.go), and on every
    target whose `ENOSYS` is not the generic value `GetInfo("")` is an error.  So no two targets can
    compile different programs for one table. -/
theorem enosys_deviation_unreachable :
    ∀ t ∈ targets, t.root.lookup "errnoENOSYS" ≠ t_linux_amd64.root.lookup "errnoENOSYS" →
      getInfoDefaultErrors t.goarch = true := by
  decide +kernel

/-- **Every constant of `internal/unix` that bears the name of a kernel macro has the kernel's value, on every
    target** — whatever constants the package declares: each `(name, value)` of each target is compared with
    the macro of the same name among *all* object-like `SECCOMP_*` / `PR_*` macros of the installed
    linux/seccomp.h and linux/prctl.h (`Gen.uapiAll`, found with `gcc -dM -E` and evaluated by a C program).
    A constant added later (an alias such as `SECCOMP_RET_KILL`, a new flag) is covered without touching the
    pairing list above.  (`ENOSYS`/`EPERM` are errno values and handled by `consts_equal_uapi`.) -/
theorem same_named_constants_equal_uapi :
    ∀ t ∈ targets, ∀ kv ∈ t.unix, ∀ u ∈ uapiAll, u.1 = kv.1 → u.2 = kv.2 := by
  decide +kernel

/-- non-vacuity: the macro list is not a handful of names, and it contains the constants the package uses -/
theorem uapiAll_covers :
    100 ≤ uapiAll.length ∧
    ∀ p ∈ pairing, p.1 ≠ "EPERM" → (uapiAll.lookup p.1).isSome = true := by
  decide +kernel

/-! ## the model's constants are the source's constants -/

/-- **The constants hard-wired in the executable model are those of the source.**  `actKillThread` …
    `actAllow`, `errnoEPERM` and `auditArchX86_64` of `Model/Policy.lean`, `Spec.enosys`
    (= `ActionErrno | errnoENOSYS`), `enosys` and `x32Bit` of `Model/Lower.lean` equal the regenerated
    linux/amd64 row (and `auditArchX86_64` the regenerated `zarches.go` constant). -/
theorem model_consts_agree :
    t_linux_amd64.root.lookup "ActionKillThread" = some actKillThread.toNat ∧
    t_linux_amd64.root.lookup "ActionKillProcess" = some actKillProcess.toNat ∧
    t_linux_amd64.root.lookup "ActionTrap" = some actTrap.toNat ∧
    t_linux_amd64.root.lookup "ActionErrno" = some actErrno.toNat ∧
    t_linux_amd64.root.lookup "ActionTrace" = some actTrace.toNat ∧
    t_linux_amd64.root.lookup "ActionLog" = some actLog.toNat ∧
    t_linux_amd64.root.lookup "ActionAllow" = some actAllow.toNat ∧
    t_linux_amd64.root.lookup "errnoEPERM" = some errnoEPERM.toNat ∧
    auditConsts.lookup "auditArchX86_64" = some auditArchX86_64.toNat ∧
    (t_linux_amd64.root.lookup "ActionErrno").bind
        (fun a => (t_linux_amd64.root.lookup "errnoENOSYS").map (fun e => a ||| e)) = some Spec.enosys.toNat ∧
    Spec.enosys = enosys ∧
    t_linux_amd64.arch.lookup "x32SyscallMask" = some x32Bit.toNat ∧
    (archRows.find? (fun r => r.var == "X32")).map (fun r => r.mask) = some x32Bit.toNat := by
  decide +kernel

/-- The offsets the model's compiler emits are the source's: the architecture word is loaded from
    `archOffset`, the number from `syscallNumOffset`, argument `i` from
    `argumentOffset + sizeOfUint64 * i` (+ `sizeOfUint32` for the other half, by byte order). -/
theorem model_offsets_agree :
    ∃ ao no ar s64 s32,
      t_linux_amd64.root.lookup "archOffset" = some ao ∧
      t_linux_amd64.root.lookup "syscallNumOffset" = some no ∧
      t_linux_amd64.root.lookup "argumentOffset" = some ar ∧
      t_linux_amd64.root.lookup "sizeOfUint64" = some s64 ∧
      t_linux_amd64.root.lookup "sizeOfUint32" = some s32 ∧
      (∀ (a : ArchI) (body : List Instr), (policyProg a body).head? = some (.ld ao) ∧ .ld no ∈ policyProg a body) ∧
      (∀ i, (Layout.ofEndian .little).loOff i = ar + s64 * i ∧ (Layout.ofEndian .little).hiOff i = ar + s64 * i + s32 ∧
            (Layout.ofEndian .big).hiOff i = ar + s64 * i ∧ (Layout.ofEndian .big).loOff i = ar + s64 * i + s32) := by
  refine ⟨4, 0, 16, 8, 4, by decide +kernel, by decide +kernel, by decide +kernel, by decide +kernel,
    by decide +kernel, ?_, ?_⟩
  · intro a body
    constructor
    · simp [policyProg]
    · simp only [policyProg]
      split <;> simp
  · intro i
    simp [Layout.ofEndian]

/-! ## stubs and file selection -/

/-- what `stubs_inert` says about one target row -/
def StubsInert (t : Target) : Prop :=
  "seccomp_unsupported.go" ∈ t.files ∧ "seccomp_linux.go" ∉ t.files ∧
  (∀ n ∈ entryPoints, ∃ f ∈ t.funcs, f.name = n ∧ f.file = "seccomp_unsupported.go" ∧ f.hasCall = false) ∧
  (∃ f ∈ t.funcs, f.name = "Supported" ∧ f.ret = "false") ∧
  t.stubOtherDecls = [] ∧ t.stubImports = []

instance (t : Target) : Decidable (StubsInert t) := by unfold StubsInert; infer_instance

/-- **Stubs are inert.**  Every non-Linux target selects `seccomp_unsupported.go` and not
    `seccomp_linux.go`; `Supported`, `SetNoNewPrivs` and `LoadFilter` are defined there; none of the
    three bodies contains a call expression (no function or method call, conversion, `go` or `defer`),
    so no system call can be made; `Supported` is `return false` (the constant the type checker
    computes); and the file declares nothing else (no `init`, no initialised variable that could run
    code at start-up) and imports nothing. -/
theorem stubs_inert : ∀ t ∈ targets, isLinux t = false → StubsInert t := by
  decide +kernel

/-- the statement discriminates: a `Supported` stub returning `true`, or a `LoadFilter` stub that calls
    something, does not satisfy it -/
example : ¬ StubsInert { t_darwin_arm64 with
    funcs := t_darwin_arm64.funcs.map (fun f => if f.name = "Supported" then { f with ret := "true" } else f) } := by
  decide +kernel
example : ¬ StubsInert { t_darwin_arm64 with
    funcs := t_darwin_arm64.funcs.map (fun f => if f.name = "LoadFilter" then { f with hasCall := true } else f) } := by
  decide +kernel

/-- **Linux selects the real loader.**  Every Linux target (GOOS linux or android) selects
    `seccomp_linux.go` and not the stub file, and the three entry points are the ones defined there
    (each of them does call something). -/
theorem linux_selects_real_loader :
    ∀ t ∈ targets, isLinux t = true →
      "seccomp_linux.go" ∈ t.files ∧ "seccomp_unsupported.go" ∉ t.files ∧
      (∀ n ∈ entryPoints, ∃ f ∈ t.funcs, f.name = n ∧ f.file = "seccomp_linux.go" ∧ f.hasCall = true) := by
  decide +kernel

/-- each entry point is declared exactly once under every target (the two files never overlap) -/
theorem entry_points_unique :
    ∀ t ∈ targets, t.funcs.map (fun f => f.name) = entryPoints ∧ ∀ f ∈ t.funcs, f.file ≠ "" := by
  decide +kernel

/-! ## targets without syscall tables -/

/-- the per-target columns `archKey`/`archTable` written by the translator are what the regenerated
    `arches` map and `Info` rows of `Gen/Tables.lean` say -/
theorem goarch_columns_consistent :
    ∀ t ∈ targets, t.archKey = (arches.lookup t.goarch).isSome ∧
      t.archTable = !getInfoDefaultErrors t.goarch ∧
      (t.archKey = true → arches.lookup t.goarch = some t.archVar) := by
  decide +kernel

/-- **Unsupported architectures error.**  On every target of the list, the rendering of `GetInfo`
    regenerated from the source (`Gen.getInfoSkel`, with `runtime.GOARCH` = the target's GOARCH and the
    empty name, as `Policy.Assemble` calls it) returns an error exactly when the data say so
    (`getInfoDefaultErrors`); and for every GOARCH of the target list that is no key of `arches`
    (loong64, riscv64, wasm) or whose row has no table (ppc64, ppc64le, s390x, mips, mipsle, mips64,
    mips64le) that is the case. -/
theorem unsupported_arch_errors :
    (∀ t ∈ targets, (match Gen.getInfoSkel t.goarch "" with | .err _ => true | _ => false) =
        getInfoDefaultErrors t.goarch) ∧
    ∀ t ∈ targets, (t.archKey = false ∨ t.archTable = false) → getInfoDefaultErrors t.goarch = true := by
  decide +kernel

/-- the kernel's audit architecture of a Linux port, by GOARCH (hand-written: names of linux/audit.h) -/
def auditMacroOfGoarch : List (String × String) := [
  ("amd64", "AUDIT_ARCH_X86_64"), ("386", "AUDIT_ARCH_I386"), ("arm", "AUDIT_ARCH_ARM"), ("arm64", "AUDIT_ARCH_AARCH64"),
  ("riscv64", "AUDIT_ARCH_RISCV64"), ("loong64", "AUDIT_ARCH_LOONGARCH64"), ("ppc64", "AUDIT_ARCH_PPC64"),
  ("ppc64le", "AUDIT_ARCH_PPC64LE"), ("s390x", "AUDIT_ARCH_S390X"), ("mips", "AUDIT_ARCH_MIPS"), ("mipsle", "AUDIT_ARCH_MIPSEL"),
  ("mips64", "AUDIT_ARCH_MIPS64"), ("mips64le", "AUDIT_ARCH_MIPSEL64")]

/-- where `GetInfo("")` resolves on a target, the resolved row carries the kernel's audit identifier of
    *that* port (as far as the list above names one and the C compiler evaluated linux/audit.h) -/
def resolvesToOwnArch (g : String) : Bool :=
  getInfoDefaultErrors g ||
    match arches.lookup g, auditMacroOfGoarch.lookup g with
    | some v, some m =>
      (match archRows.find? (fun r => r.var == v), Oracle.auditArch.lookup m with
       | some r, some k => r.id == k
       | _, none => !Oracle.auditAvailable
       | none, _ => false)
    | some _, none => true     -- a port the list does not name: no statement
    | none, _ => true

/-- **A filter is only produced for the target's own architecture**: a GOARCH that resolves to the row
    of another architecture (an alias such as riscv64 → aarch64, "same generic table") would compile
    policies whose architecture test never matches on that kernel, instead of the unsupported-architecture
    error the property demands for targets without tables of their own. -/
theorem resolved_arch_is_the_targets_own : ∀ t ∈ targets, resolvesToOwnArch t.goarch = true := by
  decide +kernel

/-- non-vacuity: the four table ports are named by the list and the oracle knows their macros -/
example : (["amd64", "386", "arm", "arm64"].all fun g =>
    (auditMacroOfGoarch.lookup g).isSome && !getInfoDefaultErrors g) = true := by decide +kernel

/-- conversely the four table architectures resolve on their targets, to the row of that name -/
theorem supported_arch_resolves :
    ∀ t ∈ targets, (t.goarch = "amd64" ∨ t.goarch = "386" ∨ t.goarch = "arm" ∨ t.goarch = "arm64") →
      getInfoDefaultErrors t.goarch = false := by
  decide +kernel

/-- **… rather than producing a filter.**  `Policy.Assemble` obtains its architecture from
    `GetInfo("")` only and returns that error; in the model this is `assemblePolicy none`, which is
    an error for every policy and layout (`C07.defective_rejected`). -/
theorem unsupported_arch_no_filter :
    ∀ t ∈ targets, getInfoDefaultErrors t.goarch = true →
      ∀ (ly : Layout) (p : Policy), ∃ e, assemblePolicy none ly p = .error e :=
  fun _ _ _ ly p => C07.defective_rejected ly none p (.noTables p)

end C19
