import Seccomp.Proofs.C01
/-!
# C03 — conditions: AND within a list, OR across lists, no leak across syscalls
-/

namespace C03

/-- **AND within a list, OR across lists** (statement side, spelled out): a group lists an event iff
    one of its plain names has the event's number, or one of its entries with conditions has the
    event's number and a non-empty condition list all of whose conditions hold.  The same name may
    occur in several entries: they are alternatives. -/
theorem group_matches_iff (A : ArchInfo) (g : Group) (nr : Word) (args : Nat → BitVec 64) :
    Spec.groupMatches A g nr args = true ↔
      (∃ n ∈ g.names, Spec.nameIs A nr n = true) ∨
      (∃ nc ∈ g.withConds, Spec.nameIs A nr nc.name = true ∧ nc.conds ≠ [] ∧
        ∀ c ∈ nc.conds, Spec.condHolds c args = true) := by
  simp only [Spec.groupMatches, Bool.or_eq_true, List.any_eq_true, Bool.and_eq_true, Bool.not_eq_true',
    List.isEmpty_eq_false_iff, List.all_eq_true, and_assoc]

/-- **Merging is OR of lists**: what `toSyscallsWithConditions` builds (same-name entries merged into
    one entry with several lists) matches exactly when the group as written does. -/
theorem merge_is_or_of_lists (A : ArchInfo) (g : Group) (ents : List Entry) (h : toEntries A g = .ok ents)
    (nr : Word) (args : Nat → BitVec 64) :
    ents.any (·.matches nr args) = Spec.groupMatches A g nr args :=
  toEntries_spec A nr args g ents h

/-- **One entry, label level.**  Entered with the syscall number in the accumulator, an entry jumps to
    the group's action iff it matches; otherwise it falls through to the code behind it **with the
    syscall number in the accumulator again** (`runT w rest nr`), i.e. exactly as if it were absent. -/
theorem entry_matches_iff (w : Nat → Word) (ly : Layout) (nr : Word) (args : Nat → BitVec 64)
    (hs : Sees ly w nr args) (e : Nat) (ent : Entry) (rest : List (Tok PL)) :
    ∃ a', runT w (entryToks ly e ent ++ rest) nr =
      if ent.matches nr args then contAt w .action rest a' else runT w rest nr :=
  entry_spec w ly nr args hs e ent rest

/-- replacing one group by a group with the same action that agrees on listing this event does not
    change which action is found first -/
theorem first_match_congr (f : Group → Bool) (pre post : List Group) (g g' : Group)
    (hf : f g = f g') (ha : g.action = g'.action) :
    ((pre ++ g :: post).find? f).map (fun x => enc x.action) =
    ((pre ++ g' :: post).find? f).map (fun x => enc x.action) := by
  rw [List.find?_append, List.find?_append]
  cases pre.find? f with
  | some x => rfl
  | none =>
    simp only [Option.none_or, List.find?_cons, ← hf]
    cases f g with
    | true => simp [ha]
    | false => rfl

/-- **No match ⇒ as if absent.**  If entry `nc` of a group does not match the event (other number, or
    some condition of its list fails), the policy decides the event exactly as the policy without that
    entry — later entries, later groups and the default see the event's real number. -/
theorem no_match_is_absent (A : ArchInfo) (d : Word) (pre post : List Group) (g : Group)
    (l1 l2 : List NameConds) (nc : NameConds) (hg : g.withConds = l1 ++ nc :: l2) (ev : Event)
    (hno : (Spec.nameIs A ev.nr nc.name && !nc.conds.isEmpty && nc.conds.all (Spec.condHolds · ev.args)) = false) :
    Spec.decision A { default := d, groups := pre ++ g :: post } ev =
    Spec.decision A { default := d, groups := pre ++ { g with withConds := l1 ++ l2 } :: post } ev := by
  have key := first_match_congr (fun g => Spec.groupMatches A g ev.nr ev.args) pre post g
    { g with withConds := l1 ++ l2 }
    (by simp only [Spec.groupMatches, hg, List.any_append, List.any_cons, hno, Bool.false_or]) rfl
  unfold Spec.decision
  simp only
  split
  · rfl
  · split
    · rfl
    · split
      · rename_i x hx
        split
        · rename_i y hy
          rw [hx, hy] at key
          exact Option.some.inj key
        · rename_i hy
          rw [hx, hy] at key
          cases key
      · rename_i hx
        split
        · rename_i y hy
          rw [hx, hy] at key
          cases key
        · rfl

/-- … and so do the compiled filters (for every choice of argument values, in particular argument
    words that equal other entries' syscall numbers or operands). -/
theorem no_leak_compiled (A : ArchInfo) (e : Endian) (d : Word) (pre post : List Group) (g : Group)
    (l1 l2 : List NameConds) (nc : NameConds) (hg : g.withConds = l1 ++ nc :: l2) (ev : Event)
    (hno : (Spec.nameIs A ev.nr nc.name && !nc.conds.isEmpty && nc.conds.all (Spec.condHolds · ev.args)) = false)
    (prog prog' : List Instr)
    (h : assemblePolicy (some A) (Layout.ofEndian e) { default := d, groups := pre ++ g :: post } = .ok prog)
    (h' : assemblePolicy (some A) (Layout.ofEndian e)
            { default := d, groups := pre ++ { g with withConds := l1 ++ l2 } :: post } = .ok prog')
    (a0 a1 : Word) :
    run (words e ev) prog a0 = run (words e ev) prog' a1 := by
  rw [C01.compile_correct A e _ prog h ev a0, C01.compile_correct A e _ prog' h' ev a1,
    no_match_is_absent A d pre post g l1 l2 nc hg ev hno]

/-! ### non-vacuity: the leak witness of the pinned tree (DESIGN §7 F2)

rules `write(arg0 = 5)`, `read(arg1 = 7)` → kill_process, default allow; the event `write(0, 7)`
must be allowed (on the pinned tree the failed `write` rule left an argument word in the accumulator
and the `read` rule matched). -/

def leakPolicy : Policy :=
  { default := actAllow,
    groups := [ { names := [], action := actKillProcess,
                  withConds := [ { name := "write", conds := [ { arg := 0, op := "Equal", val := 5#64 } ] },
                                 { name := "read",  conds := [ { arg := 1, op := "Equal", val := 7#64 } ] } ] } ] }

def leakEvent : Event :=
  { nr := 1#32, arch := 0x40000003#32, ip := 0#64, args := fun i => if i = 1 then 7#64 else 0#64 }

theorem leakPolicy_accepted : (assemblePolicy (some C01.tinyArch) (Layout.ofEndian .little) leakPolicy).toOption.isSome = true := by
  decide +kernel

theorem leak_witness_allowed : Spec.decision C01.tinyArch leakPolicy leakEvent = actAllow := by decide +kernel

end C03
