import Seccomp.Proofs.Lemmas.Reject
import Seccomp.Proofs.Lemmas.Accept
import Seccomp.Proofs.Lemmas.GroupTotal
import Seccomp.Proofs.C01
/-!
# C07 — invalid policies are rejected, never mis-compiled; valid ones are accepted

`assemblePolicy` returns `Except CErr (List Instr)`: an error *or* a program, never both, and it is a
total function (the Go panics that a model could hide — slice bounds, nil map entries, failed type
assertions — do not exist in it; the correspondence harness recovers Go panics and reports them as
the reply `PANIC`, which the model never produces, so a panic is a correspondence difference).
-/

namespace C07

variable (A : ArchInfo) (ly : Layout)

/-- the defects of one group that the property lists -/
inductive GroupDefect (g : Group) : Prop
  | unknownName (n : String) (hn : n ∈ g.names) (h : A.number n = none)
  | unknownCondName (nc : NameConds) (hnc : nc ∈ g.withConds) (h : A.number nc.name = none)
  | duplicate (l1 l2 : List String) (n : String) (hg : g.names = l1 ++ n :: l2) (hn : n ∈ l2)
  | mixed (n : String) (hn : n ∈ g.names) (nc : NameConds) (hnc : nc ∈ g.withConds) (heq : nc.name = n)
  | argument (nc : NameConds) (hnc : nc ∈ g.withConds) (c : Condition) (hc : c ∈ nc.conds) (h : c.arg > 5)
  | operation (nc : NameConds) (hnc : nc ∈ g.withConds) (c : Condition) (hc : c ∈ nc.conds)
      (h : opOfString c.op = none)

/-- the defects of a policy that the property lists (`A = none`: the architecture has no tables) -/
inductive Defective : Option ArchInfo → Policy → Prop
  | unknownDefault (A p) (h : p.default ∉ namedActions) : Defective A p
  | noGroups (A p) (h : p.groups = []) : Defective A p
  | noTables (p) : Defective none p
  | group (A p g) (hg : g ∈ p.groups) (hd : GroupDefect A g) : Defective (some A) p

theorem toEntries_error_of_defect (g : Group) (hd : GroupDefect A g) : ∃ ps, toEntries A g = .error ps := by
  cases hd with
  | unknownName n hn h => exact toEntries_error_of_names A g (resolveNames_unknown A g.names [] [] n hn h)
  | unknownCondName nc hnc h =>
    exact toEntries_error_of_conds A g (fun es ps => resolveConds_bad A g.withConds es ps nc hnc (.inl h))
  | duplicate l1 l2 n hg hn =>
    exact toEntries_error_of_names A g (by rw [hg]; exact resolveNames_duplicate A l1 n l2 [] [] hn)
  | mixed n hn nc hnc heq => exact toEntries_mixed A g n hn nc hnc heq
  | argument nc hnc c hc h =>
    exact toEntries_error_of_conds A g (fun es ps => resolveConds_bad A g.withConds es ps nc hnc (.inr ⟨c, hc, .inl h⟩))
  | operation nc hnc c hc h =>
    exact toEntries_error_of_conds A g (fun es ps => resolveConds_bad A g.withConds es ps nc hnc (.inr ⟨c, hc, .inr h⟩))

theorem group_nonempty_of_defect (g : Group) (hd : GroupDefect A g) :
    (g.names.isEmpty && g.withConds.isEmpty) = false := by
  cases hd with
  | unknownName n hn _ => cases hg : g.names <;> simp_all
  | duplicate l1 l2 n hg _ => simp [hg]
  | mixed n hn _ _ _ => cases hg : g.names <;> simp_all
  | unknownCondName nc hnc _ => cases hg : g.withConds <;> simp_all
  | argument nc hnc _ _ _ => cases hg : g.withConds <;> simp_all
  | operation nc hnc _ _ _ => cases hg : g.withConds <;> simp_all

theorem assembleGroup_error_of_defect (g : Group) (hd : GroupDefect A g) :
    ∃ e, assembleGroup A ly g = .error e := by
  obtain ⟨ps, hps⟩ := toEntries_error_of_defect A g hd
  unfold assembleGroup
  simp [group_nonempty_of_defect A g hd, hps]

theorem assembleGroups_error_of_mem : ∀ (gs : List Group) (g : Group), g ∈ gs →
    (∃ e, assembleGroup A ly g = .error e) → ∃ e, assembleGroups A ly gs = .error e
  | [], _, h, _ => by cases h
  | x :: rest, g, hmem, herr => by
    simp only [assembleGroups]
    rcases List.mem_cons.1 hmem with rfl | hm
    · obtain ⟨e, he⟩ := herr; exact ⟨e, by simp [he]⟩
    · cases hx : assembleGroup A ly x with
      | error e => exact ⟨e, rfl⟩
      | ok out =>
        obtain ⟨e, he⟩ := assembleGroups_error_of_mem rest g hm herr
        exact ⟨e, by simp [he]⟩

/-- **Defective ⇒ rejected**: an unknown default action, no groups, no tables, an unknown name, a name
    duplicated within `Names`, a name with and without conditions in one group, an argument index
    above 5 and an unimplemented operation all make the compiler return an error — at whatever
    position of the policy the defect sits, and whatever else the policy contains. -/
theorem defective_rejected (oA : Option ArchInfo) (p : Policy) (hd : Defective oA p) :
    ∃ e, assemblePolicy oA ly p = .error e := by
  unfold assemblePolicy
  by_cases h1 : namedActions.contains p.default = true
  · simp only [h1, Bool.not_true, Bool.false_eq_true, if_false]
    by_cases h2 : p.groups.isEmpty = true
    · exact ⟨.empty, by simp [h2]⟩
    · simp only [h2, if_false]
      cases hd with
      | unknownDefault _ _ h => exact absurd (by simpa using h1) h
      | noGroups _ _ h => simp [h] at h2
      | noTables _ => exact ⟨.arch, rfl⟩
      | group A' _ g hg hdg =>
        obtain ⟨e, he⟩ := assembleGroups_error_of_mem A' ly p.groups g hg (assembleGroup_error_of_defect A' ly g hdg)
        exact ⟨e, by simp [he]⟩
  · exact ⟨.default, by
      have h1' : p.default ∉ namedActions := by simpa using h1
      simp [h1']⟩

/-- **An error comes without a program** (the result is an error *or* a program). -/
theorem error_no_program (oA : Option ArchInfo) (p : Policy) (e : CErr) (h : assemblePolicy oA ly p = .error e) :
    ∀ prog, assemblePolicy oA ly p ≠ .ok prog := by
  intro prog hp; rw [h] at hp; cases hp

/-- the error classes of the first checks, exactly -/
theorem unknown_default_error (oA : Option ArchInfo) (p : Policy) (h : p.default ∉ namedActions) :
    assemblePolicy oA ly p = .error .default := by
  simp [assemblePolicy, h]

theorem no_groups_error (oA : Option ArchInfo) (p : Policy) (hd : p.default ∈ namedActions) (h : p.groups = []) :
    assemblePolicy oA ly p = .error .empty := by
  simp [assemblePolicy, hd, h]

theorem no_tables_error (p : Policy) (hd : p.default ∈ namedActions) (h : p.groups ≠ []) :
    assemblePolicy none ly p = .error .arch := by
  simp [assemblePolicy, hd, h]

/-- **Nothing is dropped silently**: if the compiler accepts a policy then every condition written in
    it has an implemented operation and an argument index ≤ 5 (and by `C01.compile_correct` every one
    of them takes part in the decision, because the decision is `Spec.decision` of the policy as
    written). -/
theorem accepted_conditions_valid (p : Policy) (prog : List Instr)
    (h : assemblePolicy (some A) ly p = .ok prog) :
    ∀ g ∈ p.groups, ∀ nc ∈ g.withConds, ∀ c ∈ nc.conds, c.arg ≤ 5 ∧ (opOfString c.op).isSome = true := by
  intro g hg nc hnc c hc
  refine ⟨?_, ?_⟩
  · apply Nat.le_of_not_gt; intro hgt
    obtain ⟨e, he⟩ := defective_rejected ly (some A) p (.group A p g hg (.argument nc hnc c hc hgt))
    rw [h] at he; cases he
  · cases ho : opOfString c.op with
    | some _ => rfl
    | none =>
      obtain ⟨e, he⟩ := defective_rejected ly (some A) p (.group A p g hg (.operation nc hnc c hc ho))
      rw [h] at he; cases he

/-- the names of an accepted policy all exist in the architecture's table -/
theorem accepted_names_known (p : Policy) (prog : List Instr)
    (h : assemblePolicy (some A) ly p = .ok prog) :
    ∀ g ∈ p.groups, (∀ n ∈ g.names, (A.number n).isSome = true) ∧
      (∀ nc ∈ g.withConds, (A.number nc.name).isSome = true) := by
  intro g hg
  constructor
  · intro n hn
    cases ho : A.number n with
    | some _ => rfl
    | none =>
      obtain ⟨e, he⟩ := defective_rejected ly (some A) p (.group A p g hg (.unknownName n hn ho))
      rw [h] at he; cases he
  · intro nc hnc
    cases ho : A.number nc.name with
    | some _ => rfl
    | none =>
      obtain ⟨e, he⟩ := defective_rejected ly (some A) p (.group A p g hg (.unknownCondName nc hnc ho))
      rw [h] at he; cases he

theorem assembleGroups_ok (hinj : NumInj A) : ∀ (gs : List Group), (∀ g ∈ gs, GroupValid A g) →
    ∃ outs, assembleGroups A ly gs = .ok outs
  | [], _ => ⟨[], rfl⟩
  | g :: more, hv => by
    simp only [assembleGroups]
    have hg : ∃ out, assembleGroup A ly g = .ok out := by
      unfold assembleGroup
      split
      · exact ⟨[], rfl⟩
      · obtain ⟨ents, he⟩ := toEntries_ok A hinj g (hv g List.mem_cons_self)
        obtain ⟨out, ho⟩ := assemble_group_total ly ents (enc g.action)
        exact ⟨out, by simp [he, ho]⟩
    obtain ⟨out, ho⟩ := hg
    obtain ⟨outs, hos⟩ := assembleGroups_ok hinj more (fun g' hg' => hv g' (List.mem_cons_of_mem _ hg'))
    exact ⟨out :: outs, by simp [ho, hos]⟩

/-- **Valid ⇒ accepted.**  A policy with a named default action, at least one group, a table in which
    different names have different numbers (true of every real table: C12), and groups free of the
    listed defects is accepted: the compiler returns a program.  No size bound is needed for acceptance
    by the compiler (the 4096 limit is the kernel's, C05), and entries with an empty condition list are
    accepted too (they never match, C03).  The key step is `assemble_group_total`: the label resolver
    never fails on the label programs the group compiler builds, whatever their size. -/
theorem valid_accepted (hinj : NumInj A) (p : Policy) (hd : p.default ∈ namedActions)
    (hg : p.groups ≠ []) (hv : ∀ g ∈ p.groups, GroupValid A g) :
    ∃ prog, assemblePolicy (some A) ly p = .ok prog := by
  unfold assemblePolicy
  simp only [List.contains_eq_mem, hd, decide_true, Bool.not_true, Bool.false_eq_true, if_false,
    List.isEmpty_iff, hg]
  obtain ⟨outs, ho⟩ := assembleGroups_ok A ly hinj p.groups hv
  exact ⟨policyProg A.archI (outs.flatten ++ [Instr.ret (enc p.default)]), by simp [ho]⟩

/-- a group is free of the listed defects exactly when it is `GroupValid` (the positive form) -/
theorem valid_of_no_defect (g : Group) (h : ¬ GroupDefect A g) : GroupValid A g := by
  refine ⟨?_, ?_, ?_, ?_, ?_⟩
  · intro n hn
    cases ho : A.number n with
    | some _ => rfl
    | none => exact absurd (.unknownName n hn ho) h
  · -- a duplicated name is a defect
    by_cases hnd : g.names.Nodup
    · exact hnd
    · exfalso
      have : ∃ l1 l2 n, g.names = l1 ++ n :: l2 ∧ n ∈ l2 := by
        generalize g.names = names at hnd
        induction names with
        | nil => exact absurd List.nodup_nil hnd
        | cons x rest ih =>
          by_cases hx : x ∈ rest
          · exact ⟨[], rest, x, rfl, hx⟩
          · have hr : ¬ rest.Nodup := fun hr => hnd (List.nodup_cons.2 ⟨hx, hr⟩)
            obtain ⟨l1, l2, n, he, hn⟩ := ih hr
            exact ⟨x :: l1, l2, n, by simp [he], hn⟩
      obtain ⟨l1, l2, n, he, hn⟩ := this
      exact h (.duplicate l1 l2 n he hn)
  · intro nc hnc
    cases ho : A.number nc.name with
    | some _ => rfl
    | none => exact absurd (.unknownCondName nc hnc ho) h
  · intro nc hnc hmem
    exact h (.mixed nc.name hmem nc hnc rfl)
  · intro nc hnc c hc
    constructor
    · apply Nat.le_of_not_gt; intro hgt
      exact h (.argument nc hnc c hc hgt)
    · cases ho : opOfString c.op with
      | some _ => rfl
      | none => exact absurd (.operation nc hnc c hc ho) h

/-- **Accepted ⇔ free of the listed defects** (for tables with distinct numbers). -/
theorem accepted_iff_not_defective (hinj : NumInj A) (p : Policy) :
    (∃ prog, assemblePolicy (some A) ly p = .ok prog) ↔ ¬ Defective (some A) p := by
  constructor
  · rintro ⟨prog, hp⟩ hd
    obtain ⟨e, he⟩ := defective_rejected ly (some A) p hd
    rw [hp] at he; cases he
  · intro hnd
    refine valid_accepted A ly hinj p ?_ ?_ ?_
    · apply Classical.byContradiction; intro h; exact hnd (.unknownDefault _ _ h)
    · intro h; exact hnd (.noGroups _ _ h)
    · intro g hg
      exact valid_of_no_defect A g (fun hd => hnd (.group A p g hg hd))

/-! ### non-vacuity: each defect is inhabited, and a valid policy is accepted -/

def badOp : Policy :=
  { default := actAllow,
    groups := [ { names := ["read"], action := actKillProcess,
                  withConds := [ { name := "write", conds := [ { arg := 1, op := "equal", val := 6#64 },
                                                               { arg := 0, op := "Equal", val := 5#64 } ] } ] } ] }

theorem badOp_defective : Defective (some C01.tinyArch) badOp :=
  .group _ _ _ List.mem_cons_self
    (.operation { name := "write", conds := [ { arg := 1, op := "equal", val := 6#64 },
                                              { arg := 0, op := "Equal", val := 5#64 } ] }
      List.mem_cons_self { arg := 1, op := "equal", val := 6#64 } List.mem_cons_self (by decide))

theorem badOp_rejected :
    (match assemblePolicy (some C01.tinyArch) (Layout.ofEndian .little) badOp with
     | .error e => e == .problems [.operation "equal"]
     | .ok _ => false) = true := by decide +kernel

theorem valid_accepted_example : (assemblePolicy (some C01.tinyArch) (Layout.ofEndian .little) C01.twoGroups).toOption.isSome = true :=
  C01.twoGroups_accepted

end C07
